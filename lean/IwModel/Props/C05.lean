import IwModel.Lemmas.Wal
import IwModel.Lemmas.WalWriter
/-! # C05 — a damaged or cut-off log tail never yields a state that is not a synced prefix

Property theorems over the executable model `IwModel.Wal` (pre-scan `_last_fix_and_reset_points`,
roll-forward `_rollforward_exl`, recovery `_recover_wl` of `src/kv/iwal.c`).  The log is any byte
string `w`; `walk w` lists the records both loops step through in the *uncut* log with their positions. -/
namespace IwModel.C05
open IwModel IwModel.Wal IwModel.Gen.Wal

/-- Every separator's segment ends no later than the next savepoint record ends: the writer closes the
current segment with every savepoint (`_savepoint_exl`/`_checkpoint_exl` flush right after the mark). -/
def SegClosed (w : Bytes) : Prop :=
  ∀ p c l s, (p, Rec.sep c l) ∈ walk w → (s, Rec.savepoint) ∈ walk w → p < s → p + 12 + l ≤ s + 12

/-- The main-file image at the savepoint record at position `f` of log `w` over pre-image `m`: every record
before `f` applied in order (what a checkpoint taken at that savepoint writes); `f = 0` is the pre-image. -/
def stateAt (cfg : Cfg) (w m : Bytes) (f : Nat) : Bytes := if f = 0 then m else (replay cfg f w m).main

/-- **A half-written data record is never applied.** Whatever bytes the log holds, a record that either loop
accepts (savepoint and reset marks carry no data) lies completely inside the file, together with the payload
or segment body its handler reads. -/
theorem applied_record_complete (rest : Bytes) (r : Rec) (adv : Nat) (h : parse rest = some (r, adv))
    (h1 : r ≠ .savepoint) (h2 : r ≠ .reset) :
    need r adv ≤ rest.length ∧ (body r rest).length = (match r with | .sep _ l => l | .write _ l _ => l | _ => 0) := by
  have hf := parse_fits h h1 h2
  refine ⟨hf, ?_⟩
  have ⟨e1, e2⟩ := parse_adv_eq h
  cases r with
  | sep c l => have := e1 c l rfl; simp only [need] at hf; simp only [body, sz_WBSEP, List.length_take, List.length_drop]; omega
  | write c l o => have := e2 c l o rfl; simp only [need] at hf; simp only [body, sz_WBWRITE, List.length_take, List.length_drop]; omega
  | _ => rfl

theorem no_savepoint_at_zero (w : Bytes) (hsep : w.headD 0 = WOP_SEP) : (0, Rec.savepoint) ∉ walk w := by
  unfold walk
  cases hl : w.length with
  | zero => simp [walkAux]
  | succ n =>
    simp only [walkAux]
    split
    · simp
    · cases hp : parse w with
      | none => simp
      | some ra =>
        obtain ⟨r, adv⟩ := ra
        simp only [List.mem_cons, Prod.mk.injEq, true_and, not_or]
        constructor
        · intro hr
          subst hr
          unfold parse at hp
          simp only [hsep, if_true] at hp
          split at hp
          · simp at hp
          · split at hp <;> simp at hp
        · intro hm
          have := walkAux_pos_ge _ _ _ _ _ hm
          have := parse_adv_pos hp
          omega

/-- **Lost tail.** Cut a log `w` (starting with a separator, segments closed at savepoints, no reset marks,
its complete roll-forward over `m` succeeds) at any byte length `n`.  Recovery of the cut log succeeds,
truncates the log, and leaves the main file in the state of a savepoint `f` of `w` which (1) lies
completely inside the cut with everything before it, and (2) is not older than any savepoint record that
survived intact. `f = 0` stands for the pre-image (no savepoint survived). -/
theorem recover_cut (cfg : Cfg) (w m : Bytes) (n : Nat) (hn : n ≤ w.length)
    (hsep : w.headD 0 = WOP_SEP) (hclosed : SegClosed w) (hnoreset : ∀ p, (p, Rec.reset) ∉ walk w)
    (hok : (replay cfg 0 w m).rc = .ok) :
    ∃ f, (f = 0 ∨ ((f, Rec.savepoint) ∈ walk w ∧ f + 12 ≤ n)) ∧
      (∀ s, (s, Rec.savepoint) ∈ walk w → s + 12 ≤ n → s ≤ f) ∧
      recover cfg 1 (w.take n) m = (.ok, stateAt cfg w m f, []) := by
  have hlen : (w.take n).length = n := by simp; omega
  have hpre : prescan (w.take n) = prescanAux w.length (w.take n) 0 true 0 0 := by
    unfold prescan; exact prescanAux_fuel _ _ _ _ _ _ _ (by omega) (by omega)
  have hrp : (prescanAux w.length (w.take n) 0 true 0 0).2 = 0 :=
    prescanAux_cut_noreset w.length w n 0 true 0 0 hnoreset
  refine ⟨(prescanAux w.length (w.take n) 0 true 0 0).1, ?_, ?_, ?_⟩
  · by_cases h0 : (prescanAux w.length (w.take n) 0 true 0 0).1 = 0
    · left; exact h0
    · right; have := prescanAux_cut_found w.length w n 0 true 0 0 hn h0; exact ⟨this.1, by omega⟩
  · intro s hs hsn
    exact prescanAux_cut_ge w.length w n 0 true 0 0 s hn (fun _ => hsep) hs (by omega)
      (fun p c l hp hlt => hclosed p c l s hp hs hlt)
  · generalize hf : (prescanAux w.length (w.take n) 0 true 0 0).1 = f at *
    have hpair : prescan (w.take n) = (f, 0) := by rw [hpre]; exact Prod.ext hf hrp
    unfold recover rollforward stateAt
    by_cases hemp : (w.take n).isEmpty
    · have : f = 0 := by
        have : w.take n = [] := by simpa using hemp
        rw [this] at hf; cases hw : w.length <;> simp [prescanAux, hw] at hf <;> omega
      simp [hemp, this]
    · simp only [hemp, Bool.false_eq_true, if_false, hpair]
      by_cases h0 : f = 0
      · simp [h0]
      · have hcut := replayAux_cut cfg w.length w n 0 true 0 0 m (by rw [hf]; exact h0)
        rw [hf] at hcut
        have hrep : replay cfg f (w.take n) m = replay cfg f w m := by
          unfold replay
          rw [replayAux_fuel cfg f _ w.length _ _ _ _ (by omega) (by omega)]
          exact hcut
        have hrc : (replay cfg f w m).rc = .ok :=
          replayAux_stop_ok cfg f 0 w.length w 0 true m
            (fun p hp h => no_savepoint_at_zero w hsep (h ▸ hp)) hok
        simp [h0, hrep, hrc]

/-- Common part of the two checksum theorems: the record `rp` at `p` of the intact log `w` keeps its header in `w'`
(same length, nothing changed before the end of that header) but its handler now answers `corrupted`. -/
theorem damage_detected_at (cfg : Cfg) (w w' m : Bytes) (p mode : Nat) (rp : Rec)
    (hlen : w.length = w'.length) (hsep : w.headD 0 = WOP_SEP)
    (hp : (p, rp) ∈ walk w)
    (hsame : w.take (p + hdr rp) = w'.take (p + hdr rp))
    (hdisj : ∀ q c' l', (q, Rec.sep c' l') ∈ walk w → q < p → q + 12 + l' ≤ p + hdr rp)
    (hbad : ∀ x, (applyB cfg rp (body rp (w'.drop p)) x).1 = .corrupted)
    (hok : (replay cfg 0 w m).rc = .ok)
    (hmode : mode = 2 ∨ (mode = 1 ∧ (prescan w').2 = 0)) :
    (rollforward cfg mode 0 w' m).rc = .corrupted ∨
      ∃ f, (f = 0 ∨ (f, Rec.savepoint) ∈ walk w) ∧ rollforward cfg mode 0 w' m = ⟨.ok, stateAt cfg w m f⟩ := by
  have hne : w'.isEmpty = false := by
    cases w' with
    | nil =>
      have : w = [] := List.eq_nil_of_length_eq_zero (by simpa using hlen)
      subst this; simp [walk, walkAux] at hp
    | cons a t => rfl
  have hm0 : mode ≠ 0 := by rcases hmode with h | ⟨h, _⟩ <;> omega
  unfold rollforward
  simp only [hne, Bool.false_eq_true, if_false, hm0, ne_eq, not_false_eq_true, if_true]
  generalize hpf : prescan w' = pf
  obtain ⟨f', r'⟩ := pf
  simp only []
  by_cases hf0 : f' = 0
  · right; exact ⟨0, Or.inl rfl, by simp [hf0, stateAt]⟩
  · have hbranch : ¬ (r' > 0 ∧ mode = 1) := by
      rcases hmode with h | ⟨_, h2⟩
      · omega
      · rw [hpf] at h2; simp only at h2; omega
    simp only [hf0, if_false, hbranch]
    have key := replayAux_corrupt_at cfg f' 0 p rp w.length w w' 0 true m hlen (Nat.zero_le _)
      (by simpa using hsame) hp hdisj (fun q hq h => no_savepoint_at_zero w hsep (h ▸ hq)) hok (by simpa using hbad)
    have hrw : replay cfg f' w' m = replayAux cfg f' w.length w' 0 true m := by unfold replay; rw [hlen]
    rw [hrw]
    rcases key with h | ⟨h1, h2, h3⟩
    · left; exact h
    · right
      refine ⟨f', Or.inr h2, ?_⟩
      rw [h3]
      have hrc : (replay cfg f' w m).rc = .ok :=
        replayAux_stop_ok cfg f' 0 w.length w 0 true m (fun q hq h => no_savepoint_at_zero w hsep (h ▸ hq)) hok
      unfold replay at hrc
      unfold stateAt replay
      simp only [hf0, if_false]
      cases hh : replayAux cfg f' w.length w 0 true m with
      | mk rc mn => rw [hh] at hrc; simp only at hrc; subst hrc; rfl

/-- **Checksums (partial), segment bodies.**  Checksums on.  `w` is an intact log whose complete roll-forward succeeds;
`w'` has the same length and is unchanged up to and including the header of the separator at `p` (stored checksum
`c ≠ 0`, earlier segments end before `p`), and the bytes now covered by that checksum no longer hash to `c`; what
comes after may be changed in any way.  Then recovery of `w'` either fails with `corrupted` or ends in a savepoint
state of `w` (one before `p`).  Hypotheses that make this *partial*: `c ≠ 0` (the code skips the test for a zero
field), the abstract `crc` tells the two byte strings apart, the separator header itself is intact (it is not covered
by any checksum), and the pre-scan of the damaged log sees no reset mark (`mode = 2`, or its reset position is 0). -/
theorem crc_detects_partial (cfg : Cfg) (hcrc : cfg.crcOn = true) (w w' m : Bytes) (p c len mode : Nat)
    (hlen : w.length = w'.length) (hsep : w.headD 0 = WOP_SEP)
    (hp : (p, Rec.sep c len) ∈ walk w) (hc : c ≠ 0)
    (hsame : w.take (p + 12) = w'.take (p + 12))
    (hdisj : ∀ q c' l', (q, Rec.sep c' l') ∈ walk w → q < p → q + 12 + l' ≤ p)
    (hdetect : cfg.crc ((w'.drop (p + 12)).take len) ≠ c)
    (hok : (replay cfg 0 w m).rc = .ok)
    (hmode : mode = 2 ∨ (mode = 1 ∧ (prescan w').2 = 0)) :
    (rollforward cfg mode 0 w' m).rc = .corrupted ∨
      ∃ f, (f = 0 ∨ (f, Rec.savepoint) ∈ walk w) ∧ rollforward cfg mode 0 w' m = ⟨.ok, stateAt cfg w m f⟩ := by
  apply damage_detected_at cfg w w' m p mode (Rec.sep c len) hlen hsep hp (by simpa [hdr] using hsame)
    (fun q c' l' hq hlt => by have := hdisj q c' l' hq hlt; simp only [hdr]; omega) _ hok hmode
  intro x
  have hb : cfg.crc (body (Rec.sep c len) (w'.drop p)) ≠ c := by
    simpa [body, sz_WBSEP, List.drop_drop, Nat.add_comm] using hdetect
  simp [applyB, hcrc, hc, hb]

/-- **Checksums (partial), payloads.**  The same for the payload of a `WBWRITE` record at `p` with stored checksum
`c ≠ 0` (this is what protects a payload that `_write_wl` put *outside* its segment): header intact, the `len` bytes
now following it no longer hash to `c` ⇒ recovery fails with `corrupted` or ends in a savepoint state before `p`.
`hdisj`: every earlier segment, the one holding this header included, ends no later than the header does — the
situation of a payload outside its segment; a write in the middle of a segment is covered by that segment's checksum. -/
theorem crc_detects_payload_partial (cfg : Cfg) (hcrc : cfg.crcOn = true) (w w' m : Bytes) (p c len off mode : Nat)
    (hlen : w.length = w'.length) (hsep : w.headD 0 = WOP_SEP)
    (hp : (p, Rec.write c len off) ∈ walk w) (hc : c ≠ 0)
    (hsame : w.take (p + 20) = w'.take (p + 20))
    (hdisj : ∀ q c' l', (q, Rec.sep c' l') ∈ walk w → q < p → q + 12 + l' ≤ p + 20)
    (hdetect : cfg.crc ((w'.drop (p + 20)).take len) ≠ c)
    (hok : (replay cfg 0 w m).rc = .ok)
    (hmode : mode = 2 ∨ (mode = 1 ∧ (prescan w').2 = 0)) :
    (rollforward cfg mode 0 w' m).rc = .corrupted ∨
      ∃ f, (f = 0 ∨ (f, Rec.savepoint) ∈ walk w) ∧ rollforward cfg mode 0 w' m = ⟨.ok, stateAt cfg w m f⟩ := by
  apply damage_detected_at cfg w w' m p mode (Rec.write c len off) hlen hsep hp (by simpa [hdr] using hsame)
    (fun q c' l' hq hlt => by have := hdisj q c' l' hq hlt; simp only [hdr]; omega) _ hok hmode
  intro x
  have hb : cfg.crc (body (Rec.write c len off) (w'.drop p)) ≠ c := by
    simpa [body, sz_WBWRITE, List.drop_drop, Nat.add_comm] using hdetect
  simp [applyB, hcrc, hc, hb]

/-- **Lost tail, log with reset marks (online backup in progress).**  Cut the log at any length `n`; let the pre-scan
of the cut log report the savepoint `f` and the reset mark `r`, the mark being preceded by its separator in the
uncut log (`_rollforward_exl` appends `WBSEP, WBRESET`), and let the roll-forward of the uncut log from that
separator on succeed over `m` (the main file, which already holds everything up to the mark).  Then recovery succeeds;
it leaves the main file alone when the last savepoint precedes the mark, and otherwise ends exactly in the state
of savepoint `f` of the uncut log: all records from the mark's separator up to `f`, none after it, applied to `m`.
(`f` itself is characterised by `prescan_cut_savepoint`.) -/
theorem recover_cut_reset (cfg : Cfg) (w m : Bytes) (n f r : Nat) (hn : n ≤ w.length)
    (hpre : prescan (w.take n) = (f, r)) (hr : 12 ≤ r)
    (hmark : ∃ c l, (r - 12, Rec.sep c l) ∈ walk w)
    (hok : (replay cfg 0 (w.drop (r - 12)) m).rc = .ok) :
    (f < r → recover cfg 1 (w.take n) m = (.ok, m, [])) ∧
    (r ≤ f → recover cfg 1 (w.take n) m = (.ok, (replay cfg (f - (r - 12)) (w.drop (r - 12)) m).main, [])) := by
  have hne : (w.take n).isEmpty = false := by
    cases hh : (w.take n).isEmpty with
    | false => rfl
    | true =>
      have : w.take n = [] := by simpa using hh
      rw [this] at hpre; simp [prescan, prescanAux] at hpre; omega
  constructor
  · intro hlt
    unfold recover rollforward
    simp only [hne, Bool.false_eq_true, if_false, hpre]
    by_cases h0 : f = 0
    · simp [h0]
    · have : r > 0 ∧ (1:Nat) = 1 := ⟨by omega, rfl⟩
      simp [h0, this, hlt]
  · intro hle
    obtain ⟨c, l, hmem⟩ := hmark
    have hf0 : f ≠ 0 := by omega
    have hlen : (w.take n).length = n := by simp; omega
    -- the pre-scan with fuel |w|
    have hpre' : prescanAux w.length (w.take n) 0 true 0 0 = (f, r) := by
      rw [← hpre]; unfold prescan; exact prescanAux_fuel _ _ _ _ _ _ _ (by omega) (by omega)
    have hfound := prescanAux_cut_found w.length w n 0 true 0 0 hn (by rw [hpre']; exact hf0)
    rw [hpre'] at hfound
    simp only at hfound
    -- continue the pre-scan from the separator of the mark
    obtain ⟨fp', rp', hfp', hpass⟩ := prescanAux_pass w.length w n 0 true 0 0 (r - 12) (Rec.sep c l)
      (Nat.le_refl _) hn hmem (Nat.zero_le _) (by rw [hpre']; simp only; omega)
    simp only [Nat.sub_zero] at hpass
    obtain ⟨adv, hparse⟩ := walkAux_mem_parse _ _ _ _ _ hmem
    simp only [Nat.sub_zero] at hparse
    have hhead : (w.drop (r - 12)).headD 0 = WOP_SEP := parse_sep_head hparse
    have hk1 : 1 ≤ n - (r - 12) := by omega
    have hhead' : ((w.drop (r - 12)).take (n - (r - 12))).headD 0 = WOP_SEP := by rw [headD_take _ _ hk1]; exact hhead
    have hpass' : prescanAux w.length ((w.drop (r - 12)).take (n - (r - 12))) (r - 12) false fp' rp' = (f, r) := by
      rw [← hpre', hpass]
      cases hb : (true && decide (r - 12 = 0)) with
      | false => rfl
      | true => exact (prescanAux_first _ _ _ _ _ hhead').symm
    have hcut := replayAux_cut cfg w.length (w.drop (r - 12)) (n - (r - 12)) (r - 12) false fp' rp' m
      (by rw [hpass']; simp only; omega)
    rw [hpass'] at hcut
    simp only at hcut
    -- what the code computes
    have hdrop : (w.take n).drop (r - 12) = (w.drop (r - 12)).take (n - (r - 12)) := List.drop_take ..
    have hsh : f - (r - 12) + (r - 12) = f := by omega
    have e1 : replay cfg (f - (r - 12)) ((w.take n).drop (r - 12)) m = replayAux cfg f w.length ((w.drop (r - 12)).take (n - (r - 12))) (r - 12) false m := by
      unfold replay
      rw [hdrop, replayAux_fuel cfg _ _ w.length _ _ _ _ (Nat.le_refl _) (by simp; omega), replayAux_first _ _ _ _ _ _ hhead']
      have := replayAux_shift cfg (r - 12) w.length (f - (r - 12)) ((w.drop (r - 12)).take (n - (r - 12))) 0 false m
      rw [hsh, Nat.zero_add] at this
      exact this.symm
    have e2 : replay cfg (f - (r - 12)) (w.drop (r - 12)) m = replayAux cfg f w.length (w.drop (r - 12)) (r - 12) false m := by
      unfold replay
      rw [replayAux_fuel cfg _ _ w.length _ _ _ _ (Nat.le_refl _) (by simp), replayAux_first _ _ _ _ _ _ hhead]
      have := replayAux_shift cfg (r - 12) w.length (f - (r - 12)) (w.drop (r - 12)) 0 false m
      rw [hsh, Nat.zero_add] at this
      exact this.symm
    have hrc : (replay cfg (f - (r - 12)) (w.drop (r - 12)) m).rc = .ok :=
      replayAux_stop_ok cfg _ 0 _ _ 0 true m
        (fun q hq h => no_savepoint_at_zero _ hhead (h ▸ hq)) hok
    unfold recover rollforward
    have hcond : r > 0 ∧ (1:Nat) = 1 := ⟨by omega, rfl⟩
    have hnlt : ¬ f < r := by omega
    have h10 : (1:Nat) ≠ 0 := by decide
    simp only [hne, Bool.false_eq_true, if_false, hpre, hf0, hcond, hnlt, sz_WBSEP, ne_eq, if_true, h10, not_false_eq_true,
      and_self]
    rw [e1, hcut, ← e2]
    simp [hrc]

/-- For **every** byte string `w` and cut length `n`: the savepoint the pre-scan of the cut log reports (if any) is a
savepoint record of the uncut log lying completely inside the cut, and under `SegClosed` no intact savepoint record
is newer. (Holds with or without reset marks.) -/
theorem prescan_cut_savepoint (w : Bytes) (n : Nat) (hn : n ≤ w.length) :
    ((prescan (w.take n)).1 ≠ 0 → ((prescan (w.take n)).1, Rec.savepoint) ∈ walk w ∧ (prescan (w.take n)).1 + 12 ≤ n) ∧
    (w.headD 0 = WOP_SEP → SegClosed w → ∀ s, (s, Rec.savepoint) ∈ walk w → s + 12 ≤ n → s ≤ (prescan (w.take n)).1) := by
  have hlen : (w.take n).length = n := by simp; omega
  have hpre : prescan (w.take n) = prescanAux w.length (w.take n) 0 true 0 0 := by
    unfold prescan; exact prescanAux_fuel _ _ _ _ _ _ _ (by omega) (by omega)
  rw [hpre]
  constructor
  · intro h0
    have := prescanAux_cut_found w.length w n 0 true 0 0 hn h0
    exact ⟨this.1, by omega⟩
  · intro hsep hclosed s hs hsn
    exact prescanAux_cut_ge w.length w n 0 true 0 0 s hn (fun _ => hsep) hs (by omega)
      (fun p c l hp hlt => hclosed p c l s hp hs hlt)

/-- the executable disjointness test run on every real log gives the `hdisj` hypothesis of `crc_detects_partial` -/
theorem segDisjointB_sound (w : Bytes) (h : segDisjointB w = true) (p c len : Nat) (hp : (p, Rec.sep c len) ∈ walk w) :
    ∀ q c' l', (q, Rec.sep c' l') ∈ walk w → q < p → q + 12 + l' ≤ p := by
  intro q c' l' hq hlt
  unfold segDisjointB at h
  rw [List.all_eq_true] at h
  have h1 := h (q, Rec.sep c' l') hq
  simp only [] at h1
  rw [List.all_eq_true] at h1
  have h2 := h1 (p, Rec.sep c len) hp
  simp only [Bool.or_eq_true, Bool.not_eq_true', decide_eq_false_iff_not, decide_eq_true_eq] at h2
  rcases h2 with h2 | h2
  · exact absurd hlt h2
  · exact h2

/-- the executable test the correspondence check runs on every real log implies the hypothesis of `recover_cut` -/
theorem segClosedB_sound (w : Bytes) (h : segClosedB w = true) : SegClosed w := by
  intro p c l s hp hs hlt
  unfold segClosedB at h
  rw [List.all_eq_true] at h
  have h1 := h (p, Rec.sep c l) hp
  simp only [] at h1
  rw [List.all_eq_true] at h1
  have h2 := h1 (s, Rec.savepoint) hs
  simp only [beq_self_eq_true, Bool.not_true, Bool.false_or, Bool.or_eq_true, Bool.not_eq_true', decide_eq_false_iff_not,
    decide_eq_true_eq] at h2
  rcases h2 with h2 | h2
  · exact absurd hlt h2
  · exact h2

/-- side conditions on the regenerated layout the proofs unfold: packed record sizes of `iwal.h`, opcodes, and the
fields the loops read lie inside the headers -/
theorem wal_layout_ok :
    sz_WBSEP = 12 ∧ sz_WBSET = 24 ∧ sz_WBCOPY = 28 ∧ sz_WBWRITE = 20 ∧ sz_WBRESIZE = 20 ∧ sz_WBSAVEPOINT = 12 ∧ sz_WBRESET = 4 ∧
    [WOP_SET, WOP_COPY, WOP_WRITE, WOP_RESIZE, WOP_SAVEPOINT, WOP_RESET, WOP_SEP] = [1, 2, 3, 4, 5, 6, 127] ∧
    off_WBSEP_len + w_WBSEP_len = sz_WBSEP ∧ off_WBWRITE_off + w_WBWRITE_off = sz_WBWRITE ∧
    off_WBSET_len + w_WBSET_len = sz_WBSET ∧ off_WBCOPY_noff + w_WBCOPY_noff = sz_WBCOPY ∧
    off_WBRESIZE_nsize + w_WBRESIZE_nsize = sz_WBRESIZE ∧ PAGE_SIZE = 4096 := by decide

/-- a small log: separator (len 36), one `WBSET` (val 7, off 2, len 3), one savepoint -/
def exLog : Bytes :=
  [127,0,0,0, 0,0,0,0, 36,0,0,0] ++ [1,0,0,0, 7,0,0,0, 2,0,0,0,0,0,0,0, 3,0,0,0,0,0,0,0] ++ [5,0,0,0, 1,2,3,4,5,6,0,0]
def exCfg : Cfg := { crcOn := false, crc := fun _ => 0, maxoff := 0 }
def exMain : Bytes := [9,9,9,9,9,9,9,9]

theorem exLog_walk : walk exLog = [(0, Rec.sep 0 36), (12, Rec.set 7 2 3), (36, Rec.savepoint)] := by decide

/-- non-vacuity of `recover_cut`: the hypotheses hold for `exLog`; cut inside the savepoint record (40 of 48 bytes)
recovery returns to the pre-image, uncut it applies the store -/
example : ∃ f, (f = 0 ∨ ((f, Rec.savepoint) ∈ walk exLog ∧ f + 12 ≤ 40)) ∧
      (∀ s, (s, Rec.savepoint) ∈ walk exLog → s + 12 ≤ 40 → s ≤ f) ∧
      recover exCfg 1 (exLog.take 40) exMain = (.ok, stateAt exCfg exLog exMain f, []) :=
  recover_cut exCfg exLog exMain 40 (by decide) (by decide) (segClosedB_sound _ (by decide))
    (by intro p h; rw [exLog_walk] at h; simp at h) (by decide)

example : recover exCfg 1 exLog exMain = (.ok, [9,9,7,7,7,9,9,9], []) := by decide
example : recover exCfg 1 (exLog.take 40) exMain = (.ok, exMain, []) := by decide

/-! ## the writer: every log `_write_wl/_flush_wl/_savepoint_exl/_checkpoint_exl` can leave in the file satisfies the
hypotheses of the theorems above (they no longer have to be evaluated log by log) -/

/-- **Writer-produced logs are well-formed.**  Start from any main file with an empty log and take any sequence of
writer steps (listener events that fit their C types and lie inside the file, flushes, syncs, savepoints,
checkpoints, resize-forced checkpoints).  The log file then (1) is empty or starts with a separator, (2) closes every
segment no later than the next savepoint record ends (`SegClosed`), (3) holds no reset mark, (4) has pairwise disjoint
segments (the `hdisj` hypothesis of `crc_detects_partial`), (5) decodes to its very end, (6) rolls forward over the
current main file without error, and (7) what was `fsync`ed is a prefix of it. -/
theorem writer_log_wellformed (c : WalWriter.WCfg) (hc : c.Ok) (m : Bytes) (tr : List WalWriter.Step)
    (hv : WalWriter.ValidTrace c (WalWriter.init m) tr) :
    let s := WalWriter.run c (WalWriter.init m) tr
    (s.log = [] ∨ s.log.headD 0 = WOP_SEP) ∧ SegClosed s.log ∧ (∀ p, (p, Rec.reset) ∉ walk s.log) ∧
    (∀ p cr len, (p, Rec.sep cr len) ∈ walk s.log → ∀ q c' l', (q, Rec.sep c' l') ∈ walk s.log → q < p → q + 12 + l' ≤ p) ∧
    walkFull s.log = true ∧ (replay c.rd 0 s.log s.main).rc = .ok ∧ s.fsynced ≤ s.log.length := by
  intro s
  obtain ⟨g, hi⟩ := WalWriter.run_inv c hc tr _ _ (WalWriter.Inv_init c m) hv
  obtain ⟨hw, h1, h2, h3, h4⟩ := WalWriter.wf_facts hi
  refine ⟨h1, ?_, h2, ?_, h3, h4, hi.fs⟩
  · intro p cr l sp hp hs hlt
    rw [hw] at hp hs
    exact hi.w.wf.closed p cr l sp hp hs hlt
  · intro p cr len hp q c' l' hq hlt
    rw [hw] at hp hq
    exact hi.w.wf.disj q c' l' p cr len hq hp hlt

/-- **`recover_cut` for every writer-produced log**, without evaluated hypotheses: whatever the writer did, and wherever
the log file is then cut, recovery succeeds in the state of a savepoint of that log that lies inside the cut with all
its predecessors, not older than any intact one. -/
theorem writer_recover_cut (c : WalWriter.WCfg) (hc : c.Ok) (m : Bytes) (tr : List WalWriter.Step)
    (hv : WalWriter.ValidTrace c (WalWriter.init m) tr) (n : Nat) (hn : n ≤ (WalWriter.run c (WalWriter.init m) tr).log.length) :
    let s := WalWriter.run c (WalWriter.init m) tr
    ∃ f, (f = 0 ∨ ((f, Rec.savepoint) ∈ walk s.log ∧ f + 12 ≤ n)) ∧
      (∀ q, (q, Rec.savepoint) ∈ walk s.log → q + 12 ≤ n → q ≤ f) ∧
      Wal.recover c.rd 1 (s.log.take n) s.main = (.ok, stateAt c.rd s.log s.main f, []) := by
  intro s
  obtain ⟨h1, h2, h3, _, _, h6, _⟩ := writer_log_wellformed c hc m tr hv
  rcases h1 with h1 | h1
  · refine ⟨0, Or.inl rfl, ?_, ?_⟩
    · intro q hq; rw [show s.log = [] from h1] at hq; simp [walk, walkAux] at hq
    · rw [show s.log = [] from h1]; simp [Wal.recover, rollforward, stateAt]
  · exact recover_cut c.rd s.log s.main n hn h1 h2 h3 h6

/-- a writer configuration with room for 5 records of 12 bytes, a constant checksum -/
def exW : WalWriter.WCfg := { crcOn := false, crc := fun _ => 0, bufsz := 60, ckptBufSz := 1000, maxoff := 0 }

theorem exW_ok : exW.Ok := ⟨by decide, by decide, fun _ => by show 0 < 2 ^ 32; omega⟩

/-- non-vacuity: a store, a savepoint, another store, a flush — a valid trace; its log is the 96 bytes of two segments -/
example : WalWriter.ValidTrace exW (WalWriter.init exMain) [.set 2 7 3, .savepoint 1 true, .write 0 [1, 2], .flush] :=
  ⟨by decide, trivial, by decide, trivial, trivial⟩

example : (WalWriter.run exW (WalWriter.init exMain) [.set 2 7 3, .savepoint 1 true, .write 0 [1, 2], .flush]).log.length = 82 := by decide

/-- `writer_recover_cut` instantiated: the 82-byte log cut inside its second segment still recovers -/
example : ∃ f, (Wal.recover exW.rd 1 ((WalWriter.run exW (WalWriter.init exMain) [.set 2 7 3, .savepoint 1 true, .write 0 [1, 2], .flush]).log.take 60)
    (WalWriter.run exW (WalWriter.init exMain) [.set 2 7 3, .savepoint 1 true, .write 0 [1, 2], .flush]).main).1 = .ok ∧ f + 12 ≤ 60 := by
  obtain ⟨f, h1, _, h3⟩ := writer_recover_cut exW exW_ok exMain [.set 2 7 3, .savepoint 1 true, .write 0 [1, 2], .flush]
    ⟨by decide, trivial, by decide, trivial, trivial⟩ 60 (by decide)
  refine ⟨if f = 0 then 0 else f, by rw [h3], ?_⟩
  rcases h1 with rfl | ⟨_, h⟩
  · simp
  · split <;> omega

end IwModel.C05
