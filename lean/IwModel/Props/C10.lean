import IwModel.Lemmas.FsmLife
import IwModel.Lemmas.FsmBytes
/-! # C10 — the block allocator never hands out space that is already in use

Property theorems only.  `Inv` is the allocator invariant of C11 (`IwModel/Lemmas/FsmInv.lean`); it holds after every
history (`IwModel.C11.inv_reachable`).  `UserUsed s i` means: block `i` is allocated in state `s` and is not one of the
bitmap's own blocks — i.e. it belongs to the file header or to a region some caller holds.  All statements hold for
every over-allocation heuristic `h` (the C code computes it in `double`). -/
namespace IwModel.C10
open IwModel IwModel.Fsm

/-- the blocks of the byte range `[addr, addr+len)` -/
def InRegion (s : St) (addr len i : Nat) : Prop := addr / bsz s ≤ i ∧ i < addr / bsz s + len / bsz s

/-- **alloc_fresh / alloc_disjoint.** A successful `allocate` returns blocks none of which was held by the header or
    by a caller before (not even after the bitmap grew and moved during the call); afterwards they are allocated, lie
    behind the header and outside the (possibly new) bitmap; and every block that was held before is still held — so the
    region is disjoint from every live region, from the header and from the allocator's own bitmap. -/
theorem alloc_fresh (h : Heur) {s : St} (hI : Inv s) (lenB hintB : Nat) (f : Flags)
    (hok : (allocate h s lenB hintB f).2.1 = .ok) :
    (∀ i, InRegion s (allocate h s lenB hintB f).2.2.1 (allocate h s lenB hintB f).2.2.2 i →
        ¬ UserUsed s i ∧ UserUsed (allocate h s lenB hintB f).1 i ∧ hdrBlk s ≤ i) ∧
    (∀ i, UserUsed s i → UserUsed (allocate h s lenB hintB f).1 i) := by
  obtain ⟨_, _, hmono, hx⟩ := allocate_spec h hI lenB hintB f
  obtain ⟨off, olen, e1, e2, _, hA⟩ := hx hok
  refine ⟨fun i hi => ?_, hmono⟩
  unfold InRegion at hi
  have hk := bsz_pos s
  rw [e1, e2, Nat.mul_div_cancel _ hk, Nat.mul_div_cancel _ hk] at hi
  exact hA.fresh i hi.1 hi.2

/-- **alloc_aligned.** Address and length are multiples of the block size; with PAGE_ALIGNED the address is a
    multiple of the page size. -/
theorem alloc_aligned (h : Heur) {s : St} (hI : Inv s) (lenB hintB : Nat) (f : Flags)
    (hok : (allocate h s lenB hintB f).2.1 = .ok) :
    (allocate h s lenB hintB f).2.2.1 % bsz s = 0 ∧ (allocate h s lenB hintB f).2.2.2 % bsz s = 0 ∧
    (f.pageAligned = true → (allocate h s lenB hintB f).2.2.1 % s.aunit = 0) := by
  obtain ⟨_, _, _, hx⟩ := allocate_spec h hI lenB hintB f
  obtain ⟨off, olen, e1, e2, _, hA⟩ := hx hok
  rw [e1, e2]
  refine ⟨Nat.mul_mod_left _ _, Nat.mul_mod_left _ _, fun hp => ?_⟩
  -- off is a multiple of the page's block count and the page is a whole number of blocks
  have h1 := (hA.aligned hp).1
  have h2 := Nat.div_add_mod off (aunitBlk s)
  have h3 := Nat.div_add_mod s.aunit (bsz s)
  rw [h1] at h2; rw [hI.aunit_al] at h3
  unfold aunitBlk at h2 h1
  have e : off * bsz s = s.aunit * (off / (s.aunit / bsz s)) := by
    have e3 : bsz s * (s.aunit / bsz s) = s.aunit := by omega
    calc off * bsz s = (s.aunit / bsz s * (off / (s.aunit / bsz s))) * bsz s := by
          have : s.aunit / bsz s * (off / (s.aunit / bsz s)) = off := by omega
          rw [this]
      _ = (bsz s * (s.aunit / bsz s)) * (off / (s.aunit / bsz s)) := by
          rw [Nat.mul_comm (s.aunit / bsz s * (off / (s.aunit / bsz s))) (bsz s), Nat.mul_assoc]
      _ = s.aunit * (off / (s.aunit / bsz s)) := by rw [e3]
  rw [e]; exact Nat.mul_mod_right _ _

/-- **alloc_len.** The region is at least as long as asked, and exactly the request rounded up to whole blocks when
    over-allocation is disabled or a page-aligned region is requested. -/
theorem alloc_len (h : Heur) {s : St} (hI : Inv s) (lenB hintB : Nat) (f : Flags)
    (hok : (allocate h s lenB hintB f).2.1 = .ok) :
    lenB ≤ (allocate h s lenB hintB f).2.2.2 ∧
    ((f.noOver = true ∨ f.pageAligned = true) → (allocate h s lenB hintB f).2.2.2 = roundup lenB (bsz s)) := by
  obtain ⟨_, _, _, hx⟩ := allocate_spec h hI lenB hintB f
  obtain ⟨off, olen, _, e2, _, hA⟩ := hx hok
  have hk := bsz_pos s
  have h1 := le_roundup lenB hk
  have h2 := roundup_mod lenB (bsz s)
  have h3 := Nat.div_add_mod (roundup lenB (bsz s)) (bsz s)
  rw [h2] at h3
  rw [e2]
  have hge := Nat.mul_le_mul_right (bsz s) hA.len_ge
  have e : roundup lenB (bsz s) / bsz s * bsz s = roundup lenB (bsz s) := by rw [Nat.mul_comm]; omega
  refine ⟨by omega, fun hf => ?_⟩
  have : olen = roundup lenB (bsz s) / bsz s := by
    rcases hf with c | c
    · exact hA.exact c
    · exact (hA.aligned c).2
  rw [this, e]

/-- **alloc_solid.** With SOLID_ALLOCATED_SPACE the file covers the region. -/
theorem alloc_solid (h : Heur) {s : St} (hI : Inv s) (lenB hintB : Nat) (f : Flags)
    (hok : (allocate h s lenB hintB f).2.1 = .ok) (hs : f.solid = true) :
    (allocate h s lenB hintB f).2.2.1 + (allocate h s lenB hintB f).2.2.2 ≤ (allocate h s lenB hintB f).1.fsize := by
  obtain ⟨_, _, _, hx⟩ := allocate_spec h hI lenB hintB f
  obtain ⟨off, olen, e1, e2, _, hA⟩ := hx hok
  rw [e1, e2, ← Nat.add_mul]; exact hA.solid hs

/-- **dealloc_guard.** A release that touches the header or the bitmap is refused and changes nothing. -/
theorem dealloc_guard {s : St} {a l : Nat} (hal : a % bsz s = 0) (hl : l / bsz s ≠ 0)
    (hg : guarded s (a / bsz s) (l / bsz s) = true) : deallocate s a l = (s, .segm) :=
  deallocate_guarded hal hl hg

/-- Ranges that overlap the header or the bitmap are the guarded ones. -/
theorem guarded_of_overlap {s : St} (hI : Inv s) {off len i : Nat} (h1 : off ≤ i) (h2 : i < off + len)
    (hi : i < hdrBlk s ∨ (bmOffBlk s ≤ i ∧ i < bmOffBlk s + bmLenBlk s)) : guarded s off len = true := by
  cases hg : guarded s off len with
  | true => rfl
  | false =>
    exfalso
    have := guarded_false hI (by omega) hg
    omega

/-- **strict refusal.** In strict mode a release of a range that is not completely allocated (or reaches past the
    bitmap) is refused and changes nothing. -/
theorem dealloc_strict_refuses {s : St} (hs : s.strict = true) (a l : Nat)
    (hbad : ¬ RangeAllocated s (a / bsz s) (l / bsz s)) :
    (deallocate s a l).1 = s ∧ (deallocate s a l).2 ≠ .ok := by
  unfold deallocate
  split
  · exact ⟨rfl, by simp⟩
  · simp only
    split
    · exact ⟨rfl, by simp⟩
    · split
      · exact ⟨rfl, by simp⟩
      · rw [deallocLw_refuse_strict hs hbad]; exact ⟨rfl, by simp⟩

/-- **dealloc effect.** A release in order clears exactly the blocks of the range: every other block that was held
    stays held, and the invariant holds again. -/
theorem dealloc_exact {s : St} (hI : Inv s) {a l : Nat} (hal : a % bsz s = 0) (hl : l / bsz s ≠ 0)
    (hg : guarded s (a / bsz s) (l / bsz s) = false) (hra : RangeAllocated s (a / bsz s) (l / bsz s)) :
    (deallocate s a l).2 = .ok ∧ Inv (deallocate s a l).1 ∧
    (deallocate s a l).1.bits = setRange s.bits (a / bsz s) (l / bsz s) false := by
  have hgf := guarded_false hI (Nat.pos_of_ne_zero hl) hg
  obtain ⟨r1, r2, _, _⟩ := deallocLw_spec hI (Nat.pos_of_ne_zero hl) hra.1 hra.2 hgf.1
  have hinv := inv_deallocLw hI (Nat.pos_of_ne_zero hl) hra.1 hra.2 hgf.1 hgf.2
  unfold deallocate
  simp only [hal, hl, hg, ne_eq, not_true_eq_false, if_false, Bool.false_eq_true]
  exact ⟨r1, hinv, r2⟩

/-- **realloc.** Reallocation (shrink, grow with move, bitmap growth inside the call) preserves the invariant. -/
theorem realloc_inv (h : Heur) {s : St} (hI : Inv s) (nlenB addrB olenB : Nat) (f : Flags)
    (hok : ReleaseOk s (addrB / bsz s) (olenB / bsz s)) : Inv (reallocate h s nlenB addrB olenB f).1 :=
  inv_reallocate h hI nlenB addrB olenB f hok

/-- **realloc_fresh.** A growing `reallocate` that succeeds returns a region of at least the requested length whose
    blocks were held by nobody before the call; the old region is allocated until the copy is done (it is released
    afterwards), so the two are disjoint and `pool.copy` reads intact bytes. (The byte copy itself is the file
    layer's; it is tied by the pattern check of the harness.) -/
theorem realloc_fresh (h : Heur) {s : St} (hI : Inv s) (nlenB addrB olenB : Nat) (f : Flags)
    (hgrow : olenB / bsz s < roundup nlenB (bsz s) / bsz s)
    (hok : (reallocate h s nlenB addrB olenB f).2.1 = .ok) :
    ∃ naddr sp, (reallocate h s nlenB addrB olenB f).2.2.1 = naddr * bsz s ∧
      (reallocate h s nlenB addrB olenB f).2.2.2.1 = sp * bsz s ∧ roundup nlenB (bsz s) / bsz s ≤ sp ∧
      ∀ i, naddr ≤ i → i < naddr + sp → ¬ UserUsed s i :=
  reallocate_grow_fresh h hI nlenB addrB olenB f hgrow hok

/-- non-vacuity: on a concrete new file an allocation succeeds, so the hypotheses of the theorems above are met -/
example : Inv (openNew 6 64 0 0 false).1 := inv_openNew (by decide) (by decide) (by decide) (by decide)

/-! ### The bytes of a reallocated region

`Model/FsmBytes.lean` runs `reallocate` over the bytes of the pool: `Fsm.reallocate` on the blocks; on the pool first the
allocator's own stores up to the moment `_fsm_blk_allocate_lw` returns (`w1`), then `pool.copy(old address, old length, new
address)` of the exfile model (`Exf.copy`, C12) when the region moved, then the stores of `_fsm_blk_deallocate_lw` (`w2`).
`Held s i`: block `i` is allocated, not one of the bitmap's blocks, behind the header. `Keeps t q q'`: `q'` is `q` except on
bytes of blocks that are not `Held` in `t`, and not shorter — what a store of the allocator itself does to the pool. -/

open IwModel.FsmB in
/-- **`reallocate` preserves `min(old, new)` bytes, for every state and request.** Let the caller hold the old range (every
    block `Held`), let its bytes be on disk, let the pool have shared windows, and let the allocator's own stores (`w1` before the
    copy, `w2` after it) be of the kind that leaves held blocks alone. Then whenever `reallocate` succeeds — same number of
    blocks, shrunk in place, or grown into a new region with any number of bitmap doublings inside the call, any flags, any
    heuristic — `pool.copy` succeeds (source and destination never overlap forward: the new blocks were held by nobody), and
    reading `min(old length, new length)` bytes at the returned address gives exactly the bytes that stood at the old address
    before the call. -/
theorem realloc_keeps_bytes (h : Heur) {s : St} (hI : Inv s) (p : Exf.St) (w1 w2 : Exf.St → Exf.St) (nlenB addrB olenB : Nat)
    (f : Flags) (hheld : ∀ i, addrB / bsz s ≤ i → i < addrB / bsz s + olenB / bsz s → Held s i)
    (hdisk : addrB + olenB ≤ p.file.length)
    (hw1 : Keeps s p.file (w1 p).file) (hs1 : Exf.AllShared (w1 p).slots) (hc1 : 0 < (w1 p).cbuf)
    (hw2 : ∀ q, Keeps (reallocate h s nlenB addrB olenB f).1 q.file (w2 q).file)
    (hok : (reallocate h s nlenB addrB olenB f).2.1 = .ok) :
    (FsmB.reallocate h s p w1 w2 nlenB addrB olenB f).2.1 = .ok ∧
    Exf.readAt (FsmB.reallocate h s p w1 w2 nlenB addrB olenB f).2.2.file (reallocate h s nlenB addrB olenB f).2.2.1
        (min olenB (reallocate h s nlenB addrB olenB f).2.2.2.1) =
      Exf.readAt p.file addrB (min olenB (reallocate h s nlenB addrB olenB f).2.2.2.1) :=
  reallocate_keeps h hI p w1 w2 nlenB addrB olenB f hheld hdisk hw1 hs1 hc1 hw2 hok

open IwModel.FsmB in
/-- the hypotheses of `realloc_keeps_bytes` are what the allocator provides: the blocks a successful `allocate` returned are
    held; an allocated range that passes the header/bitmap guard is held; a store of any bytes into the bitmap area, with the
    pool grown on disk, keeps held blocks (the bitmap area consists of blocks no caller holds); and so does no store at all -/
theorem realloc_hypotheses_met (h : Heur) {s : St} (hI : Inv s) :
    (∀ lenB hintB f, (allocate h s lenB hintB f).2.1 = .ok →
      ∀ i, (allocate h s lenB hintB f).2.2.1 / bsz (allocate h s lenB hintB f).1 ≤ i →
        i < (allocate h s lenB hintB f).2.2.1 / bsz (allocate h s lenB hintB f).1 +
            (allocate h s lenB hintB f).2.2.2 / bsz (allocate h s lenB hintB f).1 →
        Held (allocate h s lenB hintB f).1 i) ∧
    (∀ off len, 0 < len → guarded s off len = false → RangeAllocated s off len → ∀ i, off ≤ i → i < off + len → Held s i) ∧
    (∀ size img (p : Exf.St), Keeps s p.file (bitmapStore s size img p).file) ∧
    (∀ q : Bytes, Keeps s q q) :=
  ⟨fun lenB hintB f hok => held_of_allocate h hI lenB hintB f hok,
   fun _ _ hlen hg hra => held_of_allocated hI hlen hg hra,
   fun size img p => bitmapStore_keeps hI size img p,
   fun q => Keeps.refl s q⟩

end IwModel.C10
