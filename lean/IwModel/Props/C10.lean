import IwModel.Model.Fsm
/-! # C10 — the block allocator never hands out space that is already in use -/
namespace IwModel.C10
open IwModel IwModel.Fsm

end IwModel.C10
