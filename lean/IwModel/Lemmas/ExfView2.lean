import IwModel.Lemmas.ExfView
/-! The view after a write, a store through a mapping, adding and removing a window. -/
namespace IwModel.Exf
open IwModel

theorem slotWrite_priv (ps : Nat) (file : Bytes) (s : Slot) (r : Nat) (d : Bytes) : (slotWrite ps file s r d).1.priv = s.priv := by
  cases d with
  | nil => rfl
  | cons x xs =>
    by_cases hp : s.priv = true
    · have hg := cowFold_geom ps file (r / ps) ((r + (x :: xs).length - 1) / ps + 1 - r / ps) s
      simp only [] at hg
      simp only [slotWrite, hp, if_true]
      exact hg.2.2.1.trans hp
    · have hp' : s.priv = false := by simpa using hp
      rw [slotWrite_shared _ _ _ _ _ hp']

theorem slotWrite_priv_snd (ps : Nat) (file : Bytes) (s : Slot) (r : Nat) (d : Bytes) (hp : s.priv = true) :
    (slotWrite ps file s r d).2 = file := by
  cases d with
  | nil => rfl
  | cons x xs => simp [slotWrite, hp]

theorem covers_geom (a b : Slot) (i : Nat) (h : geom a = geom b) : covers a i = covers b i := by
  simp only [geom, Prod.mk.injEq] at h
  unfold covers; rw [h.1, h.2.2]

theorem layOvl_geom (ps : Nat) (file : Bytes) (off : Nat) (d : Bytes) (s : Slot) : geom (layOvl ps file off d s) = geom s := by
  unfold layOvl; split
  · exact slotWrite_geom' _ _ _ _ _
  · rfl

theorem layOvl_priv (ps : Nat) (file : Bytes) (off : Nat) (d : Bytes) (s : Slot) : (layOvl ps file off d s).priv = s.priv := by
  unfold layOvl; split
  · exact slotWrite_priv _ _ _ _ _
  · rfl

/-- pages of the mapped part of a window lie inside the file -/
theorem pages_inside (ps : Nat) (hps : 0 < ps) (s : Slot) (fsize flen : Nat) (hs : s.len = slotLen s fsize)
    (h1 : s.off % ps = 0) (h2 : s.maxlen % ps = 0) (h3 : fsize % ps = 0) (hd : fsize ≤ flen) (m : Nat) (hm : m ≤ s.len) :
    ∀ p, p * ps < m → s.off + p * ps + ps ≤ flen := by
  intro p hp
  have hal : s.len % ps = 0 := by rw [hs]; exact slotLen_aligned ps s fsize h1 h2 h3
  have := page_inside ps s.len p hps hal (by omega)
  have := slotLen_le s fsize
  omega

/-- **after the two layers have taken a request**: the bytes of the request where it lies, everything else as before -/
theorem view_lay (ps : Nat) (hps : 0 < ps) (file : Bytes) (slots : List Slot) (fsize off : Nat) (d : Bytes)
    (hw : WInv slots fsize) (ha : AInv ps slots) (hf : fsize % ps = 0) (hdisk : fsize ≤ file.length) (i : Nat)
    (hi : i < file.length) :
    view ps (layFile file slots off d) (slots.map (layOvl ps file off d)) i =
      if off ≤ i ∧ i < off + d.length then d.getD (i - off) 0 else view ps file slots i := by
  have hw' : WInv (slots.map (layOvl ps file off d)) fsize := by
    refine WInv_of_geom _ slots fsize ?_ hw
    rw [List.map_map]
    apply List.map_congr_left
    intro s _
    exact layOvl_geom _ _ _ _ _
  by_cases hpc : privCov slots i = true
  · obtain ⟨s, hs, hsp⟩ := List.any_eq_true.mp hpc
    simp only [Bool.and_eq_true] at hsp
    obtain ⟨hpriv, hcov⟩ := hsp
    have hs' : layOvl ps file off d s ∈ slots.map (layOvl ps file off d) := List.mem_map_of_mem hs
    have hcov' : covers (layOvl ps file off d s) i = true := by
      rw [covers_geom _ s i (layOvl_geom _ _ _ _ _)]; exact hcov
    have hoff : (layOvl ps file off d s).off = s.off := by
      have := layOvl_geom ps file off d s
      simp only [geom, Prod.mk.injEq] at this; exact this.1
    rw [view_at_val ps _ _ fsize hw' _ hs' i hcov', view_at_val ps file slots fsize hw s hs i hcov, hoff]
    have hcv := hcov
    simp only [covers, Bool.and_eq_true, decide_eq_true_eq] at hcv
    have hfile : ∀ t : Slot, t.off = s.off → slotVal ps (layFile file slots off d) t (i - s.off) = slotVal ps file t (i - s.off) := by
      intro t ht
      have e : (layFile file slots off d).getD (t.off + (i - s.off)) 0 = file.getD (t.off + (i - s.off)) 0 := by
        rw [ht, show s.off + (i - s.off) = i by omega, layFile_getD _ _ _ _ _ hi,
          if_neg (by intro hx; rw [hpc] at hx; exact absurd hx.2.2 (by simp))]
      unfold slotVal
      rw [e]
    rw [hfile _ hoff]
    have hl : layOvl ps file off d s = (slotWrite ps file s (clip s off d).1 (clip s off d).2).1 := by
      unfold layOvl; rw [if_pos hpriv]
    have hclen : (clip s off d).2.length = min (off + d.length) (s.off + s.len) - max off s.off := by
      simp only [clip, List.length_take, List.length_drop]; omega
    have hc1 : (clip s off d).1 = max off s.off - s.off := rfl
    have hsl := (hw.2 s hs).2
    have hal := ha s hs
    rw [hl, slotWrite_val ps hps file s _ _ _ hpriv
      (fun p hpos hp => pages_inside ps hps s fsize file.length hsl hal.1 hal.2 hf hdisk
        ((clip s off d).1 + (clip s off d).2.length) (by rw [hclen] at hpos ⊢; rw [hc1]; omega) p hp)]
    by_cases hin : off ≤ i ∧ i < off + d.length
    · rw [if_pos hin, if_pos (by rw [hclen, hc1]; omega)]
      simp only [clip]
      rw [getD_take_drop _ _ _ _ (by omega)]
      congr 1; omega
    · rw [if_neg hin, if_neg (by rw [hclen, hc1]; omega)]
  · have hpc' : privCov slots i = false := by simpa using hpc
    have hun : ∀ s ∈ slots, s.priv = true → covers s i = false := by
      intro s hs hp
      have := List.any_eq_false.mp hpc' s hs
      simpa [hp] using this
    rw [view_uncovered ps _ _ i, view_uncovered ps file slots i hun, layFile_getD _ _ _ _ _ hi]
    · by_cases hin : off ≤ i ∧ i < off + d.length
      · rw [if_pos ⟨hin.1, hin.2, hpc'⟩, if_pos hin]
      · rw [if_neg (by intro hx; exact hin ⟨hx.1, hx.2.1⟩), if_neg hin]
    · intro t ht hp
      simp only [List.mem_map] at ht
      obtain ⟨s, hs, rfl⟩ := ht
      rw [layOvl_priv] at hp
      rw [covers_geom _ s i (layOvl_geom _ _ _ _ _)]
      exact hun s hs hp

/-! ## removing a window -/

theorem removeFirst_spec (o : Nat) : ∀ (slots out : List Slot), slots.Pairwise (fun a b => a.off + a.maxlen ≤ b.off) →
    (∀ s ∈ slots, 0 < s.maxlen) → removeFirst o slots = some out →
    ∃ s, slots.find? (fun s => s.off == o) = some s ∧ s ∈ slots ∧ ∀ t, t ∈ out ↔ (t ∈ slots ∧ t ≠ s)
  | [], out, _, _, h => by simp [removeFirst] at h
  | x :: xs, out, hp, hm, h => by
    have hpw := List.pairwise_cons.mp hp
    unfold removeFirst at h
    by_cases hx : x.off = o
    · rw [if_pos hx] at h
      simp only [Option.some.injEq] at h; subst h
      refine ⟨x, by simp [hx], List.mem_cons_self, ?_⟩
      intro t
      constructor
      · intro ht
        refine ⟨List.mem_cons_of_mem _ ht, ?_⟩
        intro he; subst he
        have := hpw.1 t ht
        have := hm t List.mem_cons_self
        omega
      · intro ⟨ht, hne⟩
        rcases List.mem_cons.mp ht with h' | h'
        · exact absurd h' hne
        · exact h'
    · rw [if_neg hx] at h
      cases hr : removeFirst o xs with
      | none => simp [hr] at h
      | some out' =>
        simp only [hr, Option.map_some, Option.some.injEq] at h; subst h
        obtain ⟨s, hf, hs, hiff⟩ := removeFirst_spec o xs out' hpw.2 (fun s hs => hm s (List.mem_cons_of_mem _ hs)) hr
        have hso : s.off = o := by
          have := List.find?_some hf
          simpa using this
        refine ⟨s, by simp [hx, hf], List.mem_cons_of_mem _ hs, ?_⟩
        intro t
        simp only [List.mem_cons, hiff]
        constructor
        · rintro (rfl | ⟨h1, h2⟩)
          · exact ⟨Or.inl rfl, by intro he; rw [he] at hx; exact hx hso⟩
          · exact ⟨Or.inr h1, h2⟩
        · rintro ⟨rfl | h1, h2⟩
          · exact Or.inl rfl
          · exact Or.inr ⟨h1, h2⟩

/-- **after removing a window**: the bytes its overlay held show the file again -/
theorem view_remove (ps : Nat) (file : Bytes) (slots out : List Slot) (fsize o i : Nat) (hw : WInv slots fsize)
    (hr : removeFirst o slots = some out) :
    view ps file out i = if inOvlOf ps slots o i then file.getD i 0 else view ps file slots i := by
  obtain ⟨s, hf, hs, hiff⟩ := removeFirst_spec o slots out hw.1 (fun s hs => (hw.2 s hs).1) hr
  simp only [inOvlOf, hf]
  rcases view_cases ps file slots i with ⟨_, hall, hv⟩ | ⟨_, c, hc, hin, _, hv⟩
  · rw [hall s hs, hv]
    simp only [Bool.false_eq_true, if_false]
    exact view_of_none ps file out i (fun t ht => hall t ((hiff t).mp ht).1)
  · by_cases hcs : c = s
    · subst hcs
      rw [hin, if_pos rfl]
      apply view_of_none
      intro t ht
      have := (hiff t).mp ht
      by_cases hx : inOvl ps t i = true
      · exact absurd (inOvl_unique ps slots fsize hw t c this.1 hc i hx hin) this.2
      · simpa using hx
    · have hsf : inOvl ps s i = false := by
        by_cases hx : inOvl ps s i = true
        · exact absurd (inOvl_unique ps slots fsize hw c s hc hs i hin hx) hcs
        · simpa using hx
      rw [hsf, hv]
      simp only [Bool.false_eq_true, if_false]
      exact view_of_unique ps file out i c ((hiff c).mpr ⟨hc, hcs⟩) hin
        (fun t ht hx => inOvl_unique ps slots fsize hw t c ((hiff t).mp ht).1 hc i hx hin)

/-! ## adding a window -/

theorem insertSlot_sub (ns : Slot) : ∀ (slots out : List Slot), insertSlot ns slots = some out → ∀ t ∈ slots, t ∈ out
  | [], _, _, t, ht => by simp at ht
  | x :: rest, out, h, t, ht => by
    unfold insertSlot at h
    split at h
    · cases h
    · split at h
      · simp only [Option.some.injEq] at h; subst h
        exact List.mem_cons_of_mem _ ht
      · cases hr : insertSlot ns rest with
        | none => simp [hr] at h
        | some out' =>
          simp only [hr, Option.map_some, Option.some.injEq] at h; subst h
          rcases List.mem_cons.mp ht with rfl | ht'
          · exact List.mem_cons_self
          · exact List.mem_cons_of_mem _ (insertSlot_sub ns rest out' hr t ht')

/-- **a new window** (private or not) starts without overlay: nothing changes for any reader -/
theorem view_insert (ps : Nat) (file : Bytes) (slots out : List Slot) (fsize i : Nat) (ns : Slot) (hw : WInv slots fsize)
    (hins : insertSlot ns slots = some out) (hns : ns.cow = []) : view ps file out i = view ps file slots i := by
  have hnf : inOvl ps ns i = false := by simp [inOvl, hns]
  rcases view_cases ps file slots i with ⟨_, hall, hv⟩ | ⟨_, c, hc, hin, _, hv⟩
  · rw [hv]
    apply view_of_none
    intro t ht
    rcases insertSlot_mem ns slots out hins t ht with rfl | ht'
    · exact hnf
    · exact hall t ht'
  · rw [hv]
    apply view_of_unique ps file out i c (insertSlot_sub ns slots out hins c hc) hin
    intro t ht hx
    rcases insertSlot_mem ns slots out hins t ht with rfl | ht'
    · rw [hnf] at hx; cases hx
    · exact inOvl_unique ps slots fsize hw t c ht' hc i hx hin

theorem addMmap_fresh (st : St) (off maxlen : Nat) (priv : Bool) :
    (addMmap st off maxlen priv).2 = st ∨
    ∃ ns out, ns.cow = [] ∧ insertSlot ns st.slots = some out ∧
      addMmap st off maxlen priv = (.ok, { st with slots := out }) := by
  unfold addMmap
  by_cases h1 : off % st.psize ≠ 0
  · left; simp [h1]
  · simp only [h1, if_false]
    generalize (if offTMax - off < roundUp (min maxlen (offTMax - off)) st.psize
      then roundDown (min maxlen (offTMax - off)) st.psize else roundUp (min maxlen (offTMax - off)) st.psize) = ml
    by_cases h2 : ml = 0
    · left; simp [h2]
    · simp only [h2, if_false]
      cases hins : insertSlot { off := off, maxlen := ml, len := slotLen { off := off, maxlen := ml, len := 0, priv := priv } st.fsize, priv := priv } st.slots with
      | none => left; rfl
      | some out => right; exact ⟨_, out, rfl, hins, rfl⟩

end IwModel.Exf
