import IwModel.Lemmas.ExfDisk
/-! Private (copy-on-write) windows: the two-layer reference (file layer + per-window overlay pages), the per-byte
    view, refinement of the request-splitting model. -/
namespace IwModel.Exf
open IwModel

/-! ## the two-layer reference: per-byte view -/

/-- window `s` maps byte `i` of the file -/
def covers (s : Slot) (i : Nat) : Bool := decide (s.off ≤ i) && decide (i < s.off + s.len)

/-- byte `i` is held in the overlay of the private window `s` (its page was copied on a write) -/
def inOvl (ps : Nat) (s : Slot) (i : Nat) : Bool := s.priv && covers s i && s.cow.contains ((i - s.off) / ps)

/-- **the two-layer view**: the overlay byte of the private window that holds `i`, else the byte of the file -/
def view (ps : Nat) (file : Bytes) (slots : List Slot) (i : Nat) : Nat :=
  match slots.find? (fun s => inOvl ps s i) with
  | some s => s.ovl.getD (i - s.off) 0
  | none => file.getD i 0

/-- reference read: byte by byte through the view, clipped at the logical size; no request splitting -/
def layRead (st : St) (off : Int) (n : Nat) : Rc × Bytes :=
  if off < 0 ∨ off + n > offTMax then (.oob, [])
  else (.ok, (List.range (min n (st.fsize - off.toNat))).map fun k => view st.psize st.file st.slots (off.toNat + k))

theorem slotLen_le_maxlen (s : Slot) (fsize : Nat) : slotLen s fsize ≤ s.maxlen := by
  unfold slotLen; split <;> omega

theorem pairwise_sep {α : Type} (R : α → α → Prop) : ∀ (l : List α), l.Pairwise R → ∀ s ∈ l, ∀ t ∈ l, s = t ∨ R s t ∨ R t s
  | [], _, s, hs, _, _ => by simp at hs
  | x :: xs, hp, s, hs, t, ht => by
    have hpw := List.pairwise_cons.mp hp
    rcases List.mem_cons.mp hs with rfl | hs'
    · rcases List.mem_cons.mp ht with rfl | ht'
      · exact Or.inl rfl
      · exact Or.inr (Or.inl (hpw.1 t ht'))
    · rcases List.mem_cons.mp ht with rfl | ht'
      · exact Or.inr (Or.inr (hpw.1 s hs'))
      · exact pairwise_sep R xs hpw.2 s hs' t ht'

/-- in a well-formed window list a byte is mapped by at most one window -/
theorem cover_unique (slots : List Slot) (fsize : Nat) (hw : WInv slots fsize) (s t : Slot) (hs : s ∈ slots) (ht : t ∈ slots)
    (i : Nat) (h1 : covers s i = true) (h2 : covers t i = true) : s = t := by
  have hls := (hw.2 s hs).2
  have hlt := (hw.2 t ht).2
  have := slotLen_le_maxlen s fsize
  have := slotLen_le_maxlen t fsize
  simp only [covers, Bool.and_eq_true, decide_eq_true_eq] at h1 h2
  rcases pairwise_sep _ slots hw.1 s hs t ht with h | h | h
  · exact h
  · omega
  · omega

theorem find_unique {α : Type} (l : List α) (p : α → Bool) (s : α) (hu : ∀ t ∈ l, p t = true → t = s) (hs : s ∈ l) :
    l.find? p = if p s then some s else none := by
  cases h : l.find? p with
  | none =>
    have := List.find?_eq_none.mp h s hs
    simp [this]
  | some t =>
    have hp := List.find?_some h
    have hm := List.mem_of_find?_eq_some h
    have := hu t hm hp
    subst this
    simp [hp]

/-- the view at a byte mapped by window `s` -/
theorem view_at (ps : Nat) (file : Bytes) (slots : List Slot) (fsize : Nat) (hw : WInv slots fsize) (s : Slot)
    (hs : s ∈ slots) (i : Nat) (hc : covers s i = true) :
    view ps file slots i =
      if s.priv && s.cow.contains ((i - s.off) / ps) then s.ovl.getD (i - s.off) 0 else file.getD i 0 := by
  unfold view
  rw [find_unique slots (fun s => inOvl ps s i) s ?_ hs]
  · simp only [inOvl, hc, Bool.and_true]
    cases hb : (s.priv && s.cow.contains ((i - s.off) / ps)) <;> simp
  · intro t ht hp
    simp only [inOvl, Bool.and_eq_true] at hp
    exact cover_unique slots fsize hw t s ht hs i hp.1.2 hc

/-- the view at a byte no private window maps -/
theorem view_uncovered (ps : Nat) (file : Bytes) (slots : List Slot) (i : Nat)
    (h : ∀ s ∈ slots, s.priv = true → covers s i = false) : view ps file slots i = file.getD i 0 := by
  unfold view
  have : slots.find? (fun s => inOvl ps s i) = none := by
    apply List.find?_eq_none.mpr
    intro s hs hp
    simp only [inOvl, Bool.and_eq_true] at hp
    have := h s hs hp.1.1
    rw [this] at hp
    exact absurd hp.1.2 (by simp)
  rw [this]

/-! ## reads: the request-splitting loop returns the view -/

theorem readAt_eq_map (f : Bytes) (off n : Nat) (h : off + n ≤ f.length) :
    readAt f off n = (List.range n).map fun k => f.getD (off + k) 0 := by
  apply List.ext_getElem?
  intro i
  rw [getElem?_readAt]
  simp only [List.getElem?_map, List.getD_eq_getElem?_getD]
  by_cases c : i < n
  · simp only [c, if_true, List.getElem?_range c, Option.map_some]
    rw [List.getElem?_eq_getElem (by omega)]; simp
  · simp only [c, if_false]
    rw [List.getElem?_eq_none (by simp; omega)]; rfl

theorem flatMap_chain_map (V : Nat → Nat) (R : Seg → Bytes) : ∀ (gs : List Seg) (off n : Nat),
    Chain off gs n → (∀ g ∈ gs, R g = (List.range g.len).map fun k => V (g.off + k)) →
    gs.flatMap R = (List.range n).map fun k => V (off + k)
  | [], off, n, hc, _ => by simp only [Chain] at hc; subst hc; simp
  | g :: gs, off, n, hc, hr => by
    obtain ⟨h1, h2, h3, h4⟩ := hc
    rw [List.flatMap_cons, hr g List.mem_cons_self, flatMap_chain_map V R gs _ _ h4
      (fun g' hg' => hr g' (List.mem_cons_of_mem _ hg')), h1]
    have : n = g.len + (n - g.len) := by omega
    conv => rhs; rw [this, List.range_add, List.map_append, List.map_map]
    congr 1
    apply List.map_congr_left
    intro k _
    simp only [Function.comp]
    congr 1; omega

theorem chain_pos : ∀ (gs : List Seg) (off n : Nat), Chain off gs n → ∀ g ∈ gs, 0 < g.len
  | [], _, _, _, g, hg => by simp at hg
  | x :: xs, off, n, hc, g, hg => by
    rcases List.mem_cons.mp hg with rfl | hg'
    · exact hc.2.1
    · exact chain_pos xs _ _ hc.2.2.2 g hg'

theorem avoids_not_covers (g : Seg) (s : Slot) (h : Avoids g s) (k : Nat) (hk : k < g.len) : covers s (g.off + k) = false := by
  simp only [covers, Bool.and_eq_false_iff, decide_eq_false_iff_not]
  rcases h with h | h | h <;> omega

/-- one piece of a read returns the view of its bytes -/
theorem readSeg_eq_view (ps : Nat) (file : Bytes) (slots : List Slot) (fsize off n : Nat) (hw : WInv slots fsize)
    (g : Seg) (hg : g ∈ segs slots 0 off n) (hlen : g.off + g.len ≤ file.length) :
    readSeg ps file slots g = (List.range g.len).map fun k => view ps file slots (g.off + k) := by
  unfold readSeg
  cases hsl : g.slot with
  | none =>
    simp only []
    rw [readAt_eq_map _ _ _ hlen]
    apply List.map_congr_left
    intro k hk
    have hk' : k < g.len := by simpa using hk
    rw [view_uncovered]
    intro s hs _
    exact avoids_not_covers g s (segs_file_avoids slots fsize 0 off n hw g hg hsl s hs) k hk'
  | some j =>
    obtain ⟨s, hsj, h1, h2⟩ := segs_slotPiecesOk slots off n g hg j hsl
    have hmem : s ∈ slots := List.mem_of_getElem? hsj
    simp only [hsj]
    have hcov : ∀ k, k < g.len → covers s (g.off + k) = true := by
      intro k hk
      simp only [covers, Bool.and_eq_true, decide_eq_true_eq]; omega
    by_cases hp : s.priv = true
    · unfold slotRead
      simp only [hp, if_true]
      apply List.map_congr_left
      intro k hk
      have hk' : k < g.len := by simpa using hk
      rw [view_at ps file slots fsize hw s hmem _ (hcov k hk'), hp, Bool.true_and]
      have e1 : g.off + k - s.off = g.off - s.off + k := by omega
      have e2 : s.off + (g.off - s.off + k) = g.off + k := by omega
      simp only [e1, e2, Array.getD_eq_getD_getElem?, List.getElem?_toArray, List.getD_eq_getElem?_getD]
    · have hp' : s.priv = false := by simpa using hp
      rw [slotRead_shared _ _ _ _ _ hp', readAt_eq_map _ _ _ (by omega)]
      apply List.map_congr_left
      intro k hk
      have hk' : k < g.len := by simpa using hk
      rw [view_at ps file slots fsize hw s hmem _ (hcov k hk'), hp', Bool.false_and]
      simp only [Bool.false_eq_true, if_false]
      congr 1; omega

/-- **reads refine the two-layer reference** -/
theorem read_eq_lay (st : St) (off : Int) (n : Nat) (hw : WInv st.slots st.fsize) (hd : st.fsize ≤ st.file.length) :
    read st off n = layRead st off n := by
  unfold read layRead
  split
  · rfl
  · rename_i hb
    simp only []
    congr 1
    have hn : (if off.toNat + n > st.fsize then st.fsize - off.toNat else n) = min n (st.fsize - off.toNat) := by
      split <;> omega
    rw [hn]
    apply flatMap_chain_map _ _ _ _ _ (segs_chain _ _ _ _)
    intro g hg
    have hr := segs_range st.slots 0 off.toNat _ g hg
    have h0 := chain_pos _ _ _ (segs_chain st.slots 0 off.toNat (min n (st.fsize - off.toNat))) g hg
    exact readSeg_eq_view _ _ _ _ _ _ hw g hg (by omega)

end IwModel.Exf
