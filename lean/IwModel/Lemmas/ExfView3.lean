import IwModel.Lemmas.ExfView2
/-! The view after a store through one window (mmap store, mapped copy), after a copy through the file, after a write. -/
namespace IwModel.Exf
open IwModel

theorem slotRead_eq_view (ps : Nat) (file : Bytes) (slots : List Slot) (fsize : Nat) (hw : WInv slots fsize) (s : Slot)
    (hs : s ∈ slots) (r n : Nat) (hr : r + n ≤ s.len) (hlen : s.off + r + n ≤ file.length) :
    slotRead ps file s r n = (List.range n).map fun k => view ps file slots (s.off + r + k) := by
  have hcov : ∀ k, k < n → covers s (s.off + r + k) = true := by
    intro k hk
    simp only [covers, Bool.and_eq_true, decide_eq_true_eq]; omega
  by_cases hp : s.priv = true
  · unfold slotRead
    simp only [hp, if_true]
    apply List.map_congr_left
    intro k hk
    have hk' : k < n := by simpa using hk
    rw [view_at ps file slots fsize hw s hs _ (hcov k hk'), hp, Bool.true_and]
    have e1 : s.off + r + k - s.off = r + k := by omega
    have e2 : s.off + (r + k) = s.off + r + k := by omega
    simp only [e1, e2, Array.getD_eq_getD_getElem?, List.getElem?_toArray, List.getD_eq_getElem?_getD]
  · have hp' : s.priv = false := by simpa using hp
    rw [slotRead_shared _ _ _ _ _ hp', readAt_eq_map _ _ _ (by omega)]
    apply List.map_congr_left
    intro k hk
    have hk' : k < n := by simpa using hk
    rw [view_at ps file slots fsize hw s hs _ (hcov k hk'), hp', Bool.false_and]
    simp only [Bool.false_eq_true, if_false]

theorem inOvl_false_of_not_covers (ps : Nat) (s : Slot) (i : Nat) (h : covers s i = false) : inOvl ps s i = false := by
  simp [inOvl, h]

/-- **a store through one window** (what `mmap` users and the mapped branch of `copy` do): the stored bytes where they were
    stored, every other byte as before -/
theorem view_slotWrite (ps : Nat) (hps : 0 < ps) (file : Bytes) (slots : List Slot) (fsize k : Nat) (s : Slot) (r : Nat)
    (d : Bytes) (i : Nat) (hw : WInv slots fsize) (ha : AInv ps slots) (hf : fsize % ps = 0) (hdisk : fsize ≤ file.length)
    (hk : slots[k]? = some s) (hr : r + d.length ≤ s.len) :
    view ps (slotWrite ps file s r d).2 (slots.set k (slotWrite ps file s r d).1) i =
      if s.off + r ≤ i ∧ i < s.off + r + d.length then d.getD (i - (s.off + r)) 0 else view ps file slots i := by
  have hs : s ∈ slots := List.mem_of_getElem? hk
  by_cases hp : s.priv = true
  · rw [slotWrite_priv_snd _ _ _ _ _ hp]
    have hg := slotWrite_geom' ps file s r d
    have hw' : WInv (slots.set k (slotWrite ps file s r d).1) fsize :=
      WInv_of_geom _ _ _ (map_set_geom _ _ _ _ hk hg) hw
    have hklt : k < slots.length := by
      rcases Nat.lt_or_ge k slots.length with h | h
      · exact h
      · rw [List.getElem?_eq_none h] at hk; cases hk
    have hs' : (slotWrite ps file s r d).1 ∈ slots.set k (slotWrite ps file s r d).1 :=
      List.mem_of_getElem? (i := k) (by rw [List.getElem?_set]; simp [hklt])
    have hoff : (slotWrite ps file s r d).1.off = s.off := by
      simp only [geom, Prod.mk.injEq] at hg; exact hg.1
    by_cases hcov : covers s i = true
    · have hcov' : covers (slotWrite ps file s r d).1 i = true := by rw [covers_geom _ s i hg]; exact hcov
      have hcv := hcov
      simp only [covers, Bool.and_eq_true, decide_eq_true_eq] at hcv
      have hal := ha s hs
      rw [view_at_val ps file _ fsize hw' _ hs' i hcov', hoff, slotWrite_val ps hps file s r d _ hp
        (fun p _ hpp => pages_inside ps hps s fsize file.length (hw.2 s hs).2 hal.1 hal.2 hf hdisk _ hr p hpp),
        view_at_val ps file slots fsize hw s hs i hcov]
      by_cases hin : s.off + r ≤ i ∧ i < s.off + r + d.length
      · rw [if_pos hin, if_pos (by omega)]
        congr 1; omega
      · rw [if_neg hin, if_neg (by omega)]
    · have hcf : covers s i = false := by simpa using hcov
      have hcv := hcf
      simp only [covers, Bool.and_eq_false_iff, decide_eq_false_iff_not] at hcv
      rw [if_neg (by omega)]
      have hnew : inOvl ps (slotWrite ps file s r d).1 i = false :=
        inOvl_false_of_not_covers _ _ _ (by rw [covers_geom _ s i hg]; exact hcf)
      rcases view_cases ps file slots i with ⟨_, hall, hv⟩ | ⟨_, c, hc, hin, _, hv⟩
      · rw [hv]
        apply view_of_none
        intro t ht
        rcases List.mem_or_eq_of_mem_set ht with h | h
        · exact hall t h
        · rw [h]; exact hnew
      · rw [hv]
        have hcs : c ≠ s := by
          intro he; rw [he] at hin
          have := inOvl_covers ps s i hin
          rw [hcf] at this; cases this
        apply view_of_unique ps file _ i c ?_ hin ?_
        · obtain ⟨j, hj⟩ := List.getElem?_of_mem hc
          have hjk : k ≠ j := by
            intro he; subst he
            rw [hk] at hj; exact hcs (Option.some.inj hj).symm
          exact List.mem_of_getElem? (i := j) (by rw [List.getElem?_set]; simp [hjk, hj])
        · intro t ht hx
          rcases List.mem_or_eq_of_mem_set ht with h | h
          · exact inOvl_unique ps slots fsize hw t c h hc i hx hin
          · rw [h, hnew] at hx; cases hx
  · have hp' : s.priv = false := by simpa using hp
    rw [slotWrite_shared _ _ _ _ _ hp']
    simp only [set_eq_self _ _ _ hk]
    rw [view_file_only ps file (writeAt file (s.off + r) d) slots i, writeAt_getD]
    by_cases hin : s.off + r ≤ i ∧ i < s.off + r + d.length
    · have hcov : covers s i = true := by
        simp only [covers, Bool.and_eq_true, decide_eq_true_eq]; omega
      have hno : inAnyOvl ps slots i = false := by
        simp only [inAnyOvl, List.any_eq_false]
        intro t ht hx
        have := cover_unique slots fsize hw t s ht hs i (inOvl_covers ps t i hx) hcov
        subst this
        simp [inOvl, hp'] at hx
      rw [hno, if_pos hin, if_pos hin]
      simp
    · rw [if_neg hin, if_neg hin]
      by_cases hany : inAnyOvl ps slots i = true
      · rw [hany]; simp
      · have hany' : inAnyOvl ps slots i = false := by simpa using hany
        rw [hany', view_not_inOvl ps file slots i hany']
        simp

theorem findIdx?_spec (p : Slot → Bool) : ∀ (l : List Slot) (k : Nat) (s : Slot), l.findIdx? p = some k → l[k]? = some s → p s = true
  | [], _, _, h, _ => by simp at h
  | x :: xs, k, s, h, hk => by
    rw [List.findIdx?_cons] at h
    by_cases hx : p x = true
    · rw [if_pos hx] at h
      simp only [Option.some.injEq] at h; subst h
      simp only [List.getElem?_cons_zero, Option.some.injEq] at hk; subst hk; exact hx
    · rw [if_neg hx] at h
      cases hr : xs.findIdx? p with
      | none => simp [hr] at h
      | some j =>
        simp only [hr, Option.map_some, Option.some.injEq] at h; subst h
        simp only [List.getElem?_cons_succ] at hk
        exact findIdx?_spec p xs j s hr hk

/-- **after a store through a mapping** -/
theorem view_mmapWrite (st : St) (so rel : Nat) (d : Bytes) (i : Nat) (h : PInv st) :
    view (mmapWrite st so rel d).2.psize (mmapWrite st so rel d).2.file (mmapWrite st so rel d).2.slots i =
      if (mmapWrite st so rel d).1 = .ok ∧ so + rel ≤ i ∧ i < so + rel + d.length then d.getD (i - (so + rel)) 0
      else view st.psize st.file st.slots i := by
  cases hk : st.slots.findIdx? (fun s => s.off == so) with
  | none =>
    have e : mmapWrite st so rel d = (.notmapped, st) := by unfold mmapWrite; simp only [hk]
    rw [e]; simp
  | some k =>
    cases hsk : st.slots[k]? with
    | none =>
      have e : mmapWrite st so rel d = (.notmapped, st) := by unfold mmapWrite; simp only [hk, hsk]
      rw [e]; simp
    | some s =>
      have hso : s.off = so := by simpa using findIdx?_spec _ _ _ _ hk hsk
      by_cases h0 : s.len = 0
      · have e : mmapWrite st so rel d = (.notmapped, st) := by unfold mmapWrite; simp only [hk, hsk, h0, if_true]
        rw [e]; simp
      · by_cases h1 : rel + d.length ≤ s.len
        · have e : mmapWrite st so rel d = (.ok, { st with slots := st.slots.set k (slotWrite st.psize st.file s rel d).1, file := (slotWrite st.psize st.file s rel d).2 }) := by
            unfold mmapWrite; simp only [hk, hsk, h0, h1, if_true, if_false]
          rw [e]
          simp only [true_and]
          rw [← hso]
          exact view_slotWrite st.psize h.size.1 st.file st.slots st.fsize k s rel d i h.win h.align h.size.2.1 h.disk hsk h1
        · have e : mmapWrite st so rel d = (.range, st) := by unfold mmapWrite; simp only [hk, hsk, h0, h1, if_false]
          rw [e]; simp

/-- `_exfile_copy` takes its memmove branch: both ranges lie in the first window, which starts at offset 0 -/
def copyMapped (st : St) (off siz noff : Nat) : Bool :=
  match st.slots with
  | s :: _ => decide (s.off = 0 ∧ s.len ≥ noff + siz ∧ s.len ≥ off + siz)
  | [] => false

/-- **after a copy** whose source lies inside the file: through the first window the copy moves what readers see; through the file
    it moves *file* bytes, and does not reach destination bytes held in an overlay -/
theorem view_copy (st : St) (off siz noff i : Nat) (h : PInv st) (hc : 0 < st.cbuf) (hsrc : off + siz ≤ st.fsize) :
    view (copy st off siz noff).2.psize (copy st off siz noff).2.file (copy st off siz noff).2.slots i =
      if (copy st off siz noff).1 = .ok ∧ noff ≤ i ∧ i < noff + siz then
        (if copyMapped st off siz noff then view st.psize st.file st.slots (off + (i - noff))
         else if inAnyOvl st.psize st.slots i then view st.psize st.file st.slots i
         else st.file.getD (off + (i - noff)) 0)
      else view st.psize st.file st.slots i := by
  have hfile : ∀ (hnm : copyMapped st off siz noff = false),
      view st.psize (fileCopy st.cbuf st.file off siz noff).2 st.slots i =
      if (fileCopy st.cbuf st.file off siz noff).1 = .ok ∧ noff ≤ i ∧ i < noff + siz then
        (if copyMapped st off siz noff then view st.psize st.file st.slots (off + (i - noff))
         else if inAnyOvl st.psize st.slots i then view st.psize st.file st.slots i
         else st.file.getD (off + (i - noff)) 0)
      else view st.psize st.file st.slots i := by
    intro hnm
    rw [hnm]
    simp only [Bool.false_eq_true, if_false]
    by_cases hacc : noff ≤ off ∨ off + siz ≤ noff
    · rw [fileCopy_eq_memmove st.cbuf hc st.file off siz noff (by have := h.disk; omega) hacc]
      simp only [true_and]
      rw [view_file_only st.psize st.file _ st.slots i, writeAt_getD, length_readAt,
        show min siz (st.file.length - off) = siz by have := h.disk; omega]
      by_cases hin : noff ≤ i ∧ i < noff + siz
      · rw [if_pos hin, if_pos hin, readAt_getD _ _ _ _ (by omega)]
      · rw [if_neg hin, if_neg hin]
        by_cases hany : inAnyOvl st.psize st.slots i = true
        · rw [hany]; simp
        · have hany' : inAnyOvl st.psize st.slots i = false := by simpa using hany
          rw [hany', view_not_inOvl _ _ _ _ hany']; simp
    · rw [fileCopy_forward st.cbuf st.file off siz noff (by omega) (by omega)]
      simp
  unfold copy
  cases hsl : st.slots with
  | nil =>
    simp only []
    have := hfile (by simp [copyMapped, hsl])
    rw [hsl] at this
    exact this
  | cons s rest =>
    simp only []
    by_cases hm : s.off = 0 ∧ s.len ≥ noff + siz ∧ s.len ≥ off + siz
    · rw [if_pos hm]
      have hcm : copyMapped st off siz noff = true := by simp [copyMapped, hsl, hm]
      rw [hcm]
      simp only [true_and, if_true]
      have hw : WInv (s :: rest) st.fsize := by rw [← hsl]; exact h.win
      have ha : AInv st.psize (s :: rest) := by rw [← hsl]; exact h.align
      have hsm : s ∈ s :: rest := List.mem_cons_self
      have hsl' := slotLen_le s st.fsize
      have hlen := (hw.2 s hsm).2
      have hd := h.disk
      have hv := view_slotWrite st.psize h.size.1 st.file (s :: rest) st.fsize 0 s noff
        (slotRead st.psize st.file s off siz) i hw ha h.size.2.1 h.disk rfl
        (by rw [slotRead_eq_view st.psize st.file (s :: rest) st.fsize hw s hsm off siz (by omega) (by omega)]; simp; omega)
      simp only [List.set_cons_zero] at hv
      rw [hv, slotRead_eq_view st.psize st.file (s :: rest) st.fsize hw s hsm off siz (by omega) (by omega)]
      simp only [List.length_map, List.length_range, hm.1, Nat.zero_add]
      by_cases hin : noff ≤ i ∧ i < noff + siz
      · rw [if_pos hin, if_pos hin]
        simp only [List.getD_eq_getElem?_getD, List.getElem?_map, List.getElem?_range (show i - noff < siz by omega),
          Option.map_some, Option.getD_some]
      · rw [if_neg hin, if_neg hin]
    · rw [if_neg hm]
      have := hfile (by simp [copyMapped, hsl, hm])
      rw [hsl] at this
      exact this

end IwModel.Exf
