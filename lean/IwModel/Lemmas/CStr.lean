import IwModel.Model.CStr
/-! Lemmas about the checked C string primitives (`Model/CStr.lean`) on memory given as `X ++ w ++ 0 :: P`:
`X` = what lies in front of the string, `w` = the bytes of the string (no NUL), `P` = what follows the terminator. -/
namespace IwModel.CStr

theorem get_at (X R : Bytes) (c : Nat) : (X ++ c :: R)[X.length]? = some c := by simp

theorem get_at' (X w R : Bytes) (c : Nat) : (X ++ w ++ c :: R)[X.length + w.length]? = some c := by
  rw [← List.length_append]; exact get_at (X ++ w) R c

theorem wr_at (X R : Bytes) (c v : Nat) : wr (X ++ c :: R) X.length v = some (X ++ v :: R) := by
  simp [wr]

theorem wr_at' (X w R : Bytes) (c v : Nat) : wr (X ++ w ++ c :: R) (X.length + w.length) v = some (X ++ w ++ v :: R) := by
  rw [← List.length_append]; exact wr_at (X ++ w) R c v

theorem wr_length (buf b : Bytes) (i v : Nat) (h : wr buf i v = some b) : b.length = buf.length := by
  unfold wr at h; split at h <;> simp at h; subst h; simp

theorem snoc_shift (X t R : Bytes) (c : Nat) : X ++ (c :: t) ++ R = (X ++ [c]) ++ t ++ R := by simp

theorem not_mem_cons {c : Nat} {t : Bytes} (h : 0 ∉ c :: t) : c ≠ 0 ∧ 0 ∉ t := by
  constructor
  · intro e; apply h; simp [e]
  · intro e; apply h; simp [e]

theorem strEnd_step (buf : Bytes) (i c : Nat) (h : buf[i]? = some c) :
    strEnd buf i = if c = 0 then some i else strEnd buf (i + 1) := by
  rw [strEnd]; split
  · simp_all
  · simp_all

theorem strEnd_app (X w P : Bytes) (hw : 0 ∉ w) : strEnd (X ++ w ++ 0 :: P) X.length = some (X.length + w.length) := by
  induction w generalizing X with
  | nil => rw [strEnd_step _ _ 0 (by simp)]; simp
  | cons c t ih =>
    obtain ⟨hc, ht⟩ := not_mem_cons hw
    rw [strEnd_step _ _ c (by simp), if_neg hc, snoc_shift]
    have := ih (X ++ [c]) ht
    simp only [List.length_append, List.length_singleton] at this
    rw [this]; simp; omega

theorem getStr_step (buf : Bytes) (i c : Nat) (h : buf[i]? = some c) :
    getStr buf i = if c = 0 then some [] else (getStr buf (i + 1)).map (c :: ·) := by
  rw [getStr]; split
  · simp_all
  · simp_all

theorem getStr_app (X w P : Bytes) (hw : 0 ∉ w) : getStr (X ++ w ++ 0 :: P) X.length = some w := by
  induction w generalizing X with
  | nil => rw [getStr_step _ _ 0 (by simp)]; simp
  | cons c t ih =>
    obtain ⟨hc, ht⟩ := not_mem_cons hw
    rw [getStr_step _ _ c (by simp), if_neg hc, snoc_shift]
    have := ih (X ++ [c]) ht
    simp only [List.length_append, List.length_singleton] at this
    rw [this]; simp

theorem readN_app (X w R : Bytes) : readN (X ++ w ++ R) X.length w.length = some w := by
  induction w generalizing X with
  | nil => simp [readN]
  | cons c t ih =>
    have := ih (X ++ [c])
    simp only [List.length_append, List.length_singleton] at this
    simp only [List.length_cons, readN]
    rw [show (X ++ c :: t ++ R)[X.length]? = some c by simp, snoc_shift, this]; simp

/-- any memory with a NUL at or behind index 0 is a NUL-free string, its terminator and a rest -/
theorem hasNul_split (text : Bytes) (h : ∃ n : Nat, text[n]? = some 0) : ∃ s R, text = s ++ 0 :: R ∧ 0 ∉ s := by
  obtain ⟨n, hn⟩ := h
  induction text generalizing n with
  | nil => simp at hn
  | cons c t ih =>
    by_cases hc : c = 0
    · exact ⟨[], t, by simp [hc], by simp⟩
    · cases n with
      | zero => simp at hn; exact absurd hn hc
      | succ n =>
        obtain ⟨s, R, hs, hz⟩ := ih n (by simpa using hn)
        refine ⟨c :: s, R, by simp [hs], ?_⟩
        intro hm
        rcases List.mem_cons.mp hm with e | hm
        · exact hc e.symm
        · exact hz hm

end IwModel.CStr
