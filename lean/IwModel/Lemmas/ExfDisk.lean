import IwModel.Lemmas.ExfPolicy
/-! The size of the file on disk along histories with shared windows, copies beyond the logical size included
    (finding C12-COPYEXT), and what the next open makes of it. -/
namespace IwModel.Exf
open IwModel

/-- the disk is never shorter than the logical size; every window is mapped as far as the logical size reaches -/
def DInv (st : St) : Prop := st.fsize ≤ st.file.length ∧ ∀ s ∈ st.slots, s.len = slotLen s st.fsize

theorem Inv.dinv {st : St} (h : Inv st) : DInv st := ⟨by rw [h.1]; exact Nat.le_refl _, h.2⟩

/-! ## exact length of the file after `iwp_copy_bytes` -/

/-- destination not behind the source: nothing is ever written past what was read, the length stays -/
theorem copyLoop_length_back (cbuf off siz noff : Nat) (hb : noff ≤ off) : ∀ (fuel : Nat) (F : Bytes) (pos : Nat),
    (copyLoop cbuf fuel F off siz noff pos).length = F.length
  | 0, _, _ => rfl
  | fuel + 1, F, pos => by
    unfold copyLoop
    split
    · simp only []
      split
      · rfl
      · rename_i hne
        have hl := length_readAt F (off + pos) (min cbuf (siz - pos))
        have hw := length_writeAt_inside F (noff + pos) (readAt F (off + pos) (min cbuf (siz - pos))) (by omega)
        rw [copyLoop_length_back cbuf off siz noff hb fuel _ _, hw]
    · rfl

/-- **exact length after `iwp_copy_bytes`**: the file grows only when a non-empty copy whose source starts inside
    the file goes to a destination behind the source range; then it reaches `noff + siz` (short reads at the old end are
    followed by reads of the bytes the copy itself appended) -/
theorem fileCopy_length (cbuf : Nat) (F : Bytes) (off siz noff : Nat) :
    (fileCopy cbuf F off siz noff).2.length =
      if 0 < cbuf ∧ 0 < siz ∧ off < F.length ∧ off + siz ≤ noff then max F.length (noff + siz) else F.length := by
  by_cases hfw : off < noff ∧ noff < off + siz
  · rw [fileCopy_forward cbuf F off siz noff hfw.1 hfw.2, if_neg (by omega)]
  have hacc : noff ≤ off ∨ off + siz ≤ noff := by omega
  unfold fileCopy
  rw [rangesOverlap_forward off siz noff hacc]
  simp only [Bool.false_eq_true, if_false]
  by_cases hb : noff ≤ off
  · rw [copyLoop_length_back cbuf off siz noff hb]
    by_cases hs : 0 < siz
    · rw [if_neg (by omega)]
    · rw [if_neg (by omega)]
  have hdis : off + siz ≤ noff := by omega
  by_cases hs : siz = 0
  · subst hs; rw [if_neg (by omega)]; rfl
  obtain ⟨fuel, rfl⟩ : ∃ fuel, siz = fuel + 1 := ⟨siz - 1, by omega⟩
  unfold copyLoop
  rw [if_pos (by omega)]
  simp only [Nat.add_zero, Nat.sub_zero]
  have hl := length_readAt F off (min cbuf (fuel + 1))
  by_cases hgo : 0 < cbuf ∧ off < F.length
  · rw [if_neg (by omega), if_pos ⟨hgo.1, by omega, hgo.2, hdis⟩]
    have hne : readAt F off (min cbuf (fuel + 1)) ≠ [] := by
      intro h; rw [h] at hl; simp at hl; omega
    have hw := length_writeAt F noff _ hne
    rw [copyLoop_eq cbuf hgo.1 off (fuel + 1) noff fuel _ _ (by omega) (by omega) (by omega) (by omega)]
    have hl2 := length_readAt (writeAt F noff (readAt F off (min cbuf (fuel + 1))))
      (off + (0 + (readAt F off (min cbuf (fuel + 1))).length)) (fuel + 1 - (0 + (readAt F off (min cbuf (fuel + 1))).length))
    rw [hw] at hl2
    by_cases hfin : fuel + 1 - (0 + (readAt F off (min cbuf (fuel + 1))).length) = 0
    · rw [hfin, readAt_zero, writeAt_nil, hw]; omega
    · have hne2 : readAt (writeAt F noff (readAt F off (min cbuf (fuel + 1))))
          (off + (0 + (readAt F off (min cbuf (fuel + 1))).length))
          (fuel + 1 - (0 + (readAt F off (min cbuf (fuel + 1))).length)) ≠ [] := by
        intro h
        rw [h] at hl2
        simp only [List.length_nil] at hl2
        omega
      rw [length_writeAt _ _ _ hne2, hw]
      omega
  · rw [if_pos (by omega), if_neg (by omega)]

/-! ## the invariant, operation by operation -/

theorem resize_self (f : Bytes) : resize f f.length = f := by
  unfold resize; simp [zeros]

theorem truncate_disk (st : St) (size : Nat) (h : DInv st) :
    DInv (truncate st size).2 ∧
    (truncate st size).2.file.length =
      (if (truncate st size).2.fsize = st.fsize then st.file.length else (truncate st size).2.fsize) := by
  rcases truncate_cases st size with ⟨e, _⟩ | ⟨e, _⟩ | ⟨e, hne, _⟩ <;> rw [e]
  · exact ⟨h, by simp⟩
  · exact ⟨h, by simp⟩
  · refine ⟨⟨by show roundUp size st.psize ≤ (resize st.file _).length; rw [length_resize]; exact Nat.le_refl _, ?_⟩, ?_⟩
    · intro s hs
      simp only [remapAll, List.mem_map] at hs
      obtain ⟨s0, _, rfl⟩ := hs
      exact slotLen_remapSlot _ _
    · show (resize st.file _).length = if roundUp size st.psize = st.fsize then st.file.length else roundUp size st.psize
      rw [length_resize, if_neg (by omega)]

theorem ensureSize_disk (st : St) (sz : Nat) (h : DInv st) :
    DInv (ensureSize st sz).2 ∧
    (ensureSize st sz).2.file.length =
      (if (ensureSize st sz).2.fsize = st.fsize then st.file.length else (ensureSize st sz).2.fsize) := by
  rcases ensureSize_cases st sz with ⟨_, e⟩ | ⟨_, e | e | ⟨T, _, e, _, _⟩⟩ <;> rw [e]
  · exact ⟨h, by simp⟩
  · exact ⟨h, by simp⟩
  · exact ⟨h, by simp⟩
  · exact truncate_disk { st with prev := (policy st.psize st.pol st.prev sz st.fsize).2 } T h

theorem flatWrite_disk (st : St) (off : Int) (d : Bytes) (hp : 0 < st.psize) (h : DInv st) :
    DInv (flatWrite st off d).2.2 ∧
    (flatWrite st off d).2.2.file.length =
      (if (flatWrite st off d).2.2.fsize = st.fsize then st.file.length else (flatWrite st off d).2.2.fsize) := by
  unfold flatWrite
  split
  · exact ⟨h, by simp⟩
  · split
    · exact ⟨h, by simp⟩
    · simp only []
      generalize hr : (if off.toNat + d.length > st.fsize then ensureSize st (off.toNat + d.length) else (Rc.ok, st)) = r
      have hri : (DInv r.2 ∧ r.2.file.length = (if r.2.fsize = st.fsize then st.file.length else r.2.fsize)) ∧
          (r.1 = .ok → off.toNat + d.length ≤ r.2.fsize) := by
        rw [← hr]; split
        · exact ⟨ensureSize_disk _ _ h, ensureSize_ok_ge _ _ hp⟩
        · exact ⟨⟨h, by simp⟩, fun _ => by show off.toNat + d.length ≤ st.fsize; omega⟩
      split
      · exact hri.1
      · rename_i hok
        have hok' : r.1 = .ok := by simpa using hok
        have hlen : (writeAt r.2.file off.toNat d).length = r.2.file.length :=
          length_writeAt_inside _ _ _ (by have := hri.1.1.1; have := hri.2 hok'; omega)
        refine ⟨⟨?_, hri.1.1.2⟩, ?_⟩
        · show r.2.fsize ≤ (writeAt r.2.file off.toNat d).length
          rw [hlen]; exact hri.1.1.1
        · show (writeAt r.2.file off.toNat d).length = _
          rw [hlen]; exact hri.1.2

theorem flatMmapWrite_disk (st : St) (so rel : Nat) (d : Bytes) (h : DInv st) :
    DInv (flatMmapWrite st so rel d).2 ∧ (flatMmapWrite st so rel d).2.file.length = st.file.length ∧
    (flatMmapWrite st so rel d).2.fsize = st.fsize := by
  unfold flatMmapWrite
  cases hk : st.slots.findIdx? (fun s => s.off == so) with
  | none => exact ⟨h, rfl, rfl⟩
  | some k =>
    simp only []
    cases hsk : st.slots[k]? with
    | none => exact ⟨h, rfl, rfl⟩
    | some s =>
      simp only []
      have hlen := h.2 s (List.mem_of_getElem? hsk)
      split
      · exact ⟨h, rfl, rfl⟩
      · rename_i h0
        split
        · rename_i h1
          have := slotLen_le s st.fsize
          have hl : (writeAt st.file (s.off + rel) d).length = st.file.length :=
            length_writeAt_inside _ _ _ (by have := h.1; omega)
          exact ⟨⟨by show st.fsize ≤ (writeAt st.file (s.off + rel) d).length; rw [hl]; exact h.1, h.2⟩, hl, rfl⟩
        · exact ⟨h, rfl, rfl⟩

/-- the size on disk after a copy -/
def copyDisk (st : St) (off siz noff : Nat) : Nat :=
  if 0 < st.cbuf ∧ 0 < siz ∧ off < st.file.length ∧ off + siz ≤ noff then max st.file.length (noff + siz)
  else st.file.length

theorem flatCopy_disk (st : St) (off siz noff : Nat) (h : DInv st) :
    DInv (flatCopy st off siz noff).2 ∧ (flatCopy st off siz noff).2.file.length = copyDisk st off siz noff ∧
    (flatCopy st off siz noff).2.fsize = st.fsize := by
  have hfile : ((fileCopy st.cbuf st.file off siz noff).2).length = copyDisk st off siz noff :=
    fileCopy_length _ _ _ _ _
  have hge : st.file.length ≤ copyDisk st off siz noff := by
    unfold copyDisk; split <;> omega
  have hfp : DInv { st with file := (fileCopy st.cbuf st.file off siz noff).2 } ∧
      ({ st with file := (fileCopy st.cbuf st.file off siz noff).2 } : St).file.length = copyDisk st off siz noff ∧
      ({ st with file := (fileCopy st.cbuf st.file off siz noff).2 } : St).fsize = st.fsize :=
    ⟨⟨by show st.fsize ≤ ((fileCopy st.cbuf st.file off siz noff).2).length; rw [hfile]; have := h.1; omega, h.2⟩,
      hfile, rfl⟩
  unfold flatCopy
  split
  · rename_i s rest hsl
    split
    · rename_i hc
      have hlen := h.2 s (by rw [hsl]; exact List.mem_cons_self)
      have hsl' := slotLen_le s st.fsize
      have hl : (writeAt st.file noff (readAt st.file off siz)).length = st.file.length := by
        by_cases hs : siz = 0
        · subst hs; rw [readAt_zero]; rfl
        · exact length_writeAt_inside _ _ _ (by rw [length_readAt]; have := h.1; omega)
      refine ⟨⟨by show st.fsize ≤ (writeAt st.file noff (readAt st.file off siz)).length; rw [hl]; exact h.1, h.2⟩, ?_, rfl⟩
      show (writeAt st.file noff (readAt st.file off siz)).length = _
      rw [hl]
      unfold copyDisk
      split
      · have := h.1; omega
      · rfl
    · exact hfp
  · exact hfp

/-- **the size on disk after one call**, as a function of the state before and the logical size after -/
def stepDisk (st : St) (op : Op) (fsize' : Nat) : Nat :=
  if fsize' = st.fsize then
    match op with
    | .copy off siz noff => copyDisk st off siz noff
    | _ => st.file.length
  else fsize'

theorem flatExec_disk (st : St) (op : Op) (hp : 0 < st.psize) (h : DInv st) :
    DInv (flatExec st op).1 ∧ (flatExec st op).1.file.length = stepDisk st op (flatExec st op).1.fsize := by
  cases op with
  | write off d =>
    have := flatWrite_disk st off d hp h
    refine ⟨this.1, ?_⟩
    simp only [flatExec, stepDisk]
    exact this.2
  | read off n => exact ⟨h, by simp [flatExec, stepDisk]⟩
  | copy off siz noff =>
    have := flatCopy_disk st off siz noff h
    refine ⟨this.1, ?_⟩
    simp only [flatExec, stepDisk, this.2.2, this.2.1, if_true]
  | mmapWrite so rel d =>
    have := flatMmapWrite_disk st so rel d h
    refine ⟨this.1, ?_⟩
    simp only [flatExec, stepDisk, this.2.2, this.2.1, if_true]
  | truncate size =>
    have := truncate_disk st size h
    refine ⟨this.1, ?_⟩
    simp only [flatExec, exec, stepDisk]
    exact this.2
  | ensure size =>
    have := ensureSize_disk st size h
    refine ⟨this.1, ?_⟩
    simp only [flatExec, exec, stepDisk]
    exact this.2
  | addMmap off maxlen priv =>
    have key : (addMmap st off maxlen priv).2.file = st.file ∧ (addMmap st off maxlen priv).2.fsize = st.fsize ∧
        ∀ s ∈ (addMmap st off maxlen priv).2.slots, s.len = slotLen s st.fsize := by
      rcases addMmap_cases st off maxlen priv with e | ⟨ns, out, _, _, hlen, hins, e⟩
      · rw [e]; exact ⟨rfl, rfl, h.2⟩
      · rw [e]
        refine ⟨rfl, rfl, ?_⟩
        intro s hs
        rcases insertSlot_mem _ _ _ hins s hs with h' | h'
        · subst h'; exact hlen
        · exact h.2 s h'
    refine ⟨⟨?_, ?_⟩, ?_⟩
    · show (addMmap st off maxlen priv).2.fsize ≤ (addMmap st off maxlen priv).2.file.length
      rw [key.1, key.2.1]; exact h.1
    · show ∀ s ∈ (addMmap st off maxlen priv).2.slots, s.len = slotLen s (addMmap st off maxlen priv).2.fsize
      rw [key.2.1]; exact key.2.2
    · simp only [flatExec, exec, stepDisk, key.2.1, key.1, if_true]
  | removeMmap off =>
    have key : (removeMmap st off).2.file = st.file ∧ (removeMmap st off).2.fsize = st.fsize ∧
        ∀ s ∈ (removeMmap st off).2.slots, s.len = slotLen s st.fsize := by
      unfold removeMmap
      cases hr : removeFirst off st.slots with
      | none => exact ⟨rfl, rfl, h.2⟩
      | some out => exact ⟨rfl, rfl, fun s hs => h.2 s (removeFirst_mem _ _ _ hr s hs)⟩
    refine ⟨⟨?_, ?_⟩, ?_⟩
    · show (removeMmap st off).2.fsize ≤ (removeMmap st off).2.file.length
      rw [key.1, key.2.1]; exact h.1
    · show ∀ s ∈ (removeMmap st off).2.slots, s.len = slotLen s (removeMmap st off).2.fsize
      rw [key.2.1]; exact key.2.2
    · simp only [flatExec, exec, stepDisk, key.2.1, key.1, if_true]
  | remapAll =>
    refine ⟨⟨h.1, ?_⟩, by simp [flatExec, exec, stepDisk]⟩
    intro s hs
    simp only [flatExec, exec, remapAll, List.mem_map] at hs
    obtain ⟨s0, _, rfl⟩ := hs
    exact slotLen_remapSlot _ _

theorem flatRun_dinv : ∀ (ops : List Op) (st : St), 0 < st.psize → AllShared st.slots → (∀ op ∈ ops, op.shared) →
    DInv st → DInv (flatRun st ops).1
  | [], _, _, _, _, hi => hi
  | op :: ops, st, hp, hs, hops, hi => by
    simp only [flatRun]
    exact flatRun_dinv ops _ (by rw [flatExec_psize st op hs]; exact hp)
      (flatExec_allShared st op hs (hops op (List.mem_cons_self)))
      (fun o ho => hops o (List.mem_cons_of_mem _ ho)) (flatExec_disk st op hp hi).1

/-! ## what the next open sees -/

/-- the `maxoff` an open call configures -/
def openMaxoff (ps maxoff : Nat) : Nat := if maxoff ≥ ps then roundDown maxoff ps else 0

/-- **close + open (no initial size)**: the size of the file on disk, rounded up to a page, becomes the logical size
    (the bytes are kept, the rest of the last page is zero); the open fails only when rounding up would pass the
    new `maxoff`. No assumption on the state. -/
theorem openFile_size (s : St) (pol : Policy) (maxoff : Nat) (hp : 0 < s.psize) :
    let r := openFile (close s) pol maxoff 0 false
    let L := roundUp s.file.length s.psize
    r.1 = (if s.file.length % s.psize ≠ 0 ∧ openMaxoff s.psize maxoff ≠ 0 ∧ L > openMaxoff s.psize maxoff then .maxoff else .ok) ∧
    (r.1 = .ok → r.2.fsize = L ∧ r.2.file = resize s.file L ∧ r.2.isOpen = true ∧ r.2.slots = []) := by
  simp only []
  unfold openFile close openMaxoff
  simp only [Bool.false_eq_true, if_false, Nat.not_lt_zero]
  generalize (if maxoff ≥ s.psize then roundDown maxoff s.psize else 0) = mo
  by_cases hal : s.file.length % s.psize = 0
  · simp only [hal, ne_eq, not_true_eq_false, if_false, false_and]
    simp [roundUp_of_mod _ _ hp hal, resize_self]
  · simp only [hal, ne_eq, not_false_eq_true, if_true, true_and]
    have hgt : s.file.length < roundUp s.file.length s.psize := by
      have h1 := roundUp_ge s.file.length s.psize hp
      have h2 := roundUp_mod s.file.length s.psize
      by_cases he : s.file.length = roundUp s.file.length s.psize
      · rw [← he] at h2; exact absurd h2 hal
      · omega
    unfold truncate
    simp only []
    rw [if_neg (Nat.ne_of_lt hgt), if_pos hgt]
    by_cases hc : mo ≠ 0 ∧ roundUp s.file.length s.psize > mo
    · rw [if_pos hc, if_pos hc]; simp
    · rw [if_neg hc, if_neg hc]; simp [remapAll]

end IwModel.Exf
