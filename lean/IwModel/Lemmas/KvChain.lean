import IwModel.Model.KvChain
import IwModel.Lemmas.KvNode
/-! Invariant of the chain writer model (Model/KvChain.lean): every node satisfies `NodeInv`, the nodes are in key order, and every
operation — including the split of a full node and the removal of an emptied node — keeps that. Core Lean only.
Statements for the property file are re-exported in Props/C06.lean. -/
namespace IwModel.KvChain
open IwModel IwModel.FormatEnc IwModel.KvBlk IwModel.KvNode

/-! ### `_kvblk_addkv` on the two blocks of a split -/

theorem vn_le8 {x : Nat} (h : x < 72057594037927936) : vn x ≤ 8 := by
  rcases vn_cases x with h1 | h1 | h1 | h1 | h1 | h1 | h1 | h1 | h1 | h1 <;> omega

theorem vn_le5 {x : Nat} (h : x < 34359738368) : vn x ≤ 5 := by
  rcases vn_cases x with h1 | h1 | h1 | h1 | h1 | h1 | h1 | h1 | h1 | h1 <;> omega

/-- the record placed into a free slot of a block that has room: what `AddSpec` says -/
theorem place_spec {b b1 : KvBlk} (hb1 : Geo b1) (key val : Bytes)
    (hroom : Gen.KVBLK_HDRSZ + idxBytes b1.slots + b1.maxoff + rsz b1 (recSize key val) ≤ 2 ^ b1.szpow)
    (hsame : SameRecs b1 b) (z1 : Nat) (hz : z1 < b1.slots.length) (hfree : (sl b1.slots z1).len = 0) :
    Geo (place b1 z1 key val (recSize key val)) ∧ z1 < b.slots.length ∧ (sl b.slots z1).len = 0 ∧
    (place b1 z1 key val (recSize key val)).slots.length = b.slots.length ∧
    sl (place b1 z1 key val (recSize key val)).slots z1 = ⟨(place b1 z1 key val (recSize key val)).maxoff, recSize key val, key, val⟩ ∧
    ∀ i, i ≠ z1 → (sl (place b1 z1 key val (recSize key val)).slots i).len = (sl b.slots i).len ∧
      (sl (place b1 z1 key val (recSize key val)).slots i).key = (sl b.slots i).key ∧
      (sl (place b1 z1 key val (recSize key val)).slots i).val = (sl b.slots i).val := by
  have hg := geo_place hb1 z1 hz hfree key val hroom
  refine ⟨hg, by rw [← hsame.1]; exact hz, by rw [← (hsame.2 z1).1]; exact hfree, ?_, ?_, ?_⟩
  · show (b1.slots.set z1 _).length = _; rw [List.length_set, hsame.1]
  · exact sl_set_eq _ _ _ hz
  · intro i hi
    have e3 : sl (place b1 z1 key val (recSize key val)).slots i = sl b1.slots i := sl_set_ne _ z1 i _ (Ne.symm hi)
    rw [e3]
    exact hsame.2 i

/-- `_kvblk_addkv` on a block whose cached index size is stale (not above the real one) but which has room for the record, the
largest possible index entry included: the record is placed directly (no compaction, no growth). This is the situation of the new
node of a split, whose block is created with room for all records that move plus `KVBLK_MAX_NKV_SZ`. -/
theorem addkv_direct {b : KvBlk} (g : Geo b) (key val : Bytes)
    (hidx : b.idxsz ≤ idxBytes b.slots)
    (hroom : Gen.KVBLK_HDRSZ + idxBytes b.slots + b.maxoff + recSize key val + 13 ≤ 2 ^ b.szpow)
    (hoff : b.maxoff ≤ 32 * 268435455) (b' : KvBlk) (idx : Nat)
    (e : addkv b key val = .ok b' idx) :
    b' = place b idx key val (recSize key val) ∧ recSize key val ≤ Gen.IWKV_MAX_KVSZ ∧
    idx < b.slots.length ∧ (sl b.slots idx).len = 0 := by
  simp only [addkv] at e
  split at e
  · exact absurd e (by simp)
  · rename_i z hz
    split at e
    · exact absurd e (by simp)
    · rename_i hmax
      have hM : Gen.IWKV_MAX_KVSZ = 268435455 := rfl
      have h8 : vn (b.maxoff + recSize key val) ≤ 8 := vn_le8 (by omega)
      have h5 : vn (recSize key val) ≤ 5 := vn_le5 (by have : Gen.IWKV_MAX_KVSZ = 268435455 := rfl; omega)
      have hdirect : ¬ msz b < rsz b (recSize key val) := by
        simp only [msz, rsz]; omega
      simp only [hdirect, not_false_eq_true, if_true, hz, Option.getD_some, AddRes.ok.injEq] at e
      obtain ⟨e1, e2⟩ := e
      subst e2
      have hzf := (firstFree_some b.slots z).1 (by rw [← g.zidx, hz])
      exact ⟨e1.symm, by omega, hzf.1, hzf.2.1⟩

/-- `AddSpec` for such a block -/
theorem addSpec_direct {b : KvBlk} (g : Geo b) (key val : Bytes)
    (hidx : b.idxsz ≤ idxBytes b.slots)
    (hroom : Gen.KVBLK_HDRSZ + idxBytes b.slots + b.maxoff + recSize key val + 13 ≤ 2 ^ b.szpow)
    (hoff : b.maxoff ≤ 32 * 268435455) : AddSpec b key val := by
  intro b' idx e
  obtain ⟨e1, hmax, h1, h2⟩ := addkv_direct g key val hidx hroom hoff b' idx e
  have hM : Gen.IWKV_MAX_KVSZ = 268435455 := rfl
  have h8 : vn (b.maxoff + recSize key val) ≤ 8 := vn_le8 (by omega)
  have h5 : vn (recSize key val) ≤ 5 := vn_le5 (by have : Gen.IWKV_MAX_KVSZ = 268435455 := rfl; omega)
  rw [e1]
  exact place_spec g key val (by simp only [rsz]; omega) (SameRecs.refl b) idx h1 h2

/-! ### a block whose `zidx` is a free slot, not necessarily the first (the lower half of a split: `zidx = pi[pivot]`) -/

/-- the block with `zidx` as `_kvblk_at_mm` computes it -/
def normZ (b : KvBlk) : KvBlk := { b with zidx := firstFree b.slots }

/-- same block apart from `zidx` -/
def EqZ (c b : KvBlk) : Prop := c.slots = b.slots ∧ c.szpow = b.szpow ∧ c.idxsz = b.idxsz ∧ c.maxoff = b.maxoff

theorem place_eqZ {c b : KvBlk} (h : EqZ c b) (z : Nat) (key val : Bytes) (psz : Nat) : place c z key val psz = place b z key val psz := by
  obtain ⟨h1, h2, h3, h4⟩ := h
  cases c; cases b
  simp only at h1 h2 h3 h4
  subst h1 h2 h3 h4
  rfl

theorem compact_normZ (b : KvBlk) (h : compactedOffset b ≠ b.maxoff) : compact (normZ b) = compact b := by
  have h' : compactedOffset (normZ b) ≠ (normZ b).maxoff := h
  simp only [compact, if_neg h, if_neg h']
  rfl

/-- the block `_kvblk_addkv` places the record into, as a function of the block it starts from -/
def prep (b : KvBlk) (psz : Nat) : KvBlk :=
  if ¬ msz b < rsz b psz then b
  else if compactedOffset b ≠ b.maxoff then
    (if ¬ msz (compact b) < rsz (compact b) psz then compact b else grow (compact b) psz)
  else grow b psz

theorem prep_normZ (b : KvBlk) (psz : Nat) :
    EqZ (prep (normZ b) psz) (prep b psz) ∧ ((prep b psz).zidx = b.zidx ∨ (prep b psz).zidx = firstFree (prep b psz).slots) := by
  have m1 : msz (normZ b) = msz b := rfl
  have m2 : rsz (normZ b) psz = rsz b psz := rfl
  have m3 : compactedOffset (normZ b) = compactedOffset b := rfl
  have m4 : (normZ b).maxoff = b.maxoff := rfl
  unfold prep
  rw [m1, m2, m3, m4]
  by_cases h1 : msz b < rsz b psz
  · have n1 : ¬ ¬ msz b < rsz b psz := fun hn => hn h1
    rw [if_neg n1, if_neg n1]
    by_cases h2 : compactedOffset b ≠ b.maxoff
    · rw [if_pos h2, if_pos h2, compact_normZ b h2]
      have hz : (compact b).zidx = firstFree (compact b).slots := by
        have h2' : ¬ compactedOffset b = b.maxoff := h2
        simp only [compact, if_neg h2']
      by_cases h3 : msz (compact b) < rsz (compact b) psz
      · have n3 : ¬ ¬ msz (compact b) < rsz (compact b) psz := fun hn => hn h3
        rw [if_neg n3]
        exact ⟨⟨rfl, rfl, rfl, rfl⟩, Or.inr hz⟩
      · rw [if_pos h3]
        exact ⟨⟨rfl, rfl, rfl, rfl⟩, Or.inr hz⟩
    · rw [if_neg h2, if_neg h2]
      exact ⟨⟨rfl, rfl, rfl, rfl⟩, Or.inl rfl⟩
  · rw [if_pos h1, if_pos h1]
    exact ⟨⟨rfl, rfl, rfl, rfl⟩, Or.inl rfl⟩

/-- `AddSpec` for a block that satisfies `BlkInv` once `zidx` is normalised and whose `zidx` is SOME free slot -/
theorem addSpec_weakZ {b : KvBlk} (hb : BlkInv (normZ b)) (z : Nat) (hz : b.zidx = some z) (hzl : z < b.slots.length)
    (hzf : (sl b.slots z).len = 0) (key val : Bytes) : AddSpec b key val := by
  intro b' idx e
  have e' : (match b.zidx with
      | none => AddRes.full
      | some z => if recSize key val > Gen.IWKV_MAX_KVSZ then AddRes.maxkvsz
        else AddRes.ok (place (prep b (recSize key val)) ((prep b (recSize key val)).zidx.getD z) key val (recSize key val))
          ((prep b (recSize key val)).zidx.getD z)) = .ok b' idx := e
  rw [hz] at e'
  simp only at e'
  split at e'
  · exact absurd e' (by simp)
  · obtain ⟨hb1, hroom, hsame⟩ := addkv_prepared hb (recSize key val)
    have hb1' : BlkInv (prep (normZ b) (recSize key val)) := hb1
    have hroom' : Gen.KVBLK_HDRSZ + (prep (normZ b) (recSize key val)).idxsz + (prep (normZ b) (recSize key val)).maxoff +
        rsz (prep (normZ b) (recSize key val)) (recSize key val) ≤ 2 ^ (prep (normZ b) (recSize key val)).szpow := hroom
    have hsame' : SameRecs (prep (normZ b) (recSize key val)) b := hsame
    obtain ⟨heq, hzz⟩ := prep_normZ b (recSize key val)
    simp only [AddRes.ok.injEq] at e'
    obtain ⟨e1, e2⟩ := e'
    -- the slot the record goes to is free in the prepared block
    have hfree : idx < (prep (normZ b) (recSize key val)).slots.length ∧ (sl (prep (normZ b) (recSize key val)).slots idx).len = 0 := by
      rw [← e2]
      rcases hzz with hq | hq
      · rw [hq, hz, Option.getD_some, hsame'.1, (hsame'.2 z).1]; exact ⟨hzl, hzf⟩
      · cases hf : firstFree (prep b (recSize key val)).slots with
        | none => rw [hq, hf, Option.getD_none, hsame'.1, (hsame'.2 z).1]; exact ⟨hzl, hzf⟩
        | some z1 =>
          rw [hq, hf, Option.getD_some]
          have := (firstFree_some _ z1).1 hf
          rw [heq.1]; exact ⟨this.1, this.2.1⟩
    rw [e2, ← place_eqZ heq] at e1
    rw [← e1]
    have hi := hb1'.idxge
    exact place_spec hb1'.toGeo key val (by omega) hsame' idx hfree.1 hfree.2

/-! ### the lower half of a split: `cutOld` -/

theorem sl_clearSlots (s : List Slot) (L : List Nat) (i : Nat) :
    sl (clearSlots s L) i = if i ∈ L then Slot.free else sl s i := by
  induction L generalizing s with
  | nil => simp [clearSlots]
  | cons a L ih =>
    show sl (clearSlots (s.set a Slot.free) L) i = _
    rw [ih]
    by_cases hL : i ∈ L
    · simp [hL]
    · by_cases ha : i = a
      · subst ha
        simp only [hL, if_false, List.mem_cons, true_or, if_true]
        by_cases hlt : i < s.length
        · exact sl_set_eq _ _ _ hlt
        · exact sl_ge _ _ (by rw [List.length_set]; omega)
      · have : ¬ (i ∈ a :: L) := by simp [ha, hL]
        simp only [hL, this, if_false]
        exact sl_set_ne _ _ _ _ (Ne.symm ha)

theorem length_clearSlots (s : List Slot) (L : List Nat) : (clearSlots s L).length = s.length := by
  induction L generalizing s with
  | nil => rfl
  | cons a L ih => show (clearSlots (s.set a Slot.free) L).length = _; rw [ih, List.length_set]

/-- resetting slots one after the other keeps the block invariant (each step is the table part of `_kvblk_rmkv`) -/
theorem blkInv_clearMany {b : KvBlk} (h : BlkInv b) (L : List Nat) (hL : ∀ i ∈ L, i < b.slots.length) :
    ∃ b0, BlkInv b0 ∧ b0.slots = clearSlots b.slots L ∧ b0.szpow = b.szpow ∧ b0.idxsz = b.idxsz := by
  induction L generalizing b with
  | nil => exact ⟨b, h, rfl, rfl, rfl⟩
  | cons a L ih =>
    have hc := blkInv_cleared h a (hL a (by simp))
    have hlen : (cleared b a).slots.length = b.slots.length := List.length_set
    obtain ⟨b0, h0, h1, h2, h3⟩ := ih hc (fun i hi => by rw [hlen]; exact hL i (by simp [hi]))
    exact ⟨b0, h0, h1, h2, h3⟩

theorem take_drop_disjoint {l : List Nat} (h : l.Nodup) (k : Nat) : ∀ i, i ∈ l.take k → i ∈ l.drop k → False := by
  intro i h1 h2
  have h' : (l.take k ++ l.drop k).Nodup := by rw [List.take_append_drop]; exact h
  exact (List.nodup_append.1 h').2.2 i h1 i h2 rfl

theorem mem_take_or_drop {l : List Nat} (k i : Nat) : i ∈ l ↔ i ∈ l.take k ∨ i ∈ l.drop k := by
  conv => lhs; rw [← List.take_append_drop k l]
  exact List.mem_append

/-- the lower half keeps the first `pivot` keys, the invariant apart from `zidx` (which is SOME free slot), and its cache -/
theorem core_cutOld {compound : Bool} {n : Node} (h : NodeInv compound n) (hp : pivot < n.pi.length) :
    Core compound (cutOld n) ∧ keys (cutOld n) = (keys n).take pivot ∧ BlkInv (normZ (cutOld n).blk) ∧
    (cutOld n).pnum = pivot ∧
    (cutOld n).blk.zidx = some (piAt n pivot) ∧ piAt n pivot < (cutOld n).blk.slots.length ∧
    (sl (cutOld n).blk.slots (piAt n pivot)).len = 0 := by
  have hpiv : 0 < pivot := by decide
  have hused : ∀ i ∈ n.pi, i < n.blk.slots.length := fun i hi => used_lt ((h.mem i).1 hi)
  have hsl : ∀ i, sl (cutOld n).blk.slots i = if i ∈ n.pi.drop pivot then Slot.free else sl n.blk.slots i :=
    fun i => sl_clearSlots _ _ i
  have hkeep : ∀ i ∈ n.pi.take pivot, sl (cutOld n).blk.slots i = sl n.blk.slots i := by
    intro i hi
    rw [hsl, if_neg (fun hd => take_drop_disjoint h.nodup pivot i hi hd)]
  have hkeys : keys (cutOld n) = (keys n).take pivot := by
    show (n.pi.take pivot).map (slotKey (cutOld n).blk) = ((n.pi.map (slotKey n.blk))).take pivot
    rw [← List.map_take]
    exact List.map_congr_left fun i hi => by rw [slotKey_eq, slotKey_eq, hkeep i hi]
  have hzm : piAt n pivot ∈ n.pi.drop pivot := by
    rw [piAt_eq n pivot hp]
    exact List.mem_drop_iff_getElem.2 ⟨0, by omega, by simp⟩
  obtain ⟨b0, h0, h1, h2, h3⟩ := blkInv_clearMany h.blk (n.pi.drop pivot) (fun i hi => hused i (List.mem_of_mem_drop hi))
  have hslots : (cutOld n).blk.slots = b0.slots := h1.symm
  refine ⟨?_, hkeys, ?_, ?_, rfl, ?_, ?_⟩
  · refine { pnum := ?_, le32 := ?_, nodup := ?_, mem := ?_, sorted := ?_, wf := ?_, cache := ?_ }
    · show n.pnum - (n.pi.drop pivot).length = (n.pi.take pivot).length
      rw [List.length_drop, List.length_take, h.pnum]; omega
    · show n.pnum - (n.pi.drop pivot).length ≤ _
      have := h.le32; omega
    · exact h.nodup.sublist (List.take_sublist _ _)
    · intro i
      show i ∈ n.pi.take pivot ↔ (sl (cutOld n).blk.slots i).len ≠ 0
      rw [hsl]
      by_cases hd : i ∈ n.pi.drop pivot
      · simp only [hd, if_true]
        constructor
        · intro ht; exact absurd hd (fun hd => take_drop_disjoint h.nodup pivot i ht hd)
        · intro hne; exact absurd rfl hne
      · simp only [hd, if_false]
        constructor
        · intro ht; exact (h.mem i).1 (List.mem_of_mem_take ht)
        · intro hu
          rcases (mem_take_or_drop pivot i).1 ((h.mem i).2 hu) with ht | hd'
          · exact ht
          · exact absurd hd' hd
    · rw [hkeys]; exact h.sorted.sublist (List.take_sublist _ _)
    · rw [hkeys]; intro k hk; exact h.wf k (List.mem_of_mem_take hk)
    · intro k0 hk0
      rw [hkeys] at hk0
      have : (keys n).head? = some k0 := by
        cases hq : keys n with
        | nil => rw [hq] at hk0; simp at hk0
        | cons x xs =>
          rw [hq] at hk0
          have : pivot = (pivot - 1) + 1 := by omega
          rw [this, List.take_succ_cons] at hk0
          simpa using hk0
      exact h.cache k0 this
  · -- the block: as after resetting the slots one by one
    have hmo : (cutOld n).blk.maxoff = maxOff (cutOld n).blk.slots := rfl
    have hr := h0.room'
    have hr2 := h0.room
    have hm0 := h0.maxoff
    have hi0 := h0.idxge
    refine { n32 := ?_, tab := ?_, maxoff := hmo, room := ?_, zidx := rfl, idxge := ?_, room' := ?_ }
    · show (cutOld n).blk.slots.length = _; rw [hslots]; exact h0.n32
    · show Tab (cutOld n).blk.slots; rw [hslots]; exact h0.tab
    · show Gen.KVBLK_HDRSZ + idxBytes (cutOld n).blk.slots + maxOff (cutOld n).blk.slots ≤ 2 ^ n.blk.szpow
      rw [hslots, ← hm0, ← h2]; exact hr2
    · show idxBytes (cutOld n).blk.slots ≤ n.blk.idxsz
      rw [hslots, ← h3]; exact hi0
    · show Gen.KVBLK_HDRSZ + n.blk.idxsz + maxOff (cutOld n).blk.slots ≤ 2 ^ n.blk.szpow
      rw [hslots, ← hm0, ← h2, ← h3]; exact hr
  · show n.pnum - (n.pi.drop pivot).length = pivot
    rw [List.length_drop, h.pnum]; omega
  · show piAt n pivot < (clearSlots n.blk.slots (n.pi.drop pivot)).length
    rw [length_clearSlots]; exact hused _ (List.mem_of_mem_drop hzm)
  · rw [hsl, if_pos hzm]; rfl

/-! ### the new node of a split: filled by `_sblk_addkv2` calls without a sync in between -/

/-- a block being filled: `j` records placed so far, `rest` bytes of records still to come. Its cached index size is the one of the
empty block; what keeps the data area off the index is the size the block was created with (`KVBLK_MAX_NKV_SZ` + all records). -/
structure Fill (b : KvBlk) (j rest : Nat) : Prop where
  geo : Geo b
  idxsz : b.idxsz ≤ idxBytes b.slots
  idx : idxBytes b.slots ≤ 2 * Gen.KVBLK_IDXNUM + 11 * j
  off : b.maxoff ≤ j * 268435455
  budget : Gen.KVBLK_HDRSZ + Gen.KVBLK_MAX_IDX_SZ + b.maxoff + rest ≤ 2 ^ b.szpow

set_option maxRecDepth 4000 in
theorem fill_step {b : KvBlk} {j rest : Nat} (h : Fill b j rest) (hj : j ≤ 15) (key val : Bytes)
    (hpsz : recSize key val ≤ rest + 20) :
    AddSpec b key val ∧ ∀ b' i, addkv b key val = .ok b' i → recSize key val ≤ rest → Fill b' (j + 1) (rest - recSize key val) := by
  have c1 : Gen.KVBLK_HDRSZ = 3 := rfl
  have c2 : Gen.KVBLK_MAX_IDX_SZ = 416 := rfl
  have c3 : Gen.KVBLK_IDXNUM = 32 := rfl
  have hM : Gen.IWKV_MAX_KVSZ = 268435455 := rfl
  have hi := h.idx
  have ho := h.off
  have hb := h.budget
  have hroom : Gen.KVBLK_HDRSZ + idxBytes b.slots + b.maxoff + recSize key val + 13 ≤ 2 ^ b.szpow := by omega
  have hoff : b.maxoff ≤ 32 * 268435455 := Nat.le_trans ho (Nat.mul_le_mul_right _ (by omega))
  have hspec := addSpec_direct h.geo key val h.idxsz hroom hoff
  refine ⟨hspec, ?_⟩
  intro b' i e hle
  obtain ⟨e1, hmax, hlt, hfree⟩ := addkv_direct h.geo key val h.idxsz hroom hoff b' i e
  have hg := (hspec b' i e).1
  have hset := idxBytes_set b.slots i ⟨b.maxoff + recSize key val, recSize key val, key, val⟩ hlt
  rw [hfree, h.geo.tab.freeoff i hfree, vn_zero] at hset
  dsimp only at hset
  have h8 : vn (b.maxoff + recSize key val) ≤ 8 := vn_le8 (by omega)
  have h5 : vn (recSize key val) ≤ 5 := vn_le5 (by omega)
  have p1 := vn_pos (b.maxoff + recSize key val)
  have p2 := vn_pos (recSize key val)
  have hs : b'.slots = b.slots.set i ⟨b.maxoff + recSize key val, recSize key val, key, val⟩ := by rw [e1]; rfl
  have hm : b'.maxoff = b.maxoff + recSize key val := by rw [e1]; rfl
  have hx : b'.idxsz = b.idxsz := by rw [e1]; rfl
  have hp : b'.szpow = b.szpow := by rw [e1]; rfl
  have hidxsz := h.idxsz
  exact { geo := hg, idxsz := by rw [hx, hs]; omega, idx := by rw [hs]; omega, off := by rw [hm]; omega,
          budget := by rw [hm, hp]; omega }

theorem addkv2_blk {n n' : Node} {idx : Nat} {pre body val : Bytes} (e : addkv2 n idx pre body val = .ok n') :
    ∃ b' kvidx, addkv n.blk (pre ++ body) val = .ok b' kvidx ∧ n'.blk = b' ∧ n'.pnum = n.pnum + 1 := by
  simp only [addkv2] at e
  split at e
  · exact absurd e (by simp)
  · split at e
    · exact absurd e (by simp)
    · exact absurd e (by simp)
    · rename_i b kvidx hq
      simp only [Res.ok.injEq] at e
      refine ⟨b, kvidx, hq, ?_, ?_⟩ <;> (rw [← e]; split <;> rfl)

/-- sum of the lengths of the records in the listed slots -/
def lenSum (src : KvBlk) (L : List Nat) : Nat := (L.map fun s => (src.slots.getD s Slot.free).len).sum

/-- the move loop of `_lx_split_addkv`: the new node receives the listed records in order, behind the ones it has -/
theorem moveGo_spec {compound : Bool} (src : KvBlk) (htab : Tab src.slots) (extra : Nat) :
    ∀ (L : List Nat) (nb nb' : Node), moveGo src L nb nb.pnum = some nb' →
      Core compound nb → Fill nb.blk nb.pnum (lenSum src L + extra) → nb.pnum + L.length ≤ 16 →
      (∀ s ∈ L, (sl src.slots s).len ≠ 0 ∧ WFS compound (slotKey src s)) →
      ((keys nb ++ L.map (slotKey src)).Pairwise (gtS compound)) →
      Core compound nb' ∧ Fill nb'.blk nb'.pnum extra ∧ keys nb' = keys nb ++ L.map (slotKey src) ∧
      nb'.pnum = nb.pnum + L.length := by
  intro L
  induction L with
  | nil =>
    intro nb nb' e hc hf _ _ _
    simp only [moveGo, Option.some.injEq] at e
    subst e
    refine ⟨hc, ?_, by simp, by simp⟩
    have : lenSum src [] + extra = extra := by simp [lenSum]
    rw [this] at hf; exact hf
  | cons s rest ih =>
    intro nb nb' e hc hf hcnt hL hsorted
    simp only [moveGo] at e
    split at e
    · rename_i nb1 hq
      have hs := hL s (by simp)
      have hfit : (sl src.slots s).len = recSize (slotKey src s) (slotVal src s) := htab.fit s hs.1
      have hsum : lenSum src (s :: rest) = (sl src.slots s).len + lenSum src rest := by simp [lenSum]
      rw [hsum] at hf
      have hcnt' : nb.pnum + rest.length + 1 ≤ 16 := by simpa [Nat.add_assoc] using hcnt
      obtain ⟨hspec, hfill⟩ := fill_step hf (by omega) (slotKey src s) (slotVal src s) (by omega)
      have hklen : (keys nb).length = nb.pnum := by rw [hc.pnum]; simp [keys]
      -- the new key sorts behind all keys of the node
      have hbehind : ∀ x ∈ keys nb, gtS compound x (slotKey src s) := by
        intro x hx
        have := (List.pairwise_append.1 hsorted).2.2 x hx (slotKey src s) (by simp)
        exact this
      have hf' : Found (fun i => (fun st => cmpS compound st (slotKey src s)) (keyAt nb i)) nb.pnum (false, nb.pnum) := by
        refine ⟨Nat.le_refl _, ?_, fun hh => by simp at hh, fun _ i h1 h2 => by omega⟩
        intro i hi
        have hi' : i < nb.pi.length := by rw [← hc.pnum]; exact hi
        have : keyAt nb i ∈ keys nb := by rw [keyAt_eq_getElem nb i hi']; exact List.getElem_mem _
        exact hbehind _ this
      have hstep := core_addkv2' hc nb.pnum [] (slotKey src s) (slotVal src s) hspec
        (fun st => cmpS compound st (slotKey src s)) hs.2 (by simp) (fun st _ => rfl) hf' nb1 hq
      obtain ⟨b', kvidx, ha, hb', hp'⟩ := addkv2_blk hq
      have ha' : addkv nb.blk (slotKey src s) (slotVal src s) = .ok b' kvidx := ha
      have hfill' := hfill b' kvidx ha' (by omega)
      have hkeys1 : keys nb1 = keys nb ++ [slotKey src s] := by
        rw [hstep.2.2.2, ← hklen, List.take_length, List.drop_length]; rfl
      have hrest : (sl src.slots s).len + lenSum src rest + extra - recSize (slotKey src s) (slotVal src s) = lenSum src rest + extra := by
        omega
      rw [hrest, ← hb', ← hp'] at hfill'
      rw [← hp'] at e
      have := ih nb1 nb' e hstep.2.1 hfill' (by rw [hp']; omega)
        (fun t ht => hL t (by simp [ht])) (by rw [hkeys1]; simpa using hsorted)
      refine ⟨this.1, this.2.1, ?_, ?_⟩
      · rw [this.2.2.1, hkeys1]; simp
      · rw [this.2.2.2, hp']; simp only [List.length_cons]; omega
    · exact absurd e (by simp)

/-! ### `_lx_split_addkv`, middle branch -/

theorem core_freshPow (compound : Bool) (p : Nat) : Core compound (freshPow p) := by
  have h := (core_fresh compound).2
  exact { pnum := h.pnum, le32 := h.le32, nodup := h.nodup, mem := h.mem, sorted := h.sorted, wf := h.wf, cache := h.cache }

theorem fill_freshPow (sz rest : Nat) (h : rest + Gen.KVBLK_MAX_NKV_SZ ≤ sz) : Fill (freshPow (powFor sz)).blk 0 rest := by
  have c1 : Gen.KVBLK_HDRSZ = 3 := rfl
  have c2 : Gen.KVBLK_MAX_IDX_SZ = 416 := rfl
  have c3 : Gen.KVBLK_IDXNUM = 32 := rfl
  have c4 : Gen.KVBLK_MAX_NKV_SZ = 419 := rfl
  have c5 : Gen.KVBLK_INISZPOW = 9 := rfl
  have hpow : sz ≤ 2 ^ powFor sz := growPow_spec sz 0 sz (by rw [Nat.zero_add]; exact Nat.le_of_lt Nat.lt_two_pow_self)
  have hmono : 2 ^ powFor sz ≤ 2 ^ max (powFor sz) Gen.KVBLK_INISZPOW := Nat.pow_le_pow_right (by decide) (Nat.le_max_left _ _)
  have h9 : 2 ^ 9 ≤ 2 ^ max (powFor sz) Gen.KVBLK_INISZPOW := Nat.pow_le_pow_right (by decide) (by rw [c5]; exact Nat.le_max_right _ _)
  have h512 : (2 : Nat) ^ 9 = 512 := by decide
  have hinv : BlkInv (create (max (powFor sz) Gen.KVBLK_INISZPOW)) := blkInv_create _ (by omega) (by decide)
  have hi : idxBytes (create (max (powFor sz) Gen.KVBLK_INISZPOW)).slots = 2 * Gen.KVBLK_IDXNUM := idxBytes_replicate_free _
  have hx : (create (max (powFor sz) Gen.KVBLK_INISZPOW)).idxsz = 2 * vn 0 * Gen.KVBLK_IDXNUM := rfl
  exact { geo := hinv.toGeo
          idxsz := by show (create _).idxsz ≤ idxBytes (create _).slots; rw [hx, hi, vn_zero]; omega
          idx := by show idxBytes (create _).slots ≤ _; rw [hi]; omega
          off := Nat.zero_le _
          budget := by
            show Gen.KVBLK_HDRSZ + Gen.KVBLK_MAX_IDX_SZ + 0 + rest ≤ 2 ^ max (powFor sz) Gen.KVBLK_INISZPOW
            omega }

theorem mem_keys_of_mem_pi (n : Node) (s : Nat) (h : s ∈ n.pi) : slotKey n.blk s ∈ keys n := List.mem_map_of_mem h

/-- stored key of the lookup key -/
abbrev skOf (compound : Bool) (k : Bytes) (c : Nat) : Bytes := preOf compound c ++ k

theorem recSize_sk_le (compound : Bool) (k : Bytes) (c : Nat) (hc : c < 2 ^ 63) (val : Bytes) :
    recSize (skOf compound k c) val ≤ vn k.length + k.length + val.length + 20 := by
  have hl : (preOf compound c).length ≤ 10 := by
    cases compound with
    | false => simp [preOf]
    | true => have := Cmp.enc_length_le10 hc; have e10 : Gen.IW_VNUMBUFSZ = 10 := rfl; rw [e10] at this; simpa [preOf] using this
  have := vn_le (skOf compound k c).length
  have := vn_pos k.length
  simp only [recSize, skOf, List.length_append] at *
  omega

/-- **the split keeps the invariant**: both halves satisfy `NodeInv`, together they hold the old keys and the new one, and every key
of the lower half sorts before every key of the upper half -/
theorem splitMid_spec {compound : Bool} {n : Node} (h : NodeInv compound n) (hfull : n.pnum = Gen.KVBLK_IDXNUM) (idx : Nat)
    (k : Bytes) (c : Nat) (hk : k ≠ []) (hc : c < 2 ^ 63) (val : Bytes)
    (hf : Found (fun i => cmpOf compound k c (keyAt n i)) n.pnum (false, idx)) (o nb : Node)
    (e : splitMid n idx (cmpOf compound k c) (preOf compound c) k val = some (o, nb)) :
    NodeInv compound o ∧ NodeInv compound nb ∧
    (∀ x ∈ keys o, x ∈ keys n ∨ x = skOf compound k c) ∧ (∀ x ∈ keys nb, x ∈ keys n ∨ x = skOf compound k c) ∧
    (∀ x ∈ keys o, ∀ y ∈ keys nb, gtS compound x y) := by
  have c3 : Gen.KVBLK_IDXNUM = 32 := rfl
  have hpv : pivot = 17 := rfl
  have hlen : n.pi.length = 32 := by rw [← h.pnum, hfull, c3]
  have hklen : (keys n).length = 32 := by simp [keys, hlen]
  have hsk : WFS compound (skOf compound k c) := by
    show WFS compound (preOf compound c ++ k); rw [preOf_append]; exact wfs_stored compound k c hk hc
  have hpre := preOf_length compound c hc
  have hcmp : ∀ st ∈ keys n, cmpOf compound k c st = cmpS compound st (skOf compound k c) := by
    intro st hst
    show _ = cmpS compound st (preOf compound c ++ k)
    rw [preOf_append]; exact cmpOf_eq compound k c st (h.wf st hst)
  have hkat : ∀ i, i < 32 → keyAt n i ∈ keys n := fun i hi => by
    rw [keyAt_eq_getElem n i (by omega)]; exact List.getElem_mem _
  -- the keys left of `idx` sort before the new key, the keys from `idx` on after it
  have hleft : ∀ i, i < idx → i < 32 → gtS compound (keyAt n i) (skOf compound k c) := by
    intro i hi hi2
    have := hf.left i hi
    rw [hcmp _ (hkat i hi2)] at this; exact this
  have hright : ∀ i, idx ≤ i → i < 32 → gtS compound (skOf compound k c) (keyAt n i) := by
    intro i hi hi2
    have := hf.miss rfl i hi (by omega)
    rw [hcmp _ (hkat i hi2)] at this
    exact (cmpS_flip compound _ _).2.2.1 this
  have hnew : ∀ st ∈ keys n, cmpOf compound k c st ≠ 0 := by
    intro st hst
    obtain ⟨i, hi, ei⟩ := List.getElem_of_mem hst
    have hi' : i < 32 := by omega
    have ek : keyAt n i = st := by rw [keyAt_eq_getElem n i (by omega)]; exact ei
    rw [← ek]
    by_cases hlt : i < idx
    · have := hf.left i hlt; omega
    · have := hf.miss rfl i (by omega) (by omega); omega
  have htake : ∀ x ∈ (keys n).take pivot, ∃ i, i < pivot ∧ x = keyAt n i := by
    intro x hx
    obtain ⟨i, hi, ei⟩ := List.mem_take_iff_getElem.1 hx
    exact ⟨i, by omega, by rw [keyAt_eq_getElem n i (by omega)]; exact ei.symm⟩
  have hdrop : ∀ x ∈ (keys n).drop pivot, ∃ i, pivot ≤ i ∧ i < 32 ∧ x = keyAt n i := by
    intro x hx
    obtain ⟨i, hi, ei⟩ := List.mem_drop_iff_getElem.1 hx
    exact ⟨pivot + i, by omega, by omega, by rw [keyAt_eq_getElem n (pivot + i) (by omega)]; exact ei.symm⟩
  have hhalves : ∀ x ∈ (keys n).take pivot, ∀ y ∈ (keys n).drop pivot, gtS compound x y := by
    have hs := h.sorted
    rw [← List.take_append_drop pivot (keys n)] at hs
    exact (List.pairwise_append.1 hs).2.2
  -- the new node after the move loop
  simp only [splitMid] at e
  split at e
  · exact absurd e (by simp)
  · rename_i nb0 hmv
    have hsz : lenSum n.blk (n.pi.drop pivot) + (if idx > pivot then vn k.length + k.length + val.length else 0) +
        Gen.KVBLK_MAX_NKV_SZ ≤ splitSz n idx k val := Nat.le_refl _
    have hfill0 := fill_freshPow (splitSz n idx k val) _ hsz
    obtain ⟨cnb, fnb, knb, pnb⟩ := moveGo_spec (compound := compound) n.blk h.blk.tab
      (if idx > pivot then vn k.length + k.length + val.length else 0) (n.pi.drop pivot)
      (freshPow (powFor (splitSz n idx k val))) nb0 hmv (core_freshPow compound _) hfill0
      (by show 0 + (n.pi.drop pivot).length ≤ 16; rw [List.length_drop]; omega)
      (fun s hs => ⟨(h.mem s).1 (List.mem_of_mem_drop hs), h.wf _ (mem_keys_of_mem_pi n s (List.mem_of_mem_drop hs))⟩)
      (by
        show (([] : List Nat).map (slotKey _) ++ (n.pi.drop pivot).map (slotKey n.blk)).Pairwise _
        rw [List.map_nil, List.nil_append, List.map_drop]
        exact h.sorted.sublist (List.drop_sublist _ _))
    have knb' : keys nb0 = (keys n).drop pivot := by
      rw [knb]; show ([] : List Nat).map _ ++ _ = _; rw [List.map_nil, List.nil_append, List.map_drop]; rfl
    have pnb' : nb0.pnum = 15 := by
      rw [pnb]; show 0 + (n.pi.drop pivot).length = 15; rw [List.length_drop]; omega
    obtain ⟨cold, kold, bold, pold, zold, zlt, zfree⟩ := core_cutOld h (by omega)
    split at e
    · -- the new record goes to the new node
      rename_i hgt
      split at e
      · rename_i nb' hadd
        simp only [Option.some.injEq, Prod.mk.injEq] at e
        obtain ⟨e1, e2⟩ := e
        have hspec := (fill_step (by rw [pnb'] at fnb; exact fnb) (Nat.le_refl 15) (skOf compound k c) val (by
          simp only [hgt, if_true]; exact recSize_sk_le compound k c hc val)).1
        obtain ⟨g', c', p', idx', k'⟩ := core_addkvIns' cnb (preOf compound c) k val hspec (cmpOf compound k c) hsk hpre
          (fun st hst => hcmp st (by rw [knb'] at hst; exact List.mem_of_mem_drop hst))
          (fun st hst => hnew st (by rw [knb'] at hst; exact List.mem_of_mem_drop hst)) nb' hadd
        have ko : keys o = (keys n).take pivot := by rw [← e1]; exact kold
        have kn : keys nb = (keys nb0).take idx' ++ skOf compound k c :: (keys nb0).drop idx' := by rw [← e2]; exact k'
        refine ⟨?_, ?_, ?_, ?_, ?_⟩
        · rw [← e1]
          exact { toCore := { pnum := cold.pnum, le32 := cold.le32, nodup := cold.nodup, mem := cold.mem, sorted := cold.sorted,
                              wf := cold.wf, cache := cold.cache }
                  blk := blkInv_sync bold.toGeo, pos := by show 0 < (cutOld n).pnum; rw [pold]; decide }
        · rw [← e2]; exact { toCore := core_sync c', blk := blkInv_sync g', pos := p' }
        · intro x hx; rw [ko] at hx; exact Or.inl (List.mem_of_mem_take hx)
        · intro x hx
          rw [kn] at hx
          rcases (mem_insertAt _ _ _ _).1 hx with ex | hx
          · exact Or.inr ex
          · rw [knb'] at hx; exact Or.inl (List.mem_of_mem_drop hx)
        · intro x hx y hy
          rw [ko] at hx
          rw [kn] at hy
          rcases (mem_insertAt _ _ _ _).1 hy with ey | hy
          · obtain ⟨i, hi, ei⟩ := htake x hx
            rw [ey, ei]; exact hleft i (by omega) (by omega)
          · rw [knb'] at hy; exact hhalves x hx y hy
      · exact absurd e (by simp)
    · -- the new record goes to the lower half
      rename_i hle
      split at e
      · rename_i o' hadd
        simp only [Option.some.injEq, Prod.mk.injEq] at e
        obtain ⟨e1, e2⟩ := e
        have hspec := addSpec_weakZ bold (piAt n pivot) zold zlt zfree (skOf compound k c) val
        obtain ⟨g', c', p', idx', k'⟩ := core_addkvIns' cold (preOf compound c) k val hspec (cmpOf compound k c) hsk hpre
          (fun st hst => hcmp st (by rw [kold] at hst; exact List.mem_of_mem_take hst))
          (fun st hst => hnew st (by rw [kold] at hst; exact List.mem_of_mem_take hst)) o' hadd
        have ko : keys o = (keys (cutOld n)).take idx' ++ skOf compound k c :: (keys (cutOld n)).drop idx' := by rw [← e1]; exact k'
        have kn : keys nb = (keys n).drop pivot := by rw [← e2]; exact knb'
        refine ⟨?_, ?_, ?_, ?_, ?_⟩
        · rw [← e1]; exact { toCore := core_sync c', blk := blkInv_sync g', pos := p' }
        · rw [← e2]; exact { toCore := core_sync cnb, blk := blkInv_sync fnb.geo, pos := by show 0 < nb0.pnum; omega }
        · intro x hx
          rw [ko] at hx
          rcases (mem_insertAt _ _ _ _).1 hx with ex | hx
          · exact Or.inr ex
          · rw [kold] at hx; exact Or.inl (List.mem_of_mem_take hx)
        · intro x hx; rw [kn] at hx; exact Or.inl (List.mem_of_mem_drop hx)
        · intro x hx y hy
          rw [ko] at hx
          rw [kn] at hy
          rcases (mem_insertAt _ _ _ _).1 hx with ex | hx
          · obtain ⟨i, hi, hi2, ei⟩ := hdrop y hy
            rw [ex, ei]; exact hright i (by omega) hi2
          · rw [kold] at hx; exact hhalves x hx y hy
      · exact absurd e (by simp)

/-! ### the chain invariant -/

/-- every key of `a` sorts before every key of `b` -/
def Above (compound : Bool) (a b : Node) : Prop := ∀ x ∈ keys a, ∀ y ∈ keys b, gtS compound x y

/-- invariant of the chain between API calls: every node satisfies the node invariant (hence is non-empty, holds at most
`KVBLK_IDXNUM` records, is sorted, caches its first key) and the nodes are in key order -/
structure ChainInv (compound : Bool) (ch : Chain) : Prop where
  nodes : ∀ n ∈ ch, NodeInv compound n
  order : ch.Pairwise (Above compound)

theorem chainInv_nil (compound : Bool) : ChainInv compound [] := ⟨fun _ h => absurd h (by simp), List.Pairwise.nil⟩

theorem pi_ne_nil {compound : Bool} {n : Node} (h : NodeInv compound n) : n.pi ≠ [] := by
  intro e0
  have := h.pnum; have := h.pos
  rw [e0] at *; simp at *; omega

theorem first_mem {compound : Bool} {n : Node} (h : NodeInv compound n) : keyAt n 0 ∈ keys n :=
  List.mem_of_mem_head? (head?_keys n (pi_ne_nil h))

/-- the first key of a node sorts before all its other keys -/
theorem first_le {compound : Bool} {n : Node} (h : NodeInv compound n) : ∀ y ∈ keys n, y = keyAt n 0 ∨ gtS compound (keyAt n 0) y := by
  intro y hy
  have hks : keys n = keyAt n 0 :: (keys n).tail := by
    have := head?_keys n (pi_ne_nil h)
    cases hq : keys n with
    | nil => rw [hq] at this; simp at this
    | cons x xs => rw [hq] at this; simp at this; simp [this]
  have hsorted := h.sorted
  rw [hks] at hsorted hy
  rcases List.mem_cons.1 hy with e1 | hy
  · exact Or.inl e1
  · exact Or.inr ((List.pairwise_cons.1 hsorted).1 y hy)

/-- the comparison `_lx_roll_forward` makes (through the cached key) has the sign of the comparison of the whole first key with
the lookup key -/
theorem lx_pos_iff {compound : Bool} {n : Node} (h : NodeInv compound n) (k : Bytes) (c : Nat) :
    lxCmp compound n k c > 0 ↔ gtS compound (skOf compound k c) (keyAt n 0) := by
  have hag := lookup_agrees compound h.toCore (pi_ne_nil h) k c
  have hc : cmpOf compound k c (keyAt n 0) = cmpS compound (keyAt n 0) (skOf compound k c) := by
    show _ = cmpS compound (keyAt n 0) (preOf compound c ++ k)
    rw [preOf_append]; exact cmpOf_eq compound k c _ (h.wf _ (first_mem h))
  have hc' : Cmp.cmpKeys .plain compound (keyAt n 0) k c = cmpS compound (keyAt n 0) (skOf compound k c) := hc
  rw [hc'] at hag
  constructor
  · intro hgt
    have : sgn (lxCmp compound n k c) = 1 := Cmp.sgn_pos.2 hgt
    rw [this] at hag
    exact (cmpS_flip compound _ _).2.2.1 (Cmp.sgn_pos.1 hag.symm)
  · intro hg
    have : cmpS compound (keyAt n 0) (skOf compound k c) > 0 := (cmpS_flip compound _ _).1.1 hg
    have : sgn (cmpS compound (keyAt n 0) (skOf compound k c)) = 1 := Cmp.sgn_pos.2 this
    rw [this] at hag
    exact Cmp.sgn_pos.1 hag

theorem lowerCnt_spec (compound : Bool) (k : Bytes) (c : Nat) (ch : Chain) :
    lowerCnt compound k c ch ≤ ch.length ∧
    (∀ j (hj : j < ch.length), j < lowerCnt compound k c ch → ¬ lxCmp compound ch[j] k c > 0) ∧
    (∀ hj : lowerCnt compound k c ch < ch.length, lxCmp compound ch[lowerCnt compound k c ch] k c > 0) := by
  induction ch with
  | nil => simp [lowerCnt]
  | cons n t ih =>
    by_cases hgt : lxCmp compound n k c > 0
    · simp only [lowerCnt, hgt, if_true]
      refine ⟨Nat.zero_le _, fun j _ hj => by omega, fun _ => by simpa using hgt⟩
    · simp only [lowerCnt, hgt, if_false]
      refine ⟨by simp; exact ih.1, ?_, ?_⟩
      · intro j hj hlt
        cases j with
        | zero => simpa using hgt
        | succ j => simpa using ih.2.1 j (by simpa using hj) (by omega)
      · intro hj
        simpa using ih.2.2 (by simpa using hj)

/-- where the lookup ends: the nodes in front of `lower` hold only keys that sort before the lookup key, `lower`'s first key does
not sort after it, the nodes from `upper` on hold only keys that sort after it -/
theorem route_spec {compound : Bool} {ch : Chain} (h : ChainInv compound ch) (k : Bytes) (c : Nat) :
    (∀ a ∈ ch.take (lowerCnt compound k c ch - 1), ∀ x ∈ keys a, gtS compound x (skOf compound k c)) ∧
    (∀ b ∈ ch.drop (lowerCnt compound k c ch), ∀ y ∈ keys b, gtS compound (skOf compound k c) y) ∧
    (∀ n, 0 < lowerCnt compound k c ch → ch[lowerCnt compound k c ch - 1]? = some n →
      cmpS compound (keyAt n 0) (skOf compound k c) ≤ 0) := by
  obtain ⟨hle, hbefore, hat⟩ := lowerCnt_spec compound k c ch
  generalize lowerCnt compound k c ch = cnt at hle hbefore hat
  have hord := List.pairwise_iff_getElem.1 h.order
  have hlow : ∀ n, 0 < cnt → ch[cnt - 1]? = some n → cmpS compound (keyAt n 0) (skOf compound k c) ≤ 0 := by
    intro n hpos hn
    have hj : cnt - 1 < ch.length := by omega
    have en : ch[cnt - 1] = n := by rw [List.getElem?_eq_getElem hj] at hn; exact Option.some.inj hn
    have hnot := hbefore (cnt - 1) hj (by omega)
    rw [en] at hnot
    have hinv := h.nodes n (en ▸ List.getElem_mem hj)
    rw [lx_pos_iff hinv] at hnot
    have := (cmpS_flip compound (keyAt n 0) (skOf compound k c)).2.2
    unfold gtS at hnot
    omega
  refine ⟨?_, ?_, hlow⟩
  · intro a ha x hx
    obtain ⟨j, hj, ej⟩ := List.mem_take_iff_getElem.1 ha
    have hj1 : j < cnt - 1 := by omega
    have hl : cnt - 1 < ch.length := by omega
    have hab : Above compound ch[j] ch[cnt - 1] := hord j (cnt - 1) (by omega) hl hj1
    have hinv := h.nodes _ (List.getElem_mem hl)
    have h1 : gtS compound x (keyAt ch[cnt - 1] 0) := hab x (by rw [ej]; exact hx) _ (first_mem hinv)
    exact gtS_of_le compound _ _ _ h1 (hlow _ (by omega) (List.getElem?_eq_getElem hl))
  · intro b hb y hy
    obtain ⟨j, hj, ej⟩ := List.mem_drop_iff_getElem.1 hb
    have hc : cnt < ch.length := by omega
    have hup := hat hc
    have hinvu := h.nodes _ (List.getElem_mem hc)
    rw [lx_pos_iff hinvu] at hup
    have hyu : ∀ y ∈ keys ch[cnt], gtS compound (skOf compound k c) y := by
      intro y hy
      rcases first_le hinvu y hy with e1 | hg
      · rw [e1]; exact hup
      · exact gtS_trans compound _ _ _ hup hg
    by_cases hj0 : j = 0
    · subst hj0
      have : ch[cnt + 0] = ch[cnt] := by simp
      rw [← ej, this] at hy
      exact hyu y hy
    · have hab : Above compound ch[cnt] ch[cnt + j] := hord cnt (cnt + j) hc (by omega) (by omega)
      have := hab _ (first_mem hinvu) y (by rw [ej]; exact hy)
      exact gtS_trans compound _ _ _ hup this

/-- a stretch `mid` of the chain replaced by `mid'`: the invariant survives if the new nodes satisfy the node invariant, are in
order, and each of their keys is a key of the old stretch or sorts between the keys of the part in front and the part behind -/
theorem chainInv_replace {compound : Bool} {pre mid mid' post : Chain} (h : ChainInv compound (pre ++ (mid ++ post)))
    (hn : ∀ m ∈ mid', NodeInv compound m) (ho : mid'.Pairwise (Above compound))
    (hk : ∀ m ∈ mid', ∀ x ∈ keys m, (∃ m0 ∈ mid, x ∈ keys m0) ∨
      ((∀ a ∈ pre, ∀ z ∈ keys a, gtS compound z x) ∧ (∀ b ∈ post, ∀ y ∈ keys b, gtS compound x y))) :
    ChainInv compound (pre ++ (mid' ++ post)) := by
  have hord := h.order
  rw [List.pairwise_append] at hord
  obtain ⟨o1, o2, o3⟩ := hord
  rw [List.pairwise_append] at o2
  obtain ⟨o4, o5, o6⟩ := o2
  refine ⟨?_, ?_⟩
  · intro n hn'
    rcases List.mem_append.1 hn' with h1 | h1
    · exact h.nodes n (List.mem_append.2 (Or.inl h1))
    · rcases List.mem_append.1 h1 with h2 | h2
      · exact hn n h2
      · exact h.nodes n (List.mem_append.2 (Or.inr (List.mem_append.2 (Or.inr h2))))
  · rw [List.pairwise_append]
    refine ⟨o1, ?_, ?_⟩
    · rw [List.pairwise_append]
      refine ⟨ho, o5, ?_⟩
      intro m hm b hb x hx y hy
      rcases hk m hm x hx with ⟨m0, hm0, hx0⟩ | ⟨_, hr⟩
      · exact o6 m0 hm0 b hb x hx0 y hy
      · exact hr b hb y hy
    · intro a ha m hm
      rcases List.mem_append.1 hm with h2 | h2
      · intro z hz x hx
        rcases hk m h2 x hx with ⟨m0, hm0, hx0⟩ | ⟨hl, _⟩
        · exact o3 a ha m0 (List.mem_append.2 (Or.inl hm0)) z hz x hx0
        · exact hl a ha z hz
      · exact o3 a ha m (List.mem_append.2 (Or.inr h2))

/-! ### list surgery -/

theorem chain_decomp (ch : Chain) (i : Nat) (n : Node) (h : ch[i]? = some n) :
    ch = ch.take i ++ ([n] ++ ch.drop (i + 1)) ∧ ∀ n', ch.set i n' = ch.take i ++ ([n'] ++ ch.drop (i + 1)) := by
  induction ch generalizing i with
  | nil => simp at h
  | cons a t ih =>
    cases i with
    | zero =>
      simp only [List.getElem?_cons_zero, Option.some.injEq] at h
      subst h
      exact ⟨by simp, fun n' => by simp⟩
    | succ i =>
      simp only [List.getElem?_cons_succ] at h
      obtain ⟨e1, e2⟩ := ih i h
      refine ⟨?_, fun n' => ?_⟩
      · simp only [List.take_succ_cons, List.drop_succ_cons, List.cons_append]
        exact congrArg (a :: ·) e1
      · simp only [List.set_cons_succ, List.take_succ_cons, List.drop_succ_cons, List.cons_append]
        exact congrArg (a :: ·) (e2 n')

theorem mem_take_succ (ch : Chain) (i : Nat) (a : Node) (h : a ∈ ch.take (i + 1)) : a ∈ ch.take i ∨ ch[i]? = some a := by
  obtain ⟨j, hj, ej⟩ := List.mem_take_iff_getElem.1 h
  by_cases hji : j < i
  · exact Or.inl (List.mem_take_iff_getElem.2 ⟨j, by omega, ej⟩)
  · have : j = i := by omega
    subst this
    right
    rw [List.getElem?_eq_getElem (by omega), ej]

theorem mem_drop_succ (ch : Chain) (i : Nat) (b : Node) (h : b ∈ ch.drop (i + 1)) : b ∈ ch.drop i := by
  obtain ⟨j, hj, ej⟩ := List.mem_drop_iff_getElem.1 h
  exact List.mem_drop_iff_getElem.2 ⟨j + 1, by omega, by rw [← ej]; congr 1; omega⟩

/-! ### single node steps, with the keys -/

theorem nodeInv_sync {compound : Bool} {n : Node} (g : Geo n.blk) (c : Core compound n) (p : 0 < n.pnum) : NodeInv compound (sync n) :=
  { toCore := core_sync c, blk := blkInv_sync g, pos := p }

theorem hcmp_of_wf {compound : Bool} {n : Node} (h : Core compound n) (k : Bytes) (c : Nat) :
    ∀ st ∈ keys n, cmpOf compound k c st = cmpS compound st (skOf compound k c) := by
  intro st hst
  show _ = cmpS compound st (preOf compound c ++ k)
  rw [preOf_append]; exact cmpOf_eq compound k c st (h.wf st hst)

theorem wfs_sk (compound : Bool) (k : Bytes) (c : Nat) (hk : k ≠ []) (hc : c < 2 ^ 63) : WFS compound (skOf compound k c) := by
  show WFS compound (preOf compound c ++ k); rw [preOf_append]; exact wfs_stored compound k c hk hc

/-- `_sblk_addkv` of a key that sorts after... any key that is not in the node: node invariant and keys of the result -/
theorem node_addIns {compound : Bool} {u : Node} (hb : BlkInv u.blk) (hcr : Core compound u) (k : Bytes) (c : Nat) (hk : k ≠ [])
    (hc : c < 2 ^ 63) (val : Bytes) (hnew : ∀ st ∈ keys u, gtS compound (skOf compound k c) st ∨ gtS compound st (skOf compound k c))
    (n' : Node) (e : addkvIns u (cmpOf compound k c) (preOf compound c) k val = .ok n') :
    NodeInv compound (sync n') ∧ ∀ x ∈ keys (sync n'), x ∈ keys u ∨ x = skOf compound k c := by
  have hcmp := hcmp_of_wf hcr k c
  obtain ⟨g, cr, p, idx, hkeys⟩ := core_addkvIns' hcr (preOf compound c) k val (addSpec_of_blkInv hb _ _) (cmpOf compound k c)
    (wfs_sk compound k c hk hc) (preOf_length compound c hc) hcmp (by
      intro st hst
      rw [hcmp st hst]
      rcases hnew st hst with h1 | h1
      · have := (cmpS_flip compound _ _).1.1 h1; omega
      · unfold gtS at h1; omega) n' e
  refine ⟨nodeInv_sync g cr p, ?_⟩
  intro x hx
  have hx' : x ∈ keys n' := hx
  rw [hkeys] at hx'
  rcases (mem_insertAt _ _ _ _).1 hx' with ex | hx'
  · exact Or.inr ex
  · exact Or.inl hx'

theorem keys_fresh : keys fresh = [] := rfl

/-- all keys of a node sort before the lookup key when `_sblk_find_pi_mm` answers "not found, position `pnum`" -/
theorem all_before {compound : Bool} {n : Node} (h : NodeInv compound n) (k : Bytes) (c : Nat) (idx : Nat)
    (hf : Found (fun i => cmpOf compound k c (keyAt n i)) n.pnum (false, idx)) (hidx : n.pnum ≤ idx) :
    ∀ x ∈ keys n, gtS compound x (skOf compound k c) := by
  intro x hx
  obtain ⟨i, hi, ei⟩ := List.getElem_of_mem hx
  have hi' : i < n.pi.length := by simpa [keys] using hi
  have := hf.left i (by rw [h.pnum] at hidx; omega)
  have ek : keyAt n i = x := by rw [keyAt_eq_getElem n i hi']; exact ei
  have this' : cmpOf compound k c (keyAt n i) < 0 := this
  rw [ek, hcmp_of_wf h.toCore k c x hx] at this'
  exact this'

/-- **`iwkv_put` keeps the chain invariant**: overwrite, add to a node with room, add to the upper neighbour, new node in front / behind,
split of a full node at any position -/
theorem chainInv_put {compound : Bool} {ch : Chain} (h : ChainInv compound ch) (k : Bytes) (c : Nat) (val : Bytes) (hk : k ≠ [])
    (hc : c < 2 ^ 63) (ch' : Chain) (e : put compound ch k c val = .ok ch') : ChainInv compound ch' := by
  obtain ⟨r1, r2, r3⟩ := route_spec h k c
  obtain ⟨cntle, _, _⟩ := lowerCnt_spec compound k c ch
  obtain ⟨fb, fc⟩ := core_fresh compound
  -- a new node holding only the new record, at chain position `i`
  have newNode : ∀ i, (∀ a ∈ ch.take i, ∀ z ∈ keys a, gtS compound z (skOf compound k c)) →
      (∀ b ∈ ch.drop i, ∀ y ∈ keys b, gtS compound (skOf compound k c) y) →
      insNode ch i (addkvIns fresh (cmpOf compound k c) (preOf compound c) k val) = .ok ch' → ChainInv compound ch' := by
    intro i hpre hpost e
    cases hq : addkvIns fresh (cmpOf compound k c) (preOf compound c) k val with
    | ok n' =>
      rw [hq] at e
      simp only [insNode, PutRes.ok.injEq] at e
      obtain ⟨hinv, hkeys⟩ := node_addIns fb fc k c hk hc val (fun st hst => absurd hst (by simp [keys_fresh])) n' hq
      rw [← e]
      have hdec : ChainInv compound (ch.take i ++ ([] ++ ch.drop i)) := by simpa using h
      have := chainInv_replace (mid' := [sync n']) hdec (fun m hm => by simp at hm; rw [hm]; exact hinv) (List.pairwise_singleton _ _)
        (fun m hm x hx => by
          simp at hm; rw [hm] at hx
          rcases hkeys x hx with h1 | h1
          · simp [keys_fresh] at h1
          · right; rw [h1]; exact ⟨hpre, hpost⟩)
      simpa using this
    | full => rw [hq] at e; simp [insNode] at e
    | maxkvsz => rw [hq] at e; simp [insNode] at e
  -- node `i` replaced by a node with the same keys plus possibly the new one
  have setN : ∀ i n (r : Res), ch[i]? = some n →
      (∀ n', r = .ok n' → NodeInv compound (sync n') ∧ ∀ x ∈ keys (sync n'), x ∈ keys n ∨
        ((∀ a ∈ ch.take i, ∀ z ∈ keys a, gtS compound z x) ∧ (∀ b ∈ ch.drop (i + 1), ∀ y ∈ keys b, gtS compound x y))) →
      setNode ch i r = .ok ch' → ChainInv compound ch' := by
    intro i n r hn hr e
    cases r with
    | ok n' =>
      simp only [setNode, PutRes.ok.injEq] at e
      obtain ⟨hinv, hkeys⟩ := hr n' rfl
      obtain ⟨d1, d2⟩ := chain_decomp ch i n hn
      rw [← e, d2]
      have h' : ChainInv compound (ch.take i ++ ([n] ++ ch.drop (i + 1))) := by rw [← d1]; exact h
      exact chainInv_replace h' (fun m hm => by simp at hm; rw [hm]; exact hinv) (List.pairwise_singleton _ _)
        (fun m hm x hx => by
          simp at hm; rw [hm] at hx
          rcases hkeys x hx with h1 | h1
          · exact Or.inl ⟨n, by simp, h1⟩
          · exact Or.inr h1)
    | full => simp [setNode] at e
    | maxkvsz => simp [setNode] at e
  simp only [put] at e
  split at e
  · -- `lower` is the database block
    rename_i hcnt0
    rw [hcnt0] at r2
    have r2' : ∀ b ∈ ch, ∀ y ∈ keys b, gtS compound (skOf compound k c) y := by simpa using r2
    split at e
    · rename_i u hu
      have hu0 : ch[0]? = some u := by rw [← List.head?_eq_getElem?]; exact hu
      have hum : u ∈ ch := List.mem_of_mem_head? hu
      split at e
      · refine setN 0 u _ hu0 ?_ e
        intro n' hn'
        have hinv := h.nodes u hum
        obtain ⟨a1, a2⟩ := node_addIns hinv.blk hinv.toCore k c hk hc val (fun st hst => Or.inl (r2' u hum st hst)) n' hn'
        refine ⟨a1, fun x hx => ?_⟩
        rcases a2 x hx with h1 | h1
        · exact Or.inl h1
        · right; rw [h1]
          exact ⟨fun a ha => by simp at ha, fun b hb => r2' b (List.mem_of_mem_drop hb)⟩
      · exact newNode 0 (fun a ha => by simp at ha) (by simpa using r2') e
    · exact newNode 0 (fun a ha => by simp at ha) (by simpa using r2') e
  · rename_i hcnt
    have hpos : 0 < lowerCnt compound k c ch := by omega
    split at e
    · exact absurd e (by simp)
    · rename_i n hn
      have hnm : n ∈ ch := List.mem_of_getElem? hn
      have hinv := h.nodes n hnm
      obtain ⟨hfound, hcmp⟩ := found_findPi hinv k c
      have hsucc : lowerCnt compound k c ch - 1 + 1 = lowerCnt compound k c ch := by omega
      have r2s : ∀ b ∈ ch.drop (lowerCnt compound k c ch - 1 + 1), ∀ y ∈ keys b, gtS compound (skOf compound k c) y := by
        rw [hsucc]; exact r2
      split at e
      · -- overwrite
        rename_i hf
        refine setN _ n _ hn ?_ e
        intro n' hn'
        have hlt := (hfound.hit hf).1
        have := core_updatekv hinv.blk hinv.toCore _ (by rw [← hinv.pnum]; exact hlt) val n' hn'
        refine ⟨nodeInv_sync this.1 this.2.1 (by rw [this.2.2.1]; exact hinv.pos), fun x hx => Or.inl ?_⟩
        have hx' : x ∈ keys n' := hx
        rw [this.2.2.2] at hx'; exact hx'
      · rename_i hf
        have hf' : (findPi n (cmpOf compound k c)).1 = false := by
          cases hq : (findPi n (cmpOf compound k c)).1 with
          | false => rfl
          | true => exact absurd hq hf
        have hfd : Found (fun i => cmpOf compound k c (keyAt n i)) n.pnum (false, (findPi n (cmpOf compound k c)).2) := by
          have := hfound
          rw [show findPi n (cmpOf compound k c) = ((findPi n (cmpOf compound k c)).1, (findPi n (cmpOf compound k c)).2) from rfl, hf'] at this
          exact this
        -- keys in front of the upper neighbour when the lookup key is behind all keys of `lower`
        have preAll : n.pnum ≤ (findPi n (cmpOf compound k c)).2 →
            ∀ a ∈ ch.take (lowerCnt compound k c ch), ∀ z ∈ keys a, gtS compound z (skOf compound k c) := by
          intro hge a ha z hz
          rw [← hsucc] at ha
          rcases mem_take_succ ch _ a ha with h1 | h1
          · exact r1 a h1 z hz
          · rw [hn] at h1
            have : n = a := Option.some.inj h1
            subst this
            exact all_before hinv k c _ hfd hge z hz
        split at e
        · rename_i hfullp
          have hfull : n.pnum = Gen.KVBLK_IDXNUM := by have := hinv.le32; omega
          split at e
          · rename_i huadd
            split at e
            · rename_i u hu
              have hum : u ∈ ch := List.mem_of_getElem? hu
              have hud : u ∈ ch.drop (lowerCnt compound k c ch) := by
                have hlt : lowerCnt compound k c ch < ch.length := by
                  by_cases hh : lowerCnt compound k c ch < ch.length
                  · exact hh
                  · rw [List.getElem?_eq_none (by omega)] at hu; exact absurd hu (by simp)
                exact List.mem_drop_iff_getElem.2 ⟨0, by omega, by
                  rw [List.getElem?_eq_getElem hlt] at hu; simpa using Option.some.inj hu⟩
              refine setN _ u _ hu ?_ e
              intro n' hn'
              have hinvu := h.nodes u hum
              obtain ⟨a1, a2⟩ := node_addIns hinvu.blk hinvu.toCore k c hk hc val (fun st hst => Or.inl (r2 u hud st hst)) n' hn'
              refine ⟨a1, fun x hx => ?_⟩
              rcases a2 x hx with h1 | h1
              · exact Or.inl h1
              · right; rw [h1]
                have hge : n.pnum ≤ (findPi n (cmpOf compound k c)).2 := by
                  have := huadd.1; have c3 : Gen.KVBLK_IDXNUM = 32 := rfl; omega
                exact ⟨preAll hge, fun b hb => r2 b (mem_drop_succ ch _ b hb)⟩
            · exact absurd e (by simp)
          · split at e
            · exact absurd e (by simp)
            · split at e
              · rename_i heq
                exact newNode _ (preAll (by omega)) r2 e
              · rename_i hne
                split at e
                · rename_i o nb hsp
                  simp only [PutRes.ok.injEq] at e
                  obtain ⟨s1, s2, s3, s4, s5⟩ := splitMid_spec hinv hfull _ k c hk hc val hfd o nb hsp
                  obtain ⟨d1, _⟩ := chain_decomp ch _ n hn
                  rw [hsucc] at d1
                  rw [← e]
                  have h' : ChainInv compound (ch.take (lowerCnt compound k c ch - 1) ++ ([n] ++ ch.drop (lowerCnt compound k c ch))) := by
                    rw [← d1]; exact h
                  have hsk : ∀ x, x = skOf compound k c →
                      (∀ a ∈ ch.take (lowerCnt compound k c ch - 1), ∀ z ∈ keys a, gtS compound z x) ∧
                      (∀ b ∈ ch.drop (lowerCnt compound k c ch), ∀ y ∈ keys b, gtS compound x y) := by
                    intro x hx; rw [hx]; exact ⟨r1, r2⟩
                  have := chainInv_replace (mid' := [o, nb]) h'
                    (fun m hm => by
                      simp at hm
                      rcases hm with hm | hm
                      · rw [hm]; exact s1
                      · rw [hm]; exact s2)
                    (List.pairwise_cons.2 ⟨fun b hb => by simp at hb; rw [hb]; exact s5, List.pairwise_singleton _ _⟩)
                    (fun m hm x hx => by
                      simp at hm
                      rcases hm with hm | hm
                      · rw [hm] at hx
                        rcases s3 x hx with h1 | h1
                        · exact Or.inl ⟨n, by simp, h1⟩
                        · exact Or.inr (hsk x h1)
                      · rw [hm] at hx
                        rcases s4 x hx with h1 | h1
                        · exact Or.inl ⟨n, by simp, h1⟩
                        · exact Or.inr (hsk x h1))
                  simpa using this
                · exact absurd e (by simp)
        · -- the node has room
          refine setN _ n _ hn ?_ e
          intro n' hn'
          obtain ⟨g, cr, p, hkeys⟩ := core_addkv2' hinv.toCore _ (preOf compound c) k val (addSpec_of_blkInv hinv.blk _ _)
            (cmpOf compound k c) (wfs_sk compound k c hk hc) (preOf_length compound c hc) (hcmp_of_wf hinv.toCore k c) hfd n' hn'
          refine ⟨nodeInv_sync g cr p, fun x hx => ?_⟩
          have hx' : x ∈ keys n' := hx
          rw [hkeys] at hx'
          rcases (mem_insertAt _ _ _ _).1 hx' with ex | hx'
          · right; rw [ex]; exact ⟨r1, r2s⟩
          · exact Or.inl hx'

/-! ### delete, cursor set, cursor delete, histories -/

/-- a stretch of one node replaced by at most one node whose keys are among the old ones -/
theorem chainInv_shrink {compound : Bool} {ch : Chain} (h : ChainInv compound ch) (i : Nat) (n : Node) (hn : ch[i]? = some n)
    (mid' : Chain) (hm : ∀ m ∈ mid', NodeInv compound m ∧ ∀ x ∈ keys m, x ∈ keys n) (ho : mid'.Pairwise (Above compound)) :
    ChainInv compound (ch.take i ++ (mid' ++ ch.drop (i + 1))) := by
  obtain ⟨d1, _⟩ := chain_decomp ch i n hn
  have h' : ChainInv compound (ch.take i ++ ([n] ++ ch.drop (i + 1))) := by rw [← d1]; exact h
  exact chainInv_replace h' (fun m hmm => (hm m hmm).1) ho (fun m hmm x hx => Or.inl ⟨n, by simp, (hm m hmm).2 x hx⟩)

/-- removal of a record: the node shrinks (`_sblk_rmkv`) or, with its last record, leaves the chain (`_lx_del_sblk_lw`) -/
theorem chainInv_rmAt {compound : Bool} {ch : Chain} (h : ChainInv compound ch) (i pos : Nat) (n : Node) (hn : ch[i]? = some n)
    (hpos : pos < n.pnum) : ChainInv compound (rmAt ch i pos) := by
  have hinv := h.nodes n (List.mem_of_getElem? hn)
  simp only [rmAt, hn]
  split
  · rw [List.eraseIdx_eq_take_drop_succ]
    have := chainInv_shrink h i n hn [] (fun m hm => by simp at hm) List.Pairwise.nil
    simpa using this
  · rename_i h1
    obtain ⟨_, d2⟩ := chain_decomp ch i n hn
    rw [d2]
    obtain ⟨c1, c2, c3, c4⟩ := core_rmkv hinv.blk hinv.toCore pos (by rw [← hinv.pnum]; exact hpos)
    have hp := hinv.pos
    refine chainInv_shrink h i n hn [sync (rmkv n pos)] (fun m hm => ?_) (List.pairwise_singleton _ _)
    simp at hm
    rw [hm]
    refine ⟨nodeInv_sync c1.toGeo c2 (by rw [c3]; omega), fun x hx => ?_⟩
    have hx' : x ∈ keys (rmkv n pos) := hx
    rw [c4] at hx'
    exact List.mem_of_mem_eraseIdx hx'

/-- a position found by key lies inside a node of the chain -/
theorem curPos_spec {compound : Bool} {ch : Chain} (h : ChainInv compound ch) (k : Bytes) (c : Nat) (i pos : Nat)
    (e : curPos compound ch k c = some (i, pos)) : ∃ n, ch[i]? = some n ∧ pos < n.pnum := by
  simp only [curPos] at e
  split at e
  · exact absurd e (by simp)
  · split at e
    · exact absurd e (by simp)
    · rename_i n hn
      split at e
      · rename_i hf
        simp only [Option.some.injEq, Prod.mk.injEq] at e
        obtain ⟨e1, e2⟩ := e
        have hinv := h.nodes n (List.mem_of_getElem? hn)
        obtain ⟨hfound, _⟩ := found_findPi hinv k c
        exact ⟨n, by rw [← e1]; exact hn, by rw [← e2]; exact (hfound.hit hf).1⟩
      · exact absurd e (by simp)

/-- **`iwkv_del` keeps the chain invariant** (incl. the removal of a node at the head, in the middle or at the tail of the chain) -/
theorem chainInv_del {compound : Bool} {ch : Chain} (h : ChainInv compound ch) (k : Bytes) (c : Nat) (ch' : Chain)
    (e : del compound ch k c = some ch') : ChainInv compound ch' := by
  simp only [del] at e
  split at e
  · rename_i i pos hq
    simp only [Option.some.injEq] at e
    obtain ⟨n, hn, hlt⟩ := curPos_spec h k c i pos hq
    rw [← e]; exact chainInv_rmAt h i pos n hn hlt
  · exact absurd e (by simp)

/-- **`iwkv_cursor_set` keeps the chain invariant** -/
theorem chainInv_curSet {compound : Bool} {ch : Chain} (h : ChainInv compound ch) (i pos : Nat) (val : Bytes) (n : Node)
    (hn : ch[i]? = some n) (hpos : pos < n.pnum) (ch' : Chain) (e : curSet ch i pos val = .ok ch') : ChainInv compound ch' := by
  have hinv := h.nodes n (List.mem_of_getElem? hn)
  simp only [curSet, hn] at e
  cases hq : updatekv n pos val with
  | ok n' =>
    rw [hq] at e
    simp only [setNode, PutRes.ok.injEq] at e
    have := core_updatekv hinv.blk hinv.toCore pos (by rw [← hinv.pnum]; exact hpos) val n' hq
    obtain ⟨_, d2⟩ := chain_decomp ch i n hn
    rw [← e, d2]
    refine chainInv_shrink h i n hn [sync n'] (fun m hm => ?_) (List.pairwise_singleton _ _)
    simp at hm
    rw [hm]
    refine ⟨nodeInv_sync this.1 this.2.1 (by rw [this.2.2.1]; exact hinv.pos), fun x hx => ?_⟩
    have hx' : x ∈ keys n' := hx
    rw [this.2.2.2] at hx'; exact hx'
  | full => rw [hq] at e; simp [setNode] at e
  | maxkvsz => rw [hq] at e; simp [setNode] at e

theorem chainInv_step {compound : Bool} {ch : Chain} (h : ChainInv compound ch) (op : KvNode.Op) (hop : op.ok) :
    ChainInv compound (step compound ch op) := by
  cases op with
  | put k c v =>
    simp only [step]
    cases hq : put compound ch k c v with
    | ok ch' => exact chainInv_put h k c v hop.1 hop.2 ch' hq
    | failed _ => exact h
  | del k c =>
    simp only [step]
    cases hq : del compound ch k c with
    | none => exact h
    | some ch' => exact chainInv_del h k c ch' hq
  | cset k c v =>
    simp only [step]
    cases hq : curPos compound ch k c with
    | none => exact h
    | some ip =>
      obtain ⟨i, pos⟩ := ip
      obtain ⟨n, hn, hlt⟩ := curPos_spec h k c i pos hq
      show ChainInv compound (match curSet ch i pos v with | .ok ch' => ch' | _ => ch)
      cases hr : curSet ch i pos v with
      | ok ch' => exact chainInv_curSet h i pos v n hn hlt ch' hr
      | failed _ => exact h
  | cdel k c =>
    simp only [step]
    cases hq : curPos compound ch k c with
    | none => exact h
    | some ip =>
      obtain ⟨i, pos⟩ := ip
      obtain ⟨n, hn, hlt⟩ := curPos_spec h k c i pos hq
      exact chainInv_rmAt h i pos n hn hlt

theorem chainInv_run {compound : Bool} {ch : Chain} (h : ChainInv compound ch) (ops : List KvNode.Op) (hops : ∀ op ∈ ops, op.ok) :
    ChainInv compound (run compound ch ops) := by
  induction ops generalizing ch with
  | nil => exact h
  | cons op ops ih =>
    exact ih (chainInv_step h op (hops op (List.mem_cons_self))) (fun o ho => hops o (List.mem_cons_of_mem _ ho))

end IwModel.KvChain
