import IwModel.Model.KvChain
import IwModel.Lemmas.KvNode
/-! Invariant of the chain writer model (Model/KvChain.lean): every node satisfies `NodeInv`, the nodes are in key order, and every
operation — including the split of a full node and the removal of an emptied node — keeps that. Core Lean only.
Statements for the property file are re-exported in Props/C06.lean. -/
namespace IwModel.KvChain
open IwModel IwModel.FormatEnc IwModel.KvBlk IwModel.KvNode

/-! ### `_kvblk_addkv` on the two blocks of a split -/

theorem vn_le8 {x : Nat} (h : x < 72057594037927936) : vn x ≤ 8 := by
  rcases vn_cases x with h1 | h1 | h1 | h1 | h1 | h1 | h1 | h1 | h1 | h1 <;> omega

theorem vn_le5 {x : Nat} (h : x < 34359738368) : vn x ≤ 5 := by
  rcases vn_cases x with h1 | h1 | h1 | h1 | h1 | h1 | h1 | h1 | h1 | h1 <;> omega

/-- the record placed into a free slot of a block that has room: what `AddSpec` says -/
theorem place_spec {b b1 : KvBlk} (hb1 : Geo b1) (key val : Bytes)
    (hroom : Gen.KVBLK_HDRSZ + idxBytes b1.slots + b1.maxoff + rsz b1 (recSize key val) ≤ 2 ^ b1.szpow)
    (hsame : SameRecs b1 b) (z1 : Nat) (hz : z1 < b1.slots.length) (hfree : (sl b1.slots z1).len = 0) :
    Geo (place b1 z1 key val (recSize key val)) ∧ z1 < b.slots.length ∧ (sl b.slots z1).len = 0 ∧
    (place b1 z1 key val (recSize key val)).slots.length = b.slots.length ∧
    sl (place b1 z1 key val (recSize key val)).slots z1 = ⟨(place b1 z1 key val (recSize key val)).maxoff, recSize key val, key, val⟩ ∧
    ∀ i, i ≠ z1 → (sl (place b1 z1 key val (recSize key val)).slots i).len = (sl b.slots i).len ∧
      (sl (place b1 z1 key val (recSize key val)).slots i).key = (sl b.slots i).key ∧
      (sl (place b1 z1 key val (recSize key val)).slots i).val = (sl b.slots i).val := by
  have hg := geo_place hb1 z1 hz hfree key val hroom
  refine ⟨hg, by rw [← hsame.1]; exact hz, by rw [← (hsame.2 z1).1]; exact hfree, ?_, ?_, ?_⟩
  · show (b1.slots.set z1 _).length = _; rw [List.length_set, hsame.1]
  · exact sl_set_eq _ _ _ hz
  · intro i hi
    have e3 : sl (place b1 z1 key val (recSize key val)).slots i = sl b1.slots i := sl_set_ne _ z1 i _ (Ne.symm hi)
    rw [e3]
    exact hsame.2 i

/-- `_kvblk_addkv` on a block whose cached index size is stale (not above the real one) but which has room for the record, the
largest possible index entry included: the record is placed directly (no compaction, no growth). This is the situation of the new
node of a split, whose block is created with room for all records that move plus `KVBLK_MAX_NKV_SZ`. -/
theorem addkv_direct {b : KvBlk} (g : Geo b) (key val : Bytes)
    (hidx : b.idxsz ≤ idxBytes b.slots)
    (hroom : Gen.KVBLK_HDRSZ + idxBytes b.slots + b.maxoff + recSize key val + 13 ≤ 2 ^ b.szpow)
    (hoff : b.maxoff + recSize key val < 72057594037927936) (b' : KvBlk) (idx : Nat)
    (e : addkv b key val = .ok b' idx) :
    b' = place b idx key val (recSize key val) ∧ recSize key val ≤ Gen.IWKV_MAX_KVSZ ∧
    idx < b.slots.length ∧ (sl b.slots idx).len = 0 := by
  simp only [addkv] at e
  split at e
  · exact absurd e (by simp)
  · rename_i z hz
    split at e
    · exact absurd e (by simp)
    · rename_i hmax
      have h8 := vn_le8 hoff
      have h5 : vn (recSize key val) ≤ 5 := vn_le5 (by have : Gen.IWKV_MAX_KVSZ = 268435455 := rfl; omega)
      have hdirect : ¬ msz b < rsz b (recSize key val) := by
        simp only [msz, rsz]; omega
      simp only [hdirect, not_false_eq_true, if_true, hz, Option.getD_some, AddRes.ok.injEq] at e
      obtain ⟨e1, e2⟩ := e
      subst e2
      have hzf := (firstFree_some b.slots z).1 (by rw [← g.zidx, hz])
      exact ⟨e1.symm, by omega, hzf.1, hzf.2.1⟩

/-- `AddSpec` for such a block -/
theorem addSpec_direct {b : KvBlk} (g : Geo b) (key val : Bytes)
    (hidx : b.idxsz ≤ idxBytes b.slots)
    (hroom : Gen.KVBLK_HDRSZ + idxBytes b.slots + b.maxoff + recSize key val + 13 ≤ 2 ^ b.szpow)
    (hoff : b.maxoff + recSize key val < 72057594037927936) : AddSpec b key val := by
  intro b' idx e
  obtain ⟨e1, hmax, h1, h2⟩ := addkv_direct g key val hidx hroom hoff b' idx e
  have h8 := vn_le8 hoff
  have h5 : vn (recSize key val) ≤ 5 := vn_le5 (by have : Gen.IWKV_MAX_KVSZ = 268435455 := rfl; omega)
  rw [e1]
  exact place_spec g key val (by simp only [rsz]; omega) (SameRecs.refl b) idx h1 h2

/-! ### a block whose `zidx` is a free slot, not necessarily the first (the lower half of a split: `zidx = pi[pivot]`) -/

/-- the block with `zidx` as `_kvblk_at_mm` computes it -/
def normZ (b : KvBlk) : KvBlk := { b with zidx := firstFree b.slots }

/-- same block apart from `zidx` -/
def EqZ (c b : KvBlk) : Prop := c.slots = b.slots ∧ c.szpow = b.szpow ∧ c.idxsz = b.idxsz ∧ c.maxoff = b.maxoff

theorem place_eqZ {c b : KvBlk} (h : EqZ c b) (z : Nat) (key val : Bytes) (psz : Nat) : place c z key val psz = place b z key val psz := by
  obtain ⟨h1, h2, h3, h4⟩ := h
  cases c; cases b
  simp only at h1 h2 h3 h4
  subst h1 h2 h3 h4
  rfl

theorem compact_normZ (b : KvBlk) (h : compactedOffset b ≠ b.maxoff) : compact (normZ b) = compact b := by
  have h' : compactedOffset (normZ b) ≠ (normZ b).maxoff := h
  simp only [compact, if_neg h, if_neg h']
  rfl

/-- the block `_kvblk_addkv` places the record into, as a function of the block it starts from -/
def prep (b : KvBlk) (psz : Nat) : KvBlk :=
  if ¬ msz b < rsz b psz then b
  else if compactedOffset b ≠ b.maxoff then
    (if ¬ msz (compact b) < rsz (compact b) psz then compact b else grow (compact b) psz)
  else grow b psz

theorem prep_normZ (b : KvBlk) (psz : Nat) :
    EqZ (prep (normZ b) psz) (prep b psz) ∧ ((prep b psz).zidx = b.zidx ∨ (prep b psz).zidx = firstFree (prep b psz).slots) := by
  have m1 : msz (normZ b) = msz b := rfl
  have m2 : rsz (normZ b) psz = rsz b psz := rfl
  have m3 : compactedOffset (normZ b) = compactedOffset b := rfl
  have m4 : (normZ b).maxoff = b.maxoff := rfl
  unfold prep
  rw [m1, m2, m3, m4]
  by_cases h1 : msz b < rsz b psz
  · have n1 : ¬ ¬ msz b < rsz b psz := fun hn => hn h1
    rw [if_neg n1, if_neg n1]
    by_cases h2 : compactedOffset b ≠ b.maxoff
    · rw [if_pos h2, if_pos h2, compact_normZ b h2]
      have hz : (compact b).zidx = firstFree (compact b).slots := by
        have h2' : ¬ compactedOffset b = b.maxoff := h2
        simp only [compact, if_neg h2']
      by_cases h3 : msz (compact b) < rsz (compact b) psz
      · have n3 : ¬ ¬ msz (compact b) < rsz (compact b) psz := fun hn => hn h3
        rw [if_neg n3]
        exact ⟨⟨rfl, rfl, rfl, rfl⟩, Or.inr hz⟩
      · rw [if_pos h3]
        exact ⟨⟨rfl, rfl, rfl, rfl⟩, Or.inr hz⟩
    · rw [if_neg h2, if_neg h2]
      exact ⟨⟨rfl, rfl, rfl, rfl⟩, Or.inl rfl⟩
  · rw [if_pos h1, if_pos h1]
    exact ⟨⟨rfl, rfl, rfl, rfl⟩, Or.inl rfl⟩

/-- `AddSpec` for a block that satisfies `BlkInv` once `zidx` is normalised and whose `zidx` is SOME free slot -/
theorem addSpec_weakZ {b : KvBlk} (hb : BlkInv (normZ b)) (z : Nat) (hz : b.zidx = some z) (hzl : z < b.slots.length)
    (hzf : (sl b.slots z).len = 0) (key val : Bytes) : AddSpec b key val := by
  intro b' idx e
  have e' : (match b.zidx with
      | none => AddRes.full
      | some z => if recSize key val > Gen.IWKV_MAX_KVSZ then AddRes.maxkvsz
        else AddRes.ok (place (prep b (recSize key val)) ((prep b (recSize key val)).zidx.getD z) key val (recSize key val))
          ((prep b (recSize key val)).zidx.getD z)) = .ok b' idx := e
  rw [hz] at e'
  simp only at e'
  split at e'
  · exact absurd e' (by simp)
  · obtain ⟨hb1, hroom, hsame⟩ := addkv_prepared hb (recSize key val)
    have hb1' : BlkInv (prep (normZ b) (recSize key val)) := hb1
    have hroom' : Gen.KVBLK_HDRSZ + (prep (normZ b) (recSize key val)).idxsz + (prep (normZ b) (recSize key val)).maxoff +
        rsz (prep (normZ b) (recSize key val)) (recSize key val) ≤ 2 ^ (prep (normZ b) (recSize key val)).szpow := hroom
    have hsame' : SameRecs (prep (normZ b) (recSize key val)) b := hsame
    obtain ⟨heq, hzz⟩ := prep_normZ b (recSize key val)
    simp only [AddRes.ok.injEq] at e'
    obtain ⟨e1, e2⟩ := e'
    -- the slot the record goes to is free in the prepared block
    have hfree : idx < (prep (normZ b) (recSize key val)).slots.length ∧ (sl (prep (normZ b) (recSize key val)).slots idx).len = 0 := by
      rw [← e2]
      rcases hzz with hq | hq
      · rw [hq, hz, Option.getD_some, hsame'.1, (hsame'.2 z).1]; exact ⟨hzl, hzf⟩
      · cases hf : firstFree (prep b (recSize key val)).slots with
        | none => rw [hq, hf, Option.getD_none, hsame'.1, (hsame'.2 z).1]; exact ⟨hzl, hzf⟩
        | some z1 =>
          rw [hq, hf, Option.getD_some]
          have := (firstFree_some _ z1).1 hf
          rw [heq.1]; exact ⟨this.1, this.2.1⟩
    rw [e2, ← place_eqZ heq] at e1
    rw [← e1]
    have hi := hb1'.idxge
    exact place_spec hb1'.toGeo key val (by omega) hsame' idx hfree.1 hfree.2

end IwModel.KvChain
