import IwModel.Model.JsonUtf8
/-! UTF-8 leaves: `utf8proc_iterate` inverts `utf8proc_encode_char` on valid code points and vice versa. -/
namespace IwModel.Json

theorem encodeChar_wf (cp : Nat) : ∀ b ∈ encodeChar cp, b < 256 := by
  unfold encodeChar
  split
  · simp; omega
  split
  · simp; omega
  split
  · simp; omega
  split
  · simp; omega
  · simp

theorem encodeChar_length_pos (cp : Nat) (h : codepointValid cp = true) : 1 ≤ (encodeChar cp).length := by
  simp only [codepointValid, Bool.and_eq_true, Bool.or_eq_true, decide_eq_true_eq] at h
  unfold encodeChar
  repeat' split
  all_goals (first | omega | simp)

/-- decoding the encoding of a valid code point gives it back, whatever follows -/
theorem iterate_encode (cp : Nat) (rest : Bytes) (h : codepointValid cp = true) :
    iterate (encodeChar cp ++ rest) = some (cp, (encodeChar cp).length) := by
  simp only [codepointValid, Bool.and_eq_true, Bool.or_eq_true, decide_eq_true_eq] at h
  unfold encodeChar
  split
  · simp [iterate, *]
  split
  · simp [iterate, isCont]
    repeat' split
    all_goals (first | omega | (simp; omega))
  split
  · simp [iterate, isCont]
    repeat' split
    all_goals (first | omega | (simp; omega))
  split
  · simp [iterate, isCont]
    repeat' split
    all_goals (first | omega | (simp; omega))
  · omega

/-- what `utf8proc_iterate` accepts is exactly the encoding of the code point it reports (no overlong forms,
    no surrogates, nothing above U+10FFFF), and the reported size is the length of that encoding -/
theorem encode_iterate (s : Bytes) (cp n : Nat) (hw : ∀ b ∈ s, b < 256) (h : iterate s = some (cp, n)) :
    encodeChar cp = s.take n ∧ codepointValid cp = true ∧ 1 ≤ n ∧ n ≤ s.length := by
  match s, hw, h with
  | uc :: rest, hw, h =>
    have huc : uc < 256 := hw uc (by simp)
    simp only [iterate] at h
    split at h
    · simp at h; obtain ⟨rfl, rfl⟩ := h
      simp [encodeChar, codepointValid, *]; omega
    split at h
    · simp at h
    split at h
    · match rest, hw, h with
      | b1 :: r, hw, h =>
        have hb1 : b1 < 256 := hw b1 (by simp)
        simp [isCont] at h
        obtain ⟨hc, rfl, rfl⟩ := h
        simp [encodeChar, codepointValid]
        repeat' split
        all_goals (first | omega | (simp; omega))
      | [], _, h => simp at h
    split at h
    · match rest, hw, h with
      | b1 :: b2 :: r, hw, h =>
        have hb1 : b1 < 256 := hw b1 (by simp)
        have hb2 : b2 < 256 := hw b2 (by simp)
        simp [isCont] at h
        obtain ⟨⟨hc1, hc2⟩, hs, hge, rfl, rfl⟩ := h
        simp [encodeChar, codepointValid]
        repeat' split
        all_goals (first | omega | (simp; omega))
      | [_], _, h => simp at h
      | [], _, h => simp at h
    · match rest, hw, h with
      | b1 :: b2 :: b3 :: r, hw, h =>
        have hb1 : b1 < 256 := hw b1 (by simp)
        have hb2 : b2 < 256 := hw b2 (by simp)
        have hb3 : b3 < 256 := hw b3 (by simp)
        simp [isCont] at h
        obtain ⟨⟨⟨hc1, hc2⟩, hc3⟩, h0, h4, rfl, rfl⟩ := h
        simp [encodeChar, codepointValid]
        repeat' split
        all_goals (first | omega | (simp; omega))
      | [_, _], _, h => simp at h
      | [_], _, h => simp at h
      | [], _, h => simp at h

end IwModel.Json
