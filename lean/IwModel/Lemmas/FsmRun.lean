import IwModel.Lemmas.FsmBits
/-! Maximal runs of clear bits (`IsRun`) and how they change when a range of the bitmap is set or cleared. -/
namespace IwModel.Fsm

/-- `[o, o+l)` is a maximal run of clear bits of `b` (bits past the end count as set) -/
def IsRun (b : Bits) (o l : Nat) : Prop :=
  0 < l ∧ (∀ i, o ≤ i → i < o + l → bit b i = false) ∧ (o = 0 ∨ bit b (o - 1) = true) ∧ bit b (o + l) = true

theorem IsRun.end_le_size {b : Bits} {o l : Nat} (h : IsRun b o l) : o + l ≤ b.size := by
  have := lt_size_of_bit_false (h.2.1 (o + l - 1) (by have := h.1; omega) (by have := h.1; omega))
  omega

/-- two maximal runs that share a bit are the same run -/
theorem IsRun.eq_of_overlap {b : Bits} {o l o' l' : Nat} (h : IsRun b o l) (h' : IsRun b o' l')
    (i : Nat) (h1 : o ≤ i) (h2 : i < o + l) (h3 : o' ≤ i) (h4 : i < o' + l') : o = o' ∧ l = l' := by
  have ho : o = o' := by
    rcases Nat.lt_trichotomy o o' with c | c | c
    · rcases h'.2.2.1 with e | e
      · omega
      · have := h.2.1 (o' - 1) (by omega) (by omega); rw [this] at e; cases e
    · exact c
    · rcases h.2.2.1 with e | e
      · omega
      · have := h'.2.1 (o - 1) (by omega) (by omega); rw [this] at e; cases e
  subst ho
  refine ⟨rfl, ?_⟩
  rcases Nat.lt_trichotomy l l' with c | c | c
  · have := h'.2.1 (o + l) (by omega) (by omega); rw [h.2.2.2] at this; cases this
  · exact c
  · have := h.2.1 (o + l') (by omega) (by omega); rw [h'.2.2.2] at this; cases this

/-- runs with the same start are equal -/
theorem IsRun.len_unique {b : Bits} {o l l' : Nat} (h : IsRun b o l) (h' : IsRun b o l') : l = l' :=
  (IsRun.eq_of_overlap h h' o (Nat.le_refl _) (by have := h.1; omega) (Nat.le_refl _) (by have := h'.1; omega)).2

/-- a run cannot contain a set bit -/
theorem IsRun.not_mem {b : Bits} {o l i : Nat} (h : IsRun b o l) (hi : bit b i = true) : i < o ∨ o + l ≤ i := by
  by_cases c : o ≤ i ∧ i < o + l
  · have := h.2.1 i c.1 c.2; rw [hi] at this; cases this
  · omega

/-- the runs of two bitmaps that agree on `[o-1, o+l]` -/
theorem IsRun.congr {b b' : Bits} {o l : Nat} (h : IsRun b o l)
    (hb : ∀ i, o ≤ i + 1 → i ≤ o + l → bit b' i = bit b i) : IsRun b' o l := by
  refine ⟨h.1, fun i h1 h2 => ?_, ?_, ?_⟩
  · rw [hb i (by omega) (by omega)]; exact h.2.1 i h1 h2
  · rcases h.2.2.1 with e | e
    · exact Or.inl e
    · by_cases c : o = 0
      · exact Or.inl c
      · right; rw [hb (o - 1) (by omega) (by omega)]; exact e
  · rw [hb (o + l) (by omega) (by omega)]; exact h.2.2.2

/-- Clearing an allocated range `[off, off+len)` whose nearest set bits are `L` (left) and `R` (right, possibly the
    end of the bitmap): the maximal runs afterwards are the merged run `[L+1, R)` and the old runs other than the
    two neighbours that were swallowed. -/
theorem isRun_clear {b : Bits} {off len L R : Nat} (hlen : 0 < len) (hsz : off + len ≤ b.size)
    (hset : ∀ i, off ≤ i → i < off + len → bit b i = true)
    (hL : L < off) (hLs : bit b L = true) (hLz : ∀ j, L < j → j < off → bit b j = false)
    (hR : off + len ≤ R) (hRs : bit b R = true) (hRz : ∀ j, off + len ≤ j → j < R → bit b j = false)
    (o l : Nat) :
    IsRun (setRange b off len false) o l ↔
      (o = L + 1 ∧ l = R - (L + 1)) ∨
      (IsRun b o l ∧ ¬ (o = L + 1 ∧ l = off - (L + 1)) ∧ ¬ (o = off + len ∧ l = R - (off + len))) := by
  have hin : ∀ i, off ≤ i → i < off + len → bit (setRange b off len false) i = false := by
    intro i h1 h2; rw [bit_setRange]; simp [h1, h2]; omega
  have hout : ∀ i, (i < off ∨ off + len ≤ i) → bit (setRange b off len false) i = bit b i := by
    intro i h; rw [bit_setRange]
    have : ¬ (off ≤ i ∧ i < off + len ∧ i < b.size) := by omega
    simp [this]
  have hK : IsRun (setRange b off len false) (L + 1) (R - (L + 1)) := by
    refine ⟨by omega, fun i h1 h2 => ?_, Or.inr ?_, ?_⟩
    · by_cases c1 : i < off
      · rw [hout i (Or.inl c1)]; exact hLz i (by omega) c1
      · by_cases c2 : i < off + len
        · exact hin i (by omega) c2
        · rw [hout i (Or.inr (by omega))]; exact hRz i (by omega) (by omega)
    · have : L + 1 - 1 = L := by omega
      rw [this, hout L (Or.inl hL)]; exact hLs
    · have : L + 1 + (R - (L + 1)) = R := by omega
      rw [this, hout R (Or.inr hR)]; exact hRs
  constructor
  · intro h
    by_cases c : L + 1 ≤ o + l - 1 ∧ o < R
    · -- overlaps the merged run
      left
      have hl := h.1
      have key : ∃ i, o ≤ i ∧ i < o + l ∧ L + 1 ≤ i ∧ i < L + 1 + (R - (L + 1)) := by
        by_cases c2 : L + 1 ≤ o
        · exact ⟨o, Nat.le_refl _, by omega, c2, by omega⟩
        · exact ⟨L + 1, by omega, by omega, Nat.le_refl _, by omega⟩
      obtain ⟨i, a1, a2, a3, a4⟩ := key
      exact IsRun.eq_of_overlap h hK i a1 a2 a3 a4
    · right
      have hl := h.1
      -- L and R are set afterwards as well, so the run lies entirely left of L or right of R
      have hL' : bit (setRange b off len false) L = true := by rw [hout L (Or.inl hL)]; exact hLs
      have hR' : bit (setRange b off len false) R = true := by rw [hout R (Or.inr hR)]; exact hRs
      have c1 := h.not_mem hL'
      have c2 := h.not_mem hR'
      have side : o + l ≤ L ∨ R < o := by omega
      refine ⟨?_, by omega, by omega⟩
      apply IsRun.congr h
      intro i h1 h2
      rw [hout i (by omega)]
  · rintro (⟨e1, e2⟩ | ⟨h, n1, n2⟩)
    · subst e1; subst e2; exact hK
    · have hl := h.1
      -- the old run does not meet the cleared range
      have c0 : o + l ≤ off ∨ off + len ≤ o := by
        by_cases c : o + l ≤ off ∨ off + len ≤ o
        · exact c
        · exfalso
          have := h.not_mem (hset (max o off) (by omega) (by omega))
          omega
      have side : o + l ≤ L ∨ R < o := by
        rcases c0 with c | c
        · left
          -- the bit after the run is set and lies below `off`, or the run is the left neighbour
          by_cases c3 : o + l = off
          · exfalso
            have hoL : L < o := by
              have := h.not_mem hLs; omega
            have : o = L + 1 := by
              by_cases c4 : o = L + 1
              · exact c4
              · rcases h.2.2.1 with e | e
                · omega
                · have := hLz (o - 1) (by omega) (by omega); rw [this] at e; cases e
            exact n1 ⟨this, by omega⟩
          · by_cases c5 : o + l ≤ L
            · exact c5
            · exfalso
              have := hLz (o + l) (by omega) (by omega)
              rw [h.2.2.2] at this; cases this
        · right
          by_cases c3 : o = off + len
          · exfalso
            have : l = R - (off + len) := by
              rcases Nat.lt_trichotomy (o + l) R with d | d | d
              · have := hRz (o + l) (by omega) d; rw [h.2.2.2] at this; cases this
              · omega
              · have := h.not_mem hRs; omega
            exact n2 ⟨c3, this⟩
          · by_cases c5 : R < o
            · exact c5
            · exfalso
              rcases h.2.2.1 with e | e
              · omega
              · by_cases c6 : o = R
                · subst c6
                  have := h.2.1 o (Nat.le_refl _) (by omega); rw [hRs] at this; cases this
                · have := hRz (o - 1) (by omega) (by omega); rw [this] at e; cases e
      apply IsRun.congr h
      intro i h1 h2
      exact hout i (by omega)

/-- Setting `[a, a+n)` inside the maximal run `[o, o+l)`: the run is replaced by what remains of it on the left
    and on the right; all other runs stay. -/
theorem isRun_set {b : Bits} {o l a n : Nat} (hr : IsRun b o l) (hn : 0 < n) (ha : o ≤ a) (hb : a + n ≤ o + l)
    (o' l' : Nat) :
    IsRun (setRange b a n true) o' l' ↔
      (o' = o ∧ l' = a - o ∧ o < a) ∨ (o' = a + n ∧ l' = o + l - (a + n) ∧ a + n < o + l) ∨
      (IsRun b o' l' ∧ ¬ (o' = o ∧ l' = l)) := by
  have hsz := hr.end_le_size
  have hin : ∀ i, a ≤ i → i < a + n → bit (setRange b a n true) i = true := by
    intro i h1 h2; rw [bit_setRange]; simp [h1, h2]; omega
  have hout : ∀ i, (i < a ∨ a + n ≤ i) → bit (setRange b a n true) i = bit b i := by
    intro i h; rw [bit_setRange]
    have : ¬ (a ≤ i ∧ i < a + n ∧ i < b.size) := by omega
    simp [this]
  have hLeft : o < a → IsRun (setRange b a n true) o (a - o) := by
    intro c
    refine ⟨by omega, fun i h1 h2 => ?_, ?_, ?_⟩
    · rw [hout i (by omega)]; exact hr.2.1 i h1 (by omega)
    · rcases hr.2.2.1 with e | e
      · exact Or.inl e
      · by_cases c0 : o = 0
        · exact Or.inl c0
        · right; rw [hout (o - 1) (by omega)]; exact e
    · have : o + (a - o) = a := by omega
      rw [this]; exact hin a (Nat.le_refl _) (by omega)
  have hRight : a + n < o + l → IsRun (setRange b a n true) (a + n) (o + l - (a + n)) := by
    intro c
    refine ⟨by omega, fun i h1 h2 => ?_, Or.inr ?_, ?_⟩
    · rw [hout i (by omega)]; exact hr.2.1 i (by omega) (by omega)
    · exact hin (a + n - 1) (by omega) (by omega)
    · have : a + n + (o + l - (a + n)) = o + l := by omega
      rw [this, hout (o + l) (by omega)]; exact hr.2.2.2
  constructor
  · intro h
    have hl := h.1
    by_cases c1 : o' < a ∧ o < o' + l' ∧ o < a
    · -- meets the left remainder
      left
      have key : ∃ i, o' ≤ i ∧ i < o' + l' ∧ o ≤ i ∧ i < o + (a - o) := by
        by_cases c2 : o ≤ o'
        · exact ⟨o', Nat.le_refl _, by omega, c2, by omega⟩
        · exact ⟨o, by omega, by omega, Nat.le_refl _, by omega⟩
      obtain ⟨i, a1, a2, a3, a4⟩ := key
      have := IsRun.eq_of_overlap h (hLeft c1.2.2) i a1 a2 a3 a4
      exact ⟨this.1, this.2, c1.2.2⟩
    · by_cases c2 : o' < o + l ∧ a + n < o' + l' ∧ a + n < o + l
      · right; left
        have key : ∃ i, o' ≤ i ∧ i < o' + l' ∧ a + n ≤ i ∧ i < a + n + (o + l - (a + n)) := by
          by_cases c3 : a + n ≤ o'
          · exact ⟨o', Nat.le_refl _, by omega, c3, by omega⟩
          · exact ⟨a + n, by omega, by omega, Nat.le_refl _, by omega⟩
        obtain ⟨i, a1, a2, a3, a4⟩ := key
        have := IsRun.eq_of_overlap h (hRight c2.2.2) i a1 a2 a3 a4
        exact ⟨this.1, this.2, c2.2.2⟩
      · right; right
        -- the run avoids the set range, hence it avoids the whole old run
        have c3 := h.not_mem (hin a (Nat.le_refl _) (by omega))
        have c4 := h.not_mem (hin (a + n - 1) (by omega) (by omega))
        have c5 : o' < a ∨ a + n ≤ o' := by
          by_cases c : o' < a ∨ a + n ≤ o'
          · exact c
          · exfalso
            have := h.2.1 o' (Nat.le_refl _) (by omega)
            rw [hin o' (by omega) (by omega)] at this; cases this
        have side : o' + l' ≤ o ∨ o + l ≤ o' := by omega
        have side2 : o' + l' < o ∨ o + l < o' := by
          rcases side with c | c
          · left
            by_cases c5 : o' + l' = o
            · exfalso
              rcases hr.2.2.1 with e | e
              · omega
              · have := h.2.1 (o - 1) (by omega) (by omega)
                rw [hout (o - 1) (by omega)] at this
                rw [this] at e; cases e
            · omega
          · right
            by_cases c5 : o' = o + l
            · exfalso
              have := h.2.1 o' (Nat.le_refl _) (by omega)
              rw [hout o' (by omega), c5, hr.2.2.2] at this; cases this
            · omega
        refine ⟨?_, by omega⟩
        apply IsRun.congr h
        intro i h1 h2
        exact (hout i (by omega)).symm
  · rintro (⟨e1, e2, e3⟩ | ⟨e1, e2, e3⟩ | ⟨h, ne⟩)
    · subst e1; subst e2; exact hLeft e3
    · subst e1; subst e2; exact hRight e3
    · have hl := h.1
      have dis : o' + l' ≤ o ∨ o + l ≤ o' := by
        by_cases c : o' + l' ≤ o ∨ o + l ≤ o'
        · exact c
        · exfalso
          have := IsRun.eq_of_overlap h hr (max o o') (by omega) (by omega) (by omega) (by omega)
          exact ne this
      have side2 : o' + l' < o ∨ o + l < o' := by
        rcases dis with c | c
        · left
          by_cases c5 : o' + l' = o
          · exfalso
            have := hr.2.1 o (Nat.le_refl _) (by have := hr.1; omega)
            rw [← c5, h.2.2.2] at this; cases this
          · omega
        · right
          by_cases c5 : o' = o + l
          · exfalso
            have := h.2.1 o' (Nat.le_refl _) (by omega)
            rw [c5, hr.2.2.2] at this; cases this
          · omega
      apply IsRun.congr h
      intro i h1 h2
      exact hout i (by omega)

end IwModel.Fsm
