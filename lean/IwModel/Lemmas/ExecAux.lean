import IwModel.Model.Exec
namespace IwModel.Exec

theorem getD_setAt {α} (l : List α) (i j : Nat) (x d : α) :
    (setAt l i x).getD j d = if i = j ∧ i < l.length then x else l.getD j d := by
  simp only [setAt, List.getD_eq_getElem?_getD, List.getElem?_set]
  by_cases h : i = j
  · subst h; by_cases h2 : i < l.length <;> simp [h2]
  · simp [h]

theorem getD_snoc {α} (l : List α) (x d : α) (j : Nat) :
    (l ++ [x]).getD j d = if j < l.length then l.getD j d else if j = l.length then x else d := by
  simp only [List.getD_eq_getElem?_getD]
  by_cases h : j < l.length
  · simp [h, List.getElem?_append_left h]
  · simp only [h, if_false]
    rw [List.getElem?_append_right (by omega)]
    by_cases h2 : j = l.length
    · simp [h2]
    · have : j - l.length ≠ 0 := by omega
      simp [h2, this]

theorem getD_map_wake (l : List WPc) (j : Nat) : (l.map wakeWorker).getD j .exited = wakeWorker (l.getD j .exited) := by
  simp only [List.getD_eq_getElem?_getD, List.getElem?_map]
  cases l[j]? <;> simp [wakeWorker]

theorem getD_ge {α} (l : List α) (j : Nat) (d : α) (h : l.length ≤ j) : l.getD j d = d := by
  rw [List.getD_eq_getElem?_getD, List.getElem?_eq_none h]; rfl

theorem length_setAt {α} (l : List α) (i : Nat) (x : α) : (setAt l i x).length = l.length := by simp [setAt]

theorem count_setAt (l : List WPc) (i : Nat) (x a : WPc) (h : i < l.length) :
    (setAt l i x).count a + (if l.getD i .exited = a then 1 else 0) = l.count a + (if x = a then 1 else 0) := by
  have := List.count_set (a := x) (b := a) h
  simp only [setAt, this, List.getD_eq_getElem?_getD, List.getElem?_eq_getElem h, Option.getD_some, beq_iff_eq]
  have hp : 0 < l.count l[i] := List.count_pos_iff.2 (List.getElem_mem h)
  by_cases h1 : l[i] = a
  · subst h1; simp; omega
  · simp [h1]

theorem mem_waitersOf {ws : List WPc} {k : Nat} (h : k ∈ waitersOf ws) : k < ws.length ∧ ws.getD k .exited = .wait false := by
  simpa [waitersOf] using h

theorem waitersOf_pick (ws : List WPc) (sel : Nat) (h : waitersOf ws ≠ []) :
    (waitersOf ws).getD (sel % (waitersOf ws).length) 0 < ws.length ∧
    ws.getD ((waitersOf ws).getD (sel % (waitersOf ws).length) 0) .exited = .wait false := by
  have hl : 0 < (waitersOf ws).length := List.length_pos_iff.2 h
  have hm : sel % (waitersOf ws).length < (waitersOf ws).length := Nat.mod_lt _ hl
  apply mem_waitersOf
  rw [List.getD_eq_getElem?_getD, List.getElem?_eq_getElem hm]
  exact List.getElem_mem hm

theorem waitersOf_nil (ws : List WPc) (h : waitersOf ws = []) (k : Nat) : ws.getD k .exited ≠ .wait false := by
  intro hk
  have hlt : k < ws.length := by
    by_cases hlt : k < ws.length
    · exact hlt
    · rw [List.getD_eq_getElem?_getD, List.getElem?_eq_none (by omega)] at hk; simp at hk
  have : k ∈ waitersOf ws := by
    rw [List.getD_eq_getElem?_getD, List.getElem?_eq_getElem hlt] at hk
    simpa [waitersOf, hlt] using hk
  simp [h] at this

theorem signalOne_eq (ws : List WPc) (sel : Nat) :
    ((signalOne ws sel).1 = ws ∧ ∀ j, ws.getD j .exited ≠ .wait false) ∨
    ∃ k, k < ws.length ∧ ws.getD k .exited = .wait false ∧ (signalOne ws sel).1 = setAt ws k (.wait true) := by
  unfold signalOne
  by_cases h : waitersOf ws = []
  · left; exact ⟨by simp [h], waitersOf_nil ws h⟩
  · right
    have hp := waitersOf_pick ws sel h
    exact ⟨_, hp.1, hp.2, by simp only [h, if_false]⟩

theorem signalOne_getD (ws : List WPc) (sel j : Nat) :
    (signalOne ws sel).1.getD j .exited = ws.getD j .exited ∨
    (ws.getD j .exited = .wait false ∧ (signalOne ws sel).1.getD j .exited = .wait true) := by
  rcases signalOne_eq ws sel with ⟨h, _⟩ | ⟨k, hk, hw, h⟩
  · left; rw [h]
  · rw [h, getD_setAt]
    by_cases hj : k = j
    · subst hj; right; exact ⟨hw, by rw [if_pos ⟨rfl, hk⟩]⟩
    · left; rw [if_neg (fun hh => hj hh.1)]

theorem signalOne_some (ws : List WPc) (sel : Nat) :
    (∀ j, ws.getD j .exited ≠ .wait false) ∨
    ∃ j, ws.getD j .exited = .wait false ∧ (signalOne ws sel).1.getD j .exited = .wait true := by
  rcases signalOne_eq ws sel with ⟨_, h⟩ | ⟨k, hk, hw, h⟩
  · left; exact h
  · right; exact ⟨k, hw, by rw [h, getD_setAt, if_pos ⟨rfl, hk⟩]⟩

theorem signalOne_length (ws : List WPc) (sel : Nat) : (signalOne ws sel).1.length = ws.length := by
  rcases signalOne_eq ws sel with ⟨h, _⟩ | ⟨k, _, _, h⟩
  · rw [h]
  · rw [h, length_setAt]

theorem signalOne_count_run (ws : List WPc) (sel : Nat) (t : Task) :
    (signalOne ws sel).1.count (.run t) = ws.count (.run t) := by
  rcases signalOne_eq ws sel with ⟨h, _⟩ | ⟨k, hk, hw, h⟩
  · rw [h]
  · have := count_setAt ws k (.wait true) (.run t) hk
    rw [hw] at this
    rw [h]
    simpa using this

theorem wEnabled_iff (w : WPc) : wEnabled w = true ↔ w ≠ .wait false ∧ w ≠ .exited := by
  cases w <;> simp [wEnabled]
  rename_i b; cases b <;> simp

/-- after a signal some regular thread can move, provided the regular threads are alive and overflow threads never wait -/
theorem witness_after_signal (ws : List WPc) (sel n : Nat) (hn : 0 < n)
    (alive : ∀ k, k < n → ws.getD k .exited ≠ .exited)
    (ovf : ∀ k b, n ≤ k → ws.getD k .exited ≠ .wait b) :
    ∃ k, k < n ∧ wEnabled ((signalOne ws sel).1.getD k .exited) = true := by
  rcases signalOne_some ws sel with h | ⟨j, hj, hr⟩
  · refine ⟨0, hn, ?_⟩
    rcases signalOne_getD ws sel 0 with h0 | ⟨h0, _⟩
    · rw [h0, wEnabled_iff]; exact ⟨h 0, alive 0 hn⟩
    · exact absurd h0 (h 0)
  · have hjn : j < n := by
      by_cases hjn : j < n
      · exact hjn
      · exact absurd hj (ovf j false (by omega))
    exact ⟨j, hjn, by rw [hr]; rfl⟩

theorem witness_after_signal_snoc (ws : List WPc) (sel n : Nat) (hn : 0 < n)
    (alive : ∀ k, k < n → ws.getD k .exited ≠ .exited)
    (ovf : ∀ k b, n ≤ k → ws.getD k .exited ≠ .wait b) :
    ∃ k, k < n ∧ wEnabled ((signalOne (ws ++ [.init true]) sel).1.getD k .exited) = true := by
  have hlen : n ≤ ws.length := by
    by_cases hlen : n ≤ ws.length
    · exact hlen
    · have := alive ws.length (by omega)
      rw [List.getD_eq_getElem?_getD, List.getElem?_eq_none (by omega)] at this
      simp at this
  apply witness_after_signal _ sel n hn
  · intro k hk
    rw [getD_snoc, if_pos (by omega)]
    exact alive k hk
  · intro k b hk
    rw [getD_snoc]
    split
    · exact ovf k b hk
    · split <;> simp

theorem all_exited_of_joined (ws : List WPc) (threads joinlist : List Nat)
    (hreg : ∀ k, k ∈ threads ∨ ws.getD k .exited = .exited) (heq : joinlist = threads)
    (hall : ∀ m, m < joinlist.length → ws.getD (joinlist.getD m 0) .exited = .exited) :
    ∀ k, ws.getD k .exited = .exited := by
  intro k
  rcases hreg k with h | h
  · subst heq
    obtain ⟨m, hm, rfl⟩ := List.getElem_of_mem h
    have := hall m hm
    have e : joinlist.getD m 0 = joinlist[m] := by
      rw [List.getD_eq_getElem?_getD, List.getElem?_eq_getElem hm]; rfl
    rwa [e] at this
  · exact h

theorem count_map_wake_run (l : List WPc) (t : Task) : (l.map wakeWorker).count (.run t) = l.count (.run t) := by
  induction l with
  | nil => rfl
  | cons a l ih => cases a <;> simp_all [wakeWorker, List.count_cons]

end IwModel.Exec
