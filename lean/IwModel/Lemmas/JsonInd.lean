import IwModel.Model.JVal
import IwModel.Model.JsonPatch
/-! Induction principles for the nested inductive types of the JSON models (children given by membership). -/
namespace IwModel

theorem JVal.induct {P : JVal → Prop}
    (null : P .null) (bool : ∀ b, P (.bool b)) (int : ∀ i, P (.int i)) (f64 : ∀ b, P (.f64 b)) (str : ∀ s, P (.str s))
    (arr : ∀ xs : List JVal, (∀ x ∈ xs, P x) → P (.arr xs))
    (obj : ∀ ms : List (Bytes × JVal), (∀ p ∈ ms, P p.2) → P (.obj ms)) : ∀ v, P v := by
  intro v
  refine JVal.rec (motive_1 := P) (motive_2 := fun xs => ∀ x ∈ xs, P x) (motive_3 := fun ms => ∀ p ∈ ms, P p.2)
    (motive_4 := fun p => P p.2) null bool int f64 str arr obj ?_ ?_ ?_ ?_ ?_ v
  · intro x hx; cases hx
  · intro hd tl h1 h2 x hx
    rcases List.mem_cons.mp hx with rfl | h
    · exact h1
    · exact h2 x h
  · intro x hx; cases hx
  · intro hd tl h1 h2 x hx
    rcases List.mem_cons.mp hx with rfl | h
    · exact h1
    · exact h2 x h
  · intro k v h; exact h

open Patch in
theorem Patch.Node.induct {P : Node → Prop}
    (none : P .none) (null : P .null) (bool : ∀ b, P (.bool b)) (int : ∀ i, P (.int i)) (f64 : ∀ b, P (.f64 b))
    (str : ∀ s, P (.str s))
    (arr : ∀ xs : List (Int × Node), (∀ p ∈ xs, P p.2) → P (.arr xs))
    (obj : ∀ ms : List (Bytes × Node), (∀ p ∈ ms, P p.2) → P (.obj ms)) : ∀ v, P v := by
  intro v
  refine Node.rec (motive_1 := P) (motive_2 := fun xs => ∀ p ∈ xs, P p.2) (motive_3 := fun ms => ∀ p ∈ ms, P p.2)
    (motive_4 := fun p => P p.2) (motive_5 := fun p => P p.2) none null bool int f64 str arr obj ?_ ?_ ?_ ?_ ?_ ?_ v
  · intro x hx; cases hx
  · intro hd tl h1 h2 x hx
    rcases List.mem_cons.mp hx with rfl | h
    · exact h1
    · exact h2 x h
  · intro x hx; cases hx
  · intro hd tl h1 h2 x hx
    rcases List.mem_cons.mp hx with rfl | h
    · exact h1
    · exact h2 x h
  · intro k v h; exact h
  · intro k v h; exact h

end IwModel
