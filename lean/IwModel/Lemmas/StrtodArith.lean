import IwModel.Lemmas.Strtod
/-! Invariants of the loops of `iwstrtodModel` (values stay non-negative and are never NaN), sign symmetry, monotonicity. -/
namespace IwModel.Json
open IwModel IwModel.SoftF64 IwModel.Gen.Pow10

theorem litTen_props : IsFin litTen ∧ mag litTen = 10 * unit := by
  rw [litTen_eq]; exact ofNat_spec 10 (by decide)

theorem litTenth_fin : IsFin litTenth := by unfold IsFin; decide +kernel

theorem digit_fin (c : Nat) (hc : isDigitC c = true) : IsFin (ofNat (c - 48)) := by
  have hc' : 48 ≤ c ∧ c ≤ 57 := by simpa [isDigitC] using hc
  exact ofNat_fin _ (by rw [p53]; omega)

theorem intStep_pos (d c : Nat) (hd : IsPos d) (hc : isDigitC c = true) : IsPos (intStep d c) := by
  unfold intStep
  apply add_pos _ _ _ (digit_fin c hc).pos
  apply mul_pos d litTen hd litTen_props.1.pos
  · intro _; rw [litTen_props.2]; exact Nat.ne_of_gt (Nat.mul_pos (by decide) unit_pos)
  · intro h; rw [litTen_props.1.notInf] at h; exact absurd h (by decide)

theorem intFold_pos (cs : Bytes) (d : Nat) (hd : IsPos d) (hds : cs.all isDigitC = true) : IsPos (cs.foldl intStep d) := by
  induction cs generalizing d with
  | nil => exact hd
  | cons c cs ih =>
    simp only [List.all_cons, Bool.and_eq_true] at hds
    rw [List.foldl_cons]
    exact ih _ (intStep_pos d c hd hds.1) hds.2

theorem zero_pos : IsPos 0 := by unfold IsPos infBits; omega

theorem intLoop_pos (ds : Bytes) (hds : ds.all isDigitC = true) : IsPos (intLoop ds) := by
  cases ds with
  | nil => exact zero_pos
  | cons c cs =>
    simp only [List.all_cons, Bool.and_eq_true] at hds
    unfold intLoop
    exact intFold_pos cs _ (digit_fin c hds.1).pos hds.2

theorem fracStep_inv (s : Nat × Nat) (c : Nat) (h1 : IsPos s.1) (h2 : IsFin s.2) (hc : isDigitC c = true) :
    IsPos (fracStep s c).1 ∧ IsFin (fracStep s c).2 := by
  unfold fracStep
  refine ⟨?_, ?_⟩
  · apply add_pos _ _ h1
    apply mul_pos _ _ h2.pos (digit_fin c hc).pos
    · intro h; rw [h2.notInf] at h; exact absurd h (by decide)
    · intro h; rw [(digit_fin c hc).notInf] at h; exact absurd h (by decide)
  · have := div_le_self s.2 litTen h2 litTen_props.1 (by rw [litTen_props.2]; omega)
    exact Nat.lt_of_le_of_lt this h2

theorem fracFold_inv (cs : Bytes) (s : Nat × Nat) (h1 : IsPos s.1) (h2 : IsFin s.2) (hds : cs.all isDigitC = true) :
    IsPos (cs.foldl fracStep s).1 := by
  induction cs generalizing s with
  | nil => exact h1
  | cons c cs ih =>
    simp only [List.all_cons, Bool.and_eq_true] at hds
    rw [List.foldl_cons]
    have := fracStep_inv s c h1 h2 hds.1
    exact ih _ this.1 this.2 hds.2

theorem fracLoop_pos (fs : Bytes) (hds : fs.all isDigitC = true) : IsPos (fracLoop fs) :=
  fracFold_inv fs _ zero_pos litTenth_fin hds

theorem takeWhile_all (p : Nat → Bool) (l : Bytes) : (l.takeWhile p).all p = true := by
  induction l with
  | nil => rfl
  | cons c r ih =>
    simp only [List.takeWhile]
    cases hc : p c
    · rfl
    · simp [hc, ih]

/-! ### sign symmetry -/

set_option maxRecDepth 8000 in
/-- side condition on the regenerated table: every entry is a finite non-negative double -/
theorem pow10Tab_fin : pow10Tab.all (fun x => decide (x < infBits)) = true := by decide +kernel

theorem pow10_pos (e : Int) : IsPos (pow10 e).1 := by
  unfold pow10
  split
  · exact zero_pos
  · split
    · exact Nat.le_refl _
    · simp only [List.getD_eq_getElem?_getD]
      cases h : pow10Tab[(e + ↑pow10Lo).toNat]? with
      | none => exact zero_pos
      | some x =>
        have hm := List.mem_of_getElem? h
        have := List.all_eq_true.mp pow10Tab_fin x hm
        simp only [decide_eq_true_eq] at this
        exact Nat.le_of_lt this

theorem lit_facts : litMinA < 2 ^ 63 ∧ litMinA % 2 ^ 63 ≠ 0 ∧ litMinB < 2 ^ 63 ∧ litMinB % 2 ^ 63 ≠ 0 ∧
    mul litMinB lit1em308 = 0x0010000000000000 := by decide +kernel

theorem feq_neg_lit (d A : Nat) (hA : A < 2 ^ 63) (hA0 : A % 2 ^ 63 ≠ 0) : feq (2 ^ 63 + d) A = false := by
  unfold feq
  have h1 : ¬ (2 ^ 63 + d = A) := by omega
  simp [h1, hA0]

theorem feq_pos_lit (d A : Nat) (hA0 : A % 2 ^ 63 ≠ 0) (h : feq d A = true) : d = A := by
  unfold feq at h
  simp only [Bool.and_eq_true, Bool.or_eq_true, decide_eq_true_eq] at h
  rcases h.2 with h | h
  · exact h
  · exact absurd h.2 hA0

theorem flipBits_pos (d : Nat) (hd : IsPos d) : flipBits d = 2 ^ 63 + d := by
  unfold flipBits
  rw [if_neg]
  unfold IsPos infBits at hd; unfold nanBits; omega

theorem scaleExp_sym (d : Nat) (hd : IsPos d) (e : Int) (n : Nat) (hn : 0 < n) :
    scaleExp (2 ^ 63 + d) e (n + 1) = flipRes (scaleExp d e n) ∨ SpecialRes (scaleExp d e n) := by
  obtain ⟨a1, a2, b1, b2, hmin⟩ := lit_facts
  unfold scaleExp
  rw [feq_neg_lit d litMinA a1 a2, feq_neg_lit d litMinB b1 b2]
  simp only [Bool.false_and, Bool.false_eq_true, ↓reduceIte]
  by_cases c1 : (feq d litMinA && e == -308) = true
  · rw [if_pos c1]; right; left; exact ⟨rfl, rfl⟩
  · rw [if_neg c1]
    by_cases c2 : (feq d litMinB && decide (e ≤ -308)) = true
    · rw [if_pos c2]; right; right
      simp only [Bool.and_eq_true] at c2
      have := feq_pos_lit d litMinB b2 c2.1
      subst this
      exact hmin
    · rw [if_neg c2]; left
      have hn0 : (if n = 0 then 0 else n + 1) = n + 1 := if_neg (by omega)
      unfold flipRes flipBits
      simp only
      rw [mul_neg_left d _ hd (pow10_pos e), hn0]

theorem mul_signF_false (d : Nat) (hd : IsPos d) : mul d (signF false) = d := by
  have h1 := ofNat_spec 1 (by decide)
  have := mul_unit_sign d (signF false) false hd (by rw [signF_false]; exact h1.1.pos.notNaN)
    (by rw [signF_false]; exact h1.1.notInf) (by rw [signF_false]; exact h1.1.pos.notNeg)
    (by rw [signF_false, h1.2, Nat.one_mul])
  rw [this]; simp [signBit]

theorem mul_signF_true (d : Nat) (hd : IsPos d) : mul d (signF true) = 2 ^ 63 + d := by
  have h1 := ofNat_spec 1 (by decide)
  obtain ⟨n1, n2, n3, n4⟩ := neg_props (ofNat 1) h1.1.pos.lt63
  have := mul_unit_sign d (signF true) true hd (by rw [signF_true, n1]; exact h1.1.pos.notNaN)
    (by rw [signF_true, n2]; exact h1.1.notInf) (by rw [signF_true]; exact n4)
    (by rw [signF_true, n3, h1.2, Nat.one_mul])
  rw [this]; simp [signBit]

theorem flipRes_pos (d n : Nat) (b : Bool) (hd : IsPos d) (hn : 0 < n) : flipRes (d, n, b) = (2 ^ 63 + d, n + 1, b) := by
  unfold flipRes
  simp only [flipBits_pos d hd]
  rw [if_neg (by omega)]

theorem flipRes_zero (d : Nat) (b : Bool) (hd : IsPos d) : flipRes (d, 0, b) = (2 ^ 63 + d, 0, b) := by
  unfold flipRes
  simp only [flipBits_pos d hd, ↓reduceIte]

theorem expTail_sym (d : Nat) (hd : IsPos d) (eneg : Bool) (p : Bytes) (n2 n prev : Nat) (hn : 0 < n) (hn2 : 0 < n2) :
    expTail (2 ^ 63 + d) eneg p (n2 + 1) (n + 1) prev = flipRes (expTail d eneg p n2 n prev) ∨
      SpecialRes (expTail d eneg p n2 n prev) := by
  unfold expTail
  by_cases h1 : isDigitC (chd p) = true
  · rw [if_pos h1, if_pos h1]
    simp only
    rw [Nat.add_right_comm n2 1]
    exact scaleExp_sym d hd _ _ (by omega)
  · rw [if_neg h1, if_neg h1]
    by_cases h2 : (!isDigitC prev) = true
    · rw [if_pos h2, if_pos h2, flipRes_zero d false hd]; left; rfl
    · rw [if_neg h2, if_neg h2]
      by_cases h3 : chd p = 0
      · rw [if_pos h3, if_pos h3, flipRes_pos d n false hd hn]; left; rfl
      · rw [if_neg h3, if_neg h3]
        exact scaleExp_sym d hd 0 n2 hn2

theorem expPart_sym (d : Nat) (hd : IsPos d) (p : Bytes) (n prev : Nat) (hn : 0 < n) :
    expPart (2 ^ 63 + d) p (n + 1) prev = flipRes (expPart d p n prev) ∨ SpecialRes (expPart d p n prev) := by
  unfold expPart
  by_cases h1 : chd p = 69 ∨ chd p = 101
  · rw [if_pos h1, if_pos h1]
    simp only
    by_cases h2 : chd (p.drop 1) = 45
    · rw [if_pos h2, if_pos h2, Nat.add_right_comm n 1 2]
      exact expTail_sym d hd true _ _ _ _ hn (by omega)
    · rw [if_neg h2, if_neg h2]
      by_cases h3 : chd (p.drop 1) = 43
      · rw [if_pos h3, if_pos h3, Nat.add_right_comm n 1 2]
        exact expTail_sym d hd false _ _ _ _ hn (by omega)
      · rw [if_neg h3, if_neg h3]
        exact expTail_sym d hd false _ _ _ _ hn (by omega)
  · rw [if_neg h1, if_neg h1]
    by_cases h2 : (!isDigitC prev) = true
    · rw [if_pos ⟨by omega, h2⟩, if_pos ⟨hn, h2⟩, flipRes_zero d false hd]; left; rfl
    · rw [if_neg (fun h => h2 h.2), if_neg (fun h => h2 h.2), flipRes_pos d n false hd hn]; left; rfl

theorem fracPart_sym (d0 : Nat) (hd : IsPos d0) (p : Bytes) (n prev : Nat) (h : 0 < n ∨ chd p = 46) :
    fracPart true d0 p (n + 1) prev = flipRes (fracPart false d0 p n prev) ∨ SpecialRes (fracPart false d0 p n prev) := by
  unfold fracPart
  simp only [mul_signF_false d0 hd, mul_signF_true d0 hd]
  by_cases h1 : chd p = 46
  · rw [if_pos h1, if_pos h1]
    have hf := fracLoop_pos _ (takeWhile_all isDigitC (p.drop 1))
    rw [mul_signF_false _ hf, mul_signF_true _ hf, add_neg_neg _ _ hd hf,
      show n + 1 + 1 + (List.takeWhile isDigitC (List.drop 1 p)).length =
        n + 1 + (List.takeWhile isDigitC (List.drop 1 p)).length + 1 by omega]
    exact expPart_sym _ (add_pos _ _ hd hf) _ _ _ (by omega)
  · rw [if_neg h1, if_neg h1]
    exact expPart_sym _ hd _ _ _ (by omega)

theorem takeWhile_digit_len (p : Bytes) (h : isDigitC (chd p) = true) : 0 < (p.takeWhile isDigitC).length := by
  cases p with
  | nil => exact absurd h (by decide)
  | cons c r => rw [chd_cons] at h; simp [List.takeWhile, h]

theorem numPart_sym (p : Bytes) (n : Nat) (hb : isDigitC (chd p) = true ∨ chd p = 46) :
    numPart true p (n + 1) = flipRes (numPart false p n) ∨ SpecialRes (numPart false p n) := by
  unfold numPart
  by_cases h1 : isDigitC (chd p) = true
  · rw [if_pos h1, if_pos h1]
    simp only
    have hl := takeWhile_digit_len p h1
    rw [Nat.add_right_comm n 1]
    exact fracPart_sym _ (intLoop_pos _ (takeWhile_all isDigitC p)) _ _ _ (Or.inl (by omega))
  · rw [if_neg h1, if_neg h1]
    have h46 : chd p = 46 := by rcases hb with hb | hb; exact absurd hb h1; exact hb
    rw [if_neg (by simp [h46]), if_neg (by simp [h46])]
    exact fracPart_sym 0 zero_pos p n 0 (Or.inr h46)

/-- the top level on `ws ++ text` where the text starts with neither white space nor a sign -/
theorem model_ws (ws p : Bytes) (hws : ws.all isSpaceC = true)
    (hp : isSpaceC (chd p) = false ∧ chd p ≠ 45 ∧ chd p ≠ 43) :
    iwstrtodModel (ws ++ p) = numPart false p ws.length := by
  have htw : (ws ++ p).takeWhile isSpaceC = ws :=
    takeWhile_stop isSpaceC ws p (fun c hc => List.all_eq_true.mp hws c hc) (fun c r h => by subst h; exact hp.1)
  unfold iwstrtodModel
  simp only [htw, drop_append_len]
  rw [if_neg hp.2.1, if_neg hp.2.2]

theorem model_ws_neg (ws p : Bytes) (hws : ws.all isSpaceC = true) :
    iwstrtodModel (ws ++ 45 :: p) = numPart true p (ws.length + 1) := by
  have htw : (ws ++ 45 :: p).takeWhile isSpaceC = ws :=
    takeWhile_stop isSpaceC ws (45 :: p) (fun c hc => List.all_eq_true.mp hws c hc)
      (fun c r h => by simp only [List.cons.injEq] at h; rw [← h.1]; decide)
  unfold iwstrtodModel
  simp only [htw, drop_append_len, chd_cons, ↓reduceIte, List.drop_one, List.tail_cons]

/-- **(c) sign symmetry** -/
theorem strtod_sign (ws body : Bytes) (hws : ws.all isSpaceC = true) (hb : isDigitC (chd body) = true ∨ chd body = 46) :
    iwstrtodModel (ws ++ 45 :: body) = flipRes (iwstrtodModel (ws ++ body)) ∨ SpecialRes (iwstrtodModel (ws ++ body)) := by
  have hp : isSpaceC (chd body) = false ∧ chd body ≠ 45 ∧ chd body ≠ 43 := by
    rcases hb with hb | hb
    · have : 48 ≤ chd body ∧ chd body ≤ 57 := by simpa [isDigitC] using hb
      refine ⟨?_, by omega, by omega⟩
      unfold isSpaceC; simp only [decide_eq_false_iff_not]; omega
    · rw [hb]; exact ⟨by decide, by decide, by decide⟩
  rw [model_ws ws body hws hp, model_ws_neg ws body hws]
  exact numPart_sym body ws.length hb

/-! ### monotonicity of the digit loop in the value accumulated so far -/

theorem intStep_mono (d d' c : Nat) (hd : IsPos d) (hd' : IsPos d') (hc : isDigitC c = true) (h : d ≤ d') :
    intStep d c ≤ intStep d' c := by
  have hten : mag litTen ≠ 0 := by rw [litTen_props.2]; exact Nat.ne_of_gt (Nat.mul_pos (by decide) unit_pos)
  have hni : ∀ x, IsPos x → IsPos (mul x litTen) := fun x hx =>
    mul_pos x litTen hx litTen_props.1.pos (fun _ => hten) (fun h => by rw [litTen_props.1.notInf] at h; exact absurd h (by decide))
  unfold intStep
  exact add_mono_left _ _ _ (hni d hd) (hni d' hd') (digit_fin c hc)
    (mul_mono_left d d' litTen hd hd' litTen_props.1 hten h)

theorem intFold_mono (cs : Bytes) (d d' : Nat) (hd : IsPos d) (hd' : IsPos d') (hds : cs.all isDigitC = true) (h : d ≤ d') :
    cs.foldl intStep d ≤ cs.foldl intStep d' := by
  induction cs generalizing d d' with
  | nil => exact h
  | cons c cs ih =>
    simp only [List.all_cons, Bool.and_eq_true] at hds
    rw [List.foldl_cons, List.foldl_cons]
    exact ih _ _ (intStep_pos d c hd hds.1) (intStep_pos d' c hd' hds.1) hds.2 (intStep_mono d d' c hd hd' hds.1 h)

theorem intLoop_append (p q : Bytes) (hp : p ≠ []) : intLoop (p ++ q) = q.foldl intStep (intLoop p) := by
  cases p with
  | nil => exact absurd rfl hp
  | cons c cs => unfold intLoop; rw [List.cons_append]; simp only [List.foldl_append]

/-! ### integer texts -/

theorem int_text_exact (ws : Bytes) (neg : Bool) (ds rest : Bytes) (hws : ws.all isSpaceC = true) (hne : ds ≠ [])
    (hds : ds.all isDigitC = true)
    (hr : isDigitC (chd rest) = false ∧ chd rest ≠ 46 ∧ chd rest ≠ 69 ∧ chd rest ≠ 101)
    (hv : digitsVal 10 ds < 2 ^ 53) :
    iwstrtodModel (ws ++ signText neg ++ ds ++ rest) =
      (signBit neg + ofNat (digitsVal 10 ds), ws.length + (signText neg).length + ds.length, false) := by
  have hlast := getLast_digit ds hne hds
  have hfin := ofNat_fin _ hv
  have hc : isDigitC (chd (ds ++ rest)) = true := by
    cases ds with
    | nil => exact absurd rfl hne
    | cons c cs => simp only [List.all_cons, Bool.and_eq_true] at hds; exact hds.1
  have hp : isSpaceC (chd (ds ++ rest)) = false ∧ chd (ds ++ rest) ≠ 45 ∧ chd (ds ++ rest) ≠ 43 := by
    have : 48 ≤ chd (ds ++ rest) ∧ chd (ds ++ rest) ≤ 57 := by simpa [isDigitC] using hc
    refine ⟨?_, by omega, by omega⟩
    unfold isSpaceC; simp only [decide_eq_false_iff_not]; omega
  cases neg
  · simp only [signText, Bool.false_eq_true, ↓reduceIte, List.append_nil, List.length_nil, Nat.add_zero, signBit,
      Nat.zero_add]
    rw [List.append_assoc, model_ws ws _ hws hp, numPart_digits false ds rest _ hne hds hr.1,
      fracPart_nofrac _ _ _ _ _ hr.2.1, expPart_none _ _ _ _ hr.2.2 hlast, intLoop_exact ds hds hv,
      mul_signF_false _ hfin.pos]
  · simp only [signText, ↓reduceIte, List.length_cons, List.length_nil, signBit]
    rw [List.append_assoc, List.append_assoc, List.cons_append, List.nil_append, model_ws_neg ws _ hws,
      numPart_digits true ds rest _ hne hds hr.1, fracPart_nofrac _ _ _ _ _ hr.2.1, expPart_none _ _ _ _ hr.2.2 hlast,
      intLoop_exact ds hds hv, mul_signF_true _ hfin.pos]

theorem digitsVal_lt_pow (ds : Bytes) (hds : ds.all isDigitC = true) : digitsVal 10 ds < 10 ^ ds.length := by
  unfold digitsVal
  rw [digitsVal_decStep ds hds]
  suffices h : ∀ v k, v < 10 ^ k → ds.foldl decStep v < 10 ^ (k + ds.length) by
    have := h 0 0 (by decide); simpa using this
  induction ds with
  | nil => intro v k h; simpa using h
  | cons c cs ih =>
    intro v k h
    simp only [List.all_cons, Bool.and_eq_true] at hds
    have hc' : 48 ≤ c ∧ c ≤ 57 := by simpa [isDigitC] using hds.1
    rw [List.foldl_cons, List.length_cons, show k + (cs.length + 1) = (k + 1) + cs.length by omega]
    apply ih hds.2
    unfold decStep
    rw [Nat.pow_succ]; omega

theorem digitsVal_zeros (k : Nat) (ds : Bytes) : digitsVal 10 (List.replicate k 48 ++ ds) = digitsVal 10 ds := by
  unfold digitsVal
  rw [List.foldl_append]
  congr 1
  induction k with
  | zero => rfl
  | succ k ih => rw [List.replicate_succ, List.foldl_cons]; simpa [digitVal] using ih

end IwModel.Json
