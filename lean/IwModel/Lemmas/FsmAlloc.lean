import IwModel.Lemmas.FsmDealloc
/-! Allocation (`_fsm_blk_allocate_lw` on an index hit, `_fsm_blk_allocate_aligned_lw`) preserves the invariant
and returns blocks that were free. -/
namespace IwModel.Fsm

theorem le_roundup (x : Nat) {v : Nat} (hv : 0 < v) : x ≤ roundup x v := by
  unfold roundup
  have h1 := Nat.div_add_mod (x + v - 1) v
  have h2 := Nat.mod_lt (x + v - 1) hv
  rw [Nat.mul_comm] at h1
  omega

theorem roundup_mod (x v : Nat) : roundup x v % v = 0 := by
  unfold roundup; exact Nat.mul_mod_left _ _

theorem roundup_lt (x : Nat) {v : Nat} (hv : 0 < v) : roundup x v < x + v := by
  unfold roundup
  have h1 := Nat.div_add_mod (x + v - 1) v
  have h2 := Nat.mod_lt (x + v - 1) hv
  rw [Nat.mul_comm] at h1
  omega

theorem IdxOk.congr {s s' : St} (h : IdxOk s) (ht : s'.tree = s.tree) (hb : s'.bits = s.bits)
    (h1 : s'.lfoff = s.lfoff) (h2 : s'.lflen = s.lflen) : IdxOk s' := by
  refine ⟨by rw [ht]; exact h.sorted, by rw [ht, hb]; exact h.idx, ?_⟩
  unfold LfOk; rw [h1, h2, ht]; exact h.lf

theorem delFbk2_eq_delFbk {s : St} {o l : Nat} (h : (o, l) ∈ s.tree) : delFbk2 s o l = delFbk s o l := by
  unfold delFbk; simp [h]

theorem ensureSize_ge (s : St) (sz : Nat) (ha : 0 < s.aunit) : sz ≤ (ensureSize s sz).fsize := by
  unfold ensureSize
  by_cases h : s.fsize ≥ sz
  · simp [h]
  · simp only [h, if_false]; exact le_roundup sz ha

@[simp] theorem ensureSize_tree (s : St) (sz : Nat) : (ensureSize s sz).tree = s.tree := by
  unfold ensureSize; split <;> rfl
@[simp] theorem ensureSize_bits (s : St) (sz : Nat) : (ensureSize s sz).bits = s.bits := by
  unfold ensureSize; split <;> rfl
@[simp] theorem ensureSize_lfoff (s : St) (sz : Nat) : (ensureSize s sz).lfoff = s.lfoff := by
  unfold ensureSize; split <;> rfl
@[simp] theorem ensureSize_lflen (s : St) (sz : Nat) : (ensureSize s sz).lflen = s.lflen := by
  unfold ensureSize; split <;> rfl
theorem ensureSize_frame (s : St) (sz : Nat) : Frame s (ensureSize s sz) := by
  unfold ensureSize; split <;> exact ⟨rfl, rfl, rfl, rfl, rfl, rfl⟩

theorem aunit_pos {s : St} (h : 0 < aunitBlk s) : 0 < s.aunit := by
  unfold aunitBlk at h
  by_cases c : s.aunit = 0
  · rw [c] at h; simp at h
  · omega

/-- shape of the state after taking `[a, a+n)` out of the index entry `k = (o, l)`:
    the entry is gone, the remainders left and right of the range are entries, the bits of the range are set -/
structure Taken (s s' : St) (o l a n : Nat) : Prop where
  frame : Frame s s'
  bits : s'.bits = setRange s.bits a n true
  ix : IdxOk s'

/-- generic step: remove the entry `(o,l)`, put back `[o,a)` and `[a+n, o+l)` when non-empty, set the bits -/
theorem taken_of {s : St} (hI : Inv s) {o l a n : Nat} (hm : (o, l) ∈ s.tree) (hn : 0 < n) (ha : o ≤ a)
    (hb : a + n ≤ o + l) (s2 : St)
    (hs2 : s2 = (let s1 := delFbk s o l
                 let s1 := if a > o then putFbk s1 o (a - o) else s1
                 if o + l > a + n then putFbk s1 (a + n) (o + l - (a + n)) else s1)) :
    Taken s { s2 with bits := setRange s2.bits a n true } o l a n := by
  have hr := (hI.ix.idx o l).mp hm
  have hsd : (delFbk s o l).tree.Pairwise KeyLt := sorted_delFbk hI.ix.sorted _ _
  have hld : LfOk (delFbk s o l) := delFbk_lf hI.ix.sorted hI.ix.lf _ _
  -- facts about s2
  have key : s2.bits = s.bits ∧ Frame s s2 ∧ s2.tree.Pairwise KeyLt ∧ LfOk s2 ∧
      ∀ x, x ∈ s2.tree ↔ ((x = (o, a - o) ∧ a > o) ∨ (x = (a + n, o + l - (a + n)) ∧ o + l > a + n) ∨
        (x ≠ (o, l) ∧ x ∈ s.tree)) := by
    subst hs2
    simp only
    by_cases c1 : a > o
    · by_cases c2 : o + l > a + n
      · simp only [c1, c2, if_true]
        refine ⟨by rw [putFbk_bits, putFbk_bits, delFbk_bits],
          (delFbk_frame _ _ _).trans ((putFbk_frame _ _ _).trans (putFbk_frame _ _ _)),
          sorted_putFbk (sorted_putFbk hsd _ _) _ _, putFbk_lf (putFbk_lf hld _ _) _ _, ?_⟩
        intro x
        rw [mem_putFbk, mem_putFbk, mem_delFbk hI.ix.sorted]
        constructor
        · rintro (h | h | h)
          · exact Or.inr (Or.inl ⟨h, trivial⟩)
          · exact Or.inl ⟨h, trivial⟩
          · exact Or.inr (Or.inr h)
        · rintro (⟨h, _⟩ | ⟨h, _⟩ | h)
          · exact Or.inr (Or.inl h)
          · exact Or.inl h
          · exact Or.inr (Or.inr h)
      · simp only [c1, c2, if_true, if_false]
        refine ⟨by rw [putFbk_bits, delFbk_bits], (delFbk_frame _ _ _).trans (putFbk_frame _ _ _),
          sorted_putFbk hsd _ _, putFbk_lf hld _ _, ?_⟩
        intro x
        rw [mem_putFbk, mem_delFbk hI.ix.sorted]
        constructor
        · rintro (h | h)
          · exact Or.inl ⟨h, trivial⟩
          · exact Or.inr (Or.inr h)
        · rintro (⟨h, _⟩ | ⟨_, h⟩ | h)
          · exact Or.inl h
          · exact h.elim
          · exact Or.inr h
    · by_cases c2 : o + l > a + n
      · simp only [c1, c2, if_true, if_false]
        refine ⟨by rw [putFbk_bits, delFbk_bits], (delFbk_frame _ _ _).trans (putFbk_frame _ _ _),
          sorted_putFbk hsd _ _, putFbk_lf hld _ _, ?_⟩
        intro x
        rw [mem_putFbk, mem_delFbk hI.ix.sorted]
        constructor
        · rintro (h | h)
          · exact Or.inr (Or.inl ⟨h, trivial⟩)
          · exact Or.inr (Or.inr h)
        · rintro (⟨_, h⟩ | ⟨h, _⟩ | h)
          · exact h.elim
          · exact Or.inl h
          · exact Or.inr h
      · simp only [c1, c2, if_false]
        refine ⟨delFbk_bits _ _ _, delFbk_frame _ _ _, hsd, hld, ?_⟩
        intro x
        rw [mem_delFbk hI.ix.sorted]
        constructor
        · intro h; exact Or.inr (Or.inr h)
        · rintro (⟨_, h⟩ | ⟨_, h⟩ | h)
          · exact h.elim
          · exact h.elim
          · exact h
  obtain ⟨kb, kf, ks, kl, km⟩ := key
  refine ⟨⟨kf.bpow, kf.aunit, kf.hdrlen, kf.bmoff, kf.bmlen, kf.strict⟩, by simp only; rw [kb], ?_⟩
  refine ⟨ks, ?_, kl⟩
  intro o' l'
  simp only
  rw [kb, km, isRun_set hr hn ha hb, hI.ix.idx]
  simp only [Prod.mk.injEq, ne_eq]
  constructor
  · rintro (⟨⟨a1, a2⟩, a3⟩ | ⟨⟨a1, a2⟩, a3⟩ | ⟨a1, a2⟩)
    · exact Or.inl ⟨a1, a2, a3⟩
    · exact Or.inr (Or.inl ⟨a1, a2, a3⟩)
    · exact Or.inr (Or.inr ⟨a2, a1⟩)
  · rintro (⟨a1, a2, a3⟩ | ⟨a1, a2, a3⟩ | ⟨a1, a2⟩)
    · exact Or.inl ⟨⟨a1, a2⟩, a3⟩
    · exact Or.inr (Or.inl ⟨⟨a1, a2⟩, a3⟩)
    · exact Or.inr (Or.inr ⟨a2, a1⟩)

/-- setting bits inside a free run keeps the reserved blocks set and the geometry: the invariant carries over -/
theorem Taken.inv {s s' : St} {o l a n : Nat} (hI : Inv s) (h : Taken s s' o l a n) : Inv s' := by
  apply hI.of_frame h.frame h.ix (by rw [h.bits, size_setRange])
  intro i hi
  rw [h.bits, bit_setRange]
  split
  · rfl
  · rcases hi with c | c
    · exact hI.hdr.2 i c
    · exact hI.bm i c.1 c.2

theorem Taken.mono {s s' s'' : St} {o l a n : Nat} (h : Taken s s' o l a n) (ht : s''.tree = s'.tree)
    (hb : s''.bits = s'.bits) (h1 : s''.lfoff = s'.lfoff) (h2 : s''.lflen = s'.lflen) (hf : Frame s' s'') :
    Taken s s'' o l a n :=
  ⟨h.frame.trans hf, by rw [hb, h.bits], h.ix.congr ht hb h1 h2⟩

/-- `_fsm_blk_allocate_lw` on an index hit `(o, l)` with `len ≤ l`: succeeds at offset `o` with a length between the
    request and the extent (exactly the request with NO_OVERALLOCATE, whatever the heuristic says), the blocks are
    taken out of the free run, the index is again exact, and SOLID makes the file cover the region -/
theorem allocFound_spec (hr : Heur) {s : St} (hI : Inv s) {len o l : Nat} (f : Flags) (hlen : 0 < len)
    (hm : (o, l) ∈ s.tree) (hle : len ≤ l) :
    (allocFound hr s len f o l).2.1 = .ok ∧ (allocFound hr s len f o l).2.2.1 = o ∧
    len ≤ (allocFound hr s len f o l).2.2.2 ∧ (allocFound hr s len f o l).2.2.2 ≤ l ∧
    (f.noOver = true → (allocFound hr s len f o l).2.2.2 = len) ∧
    Taken s (allocFound hr s len f o l).1 o l o (allocFound hr s len f o l).2.2.2 ∧
    (f.solid = true → (o + (allocFound hr s len f o l).2.2.2) * bsz s ≤ (allocFound hr s len f o l).1.fsize) := by
  have hrun := (hI.ix.idx o l).mp hm
  have hend := hrun.end_le_size
  rw [hI.size] at hend
  unfold allocFound
  rw [delFbk2_eq_delFbk hm]
  simp only
  generalize hat : (decide (l > len) && !f.noOver && decide ((delFbk s o l).stats.num ≠ 0) &&
      hr.over (delFbk s o l).stats (l - len)) = attach
  have hat2 : attach = true → l > len ∧ f.noOver = false := by
    intro h; rw [h] at hat
    simp only [Bool.and_eq_true, decide_eq_true_eq, Bool.not_eq_true'] at hat
    exact ⟨hat.1.1.1, hat.1.1.2⟩
  -- the state before the bits are set, in the shape `taken_of` expects
  generalize hol : (if attach = true then l else len) = olen
  have holen : len ≤ olen ∧ olen ≤ l ∧ (attach = false → olen = len) ∧ (attach = true → olen = l) := by
    rw [← hol]; cases attach <;> simp <;> omega
  generalize hs2 : (if l > len ∧ (!attach) = true then putFbk (delFbk s o l) (o + len) (l - len) else delFbk s o l) = s2
  have hs2' : s2 = (let s1 := delFbk s o l
                    let s1 := if o > o then putFbk s1 o (o - o) else s1
                    if o + l > o + olen then putFbk s1 (o + olen) (o + l - (o + olen)) else s1) := by
    rw [← hs2]; simp only [Nat.lt_irrefl, gt_iff_lt, if_false]
    cases attach with
    | true =>
      have := holen.2.2.2 rfl
      have c : ¬ (o + olen < o + l) := by omega
      simp [c]
    | false =>
      have e0 := holen.2.2.1 rfl
      rw [e0]
      by_cases c : len < l
      · have c' : o + len < o + l := by omega
        have e : o + l - (o + len) = l - len := by omega
        simp [c, c', e]
      · have c' : ¬ (o + len < o + l) := by omega
        simp [c, c']
  have htk := taken_of hI hm (n := olen) (by omega) (Nat.le_refl o) (by omega) s2 hs2'
  have hbits2 : s2.bits = s.bits := by
    have := htk.bits; simp only at this
    -- bits of s2 itself: index primitives do not touch the bitmap
    rw [← hs2]; split
    · rw [putFbk_bits, delFbk_bits]
    · rw [delFbk_bits]
  have hfr2 : Frame s s2 := by
    rw [← hs2]; split
    · exact (delFbk_frame _ _ _).trans (putFbk_frame _ _ _)
    · exact delFbk_frame _ _ _
  have hsb : setBits s2 o olen true = ({ s2 with bits := setRange s2.bits o olen true }, .ok) := by
    apply setBits_ok (by rw [hfr2.nbits]; omega)
    intro i h1 h2
    rw [hbits2]; simpa using hrun.2.1 i h1 (by omega)
  rw [hsb]
  have hne : ¬ (Rc.ok ≠ Rc.ok) := by simp
  simp only [if_neg hne]
  refine ⟨trivial, trivial, holen.1, holen.2.1, ?_, ?_, ?_⟩
  · intro hno
    cases hc : attach with
    | true => have := (hat2 hc).2; rw [hno] at this; cases this
    | false => exact holen.2.2.1 hc
  · apply htk.mono
    · split <;> split <;> simp
    · split <;> split <;> simp
    · split <;> split <;> simp
    · split <;> split <;> simp
    · split <;> split <;> first | exact ensureSize_frame _ _ | exact ⟨rfl, rfl, rfl, rfl, rfl, rfl⟩ | (refine Frame.trans ?_ (ensureSize_frame _ _); exact ⟨rfl, rfl, rfl, rfl, rfl, rfl⟩)
  · intro hso
    simp only [hso, if_true]
    have hap : 0 < s.aunit := aunit_pos hI.au
    split
    · have := ensureSize_ge { s2 with bits := setRange s2.bits o olen true } ((o + olen) * bsz s2) (by simp only; rw [hfr2.aunit]; exact hap)
      rw [← hfr2.bsz]; exact this
    · have := ensureSize_ge { s2 with bits := setRange s2.bits o olen true, stats := updStats hr s2.stats len } ((o + olen) * bsz s2) (by simp only; rw [hfr2.aunit]; exact hap)
      rw [← hfr2.bsz]; exact this

theorem scanLowest_spec {au maxOff len : Nat} {t : List Ext} {best : Option Ext} {k : Ext}
    (h : scanLowest au maxOff len t best = some k) :
    (k ∈ t ∧ fitsAligned au maxOff len k = true) ∨ best = some k := by
  induction t generalizing best with
  | nil => simp only [scanLowest] at h; exact Or.inr h
  | cons x xs ih =>
    simp only [scanLowest] at h
    by_cases hc : (lowerThan x best && fitsAligned au maxOff len x) = true
    · rw [if_pos hc] at h
      rcases ih h with c | c
      · exact Or.inl ⟨List.mem_cons_of_mem _ c.1, c.2⟩
      · simp only [Option.some.injEq] at c; subst c
        simp only [Bool.and_eq_true] at hc
        exact Or.inl ⟨List.mem_cons_self .., hc.2⟩
    · rw [if_neg hc] at h
      rcases ih h with c | c
      · exact Or.inl ⟨List.mem_cons_of_mem _ c.1, c.2⟩
      · exact Or.inr c

theorem pickAligned_spec {s : St} {len maxOff : Nat} {k : Ext} (h : pickAligned s len maxOff = some k) :
    k ∈ s.tree ∧ fitsAligned (aunitBlk s) maxOff len k = true := by
  unfold pickAligned at h
  simp only at h
  split at h
  · cases h
  · rename_i k0 hk0
    have hm0 : k0 ∈ s.tree := by
      split at hk0
      · rename_i k1 h1; simp only [Option.some.injEq] at hk0; subst hk0; exact (findMatching_spec h1).1
      · exact (findMatching_spec hk0).1
    by_cases c : fitsAligned (aunitBlk s) maxOff len k0 = true
    · simp only [c, if_true, Option.some.injEq] at h; subst h; exact ⟨hm0, c⟩
    · simp only [c] at h
      rcases scanLowest_spec h with d | d
      · exact d
      · cases d

/-- `_fsm_blk_allocate_aligned_lw`: either NO_FREE_SPACE with the state untouched, or `len` blocks at a page-aligned
    offset `≤ maxOff` taken out of one free extent -/
theorem allocAligned_spec {s : St} (hI : Inv s) {len maxOff : Nat} (hlen : 0 < len) :
    ((allocAligned s len maxOff).2.1 = .noFree ∧ (allocAligned s len maxOff).1 = s) ∨
    ((allocAligned s len maxOff).2.1 = .ok ∧ ∃ o l, (o, l) ∈ s.tree ∧ o ≤ (allocAligned s len maxOff).2.2 ∧
      (allocAligned s len maxOff).2.2 + len ≤ o + l ∧
      Taken s (allocAligned s len maxOff).1 o l (allocAligned s len maxOff).2.2 len ∧
      (allocAligned s len maxOff).2.2 % aunitBlk s = 0 ∧ (allocAligned s len maxOff).2.2 ≤ maxOff) := by
  unfold allocAligned
  cases hp : pickAligned s len maxOff with
  | none => exact Or.inl ⟨rfl, rfl⟩
  | some k =>
    right
    obtain ⟨hm, hfit⟩ := pickAligned_spec hp
    obtain ⟨o, l⟩ := k
    unfold fitsAligned at hfit
    simp only [Bool.and_eq_true, decide_eq_true_eq] at hfit
    obtain ⟨⟨f1, f2⟩, f3⟩ := hfit
    have f0 : o ≤ roundup o (aunitBlk s) := le_roundup o hI.au
    generalize hno : roundup o (aunitBlk s) = noff at f0 f1 f2 f3
    have hrun := (hI.ix.idx o l).mp hm
    have hend := hrun.end_le_size
    rw [hI.size] at hend
    -- the state after `carve`, in the shape `taken_of` expects
    have hcarve : carve s (o, l) len =
        ((let s1 := delFbk s o l
          let s1 := if noff > o then putFbk s1 o (noff - o) else s1
          if o + l > noff + len then putFbk s1 (noff + len) (o + l - (noff + len)) else s1), noff) := by
      unfold carve
      simp only [hno]
      by_cases c : l - (noff - o) > len
      · have c' : o + l > noff + len := by omega
        have e : l - (noff - o) - len = o + l - (noff + len) := by omega
        simp only [c, c', if_true, e]
      · have c' : ¬ (o + l > noff + len) := by omega
        simp only [c, c', if_false]
    simp only [hcarve]
    generalize hs2 : (if o + l > noff + len then
        putFbk (if noff > o then putFbk (delFbk s o l) o (noff - o) else delFbk s o l) (noff + len) (o + l - (noff + len))
      else if noff > o then putFbk (delFbk s o l) o (noff - o) else delFbk s o l) = s2
    have htk := taken_of hI hm (a := noff) (n := len) hlen f0 (by omega) s2 (by rw [← hs2])
    have hbits2 : s2.bits = s.bits := by
      rw [← hs2]; repeat' split
      all_goals simp only [putFbk_bits, delFbk_bits]
    have hfr2 : Frame s s2 := by
      rw [← hs2]; repeat' split
      · exact (delFbk_frame _ _ _).trans ((putFbk_frame _ _ _).trans (putFbk_frame _ _ _))
      · exact (delFbk_frame _ _ _).trans (putFbk_frame _ _ _)
      · exact (delFbk_frame _ _ _).trans (putFbk_frame _ _ _)
      · exact delFbk_frame _ _ _
    have hsb : setBits s2 noff len true = ({ s2 with bits := setRange s2.bits noff len true }, .ok) := by
      apply setBits_ok (by rw [hfr2.nbits]; omega)
      intro i h1 h2
      rw [hbits2]; simpa using hrun.2.1 i (by omega) (by omega)
    rw [hsb]
    refine ⟨rfl, o, l, hm, f0, by omega, htk, ?_, f1⟩
    rw [← hno]; exact roundup_mod _ _

end IwModel.Fsm
