import IwModel.Model.Binn
/-! Helper lemmas about the binn writer/reader model: what the reader sees on the writer's output. -/
namespace IwModel.Binn
open IwModel.Gen.Binn

/-! ## big endian fields -/

theorem beBytes_length (k n : Nat) : (beBytes k n).length = k := by
  induction k with
  | zero => rfl
  | succ k ih => simp [beBytes, ih]

theorem foldl_beBytes (k n a : Nat) :
    (beBytes k n).foldl (fun a b => a * 256 + b) a = a * 256 ^ k + n % 256 ^ k := by
  induction k generalizing a with
  | zero => simp [beBytes, Nat.mod_one]
  | succ k ih =>
    simp only [beBytes, List.foldl_cons, ih]
    rw [Nat.mod_pow_succ, Nat.pow_succ]
    rw [Nat.add_mul, Nat.mul_assoc, Nat.mul_comm 256 (256 ^ k), Nat.mul_comm (256 ^ k) (n / 256 ^ k % 256)]
    omega

theorem beVal_beBytes (k n : Nat) : beVal (beBytes k n) = n % 256 ^ k := by
  simp [beVal, foldl_beBytes]

theorem beVal_take_beBytes (k n : Nat) (rest : Bytes) : beVal ((beBytes k n ++ rest).take k) = n % 256 ^ k := by
  rw [List.take_left' (beBytes_length k n), beVal_beBytes]

/-! ## the 1-or-4-byte field -/

theorem lenField_length (n : Nat) : (lenField n).length = if n > 127 then 4 else 1 := by
  unfold lenField; split <;> simp [beBytes_length]

theorem lenField_length_pos (n : Nat) : 0 < (lenField n).length := by
  rw [lenField_length]; split <;> omega

theorem readLen_lenField (n : Nat) (rest : Bytes) (h : n < 2 ^ 31) :
    readLen (lenField n ++ rest) = some (n, (lenField n).length) := by
  unfold lenField
  split
  · rename_i hn
    have hm : n % 2 ^ 31 = n := Nat.mod_eq_of_lt h
    rw [hm]
    have hb : beBytes 4 (n + 2 ^ 31) = [(n + 2 ^ 31) / 256 ^ 3 % 256, (n + 2 ^ 31) / 256 ^ 2 % 256,
        (n + 2 ^ 31) / 256 ^ 1 % 256, (n + 2 ^ 31) / 256 ^ 0 % 256] := rfl
    have hv := beVal_take_beBytes 4 (n + 2 ^ 31) rest
    rw [hb] at hv ⊢
    simp only [List.cons_append, List.nil_append, readLen]
    have h1 : (n + 2 ^ 31) / 256 ^ 3 % 256 ≥ 128 := by omega
    simp only [h1, if_true]
    simp only [List.cons_append, List.nil_append] at hv
    rw [hv]
    simp only [List.length_cons]
    have : (n + 2 ^ 31) % 256 ^ 4 % 2 ^ 31 = n := by omega
    simp only [this]
    simp
  · rename_i hn
    simp only [List.cons_append, List.nil_append, readLen]
    have : ¬ n ≥ 128 := by omega
    simp [this]

/-! ## headers -/

/-- the size field of a container, as a function of the count and the body length -/
def szField (count blen : Nat) : Bytes :=
  let s1 := if count > 127 then blen + 3 + 3 else blen + 3
  if s1 > 127 then beBytes 4 ((s1 + 3) % 2 ^ 31 + 2 ^ 31) else [s1]

theorem container_eq (ty count : Nat) (body : Bytes) :
    container ty count body = ty :: (szField count body.length ++ lenField count ++ body) := by
  simp [container, szField]

/-- the stored size is the total length -/
theorem szField_spec (count blen : Nat) (h : blen + 9 < 2 ^ 31) (rest : Bytes) :
    readLen (szField count blen ++ rest) =
      some (1 + (szField count blen).length + (lenField count).length + blen, (szField count blen).length) := by
  unfold szField
  simp only []
  by_cases hc : count > 127
  · simp only [hc, if_true]
    by_cases hs : blen + 3 + 3 > 127
    · simp only [hs, if_true]
      have := readLen_lenField (blen + 3 + 3 + 3) rest (by omega)
      have hl : lenField (blen + 3 + 3 + 3) = beBytes 4 ((blen + 3 + 3 + 3) % 2 ^ 31 + 2 ^ 31) := by
        unfold lenField; rw [if_pos (by omega)]
      rw [hl] at this
      rw [this, lenField_length, if_pos hc, beBytes_length]
      congr 2; omega
    · simp only [hs, if_false]
      have := readLen_lenField (blen + 3 + 3) rest (by omega)
      have hl : lenField (blen + 3 + 3) = [blen + 3 + 3] := by unfold lenField; rw [if_neg (by omega)]
      rw [hl] at this
      rw [this, lenField_length, if_pos hc]
      simp; omega
  · simp only [hc, if_false]
    by_cases hs : blen + 3 > 127
    · simp only [hs, if_true]
      have := readLen_lenField (blen + 3 + 3) rest (by omega)
      have hl : lenField (blen + 3 + 3) = beBytes 4 ((blen + 3 + 3) % 2 ^ 31 + 2 ^ 31) := by
        unfold lenField; rw [if_pos (by omega)]
      rw [hl] at this
      rw [this, lenField_length, if_neg hc, beBytes_length]
      congr 2; omega
    · simp only [hs, if_false]
      have := readLen_lenField (blen + 3) rest (by omega)
      have hl : lenField (blen + 3) = [blen + 3] := by unfold lenField; rw [if_neg (by omega)]
      rw [hl] at this
      rw [this, lenField_length, if_neg hc]
      simp; omega

theorem szField_length_le (count blen : Nat) : (szField count blen).length ≤ 4 ∧ 1 ≤ (szField count blen).length := by
  unfold szField; simp only []; split <;> split <;> simp [beBytes_length]

theorem container_length (ty count : Nat) (body : Bytes) :
    (container ty count body).length = 1 + (szField count body.length).length + (lenField count).length + body.length := by
  rw [container_eq]; simp; omega

/-- `IsValidBinnHeader` on a container the writer produced (whatever follows it) -/
theorem parseHeader_container (ty count : Nat) (body rest : Bytes)
    (hty : ty = BINN_LIST ∨ ty = BINN_OBJECT) (hc : count < 2 ^ 31) (hb : body.length + 9 < 2 ^ 31) :
    parseHeader (container ty count body ++ rest) =
      some ⟨ty, (container ty count body).length, count,
            1 + (szField count body.length).length + (lenField count).length⟩ := by
  rw [container_length, container_eq]
  simp only [List.cons_append, List.append_assoc, parseHeader]
  have ht : ty = BINN_LIST ∨ ty = BINN_MAP ∨ ty = BINN_OBJECT := by
    rcases hty with h | h <;> simp [h]
  rw [if_pos ht, szField_spec count body.length hb]
  simp only [List.drop_left']
  rw [readLen_lenField count _ hc]
  have h3 : ¬ (1 + (szField count body.length).length + (lenField count).length + body.length < MIN_BINN_SIZE) := by
    have := szField_length_le count body.length
    have := lenField_length_pos count
    simp only [MIN_BINN_SIZE]; omega
  simp only [if_neg h3]

/-! ## single values -/

theorem wrap64_range (i : Int) : -2 ^ 63 ≤ wrap64 i ∧ wrap64 i < 2 ^ 63 := by
  unfold wrap64
  simp only []
  have h1 : 0 ≤ i % (2 ^ 64 : Int) := Int.emod_nonneg _ (by decide)
  have h2 : i % (2 ^ 64 : Int) < 2 ^ 64 := Int.emod_lt_of_pos _ (by decide)
  split <;> omega

theorem wrap64_id (i : Int) (h : -2 ^ 63 ≤ i ∧ i < 2 ^ 63) : wrap64 i = i := by
  unfold wrap64
  simp only []
  split <;> omega

theorem take_cons_append1 (a : Nat) (rest : Bytes) : (a :: rest).take 1 = [a] := by simp

theorem getValue_encInt (i : Int) (rest : Bytes) :
    getValue (encInt i ++ rest) = some (.int (wrap64 i)) ∧ itemLen (encInt i ++ rest) = some (encInt i).length := by
  have hr := wrap64_range i
  unfold encInt
  simp only []
  generalize wrap64 i = v at hr ⊢
  have b2 : ∀ n, beBytes 2 n = [n / 256 % 256, n % 256] := fun n => by simp [beBytes]
  have b4 : ∀ n, beBytes 4 n = [n / 256 ^ 3 % 256, n / 256 ^ 2 % 256, n / 256 % 256, n % 256] := fun n => by
    simp [beBytes]
  have b8 : ∀ n, beBytes 8 n = [n / 256 ^ 7 % 256, n / 256 ^ 6 % 256, n / 256 ^ 5 % 256, n / 256 ^ 4 % 256,
      n / 256 ^ 3 % 256, n / 256 ^ 2 % 256, n / 256 % 256, n % 256] := fun n => by simp [beBytes]
  by_cases h0 : 0 ≤ v
  · simp only [h0, if_true]
    have hv : v = (v.toNat : Int) := by omega
    generalize v.toNat = n at hv
    subst hv
    by_cases c1 : n ≤ 255
    · simp [c1, getValue, itemLen, BINN_NULL, BINN_TRUE, BINN_FALSE, BINN_UINT8, BINN_STORAGE_NOBYTES, BINN_STORAGE_BYTE, beVal]
    · by_cases c2 : n ≤ 65535
      · have := beVal_take_beBytes 2 n rest
        simp only [b2] at this ⊢
        simp [c1, c2, getValue, itemLen, BINN_NULL, BINN_TRUE, BINN_FALSE, BINN_UINT8, BINN_INT8, BINN_UINT16,
          BINN_STORAGE_NOBYTES, BINN_STORAGE_BYTE, BINN_STORAGE_WORD] at this ⊢
        simp only [this]; omega
      · by_cases c3 : n ≤ 4294967295
        · have := beVal_take_beBytes 4 n rest
          simp only [b4] at this ⊢
          simp [c1, c2, c3, getValue, itemLen, BINN_NULL, BINN_TRUE, BINN_FALSE, BINN_UINT8, BINN_INT8, BINN_UINT16,
            BINN_INT16, BINN_UINT32, BINN_STORAGE_NOBYTES, BINN_STORAGE_BYTE, BINN_STORAGE_WORD, BINN_STORAGE_DWORD] at this ⊢
          simp only [this]; omega
        · have := beVal_take_beBytes 8 n rest
          simp only [b8] at this ⊢
          simp [c1, c2, c3, getValue, itemLen, BINN_NULL, BINN_TRUE, BINN_FALSE, BINN_UINT8, BINN_INT8, BINN_UINT16,
            BINN_INT16, BINN_UINT32, BINN_INT32, BINN_UINT64, BINN_INT64, BINN_STORAGE_NOBYTES, BINN_STORAGE_BYTE,
            BINN_STORAGE_WORD, BINN_STORAGE_DWORD, BINN_STORAGE_QWORD, signed] at this ⊢
          simp only [this]
          simp at hr
          omega
  · simp only [h0, if_false]
    by_cases c1 : -128 ≤ v
    · simp [c1, getValue, itemLen, BINN_NULL, BINN_TRUE, BINN_FALSE, BINN_UINT8, BINN_INT8, BINN_STORAGE_NOBYTES,
        BINN_STORAGE_BYTE, beVal, signed]
      omega
    · by_cases c2 : -32768 ≤ v
      · have := beVal_take_beBytes 2 (v + 65536).toNat rest
        simp only [b2] at this ⊢
        simp [c1, c2, getValue, itemLen, BINN_NULL, BINN_TRUE, BINN_FALSE, BINN_UINT8, BINN_INT8, BINN_UINT16, BINN_INT16,
          BINN_STORAGE_NOBYTES, BINN_STORAGE_BYTE, BINN_STORAGE_WORD, signed] at this ⊢
        simp only [this]; omega
      · by_cases c3 : -2147483648 ≤ v
        · have := beVal_take_beBytes 4 (v + 4294967296).toNat rest
          simp only [b4] at this ⊢
          simp [c1, c2, c3, getValue, itemLen, BINN_NULL, BINN_TRUE, BINN_FALSE, BINN_UINT8, BINN_INT8, BINN_UINT16,
            BINN_INT16, BINN_UINT32, BINN_INT32, BINN_STORAGE_NOBYTES, BINN_STORAGE_BYTE, BINN_STORAGE_WORD,
            BINN_STORAGE_DWORD, signed] at this ⊢
          simp only [this]; omega
        · have := beVal_take_beBytes 8 (v + 2 ^ 64).toNat rest
          simp only [b8] at this ⊢
          simp [c1, c2, c3, getValue, itemLen, BINN_NULL, BINN_TRUE, BINN_FALSE, BINN_UINT8, BINN_INT8, BINN_UINT16,
            BINN_INT16, BINN_UINT32, BINN_INT32, BINN_UINT64, BINN_INT64, BINN_STORAGE_NOBYTES, BINN_STORAGE_BYTE,
            BINN_STORAGE_WORD, BINN_STORAGE_DWORD, BINN_STORAGE_QWORD, signed] at this ⊢
          simp only [this]
          simp at hr
          omega

theorem cstr_length_le (s : Bytes) : (cstr s).length ≤ s.length := by
  induction s with
  | nil => simp [cstr]
  | cons b bs ih => unfold cstr; split <;> simp <;> omega

theorem cstr_id (s : Bytes) (h : ∀ b ∈ s, b ≠ 0) : cstr s = s := by
  induction s with
  | nil => rfl
  | cons b bs ih =>
    unfold cstr
    rw [if_neg (h b (by simp)), ih (fun x hx => h x (by simp [hx]))]

theorem cstr_idem (s : Bytes) : cstr (cstr s) = cstr s := by
  induction s with
  | nil => rfl
  | cons b bs ih =>
    by_cases hb : b = 0
    · simp [cstr, hb]
    · simp [cstr, hb, ih]

/-- the holder `GetValue` fills for an encoded value -/
def viewOf (v : JVal) : BVal :=
  match v with
  | .null => .null
  | .bool b => .bool b
  | .int i => .int (wrap64 i)
  | .f64 b => .f64 (b % 2 ^ 64)
  | .str s => .str (cstr s)
  | .arr xs => .cont ((enc (.arr xs)).getD [])
  | .obj ms => .cont ((enc (.obj ms)).getD [])

theorem encInt_length_pos (i : Int) : 0 < (encInt i).length := by
  unfold encInt; simp only []; repeat' split
  all_goals simp

theorem enc_length_pos (v : JVal) (bs : Bytes) (h : enc v = some bs) : 0 < bs.length := by
  cases v with
  | null => simp [enc] at h; subst h; simp
  | bool b => simp [enc] at h; subst h; simp
  | int i => simp [enc] at h; subst h; exact encInt_length_pos i
  | f64 b => simp [enc] at h; subst h; simp
  | str s => simp [enc, encStr] at h; subst h; simp
  | arr xs =>
    simp only [enc, Option.map_eq_some_iff] at h
    obtain ⟨b, _, rfl⟩ := h
    simp [container]
  | obj ms =>
    simp only [enc, Option.map_eq_some_iff] at h
    obtain ⟨b, _, rfl⟩ := h
    simp [container]

theorem encList_length (xs : List JVal) (b : Bytes) (h : encList xs = some b) : xs.length ≤ b.length := by
  induction xs generalizing b with
  | nil => simp
  | cons x xs ih =>
    unfold encList at h
    split at h
    · rename_i a b' ha hb
      simp only [Option.some.injEq] at h; subst h
      have := enc_length_pos x a ha
      have := ih b' hb
      simp; omega
    · simp at h

theorem encMembers_length (seen : List Bytes) (ms : List (Bytes × JVal)) (b : Bytes)
    (h : encMembers seen ms = some b) : ms.length ≤ b.length := by
  induction ms generalizing seen b with
  | nil => simp
  | cons m ms ih =>
    obtain ⟨k, v⟩ := m
    unfold encMembers at h
    split at h
    · simp at h
    · rename_i a ha
      split at h
      · simp at h
      · split at h
        · simp at h
        · rename_i b' hb
          simp only [Option.some.injEq] at h; subst h
          have := ih _ _ hb
          simp; omega

/-- `GetValue` and `AdvanceDataPos` at an encoded value, whatever follows -/
theorem getValue_enc (v : JVal) (bs rest : Bytes) (h : enc v = some bs) (hs : bs.length + 9 < 2 ^ 31) :
    getValue (bs ++ rest) = some (viewOf v) ∧ itemLen (bs ++ rest) = some bs.length := by
  cases v with
  | null =>
    simp [enc] at h; subst h
    simp [getValue, itemLen, viewOf, BINN_NULL, BINN_STORAGE_NOBYTES]
  | bool b =>
    simp [enc] at h; subst h
    cases b <;> simp [getValue, itemLen, viewOf, BINN_NULL, BINN_TRUE, BINN_FALSE, BINN_STORAGE_NOBYTES]
  | int i =>
    simp [enc] at h; subst h
    exact getValue_encInt i rest
  | f64 b =>
    simp [enc] at h; subst h
    have := beVal_take_beBytes 8 b rest
    have b8 : beBytes 8 b = [b / 256 ^ 7 % 256, b / 256 ^ 6 % 256, b / 256 ^ 5 % 256, b / 256 ^ 4 % 256,
      b / 256 ^ 3 % 256, b / 256 ^ 2 % 256, b / 256 % 256, b % 256] := by simp [beBytes]
    simp only [b8] at this ⊢
    simp [getValue, itemLen, viewOf, BINN_NULL, BINN_TRUE, BINN_FALSE, BINN_UINT8, BINN_INT8, BINN_UINT16,
      BINN_INT16, BINN_UINT32, BINN_INT32, BINN_UINT64, BINN_INT64, BINN_FLOAT64, BINN_STORAGE_NOBYTES, BINN_STORAGE_BYTE,
      BINN_STORAGE_WORD, BINN_STORAGE_DWORD, BINN_STORAGE_QWORD] at this ⊢
    simp only [this]
  | str s =>
    simp [enc, encStr] at h; subst h
    have hl : (cstr s).length < 2 ^ 31 := by simp at hs; omega
    have hr := readLen_lenField (cstr s).length (cstr s ++ 0 :: rest) hl
    simp [getValue, itemLen, viewOf, BINN_NULL, BINN_TRUE, BINN_FALSE, BINN_UINT8, BINN_INT8, BINN_UINT16,
      BINN_INT16, BINN_UINT32, BINN_INT32, BINN_UINT64, BINN_INT64, BINN_FLOAT64, BINN_STRING, BINN_STORAGE_NOBYTES,
      BINN_STORAGE_BYTE, BINN_STORAGE_WORD, BINN_STORAGE_DWORD, BINN_STORAGE_QWORD, BINN_STORAGE_STRING, hr]
    omega
  | arr xs =>
    have hv : viewOf (.arr xs) = .cont bs := by simp [viewOf, h]
    simp only [enc, Option.map_eq_some_iff] at h
    obtain ⟨body, hb, rfl⟩ := h
    have hlen := encList_length xs body hb
    have hcl := container_length BINN_LIST xs.length body
    have hsz := szField_length_le xs.length body.length
    have hlp := lenField_length_pos xs.length
    have hp := parseHeader_container BINN_LIST xs.length body rest (Or.inl rfl) (by omega) (by omega)
    rw [hv]
    constructor
    · have hg : getValue (container BINN_LIST xs.length body ++ rest) =
          match parseHeader (container BINN_LIST xs.length body ++ rest) with
          | none => none
          | some h => some (.cont ((container BINN_LIST xs.length body ++ rest).take h.size)) := by
        rw [container_eq]
        simp [getValue, BINN_LIST, BINN_NULL, BINN_TRUE, BINN_FALSE, BINN_UINT8, BINN_INT8, BINN_UINT16,
          BINN_INT16, BINN_UINT32, BINN_INT32, BINN_UINT64, BINN_INT64, BINN_FLOAT64, BINN_STRING]
        rfl
      rw [hg, hp]
      simp
    · rw [container_eq]
      have := szField_spec xs.length body.length (by omega) (lenField xs.length ++ body ++ rest)
      simp only [List.cons_append, List.append_assoc] at this ⊢
      simp [itemLen, BINN_LIST, BINN_STORAGE_NOBYTES, BINN_STORAGE_BYTE, BINN_STORAGE_WORD, BINN_STORAGE_DWORD,
        BINN_STORAGE_QWORD, BINN_STORAGE_STRING, BINN_STORAGE_CONTAINER, this]
      omega
  | obj ms =>
    have hv : viewOf (.obj ms) = .cont bs := by simp [viewOf, h]
    simp only [enc, Option.map_eq_some_iff] at h
    obtain ⟨body, hb, rfl⟩ := h
    have hlen := encMembers_length [] ms body hb
    have hcl := container_length BINN_OBJECT ms.length body
    have hsz := szField_length_le ms.length body.length
    have hlp := lenField_length_pos ms.length
    have hp := parseHeader_container BINN_OBJECT ms.length body rest (Or.inr rfl) (by omega) (by omega)
    rw [hv]
    constructor
    · have hg : getValue (container BINN_OBJECT ms.length body ++ rest) =
          match parseHeader (container BINN_OBJECT ms.length body ++ rest) with
          | none => none
          | some h => some (.cont ((container BINN_OBJECT ms.length body ++ rest).take h.size)) := by
        rw [container_eq]
        simp [getValue, BINN_OBJECT, BINN_LIST, BINN_NULL, BINN_TRUE, BINN_FALSE, BINN_UINT8, BINN_INT8, BINN_UINT16,
          BINN_INT16, BINN_UINT32, BINN_INT32, BINN_UINT64, BINN_INT64, BINN_FLOAT64, BINN_STRING]
        rfl
      rw [hg, hp]
      simp
    · rw [container_eq]
      have := szField_spec ms.length body.length (by omega) (lenField ms.length ++ body ++ rest)
      simp only [List.cons_append, List.append_assoc] at this ⊢
      simp [itemLen, BINN_OBJECT, BINN_STORAGE_NOBYTES, BINN_STORAGE_BYTE, BINN_STORAGE_WORD, BINN_STORAGE_DWORD,
        BINN_STORAGE_QWORD, BINN_STORAGE_STRING, BINN_STORAGE_CONTAINER, this]
      omega

/-! ## iteration over the items of a container -/

theorem advance_enc (v : JVal) (a b : Bytes) (h : enc v = some a) (hs : a.length + 9 < 2 ^ 31) :
    advance (a ++ b) = b := by
  unfold advance
  rw [(getValue_enc v a b h hs).2]
  simp only [List.length_append]
  split
  · simp
  · have : b.length = 0 := by omega
    simp [List.length_eq_zero_iff.mp this]

theorem listItems_encList (xs : List JVal) (body : Bytes) (h : encList xs = some body)
    (hs : body.length + 9 < 2 ^ 31) : listItems xs.length body = xs.map viewOf := by
  induction xs generalizing body with
  | nil => simp [listItems]
  | cons x xs ih =>
    unfold encList at h
    split at h
    · rename_i a b ha hb
      simp only [Option.some.injEq] at h; subst h
      have hpos := enc_length_pos x a ha
      simp only [List.length_append] at hs
      have hne : a ++ b ≠ [] := by
        intro hc; rw [List.append_eq_nil_iff] at hc; rw [hc.1] at hpos; simp at hpos
      simp only [List.length_cons, listItems, if_neg hne, List.map_cons]
      rw [(getValue_enc x a b ha (by omega)).1, advance_enc x a b ha (by omega), ih b hb (by omega)]
    · simp at h

theorem objItems_encMembers (seen : List Bytes) (ms : List (Bytes × JVal)) (body : Bytes)
    (h : encMembers seen ms = some body) (hs : body.length + 9 < 2 ^ 31) :
    objItems ms.length body = ms.map fun m => (m.1, viewOf m.2) := by
  induction ms generalizing seen body with
  | nil => simp [objItems]
  | cons m ms ih =>
    obtain ⟨k, v⟩ := m
    unfold encMembers at h
    split at h
    · simp at h
    · rename_i a ha
      split at h
      · simp at h
      · split at h
        · simp at h
        · rename_i b hb
          simp only [Option.some.injEq] at h; subst h
          have hpos := enc_length_pos v a ha
          simp only [List.length_cons, List.length_append] at hs
          have hlen : ¬ (k ++ a ++ b).length ≤ k.length := by simp; omega
          simp only [List.length_cons, objItems, if_neg hlen, List.map_cons]
          have hd : (k ++ a ++ b).drop k.length = a ++ b := by simp [List.append_assoc]
          have ht : (k ++ a ++ b).take k.length = k := by simp [List.append_assoc]
          rw [hd, ht, (getValue_enc v a b ha (by omega)).1, advance_enc v a b ha (by omega), ih _ b hb (by omega)]

/-- `binn_iter_init` on a container the writer produced -/
theorem iterInit_container (ty count : Nat) (body : Bytes)
    (hty : ty = BINN_LIST ∨ ty = BINN_OBJECT) (hc : count < 2 ^ 31) (hb : body.length + 9 < 2 ^ 31) :
    ∃ h, iterInit (container ty count body) = some (h, body) ∧ h.ty = ty ∧ h.count = count := by
  have hp := parseHeader_container ty count body [] hty hc hb
  simp only [List.append_nil] at hp
  refine ⟨⟨ty, (container ty count body).length, count,
            1 + (szField count body.length).length + (lenField count).length⟩, ?_, rfl, rfl⟩
  unfold iterInit
  rw [hp]
  simp only [List.take_length]
  rw [container_eq]
  congr 2
  have : (1 + (szField count body.length).length + (lenField count).length)
      = (ty :: (szField count body.length ++ lenField count)).length := by simp; omega
  rw [this]
  have : ty :: (szField count body.length ++ lenField count ++ body) =
      (ty :: (szField count body.length ++ lenField count)) ++ body := by simp
  rw [this, List.drop_left]

end IwModel.Binn
