import IwModel.Lemmas.ExfView3
/-! When a read through private windows differs from the flat array: the exact condition, call by call. -/
namespace IwModel.Exf
open IwModel

theorem view_layWrite_aux (st : St) (off : Int) (d : Bytes) (i : Nat) (h : PInv st) :
    ∀ res : Rc × Nat × St, layWrite st off d = res → i < res.2.2.fsize →
    view res.2.2.psize res.2.2.file res.2.2.slots i =
      if res.1 = .ok ∧ off.toNat ≤ i ∧ i < off.toNat + d.length then d.getD (i - off.toNat) 0
      else if droppedAt st.psize st.slots res.2.2.fsize i then st.file.getD i 0
      else view st.psize st.file st.slots i := by
  intro res hres hi'
  unfold layWrite at hres
  split at hres
  · subst hres
    simp only [reduceCtorEq, false_and, if_false]
    rw [droppedAt_same _ _ _ _ h.win]; simp
  · split at hres
    · subst hres
      simp only [reduceCtorEq, false_and, if_false]
      rw [droppedAt_same _ _ _ _ h.win]; simp
    · simp only [] at hres
      generalize hr : (if off.toNat + d.length > st.fsize then ensureSize st (off.toNat + d.length) else (Rc.ok, st)) = r at hres
      have hri : PInv r.2 ∧ (r.1 = .ok → off.toNat + d.length ≤ r.2.fsize) ∧ r.2.psize = st.psize ∧
          (∀ j, j < r.2.fsize → view r.2.psize r.2.file r.2.slots j =
            if droppedAt st.psize st.slots r.2.fsize j then st.file.getD j 0 else view st.psize st.file st.slots j) := by
        rw [← hr]; split
        · exact ⟨ensureSize_PInv _ _ h, ensureSize_ok_ge _ _ h.size.1, (ensureSize_keeps st _).1,
            fun j hj => view_ensureSize st _ j h.win hj⟩
        · exact ⟨h, fun _ => by show off.toNat + d.length ≤ st.fsize; omega, rfl,
            fun j _ => by rw [droppedAt_same _ _ _ _ h.win]; simp⟩
      obtain ⟨rc, st1⟩ := r
      simp only [] at hres hri
      by_cases hok : rc = .ok
      · subst hok
        simp only [ne_eq, not_true_eq_false, if_false] at hres
        subst hres
        simp only [true_and] at hi' ⊢
        have hd := hri.1.disk
        rw [view_lay st1.psize hri.1.size.1 st1.file st1.slots st1.fsize off.toNat d hri.1.win hri.1.align hri.1.size.2.1
          hri.1.disk i (by omega)]
        by_cases hin : off.toNat ≤ i ∧ i < off.toNat + d.length
        · rw [if_pos hin, if_pos hin]
        · rw [if_neg hin, if_neg hin, hri.2.2.2 i hi']
      · rw [if_pos hok] at hres
        subst hres
        simp only [] at hi' ⊢
        rw [if_neg (by intro hx; exact hok hx.1)]
        exact hri.2.2.2 i hi'

/-- **after a write** (below the new size): the written bytes where they were written; bytes whose overlay was dropped because
    growth changed the length of their window show the file again; everything else as before -/
theorem view_write (st : St) (off : Int) (d : Bytes) (i : Nat) (h : PInv st) (hi' : i < (write st off d).2.2.fsize) :
    view (write st off d).2.2.psize (write st off d).2.2.file (write st off d).2.2.slots i =
      if (write st off d).1 = .ok ∧ off.toNat ≤ i ∧ i < off.toNat + d.length then d.getD (i - off.toNat) 0
      else if droppedAt st.psize st.slots (write st off d).2.2.fsize i then st.file.getD i 0
      else view st.psize st.file st.slots i := by
  rw [write_eq_lay _ _ _ h] at hi' ⊢
  exact view_layWrite_aux st off d i h _ rfl hi'

/-! ## the flat expectation and the exact divergence -/

/-- what byte `i` of the flat array would be after the call, given the bytes `v` visible before it (`i` below the old and
    the new size): the plain meaning of write / copy / store; every other call leaves the array alone -/
def expect (st : St) (op : Op) (v : Nat → Nat) (i : Nat) : Nat :=
  match op with
  | .write off d =>
    if (write st off d).1 = .ok ∧ off.toNat ≤ i ∧ i < off.toNat + d.length then d.getD (i - off.toNat) 0 else v i
  | .copy off siz noff => if (copy st off siz noff).1 = .ok ∧ noff ≤ i ∧ i < noff + siz then v (off + (i - noff)) else v i
  | .mmapWrite so rel d =>
    if (mmapWrite st so rel d).1 = .ok ∧ so + rel ≤ i ∧ i < so + rel + d.length then d.getD (i - (so + rel)) 0 else v i
  | _ => v i

/-- **the exact condition under which byte `i` read after the call differs from the flat array** (finding C12-PRIV):
    * write / truncate / ensure_size: `i` was held in the overlay of a private window whose length the size change altered
      (the window is mapped anew), it is not overwritten by this very write, and the overlay byte differed from the file;
    * remove_mmap: the same for the overlay of the removed window;
    * copy through the file (not the mapped branch): for a destination byte held in an overlay, the overlay keeps its
      old value and that differs from the source byte readers saw; for any other destination byte, the *file* byte at the
      source differs from what readers saw there (the source byte is held in an overlay);
    * read, add_mmap, mmap store, mapped copy, remap_all: never. -/
def diverges (st : St) (op : Op) (i : Nat) : Prop :=
  match op with
  | .write off d =>
    ¬ ((write st off d).1 = .ok ∧ off.toNat ≤ i ∧ i < off.toNat + d.length) ∧
    droppedAt st.psize st.slots (write st off d).2.2.fsize i = true ∧
    st.file.getD i 0 ≠ view st.psize st.file st.slots i
  | .truncate size =>
    droppedAt st.psize st.slots (truncate st size).2.fsize i = true ∧ st.file.getD i 0 ≠ view st.psize st.file st.slots i
  | .ensure size =>
    droppedAt st.psize st.slots (ensureSize st size).2.fsize i = true ∧ st.file.getD i 0 ≠ view st.psize st.file st.slots i
  | .removeMmap o => inOvlOf st.psize st.slots o i = true ∧ st.file.getD i 0 ≠ view st.psize st.file st.slots i
  | .copy off siz noff =>
    (copy st off siz noff).1 = .ok ∧ copyMapped st off siz noff = false ∧ noff ≤ i ∧ i < noff + siz ∧
    (if inAnyOvl st.psize st.slots i then
       view st.psize st.file st.slots i ≠ view st.psize st.file st.slots (off + (i - noff))
     else st.file.getD (off + (i - noff)) 0 ≠ view st.psize st.file st.slots (off + (i - noff)))
  | _ => False

theorem ite_ne_right {c : Prop} [Decidable c] (a b : Nat) : (if c then a else b) ≠ b ↔ c ∧ a ≠ b := by
  by_cases h : c <;> simp [h]

/-- **`private_diverges_iff`, the core**: for every call on a state reachable with private windows, and every byte below the
    old and the new size, the byte a read returns afterwards differs from the flat expectation exactly when `diverges` holds -/
theorem view_diverges_iff (st : St) (op : Op) (i : Nat) (h : PInv st) (hc : 0 < st.cbuf)
    (hsrc : ∀ off siz noff, op = .copy off siz noff → off + siz ≤ st.fsize)
    (hi' : i < (exec st op).1.fsize) :
    view (exec st op).1.psize (exec st op).1.file (exec st op).1.slots i ≠
      expect st op (view st.psize st.file st.slots) i ↔ diverges st op i := by
  cases op with
  | write off d =>
    simp only [exec] at hi'
    simp only [exec, expect, diverges]
    rw [view_write st off d i h hi']
    by_cases hin : (write st off d).1 = .ok ∧ off.toNat ≤ i ∧ i < off.toNat + d.length
    · simp [hin]
    · rw [if_neg hin, if_neg hin, ite_ne_right]
      exact ⟨fun hx => ⟨hin, hx⟩, fun hx => hx.2⟩
  | read off n => simp [exec, expect, diverges]
  | copy off siz noff =>
    simp only [exec, expect, diverges]
    rw [view_copy st off siz noff i h hc (hsrc off siz noff rfl)]
    by_cases hin : (copy st off siz noff).1 = .ok ∧ noff ≤ i ∧ i < noff + siz
    · rw [if_pos hin, if_pos hin]
      by_cases hm : copyMapped st off siz noff = true
      · simp [hm]
      · have hm' : copyMapped st off siz noff = false := by simpa using hm
        rw [hm']
        simp only [Bool.false_eq_true, if_false, true_and, hin.1, hin.2.1, hin.2.2]
        by_cases hany : inAnyOvl st.psize st.slots i = true
        · simp [hany]
        · have hany' : inAnyOvl st.psize st.slots i = false := by simpa using hany
          simp [hany']
    · rw [if_neg hin, if_neg hin]
      simp only [ne_eq, not_true_eq_false, false_iff]
      intro hx
      exact hin ⟨hx.1, hx.2.2.1, hx.2.2.2.1⟩
  | truncate size =>
    simp only [exec] at hi'
    simp only [exec, expect, diverges]
    rw [view_truncate st size i h.win hi', ite_ne_right]
  | ensure size =>
    simp only [exec] at hi'
    simp only [exec, expect, diverges]
    rw [view_ensureSize st size i h.win hi', ite_ne_right]
  | addMmap off maxlen priv =>
    simp only [exec, expect, diverges, iff_false, ne_eq, Decidable.not_not]
    rcases addMmap_fresh st off maxlen priv with e | ⟨ns, out, hns, hins, e⟩
    · rw [e]
    · rw [e]
      exact view_insert st.psize st.file st.slots out st.fsize i ns h.win hins hns
  | removeMmap off =>
    simp only [exec, expect, diverges]
    unfold removeMmap
    cases hr : removeFirst off st.slots with
    | none =>
      simp only [ne_eq, not_true_eq_false, false_iff, not_and]
      intro hx
      exfalso
      unfold inOvlOf at hx
      cases hf : st.slots.find? (fun s => s.off == off) with
      | none => rw [hf] at hx; cases hx
      | some s =>
        have hs := List.mem_of_find?_eq_some hf
        have hso : s.off = off := by simpa using List.find?_some hf
        have : ∀ (l : List Slot), s ∈ l → removeFirst off l ≠ none := by
          intro l
          induction l with
          | nil => intro hm; cases hm
          | cons x xs ih =>
            intro hm
            unfold removeFirst
            by_cases hx' : x.off = off
            · simp [hx']
            · rw [if_neg hx']
              rcases List.mem_cons.mp hm with rfl | hm'
              · exact absurd hso hx'
              · cases hq : removeFirst off xs with
                | none => exact absurd hq (ih hm')
                | some o => simp
        exact this st.slots hs hr
    | some out =>
      simp only []
      rw [view_remove st.psize st.file st.slots out st.fsize off i h.win hr, ite_ne_right]
  | mmapWrite so rel d =>
    simp only [exec, expect, diverges, iff_false, ne_eq, Decidable.not_not]
    exact view_mmapWrite st so rel d i h
  | remapAll =>
    simp only [exec, expect, diverges, iff_false, ne_eq, Decidable.not_not]
    rw [view_remapAll st.psize st.file st.file st.slots st.fsize st.fsize i h.win rfl, droppedAt_same _ _ _ _ h.win]
    simp

/-! ## reads, and the general read-after-write -/

/-- a one-byte read below the size returns the view of that byte -/
theorem read_one (st : St) (i : Nat) (hw : WInv st.slots st.fsize) (hd : st.fsize ≤ st.file.length) (hi : i < st.fsize)
    (hb : (i : Int) + 1 ≤ offTMax) : read st i 1 = (.ok, [view st.psize st.file st.slots i]) := by
  rw [read_eq_lay st i 1 hw hd]
  unfold layRead
  rw [if_neg (by omega)]
  simp only [Int.toNat_natCast]
  rw [show min 1 (st.fsize - i) = 1 by omega]
  simp

theorem layWrite_ok_aux (st : St) (off : Int) (d : Bytes) (h : PInv st) :
    ∀ res : Rc × Nat × St, layWrite st off d = res → res.1 = .ok →
      0 ≤ off ∧ off + d.length ≤ offTMax ∧ off.toNat + d.length ≤ res.2.2.fsize := by
  intro res hres hok
  unfold layWrite at hres
  split at hres
  · subst hres; cases hok
  · rename_i hb
    split at hres
    · subst hres; cases hok
    · simp only [] at hres
      generalize hr : (if off.toNat + d.length > st.fsize then ensureSize st (off.toNat + d.length) else (Rc.ok, st)) = r at hres
      have hri : r.1 = .ok → off.toNat + d.length ≤ r.2.fsize := by
        rw [← hr]; split
        · exact ensureSize_ok_ge _ _ h.size.1
        · exact fun _ => by show off.toNat + d.length ≤ st.fsize; omega
      obtain ⟨rc, st1⟩ := r
      simp only [] at hres hri
      by_cases hrc : rc = .ok
      · subst hrc
        simp only [ne_eq, not_true_eq_false, if_false] at hres
        subst hres
        exact ⟨by omega, by omega, hri rfl⟩
      · rw [if_pos hrc] at hres
        subst hres
        exact absurd hok hrc

/-- **read after write, private windows included**: whatever the window layout (any number of private and shared windows,
    any sub-range, with or without growth), a successful write is read back exactly -/
theorem read_after_write_priv (st : St) (off : Int) (d : Bytes) (h : PInv st) (hok : (write st off d).1 = .ok) :
    read (write st off d).2.2 off d.length = (.ok, d) := by
  have hP : PInv (write st off d).2.2 := by
    have := exec_PInv st (.write off d) h
    simpa only [exec] using this
  have hf := layWrite_ok_aux st off d h _ (write_eq_lay st off d h).symm hok
  rw [read_eq_lay _ _ _ hP.win hP.disk]
  unfold layRead
  rw [if_neg (by omega)]
  rw [show min d.length ((write st off d).2.2.fsize - off.toNat) = d.length by omega]
  congr 1
  conv => rhs; rw [← map_range_getD d]
  apply List.map_congr_left
  intro k hk
  have hk' : k < d.length := by simpa using hk
  rw [view_write st off d _ h (by omega), if_pos ⟨hok, by omega, by omega⟩]
  congr 1; omega

/-- with shared windows only there is no overlay: the view is the file and nothing ever diverges -/
theorem view_shared (ps : Nat) (file : Bytes) (slots : List Slot) (i : Nat) (hs : AllShared slots) :
    view ps file slots i = file.getD i 0 := by
  apply view_of_none
  intro t ht
  simp [inOvl, hs t ht]

theorem shared_not_diverges (st : St) (op : Op) (i : Nat) (hs : AllShared st.slots) : ¬ diverges st op i := by
  have hno : ∀ t ∈ st.slots, inOvl st.psize t i = false := by
    intro t ht; simp [inOvl, hs t ht]
  have hdrop : ∀ fs, droppedAt st.psize st.slots fs i = false := by
    intro fs
    simp only [droppedAt, List.any_eq_false]
    intro t ht; simp [hno t ht]
  have hany : inAnyOvl st.psize st.slots i = false := by
    simp only [inAnyOvl, List.any_eq_false]
    intro t ht; simp [hno t ht]
  cases op with
  | write off d => simp [diverges, hdrop]
  | read off n => simp [diverges]
  | copy off siz noff =>
    simp only [diverges, hany, Bool.false_eq_true, if_false, view_shared _ _ _ _ hs]
    intro hx; exact hx.2.2.2.2 rfl
  | truncate size => simp [diverges, hdrop]
  | ensure size => simp [diverges, hdrop]
  | addMmap off maxlen priv => simp [diverges]
  | removeMmap off =>
    simp only [diverges, inOvlOf]
    cases hf : st.slots.find? (fun s => s.off == off) with
    | none => simp
    | some s => simp [hno s (List.mem_of_find?_eq_some hf)]
  | mmapWrite so rel d => simp [diverges]
  | remapAll => simp [diverges]

end IwModel.Exf
