import IwModel.Model.Re
/-! Lemmas about the regular-expression parser model (core Lean only): pattern reads stay inside the
C string, the node buffer of `2 * strlen` cells is never exhausted, the fuel `strlen + 2` is never used up. -/
namespace IwModel.Re

/-- `pat` holds a C string of length `n`: terminator at `n`, no NUL before it -/
def PatOk (pat : Bytes) (n : Nat) : Prop := pat[n]? = some 0 ∧ ∀ j c, j < n → pat[j]? = some c → c ≠ 0

theorem PatOk.read {pat : Bytes} {n j : Nat} (h : PatOk pat n) (hj : j ≤ n) : ∃ c, pat[j]? = some c := by
  have hlt : n < pat.length := (List.getElem?_eq_some_iff.mp h.1).1
  have : j < pat.length := by omega
  exact ⟨pat[j], by simp [this]⟩

theorem PatOk.lt {pat : Bytes} {n j c : Nat} (h : PatOk pat n) (hj : j ≤ n) (hc : pat[j]? = some c) (h0 : c ≠ 0) : j < n := by
  rcases Nat.lt_or_eq_of_le hj with hlt | heq
  · exact hlt
  · subst heq; rw [h.1] at hc; simp at hc; omega

theorem patOk_append (s : Bytes) (hs : ∀ b ∈ s, b ≠ 0) : PatOk (s ++ [0]) s.length := by
  refine ⟨by simp, ?_⟩
  intro j c hj hc
  rw [List.getElem?_append_left hj] at hc
  exact hs c (List.mem_of_getElem? hc)

theorem PatOk.ne_none {pat : Bytes} {n j : Nat} (h : PatOk pat n) (hj : j ≤ n) : pat[j]? ≠ none := by
  obtain ⟨c, hc⟩ := h.read hj; simp [hc]

theorem PatOk.eq_n {pat : Bytes} {n j : Nat} (h : PatOk pat n) (hj : j ≤ n) (hc : pat[j]? = some 0) : j = n := by
  rcases Nat.lt_or_eq_of_le hj with hlt | heq
  · exact absurd rfl (h.2 j 0 hlt hc)
  · exact heq

theorem clsScan_spec {pat : Bytes} {n : Nat} (hp : PatOk pat n) (frm i : Nat) (hi : i ≤ n) :
    clsScan pat frm i ≠ .oob ∧ clsScan pat frm i ≠ .fuel ∧ clsScan pat frm i ≠ .ub ∧
      ∀ to, clsScan pat frm i = .ok to → i ≤ to ∧ to < n := by
  fun_induction clsScan pat frm i
  all_goals
    have r0 := @PatOk.ne_none pat n
    have r1 := @PatOk.lt pat n
    grind

theorem digits_spec {pat : Bytes} {n : Nat} (hp : PatOk pat n) (i acc : Nat) (hi : i ≤ n) :
    digits pat i acc ≠ .oob ∧ digits pat i acc ≠ .fuel ∧ digits pat i acc ≠ .fail ∧
      ∀ v j, digits pat i acc = .ok (v, j) → i ≤ j ∧ j ≤ n := by
  fun_induction digits pat i acc
  all_goals
    have r0 := @PatOk.ne_none pat n
    have r1 := @PatOk.lt pat n
    grind

/-- what the parser guarantees about the trees it builds (and what the compiler relies on) -/
def NodeOk (pat : Bytes) : Node → Prop
  | .chr c => c ≠ 0
  | .cls _ frm to => clsScan pat frm frm = .ok to
  | .cat l r | .alt l r => NodeOk pat l ∧ NodeOk pat r
  | .quant nmin nmax _ q => NodeOk pat q ∧ ∀ m, nmax = some m → nmin ≤ m
  | .cap c => NodeOk pat c
  | _ => True

/-- acceptable outcomes of `parse_interval` started at `frm ≤ strlen` -/
def IvGood (n frm : Nat) : R (Option Interval) → Prop
  | .ok (some iv) => frm < iv.sp ∧ iv.sp ≤ n ∧ ∀ m, iv.nmax = some m → iv.nmin ≤ m
  | .ok none => True
  | .ub => True
  | _ => False

theorem intervalEnd_spec {pat : Bytes} {n : Nat} (hp : PatOk pat n) (frm nmin : Nat) (nmax : Option Nat) (i : Nat)
    (hi : i < n) (hf : frm ≤ i) (hm : ∀ m, nmax = some m → nmin ≤ m) :
    IvGood n frm (intervalEnd pat nmin nmax i) := by
  obtain ⟨q, hq⟩ := hp.read (j := i + 1) (by omega)
  have hlt := fun h0 => hp.lt (j := i + 1) (by omega) hq h0
  simp only [intervalEnd, hq]
  by_cases hq63 : q = 63
  · have := hlt (by omega)
    simp only [hq63, if_true, IvGood]
    exact ⟨by omega, by omega, hm⟩
  · simp only [hq63, if_false, IvGood]
    exact ⟨by omega, by omega, hm⟩

theorem interval_spec {pat : Bytes} {n : Nat} (hp : PatOk pat n) (frm : Nat) (hi : frm ≤ n) :
    IvGood n frm (interval pat frm) := by
  unfold interval
  have d1 := digits_spec hp frm 0 hi
  split
  · exact absurd ‹_› d1.1
  · exact absurd ‹_› d1.2.1
  · trivial
  · exact absurd ‹_› d1.2.2.1
  · rename_i nmin i h
    obtain ⟨hfi, hin⟩ := d1.2.2.2 _ _ h
    obtain ⟨c, hc⟩ := hp.read hin
    obtain ⟨f, hf⟩ := hp.read hi
    rw [hc, hf]
    dsimp only
    by_cases hc44 : c = 44
    · have hlt := hp.lt hin hc (by omega)
      obtain ⟨c1, hc1⟩ := hp.read (j := i + 1) (by omega)
      simp only [hc44, if_true, hc1]
      by_cases hx : f ≠ 44 ∧ c1 = 125
      · rw [if_pos hx]
        have := hp.lt (j := i + 1) (by omega) hc1 (by omega)
        exact intervalEnd_spec hp frm nmin none (i + 1) this (by omega) (by simp)
      · rw [if_neg hx]
        have d2 := digits_spec hp (i + 1) 0 (by omega)
        split
        · exact absurd ‹_› d2.1
        · exact absurd ‹_› d2.2.1
        · trivial
        · exact absurd ‹_› d2.2.2.1
        · rename_i nmax i2 h2
          obtain ⟨h2a, h2b⟩ := d2.2.2.2 _ _ h2
          obtain ⟨p, hp1⟩ := hp.read (j := i2 - 1) (by omega)
          obtain ⟨c2, hc2⟩ := hp.read h2b
          rw [hp1, hc2]
          dsimp only
          by_cases hy : p = 44 ∨ c2 ≠ 125 ∨ nmax < nmin
          · rw [if_pos hy]; trivial
          · rw [if_neg hy]
            have : i2 < n := hp.lt h2b hc2 (by omega)
            exact intervalEnd_spec hp frm nmin (some nmax) i2 this (by omega) (by intro m hm; injection hm with hm; omega)
    · rw [if_neg hc44]
      by_cases hz : f ≠ 125 ∧ c = 125
      · rw [if_pos hz]
        have : i < n := hp.lt hin hc (by omega)
        exact intervalEnd_spec hp frm nmin (some nmin) i this hfi (by intro m hm; injection hm with hm; omega)
      · rw [if_neg hz]; trivial

/-- acceptable outcomes of one `lexStep` at `sp ≤ strlen` -/
def StepGood (pat : Bytes) (n sp : Nat) (empty : Bool) : Step → Prop
  | .oob => False
  | .ub | .fail => True
  | .atom nd sp' => sp < sp' ∧ sp' ≤ n ∧ NodeOk pat nd
  | .quant a b _ sp' => sp < sp' ∧ sp' ≤ n ∧ empty = false ∧ ∀ m, b = some m → a ≤ m
  | .bar sp' | .opn sp' | .close sp' => sp' = sp + 1 ∧ sp < n
  | .eos sp' => sp' = n + 1 ∧ sp = n

theorem quantStep_spec {pat : Bytes} {n : Nat} (hp : PatOk pat n) (sp : Nat) (hsp : sp < n) (a : Nat) (b : Option Nat)
    (hab : ∀ m, b = some m → a ≤ m) : StepGood pat n sp false (quantStep pat sp a b) := by
  obtain ⟨q, hq⟩ := hp.read (j := sp + 1) (by omega)
  simp only [quantStep, hq]
  by_cases h : q = 63
  · have := hp.lt (j := sp + 1) (by omega) hq (by omega)
    simp only [h, if_true, StepGood]; exact ⟨by omega, by omega, trivial, hab⟩
  · simp only [h, if_false, StepGood]; exact ⟨by omega, by omega, trivial, hab⟩

theorem lexStep_spec {pat : Bytes} {n : Nat} (hp : PatOk pat n) (sp : Nat) (hsp : sp ≤ n) (empty : Bool) :
    StepGood pat n sp empty (lexStep pat sp empty) := by
  obtain ⟨ch, hch⟩ := hp.read hsp
  rw [lexStep.eq_1, hch]; dsimp only
  by_cases h0 : ch = 0
  · rw [if_pos h0]; subst h0
    have := hp.eq_n hsp hch
    exact ⟨by omega, this⟩
  rw [if_neg h0]
  have hlt : sp < n := hp.lt hsp hch h0
  have atomc : StepGood pat n sp empty (.atom (.chr ch) (sp + 1)) := ⟨by omega, by omega, h0⟩
  by_cases h1 : ch = 92
  · rw [if_pos h1]
    obtain ⟨c2, hc2⟩ := hp.read (j := sp + 1) (by omega)
    rw [hc2]; dsimp only
    by_cases h2 : c2 = 0
    · rw [if_pos h2]; trivial
    · rw [if_neg h2]
      have := hp.lt (j := sp + 1) (by omega) hc2 h2
      exact ⟨by omega, by omega, h2⟩
  rw [if_neg h1]
  by_cases h2 : ch = 46
  · rw [if_pos h2]; exact ⟨by omega, by omega, trivial⟩
  rw [if_neg h2]
  by_cases h3 : ch = 91
  · rw [if_pos h3]
    obtain ⟨c1, hc1⟩ := hp.read (j := sp + 1) (by omega)
    rw [hc1]; dsimp only
    have hfrm : (if c1 = 94 then sp + 2 else sp + 1) ≤ n := by
      split
      · rename_i h; have := hp.lt (j := sp + 1) (by omega) hc1 (by omega); omega
      · omega
    have hs := clsScan_spec hp (if c1 = 94 then sp + 2 else sp + 1) (if c1 = 94 then sp + 2 else sp + 1) hfrm
    split
    · rename_i to h
      have := hs.2.2.2 to h
      refine ⟨?_, by omega, h⟩
      have : sp + 1 ≤ (if c1 = 94 then sp + 2 else sp + 1) := by split <;> omega
      omega
    · exact absurd ‹_› hs.1
    · exact absurd ‹_› hs.2.1
    · trivial
    · trivial
  rw [if_neg h3]
  by_cases h4 : ch = 124
  · rw [if_pos h4]; exact ⟨rfl, hlt⟩
  rw [if_neg h4]
  by_cases h5 : ch = 63
  · rw [if_pos h5]
    cases empty
    · exact quantStep_spec hp sp hlt 0 (some 1) (by intro m hm; injection hm with hm; omega)
    · exact atomc
  rw [if_neg h5]
  by_cases h6 : ch = 42
  · rw [if_pos h6]
    cases empty
    · exact quantStep_spec hp sp hlt 0 none (by simp)
    · exact atomc
  rw [if_neg h6]
  by_cases h7 : ch = 43
  · rw [if_pos h7]
    cases empty
    · exact quantStep_spec hp sp hlt 1 none (by simp)
    · exact atomc
  rw [if_neg h7]
  by_cases h8 : ch = 123
  · rw [if_pos h8]
    cases empty
    · have hi := interval_spec hp (sp + 1) (by omega)
      simp only [Bool.false_eq_true, if_false]
      split
      · exact atomc
      · rename_i iv h
        rw [h] at hi
        exact ⟨by have := hi.1; omega, hi.2.1, rfl, hi.2.2⟩
      · rename_i h; rw [h] at hi; exact hi.elim
      · rename_i h; rw [h] at hi; exact hi.elim
      · trivial
      · trivial
    · exact atomc
  rw [if_neg h8]
  by_cases h9 : ch = 94
  · rw [if_pos h9]; exact ⟨by omega, by omega, trivial⟩
  rw [if_neg h9]
  by_cases h10 : ch = 36
  · rw [if_pos h10]; exact ⟨by omega, by omega, trivial⟩
  rw [if_neg h10]
  by_cases h11 : ch = 40
  · rw [if_pos h11]; exact ⟨rfl, hlt⟩
  rw [if_neg h11]
  by_cases h12 : ch = 41
  · rw [if_pos h12]; exact ⟨rfl, hlt⟩
  rw [if_neg h12]
  exact atomc

/-- cells `concatenate` will still push for a frame that holds `k` nodes -/
def pend (k : Nat) : Nat := if k = 0 then 1 else k - 1

theorem concatFold_spec (pat : Bytes) (cap : Nat) : ∀ (rest : List Node) (used : Nat) (acc : Node),
    used + rest.length ≤ cap → NodeOk pat acc → (∀ x ∈ rest, NodeOk pat x) →
    ∃ node, concatFold cap used acc rest = some (used + rest.length, node) ∧ NodeOk pat node := by
  intro rest
  induction rest with
  | nil => intro used acc _ ha _; exact ⟨acc, rfl, ha⟩
  | cons l rest ih =>
    intro used acc hc ha hr
    simp only [List.length_cons] at hc
    have hp : push cap used = some (used + 1) := by simp [push]; omega
    simp only [concatFold, hp]
    obtain ⟨node, h1, h2⟩ := ih (used + 1) (.cat l acc) (by omega) ⟨hr l (by simp), ha⟩ (fun x hx => hr x (by simp [hx]))
    exact ⟨node, by rw [h1]; simp only [List.length_cons]; congr 2; omega, h2⟩

theorem concat_spec (pat : Bytes) (cap used : Nat) (stk : List Node) (hc : used + pend stk.length ≤ cap)
    (hs : ∀ x ∈ stk, NodeOk pat x) :
    ∃ node, concat cap used stk = some (used + pend stk.length, node) ∧ NodeOk pat node ∧ (stk = [] → node = .eps) := by
  cases stk with
  | nil =>
    simp only [pend, List.length_nil, if_true] at hc ⊢
    have hp : push cap used = some (used + 1) := by simp [push]; omega
    exact ⟨.eps, by simp [concat, hp], trivial, fun _ => rfl⟩
  | cons top rest =>
    have hpk : pend (top :: rest).length = rest.length := by simp [pend]
    rw [hpk] at hc ⊢
    obtain ⟨node, h1, h2⟩ := concatFold_spec pat cap rest used top (by omega) (hs top (by simp)) (fun x hx => hs x (by simp [hx]))
    exact ⟨node, by simp only [concat, h1], h2, by simp⟩

theorem merge_spec (pat : Bytes) (cap used : Nat) (left right : Node) (h1 : 1 ≤ used) (hc : used ≤ cap)
    (hl : left.isEps = false → used < cap) (hnl : NodeOk pat left) (hnr : NodeOk pat right) :
    ∃ used' node, merge cap used left right = some (used', node) ∧ used - 1 ≤ used' ∧
      used' ≤ used + (if left.isEps then 0 else 1) ∧ NodeOk pat node := by
  unfold merge
  cases hle : left.isEps <;> cases hre : right.isEps <;> simp only [Bool.and_true, Bool.and_false, Bool.false_eq_true, if_false, if_true]
  · have hp : push cap used = some (used + 1) := by simp [push]; exact hl hle
    exact ⟨used + 1, .alt left right, by simp [hp], by omega, by omega, show NodeOk pat left ∧ NodeOk pat right from ⟨hnl, hnr⟩⟩
  · have hp : push cap (used - 1) = some (used - 1 + 1) := by simp [push]; omega
    exact ⟨used - 1 + 1, .quant 0 (some 1) true left, by simp [hp], by omega, by omega, show NodeOk pat left ∧ _ from ⟨hnl, by simp⟩⟩
  · have hp : push cap (used - 1) = some (used - 1 + 1) := by simp [push]; omega
    exact ⟨used - 1 + 1, .quant 0 (some 1) true right, by simp [hp], by omega, by omega, show NodeOk pat right ∧ _ from ⟨hnr, by simp⟩⟩
  · exact ⟨used - 1, _, rfl, by omega, by omega, hnl⟩


/-- acceptable outcomes of `parse_context` entered at `sp` with `used` cells occupied, `R` cells reserved
    for what the enclosing frames still have to push -/
def PctxGood (pat : Bytes) (n depth sp used : Nat) (emp : Prop) (res : Nat) : R (Nat × Nat × Node) → Prop
  | .oob | .fuel => False
  | .ub | .fail => True
  | .ok (sp', used', node) =>
    sp < sp' ∧ sp' ≤ n + 1 ∧ used ≤ used' ∧ (emp → used < used') ∧ used' + res ≤ 2 * min sp' n ∧ NodeOk pat node ∧
      (0 < depth → sp' ≤ n ∧ used' + res + 2 ≤ 2 * sp')

@[simp] theorem pend_zero : pend 0 = 1 := rfl
@[simp] theorem pend_succ (k : Nat) : pend (k + 1) = k := by simp [pend]

theorem PctxGood.weaken {pat : Bytes} {n depth sp used : Nat} {emp : Prop} {res : Nat} {r : R (Nat × Nat × Node)}
    {sp0 used0 : Nat} {emp0 : Prop} (h : PctxGood pat n depth sp used emp res r) (h1 : sp0 ≤ sp) (h2 : used0 ≤ used)
    (h3 : emp0 → used0 < used ∨ (used0 ≤ used ∧ emp)) : PctxGood pat n depth sp0 used0 emp0 res r := by
  match r, h with
  | .ub, _ => trivial
  | .fail, _ => trivial
  | .ok (sp', used', node), ⟨a, b, c, d, e, f, g⟩ =>
    refine ⟨by omega, b, by omega, ?_, e, f, g⟩
    intro he
    rcases h3 he with h | ⟨h, h'⟩
    · omega
    · have := d h'; omega

theorem pctx_spec {pat : Bytes} {n : Nat} (hp : PatOk pat n) (hn : 1 ≤ n) :
    ∀ (fuel depth sp used : Nat) (stk : List Node) (res : Nat),
      sp ≤ n → n + 2 ≤ fuel + sp → (sp = 0 → stk = []) → (0 < depth → 1 ≤ sp) →
      used + pend stk.length + res ≤ 2 * sp + (if sp = 0 then 1 else 0) →
      (∀ x ∈ stk, NodeOk pat x) →
      PctxGood pat n depth sp used (stk = []) res (pctx pat (2 * n) fuel depth sp used stk) := by
  intro fuel
  induction fuel with
  | zero => intro depth sp used stk res h1 h2; omega
  | succ fuel ih =>
    intro depth sp used stk res hsp hfuel h0 hdep hphi hstk
    have hs := lexStep_spec hp sp hsp stk.isEmpty
    -- the potential inequality in a form `omega` reads
    have hk0 : stk.length = 0 → pend stk.length = 1 := fun h => by rw [h]; rfl
    have hk1 : stk.length ≠ 0 → pend stk.length + 1 = stk.length := fun h => by
      obtain ⟨k, hk⟩ := Nat.exists_eq_succ_of_ne_zero h; rw [hk]; simp
    have hz : sp = 0 → stk.length = 0 := fun h => by rw [h0 h]; rfl
    have hphi1 : sp = 0 → used + pend stk.length + res ≤ 1 := fun h => by rw [if_pos h] at hphi; omega
    have hphi2 : sp ≠ 0 → used + pend stk.length + res ≤ 2 * sp := fun h => by rw [if_neg h] at hphi; omega
    have hemp : stk = [] ↔ stk.length = 0 := by cases stk <;> simp
    rw [pctx]
    cases hls : lexStep pat sp stk.isEmpty with
    | oob => rw [hls] at hs; exact hs.elim
    | ub => trivial
    | fail => trivial
    | atom nd sp' =>
      rw [hls] at hs
      obtain ⟨ha, hb, hc⟩ := hs
      dsimp only
      have hpush : push (2 * n) used = some (used + 1) := by
        simp only [push]; rw [if_pos]; omega
      rw [hpush]; dsimp only
      have := ih depth sp' (used + 1) (nd :: stk) res hb (by omega) (by omega) (by omega) (by
        rw [if_neg (by omega)]; simp only [List.length_cons, pend_succ]; omega)
        (by intro x hx; rcases List.mem_cons.mp hx with h | h; exact h ▸ hc; exact hstk x h)
      exact this.weaken (by omega) (by omega) (by intro _; left; omega)
    | quant a b g sp' =>
      rw [hls] at hs
      obtain ⟨ha, hb, hc, hd⟩ := hs
      dsimp only
      cases stk with
      | nil => simp at hc
      | cons q rest =>
        dsimp only
        simp only [List.length_cons] at hk0 hk1 hz hphi1 hphi2
        have hpush : push (2 * n) used = some (used + 1) := by
          simp only [push]; rw [if_pos]; omega
        rw [hpush]; dsimp only
        have := ih depth sp' (used + 1) (.quant a b g q :: rest) res hb (by omega) (by omega) (by omega) (by
          rw [if_neg (by omega)]; simp only [List.length_cons, pend_succ]; omega)
          (by intro x hx; rcases List.mem_cons.mp hx with h | h
              · rw [h]; exact ⟨hstk q (by simp), hd⟩
              · exact hstk x (by simp [h]))
        exact this.weaken (by omega) (by omega) (by intro h; simp at h)
    | close sp' =>
      rw [hls] at hs
      obtain ⟨ha, hb⟩ := hs
      dsimp only
      by_cases hd : depth > 0
      · rw [if_pos hd]
        have := hdep hd
        obtain ⟨node, h1, h2, h3⟩ := concat_spec pat (2 * n) used stk (by omega) hstk
        rw [h1]; dsimp only
        exact ⟨by omega, by omega, by omega, by intro h; have := hemp.mp h; omega, by omega, h2, fun _ => ⟨by omega, by omega⟩⟩
      · rw [if_neg hd]; trivial
    | eos sp' =>
      rw [hls] at hs
      obtain ⟨ha, hb⟩ := hs
      dsimp only
      by_cases hd : depth = 0
      · rw [if_pos hd]
        obtain ⟨node, h1, h2, h3⟩ := concat_spec pat (2 * n) used stk (by omega) hstk
        rw [h1]; dsimp only
        exact ⟨by omega, by omega, by omega, by intro h; have := hemp.mp h; omega, by omega, h2, fun h => by omega⟩
      · rw [if_neg hd]; trivial
    | opn sp' =>
      rw [hls] at hs
      obtain ⟨ha, hb⟩ := hs
      dsimp only
      have h1 := ih (depth + 1) sp' used [] (res + pend stk.length) (by omega) (by omega) (by omega) (by omega) (by
        rw [if_neg (by omega)]; simp only [List.length_nil, pend_zero]; omega) (by simp)
      cases hr : pctx pat (2 * n) fuel (depth + 1) sp' used [] with
      | oob => rw [hr] at h1; exact h1.elim
      | fuel => rw [hr] at h1; exact h1.elim
      | ub => trivial
      | fail => trivial
      | ok v =>
        obtain ⟨sp2, used2, node⟩ := v
        rw [hr] at h1
        obtain ⟨p1, p2, p3, p4, p5, p6, p7⟩ := h1
        obtain ⟨p8, p9⟩ := p7 (by omega)
        have p4 := p4 rfl
        dsimp only
        have hpush : push (2 * n) used2 = some (used2 + 1) := by
          simp only [push]; rw [if_pos]; omega
        rw [hpush]; dsimp only
        have := ih depth sp2 (used2 + 1) (.cap node :: stk) res p8 (by omega) (by omega) (by omega) (by
          rw [if_neg (by omega)]; simp only [List.length_cons, pend_succ]; omega)
          (by intro x hx; rcases List.mem_cons.mp hx with h | h; exact h ▸ p6; exact hstk x h)
        exact this.weaken (by omega) (by omega) (by intro _; left; omega)
    | bar sp' =>
      rw [hls] at hs
      obtain ⟨ha, hb⟩ := hs
      dsimp only
      obtain ⟨left, h1, h2, h3⟩ := concat_spec pat (2 * n) used stk (by omega) hstk
      rw [h1]; dsimp only
      have hn1 := ih depth sp' (used + pend stk.length) [] (res + (if stk.length = 0 then 0 else 1)) (by omega) (by omega) (by omega)
        (by omega) (by
        rw [if_neg (show ¬ sp' = 0 by omega)]; simp only [List.length_nil, pend_zero]; split <;> omega) (by simp)
      cases hr : pctx pat (2 * n) fuel depth sp' (used + pend stk.length) [] with
      | oob => rw [hr] at hn1; exact hn1.elim
      | fuel => rw [hr] at hn1; exact hn1.elim
      | ub => trivial
      | fail => trivial
      | ok v =>
        obtain ⟨sp2, used2, right⟩ := v
        rw [hr] at hn1
        obtain ⟨p1, p2, p3, p4, p5, p6, p7⟩ := hn1
        have p4 := p4 rfl
        dsimp only
        have hle : stk.length = 0 → left.isEps = true := fun h => by rw [h3 (hemp.mpr h)]; rfl
        obtain ⟨used3, node, m1, m2, m3, m4⟩ := merge_spec pat (2 * n) used2 left right (by omega) (by split at p5 <;> omega)
          (by intro hl
              have : stk.length ≠ 0 := fun h => by rw [hle h] at hl; simp at hl
              rw [if_neg this] at p5; omega) h2 p6
        rw [m1]; dsimp only
        have m3' : used3 + res ≤ used2 + (res + (if stk.length = 0 then 0 else 1)) := by
          by_cases hk : stk.length = 0
          · rw [hle hk] at m3; simp only [if_true] at m3; rw [if_pos hk]; omega
          · rw [if_neg hk]; split at m3 <;> omega
        refine ⟨by omega, p2, by omega, by intro h; have := hemp.mp h; omega, by omega, m4, ?_⟩
        intro hd
        have := p7 hd
        exact ⟨this.1, by omega⟩

theorem strlen_cstring (s : Bytes) (hs : ∀ b ∈ s, b ≠ 0) : strlen (s ++ [0]) = some s.length := by
  have : List.takeWhile (· ≠ 0) (s ++ [0]) = s := by
    rw [List.takeWhile_append_of_pos (by simpa using hs)]
    simp
  unfold strlen; rw [this]; simp

/-- acceptable outcomes of `cregex_parse` -/
def ParseGood (pat : Bytes) : R Node → Prop
  | .oob | .fuel => False
  | .ub | .fail => True
  | .ok node => NodeOk pat node

theorem parse_spec (s : Bytes) (hs : ∀ b ∈ s, b ≠ 0) (hne : s ≠ []) : ParseGood (s ++ [0]) (parse (s ++ [0])) := by
  have hp := patOk_append s hs
  have hn : 1 ≤ s.length := by cases s with | nil => exact absurd rfl hne | cons a t => simp
  rw [parse, strlen_cstring s hs]; dsimp only
  split
  · trivial
  · have h := pctx_spec hp hn ((s ++ [0]).length + 1) 0 0 0 [] 0 (by omega) (by simp) (by simp) (by omega) (by simp) (by simp)
    cases hr : pctx (s ++ [0]) (2 * s.length) ((s ++ [0]).length + 1) 0 0 0 [] with
    | oob => rw [hr] at h; exact h.elim
    | fuel => rw [hr] at h; exact h.elim
    | ub => trivial
    | fail => trivial
    | ok v =>
      obtain ⟨a, b, node⟩ := v
      rw [hr] at h
      exact h.2.2.2.2.2.1

/-- the guard of `iwre_create` is needed: on the empty pattern the parser stores the epsilon node into a
    buffer of `estimate_nodes("") = 0` cells -/
theorem parse_empty_oob : parse [0] = .oob := by
  simp [parse, strlen, pctx, lexStep, concat, push]


end IwModel.Re
