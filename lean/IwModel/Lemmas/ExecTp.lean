import IwModel.Lemmas.Exec
import IwModel.Lemmas.ExecAux
/-! Invariants of the thread-pool transition system and their preservation by every step. -/
namespace IwModel.Exec.Tp

structure InvQ (s : Tp) : Prop where
  fixed : s.v = {}
  qs_len : s.qsize = s.queue.length
  bound : s.limit ≠ 0 → s.queue.length ≤ s.limit

set_option maxHeartbeats 1000000 in
theorem invQ_step {s : Tp} (h : InvQ s) (l : Label) : InvQ (s.step l).1 := by
  obtain ⟨h1, h2, h3⟩ := h
  cases l with
  | call i c => simp only [step]; repeat' split
                all_goals exact ⟨h1, h2, h3⟩
  | spur th => cases th <;> simp only [step] <;> repeat' split
               all_goals exact ⟨h1, h2, h3⟩
  | step th sel =>
    cases th with
    | worker k =>
      simp only [step, workerStep]
      repeat' split
      all_goals (first | exact ⟨h1, h2, h3⟩ | (constructor <;> grind))
    | client i =>
      simp only [step, clientStep, ret, h1]
      repeat' split
      all_goals (first | exact ⟨h1, h2, h3⟩ | (constructor <;> grind))

structure InvH (s : Tp) : Prop where
  conserve : ∀ t, s.accepted.count t = s.started.count t + s.queue.count t + s.dropped.count t
  fifo : (s.started ++ s.queue).Sublist s.accepted
  running : ∀ t, s.started.count t = s.finished.count t + s.ws.count (.run t)

theorem worker_lt {s : Tp} {k : Nat} {pc : WPc} (h : s.worker k = pc) (hne : pc ≠ .exited) : k < s.ws.length := by
  unfold worker at h
  rw [List.getD_eq_getElem?_getD] at h
  by_cases hk : k < s.ws.length
  · exact hk
  · rw [List.getElem?_eq_none (by omega)] at h; exact absurd h.symm hne

set_option hygiene false in
macro "closeTH" : tactic => `(tactic| (
  have c1 := fun x a => count_setAt s.ws k x a
  have wl := @worker_lt s k
  have wd : s.worker k = s.ws.getD k .exited := rfl
  constructor <;> grind [Stw.sub_enq, Stw.sub_drop, Stw.sub_only, Stw.sub_pop, List.count_append]))

set_option hygiene false in
macro "closeTHc" : tactic => `(tactic| (
  have c1 := signalOne_count_run s.ws sel
  have c2 := signalOne_count_run (s.ws ++ [WPc.init true]) sel
  have c3 := count_map_wake_run s.ws
  constructor <;> grind [Stw.sub_enq, Stw.sub_drop, List.count_append]))

set_option maxHeartbeats 2000000 in
theorem invH_step {s : Tp} (hv : s.v = {}) (h : InvH s) (l : Label) : InvH (s.step l).1 := by
  obtain ⟨hc, hf, hr⟩ := h
  cases l with
  | call i c => simp only [step]; repeat' split
                all_goals exact ⟨hc, hf, hr⟩
  | spur th =>
    cases th with
    | worker k =>
      simp only [step]; repeat' split
      all_goals (first | exact ⟨hc, hf, hr⟩ | closeTH)
    | client i => exact ⟨hc, hf, hr⟩
  | step th sel =>
    cases th with
    | worker k =>
      simp only [step, workerStep]
      repeat' split
      all_goals (first | exact ⟨hc, hf, hr⟩ | closeTH)
    | client i =>
      simp only [step, clientStep, ret, hv]
      repeat' split
      all_goals (first | exact ⟨hc, hf, hr⟩ | closeTHc)

structure InvS (s : Tp) : Prop where
  nth_pos : 0 < s.nthreads
  no_init_false : ∀ k, s.worker k ≠ .init false
  reg_alive : s.shutdown = false → ∀ k, k < s.nthreads → s.worker k ≠ .exited
  ovf_nowait : ∀ k b, s.nthreads ≤ k → s.worker k ≠ .wait b
  sd_nowait : s.shutdown = true → ∀ k, s.worker k ≠ .wait false
  exit_empty : ∀ k, k < s.nthreads → s.worker k = .exited → s.shutdown = true ∧ s.queue = []
  witness : s.queue ≠ [] → ∃ k, k < s.nthreads ∧ wEnabled (s.worker k) = true
  c_noblock : ∀ t b, CPc.blocked t b ∉ s.clients
  c_join : ∀ j, CPc.joining j ∈ s.clients → s.shutdown = true

theorem client_mem {s : Tp} {i : Nat} {c : CPc} (h : s.client i = c) (hc : c ≠ .idle) : c ∈ s.clients := by
  unfold client at h
  rw [List.getD_eq_getElem?_getD] at h
  cases hg : s.clients[i]? with
  | none => simp [hg] at h; exact absurd h.symm hc
  | some x => simp [hg] at h; subst h; exact List.mem_of_getElem? hg

theorem wEnabled_wake (w : WPc) : wEnabled w = true → wEnabled (wakeWorker w) = true := by
  cases w <;> simp [wEnabled, wakeWorker]

set_option hygiene false in
macro "closeTSw" : tactic => `(tactic| (
  have g1 := fun j x => getD_setAt s.ws k j x WPc.exited
  have wd : ∀ j, s.worker j = s.ws.getD j .exited := fun _ => rfl
  constructor <;> grind [worker, wEnabled]))

set_option maxHeartbeats 4000000 in
theorem invS_step_worker {s : Tp} (hq : InvQ s) (h : InvS s) (k sel : Nat) : InvS (s.step (.step (.worker k) sel)).1 := by
  obtain ⟨hv, hq1, hq2⟩ := hq
  obtain ⟨h0, h1, h2, h3, h4, h5, h6, h7, h8⟩ := h
  simp only [step, workerStep]
  repeat' split
  all_goals (first | exact ⟨h0, h1, h2, h3, h4, h5, h6, h7, h8⟩ | closeTSw)

set_option hygiene false in
macro "closeTSc" : tactic => `(tactic| (
  have sg1 := signalOne_getD s.ws sel
  have sg2 := signalOne_getD (s.ws ++ [WPc.init true]) sel
  have ss1 := signalOne_some s.ws sel
  have ss2 := signalOne_some (s.ws ++ [WPc.init true]) sel
  have wt1 := witness_after_signal s.ws sel s.nthreads h0
  have wt2 := witness_after_signal_snoc s.ws sel s.nthreads h0
  generalize (signalOne s.ws sel).1 = r1 at *
  generalize (signalOne (s.ws ++ [WPc.init true]) sel).1 = r2 at *
  have g3 := fun j => getD_snoc s.ws (WPc.init true) WPc.exited j
  have g4 := getD_map_wake s.ws
  have ew := wEnabled_wake
  have hw := fun j => Stw.wake_cases (s.ws.getD j .exited)
  have cm := @client_mem s i
  have gd := fun j => getD_ge s.ws j WPc.exited
  simp only [worker] at *
  constructor <;> (try simp only [worker]) <;> grind [wEnabled, mem_setAt]))

set_option hygiene false in
macro "closeTSc0" : tactic => `(tactic| (
  have g4 := getD_map_wake s.ws
  have ew := wEnabled_wake
  have hw := fun j => Stw.wake_cases (s.ws.getD j .exited)
  have cm := @client_mem s i
  have gd := fun j => getD_ge s.ws j WPc.exited
  simp only [worker] at *
  constructor <;> (try simp only [worker]) <;> grind [wEnabled, mem_setAt]))

set_option maxHeartbeats 4000000 in
theorem invS_step_client {s : Tp} (hq : InvQ s) (h : InvS s) (i sel : Nat) : InvS (s.step (.step (.client i) sel)).1 := by
  obtain ⟨hv, hq1, hq2⟩ := hq
  obtain ⟨h0, h1, h2, h3, h4, h5, h6, h7, h8⟩ := h
  simp only [step, clientStep, ret, hv]
  repeat' split
  all_goals (first | exact ⟨h0, h1, h2, h3, h4, h5, h6, h7, h8⟩ | closeTSc0 | closeTSc)


set_option maxHeartbeats 1000000 in
theorem invS_step {s : Tp} (hq : InvQ s) (h : InvS s) (l : Label) : InvS (s.step l).1 := by
  cases l with
  | step th sel =>
    cases th with
    | worker k => exact invS_step_worker hq h k sel
    | client i => exact invS_step_client hq h i sel
  | call i c =>
    obtain ⟨h0, h1, h2, h3, h4, h5, h6, h7, h8⟩ := h
    simp only [step]; repeat' split
    all_goals (first | exact ⟨h0, h1, h2, h3, h4, h5, h6, h7, h8⟩ | (simp only [worker] at *; constructor <;> (try simp only [worker]) <;> grind [mem_setAt]))
  | spur th =>
    obtain ⟨h0, h1, h2, h3, h4, h5, h6, h7, h8⟩ := h
    cases th with
    | client i => exact ⟨h0, h1, h2, h3, h4, h5, h6, h7, h8⟩
    | worker k =>
      simp only [step]; repeat' split
      all_goals (first | exact ⟨h0, h1, h2, h3, h4, h5, h6, h7, h8⟩ | closeTSw)

structure InvJ (s : Tp) : Prop where
  reg_in : ∀ k, k < s.nthreads → k ∈ s.threads
  threads_reg : ∀ k, k ∈ s.threads ∨ s.worker k = .exited
  join_eq : s.shutdown = true → s.joinlist = s.threads
  join_prog : ∀ j, CPc.joining j ∈ s.clients → ∀ m, m < j → s.worker (s.joinlist.getD m 0) = .exited
  freed_all : s.freed = true → ∀ k, s.worker k = .exited

set_option hygiene false in
macro "closeTJw" : tactic => `(tactic| (
  have g1 := fun j x => getD_setAt s.ws k j x WPc.exited
  simp only [worker] at *
  constructor <;> (try simp only [worker]) <;> grind [List.mem_erase_of_ne]))

set_option maxHeartbeats 4000000 in
theorem invJ_step_worker {s : Tp} (hs : InvS s) (h : InvJ s) (k sel : Nat) : InvJ (s.step (.step (.worker k) sel)).1 := by
  obtain ⟨j1, j2, j3, j4, j5⟩ := h
  have hov := hs.c_join
  simp only [step, workerStep]
  repeat' split
  all_goals (first | exact ⟨j1, j2, j3, j4, j5⟩ | closeTJw)

set_option hygiene false in
macro "closeTJc" : tactic => `(tactic| (
  have sg1 := signalOne_getD s.ws sel
  have sg2 := signalOne_getD (s.ws ++ [WPc.init true]) sel
  generalize (signalOne s.ws sel).1 = r1 at *
  generalize (signalOne (s.ws ++ [WPc.init true]) sel).1 = r2 at *
  have g3 := fun j => getD_snoc s.ws (WPc.init true) WPc.exited j
  have g4 := getD_map_wake s.ws
  have gd := fun j => getD_ge s.ws j WPc.exited
  have hw := fun j => Stw.wake_cases (s.ws.getD j .exited)
  have cm := @client_mem s i
  simp only [worker] at *
  constructor <;> (try simp only [worker]) <;> grind [mem_setAt, List.mem_append]))

set_option hygiene false in
macro "closeTJc0" : tactic => `(tactic| (
  have cm := @client_mem s i
  simp only [worker] at *
  constructor <;> (try simp only [worker]) <;> grind [mem_setAt]))

set_option hygiene false in
macro "closeTJc1" : tactic => `(tactic| (
  have cm := @client_mem s i
  have fin := all_exited_of_joined s.ws s.threads s.joinlist
  have g4 := getD_map_wake s.ws
  have hw := fun j => Stw.wake_cases (s.ws.getD j .exited)
  simp only [worker] at *
  constructor <;> (try simp only [worker]) <;> grind [mem_setAt]))

theorem invJ_step_join {s : Tp} (hs : InvS s) (h : InvJ s) (i sel k : Nat) (hc : s.client i = .joining k) :
    InvJ (s.step (.step (.client i) sel)).1 := by
  obtain ⟨j1, j2, j3, j4, j5⟩ := h
  have hmem : CPc.joining k ∈ s.clients := client_mem hc (by simp)
  have hsd := hs.c_join k hmem
  simp only [step, clientStep, hc, ret]
  split
  · rename_i hex
    split
    · refine ⟨j1, j2, j3, ?_, j5⟩
      intro j hj m hm
      rcases mem_setAt hj with hj | hj
      · injection hj with hj; subst hj
        rcases Nat.lt_succ_iff_lt_or_eq.1 hm with h | h
        · exact j4 k hmem m h
        · subst h; exact hex
      · exact j4 j hj m hm
    · rename_i hlast
      have hall : ∀ k', s.worker k' = .exited := by
        apply all_exited_of_joined s.ws s.threads s.joinlist j2 (j3 hsd)
        intro m hm
        rcases Nat.lt_succ_iff_lt_or_eq.1 (show m < k + 1 by omega) with h | h
        · exact j4 k hmem m h
        · subst h; exact hex
      refine ⟨j1, j2, j3, ?_, fun _ => hall⟩
      intro j hj m hm
      rcases mem_setAt hj with hj | hj
      · cases hj
      · exact j4 j hj m hm
  · exact ⟨j1, j2, j3, j4, j5⟩

set_option maxHeartbeats 4000000 in
theorem invJ_step_client {s : Tp} (hv : s.v = {}) (hs : InvS s) (h : InvJ s) (i sel : Nat) : InvJ (s.step (.step (.client i) sel)).1 := by
  cases hc : s.client i with
  | joining k => exact invJ_step_join hs h i sel k hc
  | idle => simpa [step, clientStep, hc] using h
  | blocked t b => simpa [step, clientStep, hc] using h
  | enter c =>
    obtain ⟨j1, j2, j3, j4, j5⟩ := h
    have hov := hs.c_join
    simp only [step, clientStep, ret, hv, hc]
    repeat' split
    all_goals (first | exact ⟨j1, j2, j3, j4, j5⟩ | closeTJc0 | closeTJc1 | closeTJc)


set_option maxHeartbeats 1000000 in
theorem invJ_step {s : Tp} (hv : s.v = {}) (hs : InvS s) (h : InvJ s) (l : Label) : InvJ (s.step l).1 := by
  cases l with
  | step th sel =>
    cases th with
    | worker k => exact invJ_step_worker hs h k sel
    | client i => exact invJ_step_client hv hs h i sel
  | call i c =>
    obtain ⟨j1, j2, j3, j4, j5⟩ := h
    have hov := hs.c_join
    simp only [step]; repeat' split
    all_goals (first | exact ⟨j1, j2, j3, j4, j5⟩ | (simp only [worker] at *; constructor <;> (try simp only [worker]) <;> grind [mem_setAt]))
  | spur th =>
    obtain ⟨j1, j2, j3, j4, j5⟩ := h
    have hov := hs.c_join
    cases th with
    | client i => exact ⟨j1, j2, j3, j4, j5⟩
    | worker k =>
      simp only [step]; repeat' split
      all_goals (first | exact ⟨j1, j2, j3, j4, j5⟩ | closeTJw)

theorem not_running_of_all_exited (ws : List WPc) (h : ∀ k, ws.getD k .exited = .exited) (t : Task) :
    ws.count (.run t) = 0 := by
  apply List.count_eq_zero.2
  intro hm
  obtain ⟨k, hk, he⟩ := List.getElem_of_mem hm
  have := h k
  rw [List.getD_eq_getElem?_getD, List.getElem?_eq_getElem hk] at this
  simp [he] at this

/-- all invariants of the thread pool -/
structure Inv (s : Tp) : Prop where
  q : InvQ s
  h : InvH s
  sy : InvS s
  jn : InvJ s

theorem inv_init (nthreads limit factor n : Nat) (hn : 0 < nthreads) : Inv (init nthreads limit factor n) := by
  refine ⟨⟨rfl, rfl, by simp [init]⟩, ⟨by simp [init], by simp [init], ?_⟩, ?_, ?_⟩
  · intro t; simp [init, List.count_replicate]
  · have hw : ∀ k, (init nthreads limit factor n).worker k = if k < nthreads then .init true else .exited := by
      intro k
      simp only [worker, init, List.getD_eq_getElem?_getD, List.getElem?_replicate]
      split <;> rfl
    refine ⟨hn, ?_, ?_, ?_, ?_, ?_, ?_, ?_, ?_⟩
    · intro k; rw [hw]; split <;> simp
    · intro _ k hk; have hk' : k < nthreads := hk; rw [hw, if_pos hk']; simp
    · intro k b hk; have hk' : nthreads ≤ k := hk; rw [hw, if_neg (by omega)]; simp
    · intro h; simp [init] at h
    · intro k hk; have hk' : k < nthreads := hk; rw [hw, if_pos hk']; simp
    · intro h; simp [init] at h
    · intro t b; simp [init, List.mem_replicate]
    · intro j; simp [init, List.mem_replicate]
  · have hw : ∀ k, (init nthreads limit factor n).worker k = if k < nthreads then .init true else .exited := by
      intro k
      simp only [worker, init, List.getD_eq_getElem?_getD, List.getElem?_replicate]
      split <;> rfl
    refine ⟨?_, ?_, ?_, ?_, ?_⟩
    · intro k hk; have hk' : k < nthreads := hk; simp [init, hk']
    · intro k
      by_cases hk : k < nthreads
      · left; simp [init, hk]
      · right; rw [hw, if_neg hk]
    · intro h; simp [init] at h
    · intro j hj; simp [init, List.mem_replicate] at hj
    · intro h; simp [init] at h

theorem inv_step {s : Tp} (h : Inv s) (l : Label) : Inv (s.step l).1 :=
  ⟨invQ_step h.q l, invH_step h.q.fixed h.h l, invS_step h.q h.sy l, invJ_step h.q.fixed h.sy h.jn l⟩

theorem inv_run {s : Tp} (h : Inv s) (ls : List Label) : Inv (s.run ls) := by
  induction ls generalizing s with
  | nil => exact h
  | cons l ls ih => exact ih (inv_step h l)

end IwModel.Exec.Tp
