import IwModel.Model.Wal
/-! Helper lemmas about the WAL model: cutting the log commutes with decoding whatever still fits. -/
namespace IwModel.Wal
open IwModel IwModel.Gen.Wal

theorem headD_take (bs : Bytes) (k : Nat) (hk : 1 ≤ k) : (bs.take k).headD 0 = bs.headD 0 := by
  cases bs with
  | nil => simp
  | cons a t =>
    cases k with
    | zero => omega
    | succ k => simp

theorem tail_take (bs : Bytes) (k : Nat) : (bs.take (k + 1)).tail = bs.tail.take k := by
  cases bs <;> simp

theorem leN_take (w : Nat) : ∀ (bs : Bytes) (k : Nat), w ≤ k → leN w (bs.take k) = leN w bs := by
  induction w with
  | zero => intro bs k _; rfl
  | succ w ih =>
    intro bs k hk
    obtain ⟨k', rfl⟩ : ∃ k', k = k' + 1 := ⟨k - 1, by omega⟩
    simp only [leN]
    rw [headD_take bs (k' + 1) (by omega), tail_take, ih bs.tail k' (by omega)]

theorem fld_take (bs : Bytes) (off w k : Nat) (h : off + w ≤ k) : fld (bs.take k) off w = fld bs off w := by
  unfold fld
  rw [List.drop_take, leN_take w _ _ (by omega)]

/-- bytes of `rest` that have to be present for the record to be accepted -/
def need : Rec → Nat → Nat
  | .sep _ len, adv => adv + len
  | _, adv => adv

theorem parse_adv_pos {rest : Bytes} {r : Rec} {adv : Nat} (h : parse rest = some (r, adv)) : 4 ≤ adv := by
  unfold parse at h
  simp only [sz_WBSEP, sz_WBSET, sz_WBCOPY, sz_WBWRITE, sz_WBRESIZE, sz_WBSAVEPOINT, sz_WBRESET] at h
  grind

/-- a record that `parse` accepts lies inside the remaining bytes (marks excepted: they carry no data) -/
theorem parse_fits {rest : Bytes} {r : Rec} {adv : Nat} (h : parse rest = some (r, adv))
    (h1 : r ≠ .savepoint) (h2 : r ≠ .reset) : need r adv ≤ rest.length := by
  unfold parse at h
  simp only [sz_WBSEP, sz_WBSET, sz_WBCOPY, sz_WBWRITE, sz_WBRESIZE, sz_WBSAVEPOINT, sz_WBRESET] at h
  unfold need
  grind

theorem parse_take {rest : Bytes} {r : Rec} {adv : Nat} (k : Nat) (h : parse rest = some (r, adv))
    (hk : need r adv ≤ k) : parse (rest.take k) = some (r, adv) := by
  have h4 := parse_adv_pos h
  have hk1 : 1 ≤ k := by unfold need at hk; split at hk <;> omega
  unfold parse at h ⊢
  simp only [sz_WBSEP, sz_WBSET, sz_WBCOPY, sz_WBWRITE, sz_WBRESIZE, sz_WBSAVEPOINT, sz_WBRESET,
    off_WBSEP_len, w_WBSEP_len, off_WBSEP_crc, w_WBSEP_crc, off_WBSET_val, w_WBSET_val, off_WBSET_off, w_WBSET_off,
    off_WBSET_len, w_WBSET_len, off_WBCOPY_off, w_WBCOPY_off, off_WBCOPY_len, w_WBCOPY_len, off_WBCOPY_noff, w_WBCOPY_noff,
    off_WBWRITE_len, w_WBWRITE_len, off_WBWRITE_crc, w_WBWRITE_crc, off_WBWRITE_off, w_WBWRITE_off,
    off_WBRESIZE_osize, w_WBRESIZE_osize, off_WBRESIZE_nsize, w_WBRESIZE_nsize] at h ⊢
  rw [headD_take _ _ hk1, List.length_take]
  unfold need at hk
  have f1 : ∀ off w, off + w ≤ k → fld (rest.take k) off w = fld rest off w := fun off w hh => fld_take rest off w k hh
  grind

theorem parse_of_take {rest : Bytes} {r : Rec} {adv : Nat} (k : Nat) (h : parse (rest.take k) = some (r, adv)) :
    parse rest = some (r, adv) ∧ (r ≠ .savepoint → r ≠ .reset → need r adv ≤ k) := by
  have hk1 : 1 ≤ k := by
    cases k with
    | zero => simp [parse, WOP_SEP, WOP_SET, WOP_COPY, WOP_WRITE, WOP_RESIZE, WOP_SAVEPOINT, WOP_RESET] at h
    | succ k => omega
  unfold parse at h ⊢
  simp only [sz_WBSEP, sz_WBSET, sz_WBCOPY, sz_WBWRITE, sz_WBRESIZE, sz_WBSAVEPOINT, sz_WBRESET,
    off_WBSEP_len, w_WBSEP_len, off_WBSEP_crc, w_WBSEP_crc, off_WBSET_val, w_WBSET_val, off_WBSET_off, w_WBSET_off,
    off_WBSET_len, w_WBSET_len, off_WBCOPY_off, w_WBCOPY_off, off_WBCOPY_len, w_WBCOPY_len, off_WBCOPY_noff, w_WBCOPY_noff,
    off_WBWRITE_len, w_WBWRITE_len, off_WBWRITE_crc, w_WBWRITE_crc, off_WBWRITE_off, w_WBWRITE_off,
    off_WBRESIZE_osize, w_WBRESIZE_osize, off_WBRESIZE_nsize, w_WBRESIZE_nsize] at h ⊢
  rw [headD_take _ _ hk1, List.length_take] at h
  unfold need
  have f1 : ∀ off w, off + w ≤ k → fld (rest.take k) off w = fld rest off w := fun off w hh => fld_take rest off w k hh
  have e1 := f1 4 4; have e2 := f1 8 4; have e3 := f1 8 8; have e4 := f1 16 8; have e5 := f1 4 8
  have e6 := f1 12 8; have e7 := f1 20 8
  clear f1
  have hm1 : min k rest.length ≤ k := Nat.min_le_left ..
  have hm2 : min k rest.length ≤ rest.length := Nat.min_le_right ..
  generalize min k rest.length = ml at *
  split at h
  · grind
  · split at h
    · grind
    · split at h
      · grind
      · split at h
        · grind
        · grind

theorem take_drop_take (bs : Bytes) (k a l : Nat) (h : a + l ≤ k) : ((bs.take k).drop a).take l = (bs.drop a).take l := by
  rw [List.drop_take, List.take_take, Nat.min_eq_left (by omega)]

theorem parse_adv_eq {rest : Bytes} {r : Rec} {adv : Nat} (h : parse rest = some (r, adv)) :
    (∀ c l, r = .sep c l → adv = 12) ∧ (∀ c l o, r = .write c l o → adv = 20 + l) := by
  unfold parse at h
  simp only [sz_WBSEP, sz_WBSET, sz_WBCOPY, sz_WBWRITE, sz_WBRESIZE, sz_WBSAVEPOINT, sz_WBRESET] at h
  grind

theorem body_take {rest : Bytes} {r : Rec} {adv : Nat} (k : Nat)
    (h : parse rest = some (r, adv)) (hk : need r adv ≤ k) : body r (rest.take k) = body r rest := by
  have ⟨h1, h2⟩ := parse_adv_eq h
  cases r with
  | sep c l =>
    have := h1 c l rfl
    simp only [need] at hk
    simp only [body, sz_WBSEP]
    exact take_drop_take _ _ _ _ (by omega)
  | write c l o =>
    have := h2 c l o rfl
    simp only [need] at hk
    simp only [body, sz_WBWRITE]
    exact take_drop_take _ _ _ _ (by omega)
  | _ => rfl

theorem apply_take (cfg : Cfg) {rest : Bytes} {r : Rec} {adv : Nat} (k : Nat) (m : Bytes)
    (h : parse rest = some (r, adv)) (hk : need r adv ≤ k) : apply cfg r (rest.take k) m = apply cfg r rest m := by
  unfold apply; rw [body_take k h hk]

theorem drop_len_lt {rest : Bytes} {adv n : Nat} (h4 : 4 ≤ adv) (hne : rest.isEmpty = false) (hl : rest.length ≤ n + 1) :
    (rest.drop adv).length ≤ n := by
  have : rest.length ≠ 0 := by
    intro h0; have := List.eq_nil_of_length_eq_zero h0; subst this; simp at hne
  simp only [List.length_drop]; omega

theorem prescanAux_fuel (f1 : Nat) : ∀ (f2 : Nat) (rest : Bytes) (pos : Nat) (first : Bool) (fp rp : Nat),
    rest.length ≤ f1 → rest.length ≤ f2 →
    prescanAux f1 rest pos first fp rp = prescanAux f2 rest pos first fp rp := by
  induction f1 with
  | zero =>
    intro f2 rest pos first fp rp h1 h2
    have : rest = [] := List.eq_nil_of_length_eq_zero (by omega)
    subst this; cases f2 <;> simp [prescanAux]
  | succ n ih =>
    intro f2 rest pos first fp rp h1 h2
    cases f2 with
    | zero =>
      have : rest = [] := List.eq_nil_of_length_eq_zero (by omega)
      subst this; simp [prescanAux]
    | succ f2 =>
      simp only [prescanAux]
      cases he : rest.isEmpty with
      | true => simp
      | false =>
        simp only [Bool.false_eq_true, if_false]
        split
        · rfl
        · cases hp : parse rest with
          | none => rfl
          | some ra =>
            obtain ⟨r, adv⟩ := ra
            have h4 := parse_adv_pos hp
            have l1 := drop_len_lt h4 he h1
            have l2 := drop_len_lt h4 he h2
            simp only []
            split
            · split
              · rfl
              · exact ih _ _ _ _ _ _ l1 l2
            · split
              · split
                · rfl
                · exact ih _ _ _ _ _ _ l1 l2
              · exact ih _ _ _ _ _ _ l1 l2

theorem replayAux_fuel (cfg : Cfg) (stop : Nat) (f1 : Nat) : ∀ (f2 : Nat) (rest : Bytes) (pos : Nat) (first : Bool) (m : Bytes),
    rest.length ≤ f1 → rest.length ≤ f2 →
    replayAux cfg stop f1 rest pos first m = replayAux cfg stop f2 rest pos first m := by
  induction f1 with
  | zero =>
    intro f2 rest pos first m h1 h2
    have : rest = [] := List.eq_nil_of_length_eq_zero (by omega)
    subst this; cases f2 <;> simp [replayAux]
  | succ n ih =>
    intro f2 rest pos first m h1 h2
    cases f2 with
    | zero =>
      have : rest = [] := List.eq_nil_of_length_eq_zero (by omega)
      subst this; simp [replayAux]
    | succ f2 =>
      simp only [replayAux]
      cases he : rest.isEmpty with
      | true => simp
      | false =>
        simp only [Bool.false_eq_true, if_false]
        split
        · rfl
        · cases hp : parse rest with
          | none => rfl
          | some ra =>
            obtain ⟨r, adv⟩ := ra
            have h4 := parse_adv_pos hp
            have l1 := drop_len_lt h4 he h1
            have l2 := drop_len_lt h4 he h2
            simp only []
            split
            · rfl
            · split
              · exact ih _ _ _ _ _ l1 l2
              · rfl

theorem apply_mark_sp (cfg : Cfg) (rest m : Bytes) : apply cfg .savepoint rest m = (.ok, m) := rfl
theorem apply_mark_rs (cfg : Cfg) (rest m : Bytes) : apply cfg .reset rest m = (.ok, m) := rfl

/-- What the replay does on a cut log up to the savepoint the pre-scan of that cut log chose is what it
does on the uncut log up to that position. -/
theorem replayAux_cut (cfg : Cfg) (fuel : Nat) : ∀ (rest : Bytes) (k pos : Nat) (first : Bool) (fp rp : Nat) (m : Bytes),
    (prescanAux fuel (rest.take k) pos first fp rp).1 ≠ fp →
    replayAux cfg (prescanAux fuel (rest.take k) pos first fp rp).1 fuel (rest.take k) pos first m
      = replayAux cfg (prescanAux fuel (rest.take k) pos first fp rp).1 fuel rest pos first m := by
  induction fuel with
  | zero => intro rest k pos first fp rp m h; simp [prescanAux] at h
  | succ n ih =>
    intro rest k pos first fp rp m h
    generalize hf : (prescanAux (n + 1) (rest.take k) pos first fp rp).1 = f at h ⊢
    simp only [prescanAux] at hf
    cases he : (rest.take k).isEmpty with
    | true => simp [he] at hf; omega
    | false =>
      have hk1 : 1 ≤ k := by
        cases k with
        | zero => simp at he
        | succ k => omega
      have he2 : rest.isEmpty = false := by
        cases rest with
        | nil => simp at he
        | cons a t => rfl
      simp only [he, Bool.false_eq_true, if_false] at hf
      simp only [replayAux, he, he2, Bool.false_eq_true, if_false, headD_take _ _ hk1]
      split at hf
      · omega
      · rename_i hfirst
        simp only [headD_take _ _ hk1] at hfirst
        simp only [hfirst]
        cases hp : parse (rest.take k) with
        | none => simp [hp] at hf; omega
        | some ra =>
          obtain ⟨r, adv⟩ := ra
          have ⟨hp2, hneed⟩ := parse_of_take k hp
          simp only [hp] at hf
          simp only [hp2]
          have hdrop : (rest.take k).drop adv = (rest.drop adv).take (k - adv) := List.drop_take ..
          by_cases hsp : r = .savepoint
          · subst hsp
            simp only [if_true] at hf
            split at hf
            · omega
            · by_cases hst : f = pos
              · simp [hst]
              · simp only [true_and, hst, if_false, apply_mark_sp]
                rw [hdrop] at hf ⊢
                rw [← hf]
                exact ih _ _ _ _ _ _ _ (by rw [hf]; exact hst)
          · by_cases hrs : r = .reset
            · subst hrs
              simp only [hsp, if_false, if_true] at hf
              split at hf
              · omega
              · simp only [false_and, if_false, apply_mark_rs, reduceCtorEq]
                rw [hdrop] at hf ⊢
                rw [← hf]
                exact ih _ _ _ _ _ _ _ (by rw [hf]; exact h)
            · simp only [hsp, hrs, if_false] at hf
              simp only [hsp, false_and, if_false]
              rw [apply_take cfg k m hp2 (hneed hsp hrs)]
              rw [hdrop] at hf ⊢
              by_cases hrc : (apply cfg r rest m).fst = Rc.ok
              · simp only [hrc, if_true]
                rw [← hf]; exact ih _ _ _ _ _ _ _ (by rw [hf]; exact h)
              · simp only [hrc, if_false]

theorem walkAux_pos_ge (fuel : Nat) : ∀ (rest : Bytes) (pos p : Nat) (r : Rec), (p, r) ∈ walkAux fuel rest pos → pos ≤ p := by
  induction fuel with
  | zero => intro rest pos p r h; simp [walkAux] at h
  | succ n ih =>
    intro rest pos p r h
    simp only [walkAux] at h
    split at h
    · simp at h
    · split at h
      · simp at h
      · rename_i r' adv hp
        simp only [List.mem_cons, Prod.mk.injEq] at h
        rcases h with ⟨h1, _⟩ | h
        · omega
        · have := ih _ _ _ _ h; omega

theorem prescanAux_ge (fuel : Nat) : ∀ (rest : Bytes) (pos : Nat) (first : Bool) (fp rp : Nat),
    (prescanAux fuel rest pos first fp rp).1 = fp ∨ pos ≤ (prescanAux fuel rest pos first fp rp).1 := by
  induction fuel with
  | zero => intro rest pos first fp rp; left; rfl
  | succ n ih =>
    intro rest pos first fp rp
    simp only [prescanAux]
    split
    · left; rfl
    · split
      · left; rfl
      · split
        · left; rfl
        · rename_i r adv hp
          split
          · split
            · left; rfl
            · rcases ih (rest.drop adv) (pos + adv) false pos rp with h | h
              · right; rw [h]; omega
              · right; omega
          · split
            · split
              · left; rfl
              · rcases ih (rest.drop adv) (pos + adv) false fp pos with h | h
                · left; exact h
                · right; omega
            · rcases ih (rest.drop adv) (pos + adv) false fp rp with h | h
              · left; exact h
              · right; omega


/-- The savepoint the pre-scan of a cut log reports is a savepoint record of the uncut log that lies
completely inside the cut. -/
theorem prescanAux_cut_found (fuel : Nat) : ∀ (rest : Bytes) (k pos : Nat) (first : Bool) (fp rp : Nat),
    k ≤ rest.length →
    (prescanAux fuel (rest.take k) pos first fp rp).1 ≠ fp →
    ((prescanAux fuel (rest.take k) pos first fp rp).1, Rec.savepoint) ∈ walkAux fuel rest pos ∧
      (prescanAux fuel (rest.take k) pos first fp rp).1 + 12 ≤ pos + k := by
  induction fuel with
  | zero => intro rest k pos first fp rp _ h; simp [prescanAux] at h
  | succ n ih =>
    intro rest k pos first fp rp hkl h
    generalize hf : (prescanAux (n + 1) (rest.take k) pos first fp rp).1 = f at h ⊢
    simp only [prescanAux] at hf
    cases he : (rest.take k).isEmpty with
    | true => simp [he] at hf; omega
    | false =>
      have hk1 : 1 ≤ k := by
        cases k with
        | zero => simp at he
        | succ k => omega
      have he2 : rest.isEmpty = false := by
        cases rest with
        | nil => simp at he
        | cons a t => rfl
      simp only [he, Bool.false_eq_true, if_false] at hf
      split at hf
      · omega
      · cases hp : parse (rest.take k) with
        | none => simp [hp] at hf; omega
        | some ra =>
          obtain ⟨r, adv⟩ := ra
          have ⟨hp2, hneed⟩ := parse_of_take k hp
          have h4 := parse_adv_pos hp2
          simp only [hp] at hf
          simp only [walkAux, he2, Bool.false_eq_true, if_false, hp2, List.mem_cons, Prod.mk.injEq]
          have hdrop : (rest.take k).drop adv = (rest.drop adv).take (k - adv) := List.drop_take ..
          have hlen : (rest.take k).length = k := by simp; omega
          by_cases hsp : r = .savepoint
          · subst hsp
            have hadv : adv = 12 := by
              unfold parse at hp2
              simp only [sz_WBSEP, sz_WBSET, sz_WBCOPY, sz_WBWRITE, sz_WBRESIZE, sz_WBSAVEPOINT, sz_WBRESET] at hp2
              grind
            simp only [if_true, hlen, sz_WBSAVEPOINT] at hf
            split at hf
            · omega
            · rw [hdrop] at hf
              by_cases hst : f = pos
              · exact ⟨Or.inl ⟨hst, rfl⟩, by omega⟩
              · have := ih (rest.drop adv) (k - adv) (pos + adv) false pos rp (by simp; omega) (by rw [hf]; exact hst)
                rw [hf] at this
                exact ⟨Or.inr this.1, by omega⟩
          · by_cases hrs : r = .reset
            · subst hrs
              have hadv : adv = 4 := by
                unfold parse at hp2
                simp only [sz_WBSEP, sz_WBSET, sz_WBCOPY, sz_WBWRITE, sz_WBRESIZE, sz_WBSAVEPOINT, sz_WBRESET] at hp2
                grind
              simp only [hsp, if_false, if_true, hlen, sz_WBRESET] at hf
              split at hf
              · omega
              · rw [hdrop] at hf
                have := ih (rest.drop adv) (k - adv) (pos + adv) false fp pos (by simp; omega) (by rw [hf]; exact h)
                rw [hf] at this
                exact ⟨Or.inr this.1, by omega⟩
            · simp only [hsp, hrs, if_false] at hf
              rw [hdrop] at hf
              have hn := hneed hsp hrs
              have hna : adv ≤ need r adv := by unfold need; split <;> omega
              have := ih (rest.drop adv) (k - adv) (pos + adv) false fp rp (by simp; omega) (by rw [hf]; exact h)
              rw [hf] at this
              exact ⟨Or.inr this.1, by omega⟩

theorem parse_mark_adv {rest : Bytes} {r : Rec} {adv : Nat} (h : parse rest = some (r, adv)) :
    (r = .savepoint → adv = 12) ∧ (r = .reset → adv = 4) := by
  unfold parse at h
  simp only [sz_WBSEP, sz_WBSET, sz_WBCOPY, sz_WBWRITE, sz_WBRESIZE, sz_WBSAVEPOINT, sz_WBRESET] at h
  grind

/-- The pre-scan of a cut log does not stop before a savepoint record that lies completely inside the cut,
provided no separator before it announces a segment that reaches beyond that savepoint. -/
theorem prescanAux_cut_ge (fuel : Nat) : ∀ (rest : Bytes) (k pos : Nat) (first : Bool) (fp rp s : Nat),
    k ≤ rest.length → (first = true → rest.headD 0 = WOP_SEP) →
    (s, Rec.savepoint) ∈ walkAux fuel rest pos → s + 12 ≤ pos + k →
    (∀ p c l, (p, Rec.sep c l) ∈ walkAux fuel rest pos → p < s → p + 12 + l ≤ s + 12) →
    s ≤ (prescanAux fuel (rest.take k) pos first fp rp).1 := by
  induction fuel with
  | zero => intro rest k pos first fp rp s _ _ h; simp [walkAux] at h
  | succ n ih =>
    intro rest k pos first fp rp s hkl hfirst hmem hs hseg
    simp only [walkAux] at hmem hseg
    cases he2 : rest.isEmpty with
    | true => simp [he2] at hmem
    | false =>
      simp only [he2, Bool.false_eq_true, if_false] at hmem hseg
      cases hp2 : parse rest with
      | none => simp [hp2] at hmem
      | some ra =>
        obtain ⟨r, adv⟩ := ra
        simp only [hp2, List.mem_cons, Prod.mk.injEq] at hmem hseg
        have h4 := parse_adv_pos hp2
        have ⟨hsa, hra⟩ := parse_mark_adv hp2
        have ⟨hsepadv, _⟩ := parse_adv_eq hp2
        have hge := walkAux_pos_ge n (rest.drop adv) (pos + adv) s Rec.savepoint
        have hk12 : 12 ≤ k := by
          rcases hmem with ⟨h1, _⟩ | h
          · omega
          · have := hge h; omega
        have he : (rest.take k).isEmpty = false := by
          cases rest with
          | nil => simp at he2
          | cons a t =>
            cases k with
            | zero => omega
            | succ k => rfl
        have hlen : (rest.take k).length = k := by simp; omega
        have hfc : (first && (rest.take k).headD 0 != WOP_SEP) = false := by
          rw [headD_take _ _ (by omega)]
          cases first with
          | false => rfl
          | true => rw [hfirst rfl]; rfl
        have hdrop : (rest.take k).drop adv = (rest.drop adv).take (k - adv) := List.drop_take ..
        have hneed : need r adv ≤ k := by
          rcases hmem with ⟨h1, h2⟩ | h
          · subst h2; simp only [need]; have := hsa rfl; omega
          · have hsge := hge h
            cases r with
            | sep c l =>
              have := hseg pos c l (Or.inl ⟨rfl, rfl⟩) (by omega)
              have := hsepadv c l rfl
              simp only [need]; omega
            | _ => simp only [need]; omega
        have hna : adv ≤ need r adv := by unfold need; split <;> omega
        have hp := parse_take k hp2 hneed
        simp only [prescanAux, he, hfc, Bool.false_eq_true, if_false, hp, hlen, sz_WBSAVEPOINT, sz_WBRESET, hdrop]
        have hkl' : k - adv ≤ (rest.drop adv).length := by simp; omega
        by_cases hsp : r = .savepoint
        · subst hsp
          have := hsa rfl
          simp only [if_true]
          rw [if_neg (by omega)]
          rcases hmem with ⟨h1, _⟩ | h
          · rcases prescanAux_ge n ((rest.drop adv).take (k - adv)) (pos + adv) false pos rp with hh | hh
            · rw [hh]; omega
            · omega
          · exact ih _ _ _ _ _ _ _ hkl' (by simp) h (by omega) (fun p c l hm hlt => hseg p c l (Or.inr hm) hlt)
        · have hmem' : (s, Rec.savepoint) ∈ walkAux n (rest.drop adv) (pos + adv) := by
            rcases hmem with ⟨_, h2⟩ | h
            · exact absurd h2.symm hsp
            · exact h
          by_cases hrs : r = .reset
          · subst hrs
            have := hra rfl
            simp only [hsp, if_false, if_true]
            rw [if_neg (by omega)]
            exact ih _ _ _ _ _ _ _ hkl' (by simp) hmem' (by omega) (fun p c l hm hlt => hseg p c l (Or.inr hm) hlt)
          · simp only [hsp, hrs, if_false]
            exact ih _ _ _ _ _ _ _ hkl' (by simp) hmem' (by omega) (fun p c l hm hlt => hseg p c l (Or.inr hm) hlt)

/-- without reset marks in the uncut log the pre-scan of any cut reports no reset point -/
theorem prescanAux_cut_noreset (fuel : Nat) : ∀ (rest : Bytes) (k pos : Nat) (first : Bool) (fp rp : Nat),
    (∀ p, (p, Rec.reset) ∉ walkAux fuel rest pos) →
    (prescanAux fuel (rest.take k) pos first fp rp).2 = rp := by
  induction fuel with
  | zero => intro rest k pos first fp rp _; rfl
  | succ n ih =>
    intro rest k pos first fp rp hno
    simp only [prescanAux]
    split
    · rfl
    · rename_i he
      split
      · rfl
      · cases hp : parse (rest.take k) with
        | none => rfl
        | some ra =>
          obtain ⟨r, adv⟩ := ra
          have ⟨hp2, _⟩ := parse_of_take k hp
          have he2 : rest.isEmpty = false := by
            cases rest with
            | nil => simp at he
            | cons a t => rfl
          simp only [walkAux, he2, Bool.false_eq_true, if_false, hp2, List.mem_cons, Prod.mk.injEq, not_or] at hno
          have hdrop : (rest.take k).drop adv = (rest.drop adv).take (k - adv) := List.drop_take ..
          have hno' : ∀ p, (p, Rec.reset) ∉ walkAux n (rest.drop adv) (pos + adv) := fun p => (hno p).2
          simp only [hdrop]
          split
          · split
            · rfl
            · exact ih _ _ _ _ _ _ hno'
          · split
            · rename_i hrs
              exact absurd ⟨rfl, hrs.symm⟩ (hno pos).1
            · exact ih _ _ _ _ _ _ hno'

/-- if the complete roll-forward of a log succeeds, so does the roll-forward that stops at a savepoint -/
theorem replayAux_stop_ok (cfg : Cfg) (stop stop' : Nat) (fuel : Nat) : ∀ (rest : Bytes) (pos : Nat) (first : Bool) (m : Bytes),
    (∀ p, (p, Rec.savepoint) ∈ walkAux fuel rest pos → p ≠ stop') →
    (replayAux cfg stop' fuel rest pos first m).rc = .ok →
    (replayAux cfg stop fuel rest pos first m).rc = .ok := by
  induction fuel with
  | zero => intro rest pos first m _ _; rfl
  | succ n ih =>
    intro rest pos first m hns hok
    simp only [replayAux] at hok ⊢
    cases he : rest.isEmpty with
    | true => simp
    | false =>
      simp only [he, Bool.false_eq_true, if_false] at hok ⊢
      cases hfc : (first && rest.headD 0 != WOP_SEP) with
      | true => simp only [hfc, if_true] at hok; exact absurd hok (by decide)
      | false =>
        simp only [hfc, Bool.false_eq_true, if_false] at hok ⊢
        cases hp : parse rest with
        | none => simp [hp] at hok
        | some ra =>
          obtain ⟨r, adv⟩ := ra
          simp only [hp] at hok ⊢
          simp only [walkAux, he, Bool.false_eq_true, if_false, hp, List.mem_cons, Prod.mk.injEq] at hns
          by_cases hst : r = Rec.savepoint ∧ stop = pos
          · simp [hst]
          · simp only [hst, if_false]
            have hst' : ¬ (r = Rec.savepoint ∧ stop' = pos) := by
              intro ⟨h1, h2⟩
              exact hns pos (Or.inl ⟨rfl, h1.symm⟩) h2.symm
            simp only [hst', if_false] at hok
            by_cases hrc : (apply cfg r rest m).fst = Rc.ok
            · simp only [hrc, if_true] at hok ⊢
              exact ih _ _ _ _ (fun p hm => hns p (Or.inr hm)) hok
            · simp only [hrc, if_false] at hok

/-- header size of a decoded record -/
def hdr : Rec → Nat
  | .sep _ _ => 12 | .set _ _ _ => 24 | .copy _ _ _ => 28 | .write _ _ _ => 20 | .resize _ _ => 20 | .savepoint => 12 | .reset => 4

theorem take_take_of_le {α : Type} (l : List α) {a b : Nat} (h : a ≤ b) : (l.take b).take a = l.take a := by
  rw [List.take_take, Nat.min_eq_left h]

/-- two logs of the same length that agree on the header of the record at the read pointer decode it alike -/
theorem parse_congr {rest rest' : Bytes} {r : Rec} {adv : Nat} (k : Nat) (hlen : rest.length = rest'.length)
    (hag : rest.take k = rest'.take k) (h : parse rest = some (r, adv)) (hk : hdr r ≤ k) (hk1 : 1 ≤ k) :
    parse rest' = some (r, adv) := by
  have hh : rest'.headD 0 = rest.headD 0 := by rw [← headD_take rest' k hk1, ← hag, headD_take rest k hk1]
  have f1 : ∀ off w, off + w ≤ k → fld rest' off w = fld rest off w := by
    intro off w hw; rw [← fld_take rest' off w k hw, ← hag, fld_take rest off w k hw]
  unfold parse at h ⊢
  simp only [sz_WBSEP, sz_WBSET, sz_WBCOPY, sz_WBWRITE, sz_WBRESIZE, sz_WBSAVEPOINT, sz_WBRESET,
    off_WBSEP_len, w_WBSEP_len, off_WBSEP_crc, w_WBSEP_crc, off_WBSET_val, w_WBSET_val, off_WBSET_off, w_WBSET_off,
    off_WBSET_len, w_WBSET_len, off_WBCOPY_off, w_WBCOPY_off, off_WBCOPY_len, w_WBCOPY_len, off_WBCOPY_noff, w_WBCOPY_noff,
    off_WBWRITE_len, w_WBWRITE_len, off_WBWRITE_crc, w_WBWRITE_crc, off_WBWRITE_off, w_WBWRITE_off,
    off_WBRESIZE_osize, w_WBRESIZE_osize, off_WBRESIZE_nsize, w_WBRESIZE_nsize] at h ⊢
  rw [hh, ← hlen]
  have e1 := f1 4 4; have e2 := f1 8 4; have e3 := f1 8 8; have e4 := f1 16 8; have e5 := f1 4 8
  have e6 := f1 12 8; have e7 := f1 20 8
  clear f1
  unfold hdr at hk
  split at h
  · grind
  · split at h
    · grind
    · split at h
      · grind
      · split at h
        · grind
        · grind

theorem body_congr {rest rest' : Bytes} {r : Rec} {adv : Nat} (k : Nat)
    (hag : rest.take k = rest'.take k) (h : parse rest = some (r, adv)) (hk : need r adv ≤ k) :
    body r rest = body r rest' := by
  have h2 : parse rest' = parse rest' := rfl
  rw [← body_take k h hk, hag]
  have ⟨e1, e2⟩ := parse_adv_eq h
  cases r with
  | sep c l =>
    have := e1 c l rfl
    simp only [need] at hk
    simp only [body, sz_WBSEP]
    exact take_drop_take _ _ _ _ (by omega)
  | write c l o =>
    have := e2 c l o rfl
    simp only [need] at hk
    simp only [body, sz_WBWRITE]
    exact take_drop_take _ _ _ _ (by omega)
  | _ => rfl


theorem hdr_le_adv {rest : Bytes} {r : Rec} {adv : Nat} (h : parse rest = some (r, adv)) : hdr r ≤ adv := by
  unfold parse at h
  simp only [sz_WBSEP, sz_WBSET, sz_WBCOPY, sz_WBWRITE, sz_WBRESIZE, sz_WBSAVEPOINT, sz_WBRESET] at h
  unfold hdr
  grind

theorem isEmpty_congr {rest rest' : Bytes} (h : rest.length = rest'.length) : rest'.isEmpty = rest.isEmpty := by
  cases rest <;> cases rest' <;> simp_all

/-- Replay of a log in which the bytes covered by the checksum of the separator at `p` were changed (and nothing
before them): either the run stops at a savepoint before `p`, exactly as on the intact log, or it reaches the
separator and fails on the checksum. -/
theorem replayAux_corrupt (cfg : Cfg) (hcrc : cfg.crcOn = true) (stop s0 p c len : Nat) (hc : c ≠ 0) (fuel : Nat) :
    ∀ (rest rest' : Bytes) (pos : Nat) (first : Bool) (m : Bytes),
    rest.length = rest'.length → pos ≤ p →
    rest.take (p + 12 - pos) = rest'.take (p + 12 - pos) →
    (p, Rec.sep c len) ∈ walkAux fuel rest pos →
    (∀ q c' l', (q, Rec.sep c' l') ∈ walkAux fuel rest pos → q < p → q + 12 + l' ≤ p) →
    (∀ q, (q, Rec.savepoint) ∈ walkAux fuel rest pos → q ≠ s0) →
    (replayAux cfg s0 fuel rest pos first m).rc = .ok →
    cfg.crc ((rest'.drop (p - pos + 12)).take len) ≠ c →
    (replayAux cfg stop fuel rest' pos first m).rc = .corrupted ∨
      (stop < p ∧ (stop, Rec.savepoint) ∈ walkAux fuel rest pos ∧
        replayAux cfg stop fuel rest' pos first m = replayAux cfg stop fuel rest pos first m) := by
  induction fuel with
  | zero => intro rest rest' pos first m _ _ _ hmem; simp [walkAux] at hmem
  | succ n ih =>
    intro rest rest' pos first m hlen hpos hag hmem hdisj hs0 hvalid hbad
    simp only [walkAux] at hmem hdisj hs0
    cases he : rest.isEmpty with
    | true => simp [he] at hmem
    | false =>
      have he' : rest'.isEmpty = false := by rw [isEmpty_congr hlen]; exact he
      simp only [he, Bool.false_eq_true, if_false] at hmem hdisj hs0
      cases hp : parse rest with
      | none => simp [hp] at hmem
      | some ra =>
        obtain ⟨r, adv⟩ := ra
        simp only [hp, List.mem_cons, Prod.mk.injEq] at hmem hdisj hs0
        have h4 := parse_adv_pos hp
        have hk1 : 1 ≤ p + 12 - pos := by omega
        have hh : rest'.headD 0 = rest.headD 0 := by
          rw [← headD_take rest' _ hk1, ← hag, headD_take rest _ hk1]
        simp only [replayAux, he, Bool.false_eq_true, if_false] at hvalid
        cases hfc : (first && rest.headD 0 != WOP_SEP) with
        | true => simp only [hfc, if_true] at hvalid; exact absurd hvalid (by decide)
        | false =>
          simp only [hfc, Bool.false_eq_true, if_false, hp] at hvalid
          have hns0 : ¬ (r = Rec.savepoint ∧ s0 = pos) := fun ⟨h1, h2⟩ => hs0 pos (Or.inl ⟨rfl, h1.symm⟩) h2.symm
          simp only [hns0, if_false] at hvalid
          have hrc : (apply cfg r rest m).1 = Rc.ok := by
            by_cases hh' : (apply cfg r rest m).1 = Rc.ok
            · exact hh'
            · simp only [hh', if_false] at hvalid
          simp only [hrc, if_true] at hvalid
          rcases hmem with ⟨h1, h2⟩ | htail
          · -- the changed separator itself
            subst h1; subst h2
            have hp' : parse rest' = some (Rec.sep c len, adv) := parse_congr _ hlen hag hp (by simp [hdr]) hk1
            left
            simp only [replayAux, he', Bool.false_eq_true, if_false, hh, hfc, hp']
            have hb : cfg.crc (body (Rec.sep c len) rest') ≠ c := by
              have : p - p + 12 = 12 := by omega
              rw [this] at hbad
              simpa [body, sz_WBSEP] using hbad
            have hne : (cfg.crcOn && c != 0 && cfg.crc (body (Rec.sep c len) rest') != c) = true := by
              simp [hcrc, hc, hb]
            simp [apply, applyB, hne]
          · have hge := walkAux_pos_ge n _ _ _ _ htail
            have ⟨hsepadv, _⟩ := parse_adv_eq hp
            have hneed : need r adv ≤ p - pos := by
              cases r with
              | sep c' l' =>
                have := hdisj pos c' l' (Or.inl ⟨rfl, rfl⟩) (by omega)
                have := hsepadv c' l' rfl
                simp only [need]; omega
              | _ => simp only [need]; omega
            have hna : adv ≤ need r adv := by unfold need; split <;> omega
            have hhdr : hdr r ≤ p + 12 - pos := by
              have := hdr_le_adv hp; omega
            have hp' : parse rest' = some (r, adv) := parse_congr _ hlen hag hp hhdr hk1
            have hbody : body r rest = body r rest' := body_congr _ hag hp (by omega)
            have happ : apply cfg r rest' m = apply cfg r rest m := by unfold apply; rw [hbody]
            have hag' : (rest.drop adv).take (p + 12 - (pos + adv)) = (rest'.drop adv).take (p + 12 - (pos + adv)) := by
              have e1 : (rest.take (p + 12 - pos)).drop adv = (rest.drop adv).take (p + 12 - pos - adv) := List.drop_take ..
              have e2 : (rest'.take (p + 12 - pos)).drop adv = (rest'.drop adv).take (p + 12 - pos - adv) := List.drop_take ..
              have : p + 12 - (pos + adv) = p + 12 - pos - adv := by omega
              rw [this, ← e1, ← e2, hag]
            have hbad' : cfg.crc (((rest'.drop adv).drop (p - (pos + adv) + 12)).take len) ≠ c := by
              rw [List.drop_drop]
              have : adv + (p - (pos + adv) + 12) = p - pos + 12 := by omega
              rw [this]; exact hbad
            simp only [replayAux, he, he', Bool.false_eq_true, if_false, hh, hfc, hp, hp', happ, hrc, if_true]
            by_cases hst : r = Rec.savepoint ∧ stop = pos
            · right
              simp only [hst, and_self, if_true]
              refine ⟨by omega, ?_, trivial⟩
              simp only [walkAux, he, Bool.false_eq_true, if_false, hp, List.mem_cons, Prod.mk.injEq]
              exact Or.inl ⟨trivial, hst.1.symm⟩
            · simp only [hst, if_false]
              have := ih (rest.drop adv) (rest'.drop adv) (pos + adv) false (apply cfg r rest m).2
                (by simp [hlen]) (by omega) hag' htail
                (fun q c' l' hq hlt => hdisj q c' l' (Or.inr hq) hlt)
                (fun q hq => hs0 q (Or.inr hq)) hvalid hbad'
              rcases this with h | ⟨h1, h2, h3⟩
              · left; exact h
              · right
                refine ⟨h1, ?_, h3⟩
                simp only [walkAux, he, Bool.false_eq_true, if_false, hp, List.mem_cons]
                right; exact h2

/-- The same for any record at `p` whose handler rejects what now follows its (intact) header — a separator or a write
with a checksum that no longer matches. -/
theorem replayAux_corrupt_at (cfg : Cfg) (stop s0 p : Nat) (rp : Rec) (fuel : Nat) :
    ∀ (rest rest' : Bytes) (pos : Nat) (first : Bool) (m : Bytes),
    rest.length = rest'.length → pos ≤ p →
    rest.take (p + hdr rp - pos) = rest'.take (p + hdr rp - pos) →
    (p, rp) ∈ walkAux fuel rest pos →
    (∀ q c' l', (q, Rec.sep c' l') ∈ walkAux fuel rest pos → q < p → q + 12 + l' ≤ p + hdr rp) →
    (∀ q, (q, Rec.savepoint) ∈ walkAux fuel rest pos → q ≠ s0) →
    (replayAux cfg s0 fuel rest pos first m).rc = .ok →
    (∀ x, (applyB cfg rp (body rp (rest'.drop (p - pos))) x).1 = .corrupted) →
    (replayAux cfg stop fuel rest' pos first m).rc = .corrupted ∨
      (stop < p ∧ (stop, Rec.savepoint) ∈ walkAux fuel rest pos ∧
        replayAux cfg stop fuel rest' pos first m = replayAux cfg stop fuel rest pos first m) := by
  induction fuel with
  | zero => intro rest rest' pos first m _ _ _ hmem; simp [walkAux] at hmem
  | succ n ih =>
    intro rest rest' pos first m hlen hpos hag hmem hdisj hs0 hvalid hbad
    simp only [walkAux] at hmem hdisj hs0
    cases he : rest.isEmpty with
    | true => simp [he] at hmem
    | false =>
      have he' : rest'.isEmpty = false := by rw [isEmpty_congr hlen]; exact he
      simp only [he, Bool.false_eq_true, if_false] at hmem hdisj hs0
      cases hp : parse rest with
      | none => simp [hp] at hmem
      | some ra =>
        obtain ⟨r, adv⟩ := ra
        simp only [hp, List.mem_cons, Prod.mk.injEq] at hmem hdisj hs0
        have h4 := parse_adv_pos hp
        have hH : 4 ≤ hdr rp := by cases rp <;> simp [hdr]
        have hk1 : 1 ≤ p + hdr rp - pos := by omega
        have hh : rest'.headD 0 = rest.headD 0 := by
          rw [← headD_take rest' _ hk1, ← hag, headD_take rest _ hk1]
        simp only [replayAux, he, Bool.false_eq_true, if_false] at hvalid
        cases hfc : (first && rest.headD 0 != WOP_SEP) with
        | true => simp only [hfc, if_true] at hvalid; exact absurd hvalid (by decide)
        | false =>
          simp only [hfc, Bool.false_eq_true, if_false, hp] at hvalid
          have hns0 : ¬ (r = Rec.savepoint ∧ s0 = pos) := fun ⟨h1, h2⟩ => hs0 pos (Or.inl ⟨rfl, h1.symm⟩) h2.symm
          simp only [hns0, if_false] at hvalid
          have hrc : (apply cfg r rest m).1 = Rc.ok := by
            by_cases hh' : (apply cfg r rest m).1 = Rc.ok
            · exact hh'
            · simp only [hh', if_false] at hvalid
          simp only [hrc, if_true] at hvalid
          rcases hmem with ⟨h1, h2⟩ | htail
          · -- the changed separator itself
            subst h1; subst h2
            have hk : p + hdr rp - p = hdr rp := by omega
            rw [hk] at hag
            have hp' : parse rest' = some (rp, adv) := parse_congr _ hlen hag hp (Nat.le_refl _) (by omega)
            left
            have hb := hbad m
            rw [Nat.sub_self, List.drop_zero] at hb
            have hnsp : ¬ (rp = Rec.savepoint ∧ stop = p) := by
              intro ⟨h1, _⟩; rw [h1] at hb; simp [applyB] at hb
            simp only [replayAux, he', Bool.false_eq_true, if_false, hh, hfc, hp', hnsp, apply, hb]
            simp
          · have hge := walkAux_pos_ge n _ _ _ _ htail
            have ⟨hsepadv, _⟩ := parse_adv_eq hp
            have hneed : need r adv ≤ p + hdr rp - pos := by
              cases r with
              | sep c' l' =>
                have := hdisj pos c' l' (Or.inl ⟨rfl, rfl⟩) (by omega)
                have := hsepadv c' l' rfl
                simp only [need]; omega
              | _ => simp only [need]; omega
            have hna : adv ≤ need r adv := by unfold need; split <;> omega
            have hhdr : hdr r ≤ p + hdr rp - pos := by
              have := hdr_le_adv hp; omega
            have hp' : parse rest' = some (r, adv) := parse_congr _ hlen hag hp hhdr hk1
            have hbody : body r rest = body r rest' := body_congr _ hag hp (by omega)
            have happ : apply cfg r rest' m = apply cfg r rest m := by unfold apply; rw [hbody]
            have hag' : (rest.drop adv).take (p + hdr rp - (pos + adv)) = (rest'.drop adv).take (p + hdr rp - (pos + adv)) := by
              have e1 : (rest.take (p + hdr rp - pos)).drop adv = (rest.drop adv).take (p + hdr rp - pos - adv) := List.drop_take ..
              have e2 : (rest'.take (p + hdr rp - pos)).drop adv = (rest'.drop adv).take (p + hdr rp - pos - adv) := List.drop_take ..
              have : p + hdr rp - (pos + adv) = p + hdr rp - pos - adv := by omega
              rw [this, ← e1, ← e2, hag]
            have hbad' : ∀ x, (applyB cfg rp (body rp ((rest'.drop adv).drop (p - (pos + adv)))) x).1 = .corrupted := by
              intro x
              rw [List.drop_drop]
              have : adv + (p - (pos + adv)) = p - pos := by omega
              rw [this]; exact hbad x
            simp only [replayAux, he, he', Bool.false_eq_true, if_false, hh, hfc, hp, hp', happ, hrc, if_true]
            by_cases hst : r = Rec.savepoint ∧ stop = pos
            · right
              simp only [hst, and_self, if_true]
              refine ⟨by omega, ?_, trivial⟩
              simp only [walkAux, he, Bool.false_eq_true, if_false, hp, List.mem_cons, Prod.mk.injEq]
              exact Or.inl ⟨trivial, hst.1.symm⟩
            · simp only [hst, if_false]
              have := ih (rest.drop adv) (rest'.drop adv) (pos + adv) false (apply cfg r rest m).2
                (by simp [hlen]) (by omega) hag' htail
                (fun q c' l' hq hlt => hdisj q c' l' (Or.inr hq) hlt)
                (fun q hq => hs0 q (Or.inr hq)) hvalid hbad'
              rcases this with h | ⟨h1, h2, h3⟩
              · left; exact h
              · right
                refine ⟨h1, ?_, h3⟩
                simp only [walkAux, he, Bool.false_eq_true, if_false, hp, List.mem_cons]
                right; exact h2

/-- positions only matter relative to the stop position -/
theorem replayAux_shift (cfg : Cfg) (d : Nat) (fuel : Nat) : ∀ (stop : Nat) (rest : Bytes) (pos : Nat) (first : Bool) (m : Bytes),
    replayAux cfg (stop + d) fuel rest (pos + d) first m = replayAux cfg stop fuel rest pos first m := by
  induction fuel with
  | zero => intro stop rest pos first m; rfl
  | succ n ih =>
    intro stop rest pos first m
    simp only [replayAux]
    have e : ∀ adv, pos + d + adv = (pos + adv) + d := by intro adv; omega
    have e2 : (stop + d = pos + d) = (stop = pos) := by apply propext; constructor <;> intro h <;> omega
    simp only [e, ih, e2]

/-- the `i == 0` test is vacuous when the log starts with a separator -/
theorem replayAux_first (cfg : Cfg) (stop fuel : Nat) (rest : Bytes) (pos : Nat) (m : Bytes)
    (h : rest.headD 0 = WOP_SEP) :
    replayAux cfg stop fuel rest pos true m = replayAux cfg stop fuel rest pos false m := by
  cases fuel with
  | zero => rfl
  | succ n => simp only [replayAux, h, bne_self_eq_false, Bool.and_false, Bool.false_eq_true, if_false]

theorem prescanAux_first (fuel : Nat) (rest : Bytes) (pos fp rp : Nat) (h : rest.headD 0 = WOP_SEP) :
    prescanAux fuel rest pos true fp rp = prescanAux fuel rest pos false fp rp := by
  cases fuel with
  | zero => rfl
  | succ n => simp only [prescanAux, h, bne_self_eq_false, Bool.and_false, Bool.false_eq_true, if_false]

/-- A pre-scan whose answer lies beyond the record boundary `q` of the uncut log is the pre-scan continued from `q`. -/
theorem prescanAux_pass (fuel : Nat) : ∀ (rest : Bytes) (k pos : Nat) (first : Bool) (fp rp q : Nat) (rq : Rec),
    rest.length ≤ fuel → k ≤ rest.length →
    (q, rq) ∈ walkAux fuel rest pos → fp ≤ q →
    q < (prescanAux fuel (rest.take k) pos first fp rp).1 →
    ∃ fp' rp', fp' ≤ q ∧
      prescanAux fuel (rest.take k) pos first fp rp =
        prescanAux fuel ((rest.drop (q - pos)).take (k - (q - pos))) q (first && decide (q = pos)) fp' rp' := by
  induction fuel with
  | zero => intro rest k pos first fp rp q rq _ _ hmem; simp [walkAux] at hmem
  | succ n ih =>
    intro rest k pos first fp rp q rq hfl hkl hmem hfp hres
    have hge := walkAux_pos_ge _ _ _ _ _ hmem
    by_cases hq : q = pos
    · subst hq
      refine ⟨fp, rp, hfp, ?_⟩
      simp
    · have hlt : pos < q := by omega
      simp only [walkAux] at hmem
      cases he2 : rest.isEmpty with
      | true => simp [he2] at hmem
      | false =>
        simp only [he2, Bool.false_eq_true, if_false] at hmem
        cases hp2 : parse rest with
        | none => simp [hp2] at hmem
        | some ra =>
          obtain ⟨r, adv⟩ := ra
          simp only [hp2, List.mem_cons, Prod.mk.injEq] at hmem
          have htail : (q, rq) ∈ walkAux n (rest.drop adv) (pos + adv) := by
            rcases hmem with ⟨h1, _⟩ | h
            · omega
            · exact h
          have hge2 := walkAux_pos_ge _ _ _ _ _ htail
          have h4 := parse_adv_pos hp2
          generalize hf : prescanAux (n + 1) (rest.take k) pos first fp rp = res at hres ⊢
          simp only [prescanAux] at hf
          cases he : (rest.take k).isEmpty with
          | true => simp only [he, if_true] at hf; subst hf; simp only at hres; omega
          | false =>
            simp only [he, Bool.false_eq_true, if_false] at hf
            split at hf
            · subst hf; simp only at hres; omega
            · cases hp : parse (rest.take k) with
              | none => simp only [hp] at hf; subst hf; simp only at hres; omega
              | some ra' =>
                obtain ⟨r', adv'⟩ := ra'
                have ⟨hp2', _⟩ := parse_of_take k hp
                rw [hp2] at hp2'
                simp only [Option.some.injEq, Prod.mk.injEq] at hp2'
                obtain ⟨hr, ha⟩ := hp2'
                subst hr; subst ha
                simp only [hp] at hf
                have hdrop : (rest.take k).drop adv = (rest.drop adv).take (k - adv) := List.drop_take ..
                have hlen' := drop_len_lt h4 he2 hfl
                have hkl' : k - adv ≤ (rest.drop adv).length := by simp; omega
                have hdd : (rest.drop adv).drop (q - (pos + adv)) = rest.drop (q - pos) := by
                  rw [List.drop_drop]; congr 1; omega
                have hkk : k - adv - (q - (pos + adv)) = k - (q - pos) := by omega
                have hb : (false && decide (q = pos + adv)) = (first && decide (q = pos)) := by simp [hq]
                rw [hdrop] at hf
                by_cases hsp : r = Rec.savepoint
                · simp only [hsp, if_true] at hf
                  split at hf
                  · subst hf; simp only at hres; omega
                  · subst hf
                    obtain ⟨fp', rp', h1, h2⟩ := ih _ _ _ false pos rp q rq hlen' hkl' htail (by omega) hres
                    rw [hdd, hkk, hb] at h2
                    exact ⟨fp', rp', h1, by rw [h2, prescanAux_fuel n (n + 1)] <;> (simp; omega)⟩
                · by_cases hrs : r = Rec.reset
                  · simp only [hrs, if_true, reduceCtorEq, if_false] at hf
                    split at hf
                    · subst hf; simp only at hres; omega
                    · subst hf
                      obtain ⟨fp', rp', h1, h2⟩ := ih _ _ _ false fp pos q rq hlen' hkl' htail hfp hres
                      rw [hdd, hkk, hb] at h2
                      exact ⟨fp', rp', h1, by rw [h2, prescanAux_fuel n (n + 1)] <;> (simp; omega)⟩
                  · simp only [hsp, hrs, if_false] at hf
                    subst hf
                    obtain ⟨fp', rp', h1, h2⟩ := ih _ _ _ false fp rp q rq hlen' hkl' htail hfp hres
                    rw [hdd, hkk, hb] at h2
                    exact ⟨fp', rp', h1, by rw [h2, prescanAux_fuel n (n + 1)] <;> (simp; omega)⟩

/-- a position of the walk is a position where `parse` succeeds on the rest of the log -/
theorem walkAux_mem_parse (fuel : Nat) : ∀ (rest : Bytes) (pos q : Nat) (r : Rec), (q, r) ∈ walkAux fuel rest pos →
    ∃ adv, parse (rest.drop (q - pos)) = some (r, adv) := by
  induction fuel with
  | zero => intro rest pos q r h; simp [walkAux] at h
  | succ n ih =>
    intro rest pos q r h
    simp only [walkAux] at h
    split at h
    · simp at h
    · split at h
      · simp at h
      · rename_i r' adv hp
        simp only [List.mem_cons, Prod.mk.injEq] at h
        rcases h with ⟨h1, h2⟩ | h
        · subst h1; subst h2; exact ⟨adv, by simpa using hp⟩
        · have hge := walkAux_pos_ge _ _ _ _ _ h
          obtain ⟨a, ha⟩ := ih _ _ _ _ h
          refine ⟨a, ?_⟩
          rw [List.drop_drop] at ha
          have : adv + (q - (pos + adv)) = q - pos := by omega
          rw [this] at ha; exact ha

theorem parse_sep_head {rest : Bytes} {c l adv : Nat} (h : parse rest = some (Rec.sep c l, adv)) : rest.headD 0 = WOP_SEP := by
  unfold parse at h
  simp only [sz_WBSEP, sz_WBSET, sz_WBCOPY, sz_WBWRITE, sz_WBRESIZE, sz_WBSAVEPOINT, sz_WBRESET] at h
  grind

/-- stopping at a savepoint that is the last record of the log is the same as running to the end -/
theorem replayAux_stop_last (cfg : Cfg) (s s0 : Nat) (fuel : Nat) : ∀ (rest : Bytes) (pos : Nat) (first : Bool) (x : Bytes),
    (s, Rec.savepoint) ∈ walkAux fuel rest pos → s + 12 = pos + rest.length →
    (∀ q, (q, Rec.savepoint) ∈ walkAux fuel rest pos → q ≠ s0) →
    replayAux cfg s fuel rest pos first x = replayAux cfg s0 fuel rest pos first x := by
  induction fuel with
  | zero => intro rest pos first x h; simp [walkAux] at h
  | succ n ih =>
    intro rest pos first x hmem hend hs0
    simp only [walkAux] at hmem hs0
    cases he : rest.isEmpty with
    | true => simp [he] at hmem
    | false =>
      simp only [he, Bool.false_eq_true, if_false] at hmem hs0
      cases hp : parse rest with
      | none => simp [hp] at hmem
      | some ra =>
        obtain ⟨r, adv⟩ := ra
        simp only [hp, List.mem_cons, Prod.mk.injEq] at hmem hs0
        have h4 := parse_adv_pos hp
        have ⟨hsa, _⟩ := parse_mark_adv hp
        simp only [replayAux, he, Bool.false_eq_true, if_false, hp]
        split
        · rfl
        · have hns0 : ¬ (r = Rec.savepoint ∧ s0 = pos) := fun ⟨h1, h2⟩ => hs0 pos (Or.inl ⟨rfl, h1.symm⟩) h2.symm
          simp only [hns0, if_false]
          rcases hmem with ⟨h1, h2⟩ | htail
          · subst h1; subst h2
            have hadv := hsa rfl
            have hl : rest.length = 12 := by omega
            have hd : rest.drop adv = [] := by
              apply List.eq_nil_of_length_eq_zero; simp; omega
            simp only [and_self, if_true, apply_mark_sp, hd]
            cases n <;> simp [replayAux]
          · have hge := walkAux_pos_ge _ _ _ _ _ htail
            have hne : ¬ (r = Rec.savepoint ∧ s = pos) := by intro ⟨_, h2⟩; omega
            simp only [hne, if_false]
            have hfit : adv ≤ rest.length := by omega
            split
            · exact ih _ _ _ _ htail (by simp; omega) (fun q hq => hs0 q (Or.inr hq))
            · rfl

end IwModel.Wal
