import IwModel.Lemmas.HMap
/-! The plain reference of the hash map (a partial function, its size and a recency list) and the simulation
of the mechanism model by it. -/
set_option linter.unusedSectionVars false
set_option linter.unusedSimpArgs false
namespace IwModel.HMap
variable {κ : Type} [DecidableEq κ]

/-- reference structure: key → value function, number of keys, recency list (oldest first), LRU settings -/
structure Ref (κ : Type) where
  f : κ → Option Nat
  n : Nat
  lru : List κ := []
  on : Bool := false
  maxc : Nat := 0
  own : Bool := true

namespace Ref

def empty (own : Bool) : Ref κ := { f := fun _ => none, n := 0, own := own }

def set (s : Ref κ) (k : κ) (v : Nat) : Ref κ :=
  { s with f := fun x => if x = k then some v else s.f x, n := if (s.f k).isSome then s.n else s.n + 1 }

def del (s : Ref κ) (k : κ) : Ref κ :=
  { s with f := fun x => if x = k then none else s.f x, n := s.n - 1, lru := s.lru.erase k }

def touchIfOn (s : Ref κ) (k : κ) : Ref κ := if s.on then { s with lru := touch k s.lru } else s

/-- evict the oldest key while the predicate `count > max_count` holds -/
def evict : Nat → Ref κ → List (Tok κ) → Ref κ × List (Tok κ)
  | 0, s, acc => (s, acc)
  | fuel + 1, s, acc =>
    match s.lru with
    | [] => (s, acc)
    | k :: _ =>
      if s.on ∧ s.n > s.maxc then
        match s.f k with
        | none => (s, acc)
        | some v => evict fuel (s.del k) (acc ++ freeToks s.own (some k) v)
      else (s, acc)

def get (s : Ref κ) (k : κ) : Ref κ × Nat :=
  (if (s.f k).isSome then s.touchIfOn k else s, (s.f k).getD 0)

def remove (s : Ref κ) (k : κ) : Ref κ × Bool × List (Tok κ) :=
  match s.f k with
  | none => (s, false, [])
  | some v => (s.del k, true, freeToks s.own (some k) v)

def put (s : Ref κ) (k : κ) (v : Nat) : Ref κ × List (Tok κ) :=
  let toks := match s.f k with | some old => freeToks s.own (some k) old | none => []
  let s2 := (s.set k v).touchIfOn k
  evict (s2.lru.length + 1) s2 toks

def rename (s : Ref κ) (a b : κ) : Ref κ × List (Tok κ) :=
  match s.f a with
  | none => (s, [])
  | some v =>
    let s1 := s.del a
    let t2 := match s1.f b with | some old => freeToks s.own (some b) old | none => []
    (((s1.set b v).touchIfOn b), freeToks s.own (some a) 0 ++ t2)

def clear (s : Ref κ) : Ref κ := { s with f := fun _ => none, n := 0, lru := [] }

def lruInit (s : Ref κ) (n : Nat) : Ref κ := { s with on := true, maxc := n }

end Ref

/-- the mechanism state `m` represents the reference state `s` -/
structure R (h : κ → Nat) (m : Map κ) (s : Ref κ) : Prop where
  wf : WF h m
  maps : ∀ k v, Maps h m k v ↔ s.f k = some v
  cnt : m.count = s.n
  lru : m.lru = s.lru
  on : m.lruOn = s.on
  maxc : m.maxc = s.maxc
  own : m.ownKeys = s.own

theorem R.none_of_not_maps {h : κ → Nat} {m : Map κ} {s : Ref κ} (r : R h m s) (k : κ) (hn : ∀ v, ¬ Maps h m k v) :
    s.f k = none := by
  cases hf : s.f k with
  | none => rfl
  | some v => exact absurd ((r.maps k v).2 hf) (hn v)

/-- removing the located entry of key `k` is `Ref.del` -/
theorem sim_entryRemove {h : κ → Nat} {m : Map κ} {s : Ref κ} (r : R h m s) (k : κ) (ei : Nat) (e : Entry κ)
    (he : (ents m (h k &&& m.mask))[ei]? = some e) (hk : e.key = k) :
    s.f k = some e.val ∧ R h (entryRemove m (h k &&& m.mask) ei).1 (s.del k) ∧
    (entryRemove m (h k &&& m.mask) ei).2 = freeToks s.own (some k) e.val := by
  obtain ⟨w, mp, l, c, c1, mk, tk, o1, o2, o3⟩ := entryRemove_spec r.wf k ei e he hk
  refine ⟨(r.maps k e.val).1 mk, ⟨w, ?_, by rw [c, r.cnt]; rfl, by rw [l, r.lru]; rfl, by rw [o1, r.on]; rfl,
    by rw [o2, r.maxc]; rfl, by rw [o3, r.own]; rfl⟩, by rw [tk, r.own]⟩
  intro k' v
  rw [mp, r.maps]
  show _ ↔ (if k' = k then none else s.f k') = some v
  by_cases hkk : k' = k <;> simp [hkk]

theorem sim_evict {h : κ → Nat} : ∀ (fuel : Nat) (m : Map κ) (s : Ref κ) (acc : List (Tok κ)), R h m s →
    R h (evict h fuel m acc).1 (Ref.evict fuel s acc).1 ∧ (evict h fuel m acc).2 = (Ref.evict fuel s acc).2 := by
  intro fuel
  induction fuel with
  | zero => intro m s acc r; exact ⟨r, rfl⟩
  | succ fuel ih =>
    intro m s acc r
    unfold evict Ref.evict
    rw [← r.lru]
    cases hl : m.lru with
    | nil => exact ⟨r, rfl⟩
    | cons k rest =>
      simp only
      rw [← r.on, ← r.cnt, ← r.maxc]
      split
      · cases hloc : locate m k (h k) with
        | none =>
          rw [r.none_of_not_maps k (locate_none r.wf k hloc)]
          exact ⟨r, rfl⟩
        | some p =>
          obtain ⟨bi, ei⟩ := p
          obtain ⟨hb, e, he, hk⟩ := locate_some k hloc
          subst hb
          obtain ⟨hf, r', tk⟩ := sim_entryRemove r k ei e he hk
          rw [hf]
          simp only
          rw [← tk]
          exact ih _ _ _ r'
      · exact ⟨r, rfl⟩

theorem sim_get {h : κ → Nat} {m : Map κ} {s : Ref κ} (r : R h m s) (k : κ) :
    R h (get h m k).1 (s.get k).1 ∧ (get h m k).2 = (s.get k).2 := by
  unfold get Ref.get
  cases hloc : locate m k (h k) with
  | none =>
    rw [r.none_of_not_maps k (locate_none r.wf k hloc)]
    exact ⟨r, rfl⟩
  | some p =>
    obtain ⟨bi, ei⟩ := p
    obtain ⟨hb, e, he, hk⟩ := locate_some k hloc
    subst hb
    subst hk
    have hf : s.f e.key = some e.val := (r.maps e.key e.val).1 ⟨e, List.mem_of_getElem? he, rfl, rfl⟩
    have hv : entryAt m (h e.key &&& m.mask) ei = some e := he
    simp only [hf, hv, Option.isSome_some, if_true, Option.map_some, Option.getD_some, and_true]
    unfold Ref.touchIfOn
    rw [← r.on]
    split
    · obtain ⟨w, mp, l, c, _, o1, o2, o3⟩ := lruUpdate_spec r.wf e.key ei e he rfl
      exact ⟨w, fun k' v => (mp k' v).trans (r.maps k' v), by rw [c, r.cnt], by rw [l, r.lru], by rw [o1, r.on],
        by rw [o2, r.maxc], by rw [o3, r.own]⟩
    · exact r

theorem sim_remove {h : κ → Nat} {m : Map κ} {s : Ref κ} (r : R h m s) (k : κ) :
    R h (remove h m k).1 (s.remove k).1 ∧ (remove h m k).2 = (s.remove k).2 := by
  unfold remove Ref.remove
  cases hloc : locate m k (h k) with
  | none =>
    rw [r.none_of_not_maps k (locate_none r.wf k hloc)]
    exact ⟨r, rfl⟩
  | some p =>
    obtain ⟨bi, ei⟩ := p
    obtain ⟨hb, e, he, hk⟩ := locate_some k hloc
    subst hb
    obtain ⟨hf, r', tk⟩ := sim_entryRemove r k ei e he hk
    rw [hf]
    simp only
    exact ⟨r', by rw [tk]⟩

/-- the token computation shared by `iwhmap_put` and `iwhmap_rename` -/
def addToks (m : Map κ) (own : Bool) (key : κ) (hash : Nat) : List (Tok κ) :=
  match entryAt (entryAdd m key hash).1 (entryAdd m key hash).2.1 (entryAdd m key hash).2.2.1 with
  | some e => if (entryAdd m key hash).2.2.2 then [] else freeToks own (some e.key) e.val
  | none => []

theorem sim_upsert {h : κ → Nat} {m : Map κ} {s : Ref κ} (r : R h m s) (key : κ) (val : Nat) (own : Bool) :
    R h (upsert h m key val) (s.set key val) ∧
    (entryAdd m key (h key)).2.1 = h key &&& m.mask ∧ (upsert h m key val).mask = m.mask ∧
    (∃ e', (ents (upsert h m key val) (h key &&& m.mask))[(entryAdd m key (h key)).2.2.1]? = some e' ∧ e'.key = key) ∧
    addToks m own key (h key) = (match s.f key with | some old => freeToks own (some key) old | none => []) := by
  have hbi : h key &&& m.mask < m.buckets.length := by rw [r.wf.len]; exact idx_lt _ _
  obtain ⟨w, mp⟩ := upsert_wf_maps r.wf key val
  have hmaps : ∀ k v, Maps h (upsert h m key val) k v ↔ (s.set key val).f k = some v := by
    intro k v
    rw [mp]
    show _ ↔ (if k = key then some val else s.f k) = some v
    by_cases hk : k = key
    · simp [hk]; exact eq_comm
    · simp [hk]; exact r.maps k v
  cases hf : findIdx (ents m (h key &&& m.mask)) key (h key) with
  | some i =>
    obtain ⟨old, ho, hok, hoh, r2, hat, u⟩ := upsert_found r.wf key val i hf
    obtain ⟨hi, _, _⟩ := findIdx_some hf
    have hsf : s.f key = some old.val := (r.maps key old.val).1 ⟨old, List.mem_of_getElem? ho, hok, rfl⟩
    refine ⟨⟨w, hmaps, ?_, by rw [u.2.2.2.1, r.lru]; rfl, by rw [u.2.2.2.2.1, r.on]; rfl,
      by rw [u.2.2.2.2.2.1, r.maxc]; rfl, by rw [u.2.2.2.2.2.2, r.own]; rfl⟩, by rw [r2], u.2.1, ?_, ?_⟩
    · rw [u.2.2.1, r.cnt]; show s.n = if (s.f key).isSome then s.n else s.n + 1
      simp [hsf]
    · refine ⟨{ old with key := key, val := val }, ?_, rfl⟩
      rw [u.ents_eq hbi, if_pos rfl, r2]
      simp [hi]
    · unfold addToks
      rw [r2]; simp only [hat, hsf, hok]; simp
  | none =>
    obtain ⟨r2, u⟩ := upsert_fresh r.wf key val hf
    have hsf : s.f key = none := r.none_of_not_maps key (fun v ⟨e, he, h1, _⟩ => findIdx_none_key r.wf key hf e he h1)
    refine ⟨⟨w, hmaps, ?_, by rw [u.2.2.2.1, r.lru]; rfl, by rw [u.2.2.2.2.1, r.on]; rfl,
      by rw [u.2.2.2.2.2.1, r.maxc]; rfl, by rw [u.2.2.2.2.2.2, r.own]; rfl⟩, by rw [r2], u.2.1, ?_, ?_⟩
    · rw [u.2.2.1, r.cnt]; show s.n + 1 = if (s.f key).isSome then s.n else s.n + 1
      simp [hsf]
    · refine ⟨{ key := key, val := val, hash := h key, node := false }, ?_, rfl⟩
      rw [u.ents_eq hbi, if_pos rfl, r2]
      simp
    · unfold addToks
      rw [r2]; simp only [hsf]
      split <;> simp

def putTouch (h : κ → Nat) (m : Map κ) (key : κ) (val : Nat) : Map κ :=
  if (upsert h m key val).lruOn then lruUpdate (upsert h m key val) (entryAdd m key (h key)).2.1 (entryAdd m key (h key)).2.2.1
  else upsert h m key val

def putGrow (h : κ → Nat) (m : Map κ) (key : κ) (val : Nat) : Map κ :=
  if (putTouch h m key val).count > (putTouch h m key val).mask then
    rehash (putTouch h m key val) (nBuckets (putTouch h m key val) * 2)
  else putTouch h m key val

theorem put_eq (h : κ → Nat) (m : Map κ) (key : κ) (val : Nat) :
    put h m key val = evict h ((putGrow h m key val).lru.length + 1) (putGrow h m key val) (addToks m m.ownKeys key (h key)) := rfl

/-- insert-or-replace followed by the recency update -/
theorem sim_putTouch {h : κ → Nat} {m : Map κ} {s : Ref κ} (r : R h m s) (key : κ) (val : Nat) :
    R h (putTouch h m key val) ((s.set key val).touchIfOn key) := by
  obtain ⟨r2, e1, hm, ⟨e', he', hk'⟩, _⟩ := sim_upsert r key val m.ownKeys
  unfold putTouch Ref.touchIfOn
  rw [r2.on]
  split
  · rw [e1, ← hm]
    rw [← hm] at he'
    subst hk'
    obtain ⟨w, mp, l, c, _, o1, o2, o3⟩ := lruUpdate_spec r2.wf e'.key _ e' he' rfl
    exact ⟨w, fun k' v => (mp k' v).trans (r2.maps k' v), by rw [c, r2.cnt], by rw [l, r2.lru], by rw [o1, r2.on],
      by rw [o2, r2.maxc], by rw [o3, r2.own]⟩
  · exact r2

theorem sim_rehash {h : κ → Nat} {m : Map κ} {s : Ref κ} (r : R h m s) (n : Nat) (hn : 1 ≤ n) : R h (rehash m n) s := by
  obtain ⟨w, mp, l, c, _, o1, o2, o3⟩ := rehash_spec r.wf n hn
  exact ⟨w, fun k v => (mp k v).trans (r.maps k v), by rw [c, r.cnt], by rw [l, r.lru], by rw [o1, r.on],
    by rw [o2, r.maxc], by rw [o3, r.own]⟩

/-- `iwhmap_put` is the reference put: same new state, same tokens handed to the free function -/
theorem sim_put {h : κ → Nat} {m : Map κ} {s : Ref κ} (r : R h m s) (key : κ) (val : Nat) :
    R h (put h m key val).1 (s.put key val).1 ∧ (put h m key val).2 = (s.put key val).2 := by
  have r3 := sim_putTouch r key val
  have r4 : R h (putGrow h m key val) ((s.set key val).touchIfOn key) := by
    unfold putGrow
    split
    · exact sim_rehash r3 _ (by unfold nBuckets; omega)
    · exact r3
  rw [put_eq]
  unfold Ref.put
  simp only
  rw [(sim_upsert r key val m.ownKeys).2.2.2.2, r.own, r4.lru]
  exact sim_evict _ _ _ _ r4

theorem R.congr {h : κ → Nat} {m : Map κ} {s s' : Ref κ} (r : R h m s) (hf : ∀ k, s'.f k = s.f k)
    (hn : s'.n = s.n) (hl : s'.lru = s.lru) (ho : s'.on = s.on) (hm : s'.maxc = s.maxc) (hw : s'.own = s.own) : R h m s' :=
  ⟨r.wf, fun k v => by rw [hf]; exact r.maps k v, by rw [hn]; exact r.cnt, by rw [hl]; exact r.lru,
   by rw [ho]; exact r.on, by rw [hm]; exact r.maxc, by rw [hw]; exact r.own⟩

theorem rename_eq (h : κ → Nat) (m : Map κ) (a b : κ) (bi ei : Nat) (hl : locate m a (h a) = some (bi, ei)) :
    rename h m a b =
      (putTouch h (entryRemove (setKV m bi ei a 0) bi ei).1 b (((entryAt m bi ei).map (·.val)).getD 0),
       (entryRemove (setKV m bi ei a 0) bi ei).2 ++ addToks (entryRemove (setKV m bi ei a 0) bi ei).1 m.ownKeys b (h b)) := by
  unfold rename
  rw [hl]
  rfl

/-- `iwhmap_rename` is the reference rename -/
theorem sim_rename {h : κ → Nat} {m : Map κ} {s : Ref κ} (r : R h m s) (a b : κ) :
    R h (rename h m a b).1 (s.rename a b).1 ∧ (rename h m a b).2 = (s.rename a b).2 := by
  cases hloc : locate m a (h a) with
  | none =>
    unfold rename Ref.rename
    rw [hloc, r.none_of_not_maps a (locate_none r.wf a hloc)]
    exact ⟨r, rfl⟩
  | some p =>
    obtain ⟨bi, ei⟩ := p
    rw [rename_eq h m a b bi ei hloc]
    obtain ⟨hb, e, he, hk⟩ := locate_some a hloc
    subst hb
    subst hk
    have hf : s.f e.key = some e.val := (r.maps e.key e.val).1 ⟨e, List.mem_of_getElem? he, rfl, rfl⟩
    have hv : entryAt m (h e.key &&& m.mask) ei = some e := he
    obtain ⟨w0, mp0, he0, u0⟩ := setval_spec r.wf ei e 0 he
    have hm0 : (setKV m (h e.key &&& m.mask) ei e.key 0).mask = m.mask := u0.2.1
    have r0 : R h (setKV m (h e.key &&& m.mask) ei e.key 0)
        { s with f := fun x => if x = e.key then some 0 else s.f x } := by
      refine ⟨w0, ?_, by rw [u0.2.2.1]; exact r.cnt, by rw [u0.2.2.2.1]; exact r.lru, by rw [u0.2.2.2.2.1]; exact r.on,
        by rw [u0.2.2.2.2.2.1]; exact r.maxc, by rw [u0.2.2.2.2.2.2]; exact r.own⟩
      intro k v
      rw [mp0]
      show _ ↔ (if k = e.key then some 0 else s.f k) = some v
      by_cases hk : k = e.key
      · simp [hk]; exact eq_comm
      · simp [hk]; exact r.maps k v
    have he0' : (ents (setKV m (h e.key &&& m.mask) ei e.key 0)
        (h e.key &&& (setKV m (h e.key &&& m.mask) ei e.key 0).mask))[ei]? = some { e with val := 0 } := by
      rw [hm0]; exact he0
    have hs := sim_entryRemove r0 e.key ei { e with val := 0 } he0' rfl
    rw [hm0] at hs
    obtain ⟨_, r1', tk⟩ := hs
    have r1 : R h (entryRemove (setKV m (h e.key &&& m.mask) ei e.key 0) (h e.key &&& m.mask) ei).1 (s.del e.key) := by
      refine r1'.congr ?_ ?_ rfl rfl rfl rfl
      · intro k
        show (if k = e.key then none else s.f k) = (if k = e.key then none else if k = e.key then some 0 else s.f k)
        by_cases hk : k = e.key <;> simp [hk]
      · rfl
    unfold Ref.rename
    simp only [hf, hv, Option.map_some, Option.getD_some]
    refine ⟨sim_putTouch r1 b e.val, ?_⟩
    rw [tk, (sim_upsert r1 b e.val m.ownKeys).2.2.2.2, r.own]

/-- an emptied table of `n` buckets -/
def cleared (m : Map κ) (n : Nat) : Map κ :=
  { m with buckets := List.replicate n {}, mask := n - 1, count := 0, lru := [] }

theorem ents_replicate (m : Map κ) (n : Nat) (j : Nat) : ents (cleared m n) j = [] := by
  simp only [cleared, ents, bucketAt, List.getD_eq_getElem?_getD, List.getElem?_replicate]
  split <;> rfl

theorem wf_cleared (h : κ → Nat) (m : Map κ) (n : Nat) (hn : 1 ≤ n) :
    WF h (cleared m n) := by
  refine ⟨by simp [cleared]; omega, ?_, ?_, by simp [cleared], ?_, by simp [cleared], ?_⟩
  · intro i e he; rw [ents_replicate] at he; cases he
  · intro i; rw [ents_replicate]; simp
  · intro i; left; rw [ents_replicate]; rfl
  · intro k
    constructor
    · intro hk; cases hk
    · rintro ⟨e, he, _⟩; rw [ents_replicate] at he; cases he

theorem sim_clear {h : κ → Nat} {m : Map κ} {s : Ref κ} (r : R h m s) : R h (clear m).1 s.clear := by
  have hM : 1 ≤ MIN_BUCKETS := by decide
  have hc : (clear m).1 = cleared m (if nBuckets m > MIN_BUCKETS then MIN_BUCKETS else nBuckets m) := rfl
  rw [hc]
  refine ⟨wf_cleared h m _ (by unfold nBuckets; split <;> omega), ?_, rfl, rfl, r.on, r.maxc, r.own⟩
  intro k v
  constructor
  · rintro ⟨e, he, _⟩; rw [ents_replicate] at he; cases he
  · intro hf; cases hf

theorem sim_lruInit {h : κ → Nat} {m : Map κ} {s : Ref κ} (r : R h m s) (n : Nat) : R h (lruInit m n) (s.lruInit n) :=
  ⟨⟨r.wf.len, r.wf.place, r.wf.nodup, r.wf.cnt, r.wf.cap, r.wf.lruNodup, r.wf.lruMem⟩, r.maps, r.cnt, r.lru, rfl, rfl, r.own⟩

theorem sim_empty (h : κ → Nat) (own : Bool) : R h (empty own : Map κ) (Ref.empty own) := by
  have hM : 1 ≤ MIN_BUCKETS := by decide
  have he : (empty own : Map κ) = cleared (empty own) MIN_BUCKETS := rfl
  rw [he]
  refine ⟨wf_cleared h _ MIN_BUCKETS hM, ?_, rfl, rfl, rfl, rfl, rfl⟩
  intro k v
  constructor
  · rintro ⟨e, he, _⟩; rw [ents_replicate] at he; cases he
  · intro hf; cases hf

/-- iteration (`iwhmap_iter_next` over the whole table) yields exactly the represented pairs, each key once -/
theorem toList_spec {h : κ → Nat} {m : Map κ} (wf : WF h m) :
    (∀ k v, (k, v) ∈ toList m ↔ Maps h m k v) ∧ ((toList m).map (·.1)).Nodup ∧ (toList m).length = m.count := by
  have ht : toList m = (all m).map (fun e => (e.key, e.val)) := by
    unfold toList all; rw [List.map_flatMap]
  refine ⟨?_, ?_, ?_⟩
  · intro k v
    rw [ht, List.mem_map]
    constructor
    · rintro ⟨e, he, hkv⟩
      obtain ⟨i, hi⟩ := (mem_all m e).1 he
      have p := wf.place i e hi
      have hk : e.key = k := congrArg Prod.fst hkv
      have hv : e.val = v := congrArg Prod.snd hkv
      refine ⟨e, ?_, hk, hv⟩
      rw [← hk, ← p.1, p.2]; exact hi
    · rintro ⟨e, he, hk, hv⟩
      exact ⟨e, (mem_all m e).2 ⟨_, he⟩, by rw [hk, hv]⟩
  · rw [ht, List.map_map]; exact all_keys_nodup wf
  · rw [ht, List.length_map, wf.cnt]; unfold all; rw [List.length_flatMap]

/-- what `iwhmap_clear` / `iwhmap_destroy` hand to the free function: every live pair, once -/
theorem allToks_eq (m : Map κ) :
    allToks m = (toList m).flatMap (fun kv => freeToks m.ownKeys (some kv.1) kv.2) := by
  unfold allToks toList
  rw [List.flatMap_assoc]
  congr 1
  funext b
  rw [List.flatMap_map]

/-- recency list of the reference is duplicate free and only holds present keys -/
def Ref.LruOk (s : Ref κ) : Prop := s.lru.Nodup ∧ ∀ k ∈ s.lru, ∃ v, s.f k = some v

theorem R.lruOk {h : κ → Nat} {m : Map κ} {s : Ref κ} (r : R h m s) : s.LruOk := by
  refine ⟨r.lru ▸ r.wf.lruNodup, ?_⟩
  intro k hk
  rw [← r.lru] at hk
  obtain ⟨e, he, h1, _⟩ := (r.wf.lruMem k).1 hk
  exact ⟨e.val, (r.maps k e.val).1 ⟨e, he, h1, rfl⟩⟩

theorem Ref.lruOk_del (s : Ref κ) (k : κ) (rest : List κ) (hl : s.lru = k :: rest) (ok : s.LruOk) :
    (s.del k).lru = rest ∧ (s.del k).LruOk := by
  have hnd := ok.1
  rw [hl, List.nodup_cons] at hnd
  have e : (s.del k).lru = rest := by
    show s.lru.erase k = rest
    rw [hl]; simp
  refine ⟨e, ?_, ?_⟩
  · rw [e]; exact hnd.2
  · intro k' hk'
    rw [e] at hk'
    have hne : k' ≠ k := fun h => hnd.1 (h ▸ hk')
    obtain ⟨v, hv⟩ := ok.2 k' (by rw [hl]; exact List.mem_cons_of_mem _ hk')
    exact ⟨v, by show (if k' = k then none else s.f k') = some v; simp [hne, hv]⟩

theorem flatMap_congr' {α β : Type} (f g : α → List β) : ∀ (l : List α), (∀ x ∈ l, f x = g x) → l.flatMap f = l.flatMap g := by
  intro l
  induction l with
  | nil => intro _; rfl
  | cons a t ih =>
    intro hh
    rw [List.flatMap_cons, List.flatMap_cons, hh a (by simp), ih (fun x hx => hh x (by simp [hx]))]

/-- the eviction loop removes the oldest keys, in order, and stops only when the recency list is empty or
the bound holds: `j` victims = the first `j` keys of the recency list -/
theorem Ref.evict_spec : ∀ (fuel : Nat) (s : Ref κ) (acc : List (Tok κ)), s.LruOk → s.lru.length < fuel →
    ∃ j, (Ref.evict fuel s acc).1.lru = s.lru.drop j ∧
      (Ref.evict fuel s acc).2 = acc ++ (s.lru.take j).flatMap (fun k => freeToks s.own (some k) ((s.f k).getD 0)) ∧
      (∀ k, (Ref.evict fuel s acc).1.f k = if k ∈ s.lru.take j then none else s.f k) ∧
      (Ref.evict fuel s acc).1.n = s.n - j ∧ (Ref.evict fuel s acc).1.maxc = s.maxc ∧ (Ref.evict fuel s acc).1.on = s.on ∧
      ((Ref.evict fuel s acc).1.lru = [] ∨ ¬ (s.on = true ∧ (Ref.evict fuel s acc).1.n > s.maxc)) := by
  intro fuel
  induction fuel with
  | zero => intro s acc _ hf; omega
  | succ fuel ih =>
    intro s acc ok hf
    unfold Ref.evict
    cases hl : s.lru with
    | nil => exact ⟨0, by simp [hl], by simp, by simp, by simp, rfl, rfl, Or.inl hl⟩
    | cons k rest =>
      simp only
      split
      · obtain ⟨v, hv⟩ := ok.2 k (by rw [hl]; simp)
        rw [hv]
        simp only
        obtain ⟨e, ok'⟩ := Ref.lruOk_del s k rest hl ok
        obtain ⟨j, h1, h2, h3, h4, h5, h6, h7⟩ := ih (s.del k) (acc ++ freeToks s.own (some k) v) ok' (by rw [e]; rw [hl] at hf; simpa using hf)
        refine ⟨j + 1, ?_, ?_, ?_, ?_, h5, h6, h7⟩
        · rw [h1, e]; simp
        · rw [h2, e]; simp [hv]
          have hnd := ok.1
          rw [hl, List.nodup_cons] at hnd
          apply flatMap_congr'
          intro x hx
          have : x ≠ k := fun hh => hnd.1 (hh ▸ List.mem_of_mem_take hx)
          show freeToks s.own (some x) ((if x = k then none else s.f x).getD 0) = _
          simp [this]
        · intro k'
          rw [h3, e]
          show (if k' ∈ List.take j rest then none else if k' = k then none else s.f k') = _
          simp only [List.take_succ_cons, List.mem_cons]
          by_cases hk : k' = k <;> by_cases hm : k' ∈ List.take j rest <;> simp [hk, hm]
        · rw [h4]; show s.n - 1 - j = s.n - (j + 1); omega
      · rename_i hc
        exact ⟨0, by simp [hl], by simp, by simp, by simp, rfl, rfl, Or.inr hc⟩

end IwModel.HMap
