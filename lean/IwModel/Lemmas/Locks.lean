import IwModel.Model.Locks
import IwModel.Lemmas.LockSys
/-! Link between the executable call automata (`Model/Locks.lean`) and the transition system
(`Model/LockSys.lean`): the abstract program of a recorded call, and the fact that an accepted recording
yields a program that respects the declared order. -/
namespace IwModel.Locks
open IwModel.LockSys

/-- What the worker mutex is taken for, per call kind, in order of occurrence: a cursor open adds a unit to
    the worker count, a close (or a failed open) gives it back. Every other acquisition of the worker
    mutex is the exclusive hand-shake and is followed by the wait for the count to become zero. -/
def wkActs : Kind → List (Act Lk)
  | .copen _ => [.inc]
  | .copenFail _ => [.inc, .dec]
  | .cclose _ => [.dec]
  | _ => []

/-- Abstract program of a recorded event sequence. Recorded condition waits are dropped (they show only the
    iterations that really slept) and the wait loop is put after the acquisition of the worker mutex instead;
    a timed wait of the checkpoint thread releases and re-acquires its mutex. -/
def toActsAux : List (Act Lk) → List Ev → List (Act Lk)
  | _, [] => []
  | ins, .acq l ex :: es =>
    if l = .wk ∧ ex = true then
      match ins with
      | a :: ins' => .acq l ex :: a :: toActsAux ins' es
      | [] => .acq l ex :: .wait .wk :: toActsAux [] es
    else .acq l ex :: toActsAux ins es
  | ins, .rel l :: es => .rel l :: toActsAux ins es
  | ins, .wait _ :: es => toActsAux ins es
  | ins, .twait l :: es => .rel l :: .acq l true :: toActsAux ins es

def toActs (k : Kind) (tr : List Ev) : List (Act Lk) := toActsAux (wkActs k) tr

/-- the calls of one thread, in program order -/
def sessionActs (calls : List (Kind × List Ev)) : List (Act Lk) :=
  calls.flatMap fun c => toActs c.1 c.2

theorem below_wk_nil {h : Held} (hb : below h .wk = true) : h = [] := by
  cases h with
  | nil => rfl
  | cons p t =>
    simp [below, Lk.rank] at hb

theorem below_spec {h : Held} {l : Lk} (hb : below h l = true) : ∀ q ∈ h, q.1.rank < l.rank := by
  intro q hq
  have := List.all_eq_true.mp hb q hq
  simpa using this

theorem release_eq_dropLock (h : Held) (l : Lk) : release h l = dropLock h l := rfl

/-- the only actions `toActsAux` inserts out of a fixed list are `inc`/`dec` -/
def CountOnly (ins : List (Act Lk)) : Prop := ∀ a ∈ ins, a = .inc ∨ a = .dec

/-- An event sequence that passes the order check gives a program that respects the order, whatever program
    follows it from the resulting held set. -/
theorem ordered_toActs (ins : List (Act Lk)) (hins : CountOnly ins) (tr : List Ev) (h h' : Held)
    (rest : List (Act Lk)) (hrun : runHeld h tr = some h') (hrest : OrderedFrom Lk.rank h' rest) :
    OrderedFrom Lk.rank h (toActsAux ins tr ++ rest) := by
  induction tr generalizing h ins with
  | nil =>
    simp only [runHeld] at hrun
    injection hrun with hrun
    subst hrun
    simpa [toActsAux] using hrest
  | cons e es ih =>
    simp only [runHeld] at hrun
    cases e with
    | acq l ex =>
      simp only [stepHeld] at hrun
      by_cases hb : below h l = true
      · rw [if_pos hb] at hrun
        by_cases hl : l = .wk ∧ ex = true
        · obtain ⟨hl1, hl2⟩ := hl
          subst hl1; subst hl2
          have hnil := below_wk_nil hb
          subst hnil
          cases ins with
          | nil =>
            simp only [toActsAux, and_self, if_true, List.cons_append]
            exact ⟨(by intro q hq; cases hq), rfl, ih [] (by intro a ha; cases ha) _ hrun⟩
          | cons a ins' =>
            simp only [toActsAux, and_self, if_true, List.cons_append]
            refine ⟨(by intro q hq; cases hq), ?_⟩
            have hins' : CountOnly ins' := fun b hb' => hins b (List.mem_cons_of_mem _ hb')
            rcases hins a (List.mem_cons_self) with ha | ha
            · subst ha; exact ih ins' hins' _ hrun
            · subst ha; exact ih ins' hins' _ hrun
        · simp only [toActsAux, if_neg hl, List.cons_append]
          exact ⟨below_spec hb, ih ins hins _ hrun⟩
      · rw [if_neg hb] at hrun; cases hrun
    | rel l =>
      simp only [stepHeld] at hrun
      by_cases hh : holds h l = true
      · rw [if_pos hh] at hrun
        simp only [toActsAux, List.cons_append, OrderedFrom]
        rw [← release_eq_dropLock]
        exact ih ins hins _ hrun
      · rw [if_neg hh] at hrun; cases hrun
    | wait l =>
      simp only [stepHeld] at hrun
      by_cases hh : (h == [(l, true)]) = true
      · rw [if_pos hh] at hrun
        simp only [toActsAux]
        exact ih ins hins _ hrun
      · rw [if_neg hh] at hrun; cases hrun
    | twait l =>
      simp only [stepHeld] at hrun
      by_cases hh : (h == [(l, true)]) = true
      · rw [if_pos hh] at hrun
        have hh' : h = [(l, true)] := by simpa using hh
        subst hh'
        simp only [toActsAux, List.cons_append, OrderedFrom]
        have hd : dropLock [(l, true)] l = [] := by simp [dropLock]
        rw [hd]
        exact ⟨(by intro q hq; cases hq), ih ins hins _ hrun⟩
      · rw [if_neg hh] at hrun; cases hrun

/-- along a sequence that passes the order and protection checks, an exclusive acquisition of the allocator or
    the file lock finds a writer lock (database write lock or store write lock) held -/
theorem protected_split (l : Lk) (hl : l = .alloc ∨ l = .file) (pre post : List Ev) (h0 hend : Held)
    (hrun : runHeld h0 (pre ++ .acq l true :: post) = some hend)
    (hprot : protectedFrom h0 (pre ++ .acq l true :: post) = true) :
    ∃ h, runHeld h0 pre = some h ∧ holdsWriter h = true := by
  induction pre generalizing h0 with
  | nil =>
    refine ⟨h0, rfl, ?_⟩
    simp only [List.nil_append, protectedFrom, Bool.and_eq_true] at hprot
    rcases hl with hl | hl <;> subst hl <;> simpa [Lk.outer, innerAllowed] using hprot.1
  | cons e pre' ih =>
    simp only [List.cons_append, runHeld] at hrun
    cases hs : stepHeld h0 e with
    | none => rw [hs] at hrun; cases hrun
    | some h1 =>
      rw [hs] at hrun
      simp only [List.cons_append, protectedFrom, hs, Bool.and_eq_true] at hprot
      obtain ⟨h, hr, hw⟩ := ih h1 hrun hprot.2
      exact ⟨h, by simp only [runHeld, hs]; exact hr, hw⟩

/-- which locks prefer writers: `iwkv->rwl` and `db->rwl` are created with
    `PTHREAD_RWLOCK_PREFER_WRITER_NONRECURSIVE_NP`; allocator and file locks have default attributes -/
def prefLk : Lk → Bool
  | .store => true
  | .db _ => true
  | _ => false

/-- the system of `n` client threads (and background threads) where thread `i` makes the calls `sess i`,
    each with a lock-event sequence of its call automaton -/
def initSys (n : Nat) (sess : Nat → List (Kind × List Ev)) : Sys Lk :=
  { n := n, thr := fun i => { prog := sessionActs (sess i), held := [], sleeping := false, units := 0 } }

theorem countOnly_wkActs (k : Kind) : CountOnly (wkActs k) := by
  intro a ha
  cases k <;> simp [wkActs] at ha <;> (try rcases ha with h | h) <;> simp_all

theorem accepts_ordered {k : Kind} {tr : List Ev} (h : accepts k tr = true) : runHeld [] tr = some [] := by
  simp only [accepts, Bool.and_eq_true] at h
  have := h.1.1.1
  simpa [ordered] using this


end IwModel.Locks
