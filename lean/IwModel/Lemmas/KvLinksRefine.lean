import IwModel.Lemmas.Kv
import IwModel.Lemmas.KvLinks
/-! The explicit-link model (`Model/KvLinks.lean`) driven by the node model of C01 (`Model/Kv.lean`).

`Kv.put` creates at most one node, always at index `routeIdx` (the number of nodes `_lx_find_bounds` passes)
and with level `clampLvl`; `Kv.del` destroys at most the node `routeIdx - 1`.  `runBoth` performs the same
history on both models: the link model takes a structural step exactly when the node model's node count
changes.  The level sequences stay equal and the link clause holds throughout. -/
namespace IwModel.KvLinks
open IwModel.Kv

section
variable {K V : Type} (gt : K → K → Bool)

/-- the level sequence of the node model -/
def lvls (d : Kv.Db K V) : List Nat := d.nodes.map (·.lvl)

theorem routeIdx_le (k : K) (ns : List (Node K V)) : routeIdx gt k ns ≤ ns.length := by
  induction ns with
  | nil => simp [routeIdx]
  | cons n rest ih =>
    simp only [routeIdx]
    split
    · split <;> simp <;> omega
    · simp; omega

theorem nodes_split {ns : List (Node K V)} {li : Nat} {lower : Node K V} (h : ns[li]? = some lower) :
    ns = ns.take li ++ lower :: ns.drop (li + 1) := by
  obtain ⟨hlt, he⟩ := List.getElem?_eq_some_iff.1 h
  conv => lhs; rw [← List.take_append_drop li ns, List.drop_eq_getElem_cons hlt, he]

theorem lvls_same {ns : List (Node K V)} {li : Nat} {lower x : Node K V} (h : ns[li]? = some lower) (hx : x.lvl = lower.lvl) :
    (ns.take li ++ x :: ns.drop (li + 1)).map (·.lvl) = ns.map (·.lvl) := by
  conv => rhs; rw [nodes_split h]
  simp [hx]

theorem lvls_same2 {ns : List (Node K V)} {li : Nat} {lower u u' : Node K V} {rest : List (Node K V)} (h : ns[li]? = some lower)
    (hp : ns.drop (li + 1) = u :: rest) (hu : u'.lvl = u.lvl) :
    (ns.take li ++ lower :: u' :: rest).map (·.lvl) = ns.map (·.lvl) := by
  conv => rhs; rw [nodes_split h, hp]
  simp [hu]

theorem lvls_ins {ns : List (Node K V)} {li : Nat} {lower x y : Node K V} (h : ns[li]? = some lower) (hx : x.lvl = lower.lvl) :
    (ns.take li ++ x :: y :: ns.drop (li + 1)).map (·.lvl) =
      (ns.map (·.lvl)).take (li + 1) ++ y.lvl :: (ns.map (·.lvl)).drop (li + 1) := by
  obtain ⟨hlt, he⟩ := List.getElem?_eq_some_iff.1 h
  have e : (ns.map (·.lvl)).take (li + 1) = (ns.take li).map (·.lvl) ++ [lower.lvl] := by
    rw [← List.map_take, List.take_add_one, h]; simp
  rw [e]; simp [hx]

/-- `Kv.put` leaves the level sequence alone or inserts the clamped level at index `routeIdx` -/
theorem put_levels (d : Kv.Db K V) (k : K) (v : V) (now : Bool) (lr : Nat) :
    lvls (put gt d k v now lr).1 = lvls d ∨
    lvls (put gt d k v now lr).1 =
      (lvls d).take (routeIdx gt k d.nodes) ++ clampLvl d.nodes lr :: (lvls d).drop (routeIdx gt k d.nodes) := by
  unfold put
  simp only []
  split
  · rename_i hr
    rw [hr]
    split
    · rename_i u rest hn
      split
      · left; simp [lvls, mapCurs, hn]
      · right; simp [lvls, mapCurs, hn]
    · rename_i hn
      right; simp [lvls, hn]
  · rename_i hr
    split
    · left; rfl
    · rename_i lower hlow
      have hr1 : routeIdx gt k d.nodes = routeIdx gt k d.nodes - 1 + 1 := by omega
      split
      · split
        · left; rfl
        · left; exact lvls_same hlow rfl
      · split
        · split
          · split
            · rename_i u rest hpost
              left
              exact lvls_same2 hlow hpost rfl
            · left; rfl
          · split
            · right
              simp only [lvls, mapCurs]
              rw [hr1, ← hr1]
              conv => rhs; rw [hr1]
              exact lvls_ins hlow rfl
            · split
              · right
                simp only [lvls, mapCurs]
                conv => rhs; rw [hr1]
                exact lvls_ins hlow rfl
              · right
                simp only [lvls, mapCurs]
                conv => rhs; rw [hr1]
                exact lvls_ins hlow rfl
        · left; exact lvls_same hlow rfl

/-- `Kv.del` leaves the level sequence alone or erases entry `routeIdx - 1` -/
theorem del_levels (d : Kv.Db K V) (k : K) :
    lvls (del gt d k).1 = lvls d ∨
    (lvls (del gt d k).1 = (lvls d).eraseIdx (routeIdx gt k d.nodes - 1) ∧ routeIdx gt k d.nodes - 1 < d.nodes.length) := by
  unfold del
  simp only []
  split
  · left; rfl
  · split
    · left; rfl
    · rename_i lower hlow
      split
      · left; rfl
      · unfold delAt
        simp only [hlow]
        split
        · right
          obtain ⟨hlt, _⟩ := List.getElem?_eq_some_iff.1 hlow
          refine ⟨?_, hlt⟩
          simp only [lvls, mapCurs, List.eraseIdx_eq_take_drop_succ]
          simp
        · left
          simp only [lvls, mapCurs]
          exact lvls_same hlow rfl

/-- a block number that is not in use -/
def freshId (s : LDb) : Nat := (s.heap.map (·.id)).foldr max s.blk + 1

theorem le_foldr_max (l : List Nat) (d : Nat) : d ≤ l.foldr max d ∧ ∀ x ∈ l, x ≤ l.foldr max d := by
  induction l with
  | nil => simp
  | cons a r ih =>
    simp only [List.foldr_cons]
    refine ⟨Nat.le_trans ih.1 (Nat.le_max_right _ _), ?_⟩
    intro x hx
    rcases List.mem_cons.1 hx with rfl | hx
    · exact Nat.le_max_left _ _
    · exact Nat.le_trans (ih.2 x hx) (Nat.le_max_right _ _)

theorem freshId_ok (s : LDb) : freshId s ≠ 0 ∧ freshId s ≠ s.blk ∧ freshId s ∉ s.heap.map (·.id) := by
  have h := le_foldr_max (s.heap.map (·.id)) s.blk
  refine ⟨by simp [freshId], by simp only [freshId]; omega, ?_⟩
  intro hm
  have := h.2 _ hm
  simp only [freshId] at this
  omega

/-- level a call may give to a node it creates -/
def opLvl : Op K V → Nat
  | .put _ _ l => l
  | .putNoOverwrite _ _ l => l
  | _ => 0

/-- the structural step of the link model that goes with one call on the node model: a node is created
    (`_lx_split_addkv`) exactly when the node count grows, at the position `_lx_find_bounds` stopped at and
    with the level `_sblk_genlevel` clamps to; a node is destroyed (`_lx_del_sblk_lw`) exactly when the count
    shrinks -/
def linkStep (d : Kv.Db K V) (s : LDb) : Op K V → LDb
  | .put k v lr =>
    if (put gt d k v false lr).1.nodes.length = d.nodes.length + 1
    then insertAt s (routeIdx gt k d.nodes) (freshId s) (clampLvl d.nodes lr) else s
  | .putNoOverwrite k v lr =>
    if (put gt d k v true lr).1.nodes.length = d.nodes.length + 1
    then insertAt s (routeIdx gt k d.nodes) (freshId s) (clampLvl d.nodes lr) else s
  | .del k =>
    if (del gt d k).1.nodes.length + 1 = d.nodes.length then removeAt s (routeIdx gt k d.nodes - 1) else s
  | .get _ => s

/-- both models through a history -/
def runBoth : Kv.Db K V → LDb → List (Op K V) → Kv.Db K V × LDb
  | d, s, [] => (d, s)
  | d, s, op :: ops => runBoth (stepNode gt d op).1 (linkStep gt d s op) ops

theorem clampLvl_le (ns : List (Node K V)) (l : Nat) : clampLvl ns l ≤ l := by
  induction l with
  | zero => simp [clampLvl]
  | succ l ih => simp only [clampLvl]; split <;> omega

theorem put_step (d : Kv.Db K V) (s : LDb) (k : K) (v : V) (now : Bool) (lr : Nat) (h : LinkInv s)
    (hl : levels s = lvls d) (hlr : lr < SLEVELS) :
    LinkInv (if (put gt d k v now lr).1.nodes.length = d.nodes.length + 1
      then insertAt s (routeIdx gt k d.nodes) (freshId s) (clampLvl d.nodes lr) else s) ∧
    levels (if (put gt d k v now lr).1.nodes.length = d.nodes.length + 1
      then insertAt s (routeIdx gt k d.nodes) (freshId s) (clampLvl d.nodes lr) else s) = lvls (put gt d k v now lr).1 := by
  have hlen : ∀ e : Kv.Db K V, e.nodes.length = (lvls e).length := by intro e; simp [lvls]
  have hr := routeIdx_le gt k d.nodes
  rcases put_levels gt d k v now lr with he | he
  · have : ¬ (put gt d k v now lr).1.nodes.length = d.nodes.length + 1 := by rw [hlen, he, ← hlen]; omega
    rw [if_neg this]
    exact ⟨h, by rw [hl, he]⟩
  · have : (put gt d k v now lr).1.nodes.length = d.nodes.length + 1 := by
      rw [hlen, he, hlen d]; simp; rw [← hlen] ; omega
    rw [if_pos this]
    have hf := freshId_ok s
    have hfo : freshId s ∉ order s := fun hm => hf.2.2 ((h.order_perm.mem_iff).1 hm)
    have := h.insertAt (routeIdx gt k d.nodes) (freshId s) (clampLvl d.nodes lr) hf.1 hf.2.1 hfo
      (Nat.lt_of_le_of_lt (clampLvl_le _ _) hlr)
    exact ⟨this.1, by rw [this.2.2, hl, he]⟩

theorem link_step (d : Kv.Db K V) (s : LDb) (op : Op K V) (h : LinkInv s) (hl : levels s = lvls d)
    (hop : opLvl op < SLEVELS) :
    LinkInv (linkStep gt d s op) ∧ levels (linkStep gt d s op) = lvls (stepNode gt d op).1 := by
  cases op with
  | put k v lr => exact put_step gt d s k v false lr h hl hop
  | putNoOverwrite k v lr => exact put_step gt d s k v true lr h hl hop
  | get k => exact ⟨h, hl⟩
  | del k =>
    simp only [linkStep, stepNode]
    have hlen : ∀ e : Kv.Db K V, e.nodes.length = (lvls e).length := by intro e; simp [lvls]
    rcases del_levels gt d k with he | ⟨he, hlt⟩
    · have : ¬ (del gt d k).1.nodes.length + 1 = d.nodes.length := by rw [hlen, he, ← hlen]; omega
      rw [if_neg this]
      exact ⟨h, by rw [hl, he]⟩
    · have : (del gt d k).1.nodes.length + 1 = d.nodes.length := by
        rw [hlen, he, List.length_eraseIdx, ← hlen]; rw [if_pos hlt]; omega
      rw [if_pos this]
      have hpos : routeIdx gt k d.nodes - 1 < (order s).length := by
        have : (order s).length = (levels s).length := by simp [levels]
        rw [this, hl, ← hlen]; exact hlt
      have := h.removeAt _ hpos
      exact ⟨this.1, by rw [this.2.2, hl, he]⟩

/-- **the two models agree**: through every history (levels below `SLEVELS`) the link model keeps the link
    clause and its level-0 sequence of levels is the one of the node model of C01 -/
theorem runBoth_refines (d : Kv.Db K V) (s : LDb) (ops : List (Op K V)) (h : LinkInv s) (hl : levels s = lvls d)
    (hops : ∀ op ∈ ops, opLvl op < SLEVELS) :
    LinkInv (runBoth gt d s ops).2 ∧ levels (runBoth gt d s ops).2 = lvls (runBoth gt d s ops).1 ∧
    (runBoth gt d s ops).1 = (runNode gt d ops).1 := by
  induction ops generalizing d s with
  | nil => exact ⟨h, hl, rfl⟩
  | cons op ops ih =>
    have hs := link_step gt d s op h hl (hops op (by simp))
    have := ih (stepNode gt d op).1 (linkStep gt d s op) hs.1 hs.2 (fun o ho => hops o (by simp [ho]))
    simpa [runBoth, runNode] using this

end
end IwModel.KvLinks
