import IwModel.Model.Exec
/-! Invariants of the executor transition systems and their preservation by every step.
The step functions are unfolded into their branches and every branch is closed by `grind`. -/
namespace IwModel.Exec

theorem mem_setAt {α} {l : List α} {i : Nat} {x c : α} (h : c ∈ setAt l i x) : c = x ∨ c ∈ l := by
  unfold setAt at h
  rcases List.mem_or_eq_of_mem_set h with h | h
  · exact Or.inr h
  · exact Or.inl h

theorem wake_blocked_false {l : List CPc} {t : Task} : CPc.blocked t false ∉ l.map wakeClient := by
  intro h
  rcases List.mem_map.1 h with ⟨c0, _, h1⟩
  cases c0 <;> simp [wakeClient] at h1

theorem wake_blocked {l : List CPc} {t : Task} {b : Bool} (h : CPc.blocked t b ∈ l.map wakeClient) :
    ∃ b', CPc.blocked t b' ∈ l := by
  rcases List.mem_map.1 h with ⟨c0, h0, h1⟩
  cases c0 <;> simp [wakeClient] at h1
  exact ⟨_, h1.1 ▸ h0⟩

theorem wake_joining {l : List CPc} {k : Nat} (h : CPc.joining k ∈ l.map wakeClient) : CPc.joining k ∈ l := by
  rcases List.mem_map.1 h with ⟨c0, h0, h1⟩
  cases c0 <;> simp [wakeClient] at h1
  exact h1 ▸ h0

theorem wEnabled_cases (w : WPc) : wEnabled w = true ∨ w = .wait false ∨ w = .exited := by
  cases w <;> simp [wEnabled]
  rename_i b; cases b <;> simp

@[simp] theorem discardsOf_map (q : List Task) : discardsOf (q.map Ev.discard) = q := by
  induction q with
  | nil => rfl
  | cons a q ih => simp_all [discardsOf]

@[simp] theorem discardsOf_append (a b : List Ev) : discardsOf (a ++ b) = discardsOf a ++ discardsOf b := by
  simp [discardsOf]

@[simp] theorem discardsOf_nil : discardsOf [] = [] := rfl

@[simp] theorem discardsOf_cons (e : Ev) (l : List Ev) :
    discardsOf (e :: l) = (match e with | .discard t => [t] | _ => []) ++ discardsOf l := by
  cases e <;> simp [discardsOf]

namespace Stw

structure InvQ (s : Stw) : Prop where
  fixed : s.v = {}
  cnt_len : s.cnt = s.queue.length
  bound : s.limit ≠ 0 → s.queue.length ≤ s.limit

set_option maxHeartbeats 400000 in
theorem invQ_step {s : Stw} (h : InvQ s) (l : Label) : InvQ (s.step l).1 := by
  obtain ⟨h1, h2, h3⟩ := h
  cases l with
  | call i c => simp only [step]; repeat' split
                all_goals exact ⟨h1, h2, h3⟩
  | spur th => cases th <;> simp only [step] <;> repeat' split
               all_goals exact ⟨h1, h2, h3⟩
  | step th sel =>
    cases th with
    | worker k =>
      simp only [step, workerStep, unblock]
      repeat' split
      all_goals (constructor <;> simp_all <;> try omega)
    | client i =>
      simp only [step, clientStep, schedLoop, enqueue, ret, discardEvents, full]
      repeat' split
      all_goals (constructor <;> simp_all <;> (repeat' split) <;> (try simp_all) <;> try omega)


def runningOf : WPc → List Task
  | .run t => [t]
  | _ => []

structure InvH (s : Stw) : Prop where
  conserve : ∀ t, s.accepted.count t = s.started.count t + s.queue.count t + s.dropped.count t
  fifo : (s.started ++ s.queue).Sublist s.accepted
  started_eq : s.started = s.finished ++ runningOf s.w
  reported_eq : s.reported = if s.hasCb then s.dropped else []
  no_crash : s.crashed = false

theorem sub_enq {a b c : List Task} (t : Task) (h : (a ++ b).Sublist c) : (a ++ (b ++ [t])).Sublist (c ++ [t]) := by
  rw [← List.append_assoc]; exact List.Sublist.append h (List.Sublist.refl _)
theorem sub_drop {a b c : List Task} (h : (a ++ b).Sublist c) : (a ++ []).Sublist c := by
  simpa using (List.sublist_append_left a b).trans h
theorem sub_only {a b c : List Task} (t : Task) (h : (a ++ b).Sublist c) : (a ++ [t]).Sublist (c ++ [t]) :=
  List.Sublist.append ((List.sublist_append_left a b).trans h) (List.Sublist.refl _)
theorem sub_pop {a b c : List Task} (t : Task) (h : (a ++ t :: b).Sublist c) : ((a ++ [t]) ++ b).Sublist c := by
  simpa using h

theorem run_wake (w : WPc) : runningOf (wakeWorker w) = runningOf w := by cases w <;> rfl

set_option maxHeartbeats 1000000 in
theorem invH_step {s : Stw} (hv : s.v = {}) (hi : ∀ b, s.w ≠ .init b) (h : InvH s) (l : Label) : InvH (s.step l).1 := by
  obtain ⟨hc, hf, hs, hr, hn⟩ := h
  cases l with
  | call i c => simp only [step]; repeat' split
                all_goals exact ⟨hc, hf, hs, hr, hn⟩
  | spur th => cases th <;> simp only [step] <;> repeat' split
               all_goals (first | exact ⟨hc, hf, hs, hr, hn⟩ | (constructor <;> grind [runningOf, run_wake, sub_enq, sub_drop, sub_only, sub_pop, wakeWorker]))
  | step th sel =>
    cases th with
    | worker k =>
      simp only [step, workerStep, unblock]
      repeat' split
      all_goals (first | exact ⟨hc, hf, hs, hr, hn⟩ | (constructor <;> grind [runningOf, run_wake, sub_enq, sub_drop, sub_only, sub_pop, wakeWorker]))
    | client i =>
      simp only [step, clientStep, schedLoop, enqueue, ret, discardEvents, full, hv]
      repeat' split
      all_goals (first | exact ⟨hc, hf, hs, hr, hn⟩ | (constructor <;> grind [runningOf, run_wake, sub_enq, sub_drop, sub_only, sub_pop, wakeWorker]))


structure InvS (s : Stw) : Prop where
  qb_limit : s.queueBlocked = true → s.limit ≠ 0
  w_wait : s.w = .wait false → s.queue = [] ∧ s.shutdown = false ∧ s.queueBlocked = false
  w_exit : s.w = .exited → s.shutdown = true ∧ s.queue = []
  w_init : ∀ b, s.w ≠ .init b
  c_blocked : ∀ t, CPc.blocked t false ∈ s.clients → s.queueBlocked = true ∧ s.shutdown = false
  c_blocking : ∀ t b, CPc.blocked t b ∈ s.clients → s.blocking = true ∧ s.limit ≠ 0
  c_join : ∀ k, CPc.joining k ∈ s.clients → s.shutdown = true
  freed_exit : s.freed = true → s.w = .exited

theorem client_mem {s : Stw} {i : Nat} {c : CPc} (h : s.client i = c) (hc : c ≠ .idle) : c ∈ s.clients := by
  unfold client at h
  rw [List.getD_eq_getElem?_getD] at h
  cases hg : s.clients[i]? with
  | none => simp [hg] at h; exact absurd h.symm hc
  | some x => simp [hg] at h; subst h; exact List.mem_of_getElem? hg

theorem wake_cases (w : WPc) : (∃ b, w = .wait b ∧ wakeWorker w = .wait true) ∨ ((∀ b, w ≠ .wait b) ∧ wakeWorker w = w) := by
  cases w <;> simp [wakeWorker]

theorem wake_ne (w : WPc) : wakeWorker w ≠ .wait false := by cases w <;> simp [wakeWorker]

set_option hygiene false in
macro "closeS" : tactic => `(tactic| (
  have hw := wake_cases s.w
  have m1 := @wake_blocked_false s.clients
  have m2 := @wake_blocked s.clients
  have m3 := @wake_joining s.clients
  generalize s.clients.map wakeClient = cl' at *
  constructor <;> grind [mem_setAt, client_mem, wake_ne]))

set_option maxHeartbeats 2000000 in
theorem invS_step {s : Stw} (hq : InvQ s) (h : InvS s) (l : Label) : InvS (s.step l).1 := by
  obtain ⟨hv, hq1, hq2⟩ := hq
  obtain ⟨h1, h2, h3, h4, h5, h6, h7, h8⟩ := h
  cases l with
  | call i c => simp only [step]; repeat' split
                all_goals (first | exact ⟨h1, h2, h3, h4, h5, h6, h7, h8⟩ | (constructor <;> grind [mem_setAt]))
  | spur th => cases th <;> simp only [step] <;> repeat' split
               all_goals (first | exact ⟨h1, h2, h3, h4, h5, h6, h7, h8⟩ | (constructor <;> grind [mem_setAt, client_mem]))
  | step th sel =>
    cases th with
    | worker k =>
      simp only [step, workerStep, unblock]
      repeat' split
      all_goals (first | exact ⟨h1, h2, h3, h4, h5, h6, h7, h8⟩ | closeS)
    | client i =>
      simp only [step, clientStep, schedLoop, enqueue, ret, discardEvents, full, hv]
      repeat' split
      all_goals (first | exact ⟨h1, h2, h3, h4, h5, h6, h7, h8⟩ | closeS)


/-- all invariants of the single-thread worker -/
structure Inv (s : Stw) : Prop where
  q : InvQ s
  h : InvH s
  s : InvS s

theorem inv_init (limit : Nat) (blocking hasCb : Bool) (n : Nat) : Inv (init limit blocking hasCb n) := by
  refine ⟨⟨rfl, rfl, by simp [init]⟩, ⟨by simp [init], by simp [init], by simp [init, runningOf], ?_, rfl⟩, ?_⟩
  · cases hasCb <;> rfl
  · constructor <;> simp [init, List.mem_replicate]

theorem inv_step {s : Stw} (h : Inv s) (l : Label) : Inv (s.step l).1 :=
  ⟨invQ_step h.q l, invH_step h.q.fixed h.s.w_init h.h l, invS_step h.q h.s l⟩

theorem inv_run {s : Stw} (h : Inv s) (ls : List Label) : Inv (s.run ls) := by
  induction ls generalizing s with
  | nil => exact h
  | cons l ls ih => exact ih (inv_step h l)

end Stw
end IwModel.Exec
