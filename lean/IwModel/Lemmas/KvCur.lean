import IwModel.Lemmas.Kv
/-! Helper lemmas for C09 (open cursors while the store changes).

A cursor position `.at i j s` is viewed through its *flat index* `flatIdx ns i j` into
`flatten ns`; what the cursor has yet to return (`aheadN` going forward, `aheadP` going backward)
is a suffix / prefix of `flatten ns` determined by that index and the sign of `skip_next`.
Every fix-up of `Model/Kv.lean` is shown to move the flat index exactly as the insertion / removal
moves the record the cursor stands on; list-level lemmas then give the statements about `aheadN`
and `aheadP`. Property theorems live in `Props/C09.lean`. -/
namespace IwModel.Kv

section
variable {K V : Type}

/-! ### positions, flat indices, what lies ahead -/

/-- number of records in the first `i` nodes -/
def offs (ns : List (Node K V)) (i : Nat) : Nat := (flatten (ns.take i)).length

/-- index into `flatten ns` of slot `j` of node `i` -/
def flatIdx (ns : List (Node K V)) (i j : Nat) : Nat := offs ns i + j

/-- the position is usable: pseudo positions always, `.at i j _` when slot `j` of node `i` exists -/
def CurOk (ns : List (Node K V)) : CPos → Prop
  | .at i j _ => ∃ nd, ns[i]? = some nd ∧ j < nd.recs.length
  | _ => True

/-- what NEXT has yet to return from position `p`, in order -/
def aheadN (ns : List (Node K V)) : CPos → List (K × V)
  | .head => flatten ns
  | .tail => []
  | .void => []
  | .at i j s => if s > 0 then (flatten ns).drop (flatIdx ns i j) else (flatten ns).drop (flatIdx ns i j + 1)

/-- what PREV has yet to return from position `p` (PREV returns it from the back) -/
def aheadP (ns : List (Node K V)) : CPos → List (K × V)
  | .head => []
  | .tail => flatten ns
  | .void => []
  | .at i j s => if s < 0 then (flatten ns).take (flatIdx ns i j + 1) else (flatten ns).take (flatIdx ns i j)

/-- a position seen in `flatten ns` -/
inductive FPos where
  | head | tail | void
  | at (f : Nat) (s : Int)

def toFlat (ns : List (Node K V)) : CPos → FPos
  | .head => .head
  | .tail => .tail
  | .void => .void
  | .at i j s => .at (flatIdx ns i j) s

def aheadNF (l : List (K × V)) : FPos → List (K × V)
  | .head => l
  | .tail => []
  | .void => []
  | .at f s => if s > 0 then l.drop f else l.drop (f + 1)

def aheadPF (l : List (K × V)) : FPos → List (K × V)
  | .head => []
  | .tail => l
  | .void => []
  | .at f s => if s < 0 then l.take (f + 1) else l.take f

theorem aheadN_flat (ns : List (Node K V)) (p : CPos) : aheadN ns p = aheadNF (flatten ns) (toFlat ns p) := by
  cases p <;> rfl

theorem aheadP_flat (ns : List (Node K V)) (p : CPos) : aheadP ns p = aheadPF (flatten ns) (toFlat ns p) := by
  cases p <;> rfl

/-! ### list level: a record inserted into / removed from `l1 ++ l2` -/

section ListLevel
variable {α : Type} {P : α → Bool} {l1 l2 : List α} {x : α}

theorem filter_id_of_sublist {l m : List α} (hm : ∀ r ∈ m, P r = true) (hs : l.Sublist m) : l.filter P = l :=
  List.filter_eq_self.2 fun a ha => hm a (hs.subset ha)

theorem drop_ins_le (hx : P x = false) (hl : ∀ r ∈ l1 ++ l2, P r = true) {g : Nat} (hg : g ≤ l1.length) :
    ((l1 ++ x :: l2).drop g).filter P = (l1 ++ l2).drop g := by
  rw [List.drop_append_of_le_length hg, List.drop_append_of_le_length hg, List.filter_append,
    List.filter_cons, hx]
  simp only [Bool.false_eq_true, if_false]
  rw [filter_id_of_sublist hl ((List.drop_sublist g l1).trans (List.sublist_append_left l1 l2)),
    filter_id_of_sublist hl (List.sublist_append_right l1 l2)]

theorem drop_ins_gt {g : Nat} (hg : l1.length ≤ g) :
    (l1 ++ x :: l2).drop (g + 1) = (l1 ++ l2).drop g := by
  rw [List.drop_append, List.drop_append, List.drop_of_length_le (by omega), List.drop_of_length_le hg]
  have : g + 1 - l1.length = (g - l1.length) + 1 := by omega
  rw [this, List.drop_succ_cons]

theorem take_ins_le {g : Nat} (hg : g ≤ l1.length) :
    (l1 ++ x :: l2).take g = (l1 ++ l2).take g := by
  rw [List.take_append_of_le_length hg, List.take_append_of_le_length hg]

theorem take_ins_gt (hx : P x = false) (hl : ∀ r ∈ l1 ++ l2, P r = true) {g : Nat} (hg : l1.length ≤ g) :
    ((l1 ++ x :: l2).take (g + 1)).filter P = (l1 ++ l2).take g := by
  rw [List.take_append, List.take_append, List.take_of_length_le (by omega), List.take_of_length_le hg]
  have : g + 1 - l1.length = (g - l1.length) + 1 := by omega
  rw [this, List.take_succ_cons, List.filter_append, List.filter_cons, hx]
  simp only [Bool.false_eq_true, if_false]
  rw [filter_id_of_sublist hl (List.sublist_append_left l1 l2),
    filter_id_of_sublist hl ((List.take_sublist _ l2).trans (List.sublist_append_right l1 l2))]

end ListLevel

/-- how an insertion at flat index `F` moves a flat position -/
def shiftIns (F : Nat) : FPos → FPos
  | .at f s => .at (if f ≥ F then f + 1 else f) s
  | q => q

/-- list level, insertion: filtering the newborn out of what lies ahead after the insertion gives
    what lay ahead before -/
theorem ins_flat {P : K × V → Bool} {l1 l2 : List (K × V)} {x : K × V} (hx : P x = false)
    (hl : ∀ r ∈ l1 ++ l2, P r = true) (q : FPos) :
    (aheadNF (l1 ++ x :: l2) (shiftIns l1.length q)).filter P = aheadNF (l1 ++ l2) q ∧
    (aheadPF (l1 ++ x :: l2) (shiftIns l1.length q)).filter P = aheadPF (l1 ++ l2) q := by
  have hall : ((l1 ++ x :: l2)).filter P = l1 ++ l2 := by
    have := drop_ins_le hx hl (g := 0) (Nat.zero_le _)
    simpa using this
  cases q with
  | head => exact ⟨hall, rfl⟩
  | tail => exact ⟨rfl, hall⟩
  | void => exact ⟨rfl, rfl⟩
  | «at» f s =>
    simp only [shiftIns, aheadNF, aheadPF]
    by_cases hf : f ≥ l1.length
    · simp only [hf, if_true]
      refine ⟨?_, ?_⟩
      · split
        · rw [drop_ins_gt hf]
          exact filter_id_of_sublist hl (List.drop_sublist _ _)
        · rw [drop_ins_gt (by omega)]
          exact filter_id_of_sublist hl (List.drop_sublist _ _)
      · split
        · exact take_ins_gt hx hl (by omega)
        · exact take_ins_gt hx hl hf
    · simp only [hf, if_false]
      refine ⟨?_, ?_⟩
      · split
        · exact drop_ins_le hx hl (by omega)
        · exact drop_ins_le hx hl (by omega)
      · split
        · rw [take_ins_le (by omega)]
          exact filter_id_of_sublist hl (List.take_sublist _ _)
        · rw [take_ins_le (by omega)]
          exact filter_id_of_sublist hl (List.take_sublist _ _)

/-- list level, removal of the record at flat index `F = l1.length`: positions before stay, positions
    after move down by one, a position on the removed record goes wherever NEXT resumes at the old
    successor and PREV at the old predecessor -/
theorem del_flat {P : K × V → Bool} {l1 l2 : List (K × V)} {x : K × V} (hx : P x = false)
    (hl : ∀ r ∈ l1 ++ l2, P r = true) (q q' : FPos)
    (hh : q = .head → q' = .head) (ht : q = .tail → q' = .tail) (hv : q = .void → q' = .void)
    (hlt : ∀ f s, q = .at f s → f < l1.length → q' = .at f s)
    (hgt : ∀ f s, q = .at f s → f > l1.length → q' = .at (f - 1) s)
    (heq : ∀ s, q = .at l1.length s →
      aheadNF (l1 ++ l2) q' = (l1 ++ l2).drop l1.length ∧ aheadPF (l1 ++ l2) q' = (l1 ++ l2).take l1.length) :
    aheadNF (l1 ++ l2) q' = (aheadNF (l1 ++ x :: l2) q).filter P ∧
    aheadPF (l1 ++ l2) q' = (aheadPF (l1 ++ x :: l2) q).filter P := by
  have hall : ((l1 ++ x :: l2)).filter P = l1 ++ l2 := by
    have := drop_ins_le hx hl (g := 0) (Nat.zero_le _)
    simpa using this
  cases q with
  | head => rw [hh rfl]; exact ⟨hall.symm, rfl⟩
  | tail => rw [ht rfl]; exact ⟨rfl, hall.symm⟩
  | void => rw [hv rfl]; exact ⟨rfl, rfl⟩
  | «at» f s =>
    rcases Nat.lt_trichotomy f l1.length with hf | hf | hf
    · rw [hlt f s rfl hf]
      simp only [aheadNF, aheadPF]
      refine ⟨?_, ?_⟩
      · split
        · exact (drop_ins_le hx hl (by omega)).symm
        · exact (drop_ins_le hx hl (by omega)).symm
      · split
        · rw [take_ins_le (by omega)]
          exact (filter_id_of_sublist hl (List.take_sublist _ _)).symm
        · rw [take_ins_le (by omega)]
          exact (filter_id_of_sublist hl (List.take_sublist _ _)).symm
    · subst hf
      rw [(heq s rfl).1, (heq s rfl).2]
      simp only [aheadNF, aheadPF]
      refine ⟨?_, ?_⟩
      · split
        · exact (drop_ins_le hx hl (Nat.le_refl _)).symm
        · rw [drop_ins_gt (Nat.le_refl _)]
          exact (filter_id_of_sublist hl (List.drop_sublist _ _)).symm
      · split
        · exact (take_ins_gt hx hl (Nat.le_refl _)).symm
        · rw [take_ins_le (Nat.le_refl _)]
          exact (filter_id_of_sublist hl (List.take_sublist _ _)).symm
    · rw [hgt f s rfl hf]
      simp only [aheadNF, aheadPF]
      obtain ⟨g, rfl⟩ : ∃ g, f = g + 1 := ⟨f - 1, by omega⟩
      simp only [Nat.add_sub_cancel]
      refine ⟨?_, ?_⟩
      · split
        · rw [drop_ins_gt (by omega)]
          exact (filter_id_of_sublist hl (List.drop_sublist _ _)).symm
        · rw [drop_ins_gt (by omega)]
          exact (filter_id_of_sublist hl (List.drop_sublist _ _)).symm
      · split
        · exact (take_ins_gt hx hl (by omega)).symm
        · exact (take_ins_gt hx hl (by omega)).symm

/-! ### node level: offsets and positions -/

@[simp] theorem offs_nil (i : Nat) : offs ([] : List (Node K V)) i = 0 := by simp [offs]
@[simp] theorem offs_zero (ns : List (Node K V)) : offs ns 0 = 0 := by simp [offs]
@[simp] theorem offs_cons_succ (n : Node K V) (ns : List (Node K V)) (i : Nat) :
    offs (n :: ns) (i + 1) = n.recs.length + offs ns i := by simp [offs]

theorem offs_append (a b : List (Node K V)) (i : Nat) : offs (a ++ b) i = offs a i + offs b (i - a.length) := by
  simp [offs, List.take_append]

theorem offs_of_length_le {ns : List (Node K V)} {i : Nat} (h : ns.length ≤ i) : offs ns i = (flatten ns).length := by
  simp [offs, List.take_of_length_le h]

theorem offs_left {a b : List (Node K V)} {i : Nat} (h : i ≤ a.length) : offs (a ++ b) i = offs a i := by
  rw [offs_append]; have : i - a.length = 0 := by omega
  rw [this, offs_zero]; rfl

theorem offs_right {a b : List (Node K V)} {i : Nat} (h : a.length ≤ i) :
    offs (a ++ b) i = (flatten a).length + offs b (i - a.length) := by
  rw [offs_append, offs_of_length_le h]

theorem offs_succ {ns : List (Node K V)} {i : Nat} {nd : Node K V} (h : ns[i]? = some nd) :
    offs ns (i + 1) = offs ns i + nd.recs.length := by
  simp [offs, take_succ_of_getElem? h]

theorem offs_le (ns : List (Node K V)) (i : Nat) : offs ns i ≤ (flatten ns).length := by
  have : flatten ns = flatten (ns.take i) ++ flatten (ns.drop i) := by
    rw [← flatten_append, List.take_append_drop]
  rw [this, offs]; simp

/-- a usable `.at` position splits the chain and the node around its record -/
theorem curOk_split {ns : List (Node K V)} {i j : Nat} {s : Int} (h : CurOk ns (.at i j s)) :
    ∃ pre lower post t x u, ns = pre ++ lower :: post ∧ pre.length = i ∧ lower.recs = t ++ x :: u ∧ t.length = j := by
  obtain ⟨nd, hn, hj⟩ := h
  obtain ⟨pre, post, e, hl⟩ := exists_split_of_getElem? hn
  obtain ⟨x, hx⟩ : ∃ x, nd.recs[j]? = some x := ⟨_, List.getElem?_eq_getElem hj⟩
  obtain ⟨t, u, e2, hl2⟩ := exists_split_of_getElem? hx
  exact ⟨pre, nd, post, t, x, u, e, hl, e2, hl2⟩

/-- the record under a usable position is the record at its flat index -/
theorem flat_getElem {ns : List (Node K V)} {i j : Nat} {s : Int} (h : CurOk ns (.at i j s)) :
    ∃ r, (flatten ns)[flatIdx ns i j]? = some r ∧ (ns[i]?).bind (fun n => n.recs[j]?) = some r := by
  obtain ⟨pre, lower, post, t, x, u, e, hl, e2, hl2⟩ := curOk_split h
  refine ⟨x, ?_, ?_⟩
  · have hf : flatten ns = (flatten pre ++ t) ++ x :: (u ++ flatten post) := by
      rw [e, flatten_append, flatten_cons, e2]; simp only [List.append_assoc, List.cons_append]
    have hi : (flatten pre ++ t).length = flatIdx ns i j := by
      rw [flatIdx, e, offs_right (Nat.le_of_eq hl), hl, Nat.sub_self, offs_zero]; simp [hl2]
    rw [hf]; exact getElem?_mid hi
  · rw [e, getElem?_mid hl, Option.bind_some, e2, getElem?_mid hl2]

theorem curRec_at (d : Db K V) (i j : Nat) (s : Int) :
    curRec d (.at i j s) = (d.nodes[i]?).bind (fun n => n.recs[j]?) := rfl

/-! ### one step of NEXT / PREV -/

/-- NEXT: a successful step lands on a usable position holding the first record of what lay ahead,
    the rest lies ahead of the new position; a failed step means nothing lay ahead -/
theorem next_step (d : Db K V) (hok : NodesOk d.nodes) (p : CPos) (hp : CurOk d.nodes p) :
    ((curNext d p).2 = true → ∃ r, curRec d (curNext d p).1 = some r ∧
        aheadN d.nodes p = r :: aheadN d.nodes (curNext d p).1 ∧ CurOk d.nodes (curNext d p).1) ∧
    ((curNext d p).2 = false → aheadN d.nodes p = []) := by
  cases p with
  | head =>
    cases hns : d.nodes with
    | nil => simp [curNext, hns, aheadN]
    | cons nd rest =>
      have hn : d.nodes[0]? = some nd := by simp [hns]
      have hne := (hok nd (List.mem_of_getElem? hn)).1
      have hc : CurOk d.nodes (.at 0 0 0) := ⟨nd, hn, List.length_pos_iff.2 hne⟩
      obtain ⟨r, hr1, hr2⟩ := flat_getElem hc
      have e : curNext d .head = (.at 0 0 0, true) := by simp [curNext, hns]
      rw [e, ← hns]
      refine ⟨fun _ => ⟨r, by rw [curRec_at]; exact hr2, ?_, hc⟩, fun h => by cases h⟩
      have hz : flatIdx d.nodes 0 0 = 0 := by simp [flatIdx]
      rw [hz] at hr1
      have := drop_of_getElem? hr1
      simp only [List.drop_zero] at this
      simp only [aheadN, hz]
      exact this
  | tail => simp [curNext, aheadN]
  | void => simp [curNext, aheadN]
  | «at» i j s =>
    obtain ⟨r, hr1, hr2⟩ := flat_getElem hp
    obtain ⟨nd, hn, hj⟩ := hp
    by_cases hs : s > 0
    · have e : curNext d (.at i j s) = (.at i j 0, true) := by simp [curNext, hs]
      rw [e]
      refine ⟨fun _ => ⟨r, by rw [curRec_at]; exact hr2, ?_, ⟨nd, hn, hj⟩⟩, fun h => by cases h⟩
      simp only [aheadN, hs, if_true, show ¬ ((0 : Int) > 0) by omega, if_false]
      exact drop_of_getElem? hr1
    · by_cases hlast : j + 1 ≥ nd.recs.length
      · by_cases hi : i + 1 < d.nodes.length
        · have e : curNext d (.at i j s) = (.at (i + 1) 0 0, true) := by
            simp [curNext, hs, nodeLen_eq hn, hlast, hi]
          rw [e]
          obtain ⟨nd', hn'⟩ : ∃ nd', d.nodes[i + 1]? = some nd' := ⟨_, List.getElem?_eq_getElem hi⟩
          have hne := (hok nd' (List.mem_of_getElem? hn')).1
          have hc : CurOk d.nodes (.at (i + 1) 0 0) := ⟨nd', hn', List.length_pos_iff.2 hne⟩
          obtain ⟨r', hr1', hr2'⟩ := flat_getElem hc
          have hf : flatIdx d.nodes (i + 1) 0 = flatIdx d.nodes i j + 1 := by
            simp only [flatIdx, offs_succ hn]; omega
          refine ⟨fun _ => ⟨r', by rw [curRec_at]; exact hr2', ?_, hc⟩, fun h => by cases h⟩
          simp only [aheadN, hs, if_false, show ¬ ((0 : Int) > 0) by omega]
          rw [hf] at hr1' ⊢
          exact drop_of_getElem? hr1'
        · have e : curNext d (.at i j s) = (.at i j 0, false) := by
            simp [curNext, hs, nodeLen_eq hn, hlast, hi]
          rw [e]
          refine ⟨fun h => (by cases h), fun _ => ?_⟩
          simp only [aheadN, hs, if_false]
          apply List.drop_of_length_le
          have h1 := offs_succ hn
          have h2 : offs d.nodes (i + 1) = (flatten d.nodes).length := offs_of_length_le (by omega)
          simp only [flatIdx]; omega
      · have e : curNext d (.at i j s) = (.at i (j + 1) 0, true) := by
          simp [curNext, hs, nodeLen_eq hn, hlast]
        rw [e]
        have hc : CurOk d.nodes (.at i (j + 1) 0) := ⟨nd, hn, by omega⟩
        obtain ⟨r', hr1', hr2'⟩ := flat_getElem hc
        have hf : flatIdx d.nodes i (j + 1) = flatIdx d.nodes i j + 1 := by simp only [flatIdx]; omega
        refine ⟨fun _ => ⟨r', by rw [curRec_at]; exact hr2', ?_, hc⟩, fun h => by cases h⟩
        simp only [aheadN, hs, if_false, show ¬ ((0 : Int) > 0) by omega]
        rw [hf] at hr1' ⊢
        exact drop_of_getElem? hr1'

/-- PREV, symmetric: a successful step returns the LAST record of `aheadP` -/
theorem prev_step (d : Db K V) (hok : NodesOk d.nodes) (p : CPos) (hp : CurOk d.nodes p) :
    ((curPrev d p).2 = true → ∃ r, curRec d (curPrev d p).1 = some r ∧
        aheadP d.nodes p = aheadP d.nodes (curPrev d p).1 ++ [r] ∧ CurOk d.nodes (curPrev d p).1) ∧
    ((curPrev d p).2 = false → aheadP d.nodes p = []) := by
  cases p with
  | head => simp [curPrev, aheadP]
  | void => simp [curPrev, aheadP]
  | tail =>
    by_cases hns : d.nodes = []
    · simp [curPrev, hns, aheadP]
    · have hpos : 0 < d.nodes.length := List.length_pos_iff.2 hns
      have hi : d.nodes.length - 1 < d.nodes.length := by omega
      obtain ⟨nd, hn⟩ : ∃ nd, d.nodes[d.nodes.length - 1]? = some nd := ⟨_, List.getElem?_eq_getElem hi⟩
      have hne := (hok nd (List.mem_of_getElem? hn)).1
      have hpos' : 0 < nd.recs.length := List.length_pos_iff.2 hne
      have hempty : d.nodes.isEmpty = false := by
        cases hd : d.nodes with
        | nil => exact absurd hd hns
        | cons a b => rfl
      have e : curPrev d .tail = (.at (d.nodes.length - 1) (nd.recs.length - 1) 0, true) := by
        simp [curPrev, hempty, nodeLen_eq hn]
      rw [e]
      have hc : CurOk d.nodes (.at (d.nodes.length - 1) (nd.recs.length - 1) 0) := ⟨nd, hn, by omega⟩
      obtain ⟨r, hr1, hr2⟩ := flat_getElem hc
      refine ⟨fun _ => ⟨r, by rw [curRec_at]; exact hr2, ?_, hc⟩, fun h => by cases h⟩
      have h1 := offs_succ hn
      have h2 : offs d.nodes (d.nodes.length - 1 + 1) = (flatten d.nodes).length := offs_of_length_le (by omega)
      have hf : flatIdx d.nodes (d.nodes.length - 1) (nd.recs.length - 1) + 1 = (flatten d.nodes).length := by
        simp only [flatIdx]; omega
      simp only [aheadP, show ¬ ((0 : Int) < 0) by omega, if_false]
      rw [← take_succ_of_getElem? hr1, hf, List.take_length]
  | «at» i j s =>
    obtain ⟨r, hr1, hr2⟩ := flat_getElem hp
    obtain ⟨nd, hn, hj⟩ := hp
    by_cases hs : s < 0
    · have e : curPrev d (.at i j s) = (.at i j 0, true) := by simp [curPrev, hs]
      rw [e]
      refine ⟨fun _ => ⟨r, by rw [curRec_at]; exact hr2, ?_, ⟨nd, hn, hj⟩⟩, fun h => by cases h⟩
      simp only [aheadP, hs, if_true, show ¬ ((0 : Int) < 0) by omega, if_false]
      exact take_succ_of_getElem? hr1
    · cases j with
      | succ j =>
        have e : curPrev d (.at i (j + 1) s) = (.at i j 0, true) := by simp [curPrev, hs]
        rw [e]
        have hc : CurOk d.nodes (.at i j 0) := ⟨nd, hn, by omega⟩
        obtain ⟨r', hr1', hr2'⟩ := flat_getElem hc
        have hf : flatIdx d.nodes i (j + 1) = flatIdx d.nodes i j + 1 := by simp only [flatIdx]; omega
        refine ⟨fun _ => ⟨r', by rw [curRec_at]; exact hr2', ?_, hc⟩, fun h => by cases h⟩
        simp only [aheadP, hs, if_false, show ¬ ((0 : Int) < 0) by omega]
        rw [hf]
        exact take_succ_of_getElem? hr1'
      | zero =>
        cases i with
        | zero =>
          have e : curPrev d (.at 0 0 s) = (.at 0 0 0, false) := by simp [curPrev, hs]
          rw [e]
          refine ⟨fun h => (by cases h), fun _ => ?_⟩
          simp [aheadP, hs, flatIdx]
        | succ i =>
          have hi : i < d.nodes.length := by
            have := (List.getElem?_eq_some_iff.1 hn).1; omega
          obtain ⟨nd', hn'⟩ : ∃ nd', d.nodes[i]? = some nd' := ⟨_, List.getElem?_eq_getElem hi⟩
          have hne := (hok nd' (List.mem_of_getElem? hn')).1
          have hpos : 0 < nd'.recs.length := List.length_pos_iff.2 hne
          have e : curPrev d (.at (i + 1) 0 s) = (.at i (nd'.recs.length - 1) 0, true) := by
            simp [curPrev, hs, nodeLen_eq hn']
          rw [e]
          have hc : CurOk d.nodes (.at i (nd'.recs.length - 1) 0) := ⟨nd', hn', by omega⟩
          obtain ⟨r', hr1', hr2'⟩ := flat_getElem hc
          have hf : flatIdx d.nodes (i + 1) 0 = flatIdx d.nodes i (nd'.recs.length - 1) + 1 := by
            simp only [flatIdx, offs_succ hn']; omega
          refine ⟨fun _ => ⟨r', by rw [curRec_at]; exact hr2', ?_, hc⟩, fun h => by cases h⟩
          simp only [aheadP, hs, if_false, show ¬ ((0 : Int) < 0) by omega]
          rw [hf]
          exact take_succ_of_getElem? hr1'

/-! ### relations between a position before and after a mutation -/

/-- after an insertion (`P` is false exactly on the newborn): the position is usable and, the newborn
    filtered out, the same records lie ahead in both directions -/
def InsRel (P : K × V → Bool) (ns ns' : List (Node K V)) (p p' : CPos) : Prop :=
  CurOk ns' p' ∧ (aheadN ns' p').filter P = aheadN ns p ∧ (aheadP ns' p').filter P = aheadP ns p

/-- after a removal (`P` is false exactly on the removed record): the position is usable and what lies
    ahead is what lay ahead without the removed record -/
def DelRel (P : K × V → Bool) (ns ns' : List (Node K V)) (p p' : CPos) : Prop :=
  CurOk ns' p' ∧ aheadN ns' p' = (aheadN ns p).filter P ∧ aheadP ns' p' = (aheadP ns p).filter P

section Rel
variable {P : K × V → Bool} {ns ns' : List (Node K V)} {l1 l2 : List (K × V)} {x : K × V}

theorem insRel_at (hf : flatten ns = l1 ++ l2) (hf' : flatten ns' = l1 ++ x :: l2) (hx : P x = false)
    (hl : ∀ r ∈ l1 ++ l2, P r = true) {i j i' j' : Nat} {s : Int} (hc : CurOk ns' (.at i' j' s))
    (h : (flatIdx ns i j ≥ l1.length → flatIdx ns' i' j' = flatIdx ns i j + 1) ∧
      (flatIdx ns i j < l1.length → flatIdx ns' i' j' = flatIdx ns i j)) :
    InsRel P ns ns' (.at i j s) (.at i' j' s) := by
  have h : flatIdx ns' i' j' = if flatIdx ns i j ≥ l1.length then flatIdx ns i j + 1 else flatIdx ns i j := by
    split
    · exact h.1 (by assumption)
    · exact h.2 (by omega)
  have := ins_flat hx hl (.at (flatIdx ns i j) s)
  refine ⟨hc, ?_, ?_⟩
  · rw [aheadN_flat, aheadN_flat, hf, hf', toFlat, toFlat, h]; exact this.1
  · rw [aheadP_flat, aheadP_flat, hf, hf', toFlat, toFlat, h]; exact this.2

theorem insRel_pseudo (hf : flatten ns = l1 ++ l2) (hf' : flatten ns' = l1 ++ x :: l2) (hx : P x = false)
    (hl : ∀ r ∈ l1 ++ l2, P r = true) {p : CPos} (hp : ∀ i j s, p ≠ .at i j s) : InsRel P ns ns' p p := by
  cases p with
  | «at» i j s => exact absurd rfl (hp i j s)
  | head =>
    have := ins_flat hx hl .head
    exact ⟨trivial, by rw [aheadN_flat, aheadN_flat, hf, hf']; exact this.1, rfl⟩
  | tail =>
    have := ins_flat hx hl .tail
    exact ⟨trivial, rfl, by rw [aheadP_flat, aheadP_flat, hf, hf']; exact this.2⟩
  | void => exact ⟨trivial, rfl, rfl⟩

theorem delRel_pseudo (hf : flatten ns = l1 ++ x :: l2) (hf' : flatten ns' = l1 ++ l2) (hx : P x = false)
    (hl : ∀ r ∈ l1 ++ l2, P r = true) {p : CPos} (hp : ∀ i j s, p ≠ .at i j s) : DelRel P ns ns' p p := by
  have hall : ((l1 ++ x :: l2)).filter P = l1 ++ l2 := by
    have := drop_ins_le hx hl (g := 0) (Nat.zero_le _)
    simpa using this
  cases p with
  | «at» i j s => exact absurd rfl (hp i j s)
  | head => exact ⟨trivial, by simp only [aheadN]; rw [hf, hf', hall], rfl⟩
  | tail => exact ⟨trivial, rfl, by simp only [aheadP]; rw [hf, hf', hall]⟩
  | void => exact ⟨trivial, rfl, rfl⟩

theorem delRel_lt (hf : flatten ns = l1 ++ x :: l2) (hf' : flatten ns' = l1 ++ l2) (hx : P x = false)
    (hl : ∀ r ∈ l1 ++ l2, P r = true) {i j i' j' : Nat} {s : Int} (hc : CurOk ns' (.at i' j' s))
    (h1 : flatIdx ns i j < l1.length) (h2 : flatIdx ns' i' j' = flatIdx ns i j) :
    DelRel P ns ns' (.at i j s) (.at i' j' s) := by
  have := del_flat hx hl (.at (flatIdx ns i j) s) (.at (flatIdx ns i j) s) (fun h => by cases h)
    (fun h => by cases h) (fun h => by cases h) (fun f s' h _ => by cases h; rfl)
    (fun f s' h h' => by cases h; omega) (fun s' h => by have := (FPos.at.inj h).1; omega)
  refine ⟨hc, ?_, ?_⟩
  · rw [aheadN_flat, aheadN_flat, hf, hf', toFlat, toFlat, h2]; exact this.1
  · rw [aheadP_flat, aheadP_flat, hf, hf', toFlat, toFlat, h2]; exact this.2

theorem delRel_gt (hf : flatten ns = l1 ++ x :: l2) (hf' : flatten ns' = l1 ++ l2) (hx : P x = false)
    (hl : ∀ r ∈ l1 ++ l2, P r = true) {i j i' j' : Nat} {s : Int} (hc : CurOk ns' (.at i' j' s))
    (h1 : flatIdx ns i j > l1.length) (h2 : flatIdx ns' i' j' + 1 = flatIdx ns i j) :
    DelRel P ns ns' (.at i j s) (.at i' j' s) := by
  have e : flatIdx ns' i' j' = flatIdx ns i j - 1 := by omega
  have := del_flat hx hl (.at (flatIdx ns i j) s) (.at (flatIdx ns i j - 1) s) (fun h => by cases h)
    (fun h => by cases h) (fun h => by cases h) (fun f s' h h' => by cases h; omega)
    (fun f s' h h' => by cases h; rfl) (fun s' h => by have := (FPos.at.inj h).1; omega)
  refine ⟨hc, ?_, ?_⟩
  · rw [aheadN_flat, aheadN_flat, hf, hf', toFlat, toFlat, e]; exact this.1
  · rw [aheadP_flat, aheadP_flat, hf, hf', toFlat, toFlat, e]; exact this.2

theorem delRel_eq (hf : flatten ns = l1 ++ x :: l2) (hf' : flatten ns' = l1 ++ l2) (hx : P x = false)
    (hl : ∀ r ∈ l1 ++ l2, P r = true) {i j : Nat} {s : Int} {p' : CPos} (hc : CurOk ns' p')
    (h1 : flatIdx ns i j = l1.length) (hN : aheadN ns' p' = (flatten ns').drop l1.length)
    (hP : aheadP ns' p' = (flatten ns').take l1.length) :
    DelRel P ns ns' (.at i j s) p' := by
  rw [hf'] at hN hP
  have := del_flat hx hl (.at (flatIdx ns i j) s) (.at l1.length 1) (fun h => by cases h)
    (fun h => by cases h) (fun h => by cases h) (fun f s' h h' => by cases h; omega)
    (fun f s' h h' => by cases h; omega) (fun s' _ => ⟨by simp [aheadNF], by simp [aheadPF]⟩)
  refine ⟨hc, ?_, ?_⟩
  · rw [hN, aheadN_flat ns, hf, toFlat, ← this.1]; simp [aheadNF]
  · rw [hP, aheadP_flat ns, hf, toFlat, ← this.2]; simp [aheadPF]

end Rel

/-! ### positions in `pre ++ rest` -/

theorem offs_add (pre rest : List (Node K V)) (k : Nat) :
    offs (pre ++ rest) (pre.length + k) = (flatten pre).length + offs rest k := by
  rw [offs_right (Nat.le_add_right _ _), Nat.add_sub_cancel_left]

theorem offs_mid (pre rest : List (Node K V)) : offs (pre ++ rest) pre.length = (flatten pre).length := by
  have := offs_add pre rest 0; simpa using this

theorem curOk_add (pre rest : List (Node K V)) (k j : Nat) (s : Int) :
    CurOk (pre ++ rest) (.at (pre.length + k) j s) ↔ CurOk rest (.at k j s) := by
  simp only [CurOk, List.getElem?_append_right (Nat.le_add_right _ _), Nat.add_sub_cancel_left]

theorem curOk_mid (pre post : List (Node K V)) (n : Node K V) (j : Nat) (s : Int) :
    CurOk (pre ++ n :: post) (.at pre.length j s) ↔ j < n.recs.length := by
  have := curOk_add pre (n :: post) 0 j s
  simp only [Nat.add_zero] at this
  rw [this]; simp [CurOk]

theorem curOk_left {pre : List (Node K V)} (rest : List (Node K V)) {i j : Nat} {s : Int} (h : i < pre.length) :
    CurOk (pre ++ rest) (.at i j s) ↔ CurOk pre (.at i j s) := by
  simp only [CurOk, List.getElem?_append_left h]

theorem curOk_cons_zero (n : Node K V) (ns : List (Node K V)) (j : Nat) (s : Int) :
    CurOk (n :: ns) (.at 0 j s) ↔ j < n.recs.length := by simp [CurOk]

theorem curOk_cons_succ (n : Node K V) (ns : List (Node K V)) (i j : Nat) (s : Int) :
    CurOk (n :: ns) (.at (i + 1) j s) ↔ CurOk ns (.at i j s) := by simp [CurOk]

/-- a usable position ends before the end of the chain -/
theorem flatIdx_lt {ns : List (Node K V)} {i j : Nat} {s : Int} (h : CurOk ns (.at i j s)) :
    flatIdx ns i j < (flatten ns).length := by
  obtain ⟨nd, hn, hj⟩ := h
  have h1 := offs_succ hn
  have h2 := offs_le ns (i + 1)
  simp only [flatIdx]; omega

/-- the three regions of a usable position relative to node `pre.length` -/
theorem regions {pre post : List (Node K V)} {lower : Node K V} {i j : Nat} {s : Int}
    (h : CurOk (pre ++ lower :: post) (.at i j s)) :
    (i < pre.length ∧ CurOk pre (.at i j s) ∧ offs pre i + j < (flatten pre).length) ∨
    (i = pre.length ∧ j < lower.recs.length) ∨
    (∃ m, i = pre.length + (m + 1) ∧ CurOk post (.at m j s)) := by
  rcases Nat.lt_trichotomy i pre.length with hi | hi | hi
  · left
    have hc := (curOk_left _ hi).1 h
    exact ⟨hi, hc, flatIdx_lt hc⟩
  · right; left
    subst hi
    exact ⟨rfl, (curOk_mid pre post lower j s).1 h⟩
  · right; right
    obtain ⟨m, rfl⟩ : ∃ m, i = pre.length + (m + 1) := ⟨i - pre.length - 1, by omega⟩
    exact ⟨m, rfl, (curOk_cons_succ _ _ _ _ _).1 ((curOk_add pre _ _ j s).1 h)⟩

/-! ### the fix-ups, one by one -/

theorem insertAt_length {α : Type} (l : List α) (i : Nat) (x : α) (h : i ≤ l.length) :
    (l.take i ++ x :: l.drop i).length = l.length + 1 := by
  simp only [List.length_append, List.length_take, List.length_cons, List.length_drop]; omega

/-- `fixAdd`: a record inserted at slot `idx` of node `pre.length` -/
theorem fixAdd_rel {P : K × V → Bool} {pre post : List (Node K V)} {lower : Node K V} {kv : K × V} {idx : Nat}
    (hidx : idx ≤ lower.recs.length) (hx : P kv = false)
    (hl : ∀ r ∈ flatten (pre ++ lower :: post), P r = true) (p : CPos) (hp : CurOk (pre ++ lower :: post) p) :
    InsRel P (pre ++ lower :: post) (pre ++ { lower with recs := insertAt lower.recs idx kv } :: post)
      p (fixAdd pre.length idx p) := by
  have hf := flatten_split pre post lower idx
  have hf' : flatten (pre ++ { lower with recs := insertAt lower.recs idx kv } :: post) =
      (flatten pre ++ lower.recs.take idx) ++ kv :: (lower.recs.drop idx ++ flatten post) := by
    simp only [flatten_append, flatten_cons, insertAt, List.append_assoc, List.cons_append]
  rw [hf] at hl
  have hF : (flatten pre ++ lower.recs.take idx).length = (flatten pre).length + idx := by
    simp only [List.length_append, List.length_take]; omega
  have hlen : (insertAt lower.recs idx kv).length = lower.recs.length + 1 := insertAt_length _ _ _ hidx
  cases p with
  | head => exact insRel_pseudo hf hf' hx hl (fun _ _ _ h => by cases h)
  | tail => exact insRel_pseudo hf hf' hx hl (fun _ _ _ h => by cases h)
  | void => exact insRel_pseudo hf hf' hx hl (fun _ _ _ h => by cases h)
  | «at» i j s =>
    rcases regions hp with ⟨hi, hc, hlt⟩ | ⟨rfl, hj⟩ | ⟨m, rfl, hc⟩
    · have e : fixAdd pre.length idx (.at i j s) = .at i j s := by
        simp only [fixAdd]; rw [if_neg (by omega)]
      rw [e]
      refine insRel_at hf hf' hx hl ((curOk_left _ hi).2 hc) ?_
      constructor <;> intro h <;> simp only [hF, flatIdx, offs_left (Nat.le_of_lt hi)] at h ⊢ <;> omega
    · by_cases hge : j ≥ idx
      · have e : fixAdd pre.length idx (.at pre.length j s) = .at pre.length (j + 1) s := by
          simp only [fixAdd]; rw [if_pos ⟨trivial, hge⟩]
        rw [e]
        refine insRel_at hf hf' hx hl ((curOk_mid _ _ _ _ _).2 (by simp only [hlen]; omega)) ?_
        constructor <;> intro h <;> simp only [hF, flatIdx, offs_mid] at h ⊢ <;> omega
      · have e : fixAdd pre.length idx (.at pre.length j s) = .at pre.length j s := by
          simp only [fixAdd]; rw [if_neg (by omega)]
        rw [e]
        refine insRel_at hf hf' hx hl ((curOk_mid _ _ _ _ _).2 (by simp only [hlen]; omega)) ?_
        constructor <;> intro h <;> simp only [hF, flatIdx, offs_mid] at h ⊢ <;> omega
    · have e : fixAdd pre.length idx (.at (pre.length + (m + 1)) j s) = .at (pre.length + (m + 1)) j s := by
        simp only [fixAdd]; rw [if_neg (by omega)]
      rw [e]
      refine insRel_at hf hf' hx hl ((curOk_add _ _ _ _ _).2 ((curOk_cons_succ _ _ _ _ _).2 hc)) ?_
      constructor <;> intro h <;> simp only [hF, flatIdx, offs_add, offs_cons_succ, hlen] at h ⊢ <;> omega

/-- `fixFront`: a one-record node put in front of the chain -/
theorem fixFront_rel {P : K × V → Bool} {ns : List (Node K V)} {kv : K × V} (lvl : Nat)
    (hx : P kv = false) (hl : ∀ r ∈ flatten ns, P r = true) (p : CPos) (hp : CurOk ns p) :
    InsRel P ns (⟨lvl, [kv]⟩ :: ns) p (fixFront p) := by
  have hf : flatten ns = [] ++ flatten ns := rfl
  have hf' : flatten (⟨lvl, [kv]⟩ :: ns) = [] ++ kv :: flatten ns := by simp
  cases p with
  | head => exact insRel_pseudo hf hf' hx hl (fun _ _ _ h => by cases h)
  | tail => exact insRel_pseudo hf hf' hx hl (fun _ _ _ h => by cases h)
  | void => exact insRel_pseudo hf hf' hx hl (fun _ _ _ h => by cases h)
  | «at» i j s =>
    simp only [fixFront]
    refine insRel_at hf hf' hx hl ((curOk_cons_succ _ _ _ _ _).2 hp) ?_
    constructor <;> intro h <;> simp only [flatIdx, offs_cons_succ, List.length_cons, List.length_nil] at h ⊢ <;> omega

/-- `fixSplit _ false`: a one-record node put after node `pre.length` -/
theorem fixSplitNew_rel {P : K × V → Bool} {pre post : List (Node K V)} {lower : Node K V} {kv : K × V} (lvl : Nat)
    (hx : P kv = false) (hl : ∀ r ∈ flatten (pre ++ lower :: post), P r = true) (p : CPos)
    (hp : CurOk (pre ++ lower :: post) p) :
    InsRel P (pre ++ lower :: post) (pre ++ lower :: ⟨lvl, [kv]⟩ :: post) p (fixSplit pre.length false p) := by
  have hf : flatten (pre ++ lower :: post) = (flatten pre ++ lower.recs) ++ flatten post := by simp
  have hf' : flatten (pre ++ lower :: ⟨lvl, [kv]⟩ :: post) = (flatten pre ++ lower.recs) ++ kv :: flatten post := by
    simp
  rw [hf] at hl
  cases p with
  | head => exact insRel_pseudo hf hf' hx hl (fun _ _ _ h => by cases h)
  | tail => exact insRel_pseudo hf hf' hx hl (fun _ _ _ h => by cases h)
  | void => exact insRel_pseudo hf hf' hx hl (fun _ _ _ h => by cases h)
  | «at» i j s =>
    rcases regions hp with ⟨hi, hc, hlt⟩ | ⟨rfl, hj⟩ | ⟨m, rfl, hc⟩
    · have e : fixSplit pre.length false (.at i j s) = .at i j s := by
        simp only [fixSplit]; rw [if_neg (by omega), if_neg (by omega)]
      rw [e]
      refine insRel_at hf hf' hx hl ((curOk_left _ hi).2 hc) ?_
      constructor <;> intro h <;> simp only [flatIdx, offs_left (Nat.le_of_lt hi), List.length_append] at h ⊢ <;> omega
    · have e : fixSplit pre.length false (.at pre.length j s) = .at pre.length j s := by
        simp [fixSplit]
      rw [e]
      refine insRel_at hf hf' hx hl ((curOk_mid _ _ _ _ _).2 hj) ?_
      constructor <;> intro h <;> simp only [flatIdx, offs_mid, List.length_append] at h ⊢ <;> omega
    · have e : fixSplit pre.length false (.at (pre.length + (m + 1)) j s) = .at (pre.length + (m + 1 + 1)) j s := by
        simp only [fixSplit]; rw [if_neg (by omega), if_pos (by omega)]; rfl
      rw [e]
      refine insRel_at hf hf' hx hl
        ((curOk_add _ _ _ _ _).2 ((curOk_cons_succ _ _ _ _ _).2 ((curOk_cons_succ _ _ _ _ _).2 hc))) ?_
      constructor <;> intro h <;> simp only [flatIdx, offs_add, offs_cons_succ, List.length_append, List.length_cons, List.length_nil] at h ⊢ <;> omega

/-- equal flat views give equal `aheadN` / `aheadP` -/
theorem ahead_eq_of_flat {ns ns' : List (Node K V)} {p p' : CPos} (hf : flatten ns' = flatten ns)
    (ht : toFlat ns' p' = toFlat ns p) : aheadN ns' p' = aheadN ns p ∧ aheadP ns' p' = aheadP ns p := by
  rw [aheadN_flat, aheadN_flat, aheadP_flat, aheadP_flat, hf, ht]; exact ⟨rfl, rfl⟩

/-- `fixSplit _ true`: node `pre.length` cut at the pivot; every cursor keeps its record -/
theorem fixSplitMove_rel {pre post : List (Node K V)} {lower : Node K V} (lvl : Nat) (p : CPos)
    (hp : CurOk (pre ++ lower :: post) p) :
    let ns' := pre ++ { lower with recs := lower.recs.take pivot } :: ⟨lvl, lower.recs.drop pivot⟩ :: post
    CurOk ns' (fixSplit pre.length true p) ∧
    aheadN ns' (fixSplit pre.length true p) = aheadN (pre ++ lower :: post) p ∧
    aheadP ns' (fixSplit pre.length true p) = aheadP (pre ++ lower :: post) p := by
  intro ns'
  have hf : flatten ns' = flatten (pre ++ lower :: post) := by
    simp only [ns', flatten_append, flatten_cons]
    rw [← List.append_assoc (lower.recs.take pivot), List.take_append_drop]
  cases p with
  | head => exact ⟨trivial, ahead_eq_of_flat hf rfl⟩
  | tail => exact ⟨trivial, ahead_eq_of_flat hf rfl⟩
  | void => exact ⟨trivial, ahead_eq_of_flat hf rfl⟩
  | «at» i j s =>
    rcases regions hp with ⟨hi, hc, hlt⟩ | ⟨rfl, hj⟩ | ⟨m, rfl, hc⟩
    · have e : fixSplit pre.length true (.at i j s) = .at i j s := by
        simp only [fixSplit]; rw [if_neg (by omega), if_neg (by omega)]
      rw [e]
      refine ⟨(curOk_left _ hi).2 hc, ahead_eq_of_flat hf ?_⟩
      simp only [toFlat, flatIdx, ns', offs_left (Nat.le_of_lt hi)]
    · by_cases hge : j ≥ pivot
      · have e : fixSplit pre.length true (.at pre.length j s) = .at (pre.length + 1) (j - pivot) s := by
          simp [fixSplit, hge]
        rw [e]
        refine ⟨(curOk_add _ _ _ _ _).2 ((curOk_cons_succ _ _ _ _ _).2 ((curOk_cons_zero _ _ _ _).2 ?_)),
          ahead_eq_of_flat hf ?_⟩
        · simp only [List.length_drop]; omega
        · simp only [toFlat, flatIdx, ns', offs_add, offs_mid, offs_cons_succ, offs_zero, List.length_take]
          congr 1; omega
      · have e : fixSplit pre.length true (.at pre.length j s) = .at pre.length j s := by
          simp [fixSplit, hge]
        rw [e]
        refine ⟨(curOk_mid _ _ _ _ _).2 ?_, ahead_eq_of_flat hf ?_⟩
        · simp only [List.length_take]; omega
        · simp only [toFlat, flatIdx, ns', offs_mid]
    · have e : fixSplit pre.length true (.at (pre.length + (m + 1)) j s) = .at (pre.length + (m + 1 + 1)) j s := by
        simp only [fixSplit]; rw [if_neg (by omega), if_pos (by omega)]; rfl
      rw [e]
      refine ⟨(curOk_add _ _ _ _ _).2 ((curOk_cons_succ _ _ _ _ _).2 ((curOk_cons_succ _ _ _ _ _).2 hc)),
        ahead_eq_of_flat hf ?_⟩
      simp only [toFlat, flatIdx, ns', offs_add, offs_cons_succ, List.length_take, List.length_drop]
      congr 1; omega

/-- `fixRm`: slot `t.length` of node `pre.length` removed, the node keeps at least one record -/
theorem fixRm_rel {P : K × V → Bool} {pre post : List (Node K V)} {lower : Node K V} {t u : List (K × V)} {x : K × V}
    (e2 : lower.recs = t ++ x :: u) (hne : 1 ≤ (t ++ u).length) (hx : P x = false)
    (hl : ∀ r ∈ flatten (pre ++ { lower with recs := t ++ u } :: post), P r = true) (p : CPos)
    (hp : CurOk (pre ++ lower :: post) p) :
    DelRel P (pre ++ lower :: post) (pre ++ { lower with recs := t ++ u } :: post)
      p (fixRm pre.length t.length (t ++ u).length p) := by
  have hf : flatten (pre ++ lower :: post) = (flatten pre ++ t) ++ x :: (u ++ flatten post) := by
    rw [flatten_append, flatten_cons, e2]; simp only [List.append_assoc, List.cons_append]
  have hf' : flatten (pre ++ { lower with recs := t ++ u } :: post) = (flatten pre ++ t) ++ (u ++ flatten post) := by
    simp only [flatten_append, flatten_cons, List.append_assoc]
  rw [hf'] at hl
  have hlen : lower.recs.length = t.length + u.length + 1 := by
    rw [e2]; simp only [List.length_append, List.length_cons]; omega
  have hlen' : (t ++ u).length = t.length + u.length := List.length_append
  cases p with
  | head => exact delRel_pseudo hf hf' hx hl (fun _ _ _ h => by cases h)
  | tail => exact delRel_pseudo hf hf' hx hl (fun _ _ _ h => by cases h)
  | void => exact delRel_pseudo hf hf' hx hl (fun _ _ _ h => by cases h)
  | «at» i j s =>
    rcases regions hp with ⟨hi, hc, hlt⟩ | ⟨rfl, hj⟩ | ⟨m, rfl, hc⟩
    · have e : fixRm pre.length t.length (t ++ u).length (.at i j s) = .at i j s := by
        simp only [fixRm]; rw [if_neg (by omega)]
      rw [e]
      refine delRel_lt hf hf' hx hl ((curOk_left _ hi).2 hc) ?_ ?_
      · simp only [flatIdx, offs_left (Nat.le_of_lt hi), List.length_append]; omega
      · simp only [flatIdx, offs_left (Nat.le_of_lt hi)]
    · rcases Nat.lt_trichotomy j t.length with hjt | hjt | hjt
      · have e : fixRm pre.length t.length (t ++ u).length (.at pre.length j s) = .at pre.length j s := by
          simp only [fixRm, if_true]; rw [if_neg (by omega), if_neg (by omega)]
        rw [e]
        refine delRel_lt hf hf' hx hl ((curOk_mid _ _ _ _ _).2 (by simp only [hlen']; omega)) ?_ ?_
        · simp only [flatIdx, offs_mid, List.length_append]; omega
        · simp only [flatIdx, offs_mid]
      · subst hjt
        by_cases hlast : t.length ≠ 0 ∧ t.length = (t ++ u).length
        · have e : fixRm pre.length t.length (t ++ u).length (.at pre.length t.length s) =
              .at pre.length (t.length - 1) (-1) := by
            simp only [fixRm, if_true]; rw [if_pos hlast]
          rw [e]
          have hfi : flatIdx (pre ++ { lower with recs := t ++ u } :: post) pre.length (t.length - 1) + 1 =
              (flatten pre ++ t).length := by
            simp only [flatIdx, offs_mid, List.length_append]; omega
          refine delRel_eq hf hf' hx hl ((curOk_mid _ _ _ _ _).2 (by simp only [hlen']; omega)) ?_ ?_ ?_
          · simp only [flatIdx, offs_mid, List.length_append]
          · simp only [aheadN, show ¬ ((-1 : Int) > 0) by omega, if_false, hfi]
          · simp only [aheadP, show ((-1 : Int) < 0) by omega, if_true, hfi]
        · have e : fixRm pre.length t.length (t ++ u).length (.at pre.length t.length s) =
              .at pre.length t.length 1 := by
            simp only [fixRm, if_true]; rw [if_neg hlast]
          rw [e]
          have hfi : flatIdx (pre ++ { lower with recs := t ++ u } :: post) pre.length t.length =
              (flatten pre ++ t).length := by
            simp only [flatIdx, offs_mid, List.length_append]
          refine delRel_eq hf hf' hx hl ((curOk_mid _ _ _ _ _).2 ?_) ?_ ?_ ?_
          · simp only [hlen'] at hlast hne ⊢; omega
          · simp only [flatIdx, offs_mid, List.length_append]
          · simp only [aheadN, show ((1 : Int) > 0) by omega, if_true, hfi]
          · simp only [aheadP, show ¬ ((1 : Int) < 0) by omega, if_false, hfi]
      · have e : fixRm pre.length t.length (t ++ u).length (.at pre.length j s) = .at pre.length (j - 1) s := by
          simp only [fixRm, if_true]; rw [if_neg (by omega), if_pos (by omega)]
        rw [e]
        refine delRel_gt hf hf' hx hl ((curOk_mid _ _ _ _ _).2 (by simp only [hlen']; omega)) ?_ ?_
        · simp only [flatIdx, offs_mid, List.length_append]; omega
        · simp only [flatIdx, offs_mid]; omega
    · have e : fixRm pre.length t.length (t ++ u).length (.at (pre.length + (m + 1)) j s) =
          .at (pre.length + (m + 1)) j s := by
        simp only [fixRm]; rw [if_neg (by omega)]
      rw [e]
      refine delRel_gt hf hf' hx hl ((curOk_add _ _ _ _ _).2 ((curOk_cons_succ _ _ _ _ _).2 hc)) ?_ ?_
      · simp only [flatIdx, offs_add, offs_cons_succ, List.length_append, hlen]; omega
      · simp only [flatIdx, offs_add, offs_cons_succ, hlen, hlen']; omega

/-- `fixDelNode`: node `pre.length`, holding one record, unlinked -/
theorem fixDelNode_rel {P : K × V → Bool} {pre post : List (Node K V)} {lower : Node K V} {x : K × V}
    (e2 : lower.recs = [x]) (hok : NodesOk (pre ++ post)) (hx : P x = false)
    (hl : ∀ r ∈ flatten (pre ++ post), P r = true) (p : CPos) (hp : CurOk (pre ++ lower :: post) p) :
    DelRel P (pre ++ lower :: post) (pre ++ post) p
      (fixDelNode pre.length (pre ++ lower :: post).length
        (match (pre ++ lower :: post)[pre.length - 1]? with | some q => q.recs.length | none => 0) p) := by
  have hf : flatten (pre ++ lower :: post) = flatten pre ++ x :: flatten post := by
    rw [flatten_append, flatten_cons, e2]; rfl
  have hf' : flatten (pre ++ post) = flatten pre ++ flatten post := flatten_append _ _
  rw [hf'] at hl
  have hlen : lower.recs.length = 1 := by rw [e2]; rfl
  have hn : (pre ++ lower :: post).length = pre.length + post.length + 1 := by
    simp only [List.length_append, List.length_cons]; omega
  generalize hprev : (match (pre ++ lower :: post)[pre.length - 1]? with | some q => q.recs.length | none => 0) = prevLen
  cases p with
  | head => exact delRel_pseudo hf hf' hx hl (fun _ _ _ h => by cases h)
  | tail => exact delRel_pseudo hf hf' hx hl (fun _ _ _ h => by cases h)
  | void => exact delRel_pseudo hf hf' hx hl (fun _ _ _ h => by cases h)
  | «at» i j s =>
    rcases regions hp with ⟨hi, hc, hlt⟩ | ⟨rfl, hj⟩ | ⟨m, rfl, hc⟩
    · have e : fixDelNode pre.length (pre ++ lower :: post).length prevLen (.at i j s) = .at i j s := by
        simp only [fixDelNode]; rw [if_neg (by omega), if_neg (by omega)]
      rw [e]
      refine delRel_lt hf hf' hx hl ((curOk_left _ hi).2 hc) ?_ ?_
      · simp only [flatIdx, offs_left (Nat.le_of_lt hi)]; omega
      · simp only [flatIdx, offs_left (Nat.le_of_lt hi)]
    · have hj0 : j = 0 := by omega
      subst hj0
      have hfi : flatIdx (pre ++ lower :: post) pre.length 0 = (flatten pre).length := by
        simp only [flatIdx, offs_mid]; omega
      cases post with
      | nil =>
        rcases List.eq_nil_or_concat pre with hpre | ⟨pre0, pn, hpre⟩
        · subst hpre
          have e : fixDelNode ([] : List (Node K V)).length ([] ++ [lower]).length prevLen (.at ([] : List (Node K V)).length 0 s) = .void := by
            simp [fixDelNode]
          rw [e]
          exact delRel_eq hf hf' hx hl trivial hfi (by simp [aheadN]) (by simp [aheadP])
        · rw [List.concat_eq_append] at hpre
          subst hpre
          have hpl : prevLen = pn.recs.length := by
            rw [← hprev]
            have : (pre0 ++ [pn] ++ [lower])[(pre0 ++ [pn]).length - 1]? = some pn := by
              simp
            rw [this]
          have hpn : pn.recs ≠ [] := (hok pn (by simp)).1
          have hpos : 0 < pn.recs.length := List.length_pos_iff.2 hpn
          have e : fixDelNode (pre0 ++ [pn]).length (pre0 ++ [pn] ++ [lower]).length prevLen (.at (pre0 ++ [pn]).length 0 s) =
              .at pre0.length (pn.recs.length - 1) (-1) := by
            simp [fixDelNode, hpl]
          rw [e]
          have hfl : flatIdx (pre0 ++ [pn] ++ []) pre0.length (pn.recs.length - 1) + 1 = (flatten (pre0 ++ [pn])).length := by
            simp only [List.append_nil, flatIdx, offs_mid, flatten_append, flatten_cons, flatten_nil, List.append_nil,
              List.length_append]; omega
          refine delRel_eq hf hf' hx hl ?_ hfi ?_ ?_
          · rw [List.append_nil]; exact (curOk_mid _ _ _ _ _).2 (by omega)
          · simp only [aheadN, show ¬ ((-1 : Int) > 0) by omega, if_false, hfl]
          · simp only [aheadP, show ((-1 : Int) < 0) by omega, if_true, hfl]
      | cons nd post' =>
        have e : fixDelNode pre.length (pre ++ lower :: nd :: post').length prevLen (.at pre.length 0 s) = .at pre.length 0 1 := by
          simp only [fixDelNode, if_true]; rw [if_neg (by simp)]
        rw [e]
        have hnd : nd.recs ≠ [] := (hok nd (by simp)).1
        have hfl : flatIdx (pre ++ nd :: post') pre.length 0 = (flatten pre).length := by
          simp only [flatIdx, offs_mid]; omega
        refine delRel_eq hf hf' hx hl ((curOk_mid _ _ _ _ _).2 (List.length_pos_iff.2 hnd)) hfi ?_ ?_
        · simp only [aheadN, show ((1 : Int) > 0) by omega, if_true, hfl]
        · simp only [aheadP, show ¬ ((1 : Int) < 0) by omega, if_false, hfl]
    · have e : fixDelNode pre.length (pre ++ lower :: post).length prevLen (.at (pre.length + (m + 1)) j s) =
          .at (pre.length + m) j s := by
        simp only [fixDelNode]; rw [if_neg (by omega), if_pos (by omega)]; rfl
      rw [e]
      refine delRel_gt hf hf' hx hl ((curOk_add _ _ _ _ _).2 hc) ?_ ?_
      · simp only [flatIdx, offs_add, offs_cons_succ, hlen]; omega
      · simp only [flatIdx, offs_add, offs_cons_succ, hlen]; omega

/-! ### what lies ahead is a piece of the chain -/

theorem aheadN_sublist (ns : List (Node K V)) (p : CPos) : (aheadN ns p).Sublist (flatten ns) := by
  cases p with
  | head => exact List.Sublist.refl _
  | tail => exact List.nil_sublist _
  | void => exact List.nil_sublist _
  | «at» i j s => simp only [aheadN]; split <;> exact List.drop_sublist _ _

theorem aheadP_sublist (ns : List (Node K V)) (p : CPos) : (aheadP ns p).Sublist (flatten ns) := by
  cases p with
  | head => exact List.nil_sublist _
  | tail => exact List.Sublist.refl _
  | void => exact List.nil_sublist _
  | «at» i j s => simp only [aheadP]; split <;> exact List.take_sublist _ _

theorem insRel_refl {P : K × V → Bool} {ns : List (Node K V)} (hl : ∀ r ∈ flatten ns, P r = true) {p : CPos}
    (hp : CurOk ns p) : InsRel P ns ns p p :=
  ⟨hp, filter_id_of_sublist hl (aheadN_sublist ns p), filter_id_of_sublist hl (aheadP_sublist ns p)⟩

theorem delRel_refl {P : K × V → Bool} {ns : List (Node K V)} (hl : ∀ r ∈ flatten ns, P r = true) {p : CPos}
    (hp : CurOk ns p) : DelRel P ns ns p p :=
  ⟨hp, (filter_id_of_sublist hl (aheadN_sublist ns p)).symm, (filter_id_of_sublist hl (aheadP_sublist ns p)).symm⟩

/-- the cursor table of `d'` is that of `d` with every position sent through `fix` -/
def CursVia (fix : CPos → CPos) (d d' : Db K V) : Prop := d'.curs = d.curs.map fun cp => (cp.1, fix cp.2)

theorem cursVia_mapCurs (f : CPos → CPos) (d : Db K V) (ns : List (Node K V)) :
    CursVia f d (mapCurs f { d with nodes := ns }) := by
  simp only [CursVia, mapCurs]

theorem cursVia_id (d : Db K V) (ns : List (Node K V)) : CursVia id d { d with nodes := ns } := by
  simp [CursVia]

theorem cursVia_refl (d : Db K V) : CursVia id d d := by simp [CursVia]

theorem cursVia_curPos {fix : CPos → CPos} {d d' : Db K V} (h : CursVia fix d d') (c : Nat) :
    curPos d' c = (curPos d c).map fix := by
  have h' : d'.curs = d.curs.map fun cp => (cp.1, fix cp.2) := h
  simp only [curPos, h', List.find?_map, Option.map_map]
  rfl

/-- `P` of the key-based lemmas: the record's key differs from `k` -/
def keyNe [DecidableEq K] (k : K) : K × V → Bool := fun r => decide (r.1 ≠ k)

@[simp] theorem keyNe_self [DecidableEq K] (k : K) (v : V) : keyNe k (k, v) = false := by simp [keyNe]

theorem keyNe_true [DecidableEq K] {k : K} {r : K × V} : keyNe k r = true ↔ r.1 ≠ k := by simp [keyNe]

variable {gt : K → K → Bool}

/-- in a descending list the keys around a member differ from its key -/
theorem keyNe_around [DecidableEq K] (st : StrictTotal gt) {l1 l2 : List (K × V)} {k : K} {v : V}
    (hd : Desc gt (l1 ++ (k, v) :: l2)) : ∀ r ∈ l1 ++ l2, keyNe k r = true := by
  intro r hr
  rw [keyNe_true]
  rcases List.mem_append.1 hr with h | h
  · exact st.ne_of_gt ((desc_mid hd).1 r h)
  · exact fun e => st.ne_of_gt ((desc_mid hd).2 r h) e.symm

/-! ### removal: every open cursor -/

/-- `delAt` (slot removal and node removal): every usable position stays usable and keeps exactly
    what lay ahead of it minus the removed record -/
theorem delAt_cursors [DecidableEq K] (st : StrictTotal gt) (d : Db K V) (inv : NodeInv gt d.nodes) {li idx : Nat}
    {pre post : List (Node K V)} {lower : Node K V} {t u : List (K × V)} {k : K} {av : V}
    (e : d.nodes = pre ++ lower :: post) (hl : pre.length = li)
    (e2 : lower.recs = t ++ (k, av) :: u) (hi : t.length = idx) :
    ∃ fix, CursVia fix d (delAt d li idx) ∧
      ∀ p, CurOk d.nodes p → DelRel (keyNe k) d.nodes (delAt d li idx).nodes p (fix p) := by
  obtain ⟨nodes, curs⟩ := d
  simp only at inv e ⊢
  subst e hl hi
  have hok := inv.1
  rw [nodesOk_append, nodesOk_cons] at hok
  have hf : flatten (pre ++ lower :: post) = (flatten pre ++ t) ++ (k, av) :: (u ++ flatten post) := by
    rw [flatten_append, flatten_cons, e2]; simp only [List.append_assoc, List.cons_append]
  have hd := inv.2
  rw [hf] at hd
  have hne := keyNe_around st hd
  simp only [delAt, getElem?_mid rfl, take_mid rfl, drop_mid rfl]
  split
  · rename_i h1
    rw [e2] at h1
    simp only [List.length_append, List.length_cons] at h1
    have ht : t = [] := List.eq_nil_of_length_eq_zero (by omega)
    have hu : u = [] := List.eq_nil_of_length_eq_zero (by omega)
    subst ht hu
    refine ⟨_, cursVia_mapCurs _ _ _, fun p hp => ?_⟩
    simp only [mapCurs_nodes]
    refine fixDelNode_rel e2 (nodesOk_append.2 ⟨hok.1, hok.2.2⟩) (keyNe_self k av) ?_ p hp
    simpa using hne
  · rename_i h1
    have he : lower.recs.eraseIdx t.length = t ++ u := by
      rw [List.eraseIdx_eq_take_drop_succ, e2, take_mid rfl, drop_mid rfl]
    rw [he]
    refine ⟨_, cursVia_mapCurs _ _ _, fun p hp => ?_⟩
    simp only [mapCurs_nodes]
    have hlen := hok.2.1
    rw [e2] at h1
    simp only [List.length_append, List.length_cons] at h1
    refine fixRm_rel e2 (by simp only [List.length_append]; omega) (keyNe_self k av) ?_ p hp
    simpa [List.append_assoc] using hne

/-- `iwkv_cursor_del` through any position holding a record -/
theorem curDel_cursors [DecidableEq K] (st : StrictTotal gt) (d : Db K V) (inv : NodeInv gt d.nodes) (p0 : CPos)
    {k : K} {ov : V} (h : curRec d p0 = some (k, ov)) :
    ∃ fix, CursVia fix d (curDel d p0) ∧
      ∀ p, CurOk d.nodes p → DelRel (keyNe k) d.nodes (curDel d p0).nodes p (fix p) := by
  obtain ⟨i, j, s, pre, lower, post, t, u, rfl, e, hl, e2, hl2⟩ := curRec_split h
  have : curDel d (.at i j s) = delAt d i j := by simp [curDel, h]
  rw [this]
  exact delAt_cursors st d inv e hl e2 hl2

/-- `iwkv_del` of any key (present or not) -/
theorem del_cursors [DecidableEq K] (st : StrictTotal gt) (d : Db K V) (inv : NodeInv gt d.nodes) (k : K) :
    ∃ fix, CursVia fix d (del gt d k).1 ∧
      ∀ p, CurOk d.nodes p → DelRel (keyNe k) d.nodes (del gt d k).1.nodes p (fix p) := by
  have hsame : (∀ r ∈ flatten d.nodes, keyNe k r = true) → del gt d k = (d, false) →
      ∃ fix, CursVia fix d (del gt d k).1 ∧
        ∀ p, CurOk d.nodes p → DelRel (keyNe k) d.nodes (del gt d k).1.nodes p (fix p) := by
    intro hall he
    rw [he]
    exact ⟨id, cursVia_refl d, fun p hp => delRel_refl hall hp⟩
  cases hr : routeIdx gt k d.nodes with
  | zero =>
    have hlt := routeIdx_zero st inv hr
    refine hsame (fun r hr' => keyNe_true.2 fun e => st.ne_of_gt (hlt r hr') e.symm) ?_
    simp only [del, hr, if_true]
  | succ r =>
    obtain ⟨pre, lower, post, e, hl, hg, hc⟩ := lower_split st inv hr
    have hn : d.nodes[r]? = some lower := by rw [e]; exact getElem?_mid hl
    have hf := flatten_split pre post lower (findPos gt k lower.recs)
    rw [← e] at hf
    rcases hc with ⟨h2, hp, _⟩ | ⟨av, rest, h2, h3, hp⟩
    · refine hsame ?_ ?_
      · intro x hx
        rw [hf] at hx
        rw [keyNe_true]
        rcases List.mem_append.1 hx with h | h
        · exact st.ne_of_gt (hg x h)
        · exact fun e => st.ne_of_gt (h2 x h) e.symm
      · simp only [del, hr, Nat.add_one_ne_zero, if_false, Nat.add_sub_cancel, hn, hp, Bool.not_false, if_true]
    · have : del gt d k = (delAt d r (findPos gt k lower.recs), true) := by
        simp only [del, hr, Nat.add_one_ne_zero, if_false, Nat.add_sub_cancel, hn, hp, Bool.not_true,
          Bool.false_eq_true]
      rw [this]
      have e2 : lower.recs = lower.recs.take (findPos gt k lower.recs) ++ (k, av) :: rest := by
        rw [← h2, List.take_append_drop]
      have hi : (lower.recs.take (findPos gt k lower.recs)).length = findPos gt k lower.recs := by
        have := congrArg List.length h2
        simp only [List.length_drop, List.length_cons] at this
        rw [List.length_take]; omega
      exact delAt_cursors st d inv e hl e2 hi

/-! ### insertion of a new key: every open cursor -/

/-- `fixAdd` on the node after `lower` (the "add to upper" and "split, record goes to the new node" cases) -/
theorem fixAdd_rel_next {P : K × V → Bool} {pre rest : List (Node K V)} {lower u : Node K V} {kv : K × V} {idx : Nat}
    (hidx : idx ≤ u.recs.length) (hx : P kv = false)
    (hl : ∀ r ∈ flatten (pre ++ lower :: u :: rest), P r = true) (p : CPos)
    (hp : CurOk (pre ++ lower :: u :: rest) p) :
    InsRel P (pre ++ lower :: u :: rest) (pre ++ lower :: { u with recs := insertAt u.recs idx kv } :: rest)
      p (fixAdd (pre.length + 1) idx p) := by
  have e : ∀ X : Node K V, pre ++ lower :: X :: rest = (pre ++ [lower]) ++ X :: rest := by
    intro X; simp only [List.append_assoc, List.cons_append, List.nil_append]
  have hlen : pre.length + 1 = (pre ++ [lower]).length := by simp
  rw [e, e, hlen]
  rw [e] at hl hp
  exact fixAdd_rel hidx hx hl p hp

theorem findPos_head (k : K) (l : List (K × V)) : ∀ x ∈ (l.drop (findPos gt k l)).head?, gt x.1 k = false := by
  induction l with
  | nil => simp [findPos]
  | cons y tl ih =>
    obtain ⟨a, av⟩ := y
    simp only [findPos]
    cases h : gt a k with
    | true => simpa using ih
    | false => simp [h]

/-- a hit of `_sblk_find_pi_mm` is a record with exactly the key looked for -/
theorem findPi_true_key (st : StrictTotal gt) {k : K} {recs : List (K × V)} {idx : Nat}
    (h : findPi gt k recs = (true, idx)) : ∃ av, recs[idx]? = some (k, av) := by
  have hh := findPos_head (gt := gt) k recs
  simp only [findPi] at h
  split at h
  · rename_i a av tl e
    simp only [Prod.mk.injEq, Bool.not_eq_eq_eq_not, Bool.not_true] at h
    rw [e] at hh
    have h1 := hh (a, av) (by simp)
    have := st.tri a k h1 h.1
    subst this
    rw [← h.2]
    exact ⟨av, (getElem?_of_drop e).1⟩
  · simp at h

theorem findPi_le (k : K) (recs : List (K × V)) : (findPi gt k recs).2 ≤ recs.length := by
  rw [findPi_snd]; exact findPos_le_length k recs

theorem insRel_trans_left {P : K × V → Bool} {ns ns1 ns2 : List (Node K V)} {p p1 p2 : CPos}
    (h1 : aheadN ns1 p1 = aheadN ns p ∧ aheadP ns1 p1 = aheadP ns p) (h2 : InsRel P ns1 ns2 p1 p2) :
    InsRel P ns ns2 p p2 := by
  refine ⟨h2.1, ?_, ?_⟩
  · rw [h2.2.1, h1.1]
  · rw [h2.2.2, h1.2]

/-- `put` of a key the store does not hold, whichever branch of `_lx_addkv` it takes: every usable
    position stays usable; what lies ahead of it afterwards, the newborn filtered out, is exactly what
    lay ahead before (in both directions) -/
theorem put_new_cursors [DecidableEq K] (st : StrictTotal gt) (d : Db K V) (k : K) (v : V) (nov : Bool) (lvl : Nat)
    (hk : ∀ r ∈ flatten d.nodes, r.1 ≠ k) :
    ∃ fix, CursVia fix d (put gt d k v nov lvl).1 ∧
      ∀ p, CurOk d.nodes p → InsRel (keyNe k) d.nodes (put gt d k v nov lvl).1.nodes p (fix p) := by
  have hx : keyNe k (k, v) = false := keyNe_self k v
  have hall : ∀ r ∈ flatten d.nodes, keyNe k r = true := fun r hr => keyNe_true.2 (hk r hr)
  have hsame : ∀ o, ∃ fix, CursVia fix d ((d, o) : Db K V × PutOut × Option V).1 ∧
      ∀ p, CurOk d.nodes p → InsRel (keyNe k) d.nodes ((d, o) : Db K V × PutOut × Option V).1.nodes p (fix p) :=
    fun o => ⟨id, cursVia_refl d, fun p hp => insRel_refl hall hp⟩
  obtain ⟨nodes, curs⟩ := d
  simp only at hk hall hsame ⊢
  generalize hres : put gt ⟨nodes, curs⟩ k v nov lvl = res
  cases hr : routeIdx gt k nodes with
  | zero =>
    simp only [put, hr, if_true] at hres
    cases nodes with
    | nil =>
      subst hres
      refine ⟨id, cursVia_id _ _, fun p hp => ?_⟩
      have hf : flatten ([] : List (Node K V)) = [] ++ [] := rfl
      have hf' : flatten [(⟨clampLvl ([] : List (Node K V)) lvl, [(k, v)]⟩ : Node K V)] = [] ++ (k, v) :: [] := by simp
      refine insRel_pseudo hf hf' hx (by simp) ?_
      intro i j s e; subst e
      obtain ⟨nd, hn, _⟩ := hp
      simp at hn
    | cons u rest =>
      simp only at hres
      split at hres
      · subst hres
        refine ⟨_, cursVia_mapCurs _ _ _, fun p hp => ?_⟩
        exact fixAdd_rel (pre := []) (findPi_le k u.recs) hx hall p hp
      · subst hres
        refine ⟨_, cursVia_mapCurs _ _ _, fun p hp => ?_⟩
        exact fixFront_rel _ hx hall p hp
  | succ li =>
    simp only [put, hr, Nat.add_one_ne_zero, if_false, Nat.add_sub_cancel] at hres
    cases hn : nodes[li]? with
    | none =>
      simp only [hn] at hres
      subst hres; exact hsame (.ok, none)
    | some lower =>
      obtain ⟨pre, post, e, hl⟩ := exists_split_of_getElem? hn
      subst e
      simp only [getElem?_mid hl, take_mid hl, drop_mid hl] at hres
      subst hl
      have hidx := findPi_le (gt := gt) k lower.recs
      cases hp : findPi gt k lower.recs with
      | mk found idx =>
      rw [hp] at hres hidx
      simp only at hres hidx
      cases found with
      | true =>
        exfalso
        obtain ⟨av, hav⟩ := findPi_true_key st hp
        refine hk (k, av) ?_ rfl
        rw [flatten_append, flatten_cons]
        exact List.mem_append_right _ (List.mem_append_left _ (List.mem_of_getElem? hav))
      | false =>
        simp only [Bool.false_eq_true, if_false] at hres
        split at hres
        · rename_i hfull
          generalize hb : (decide (idx ≥ cap) && upperFree post) = b at hres
          cases b with
          | true =>
            cases post with
            | nil => simp [upperFree] at hb
            | cons u rest =>
              simp only [if_true] at hres
              subst hres
              refine ⟨_, cursVia_mapCurs _ _ _, fun p hp => ?_⟩
              exact fixAdd_rel_next (findPi_le k u.recs) hx hall p hp
          | false =>
            simp only [Bool.false_eq_true, if_false] at hres
            split at hres
            · subst hres
              refine ⟨_, cursVia_mapCurs _ _ _, fun p hp => ?_⟩
              exact fixSplitNew_rel _ hx hall p hp
            · have hfl : flatten (pre ++ { lower with recs := lower.recs.take pivot } ::
                    ⟨clampLvl (pre ++ lower :: post) lvl, lower.recs.drop pivot⟩ :: post) = flatten (pre ++ lower :: post) := by
                simp only [flatten_append, flatten_cons]
                rw [← List.append_assoc (lower.recs.take pivot), List.take_append_drop]
              have hall1 := hall
              rw [← hfl] at hall1
              split at hres
              · rename_i hpv
                subst hres
                refine ⟨fun p => fixAdd (pre.length + 1) (idx - pivot) (fixSplit pre.length true p), ?_, fun p hp => ?_⟩
                · simp [CursVia, mapCurs]
                · have h1 := fixSplitMove_rel (clampLvl (pre ++ lower :: post) lvl) p hp
                  simp only at h1
                  refine insRel_trans_left h1.2 ?_
                  exact fixAdd_rel_next (u := ⟨clampLvl (pre ++ lower :: post) lvl, lower.recs.drop pivot⟩)
                    (by simp only [List.length_drop]; omega) hx hall1 _ h1.1
              · rename_i hpv
                subst hres
                refine ⟨fun p => fixAdd pre.length idx (fixSplit pre.length true p), ?_, fun p hp => ?_⟩
                · simp [CursVia, mapCurs]
                · have h1 := fixSplitMove_rel (clampLvl (pre ++ lower :: post) lvl) p hp
                  simp only at h1
                  refine insRel_trans_left h1.2 ?_
                  exact fixAdd_rel (lower := { lower with recs := lower.recs.take pivot })
                    (by simp only [List.length_take]; simp only [cap, pivot] at hfull hpv ⊢; omega) hx hall1 _ h1.1
        · subst hres
          refine ⟨_, cursVia_mapCurs _ _ _, fun p hp => ?_⟩
          exact fixAdd_rel hidx hx hall p hp

/-! ### scans from an arbitrary position -/

/-- repeated NEXT from any usable position returns exactly `aheadN`, in order, each record once, and
    then reports not-found -/
theorem scan_from_next (d : Db K V) (hok : NodesOk d.nodes) (fuel : Nat) :
    ∀ p, CurOk d.nodes p → (aheadN d.nodes p).length < fuel →
      scan d (curNext d) fuel p = ((aheadN d.nodes p).map some, true) := by
  induction fuel with
  | zero => intro p _ h; omega
  | succ fuel ih =>
    intro p hp hf
    have hs := next_step d hok p hp
    simp only [scan]
    cases hb : (curNext d p).2 with
    | true =>
      obtain ⟨r, hr, ha, hc⟩ := hs.1 hb
      rw [ha] at hf ⊢
      simp only [List.length_cons] at hf
      simp only [if_true, hr, ih _ hc (by omega), List.map_cons]
    | false =>
      rw [hs.2 hb]; simp

/-- repeated PREV returns `aheadP` from the back -/
theorem scan_from_prev (d : Db K V) (hok : NodesOk d.nodes) (fuel : Nat) :
    ∀ p, CurOk d.nodes p → (aheadP d.nodes p).length < fuel →
      scan d (curPrev d) fuel p = ((aheadP d.nodes p).reverse.map some, true) := by
  induction fuel with
  | zero => intro p _ h; omega
  | succ fuel ih =>
    intro p hp hf
    have hs := prev_step d hok p hp
    simp only [scan]
    cases hb : (curPrev d p).2 with
    | true =>
      obtain ⟨r, hr, ha, hc⟩ := hs.1 hb
      rw [ha] at hf ⊢
      simp only [List.length_append, List.length_cons, List.length_nil] at hf
      simp only [if_true, hr, ih _ hc (by omega), List.reverse_append, List.reverse_cons, List.reverse_nil,
        List.nil_append, List.cons_append, List.map_cons]
    | false =>
      rw [hs.2 hb]; simp

theorem aheadN_desc {ns : List (Node K V)} (hd : Desc gt (flatten ns)) (p : CPos) : Desc gt (aheadN ns p) :=
  List.Pairwise.sublist (aheadN_sublist ns p) hd

theorem aheadP_desc {ns : List (Node K V)} (hd : Desc gt (flatten ns)) (p : CPos) : Desc gt (aheadP ns p) :=
  List.Pairwise.sublist (aheadP_sublist ns p) hd

/-! ### overwriting a value: positions do not move -/

theorem offs_eq_sum (ns : List (Node K V)) (i : Nat) : offs ns i = (((ns.map (·.recs.length))).take i).sum := by
  induction ns generalizing i with
  | nil => simp
  | cons n ns ih =>
    cases i with
    | zero => simp
    | succ i => simp [ih]

/-- `flatIdx` as a sum of node sizes -/
theorem flatIdx_eq_sum (ns : List (Node K V)) (i j : Nat) :
    flatIdx ns i j = ((ns.take i).map (·.recs.length)).sum + j := by
  rw [flatIdx, offs_eq_sum, List.map_take]

/-- two chains with the same node sizes have the same usable positions and flat indices -/
theorem shape_eq {ns ns' : List (Node K V)} (h : ns'.map (·.recs.length) = ns.map (·.recs.length)) :
    (∀ i, offs ns' i = offs ns i) ∧ (∀ p, CurOk ns p → CurOk ns' p) := by
  refine ⟨fun i => by rw [offs_eq_sum, offs_eq_sum, h], fun p hp => ?_⟩
  cases p with
  | head => trivial
  | tail => trivial
  | void => trivial
  | «at» i j s =>
    obtain ⟨nd, hn, hj⟩ := hp
    have h1 : (ns.map (·.recs.length))[i]? = some nd.recs.length := by simp [hn]
    rw [← h, List.getElem?_map] at h1
    cases hn' : ns'[i]? with
    | none => simp [hn'] at h1
    | some nd' =>
      simp only [hn', Option.map_some, Option.some.injEq] at h1
      exact ⟨nd', hn', by omega⟩

/-- same shape, records mapped through `f`: positions stay usable and see the mapped records -/
theorem map_rel {ns ns' : List (Node K V)} {f : K × V → K × V}
    (hs : ns'.map (·.recs.length) = ns.map (·.recs.length)) (hf : flatten ns' = (flatten ns).map f)
    (p : CPos) (hp : CurOk ns p) :
    CurOk ns' p ∧ aheadN ns' p = (aheadN ns p).map f ∧ aheadP ns' p = (aheadP ns p).map f := by
  have hsh := shape_eq hs
  refine ⟨hsh.2 p hp, ?_, ?_⟩
  · cases p with
    | head => exact hf
    | tail => rfl
    | void => rfl
    | «at» i j s =>
      simp only [aheadN, flatIdx, hsh.1, hf]
      split <;> simp only [List.map_drop]
  · cases p with
    | head => rfl
    | tail => exact hf
    | void => rfl
    | «at» i j s =>
      simp only [aheadP, flatIdx, hsh.1, hf]
      split <;> simp only [List.map_take]

/-- the record with key `k` gets value `v`, every other record is kept -/
def setVal [DecidableEq K] (k : K) (v : V) (r : K × V) : K × V := if r.1 = k then (k, v) else r

theorem map_setVal_id [DecidableEq K] {k : K} {v : V} {l : List (K × V)} (h : ∀ r ∈ l, keyNe k r = true) :
    l.map (setVal k v) = l := by
  induction l with
  | nil => rfl
  | cons x tl ih =>
    have hx := keyNe_true.1 (h x (List.mem_cons_self ..))
    rw [List.map_cons, ih (fun r hr => h r (List.mem_cons_of_mem _ hr))]
    simp only [setVal, hx, if_false]

/-- on a descending list holding `k`, `specPut` only rewrites the value of `k` -/
theorem specPut_eq_map_setVal [DecidableEq K] (st : StrictTotal gt) {m : List (K × V)} (hd : Desc gt m) {k : K} {av : V}
    (hm : (k, av) ∈ m) (v : V) : specPut gt m k v = m.map (setVal k v) := by
  obtain ⟨l1, l2, rfl, h1, h2 | ⟨av', rest, rfl, h2⟩⟩ := desc_split st k hd
  · exfalso
    rcases List.mem_append.1 hm with h | h
    · exact st.ne_of_gt (h1 _ h) rfl
    · exact st.ne_of_gt (h2 _ h) rfl
  · rw [specPut_present st v av' rest h1]
    have hne := keyNe_around st hd
    rw [List.map_append, List.map_cons,
      map_setVal_id (fun r hr => hne r (List.mem_append_left _ hr)),
      map_setVal_id (fun r hr => hne r (List.mem_append_right _ hr))]
    simp [setVal]

/-- `put` (overwrite allowed) of a key the store holds: no cursor moves, only that key's value changes -/
theorem put_overwrite_cursors [DecidableEq K] (st : StrictTotal gt) (d : Db K V) (inv : NodeInv gt d.nodes) (k : K) (v : V)
    (lvl : Nat) {av : V} (hm : (k, av) ∈ flatten d.nodes) :
    (put gt d k v false lvl).1.curs = d.curs ∧
    ∀ p, CurOk d.nodes p → CurOk (put gt d k v false lvl).1.nodes p ∧
      aheadN (put gt d k v false lvl).1.nodes p = (aheadN d.nodes p).map (setVal k v) ∧
      aheadP (put gt d k v false lvl).1.nodes p = (aheadP d.nodes p).map (setVal k v) := by
  have hcore := (put_core st d inv k v lvl _ rfl).1
  rw [specPut_eq_map_setVal st inv.2 hm v] at hcore
  suffices h : (put gt d k v false lvl).1.curs = d.curs ∧
      (put gt d k v false lvl).1.nodes.map (·.recs.length) = d.nodes.map (·.recs.length) from
    ⟨h.1, fun p hp => map_rel h.2 hcore p hp⟩
  cases hr : routeIdx gt k d.nodes with
  | zero =>
    exfalso
    have := routeIdx_zero st inv hr _ hm
    rw [st.irrefl] at this; cases this
  | succ r =>
    obtain ⟨pre, lower, post, e, hl, hg, hc⟩ := lower_split st inv hr
    rcases hc with ⟨h2, hp, _⟩ | ⟨av', rest, h2, h3, hp⟩
    · exfalso
      rw [e, flatten_split pre post lower (findPos gt k lower.recs)] at hm
      rcases List.mem_append.1 hm with h | h
      · exact st.ne_of_gt (hg _ h) rfl
      · exact st.ne_of_gt (h2 _ h) rfl
    · obtain ⟨nodes, curs⟩ := d
      simp only at e hr
      subst e
      simp only [put, hr, Nat.add_one_ne_zero, if_false, Nat.add_sub_cancel, getElem?_mid hl, take_mid hl,
        drop_mid hl, hp, if_true, Bool.false_eq_true]
      simp

/-- `iwkv_cursor_set`: no cursor moves, only the value under the writing cursor changes -/
theorem curSet_cursors [DecidableEq K] (st : StrictTotal gt) (d : Db K V) (inv : NodeInv gt d.nodes) (p0 : CPos) (v : V)
    {k : K} {ov : V} (h : curRec d p0 = some (k, ov)) :
    (curSet d p0 v).curs = d.curs ∧
    ∀ p, CurOk d.nodes p → CurOk (curSet d p0 v).nodes p ∧
      aheadN (curSet d p0 v).nodes p = (aheadN d.nodes p).map (setVal k v) ∧
      aheadP (curSet d p0 v).nodes p = (aheadP d.nodes p).map (setVal k v) := by
  have hcore := (curSet_core st d inv p0 v h).1
  obtain ⟨i, j, s, pre, lower, post, t, u, rfl, e, hl, e2, hl2⟩ := curRec_split h
  have hm : (k, ov) ∈ flatten d.nodes := by
    rw [e, flatten_append, flatten_cons, e2]; simp
  rw [specPut_eq_map_setVal st inv.2 hm v] at hcore
  suffices h : (curSet d (.at i j s) v).curs = d.curs ∧
      (curSet d (.at i j s) v).nodes.map (·.recs.length) = d.nodes.map (·.recs.length) from
    ⟨h.1, fun p hp => map_rel h.2 hcore p hp⟩
  have hr : lower.recs[j]? = some (k, ov) := by rw [e2]; exact getElem?_mid hl2
  obtain ⟨nodes, curs⟩ := d
  simp only at e
  subst e
  simp only [curSet, getElem?_mid hl, hr, set_mid hl]
  simp

/-! ### histories of mutations with a tracked cursor -/

/-- one mutating call, or a repositioning of some cursor: `next` / `prev` are `iwkv_cursor_to` with
    `IWKV_CURSOR_NEXT / PREV`, `move` stands for any other repositioning of cursor `c` (a seek, a jump
    to an end), whatever position it yields -/
inductive Mut (K V : Type) where
  | put (k : K) (v : V) (lvl : Nat)
  | del (k : K)
  | cset (c : Nat) (v : V)
  | cdel (c : Nat)
  | move (c : Nat) (q : CPos)
  | next (c : Nat)
  | prev (c : Nat)

/-- the record under cursor `c` -/
def recAt (d : Db K V) (c : Nat) : Option (K × V) := (curPos d c).bind (curRec d)

def keyAt (d : Db K V) (c : Nat) : List K := match recAt d c with | some r => [r.1] | none => []

def stepMut (gt : K → K → Bool) (d : Db K V) : Mut K V → Db K V
  | .put k v lvl => (put gt d k v false lvl).1
  | .del k => (del gt d k).1
  | .cset c v => match curPos d c with | some p => curSet d p v | none => d
  | .cdel c => match curPos d c with | some p => curDel d p | none => d
  | .move c q => setCur d c q
  | .next c => match curPos d c with | some p => setCur d c (curNext d p).1 | none => d
  | .prev c => match curPos d c with | some p => setCur d c (curPrev d p).1 | none => d

/-- the step repositions cursor `c` -/
def repositions (c : Nat) : Mut K V → Bool
  | .move c' _ => c' = c
  | .next c' => c' = c
  | .prev c' => c' = c
  | _ => false

/-- the record the step hands to cursor `c` (a successful NEXT / PREV of that cursor) -/
def retOf (c : Nat) (d : Db K V) : Mut K V → Option (K × V)
  | .next c' =>
    if c' = c then
      match curPos d c with
      | some p => if (curNext d p).2 then curRec d (curNext d p).1 else none
      | none => none
    else none
  | .prev c' =>
    if c' = c then
      match curPos d c with
      | some p => if (curPrev d p).2 then curRec d (curPrev d p).1 else none
      | none => none
    else none
  | _ => none

/-- keys the step removes -/
def mutDel (d : Db K V) : Mut K V → List K
  | .del k => [k]
  | .cdel c => keyAt d c
  | _ => []

/-- keys the step may insert -/
def mutPut : Mut K V → List K
  | .put k _ _ => [k]
  | _ => []

/-- keys whose record the step inserts, rewrites or removes -/
def mutTouch (d : Db K V) : Mut K V → List K
  | .put k _ _ => [k]
  | .del k => [k]
  | .cset c _ => keyAt d c
  | .cdel c => keyAt d c
  | _ => []

def runMut (gt : K → K → Bool) : Db K V → List (Mut K V) → Db K V
  | d, [] => d
  | d, m :: ms => runMut gt (stepMut gt d m) ms

def runDel (gt : K → K → Bool) : Db K V → List (Mut K V) → List K
  | _, [] => []
  | d, m :: ms => mutDel d m ++ runDel gt (stepMut gt d m) ms

/-- the records handed to cursor `c` along the history, in order -/
def runRet (gt : K → K → Bool) (c : Nat) : Db K V → List (Mut K V) → List (K × V)
  | _, [] => []
  | d, m :: ms => (retOf c d m).toList ++ runRet gt c (stepMut gt d m) ms

def runPut : List (Mut K V) → List K
  | [] => []
  | m :: ms => mutPut m ++ runPut ms

def runTouch (gt : K → K → Bool) : Db K V → List (Mut K V) → List K
  | _, [] => []
  | d, m :: ms => mutTouch d m ++ runTouch gt (stepMut gt d m) ms

def notIn [DecidableEq K] (D : List K) : K → Bool := fun x => decide (x ∉ D)
def keyNotIn [DecidableEq K] (D : List K) : K × V → Bool := fun r => decide (r.1 ∉ D)

/-- keys removed by the history and not put again afterwards -/
def runDead [DecidableEq K] (gt : K → K → Bool) : Db K V → List (Mut K V) → List K
  | _, [] => []
  | d, m :: ms => (mutDel d m).filter (notIn (runPut ms)) ++ runDead gt (stepMut gt d m) ms

/-- how what lies ahead of the tracked cursor (`A` before, `A1` after) relates, given the keys
    removed (`D`), possibly inserted (`Pu`) and touched (`T`) in between -/
structure StepFacts [DecidableEq K] (A A1 : List (K × V)) (D Pu T : List K) : Prop where
  /-- every record ahead whose key was not removed is still ahead, in the same relative order -/
  surv : ((A.map (·.1)).filter (notIn D)).Sublist (A1.map (·.1))
  /-- whatever is ahead afterwards was ahead before, in the same relative order, or was inserted -/
  orig : ((A1.map (·.1)).filter (notIn Pu)).Sublist (A.map (·.1))
  /-- the untouched records ahead are exactly the same, values included -/
  same : A1.filter (keyNotIn T) = A.filter (keyNotIn T)

section Facts
variable [DecidableEq K]

theorem keyNe_eq (k : K) : (keyNe k : K × V → Bool) = keyNotIn [k] := by
  funext r; simp [keyNe, keyNotIn]

theorem map_fst_filter (D : List K) (A : List (K × V)) :
    (A.filter (keyNotIn D)).map (·.1) = (A.map (·.1)).filter (notIn D) := by
  rw [List.filter_map]; rfl

theorem notIn_nil : (notIn ([] : List K)) = fun _ => true := by funext x; simp [notIn]
theorem keyNotIn_nil : (keyNotIn ([] : List K) : K × V → Bool) = fun _ => true := by funext x; simp [keyNotIn]

theorem filter_notIn_append (D1 D2 : List K) (l : List K) :
    l.filter (notIn (D1 ++ D2)) = (l.filter (notIn D1)).filter (notIn D2) := by
  rw [List.filter_filter]; congr 1; funext x; simp [notIn, not_or, Bool.and_comm]

theorem filter_keyNotIn_append (D1 D2 : List K) (l : List (K × V)) :
    l.filter (keyNotIn (D1 ++ D2)) = (l.filter (keyNotIn D1)).filter (keyNotIn D2) := by
  rw [List.filter_filter]; congr 1; funext x; simp [keyNotIn, not_or, Bool.and_comm]

theorem filter_keyNotIn_comm (D1 D2 : List K) (l : List (K × V)) :
    (l.filter (keyNotIn D1)).filter (keyNotIn D2) = (l.filter (keyNotIn D2)).filter (keyNotIn D1) := by
  rw [List.filter_filter, List.filter_filter]; congr 1; funext x; simp [Bool.and_comm]

theorem facts_nop (A : List (K × V)) : StepFacts A A [] [] [] :=
  ⟨List.filter_sublist, List.filter_sublist, rfl⟩

theorem facts_del (A : List (K × V)) (k : K) : StepFacts A (A.filter (keyNe k)) [k] [] [k] := by
  rw [keyNe_eq]
  refine ⟨?_, ?_, ?_⟩
  · rw [map_fst_filter]; exact List.Sublist.refl _
  · exact List.filter_sublist.trans (List.filter_sublist.map _)
  · rw [List.filter_filter]; congr 1; funext x; simp

theorem facts_ins {A A1 : List (K × V)} {k : K} (h : A1.filter (keyNe k) = A) (hk : ∀ r ∈ A, r.1 ≠ k) :
    StepFacts A A1 [] [k] [k] := by
  rw [keyNe_eq] at h
  refine ⟨?_, ?_, ?_⟩
  · refine List.filter_sublist.trans ?_
    rw [← h]; exact List.filter_sublist.map _
  · rw [← map_fst_filter, h]; exact List.Sublist.refl _
  · rw [h]; symm
    exact List.filter_eq_self.2 fun r hr => by simpa [keyNotIn] using hk r hr

theorem map_fst_setVal (k : K) (v : V) (A : List (K × V)) : (A.map (setVal k v)).map (·.1) = A.map (·.1) := by
  rw [List.map_map]; apply List.map_congr_left
  intro r _; simp only [Function.comp, setVal]; split <;> simp_all

theorem filter_setVal (k : K) (v : V) (A : List (K × V)) :
    (A.map (setVal k v)).filter (keyNotIn [k]) = A.filter (keyNotIn [k]) := by
  induction A with
  | nil => rfl
  | cons x tl ih =>
    by_cases hx : x.1 = k
    · simp [setVal, keyNotIn, hx]
      simpa [keyNotIn] using ih
    · simp [setVal, keyNotIn, hx]
      simpa [keyNotIn] using ih

theorem facts_upd (A : List (K × V)) (k : K) (v : V) (Pu : List K) : StepFacts A (A.map (setVal k v)) [] Pu [k] := by
  refine ⟨?_, ?_, filter_setVal k v A⟩
  · rw [map_fst_setVal]; exact List.filter_sublist
  · rw [map_fst_setVal]; exact List.filter_sublist

theorem facts_trans {A A1 A2 : List (K × V)} {D1 D2 P1 P2 T1 T2 : List K}
    (h1 : StepFacts A A1 D1 P1 T1) (h2 : StepFacts A1 A2 D2 P2 T2) :
    StepFacts A A2 (D1 ++ D2) (P1 ++ P2) (T1 ++ T2) := by
  refine ⟨?_, ?_, ?_⟩
  · rw [filter_notIn_append]
    exact (h1.surv.filter _).trans h2.surv
  · have : (A2.map (·.1)).filter (notIn (P1 ++ P2)) = ((A2.map (·.1)).filter (notIn P2)).filter (notIn P1) := by
      rw [List.filter_filter]; congr 1; funext x; simp [notIn, not_or]
    rw [this]
    exact (h2.orig.filter _).trans h1.orig
  · rw [filter_keyNotIn_append, filter_keyNotIn_append, filter_keyNotIn_comm, h2.same, filter_keyNotIn_comm, h1.same]

end Facts

theorem curSet_none (d : Db K V) (p : CPos) (v : V) (h : curRec d p = none) : curSet d p v = d := by
  cases p with
  | head => rfl
  | tail => rfl
  | void => rfl
  | «at» i j s =>
    simp only [curRec] at h
    simp only [curSet]
    cases hn : d.nodes[i]? with
    | none => rfl
    | some n =>
      rw [hn] at h
      simp only [Option.bind_some] at h
      simp only [h]

theorem curDel_none (d : Db K V) (p : CPos) (h : curRec d p = none) : curDel d p = d := by
  cases p with
  | head => rfl
  | tail => rfl
  | void => rfl
  | «at» i j s => simp [curDel, h]

theorem curPos_setCur_ne (d : Db K V) {c c' : Nat} (q : CPos) (h : c' ≠ c) : curPos (setCur d c' q) c = curPos d c := by
  simp only [curPos, setCur, List.find?_cons]
  have : (decide ((c', q).1 = c)) = false := by simp [h]
  rw [this]
  simp only [List.find?_filter]
  congr 2
  funext x
  by_cases hx : x.1 = c
  · simp [hx]
    exact fun e => h (e ▸ rfl)
  · simp [hx]

theorem curPos_of_curs {d d' : Db K V} (h : d'.curs = d.curs) (c : Nat) : curPos d' c = curPos d c := by
  simp only [curPos, h]

theorem mem_flat_of_ahead {ns : List (Node K V)} {p : CPos} {r : K × V} :
    (r ∈ aheadN ns p → r ∈ flatten ns) ∧ (r ∈ aheadP ns p → r ∈ flatten ns) :=
  ⟨fun h => (aheadN_sublist ns p).subset h, fun h => (aheadP_sublist ns p).subset h⟩

section Hist
variable [DecidableEq K]

omit [DecidableEq K] in
/-- the chain invariant survives every step -/
theorem stepMut_inv (st : StrictTotal gt) (d : Db K V) (inv : NodeInv gt d.nodes) (m : Mut K V) :
    NodeInv gt (stepMut gt d m).nodes := by
  cases m with
  | put k v lvl => exact (step_refines st d inv (.put k v lvl)).2.2
  | del k => exact (step_refines st d inv (.del k)).2.2
  | cset c v =>
    simp only [stepMut]
    cases hc : curPos d c with
    | none => exact inv
    | some p0 =>
      cases hr : curRec d p0 with
      | none => simp only [curSet_none d p0 v hr]; exact inv
      | some r =>
        obtain ⟨k, ov⟩ := r
        have h := curSet_core st d inv p0 v hr
        exact ⟨h.2, by rw [h.1]; exact desc_specPut st inv.2 k v⟩
  | cdel c =>
    simp only [stepMut]
    cases hc : curPos d c with
    | none => exact inv
    | some p0 =>
      cases hr : curRec d p0 with
      | none => simp only [curDel_none d p0 hr]; exact inv
      | some r =>
        obtain ⟨k, ov⟩ := r
        have h := curDel_core st d inv p0 hr
        exact ⟨h.2, by rw [h.1]; exact desc_specDel st inv.2 k⟩
  | move c q => exact inv
  | next c => simp only [stepMut]; split <;> exact inv
  | prev c => simp only [stepMut]; split <;> exact inv

/-- one step of a history, seen from a cursor the step does not reposition -/
theorem step_tracks (st : StrictTotal gt) (d : Db K V) (inv : NodeInv gt d.nodes) (m : Mut K V) (c : Nat) (p : CPos)
    (hc : curPos d c = some p) (hp : CurOk d.nodes p) (hmv : repositions c m = false) :
    ∃ p1, curPos (stepMut gt d m) c = some p1 ∧ CurOk (stepMut gt d m).nodes p1 ∧
      StepFacts (aheadN d.nodes p) (aheadN (stepMut gt d m).nodes p1) (mutDel d m) (mutPut m) (mutTouch d m) ∧
      StepFacts (aheadP d.nodes p) (aheadP (stepMut gt d m).nodes p1) (mutDel d m) (mutPut m) (mutTouch d m) := by
  have hnop : ∀ d1 : Db K V, d1.nodes = d.nodes → curPos d1 c = curPos d c →
      ∃ p1, curPos d1 c = some p1 ∧ CurOk d1.nodes p1 ∧
        StepFacts (aheadN d.nodes p) (aheadN d1.nodes p1) [] [] [] ∧
        StepFacts (aheadP d.nodes p) (aheadP d1.nodes p1) [] [] [] := by
    intro d1 h1 h2
    exact ⟨p, by rw [h2, hc], by rw [h1]; exact hp, by rw [h1]; exact facts_nop _, by rw [h1]; exact facts_nop _⟩
  cases m with
  | put k v lvl =>
    simp only [stepMut, mutDel, mutPut, mutTouch]
    by_cases hk : ∀ r ∈ flatten d.nodes, r.1 ≠ k
    · obtain ⟨fix, hv, hrel⟩ := put_new_cursors st d k v false lvl hk
      obtain ⟨h1, h2, h3⟩ := hrel p hp
      refine ⟨fix p, by rw [cursVia_curPos hv, hc]; rfl, h1, ?_, ?_⟩
      · exact facts_ins h2 (fun r hr => hk r (mem_flat_of_ahead.1 hr))
      · exact facts_ins h3 (fun r hr => hk r (mem_flat_of_ahead.2 hr))
    · have : ∃ av, (k, av) ∈ flatten d.nodes := by
        apply Classical.byContradiction
        intro hne
        apply hk
        intro r hr e
        exact hne ⟨r.2, by rw [← e]; exact hr⟩
      obtain ⟨av, hm⟩ := this
      obtain ⟨h0, hrel⟩ := put_overwrite_cursors st d inv k v lvl hm
      obtain ⟨h1, h2, h3⟩ := hrel p hp
      refine ⟨p, by rw [curPos_of_curs h0, hc], h1, ?_, ?_⟩
      · rw [h2]; exact facts_upd _ k v [k]
      · rw [h3]; exact facts_upd _ k v [k]
  | del k =>
    simp only [stepMut, mutDel, mutPut, mutTouch]
    obtain ⟨fix, hv, hrel⟩ := del_cursors st d inv k
    obtain ⟨h1, h2, h3⟩ := hrel p hp
    refine ⟨fix p, by rw [cursVia_curPos hv, hc]; rfl, h1, ?_, ?_⟩
    · rw [h2]; exact facts_del _ k
    · rw [h3]; exact facts_del _ k
  | cset c' v =>
    simp only [stepMut, mutDel, mutPut, mutTouch, keyAt, recAt]
    cases hc' : curPos d c' with
    | none => simpa using hnop d rfl rfl
    | some p0 =>
      cases hr : curRec d p0 with
      | none => simp only [Option.bind_some, hr, curSet_none d p0 v hr]; exact hnop d rfl rfl
      | some r =>
        obtain ⟨k, ov⟩ := r
        simp only [Option.bind_some, hr]
        obtain ⟨h0, hrel⟩ := curSet_cursors st d inv p0 v hr
        obtain ⟨h1, h2, h3⟩ := hrel p hp
        refine ⟨p, by rw [curPos_of_curs h0, hc], h1, ?_, ?_⟩
        · rw [h2]; exact facts_upd _ k v []
        · rw [h3]; exact facts_upd _ k v []
  | cdel c' =>
    simp only [stepMut, mutDel, mutPut, mutTouch, keyAt, recAt]
    cases hc' : curPos d c' with
    | none => simpa using hnop d rfl rfl
    | some p0 =>
      cases hr : curRec d p0 with
      | none => simp only [Option.bind_some, hr, curDel_none d p0 hr]; exact hnop d rfl rfl
      | some r =>
        obtain ⟨k, ov⟩ := r
        simp only [Option.bind_some, hr]
        obtain ⟨fix, hv, hrel⟩ := curDel_cursors st d inv p0 hr
        obtain ⟨h1, h2, h3⟩ := hrel p hp
        refine ⟨fix p, by rw [cursVia_curPos hv, hc]; rfl, h1, ?_, ?_⟩
        · rw [h2]; exact facts_del _ k
        · rw [h3]; exact facts_del _ k
  | move c' q =>
    simp only [stepMut, mutDel, mutPut, mutTouch]
    have hne : c' ≠ c := by simpa [repositions] using hmv
    exact hnop (setCur d c' q) rfl (curPos_setCur_ne d q hne)
  | next c' =>
    simp only [stepMut, mutDel, mutPut, mutTouch]
    have hne : c' ≠ c := by simpa [repositions] using hmv
    cases hc' : curPos d c' with
    | none => exact hnop d rfl rfl
    | some p0 => exact hnop (setCur d c' _) rfl (curPos_setCur_ne d _ hne)
  | prev c' =>
    simp only [stepMut, mutDel, mutPut, mutTouch]
    have hne : c' ≠ c := by simpa [repositions] using hmv
    cases hc' : curPos d c' with
    | none => exact hnop d rfl rfl
    | some p0 => exact hnop (setCur d c' _) rfl (curPos_setCur_ne d _ hne)

/-- a whole history, seen from a cursor it does not reposition -/
theorem run_tracks (st : StrictTotal gt) (c : Nat) (ms : List (Mut K V)) :
    ∀ (d : Db K V) (p : CPos), NodeInv gt d.nodes → curPos d c = some p → CurOk d.nodes p →
      (∀ m ∈ ms, repositions c m = false) →
      NodeInv gt (runMut gt d ms).nodes ∧
      ∃ p', curPos (runMut gt d ms) c = some p' ∧ CurOk (runMut gt d ms).nodes p' ∧
        StepFacts (aheadN d.nodes p) (aheadN (runMut gt d ms).nodes p') (runDel gt d ms) (runPut ms) (runTouch gt d ms) ∧
        StepFacts (aheadP d.nodes p) (aheadP (runMut gt d ms).nodes p') (runDel gt d ms) (runPut ms) (runTouch gt d ms) := by
  induction ms with
  | nil =>
    intro d p inv hc hp _
    exact ⟨inv, p, hc, hp, facts_nop _, facts_nop _⟩
  | cons m ms ih =>
    intro d p inv hc hp hmv
    obtain ⟨p1, hc1, hp1, hN1, hP1⟩ := step_tracks st d inv m c p hc hp (hmv m (List.mem_cons_self ..))
    obtain ⟨inv', p', hc', hp', hN, hP⟩ := ih (stepMut gt d m) p1 (stepMut_inv st d inv m) hc1 hp1
      (fun m' hm' => hmv m' (List.mem_cons_of_mem _ hm'))
    exact ⟨inv', p', hc', hp', facts_trans hN1 hN, facts_trans hP1 hP⟩

/-! #### removed keys stay away until they are put again -/

omit [DecidableEq K] in
/-- keys after a step: an old key the step did not remove, or a key the step put -/
theorem step_keys (st : StrictTotal gt) (d : Db K V) (inv : NodeInv gt d.nodes) (m : Mut K V) :
    ∀ r ∈ flatten (stepMut gt d m).nodes,
      ((∃ r0 ∈ flatten d.nodes, r0.1 = r.1) ∧ r.1 ∉ mutDel d m) ∨ r.1 ∈ mutPut m := by
  have hnop : ∀ r ∈ flatten d.nodes, ((∃ r0 ∈ flatten d.nodes, r0.1 = r.1) ∧ r.1 ∉ ([] : List K)) ∨ r.1 ∈ ([] : List K) :=
    fun r hr => Or.inl ⟨⟨r, hr, rfl⟩, by simp⟩
  cases m with
  | put k v lvl =>
    intro r hr
    simp only [stepMut, mutDel, mutPut] at hr ⊢
    rw [(put_core st d inv k v lvl _ rfl).1, mem_specPut st inv.2] at hr
    rcases hr with rfl | ⟨h1, h2⟩
    · exact Or.inr (by simp)
    · exact Or.inl ⟨⟨r, h1, rfl⟩, by simp⟩
  | del k =>
    intro r hr
    simp only [stepMut, mutDel, mutPut] at hr ⊢
    rw [(del_core st d inv k).1, mem_specDel st inv.2] at hr
    exact Or.inl ⟨⟨r, hr.1, rfl⟩, by simpa using hr.2⟩
  | cset c v =>
    simp only [stepMut, mutDel, mutPut]
    cases hc : curPos d c with
    | none => exact hnop
    | some p0 =>
      cases hr : curRec d p0 with
      | none => simp only [curSet_none d p0 v hr]; exact hnop
      | some x =>
        obtain ⟨k, ov⟩ := x
        intro r hr'
        simp only at hr'
        rw [(curSet_core st d inv p0 v hr).1, mem_specPut st inv.2] at hr'
        obtain ⟨i, j, s, pre, lower, post, t, u, rfl, e, hl, e2, hl2⟩ := curRec_split hr
        have hm : (k, ov) ∈ flatten d.nodes := by
          rw [e, flatten_append, flatten_cons, e2]; simp
        rcases hr' with rfl | ⟨h1, h2⟩
        · exact Or.inl ⟨⟨(k, ov), hm, rfl⟩, by simp⟩
        · exact Or.inl ⟨⟨r, h1, rfl⟩, by simp⟩
  | cdel c =>
    simp only [stepMut, mutDel, mutPut, keyAt, recAt]
    cases hc : curPos d c with
    | none => simpa using hnop
    | some p0 =>
      cases hr : curRec d p0 with
      | none => simp only [Option.bind_some, hr, curDel_none d p0 hr]; exact hnop
      | some x =>
        obtain ⟨k, ov⟩ := x
        intro r hr'
        simp only [Option.bind_some, hr] at hr' ⊢
        rw [(curDel_core st d inv p0 hr).1, mem_specDel st inv.2] at hr'
        exact Or.inl ⟨⟨r, hr'.1, rfl⟩, by simpa using hr'.2⟩
  | move c q => exact hnop
  | next c => simp only [stepMut, mutDel, mutPut]; split <;> exact hnop
  | prev c => simp only [stepMut, mutDel, mutPut]; split <;> exact hnop

omit [DecidableEq K] in
theorem absent_run (st : StrictTotal gt) (k : K) (ms : List (Mut K V)) :
    ∀ d : Db K V, NodeInv gt d.nodes → (∀ r ∈ flatten d.nodes, r.1 ≠ k) → k ∉ runPut ms →
      ∀ r ∈ flatten (runMut gt d ms).nodes, r.1 ≠ k := by
  induction ms with
  | nil => intro d _ h _; exact h
  | cons m ms ih =>
    intro d inv h hp
    simp only [runPut, List.mem_append, not_or] at hp
    refine ih (stepMut gt d m) (stepMut_inv st d inv m) ?_ hp.2
    intro r hr e
    rcases step_keys st d inv m r hr with ⟨⟨r0, h0, e0⟩, _⟩ | h1
    · exact h r0 h0 (e0.trans e)
    · exact hp.1 (e ▸ h1)

omit [DecidableEq K] in
theorem mutPut_of_mutDel {d : Db K V} {m : Mut K V} {k : K} (h : k ∈ mutDel d m) : mutPut m = [] := by
  cases m <;> simp_all [mutDel, mutPut]

/-- a key the history removed and did not put again is not in the store at the end -/
theorem run_dead (st : StrictTotal gt) (ms : List (Mut K V)) :
    ∀ d : Db K V, NodeInv gt d.nodes → ∀ k ∈ runDead gt d ms, ∀ r ∈ flatten (runMut gt d ms).nodes, r.1 ≠ k := by
  induction ms with
  | nil => intro d _ k hk; simp [runDead] at hk
  | cons m ms ih =>
    intro d inv k hk
    simp only [runDead, List.mem_append, List.mem_filter] at hk
    rcases hk with ⟨h1, h2⟩ | h
    · have h2 : k ∉ runPut ms := by simpa [notIn] using h2
      refine absent_run st k ms (stepMut gt d m) (stepMut_inv st d inv m) ?_ h2
      intro r hr e
      rcases step_keys st d inv m r hr with ⟨_, h3⟩ | h3
      · exact h3 (e ▸ h1)
      · rw [mutPut_of_mutDel h1] at h3; simp at h3
    · exact ih (stepMut gt d m) (stepMut_inv st d inv m) k h

/-! #### the tracked cursor scans on while the store changes -/

omit [DecidableEq K] in
/-- a NEXT that reports not-found leaves a usable position with the same (empty) `aheadN` -/
theorem next_false (d : Db K V) (p : CPos) (hp : CurOk d.nodes p) (h : (curNext d p).2 = false) :
    CurOk d.nodes (curNext d p).1 ∧ aheadN d.nodes (curNext d p).1 = aheadN d.nodes p := by
  cases p with
  | head => simp only [curNext] at h ⊢; split at h <;> simp_all [CurOk]
  | tail => exact ⟨trivial, rfl⟩
  | void => exact ⟨trivial, rfl⟩
  | «at» i j s =>
    simp only [curNext] at h ⊢
    split at h
    · cases h
    · rename_i hs
      split at h
      · split at h
        · cases h
        · rename_i h1 h2
          simp only [h1, h2, if_true, if_false, hs]
          exact ⟨hp, by simp [aheadN, hs]⟩
      · cases h

omit [DecidableEq K] in
theorem prev_false (d : Db K V) (p : CPos) (hp : CurOk d.nodes p) (h : (curPrev d p).2 = false) :
    CurOk d.nodes (curPrev d p).1 ∧ aheadP d.nodes (curPrev d p).1 = aheadP d.nodes p := by
  cases p with
  | tail => simp only [curPrev] at h ⊢; split at h <;> simp_all [CurOk]
  | head => exact ⟨trivial, rfl⟩
  | void => exact ⟨trivial, rfl⟩
  | «at» i j s =>
    simp only [curPrev] at h ⊢
    split at h
    · cases h
    · rename_i hs
      split at h
      · split at h
        · rename_i h1 h2
          subst h1 h2
          exact ⟨by simpa [hs, CurOk] using hp, by simp [aheadP, hs]⟩
        · cases h
      · cases h

omit [DecidableEq K] in
theorem curPos_setCur_self (d : Db K V) (c : Nat) (q : CPos) : curPos (setCur d c q) c = some q := by
  simp [curPos, setCur]

omit [DecidableEq K] in
/-- a record handed to a cursor is a live record of the store at that moment -/
theorem ret_live {c : Nat} {d : Db K V} {m : Mut K V} {r : K × V} (h : retOf c d m = some r) : r ∈ flatten d.nodes := by
  have key : ∀ q, curRec d q = some r → r ∈ flatten d.nodes := by
    intro q hq
    obtain ⟨i, j, s, pre, lower, post, t, u, rfl, e, hl, e2, hl2⟩ := curRec_split hq
    rw [e, flatten_append, flatten_cons, e2]; simp
  cases m with
  | next c' =>
    simp only [retOf] at h
    split at h
    · split at h
      · split at h
        · exact key _ h
        · cases h
      · cases h
    · cases h
  | prev c' =>
    simp only [retOf] at h
    split at h
    · split at h
      · split at h
        · exact key _ h
        · cases h
      · cases h
    · cases h
  | put k v lvl => cases h
  | del k => cases h
  | cset c' v => cases h
  | cdel c' => cases h
  | move c' q => cases h

theorem facts_frame {A A1 : List (K × V)} {D Pu T : List K} (X Y : List (K × V)) (h : StepFacts A A1 D Pu T) :
    StepFacts (X ++ A ++ Y) (X ++ A1 ++ Y) D Pu T := by
  refine ⟨?_, ?_, ?_⟩
  · simp only [List.map_append, List.filter_append]
    exact (List.filter_sublist.append h.surv).append List.filter_sublist
  · simp only [List.map_append, List.filter_append]
    exact (List.filter_sublist.append h.orig).append List.filter_sublist
  · simp only [List.filter_append, h.same]

/-- one step, the tracked cursor `c` possibly doing NEXT: what it is handed plus what lies ahead
    afterwards relates to what lay ahead before as `StepFacts` says -/
theorem step_scanN (st : StrictTotal gt) (d : Db K V) (inv : NodeInv gt d.nodes) (m : Mut K V) (c : Nat) (p : CPos)
    (hc : curPos d c = some p) (hp : CurOk d.nodes p) (hmv : repositions c m = true → m = .next c) :
    ∃ p1, curPos (stepMut gt d m) c = some p1 ∧ CurOk (stepMut gt d m).nodes p1 ∧
      StepFacts (aheadN d.nodes p) ((retOf c d m).toList ++ aheadN (stepMut gt d m).nodes p1)
        (mutDel d m) (mutPut m) (mutTouch d m) := by
  by_cases hr : repositions c m = true
  · rw [hmv hr]
    simp only [stepMut, hc, retOf, if_true, mutDel, mutPut, mutTouch]
    refine ⟨(curNext d p).1, curPos_setCur_self _ _ _, ?_⟩
    have hs := next_step d inv.1 p hp
    cases hb : (curNext d p).2 with
    | true =>
      obtain ⟨r, h1, h2, h3⟩ := hs.1 hb
      refine ⟨h3, ?_⟩
      simp only [if_true, h1, Option.toList_some, setCur]
      rw [h2]; exact facts_nop _
    | false =>
      obtain ⟨h1, h2⟩ := next_false d p hp hb
      refine ⟨h1, ?_⟩
      simp only [Bool.false_eq_true, if_false, Option.toList_none, List.nil_append, setCur, h2]
      exact facts_nop _
  · have hr' : repositions c m = false := by simpa using hr
    obtain ⟨p1, h1, h2, h3, _⟩ := step_tracks st d inv m c p hc hp hr'
    refine ⟨p1, h1, h2, ?_⟩
    have : retOf c d m = none := by
      cases m <;> simp_all [retOf, repositions]
    rw [this]; exact h3

/-- the same with PREV: what is handed over goes to the back -/
theorem step_scanP (st : StrictTotal gt) (d : Db K V) (inv : NodeInv gt d.nodes) (m : Mut K V) (c : Nat) (p : CPos)
    (hc : curPos d c = some p) (hp : CurOk d.nodes p) (hmv : repositions c m = true → m = .prev c) :
    ∃ p1, curPos (stepMut gt d m) c = some p1 ∧ CurOk (stepMut gt d m).nodes p1 ∧
      StepFacts (aheadP d.nodes p) (aheadP (stepMut gt d m).nodes p1 ++ (retOf c d m).toList)
        (mutDel d m) (mutPut m) (mutTouch d m) := by
  by_cases hr : repositions c m = true
  · rw [hmv hr]
    simp only [stepMut, hc, retOf, if_true, mutDel, mutPut, mutTouch]
    refine ⟨(curPrev d p).1, curPos_setCur_self _ _ _, ?_⟩
    have hs := prev_step d inv.1 p hp
    cases hb : (curPrev d p).2 with
    | true =>
      obtain ⟨r, h1, h2, h3⟩ := hs.1 hb
      refine ⟨h3, ?_⟩
      simp only [if_true, h1, Option.toList_some, setCur]
      rw [h2]; exact facts_nop _
    | false =>
      obtain ⟨h1, h2⟩ := prev_false d p hp hb
      refine ⟨h1, ?_⟩
      simp only [Bool.false_eq_true, if_false, Option.toList_none, List.append_nil, setCur, h2]
      exact facts_nop _
  · have hr' : repositions c m = false := by simpa using hr
    obtain ⟨p1, h1, h2, _, h3⟩ := step_tracks st d inv m c p hc hp hr'
    refine ⟨p1, h1, h2, ?_⟩
    have : retOf c d m = none := by
      cases m <;> simp_all [retOf, repositions]
    rw [this]; simpa using h3

/-- a history in which the tracked cursor `c` moves only by NEXT -/
theorem run_scanN (st : StrictTotal gt) (c : Nat) (ms : List (Mut K V)) :
    ∀ (d : Db K V) (p : CPos), NodeInv gt d.nodes → curPos d c = some p → CurOk d.nodes p →
      (∀ m ∈ ms, repositions c m = true → m = .next c) →
      NodeInv gt (runMut gt d ms).nodes ∧
      ∃ p', curPos (runMut gt d ms) c = some p' ∧ CurOk (runMut gt d ms).nodes p' ∧
        StepFacts (aheadN d.nodes p) (runRet gt c d ms ++ aheadN (runMut gt d ms).nodes p')
          (runDel gt d ms) (runPut ms) (runTouch gt d ms) := by
  induction ms with
  | nil =>
    intro d p inv hc hp _
    exact ⟨inv, p, hc, hp, facts_nop _⟩
  | cons m ms ih =>
    intro d p inv hc hp hmv
    obtain ⟨p1, hc1, hp1, hN1⟩ := step_scanN st d inv m c p hc hp (hmv m (List.mem_cons_self ..))
    obtain ⟨inv', p', hc', hp', hN⟩ := ih (stepMut gt d m) p1 (stepMut_inv st d inv m) hc1 hp1
      (fun m' hm' => hmv m' (List.mem_cons_of_mem _ hm'))
    refine ⟨inv', p', hc', hp', ?_⟩
    have := facts_frame (retOf c d m).toList [] hN
    simp only [List.append_nil] at this
    simp only [runRet, runMut, List.append_assoc]
    exact facts_trans hN1 this

/-- a history in which the tracked cursor `c` moves only by PREV -/
theorem run_scanP (st : StrictTotal gt) (c : Nat) (ms : List (Mut K V)) :
    ∀ (d : Db K V) (p : CPos), NodeInv gt d.nodes → curPos d c = some p → CurOk d.nodes p →
      (∀ m ∈ ms, repositions c m = true → m = .prev c) →
      NodeInv gt (runMut gt d ms).nodes ∧
      ∃ p', curPos (runMut gt d ms) c = some p' ∧ CurOk (runMut gt d ms).nodes p' ∧
        StepFacts (aheadP d.nodes p) (aheadP (runMut gt d ms).nodes p' ++ (runRet gt c d ms).reverse)
          (runDel gt d ms) (runPut ms) (runTouch gt d ms) := by
  induction ms with
  | nil =>
    intro d p inv hc hp _
    exact ⟨inv, p, hc, hp, by simpa [runRet, runMut, runDel, runPut, runTouch] using facts_nop (aheadP d.nodes p)⟩
  | cons m ms ih =>
    intro d p inv hc hp hmv
    obtain ⟨p1, hc1, hp1, hP1⟩ := step_scanP st d inv m c p hc hp (hmv m (List.mem_cons_self ..))
    obtain ⟨inv', p', hc', hp', hP⟩ := ih (stepMut gt d m) p1 (stepMut_inv st d inv m) hc1 hp1
      (fun m' hm' => hmv m' (List.mem_cons_of_mem _ hm'))
    refine ⟨inv', p', hc', hp', ?_⟩
    have := facts_frame [] (retOf c d m).toList hP
    simp only [List.nil_append] at this
    have e : (retOf c d m).toList.reverse = (retOf c d m).toList := by
      cases retOf c d m <;> rfl
    simp only [runRet, runMut, List.reverse_append, e, ← List.append_assoc]
    simp only [List.append_assoc] at this ⊢
    exact facts_trans hP1 this

end Hist

end
/-! ### a concrete instance (used by the non-vacuity examples of `Props/C09.lean`) -/

/-- `>` on naturals -/
abbrev natGt : Nat → Nat → Bool := fun a b => decide (a > b)

/-- two nodes; cursor 1 stands on key 7 (last slot of node 0), cursor 2 is parked before-first -/
def exDb9 : Db Nat Nat := ⟨[⟨1, [(9, 90), (7, 70)]⟩, ⟨0, [(4, 40)]⟩], [(1, .at 0 1 0), (2, .head)]⟩

theorem exDb9_inv : NodeInv natGt exDb9.nodes := by
  refine ⟨?_, ?_⟩
  · intro n hn
    simp [exDb9] at hn
    rcases hn with rfl | rfl <;> simp [cap]
  · simp [Desc, exDb9, flatten]

theorem exDb9_curOk : CurOk exDb9.nodes (.at 0 1 0) := ⟨_, rfl, by decide⟩

end IwModel.Kv
