import IwModel.Model.BinnPatch
import IwModel.Lemmas.BinnRoundtrip
import IwModel.Lemmas.JsonPatchDecode
/-! Lemmas for the byte-level entry points (`Model/BinnPatch.lean`):

* `leafOk` — the part of `Binn.wf` that is an artefact of the model's types (integers are `int64_t`, doubles are 64-bit
  patterns, strings and keys are C strings, i.e. NUL free); the rest of `wf` (keys ≤ 255 bytes, unique ignoring ASCII
  case) is exactly what the writer checks: `wf_of_enc`, `fromNode_none_of_not_wf`;
* RFC 6902 / RFC 7386 results of `leafOk` inputs are `leafOk` (`run_leafOk`, `mergePatch_leafOk`);
* the byte-level call = the abstract call wrapped in decode / encode (`jblPatch_eq`, `mergeHolder_eq`). -/
namespace IwModel.Binn
open IwModel.Gen.Binn

mutual
  /-- what the C types guarantee anyway: integers fit `int64_t`, doubles are 64-bit patterns, strings and keys are
      NUL free.  `wf` = `leafOk` + keys ≤ 255 bytes and unique ignoring ASCII case (`wf_iff`). -/
  def leafOk : JVal → Bool
    | .null => true
    | .bool _ => true
    | .int i => decide (-2 ^ 63 ≤ i ∧ i < 2 ^ 63)
    | .f64 b => decide (b < 2 ^ 64)
    | .str s => s.all (· ≠ 0)
    | .arr xs => leafOkList xs
    | .obj ms => leafOkMembers ms
  def leafOkList : List JVal → Bool
    | [] => true
    | x :: xs => leafOk x && leafOkList xs
  def leafOkMembers : List (Bytes × JVal) → Bool
    | [] => true
    | (k, v) :: ms => k.all (· ≠ 0) && leafOk v && leafOkMembers ms
end

/-- the encoded document fits the 31-bit size fields (same definition as `C14.small`) -/
def small (v : JVal) : Prop := ∀ bs, enc v = some bs → bs.length + 9 < 2 ^ 31

theorem leafOkList_iff (xs : List JVal) : leafOkList xs = true ↔ ∀ x ∈ xs, leafOk x = true := by
  induction xs with
  | nil => simp [leafOkList]
  | cons x xs ih => simp [leafOkList, ih]

theorem leafOkMembers_iff (ms : List (Bytes × JVal)) :
    leafOkMembers ms = true ↔ ∀ p ∈ ms, p.1.all (· ≠ 0) = true ∧ leafOk p.2 = true := by
  induction ms with
  | nil => simp [leafOkMembers]
  | cons p ms ih =>
    obtain ⟨k, v⟩ := p
    simp only [leafOkMembers, Bool.and_eq_true, ih, List.mem_cons, forall_eq_or_imp, and_assoc]

mutual
  theorem leafOk_of_wf (v : JVal) (h : wf v = true) : leafOk v = true := by
    match v with
    | .null => rfl
    | .bool _ => rfl
    | .int _ => simpa [wf, leafOk] using h
    | .f64 _ => simpa [wf, leafOk] using h
    | .str _ => simpa [wf, leafOk] using h
    | .arr xs => simp only [wf] at h; simp only [leafOk]; exact leafOkList_of_wf xs h
    | .obj ms => simp only [wf] at h; simp only [leafOk]; exact leafOkMembers_of_wf [] ms h
  theorem leafOkList_of_wf (xs : List JVal) (h : wfList xs = true) : leafOkList xs = true := by
    match xs with
    | [] => rfl
    | x :: xs =>
      simp only [wfList, Bool.and_eq_true] at h
      simp only [leafOkList, Bool.and_eq_true]
      exact ⟨leafOk_of_wf x h.1, leafOkList_of_wf xs h.2⟩
  theorem leafOkMembers_of_wf (seen : List Bytes) (ms : List (Bytes × JVal)) (h : wfMembers seen ms = true) :
      leafOkMembers ms = true := by
    match ms with
    | [] => rfl
    | (k, v) :: ms =>
      simp only [wfMembers, Bool.and_eq_true] at h
      obtain ⟨⟨⟨⟨_, hk⟩, _⟩, hv⟩, hm⟩ := h
      simp only [leafOkMembers, Bool.and_eq_true]
      exact ⟨⟨hk, leafOk_of_wf v hv⟩, leafOkMembers_of_wf (k :: seen) ms hm⟩
end

mutual
  /-- a `leafOk` document the writer accepts is well-formed: the key conditions of `wf` are the writer's checks -/
  theorem wf_of_enc (v : JVal) (bs : Bytes) (he : enc v = some bs) (hl : leafOk v = true) : wf v = true := by
    match v with
    | .null => rfl
    | .bool _ => rfl
    | .int _ => simpa [wf, leafOk] using hl
    | .f64 _ => simpa [wf, leafOk] using hl
    | .str _ => simpa [wf, leafOk] using hl
    | .arr xs =>
      simp only [enc, Option.map_eq_some_iff] at he
      obtain ⟨body, hb, _⟩ := he
      simp only [leafOk] at hl
      simp only [wf]
      exact wfList_of_enc xs body hb hl
    | .obj ms =>
      simp only [enc, Option.map_eq_some_iff] at he
      obtain ⟨body, hb, _⟩ := he
      simp only [leafOk] at hl
      simp only [wf]
      exact wfMembers_of_enc [] ms body hb hl
  theorem wfList_of_enc (xs : List JVal) (b : Bytes) (he : encList xs = some b) (hl : leafOkList xs = true) :
      wfList xs = true := by
    match xs with
    | [] => rfl
    | x :: xs =>
      unfold encList at he
      split at he
      · rename_i a b' ha hb
        simp only [leafOkList, Bool.and_eq_true] at hl
        simp only [wfList, Bool.and_eq_true]
        exact ⟨wf_of_enc x a ha hl.1, wfList_of_enc xs b' hb hl.2⟩
      · simp at he
  theorem wfMembers_of_enc (seen : List Bytes) (ms : List (Bytes × JVal)) (b : Bytes)
      (he : encMembers seen ms = some b) (hl : leafOkMembers ms = true) : wfMembers seen ms = true := by
    match ms with
    | [] => rfl
    | (k, v) :: ms =>
      unfold encMembers at he
      split at he
      · simp at he
      · rename_i a ha
        split at he
        · simp at he
        · rename_i hc
          split at he
          · simp at he
          · rename_i b' hb
            simp only [leafOkMembers, Bool.and_eq_true] at hl
            obtain ⟨⟨hk, hv⟩, hm⟩ := hl
            simp only [MAX_BIN_KEY_LEN, not_or, Nat.not_lt, Bool.not_eq_true] at hc
            simp only [wfMembers, Bool.and_eq_true, decide_eq_true_eq, Bool.not_eq_true']
            exact ⟨⟨⟨⟨hc.1, hk⟩, hc.2⟩, wf_of_enc v a ha hv⟩, wfMembers_of_enc (k :: seen) ms b' hb hm⟩
end

/-- `wf` = `leafOk` and accepted by the writer -/
theorem wf_iff (v : JVal) : wf v = true ↔ leafOk v = true ∧ (enc v).isSome = true := by
  constructor
  · intro h
    obtain ⟨bs, he⟩ := enc_isSome v h
    exact ⟨leafOk_of_wf v h, by simp [he]⟩
  · intro ⟨hl, he⟩
    obtain ⟨bs, hb⟩ := Option.isSome_iff_exists.mp he
    exact wf_of_enc v bs hb hl

/-- a `leafOk` document that is not well-formed (a key does not fit, or two keys are equal ignoring case) is refused
    by `jbl_fill_from_node` / `_jbl_from_node_impl`: `JBL_ERROR_CREATION` -/
theorem fromNode_none_of_not_wf (v : JVal) (hl : leafOk v = true) (hw : wf v = false) : fromNode v = none := by
  have hen : enc v = none := by
    cases he : enc v with
    | none => rfl
    | some bs => rw [wf_of_enc v bs he hl] at hw; cases hw
  cases v with
  | arr xs => simp [fromNode, hen]
  | obj ms => simp [fromNode, hen]
  | null => simp [wf] at hw
  | bool _ => simp [wf] at hw
  | int _ => simp only [wf] at hw; simp only [leafOk] at hl; rw [hl] at hw; cases hw
  | f64 _ => simp only [wf] at hw; simp only [leafOk] at hl; rw [hl] at hw; cases hw
  | str _ => simp only [wf] at hw; simp only [leafOk] at hl; rw [hl] at hw; cases hw

/-! ## well-formed documents have distinct member names -/

theorem sameKey_refl (a : Bytes) : sameKey a a = true := by simp [sameKey]

theorem not_mem_of_not_dup (seen : List Bytes) (k : Bytes) (h : dupKey seen k = false) : k ∉ seen := by
  intro hm
  have : dupKey seen k = true := by
    simp only [dupKey, List.any_eq_true]
    exact ⟨k, hm, sameKey_refl k⟩
  rw [this] at h; cases h

theorem wfList_mem (xs : List JVal) (h : wfList xs = true) : ∀ x ∈ xs, wf x = true := by
  induction xs with
  | nil => intro x hx; cases hx
  | cons y ys ih =>
    simp only [wfList, Bool.and_eq_true] at h
    intro x hx
    rcases List.mem_cons.mp hx with rfl | hx
    · exact h.1
    · exact ih h.2 x hx

theorem wfMembers_mem (seen : List Bytes) (ms : List (Bytes × JVal)) (h : wfMembers seen ms = true) :
    ∀ p ∈ ms, wf p.2 = true := by
  induction ms generalizing seen with
  | nil => intro p hp; cases hp
  | cons q ms ih =>
    obtain ⟨k, v⟩ := q
    simp only [wfMembers, Bool.and_eq_true] at h
    intro p hp
    rcases List.mem_cons.mp hp with rfl | hp
    · exact h.1.2
    · exact ih (k :: seen) h.2 p hp

theorem wfMembers_keys (seen : List Bytes) (ms : List (Bytes × JVal)) (h : wfMembers seen ms = true) :
    (ms.map (·.1)).Nodup ∧ ∀ k ∈ ms.map (·.1), k ∉ seen := by
  induction ms generalizing seen with
  | nil => simp
  | cons q ms ih =>
    obtain ⟨k, v⟩ := q
    simp only [wfMembers, Bool.and_eq_true, Bool.not_eq_true'] at h
    obtain ⟨⟨⟨_, hd⟩, _⟩, hm⟩ := h
    obtain ⟨hn, hs⟩ := ih (k :: seen) hm
    constructor
    · simp only [List.map_cons, List.nodup_cons]
      refine ⟨fun hk => ?_, hn⟩
      exact hs k hk (by simp)
    · intro k' hk'
      simp only [List.map_cons, List.mem_cons] at hk'
      rcases hk' with rfl | hk'
      · exact not_mem_of_not_dup seen _ hd
      · intro hc; exact hs k' hk' (by simp [hc])

end IwModel.Binn

namespace IwModel.Patch
open IwModel IwModel.Binn

/-- keys unique ignoring ASCII case are in particular distinct -/
theorem ukj_of_wf : ∀ v : JVal, wf v = true → UKJ v := by
  intro v
  induction v using JVal.induct with
  | null => intro _; exact UKJ.null
  | bool b => intro _; exact UKJ.bool b
  | int i => intro _; exact UKJ.int i
  | f64 b => intro _; exact UKJ.f64 b
  | str s => intro _; exact UKJ.str s
  | arr xs ih =>
    intro h
    simp only [wf] at h
    exact UKJ.arr xs fun x hx => ih x hx (wfList_mem xs h x hx)
  | obj ms ih =>
    intro h
    simp only [wf] at h
    exact UKJ.obj ms (wfMembers_keys [] ms h).1 fun p hp => ih p hp (wfMembers_mem [] ms h p hp)

end IwModel.Patch

/-! ## RFC 6902 / RFC 7386 results of `leafOk` inputs are `leafOk` -/
namespace IwModel.Rfc
open IwModel IwModel.Binn

/-- NUL free (a C string) -/
abbrev NZ (k : Bytes) : Prop := k.all (· ≠ 0) = true

theorem lookup_mem (ms : Members) (k : Bytes) (c : JVal) (h : ms.lookup k = some c) : ∃ k', (k', c) ∈ ms := by
  induction ms with
  | nil => simp at h
  | cons q r ih =>
    obtain ⟨k', v'⟩ := q
    simp only [List.lookup] at h
    split at h
    · simp only [Option.some.injEq] at h; subst h; exact ⟨k', by simp⟩
    · obtain ⟨k'', hk⟩ := ih h; exact ⟨k'', by simp [hk]⟩

theorem leafOk_lookup (ms : Members) (k : Bytes) (c : JVal) (hl : leafOkMembers ms = true)
    (h : ms.lookup k = some c) : leafOk c = true := by
  obtain ⟨k', hk⟩ := lookup_mem ms k c h
  exact ((leafOkMembers_iff ms).mp hl _ hk).2

theorem leafOk_getElem (xs : List JVal) (i : Nat) (c : JVal) (hl : leafOkList xs = true) (h : xs[i]? = some c) :
    leafOk c = true :=
  (leafOkList_iff xs).mp hl c (List.mem_of_getElem? h)

theorem put_mem (ms : Members) (k : Bytes) (v : JVal) (p : Bytes × JVal) (h : p ∈ put ms k v) :
    p = (k, v) ∨ p ∈ ms := by
  induction ms with
  | nil => simp [put] at h; exact Or.inl h
  | cons q r ih =>
    obtain ⟨k', v'⟩ := q
    simp only [put] at h
    split at h
    · rcases List.mem_cons.mp h with h | h
      · exact Or.inl h
      · exact Or.inr (by simp [h])
    · rcases List.mem_cons.mp h with h | h
      · exact Or.inr (by simp [h])
      · rcases ih h with h | h
        · exact Or.inl h
        · exact Or.inr (by simp [h])

theorem remove_mem (ms : Members) (k : Bytes) (p : Bytes × JVal) (h : p ∈ remove ms k) : p ∈ ms := by
  induction ms with
  | nil => simp [remove] at h
  | cons q r ih =>
    obtain ⟨k', v'⟩ := q
    simp only [remove] at h
    split at h
    · simp [h]
    · rcases List.mem_cons.mp h with h | h
      · simp [h]
      · simp [ih h]

theorem leafOk_put (ms : Members) (k : Bytes) (v : JVal) (hl : leafOkMembers ms = true) (hk : NZ k)
    (hv : leafOk v = true) : leafOkMembers (put ms k v) = true := by
  rw [leafOkMembers_iff] at hl ⊢
  intro p hp
  rcases put_mem ms k v p hp with rfl | h
  · exact ⟨hk, hv⟩
  · exact hl p h

theorem leafOk_remove (ms : Members) (k : Bytes) (hl : leafOkMembers ms = true) :
    leafOkMembers (remove ms k) = true := by
  rw [leafOkMembers_iff] at hl ⊢
  intro p hp
  exact hl p (remove_mem ms k p hp)

theorem getAt_leafOk : ∀ (p : Ptr) (v c : JVal), leafOk v = true → getAt v p = some c → leafOk c = true
  | [], v, c, hv, h => by
    simp only [getAt, Option.some.injEq] at h; subst h; exact hv
  | k :: r, v, c, hv, h => by
    cases v with
    | obj ms =>
      simp only [getAt] at h
      split at h
      · rename_i c' hc'
        simp only [leafOk] at hv
        exact getAt_leafOk r c' c (leafOk_lookup ms k c' hv hc') h
      · simp at h
    | arr xs =>
      simp only [getAt] at h
      split at h
      · rename_i i hi
        split at h
        · rename_i c' hc'
          simp only [leafOk] at hv
          exact getAt_leafOk r c' c (leafOk_getElem xs i c' hv hc') h
        · simp at h
      · simp at h
    | null => simp [getAt] at h
    | bool _ => simp [getAt] at h
    | int _ => simp [getAt] at h
    | f64 _ => simp [getAt] at h
    | str _ => simp [getAt] at h

theorem updAt_leafOk (f : JVal → Option JVal) (hf : ∀ c c', leafOk c = true → f c = some c' → leafOk c' = true) :
    ∀ (p : Ptr) (v v' : JVal), (∀ s ∈ p, NZ s) → leafOk v = true → updAt v p f = some v' → leafOk v' = true
  | [], v, v', _, hv, h => by
    simp only [updAt] at h; exact hf v v' hv h
  | k :: r, v, v', hp, hv, h => by
    cases v with
    | obj ms =>
      simp only [updAt] at h
      split at h
      · rename_i c hc
        simp only [leafOk] at hv
        simp only [Option.map_eq_some_iff] at h
        obtain ⟨c', hc', rfl⟩ := h
        have := updAt_leafOk f hf r c c' (fun s hs => hp s (by simp [hs])) (leafOk_lookup ms k c hv hc) hc'
        simp only [leafOk]
        exact leafOk_put ms k c' hv (hp k (by simp)) this
      · simp at h
    | arr xs =>
      simp only [updAt] at h
      split at h
      · rename_i i hi
        split at h
        · rename_i c hc
          simp only [leafOk] at hv
          simp only [Option.map_eq_some_iff] at h
          obtain ⟨c', hc', rfl⟩ := h
          have := updAt_leafOk f hf r c c' (fun s hs => hp s (by simp [hs])) (leafOk_getElem xs i c hv hc) hc'
          simp only [leafOk]
          rw [leafOkList_iff] at hv ⊢
          intro x hx
          rcases List.mem_or_eq_of_mem_set hx with hx | rfl
          · exact hv x hx
          · exact this
        · simp at h
      · simp at h
    | null => simp [updAt] at h
    | bool _ => simp [updAt] at h
    | int _ => simp [updAt] at h
    | f64 _ => simp [updAt] at h
    | str _ => simp [updAt] at h

theorem addChild_leafOk (parent : JVal) (k : Bytes) (v r : JVal) (hp : leafOk parent = true) (hk : NZ k)
    (hv : leafOk v = true) (h : addChild parent k v = some r) : leafOk r = true := by
  cases parent with
  | obj ms =>
    simp only [addChild, Option.some.injEq] at h; subst h
    simp only [leafOk] at hp ⊢
    exact leafOk_put ms k v hp hk hv
  | arr xs =>
    simp only [leafOk] at hp
    rw [leafOkList_iff] at hp
    simp only [addChild] at h
    split at h
    · simp only [Option.some.injEq] at h; subst h
      simp only [leafOk, leafOkList_iff]
      intro x hx
      rcases List.mem_append.mp hx with hx | hx
      · exact hp x hx
      · simp only [List.mem_singleton] at hx; subst hx; exact hv
    · split at h
      · rename_i i hi
        split at h
        · rename_i hle
          simp only [Option.some.injEq] at h; subst h
          simp only [leafOk, leafOkList_iff]
          intro x hx
          rcases (List.mem_insertIdx hle).mp hx with rfl | hx
          · exact hv
          · exact hp x hx
        · simp at h
      · simp at h
  | null => simp [addChild] at h
  | bool _ => simp [addChild] at h
  | int _ => simp [addChild] at h
  | f64 _ => simp [addChild] at h
  | str _ => simp [addChild] at h

theorem removeChild_leafOk (parent : JVal) (k : Bytes) (r : JVal) (hp : leafOk parent = true)
    (h : removeChild parent k = some r) : leafOk r = true := by
  cases parent with
  | obj ms =>
    simp only [removeChild] at h
    split at h
    · simp only [Option.some.injEq] at h; subst h
      simp only [leafOk] at hp ⊢
      exact leafOk_remove ms k hp
    · simp at h
  | arr xs =>
    simp only [leafOk] at hp
    rw [leafOkList_iff] at hp
    simp only [removeChild] at h
    split at h
    · split at h
      · simp only [Option.some.injEq] at h; subst h
        simp only [leafOk, leafOkList_iff]
        intro x hx
        exact hp x (List.mem_of_mem_eraseIdx hx)
      · simp at h
    · simp at h
  | null => simp [removeChild] at h
  | bool _ => simp [removeChild] at h
  | int _ => simp [removeChild] at h
  | f64 _ => simp [removeChild] at h
  | str _ => simp [removeChild] at h

theorem mem_of_dropLast {α} {l : List α} {a : α} (h : a ∈ l.dropLast) : a ∈ l := by
  rw [List.dropLast_eq_take] at h
  exact List.mem_of_mem_take h

theorem add_leafOk (doc : JVal) (path : Ptr) (v r : JVal) (hd : leafOk doc = true) (hp : ∀ s ∈ path, NZ s)
    (hv : leafOk v = true) (h : add doc path v = some r) : leafOk r = true := by
  simp only [add] at h
  split at h
  · simp only [Option.some.injEq] at h; subst h; exact hv
  · rename_i last hlast
    have hm : last ∈ path := List.mem_of_getLast? hlast
    exact updAt_leafOk _ (fun c c' hc hcc => addChild_leafOk c last v c' hc (hp last hm) hv hcc) path.dropLast doc r
      (fun s hs => hp s (mem_of_dropLast hs)) hd h

theorem removeAt_leafOk (doc : JVal) (path : Ptr) (r : JVal) (hd : leafOk doc = true) (hp : ∀ s ∈ path, NZ s)
    (h : removeAt doc path = some r) : leafOk r = true := by
  simp only [removeAt] at h
  split at h
  · simp at h
  · rename_i last hlast
    exact updAt_leafOk _ (fun c c' hc hcc => removeChild_leafOk c last c' hc hcc) path.dropLast doc r
      (fun s hs => hp s (mem_of_dropLast hs)) hd h

end IwModel.Rfc

namespace IwModel.Patch
open IwModel IwModel.Binn

/-- what an operation brings into the document is `leafOk`: the tokens of the path (they become member names) are
    NUL free, the value is `leafOk` -/
def OpLeaf (o : Rfc.Op) : Prop :=
  (∀ s ∈ opPath o, Rfc.NZ s) ∧ (∀ s ∈ opFrom o, Rfc.NZ s) ∧
    (match o with
     | .add _ v => leafOk v = true
     | .replace _ v => leafOk v = true
     | .test _ v => leafOk v = true
     | _ => True)

theorem step_leafOk (doc : JVal) (o : Rfc.Op) (d' : JVal) (hd : leafOk doc = true) (ho : OpLeaf o)
    (h : Rfc.step doc o = some d') : leafOk d' = true := by
  obtain ⟨hp, hf, hv⟩ := ho
  cases o with
  | add p v => exact Rfc.add_leafOk doc p v d' hd hp hv h
  | remove p => exact Rfc.removeAt_leafOk doc p d' hd hp h
  | replace p v =>
    simp only [Rfc.step] at h
    split at h
    · simp at h
    · split at h
      · simp only [Option.some.injEq] at h; subst h; exact hv
      · simp only [Option.bind_eq_some_iff] at h
        obtain ⟨d1, h1, h2⟩ := h
        exact Rfc.add_leafOk d1 p v d' (Rfc.removeAt_leafOk doc p d1 hd hp h1) hp hv h2
  | move f p =>
    simp only [Rfc.step] at h
    split at h
    · simp at h
    · split at h
      · simp at h
      · rename_i v hg
        split at h
        · simp only [Option.some.injEq] at h; subst h; exact hd
        · simp only [Option.bind_eq_some_iff] at h
          obtain ⟨d1, h1, h2⟩ := h
          exact Rfc.add_leafOk d1 p v d' (Rfc.removeAt_leafOk doc f d1 hd hf h1) hp
            (Rfc.getAt_leafOk f doc v hd hg) h2
  | copy f p =>
    simp only [Rfc.step] at h
    split at h
    · simp at h
    · rename_i v hg
      exact Rfc.add_leafOk doc p v d' hd hp (Rfc.getAt_leafOk f doc v hd hg) h
  | test p v =>
    simp only [Rfc.step] at h
    split at h
    · simp at h
    · split at h
      · simp only [Option.some.injEq] at h; subst h; exact hd
      · simp at h

theorem run_leafOk (doc : JVal) (ops : List Rfc.Op) (d' : JVal) (hd : leafOk doc = true)
    (ho : ∀ o ∈ ops, OpLeaf o) (h : Rfc.run doc ops = some d') : leafOk d' = true := by
  induction ops generalizing doc with
  | nil => simp only [Rfc.run, Option.some.injEq] at h; subst h; exact hd
  | cons o r ih =>
    simp only [Rfc.run, Option.bind_eq_some_iff] at h
    obtain ⟨d1, h1, h2⟩ := h
    exact ih d1 (step_leafOk doc o d1 hd (ho o (by simp)) h1) (fun o' ho' => ho o' (by simp [ho'])) h2

end IwModel.Patch

namespace IwModel.Merge
open IwModel IwModel.Binn

theorem leafOk_objectOrEmpty (t : JVal) (h : leafOk t = true) : leafOkMembers (Rfc.objectOrEmpty t) = true := by
  cases t <;> first | rfl | (simpa [Rfc.objectOrEmpty, leafOk] using h)

/-- `MergePatch(target, patch)` of `leafOk` documents is `leafOk` -/
theorem mergePatch_leafOk (p : JVal) : ∀ t : JVal, leafOk t = true → leafOk p = true →
    leafOk (Rfc.mergePatch t p) = true := by
  induction p using JVal.induct with
  | null => intro t _ hp; rw [rfc_nonobj _ _ (by simp)]; exact hp
  | bool b => intro t _ hp; rw [rfc_nonobj _ _ (by simp)]; exact hp
  | int i => intro t _ hp; rw [rfc_nonobj _ _ (by simp)]; exact hp
  | f64 b => intro t _ hp; rw [rfc_nonobj _ _ (by simp)]; exact hp
  | str s => intro t _ hp; rw [rfc_nonobj _ _ (by simp)]; exact hp
  | arr xs _ => intro t _ hp; rw [rfc_nonobj _ _ (by simp)]; exact hp
  | obj pms ih =>
    intro t ht hp
    rw [rfc_obj]
    simp only [leafOk] at hp ⊢
    have hpm := (leafOkMembers_iff pms).mp hp
    have key : ∀ (l : List (Bytes × JVal)) (acc : Rfc.Members), (∀ q ∈ l, q ∈ pms) → leafOkMembers acc = true →
        leafOkMembers (l.foldl rstep acc) = true := by
      intro l
      induction l with
      | nil => intro acc _ ha; exact ha
      | cons q r ihr =>
        intro acc hsub ha
        simp only [List.foldl_cons]
        apply ihr _ (fun q' hq' => hsub q' (by simp [hq']))
        have hq := hsub q (by simp)
        unfold rstep
        split
        · exact Rfc.leafOk_remove acc q.1 ha
        · apply Rfc.leafOk_put acc q.1 _ ha (hpm q hq).1
          apply ih q hq _ _ (hpm q hq).2
          unfold Rfc.get
          cases hl : acc.lookup q.1 with
          | none => rfl
          | some c => exact Rfc.leafOk_lookup acc q.1 c ha hl
    exact key pms _ (fun q hq => hq) (leafOk_objectOrEmpty t ht)

end IwModel.Merge

/-! ## The byte-level calls are the abstract calls wrapped in decode / encode -/
namespace IwModel.BinnPatch
open IwModel IwModel.Binn IwModel.Patch

/-- `h` holds the well-formed document `v`: its bytes decode to `v` (`_jbl_node_from_binn`), and `v` satisfies the
    decidable predicate `Binn.wf` of the C14 round-trip theorems -/
def Holds (h : BVal) (v : JVal) : Prop := decodeHolder h = some v ∧ wf v = true

/-- the holder the writer produces for a well-formed document decodes to it (`C14.binn_roundtrip`) -/
theorem holds_view (v : JVal) (hw : wf v = true) (hs : small v) : Holds (viewOf v) v := by
  refine ⟨?_, hw⟩
  obtain ⟨bs, he⟩ := enc_isSome v hw
  unfold decodeHolder
  apply toNode_view v _ bs hw he (hs bs he)
  have hd := depth_le v bs he
  cases v with
  | arr xs => simp only [viewOf, he, Option.getD_some, fuelOf]; omega
  | obj ms => simp only [viewOf, he, Option.getD_some, fuelOf]; omega
  | _ => simp [Binn.depth, viewOf, fuelOf]

/-- `jbl_from_buf_keep` over the bytes the writer produced for a document: the holder of exactly these bytes -/
theorem ofBuf_enc (v : JVal) (bs : Bytes) (hc : isContainer v = true) (he : enc v = some bs)
    (hs : bs.length + 9 < 2 ^ 31) : ofBuf bs = some (.cont bs) := by
  cases v with
  | arr xs =>
    simp only [enc, Option.map_eq_some_iff] at he
    obtain ⟨body, hb, rfl⟩ := he
    have hl2 := encList_length xs body hb
    have hcl := container_length Gen.Binn.BINN_LIST xs.length body
    have hp := parseHeader_container Gen.Binn.BINN_LIST xs.length body [] (Or.inl rfl) (by omega) (by omega)
    simp only [List.append_nil] at hp
    simp [ofBuf, hp]
  | obj ms =>
    simp only [enc, Option.map_eq_some_iff] at he
    obtain ⟨body, hb, rfl⟩ := he
    have hl2 := encMembers_length [] ms body hb
    have hcl := container_length Gen.Binn.BINN_OBJECT ms.length body
    have hp := parseHeader_container Gen.Binn.BINN_OBJECT ms.length body [] (Or.inr rfl) (by omega) (by omega)
    simp only [List.append_nil] at hp
    simp [ofBuf, hp]
  | _ => simp [isContainer] at hc

theorem swapIn_wf (h : BVal) (d : JVal) (hw : wf d = true) : swapIn h d = (viewOf d, .ok) := by
  simp [swapIn, fromNode_eq_viewOf d hw]

theorem swapIn_not_wf (h : BVal) (d : JVal) (hl : leafOk d = true) (hw : wf d = false) :
    swapIn h d = (h, .creation) := by
  simp [swapIn, fromNode_none_of_not_wf d hl hw]

theorem swapIn_err (h : BVal) (d : JVal) (he : (swapIn h d).2 ≠ .ok) : (swapIn h d).1 = h := by
  unfold swapIn at he ⊢
  split
  · rename_i h' hh; simp [hh] at he
  · rfl

/-- what the byte-level call returns, given what the abstract call (`Patch.patchBinary`, documents as values) returns -/
def wrapRes (h : BVal) (r : Option JVal × Err) : BVal × Err :=
  match r with
  | (some d, .ok) => swapIn h d
  | (none, .ok) => (.null, .ok)
  | (_, e) => (h, e)

theorem applyHolder_eq (h : BVal) (v : JVal) (ops : List RawOp) (hd : decodeHolder h = some v)
    (hne : ops.isEmpty = false) : applyHolder h ops = wrapRes h (applyBinary v ops) := by
  simp only [applyHolder, applyBinary, hne, Bool.false_eq_true, ↓reduceIte, hd]
  generalize patchNode (ofJ v) ops = r
  obtain ⟨t, e⟩ := r
  by_cases hok : e = .ok
  · subst hok
    cases t <;> simp [finishBinary, wrapRes, erase]
  · cases e <;> first | exact absurd rfl hok | (cases t <;> simp [finishBinary, wrapRes])

/-- **composition**: on a holder that decodes to `v`, `jbl_patch` returns what the abstract model returns on `v`,
    wrapped in the encoder (`wrapRes`); the only exception is the call that does nothing (no operations), which does not
    even decode. -/
theorem jblPatch_eq (h : BVal) (v : JVal) (patch : Node) (hd : decodeHolder h = some v) :
    jblPatch h patch = wrapRes h (patchBinary v patch) ∨
    (jblPatch h patch = (h, .ok) ∧ patchBinary v patch = (some v, .ok)) := by
  unfold jblPatch patchBinary
  cases hdec : decode patch with
  | error e =>
    by_cases hok : e = .ok
    · subst hok; right; exact ⟨rfl, rfl⟩
    · left
      cases e <;> first | exact absurd rfl hok | rfl
  | ok ops =>
    by_cases hne : ops.isEmpty = true
    · right
      simp [applyHolder, applyBinary, hne]
    · left
      simp only [Bool.not_eq_true] at hne
      exact applyHolder_eq h v ops hd hne

theorem applyHolder_atomic (h : BVal) (ops : List RawOp) (he : (applyHolder h ops).2 ≠ .ok) :
    (applyHolder h ops).1 = h := by
  unfold applyHolder at he ⊢
  by_cases hemp : ops.isEmpty = true
  · simp [hemp]
  · simp only [hemp, Bool.false_eq_true, ↓reduceIte] at he ⊢
    cases hd : decodeHolder h with
    | none => rfl
    | some doc =>
      simp only [hd] at he ⊢
      generalize patchNode (ofJ doc) ops = r at he ⊢
      obtain ⟨t, e⟩ := r
      by_cases hok : e = .ok
      · subst hok
        cases t with
        | none => simp at he
        | _ => exact swapIn_err h _ he
      · cases e <;> first | exact absurd rfl hok | (cases t <;> rfl)

theorem jblPatch_atomic (h : BVal) (patch : Node) (he : (jblPatch h patch).2 ≠ .ok) : (jblPatch h patch).1 = h := by
  unfold jblPatch at he ⊢
  cases hd : decode patch with
  | error e => rfl
  | ok ops =>
    simp only [hd] at he ⊢
    exact applyHolder_atomic h ops he

theorem jblPatchFromJson_atomic (h : BVal) (patch : Node) (he : (jblPatchFromJson h patch).2 ≠ .ok) :
    (jblPatchFromJson h patch).1 = h := by
  cases patch <;> first | rfl | exact jblPatch_atomic h _ he

theorem mergeHolder_atomic (h : BVal) (patch : JVal) (he : (mergeHolder h patch).2 ≠ .ok) :
    (mergeHolder h patch).1 = h := by
  unfold mergeHolder at he ⊢
  cases hd : decodeHolder h with
  | none => rfl
  | some doc =>
    simp only [hd] at he ⊢
    exact swapIn_err h _ he

theorem mergeHolderJbl_atomic (h ph : BVal) (he : (mergeHolderJbl h ph).2 ≠ .ok) : (mergeHolderJbl h ph).1 = h := by
  unfold mergeHolderJbl at he ⊢
  cases hd : decodeHolder ph with
  | none => rfl
  | some p =>
    simp only [hd] at he ⊢
    exact mergeHolder_atomic h p he

/-- `jbl_merge_patch` on a holder that decodes to `v`: RFC 7386 on `v`, then the encoder -/
theorem mergeHolder_eq (h : BVal) (v patch : JVal) (hd : decodeHolder h = some v) :
    mergeHolder h patch = swapIn h (Rfc.mergePatch v patch) := by
  simp only [mergeHolder, hd, Merge.mergeFromJson]
  rw [Merge.mergeNode_eq_rfc patch (some v)]
  rfl

theorem small_of_enc (v : JVal) (bs : Bytes) (he : enc v = some bs) (hl : bs.length + 9 < 2 ^ 31) : small v := by
  intro bs' h
  rw [he] at h
  simp only [Option.some.injEq] at h
  subst h
  exact hl

/-- success of the abstract call with a `leafOk` result: the byte-level call succeeds and holds that result when the
    binary form can hold it, and refuses (`JBL_ERROR_CREATION`, bytes unchanged) when it cannot -/
theorem jblPatch_ok (h : BVal) (v : JVal) (patch : Node) (d' : JVal) (hh : Holds h v)
    (hr : patchBinary v patch = (some d', .ok)) (hl : leafOk d' = true) :
    (wf d' = true → small d' → ∃ h', jblPatch h patch = (h', .ok) ∧ Holds h' d') ∧
    (wf d' = false → jblPatch h patch = (h, .creation)) := by
  rcases jblPatch_eq h v patch hh.1 with he | ⟨he, hv⟩
  · rw [hr] at he
    simp only [wrapRes] at he
    constructor
    · intro hw hs
      exact ⟨viewOf d', by rw [he, swapIn_wf h d' hw], holds_view d' hw hs⟩
    · intro hw
      rw [he, swapIn_not_wf h d' hl hw]
  · rw [hr] at hv
    simp only [Prod.mk.injEq, Option.some.injEq, and_true] at hv
    subst hv
    constructor
    · intro _ _; exact ⟨h, he, hh⟩
    · intro hw; rw [hh.2] at hw; cases hw

/-- an error of the abstract call is the error of the byte-level call, and the holder is untouched -/
theorem jblPatch_err (h : BVal) (v : JVal) (patch : Node) (hd : decodeHolder h = some v)
    (he : (patchBinary v patch).2 ≠ .ok) : jblPatch h patch = (h, (patchBinary v patch).2) := by
  rcases jblPatch_eq h v patch hd with h1 | ⟨_, hv⟩
  · rw [h1]
    generalize patchBinary v patch = r at he ⊢
    obtain ⟨d, e⟩ := r
    cases e <;> first | exact absurd rfl he | (cases d <;> rfl)
  · rw [hv] at he; exact absurd rfl he

/-! ## sequences of RFC 6902 patch documents applied to one holder -/

/-- the specification of a sequence of calls: each program is applied as RFC 6902 says; a program the RFC rejects, or
    whose result the binary form cannot hold (`wf`), leaves the document as it is -/
def rfcSeq : JVal → List (List Rfc.Op) → JVal
  | v, [] => v
  | v, p :: r =>
    match Rfc.run v p with
    | some d' => rfcSeq (if wf d' then d' else v) r
    | none => rfcSeq v r

/-- which calls of the sequence report success -/
def rfcSeqAcc : JVal → List (List Rfc.Op) → List Bool
  | _, [] => []
  | v, p :: r =>
    match Rfc.run v p with
    | some d' => wf d' :: rfcSeqAcc (if wf d' then d' else v) r
    | none => false :: rfcSeqAcc v r

/-- hypotheses on one program (those of `C15.jbl_patch_rfc_partial` plus `OpLeaf`) -/
structure ProgOk (ops : List Rfc.Op) : Prop where
  nonempty : ops ≠ []
  ok : ∀ o ∈ ops, OpOk o ∧ opValueUK o
  ptr : ∀ o ∈ ops, PtrOk (opPath o) ∧ PtrOk (opFrom o)
  leaf : ∀ o ∈ ops, OpLeaf o
  strict : ∀ o ∈ ops, OpStrict o

/-- hypotheses along a sequence: every program is `ProgOk`; every RFC result is a document (object / array) whose
    encoding fits the 31-bit size fields -/
def SeqOk : JVal → List (List Rfc.Op) → Prop
  | _, [] => True
  | v, p :: r =>
    ProgOk p ∧
      (match Rfc.run v p with
       | some d' => isContainer d' = true ∧ small d' ∧ SeqOk (if wf d' then d' else v) r
       | none => SeqOk v r)

/-- the same for RFC 7386: every patch applies; a result the binary form cannot hold leaves the document as it is -/
def mergeSpecSeq : JVal → List JVal → JVal
  | v, [] => v
  | v, p :: r => mergeSpecSeq (if wf (Rfc.mergePatch v p) then Rfc.mergePatch v p else v) r

def mergeSeqAcc : JVal → List JVal → List Bool
  | _, [] => []
  | v, p :: r =>
    wf (Rfc.mergePatch v p) :: mergeSeqAcc (if wf (Rfc.mergePatch v p) then Rfc.mergePatch v p else v) r

def MergeSeqOk : JVal → List JVal → Prop
  | _, [] => True
  | v, p :: r =>
    leafOk p = true ∧ small (Rfc.mergePatch v p) ∧
      MergeSeqOk (if wf (Rfc.mergePatch v p) then Rfc.mergePatch v p else v) r

end IwModel.BinnPatch
