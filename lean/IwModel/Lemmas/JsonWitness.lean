import IwModel.Lemmas.JsonPrintCst
import IwModel.Lemmas.JsonText
/-! The assumptions made about the opaque double conversions are satisfiable: a trivial scanner meets `SdSpec`. -/
namespace IwModel.Json
open IwModel

/-- a stand-in scanner showing that `SdSpec` is satisfiable: consume the longest run of number characters -/
def numChar (c : Nat) : Bool := isDigit c || c = 45 || c = 43 || c = 46 || c = 101 || c = 69

def scanSd : SD := fun p => (0, (p.takeWhile numChar).length, false)

theorem numChar_all_isDigit (ds : Bytes) (h : ds.all isDigit = true) : ∀ c ∈ ds, numChar c = true := by
  intro c hc
  have := (List.all_eq_true.mp h) c hc
  simp [numChar, this]

theorem scanSd_spec : SdSpec scanSd (fun _ => 0) := by
  intro t rest hv hd
  have hall : ∀ c ∈ t.text, numChar c = true := by
    intro c hc
    simp only [NumTok.text, List.mem_append] at hc
    rcases hc with (hc | hc) | hc
    · cases hn : t.neg <;> simp [signText, hn] at hc
      subst hc; rfl
    · have := digits_all t.ip c hc
      simp only [numChar, isDigit, Bool.or_eq_true, Bool.and_eq_true, decide_eq_true_eq]; omega
    · unfold NumTok.valid at hv
      simp only [Bool.and_eq_true] at hv
      obtain ⟨⟨hf, he⟩, -⟩ := hv
      simp only [NumTok.tail, List.mem_append] at hc
      rcases hc with hc | hc
      · cases hfr : t.frac with
        | none => simp [hfr] at hc
        | some ds =>
          simp only [hfr, Bool.and_eq_true] at hf
          simp only [hfr, List.mem_cons] at hc
          rcases hc with rfl | hc
          · rfl
          · exact numChar_all_isDigit ds hf.2 c hc
      · cases hex : t.exp with
        | none => simp [hex] at hc
        | some x =>
          obtain ⟨e, s, ds⟩ := x
          simp only [hex, Bool.and_eq_true, Bool.or_eq_true, decide_eq_true_eq] at he
          simp only [hex, List.mem_cons, List.mem_append] at hc
          rcases hc with rfl | hc | hc
          · rcases he.1.1.1 with rfl | rfl <;> rfl
          · rcases he.1.1.2 with (rfl | rfl) | rfl <;> simp at hc <;> subst hc <;> rfl
          · exact numChar_all_isDigit ds he.2 c hc
  have hstop : ∀ c r, rest = c :: r → numChar c = false := by
    intro c r hr; subst hr
    simp only [delim, isWsByte, Bool.or_eq_true, decide_eq_true_eq] at hd
    simp only [numChar, isDigit, Bool.or_eq_false_iff, Bool.and_eq_false_iff, decide_eq_false_iff_not]
    omega
  simp only [scanSd, takeWhile_stop numChar t.text rest hall hstop]


end IwModel.Json
