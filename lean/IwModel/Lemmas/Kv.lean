import IwModel.Model.KvApi
/-! Helper lemmas for the KV models (`Model/Kv.lean`): order facts, the characterisation of the
spec operations on a list split around the key, routing, and the one-step refinement of the node
layer. Property theorems live in `Props/C01.lean` and `Props/C02.lean`. -/
namespace IwModel.Kv

/-- the comparator is a strict total order (`gt a b`: `a` is the greater key) -/
structure StrictTotal {K : Type} (gt : K → K → Bool) : Prop where
  irrefl : ∀ a, gt a a = false
  trans : ∀ a b c, gt a b = true → gt b c = true → gt a c = true
  tri : ∀ a b, gt a b = false → gt b a = false → a = b

section
variable {K V : Type} {gt : K → K → Bool}

/-- strictly descending keys (iwkv keeps the greatest key first) -/
def Desc (gt : K → K → Bool) (l : List (K × V)) : Prop := l.Pairwise (fun a b => gt a.1 b.1 = true)

/-- every node holds between 1 and `cap` records -/
def NodesOk (ns : List (Node K V)) : Prop := ∀ n ∈ ns, n.recs ≠ [] ∧ n.recs.length ≤ cap

/-- node invariant: non-empty bounded nodes, records strictly descending along the chain -/
def NodeInv (gt : K → K → Bool) (ns : List (Node K V)) : Prop := NodesOk ns ∧ Desc gt (flatten ns)

/-- every key of `l` is greater than `k` -/
def AllGt (gt : K → K → Bool) (k : K) (l : List (K × V)) : Prop := ∀ x ∈ l, gt x.1 k = true
/-- every key of `l` is below `k` -/
def AllLt (gt : K → K → Bool) (k : K) (l : List (K × V)) : Prop := ∀ x ∈ l, gt k x.1 = true

/-! ### order facts -/

theorem StrictTotal.asymm (st : StrictTotal gt) {a b : K} (h : gt a b = true) : gt b a = false := by
  cases hb : gt b a with
  | false => rfl
  | true => have := st.trans a b a h hb; rw [st.irrefl] at this; cases this

theorem StrictTotal.gt_of_gt_of_not_lt (st : StrictTotal gt) {x a k : K}
    (h1 : gt x a = true) (h2 : gt k a = false) : gt x k = true := by
  cases hx : gt x k with
  | true => rfl
  | false =>
    cases hk : gt k x with
    | true => rw [st.trans k x a hk h1] at h2; cases h2
    | false => have := st.tri x k hx hk; subst this; rw [h1] at h2; cases h2

theorem StrictTotal.ne_of_gt (st : StrictTotal gt) {a b : K} (h : gt a b = true) : a ≠ b := by
  intro e; subst e; rw [st.irrefl] at h; cases h

@[simp] theorem allGt_nil {k : K} : AllGt gt k ([] : List (K × V)) := by intro x hx; cases hx
@[simp] theorem allLt_nil {k : K} : AllLt gt k ([] : List (K × V)) := by intro x hx; cases hx

theorem allGt_append {k : K} {l1 l2 : List (K × V)} :
    AllGt gt k (l1 ++ l2) ↔ AllGt gt k l1 ∧ AllGt gt k l2 := by
  simp only [AllGt, List.mem_append]
  exact ⟨fun h => ⟨fun x hx => h x (Or.inl hx), fun x hx => h x (Or.inr hx)⟩,
    fun h x hx => hx.elim (h.1 x) (h.2 x)⟩

theorem allLt_append {k : K} {l1 l2 : List (K × V)} :
    AllLt gt k (l1 ++ l2) ↔ AllLt gt k l1 ∧ AllLt gt k l2 := by
  simp only [AllLt, List.mem_append]
  exact ⟨fun h => ⟨fun x hx => h x (Or.inl hx), fun x hx => h x (Or.inr hx)⟩,
    fun h x hx => hx.elim (h.1 x) (h.2 x)⟩

theorem allGt_cons {k : K} {x : K × V} {l : List (K × V)} :
    AllGt gt k (x :: l) ↔ gt x.1 k = true ∧ AllGt gt k l := by
  simp only [AllGt, List.mem_cons]
  exact ⟨fun h => ⟨h x (Or.inl rfl), fun y hy => h y (Or.inr hy)⟩,
    fun h y hy => hy.elim (fun e => e ▸ h.1) (h.2 y)⟩

theorem allLt_cons {k : K} {x : K × V} {l : List (K × V)} :
    AllLt gt k (x :: l) ↔ gt k x.1 = true ∧ AllLt gt k l := by
  simp only [AllLt, List.mem_cons]
  exact ⟨fun h => ⟨h x (Or.inl rfl), fun y hy => h y (Or.inr hy)⟩,
    fun h y hy => hy.elim (fun e => e ▸ h.1) (h.2 y)⟩

theorem desc_cons {x : K × V} {l : List (K × V)} :
    Desc gt (x :: l) ↔ AllLt gt x.1 l ∧ Desc gt l := by
  simp only [Desc, List.pairwise_cons, AllLt]

theorem desc_append {l1 l2 : List (K × V)} :
    Desc gt (l1 ++ l2) ↔ Desc gt l1 ∧ Desc gt l2 ∧ ∀ a ∈ l1, ∀ b ∈ l2, gt a.1 b.1 = true := by
  simp only [Desc, List.pairwise_append]

/-- around a member of a descending list: everything before is greater, everything after is below -/
theorem desc_mid {l1 l2 : List (K × V)} {k : K} {v : V} (h : Desc gt (l1 ++ (k, v) :: l2)) :
    AllGt gt k l1 ∧ AllLt gt k l2 := by
  rw [desc_append, desc_cons] at h
  exact ⟨fun x hx => h.2.2 x hx (k, v) (List.mem_cons_self ..), h.2.1.1⟩

/-- a key strictly between … is what a descending list with an inserted/replaced record needs -/
theorem desc_insert {l1 l2 : List (K × V)} {k : K} (v : V)
    (h : Desc gt (l1 ++ l2)) (h1 : AllGt gt k l1) (h2 : AllLt gt k l2) : Desc gt (l1 ++ (k, v) :: l2) := by
  rw [desc_append] at h
  rw [desc_append, desc_cons]
  refine ⟨h.1, ⟨h2, h.2.1⟩, ?_⟩
  intro a ha b hb
  rcases List.mem_cons.1 hb with rfl | hb
  · exact h1 a ha
  · exact h.2.2 a ha b hb

/-! ### `findPos` -/

theorem findPos_append_of_allGt {k : K} {l1 : List (K × V)} (l2 : List (K × V)) (h : AllGt gt k l1) :
    findPos gt k (l1 ++ l2) = l1.length + findPos gt k l2 := by
  induction l1 with
  | nil => simp
  | cons x tl ih =>
    obtain ⟨a, av⟩ := x
    rw [allGt_cons] at h
    simp only [List.cons_append, findPos, h.1, if_true, ih h.2, List.length_cons]
    omega

theorem findPos_zero_of_head {k : K} {l : List (K × V)} (h : ∀ x ∈ l.head?, gt x.1 k = false) :
    findPos gt k l = 0 := by
  cases l with
  | nil => rfl
  | cons x tl =>
    obtain ⟨a, av⟩ := x
    have := h (a, av) (by simp)
    simp only [findPos] at this ⊢
    simp [this]

/-- uniqueness of the insertion position -/
theorem findPos_eq_of {k : K} {l1 l2 : List (K × V)} (h1 : AllGt gt k l1)
    (h2 : ∀ x ∈ l2.head?, gt x.1 k = false) : findPos gt k (l1 ++ l2) = l1.length := by
  rw [findPos_append_of_allGt l2 h1, findPos_zero_of_head h2]; rfl

theorem head_not_gt_of_allLt (st : StrictTotal gt) {k : K} {l : List (K × V)} (h : AllLt gt k l) :
    ∀ x ∈ l.head?, gt x.1 k = false := by
  intro x hx
  exact st.asymm (h x (List.mem_of_mem_head? hx))

/-! ### the spec operations on a list split around the key -/

/-- `specGet` looks at the list from the insertion position on -/
def getHd (gt : K → K → Bool) (k : K) : List (K × V) → Option V
  | (a, v) :: _ => if gt k a then none else some v
  | [] => none

def putHd (gt : K → K → Bool) (k : K) (v : V) (l1 : List (K × V)) : List (K × V) → List (K × V)
  | (a, av) :: rest => if gt k a then l1 ++ (k, v) :: (a, av) :: rest else l1 ++ (k, v) :: rest
  | [] => l1 ++ [(k, v)]

def delHd (gt : K → K → Bool) (k : K) (l1 : List (K × V)) : List (K × V) → List (K × V)
  | (a, av) :: rest => if gt k a then l1 ++ (a, av) :: rest else l1 ++ rest
  | [] => l1

theorem specGet_append {k : K} {l1 l2 : List (K × V)} (h1 : AllGt gt k l1)
    (h2 : ∀ x ∈ l2.head?, gt x.1 k = false) : specGet gt (l1 ++ l2) k = getHd gt k l2 := by
  unfold specGet
  rw [findPos_eq_of h1 h2, List.drop_left]
  cases l2 with
  | nil => rfl
  | cons x tl => rfl

theorem specPut_append {k : K} {l1 l2 : List (K × V)} (v : V) (h1 : AllGt gt k l1)
    (h2 : ∀ x ∈ l2.head?, gt x.1 k = false) : specPut gt (l1 ++ l2) k v = putHd gt k v l1 l2 := by
  unfold specPut
  simp only [findPos_eq_of h1 h2, List.drop_left, List.take_left]
  cases l2 with
  | nil => rfl
  | cons x tl => rfl

theorem specDel_append {k : K} {l1 l2 : List (K × V)} (h1 : AllGt gt k l1)
    (h2 : ∀ x ∈ l2.head?, gt x.1 k = false) : specDel gt (l1 ++ l2) k = delHd gt k l1 l2 := by
  unfold specDel
  simp only [findPos_eq_of h1 h2, List.drop_left, List.take_left]
  cases l2 with
  | nil => simp [delHd]
  | cons x tl => rfl

/-- key absent: `l1` above, `l2` below -/
theorem specGet_absent (st : StrictTotal gt) {k : K} {l1 l2 : List (K × V)}
    (h1 : AllGt gt k l1) (h2 : AllLt gt k l2) : specGet gt (l1 ++ l2) k = none := by
  rw [specGet_append h1 (head_not_gt_of_allLt st h2)]
  cases l2 with
  | nil => rfl
  | cons x tl => simp [getHd, h2 x (List.mem_cons_self ..)]

theorem specPut_absent (st : StrictTotal gt) {k : K} {l1 l2 : List (K × V)} (v : V)
    (h1 : AllGt gt k l1) (h2 : AllLt gt k l2) : specPut gt (l1 ++ l2) k v = l1 ++ (k, v) :: l2 := by
  rw [specPut_append v h1 (head_not_gt_of_allLt st h2)]
  cases l2 with
  | nil => rfl
  | cons x tl => simp [putHd, h2 x (List.mem_cons_self ..)]

theorem specDel_absent (st : StrictTotal gt) {k : K} {l1 l2 : List (K × V)}
    (h1 : AllGt gt k l1) (h2 : AllLt gt k l2) : specDel gt (l1 ++ l2) k = l1 ++ l2 := by
  rw [specDel_append h1 (head_not_gt_of_allLt st h2)]
  cases l2 with
  | nil => simp [delHd]
  | cons x tl => simp [delHd, h2 x (List.mem_cons_self ..)]

theorem head_eq_not_gt (st : StrictTotal gt) (k : K) (av : V) (l2 : List (K × V)) :
    ∀ x ∈ ((k, av) :: l2).head?, gt x.1 k = false := by
  intro x hx; simp at hx; subst hx; exact st.irrefl k

/-- key present -/
theorem specGet_present (st : StrictTotal gt) {k : K} {l1 : List (K × V)} (av : V) (l2 : List (K × V))
    (h1 : AllGt gt k l1) : specGet gt (l1 ++ (k, av) :: l2) k = some av := by
  rw [specGet_append h1 (head_eq_not_gt st k av l2)]; simp [getHd, st.irrefl k]

theorem specPut_present (st : StrictTotal gt) {k : K} {l1 : List (K × V)} (v av : V) (l2 : List (K × V))
    (h1 : AllGt gt k l1) : specPut gt (l1 ++ (k, av) :: l2) k v = l1 ++ (k, v) :: l2 := by
  rw [specPut_append v h1 (head_eq_not_gt st k av l2)]; simp [putHd, st.irrefl k]

theorem specDel_present (st : StrictTotal gt) {k : K} {l1 : List (K × V)} (av : V) (l2 : List (K × V))
    (h1 : AllGt gt k l1) : specDel gt (l1 ++ (k, av) :: l2) k = l1 ++ l2 := by
  rw [specDel_append h1 (head_eq_not_gt st k av l2)]; simp [delHd, st.irrefl k]

/-- shape of a descending list around a key -/
theorem findPos_split (st : StrictTotal gt) (k : K) {l : List (K × V)} (hd : Desc gt l) :
    AllGt gt k (l.take (findPos gt k l)) ∧
    (AllLt gt k (l.drop (findPos gt k l)) ∨
      ∃ av rest, l.drop (findPos gt k l) = (k, av) :: rest ∧ AllLt gt k rest) := by
  induction l with
  | nil => simp [findPos]
  | cons x tl ih =>
    obtain ⟨a, av⟩ := x
    rw [desc_cons] at hd
    cases hak : gt a k with
    | true =>
      have ih := ih hd.2
      have e : findPos gt k ((a, av) :: tl) = findPos gt k tl + 1 := by simp [findPos, hak]
      rw [e, List.take_succ_cons, List.drop_succ_cons, allGt_cons]
      exact ⟨⟨hak, ih.1⟩, ih.2⟩
    | false =>
      have e : findPos gt k ((a, av) :: tl) = 0 := by simp [findPos, hak]
      rw [e, List.take_zero, List.drop_zero]
      refine ⟨by simp, ?_⟩
      cases hka : gt k a with
      | true =>
        left
        rw [allLt_cons]
        exact ⟨hka, fun y hy => st.trans _ _ _ hka (hd.1 y hy)⟩
      | false =>
        right
        have := st.tri a k hak hka
        subst this
        exact ⟨av, tl, rfl, hd.1⟩

/-- a descending list splits around any key -/
theorem desc_split (st : StrictTotal gt) (k : K) {m : List (K × V)} (hd : Desc gt m) :
    ∃ l1 l2, m = l1 ++ l2 ∧ AllGt gt k l1 ∧
      (AllLt gt k l2 ∨ ∃ av rest, l2 = (k, av) :: rest ∧ AllLt gt k rest) :=
  ⟨_, _, (List.take_append_drop (findPos gt k m) m).symm, (findPos_split st k hd).1, (findPos_split st k hd).2⟩

/-! ### the spec is an ordered map -/

theorem desc_specPut (st : StrictTotal gt) {m : List (K × V)} (hd : Desc gt m) (k : K) (v : V) :
    Desc gt (specPut gt m k v) := by
  obtain ⟨l1, l2, rfl, h1, h2 | ⟨av, rest, rfl, h2⟩⟩ := desc_split st k hd
  · rw [specPut_absent st v h1 h2]; exact desc_insert v hd h1 h2
  · rw [specPut_present st v av rest h1]
    rw [desc_append, desc_cons] at hd ⊢
    refine ⟨hd.1, hd.2.1, ?_⟩
    intro a ha b hb
    rcases List.mem_cons.1 hb with rfl | hb
    · exact hd.2.2 a ha (k, av) (List.mem_cons_self ..)
    · exact hd.2.2 a ha b (List.mem_cons_of_mem _ hb)

theorem desc_specDel (st : StrictTotal gt) {m : List (K × V)} (hd : Desc gt m) (k : K) :
    Desc gt (specDel gt m k) := by
  obtain ⟨l1, l2, rfl, h1, h2 | ⟨av, rest, rfl, h2⟩⟩ := desc_split st k hd
  · rw [specDel_absent st h1 h2]; exact hd
  · rw [specDel_present st av rest h1]
    rw [desc_append, desc_cons] at hd
    rw [desc_append]
    exact ⟨hd.1, hd.2.1.2, fun a ha b hb => hd.2.2 a ha b (List.mem_cons_of_mem _ hb)⟩

/-- lookup in a descending list is membership -/
theorem specGet_eq_some_iff (st : StrictTotal gt) {m : List (K × V)} (hd : Desc gt m) (k : K) (v : V) :
    specGet gt m k = some v ↔ (k, v) ∈ m := by
  obtain ⟨l1, l2, rfl, h1, h2 | ⟨av, rest, rfl, h2⟩⟩ := desc_split st k hd
  · rw [specGet_absent st h1 h2]
    refine ⟨fun h => (by cases h), fun h => ?_⟩
    rcases List.mem_append.1 h with h | h
    · exact absurd rfl (st.ne_of_gt (h1 _ h))
    · exact absurd rfl (st.ne_of_gt (h2 _ h))
  · rw [specGet_present st av rest h1]
    constructor
    · intro h; cases h; simp
    · intro h
      rcases List.mem_append.1 h with h | h
      · exact absurd rfl (st.ne_of_gt (h1 _ h))
      · rcases List.mem_cons.1 h with h | h
        · cases h; rfl
        · exact absurd rfl (st.ne_of_gt (h2 _ h))

theorem mem_specPut (st : StrictTotal gt) {m : List (K × V)} (hd : Desc gt m) (k : K) (v : V) (x : K × V) :
    x ∈ specPut gt m k v ↔ x = (k, v) ∨ (x ∈ m ∧ x.1 ≠ k) := by
  obtain ⟨l1, l2, rfl, h1, h2 | ⟨av, rest, rfl, h2⟩⟩ := desc_split st k hd
  · rw [specPut_absent st v h1 h2]
    have e1 : ∀ y ∈ l1, y.1 ≠ k := fun y hy => st.ne_of_gt (h1 y hy)
    have e2 : ∀ y ∈ l2, y.1 ≠ k := fun y hy e => st.ne_of_gt (h2 y hy) e.symm
    simp only [List.mem_append, List.mem_cons]
    constructor
    · rintro (h | h | h)
      · exact Or.inr ⟨Or.inl h, e1 x h⟩
      · exact Or.inl h
      · exact Or.inr ⟨Or.inr h, e2 x h⟩
    · rintro (h | ⟨h | h, _⟩)
      · exact Or.inr (Or.inl h)
      · exact Or.inl h
      · exact Or.inr (Or.inr h)
  · rw [specPut_present st v av rest h1]
    have e1 : ∀ y ∈ l1, y.1 ≠ k := fun y hy => st.ne_of_gt (h1 y hy)
    have e2 : ∀ y ∈ rest, y.1 ≠ k := fun y hy e => st.ne_of_gt (h2 y hy) e.symm
    simp only [List.mem_append, List.mem_cons]
    constructor
    · rintro (h | h | h)
      · exact Or.inr ⟨Or.inl h, e1 x h⟩
      · exact Or.inl h
      · exact Or.inr ⟨Or.inr (Or.inr h), e2 x h⟩
    · rintro (h | ⟨h | h | h, hne⟩)
      · exact Or.inr (Or.inl h)
      · exact Or.inl h
      · subst h; exact absurd rfl hne
      · exact Or.inr (Or.inr h)

theorem mem_specDel (st : StrictTotal gt) {m : List (K × V)} (hd : Desc gt m) (k : K) (x : K × V) :
    x ∈ specDel gt m k ↔ x ∈ m ∧ x.1 ≠ k := by
  obtain ⟨l1, l2, rfl, h1, h2 | ⟨av, rest, rfl, h2⟩⟩ := desc_split st k hd
  · rw [specDel_absent st h1 h2]
    have e1 : ∀ y ∈ l1, y.1 ≠ k := fun y hy => st.ne_of_gt (h1 y hy)
    have e2 : ∀ y ∈ l2, y.1 ≠ k := fun y hy e => st.ne_of_gt (h2 y hy) e.symm
    simp only [List.mem_append]
    exact ⟨fun h => ⟨h, h.elim (e1 x) (e2 x)⟩, fun h => h.1⟩
  · rw [specDel_present st av rest h1]
    have e1 : ∀ y ∈ l1, y.1 ≠ k := fun y hy => st.ne_of_gt (h1 y hy)
    have e2 : ∀ y ∈ rest, y.1 ≠ k := fun y hy e => st.ne_of_gt (h2 y hy) e.symm
    simp only [List.mem_append, List.mem_cons]
    constructor
    · rintro (h | h)
      · exact ⟨Or.inl h, e1 x h⟩
      · exact ⟨Or.inr (Or.inr h), e2 x h⟩
    · rintro ⟨h | h | h, hne⟩
      · exact Or.inl h
      · subst h; exact absurd rfl hne
      · exact Or.inr h

theorem option_ext_some {α : Type} {a b : Option α} (h : ∀ w, a = some w ↔ b = some w) : a = b := by
  cases a with
  | none => cases b with
    | none => rfl
    | some y => exact ((h y).2 rfl).symm ▸ rfl
  | some x => exact ((h x).1 rfl).symm

theorem specGet_specPut_self (st : StrictTotal gt) {m : List (K × V)} (hd : Desc gt m) (k : K) (v : V) :
    specGet gt (specPut gt m k v) k = some v := by
  rw [specGet_eq_some_iff st (desc_specPut st hd k v), mem_specPut st hd]; exact Or.inl rfl

theorem specGet_specPut_other (st : StrictTotal gt) {m : List (K × V)} (hd : Desc gt m) (k : K) (v : V)
    {k' : K} (hne : k' ≠ k) : specGet gt (specPut gt m k v) k' = specGet gt m k' := by
  apply option_ext_some
  intro w
  rw [specGet_eq_some_iff st (desc_specPut st hd k v), specGet_eq_some_iff st hd, mem_specPut st hd]
  constructor
  · rintro (h | h)
    · cases h; exact absurd rfl hne
    · exact h.1
  · exact fun h => Or.inr ⟨h, hne⟩

theorem specGet_specDel_self (st : StrictTotal gt) {m : List (K × V)} (hd : Desc gt m) (k : K) :
    specGet gt (specDel gt m k) k = none := by
  cases h : specGet gt (specDel gt m k) k with
  | none => rfl
  | some w =>
    rw [specGet_eq_some_iff st (desc_specDel st hd k), mem_specDel st hd] at h
    exact absurd rfl h.2

theorem specGet_specDel_other (st : StrictTotal gt) {m : List (K × V)} (hd : Desc gt m) (k : K)
    {k' : K} (hne : k' ≠ k) : specGet gt (specDel gt m k) k' = specGet gt m k' := by
  apply option_ext_some
  intro w
  rw [specGet_eq_some_iff st (desc_specDel st hd k), specGet_eq_some_iff st hd, mem_specDel st hd]
  exact ⟨fun h => h.1, fun h => ⟨h, hne⟩⟩

end
end IwModel.Kv
