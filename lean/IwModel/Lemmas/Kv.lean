import IwModel.Model.KvApi
/-! Helper lemmas for the KV models (`Model/Kv.lean`): order facts, the characterisation of the
spec operations on a list split around the key, routing, and the one-step refinement of the node
layer. Property theorems live in `Props/C01.lean` and `Props/C02.lean`. -/
namespace IwModel.Kv

/-- the comparator is a strict total order (`gt a b`: `a` is the greater key) -/
structure StrictTotal {K : Type} (gt : K → K → Bool) : Prop where
  irrefl : ∀ a, gt a a = false
  trans : ∀ a b c, gt a b = true → gt b c = true → gt a c = true
  tri : ∀ a b, gt a b = false → gt b a = false → a = b

section
variable {K V : Type} {gt : K → K → Bool}

/-- strictly descending keys (iwkv keeps the greatest key first) -/
def Desc (gt : K → K → Bool) (l : List (K × V)) : Prop := l.Pairwise (fun a b => gt a.1 b.1 = true)

/-- every node holds between 1 and `cap` records -/
def NodesOk (ns : List (Node K V)) : Prop := ∀ n ∈ ns, n.recs ≠ [] ∧ n.recs.length ≤ cap

/-- node invariant: non-empty bounded nodes, records strictly descending along the chain -/
def NodeInv (gt : K → K → Bool) (ns : List (Node K V)) : Prop := NodesOk ns ∧ Desc gt (flatten ns)

/-- every key of `l` is greater than `k` -/
def AllGt (gt : K → K → Bool) (k : K) (l : List (K × V)) : Prop := ∀ x ∈ l, gt x.1 k = true
/-- every key of `l` is below `k` -/
def AllLt (gt : K → K → Bool) (k : K) (l : List (K × V)) : Prop := ∀ x ∈ l, gt k x.1 = true

/-! ### order facts -/

theorem StrictTotal.asymm (st : StrictTotal gt) {a b : K} (h : gt a b = true) : gt b a = false := by
  cases hb : gt b a with
  | false => rfl
  | true => have := st.trans a b a h hb; rw [st.irrefl] at this; cases this

theorem StrictTotal.gt_of_gt_of_not_lt (st : StrictTotal gt) {x a k : K}
    (h1 : gt x a = true) (h2 : gt k a = false) : gt x k = true := by
  cases hx : gt x k with
  | true => rfl
  | false =>
    cases hk : gt k x with
    | true => rw [st.trans k x a hk h1] at h2; cases h2
    | false => have := st.tri x k hx hk; subst this; rw [h1] at h2; cases h2

theorem StrictTotal.ne_of_gt (st : StrictTotal gt) {a b : K} (h : gt a b = true) : a ≠ b := by
  intro e; subst e; rw [st.irrefl] at h; cases h

@[simp] theorem allGt_nil {k : K} : AllGt gt k ([] : List (K × V)) := by intro x hx; cases hx
@[simp] theorem allLt_nil {k : K} : AllLt gt k ([] : List (K × V)) := by intro x hx; cases hx

theorem allGt_append {k : K} {l1 l2 : List (K × V)} :
    AllGt gt k (l1 ++ l2) ↔ AllGt gt k l1 ∧ AllGt gt k l2 := by
  simp only [AllGt, List.mem_append]
  exact ⟨fun h => ⟨fun x hx => h x (Or.inl hx), fun x hx => h x (Or.inr hx)⟩,
    fun h x hx => hx.elim (h.1 x) (h.2 x)⟩

theorem allLt_append {k : K} {l1 l2 : List (K × V)} :
    AllLt gt k (l1 ++ l2) ↔ AllLt gt k l1 ∧ AllLt gt k l2 := by
  simp only [AllLt, List.mem_append]
  exact ⟨fun h => ⟨fun x hx => h x (Or.inl hx), fun x hx => h x (Or.inr hx)⟩,
    fun h x hx => hx.elim (h.1 x) (h.2 x)⟩

theorem allGt_cons {k : K} {x : K × V} {l : List (K × V)} :
    AllGt gt k (x :: l) ↔ gt x.1 k = true ∧ AllGt gt k l := by
  simp only [AllGt, List.mem_cons]
  exact ⟨fun h => ⟨h x (Or.inl rfl), fun y hy => h y (Or.inr hy)⟩,
    fun h y hy => hy.elim (fun e => e ▸ h.1) (h.2 y)⟩

theorem allLt_cons {k : K} {x : K × V} {l : List (K × V)} :
    AllLt gt k (x :: l) ↔ gt k x.1 = true ∧ AllLt gt k l := by
  simp only [AllLt, List.mem_cons]
  exact ⟨fun h => ⟨h x (Or.inl rfl), fun y hy => h y (Or.inr hy)⟩,
    fun h y hy => hy.elim (fun e => e ▸ h.1) (h.2 y)⟩

theorem desc_cons {x : K × V} {l : List (K × V)} :
    Desc gt (x :: l) ↔ AllLt gt x.1 l ∧ Desc gt l := by
  simp only [Desc, List.pairwise_cons, AllLt]

theorem desc_append {l1 l2 : List (K × V)} :
    Desc gt (l1 ++ l2) ↔ Desc gt l1 ∧ Desc gt l2 ∧ ∀ a ∈ l1, ∀ b ∈ l2, gt a.1 b.1 = true := by
  simp only [Desc, List.pairwise_append]

/-- around a member of a descending list: everything before is greater, everything after is below -/
theorem desc_mid {l1 l2 : List (K × V)} {k : K} {v : V} (h : Desc gt (l1 ++ (k, v) :: l2)) :
    AllGt gt k l1 ∧ AllLt gt k l2 := by
  rw [desc_append, desc_cons] at h
  exact ⟨fun x hx => h.2.2 x hx (k, v) (List.mem_cons_self ..), h.2.1.1⟩

/-- a key strictly between … is what a descending list with an inserted/replaced record needs -/
theorem desc_insert {l1 l2 : List (K × V)} {k : K} (v : V)
    (h : Desc gt (l1 ++ l2)) (h1 : AllGt gt k l1) (h2 : AllLt gt k l2) : Desc gt (l1 ++ (k, v) :: l2) := by
  rw [desc_append] at h
  rw [desc_append, desc_cons]
  refine ⟨h.1, ⟨h2, h.2.1⟩, ?_⟩
  intro a ha b hb
  rcases List.mem_cons.1 hb with rfl | hb
  · exact h1 a ha
  · exact h.2.2 a ha b hb

/-! ### `findPos` -/

theorem findPos_append_of_allGt {k : K} {l1 : List (K × V)} (l2 : List (K × V)) (h : AllGt gt k l1) :
    findPos gt k (l1 ++ l2) = l1.length + findPos gt k l2 := by
  induction l1 with
  | nil => simp
  | cons x tl ih =>
    obtain ⟨a, av⟩ := x
    rw [allGt_cons] at h
    simp only [List.cons_append, findPos, h.1, if_true, ih h.2, List.length_cons]
    omega

theorem findPos_zero_of_head {k : K} {l : List (K × V)} (h : ∀ x ∈ l.head?, gt x.1 k = false) :
    findPos gt k l = 0 := by
  cases l with
  | nil => rfl
  | cons x tl =>
    obtain ⟨a, av⟩ := x
    have := h (a, av) (by simp)
    simp only [findPos] at this ⊢
    simp [this]

/-- uniqueness of the insertion position -/
theorem findPos_eq_of {k : K} {l1 l2 : List (K × V)} (h1 : AllGt gt k l1)
    (h2 : ∀ x ∈ l2.head?, gt x.1 k = false) : findPos gt k (l1 ++ l2) = l1.length := by
  rw [findPos_append_of_allGt l2 h1, findPos_zero_of_head h2]; rfl

theorem head_not_gt_of_allLt (st : StrictTotal gt) {k : K} {l : List (K × V)} (h : AllLt gt k l) :
    ∀ x ∈ l.head?, gt x.1 k = false := by
  intro x hx
  exact st.asymm (h x (List.mem_of_mem_head? hx))

/-! ### the spec operations on a list split around the key -/

/-- `specGet` looks at the list from the insertion position on -/
def getHd (gt : K → K → Bool) (k : K) : List (K × V) → Option V
  | (a, v) :: _ => if gt k a then none else some v
  | [] => none

def putHd (gt : K → K → Bool) (k : K) (v : V) (l1 : List (K × V)) : List (K × V) → List (K × V)
  | (a, av) :: rest => if gt k a then l1 ++ (k, v) :: (a, av) :: rest else l1 ++ (k, v) :: rest
  | [] => l1 ++ [(k, v)]

def delHd (gt : K → K → Bool) (k : K) (l1 : List (K × V)) : List (K × V) → List (K × V)
  | (a, av) :: rest => if gt k a then l1 ++ (a, av) :: rest else l1 ++ rest
  | [] => l1

theorem specGet_append {k : K} {l1 l2 : List (K × V)} (h1 : AllGt gt k l1)
    (h2 : ∀ x ∈ l2.head?, gt x.1 k = false) : specGet gt (l1 ++ l2) k = getHd gt k l2 := by
  unfold specGet
  rw [findPos_eq_of h1 h2, List.drop_left]
  cases l2 with
  | nil => rfl
  | cons x tl => rfl

theorem specPut_append {k : K} {l1 l2 : List (K × V)} (v : V) (h1 : AllGt gt k l1)
    (h2 : ∀ x ∈ l2.head?, gt x.1 k = false) : specPut gt (l1 ++ l2) k v = putHd gt k v l1 l2 := by
  unfold specPut
  simp only [findPos_eq_of h1 h2, List.drop_left, List.take_left]
  cases l2 with
  | nil => rfl
  | cons x tl => rfl

theorem specDel_append {k : K} {l1 l2 : List (K × V)} (h1 : AllGt gt k l1)
    (h2 : ∀ x ∈ l2.head?, gt x.1 k = false) : specDel gt (l1 ++ l2) k = delHd gt k l1 l2 := by
  unfold specDel
  simp only [findPos_eq_of h1 h2, List.drop_left, List.take_left]
  cases l2 with
  | nil => simp [delHd]
  | cons x tl => rfl

/-- key absent: `l1` above, `l2` below -/
theorem specGet_absent (st : StrictTotal gt) {k : K} {l1 l2 : List (K × V)}
    (h1 : AllGt gt k l1) (h2 : AllLt gt k l2) : specGet gt (l1 ++ l2) k = none := by
  rw [specGet_append h1 (head_not_gt_of_allLt st h2)]
  cases l2 with
  | nil => rfl
  | cons x tl => simp [getHd, h2 x (List.mem_cons_self ..)]

theorem specPut_absent (st : StrictTotal gt) {k : K} {l1 l2 : List (K × V)} (v : V)
    (h1 : AllGt gt k l1) (h2 : AllLt gt k l2) : specPut gt (l1 ++ l2) k v = l1 ++ (k, v) :: l2 := by
  rw [specPut_append v h1 (head_not_gt_of_allLt st h2)]
  cases l2 with
  | nil => rfl
  | cons x tl => simp [putHd, h2 x (List.mem_cons_self ..)]

theorem specDel_absent (st : StrictTotal gt) {k : K} {l1 l2 : List (K × V)}
    (h1 : AllGt gt k l1) (h2 : AllLt gt k l2) : specDel gt (l1 ++ l2) k = l1 ++ l2 := by
  rw [specDel_append h1 (head_not_gt_of_allLt st h2)]
  cases l2 with
  | nil => simp [delHd]
  | cons x tl => simp [delHd, h2 x (List.mem_cons_self ..)]

theorem head_eq_not_gt (st : StrictTotal gt) (k : K) (av : V) (l2 : List (K × V)) :
    ∀ x ∈ ((k, av) :: l2).head?, gt x.1 k = false := by
  intro x hx; simp at hx; subst hx; exact st.irrefl k

/-- key present -/
theorem specGet_present (st : StrictTotal gt) {k : K} {l1 : List (K × V)} (av : V) (l2 : List (K × V))
    (h1 : AllGt gt k l1) : specGet gt (l1 ++ (k, av) :: l2) k = some av := by
  rw [specGet_append h1 (head_eq_not_gt st k av l2)]; simp [getHd, st.irrefl k]

theorem specPut_present (st : StrictTotal gt) {k : K} {l1 : List (K × V)} (v av : V) (l2 : List (K × V))
    (h1 : AllGt gt k l1) : specPut gt (l1 ++ (k, av) :: l2) k v = l1 ++ (k, v) :: l2 := by
  rw [specPut_append v h1 (head_eq_not_gt st k av l2)]; simp [putHd, st.irrefl k]

theorem specDel_present (st : StrictTotal gt) {k : K} {l1 : List (K × V)} (av : V) (l2 : List (K × V))
    (h1 : AllGt gt k l1) : specDel gt (l1 ++ (k, av) :: l2) k = l1 ++ l2 := by
  rw [specDel_append h1 (head_eq_not_gt st k av l2)]; simp [delHd, st.irrefl k]

/-- shape of a descending list around a key -/
theorem findPos_split (st : StrictTotal gt) (k : K) {l : List (K × V)} (hd : Desc gt l) :
    AllGt gt k (l.take (findPos gt k l)) ∧
    (AllLt gt k (l.drop (findPos gt k l)) ∨
      ∃ av rest, l.drop (findPos gt k l) = (k, av) :: rest ∧ AllLt gt k rest) := by
  induction l with
  | nil => simp [findPos]
  | cons x tl ih =>
    obtain ⟨a, av⟩ := x
    rw [desc_cons] at hd
    cases hak : gt a k with
    | true =>
      have ih := ih hd.2
      have e : findPos gt k ((a, av) :: tl) = findPos gt k tl + 1 := by simp [findPos, hak]
      rw [e, List.take_succ_cons, List.drop_succ_cons, allGt_cons]
      exact ⟨⟨hak, ih.1⟩, ih.2⟩
    | false =>
      have e : findPos gt k ((a, av) :: tl) = 0 := by simp [findPos, hak]
      rw [e, List.take_zero, List.drop_zero]
      refine ⟨by simp, ?_⟩
      cases hka : gt k a with
      | true =>
        left
        rw [allLt_cons]
        exact ⟨hka, fun y hy => st.trans _ _ _ hka (hd.1 y hy)⟩
      | false =>
        right
        have := st.tri a k hak hka
        subst this
        exact ⟨av, tl, rfl, hd.1⟩

/-- a descending list splits around any key -/
theorem desc_split (st : StrictTotal gt) (k : K) {m : List (K × V)} (hd : Desc gt m) :
    ∃ l1 l2, m = l1 ++ l2 ∧ AllGt gt k l1 ∧
      (AllLt gt k l2 ∨ ∃ av rest, l2 = (k, av) :: rest ∧ AllLt gt k rest) :=
  ⟨_, _, (List.take_append_drop (findPos gt k m) m).symm, (findPos_split st k hd).1, (findPos_split st k hd).2⟩

/-! ### the spec is an ordered map -/

theorem desc_specPut (st : StrictTotal gt) {m : List (K × V)} (hd : Desc gt m) (k : K) (v : V) :
    Desc gt (specPut gt m k v) := by
  obtain ⟨l1, l2, rfl, h1, h2 | ⟨av, rest, rfl, h2⟩⟩ := desc_split st k hd
  · rw [specPut_absent st v h1 h2]; exact desc_insert v hd h1 h2
  · rw [specPut_present st v av rest h1]
    rw [desc_append, desc_cons] at hd ⊢
    refine ⟨hd.1, hd.2.1, ?_⟩
    intro a ha b hb
    rcases List.mem_cons.1 hb with rfl | hb
    · exact hd.2.2 a ha (k, av) (List.mem_cons_self ..)
    · exact hd.2.2 a ha b (List.mem_cons_of_mem _ hb)

theorem desc_specDel (st : StrictTotal gt) {m : List (K × V)} (hd : Desc gt m) (k : K) :
    Desc gt (specDel gt m k) := by
  obtain ⟨l1, l2, rfl, h1, h2 | ⟨av, rest, rfl, h2⟩⟩ := desc_split st k hd
  · rw [specDel_absent st h1 h2]; exact hd
  · rw [specDel_present st av rest h1]
    rw [desc_append, desc_cons] at hd
    rw [desc_append]
    exact ⟨hd.1, hd.2.1.2, fun a ha b hb => hd.2.2 a ha b (List.mem_cons_of_mem _ hb)⟩

/-- lookup in a descending list is membership -/
theorem specGet_eq_some_iff (st : StrictTotal gt) {m : List (K × V)} (hd : Desc gt m) (k : K) (v : V) :
    specGet gt m k = some v ↔ (k, v) ∈ m := by
  obtain ⟨l1, l2, rfl, h1, h2 | ⟨av, rest, rfl, h2⟩⟩ := desc_split st k hd
  · rw [specGet_absent st h1 h2]
    refine ⟨fun h => (by cases h), fun h => ?_⟩
    rcases List.mem_append.1 h with h | h
    · exact absurd rfl (st.ne_of_gt (h1 _ h))
    · exact absurd rfl (st.ne_of_gt (h2 _ h))
  · rw [specGet_present st av rest h1]
    constructor
    · intro h; cases h; simp
    · intro h
      rcases List.mem_append.1 h with h | h
      · exact absurd rfl (st.ne_of_gt (h1 _ h))
      · rcases List.mem_cons.1 h with h | h
        · cases h; rfl
        · exact absurd rfl (st.ne_of_gt (h2 _ h))

theorem mem_specPut (st : StrictTotal gt) {m : List (K × V)} (hd : Desc gt m) (k : K) (v : V) (x : K × V) :
    x ∈ specPut gt m k v ↔ x = (k, v) ∨ (x ∈ m ∧ x.1 ≠ k) := by
  obtain ⟨l1, l2, rfl, h1, h2 | ⟨av, rest, rfl, h2⟩⟩ := desc_split st k hd
  · rw [specPut_absent st v h1 h2]
    have e1 : ∀ y ∈ l1, y.1 ≠ k := fun y hy => st.ne_of_gt (h1 y hy)
    have e2 : ∀ y ∈ l2, y.1 ≠ k := fun y hy e => st.ne_of_gt (h2 y hy) e.symm
    simp only [List.mem_append, List.mem_cons]
    constructor
    · rintro (h | h | h)
      · exact Or.inr ⟨Or.inl h, e1 x h⟩
      · exact Or.inl h
      · exact Or.inr ⟨Or.inr h, e2 x h⟩
    · rintro (h | ⟨h | h, _⟩)
      · exact Or.inr (Or.inl h)
      · exact Or.inl h
      · exact Or.inr (Or.inr h)
  · rw [specPut_present st v av rest h1]
    have e1 : ∀ y ∈ l1, y.1 ≠ k := fun y hy => st.ne_of_gt (h1 y hy)
    have e2 : ∀ y ∈ rest, y.1 ≠ k := fun y hy e => st.ne_of_gt (h2 y hy) e.symm
    simp only [List.mem_append, List.mem_cons]
    constructor
    · rintro (h | h | h)
      · exact Or.inr ⟨Or.inl h, e1 x h⟩
      · exact Or.inl h
      · exact Or.inr ⟨Or.inr (Or.inr h), e2 x h⟩
    · rintro (h | ⟨h | h | h, hne⟩)
      · exact Or.inr (Or.inl h)
      · exact Or.inl h
      · subst h; exact absurd rfl hne
      · exact Or.inr (Or.inr h)

theorem mem_specDel (st : StrictTotal gt) {m : List (K × V)} (hd : Desc gt m) (k : K) (x : K × V) :
    x ∈ specDel gt m k ↔ x ∈ m ∧ x.1 ≠ k := by
  obtain ⟨l1, l2, rfl, h1, h2 | ⟨av, rest, rfl, h2⟩⟩ := desc_split st k hd
  · rw [specDel_absent st h1 h2]
    have e1 : ∀ y ∈ l1, y.1 ≠ k := fun y hy => st.ne_of_gt (h1 y hy)
    have e2 : ∀ y ∈ l2, y.1 ≠ k := fun y hy e => st.ne_of_gt (h2 y hy) e.symm
    simp only [List.mem_append]
    exact ⟨fun h => ⟨h, h.elim (e1 x) (e2 x)⟩, fun h => h.1⟩
  · rw [specDel_present st av rest h1]
    have e1 : ∀ y ∈ l1, y.1 ≠ k := fun y hy => st.ne_of_gt (h1 y hy)
    have e2 : ∀ y ∈ rest, y.1 ≠ k := fun y hy e => st.ne_of_gt (h2 y hy) e.symm
    simp only [List.mem_append, List.mem_cons]
    constructor
    · rintro (h | h)
      · exact ⟨Or.inl h, e1 x h⟩
      · exact ⟨Or.inr (Or.inr h), e2 x h⟩
    · rintro ⟨h | h | h, hne⟩
      · exact Or.inl h
      · subst h; exact absurd rfl hne
      · exact Or.inr h

theorem option_ext_some {α : Type} {a b : Option α} (h : ∀ w, a = some w ↔ b = some w) : a = b := by
  cases a with
  | none => cases b with
    | none => rfl
    | some y => exact ((h y).2 rfl).symm ▸ rfl
  | some x => exact ((h x).1 rfl).symm

theorem specGet_specPut_self (st : StrictTotal gt) {m : List (K × V)} (hd : Desc gt m) (k : K) (v : V) :
    specGet gt (specPut gt m k v) k = some v := by
  rw [specGet_eq_some_iff st (desc_specPut st hd k v), mem_specPut st hd]; exact Or.inl rfl

theorem specGet_specPut_other (st : StrictTotal gt) {m : List (K × V)} (hd : Desc gt m) (k : K) (v : V)
    {k' : K} (hne : k' ≠ k) : specGet gt (specPut gt m k v) k' = specGet gt m k' := by
  apply option_ext_some
  intro w
  rw [specGet_eq_some_iff st (desc_specPut st hd k v), specGet_eq_some_iff st hd, mem_specPut st hd]
  constructor
  · rintro (h | h)
    · cases h; exact absurd rfl hne
    · exact h.1
  · exact fun h => Or.inr ⟨h, hne⟩

theorem specGet_specDel_self (st : StrictTotal gt) {m : List (K × V)} (hd : Desc gt m) (k : K) :
    specGet gt (specDel gt m k) k = none := by
  cases h : specGet gt (specDel gt m k) k with
  | none => rfl
  | some w =>
    rw [specGet_eq_some_iff st (desc_specDel st hd k), mem_specDel st hd] at h
    exact absurd rfl h.2

theorem specGet_specDel_other (st : StrictTotal gt) {m : List (K × V)} (hd : Desc gt m) (k : K)
    {k' : K} (hne : k' ≠ k) : specGet gt (specDel gt m k) k' = specGet gt m k' := by
  apply option_ext_some
  intro w
  rw [specGet_eq_some_iff st (desc_specDel st hd k), specGet_eq_some_iff st hd, mem_specDel st hd]
  exact ⟨fun h => h.1, fun h => ⟨h, hne⟩⟩

/-! ### node layer: flatten, routing -/

@[simp] theorem flatten_nil : flatten ([] : List (Node K V)) = [] := rfl
@[simp] theorem flatten_cons (n : Node K V) (ns : List (Node K V)) : flatten (n :: ns) = n.recs ++ flatten ns := by
  simp [flatten]
@[simp] theorem flatten_append (a b : List (Node K V)) : flatten (a ++ b) = flatten a ++ flatten b := by
  simp [flatten]

@[simp] theorem nodesOk_nil : NodesOk ([] : List (Node K V)) := by intro n hn; cases hn

theorem nodesOk_cons {n : Node K V} {ns : List (Node K V)} :
    NodesOk (n :: ns) ↔ (n.recs ≠ [] ∧ n.recs.length ≤ cap) ∧ NodesOk ns := by
  simp only [NodesOk, List.mem_cons]
  exact ⟨fun h => ⟨h n (Or.inl rfl), fun m hm => h m (Or.inr hm)⟩,
    fun h m hm => hm.elim (fun e => e ▸ h.1) (h.2 m)⟩

theorem nodesOk_append {a b : List (Node K V)} : NodesOk (a ++ b) ↔ NodesOk a ∧ NodesOk b := by
  simp only [NodesOk, List.mem_append]
  exact ⟨fun h => ⟨fun m hm => h m (Or.inl hm), fun m hm => h m (Or.inr hm)⟩,
    fun h m hm => hm.elim (h.1 m) (h.2 m)⟩

theorem nodeInv_nil : NodeInv gt ([] : List (Node K V)) := ⟨nodesOk_nil, List.Pairwise.nil⟩

theorem nodeInv_tail {n : Node K V} {ns : List (Node K V)} (h : NodeInv gt (n :: ns)) : NodeInv gt ns := by
  refine ⟨(nodesOk_cons.1 h.1).2, ?_⟩
  have := h.2
  rw [flatten_cons, desc_append] at this
  exact this.2.1

/-- routing to the database block: the key is above everything stored -/
theorem routeIdx_zero (st : StrictTotal gt) {k : K} {ns : List (Node K V)} (inv : NodeInv gt ns)
    (h : routeIdx gt k ns = 0) : AllLt gt k (flatten ns) := by
  cases ns with
  | nil => simp
  | cons n rest =>
    have hn := (nodesOk_cons.1 inv.1).1
    have hd := inv.2
    rw [flatten_cons] at hd ⊢
    cases hr : n.recs with
    | nil => exact absurd hr hn.1
    | cons x tl =>
      obtain ⟨a, av⟩ := x
      rw [hr, List.cons_append, desc_cons] at hd
      simp only [routeIdx, hr] at h
      have hka : gt k a = true := by
        cases hk : gt k a with
        | true => rfl
        | false => simp [hk] at h
      rw [List.cons_append, allLt_cons]
      exact ⟨hka, fun y hy => st.trans _ _ _ hka (hd.1 y hy)⟩

/-- routing to a node: the chain splits into nodes above the key, the node whose first key is not
    below the key, and nodes entirely below the key -/
theorem routeIdx_succ (st : StrictTotal gt) {k : K} {ns : List (Node K V)} (inv : NodeInv gt ns) {r : Nat}
    (h : routeIdx gt k ns = r + 1) :
    ∃ pre lower post, ns = pre ++ lower :: post ∧ pre.length = r ∧
      AllGt gt k (flatten pre) ∧ AllLt gt k (flatten post) ∧
      ∃ a av tl, lower.recs = (a, av) :: tl ∧ gt k a = false := by
  induction ns generalizing r with
  | nil => simp [routeIdx] at h
  | cons n rest ih =>
    have hn := (nodesOk_cons.1 inv.1).1
    have hd := inv.2
    cases hr : n.recs with
    | nil => exact absurd hr hn.1
    | cons x tl =>
      obtain ⟨a, av⟩ := x
      simp only [routeIdx, hr] at h
      cases hka : gt k a with
      | true => simp [hka] at h
      | false =>
        simp only [hka, Bool.false_eq_true, if_false, Nat.add_right_cancel_iff] at h
        cases r with
        | zero =>
          exact ⟨[], n, rest, rfl, rfl, by simp, routeIdx_zero st (nodeInv_tail inv) h, a, av, tl, hr, hka⟩
        | succ r' =>
          obtain ⟨pre, lower, post, e, hl, hg, hlt, a', av', tl', hr', hka'⟩ := ih (nodeInv_tail inv) h
          refine ⟨n :: pre, lower, post, by rw [e]; rfl, by simp [hl], ?_, hlt, a', av', tl', hr', hka'⟩
          rw [flatten_cons, allGt_append]
          refine ⟨?_, hg⟩
          intro y hy
          rw [e, flatten_cons, flatten_append, flatten_cons, hr', desc_append] at hd
          refine st.gt_of_gt_of_not_lt (hd.2.2 y hy (a', av') ?_) hka'
          simp

theorem findPi_snd (k : K) (recs : List (K × V)) : (findPi gt k recs).2 = findPos gt k recs := by
  simp only [findPi]; split <;> rfl

theorem findPi_absent {k : K} {recs : List (K × V)}
    (h : AllLt gt k (recs.drop (findPos gt k recs))) : findPi gt k recs = (false, findPos gt k recs) := by
  simp only [findPi]
  split
  · rename_i a av tl e
    have : gt k a = true := h (a, av) (by rw [e]; exact List.mem_cons_self ..)
    simp [this]
  · rfl

theorem findPi_present (st : StrictTotal gt) {k : K} {recs : List (K × V)} {av : V} {rest : List (K × V)}
    (h : recs.drop (findPos gt k recs) = (k, av) :: rest) : findPi gt k recs = (true, findPos gt k recs) := by
  simp only [findPi]
  rw [h]
  simp [st.irrefl k]

/-- the whole picture for a key routed to node `r` -/
theorem lower_split (st : StrictTotal gt) {k : K} {ns : List (Node K V)} (inv : NodeInv gt ns) {r : Nat}
    (h : routeIdx gt k ns = r + 1) :
    ∃ pre lower post, ns = pre ++ lower :: post ∧ pre.length = r ∧
      AllGt gt k (flatten pre ++ lower.recs.take (findPos gt k lower.recs)) ∧
      ((AllLt gt k (lower.recs.drop (findPos gt k lower.recs) ++ flatten post) ∧
          findPi gt k lower.recs = (false, findPos gt k lower.recs) ∧ 1 ≤ findPos gt k lower.recs) ∨
        ∃ av rest, lower.recs.drop (findPos gt k lower.recs) = (k, av) :: rest ∧
          AllLt gt k (rest ++ flatten post) ∧ findPi gt k lower.recs = (true, findPos gt k lower.recs)) := by
  obtain ⟨pre, lower, post, e, hl, hg, hlt, a, av, tl, hr, hka⟩ := routeIdx_succ st inv h
  refine ⟨pre, lower, post, e, hl, ?_⟩
  have hd := inv.2
  rw [e, flatten_append, flatten_cons, desc_append, desc_append] at hd
  have hs := findPos_split st k hd.2.1.1
  refine ⟨allGt_append.2 ⟨hg, hs.1⟩, ?_⟩
  rcases hs.2 with h2 | ⟨av', rest, h2, h3⟩
  · left
    refine ⟨allLt_append.2 ⟨h2, hlt⟩, findPi_absent h2, ?_⟩
    cases hi : findPos gt k lower.recs with
    | zero =>
      rw [hi, List.drop_zero, hr] at h2
      have := h2 (a, av) (List.mem_cons_self ..)
      rw [hka] at this; cases this
    | succ i => omega
  · right
    exact ⟨av', rest, h2, allLt_append.2 ⟨h3, hlt⟩, findPi_present st h2⟩

/-! ### list plumbing -/

theorem getElem?_mid {α : Type} {pre post : List α} {x : α} {r : Nat} (h : pre.length = r) :
    (pre ++ x :: post)[r]? = some x := by
  subst h; simp

theorem take_mid {α : Type} {pre post : List α} {x : α} {r : Nat} (h : pre.length = r) :
    (pre ++ x :: post).take r = pre := by
  subst h; simp

theorem drop_mid {α : Type} {pre post : List α} {x : α} {r : Nat} (h : pre.length = r) :
    (pre ++ x :: post).drop (r + 1) = post := by
  subst h; simp

theorem split_of_getElem? {α : Type} {l : List α} {i : Nat} {x : α} (h : l[i]? = some x) :
    l = l.take i ++ x :: l.drop (i + 1) := by
  induction l generalizing i with
  | nil => simp at h
  | cons a tl ih =>
    cases i with
    | zero => simp at h; subst h; simp
    | succ i => simp at h; simp; exact ih h

theorem getElem?_of_drop {α : Type} {l : List α} {i : Nat} {x : α} {rest : List α} (h : l.drop i = x :: rest) :
    l[i]? = some x ∧ l.drop (i + 1) = rest := by
  have h1 : l[i]? = some x := by rw [← List.head?_drop, h]; rfl
  refine ⟨h1, ?_⟩
  have := congrArg List.tail h
  simpa using this

/-! ### one-step refinement -/

theorem get_refines (st : StrictTotal gt) (d : Db K V) (inv : NodeInv gt d.nodes) (k : K) :
    get gt d k = specGet gt (flatten d.nodes) k := by
  cases hr : routeIdx gt k d.nodes with
  | zero =>
    have := specGet_absent st (l1 := []) allGt_nil (routeIdx_zero st inv hr)
    rw [List.nil_append] at this
    rw [this]; simp [get, hr]
  | succ r =>
    obtain ⟨pre, lower, post, e, hl, hg, hc⟩ := lower_split st inv hr
    have hf : flatten d.nodes = (flatten pre ++ lower.recs.take (findPos gt k lower.recs)) ++
        (lower.recs.drop (findPos gt k lower.recs) ++ flatten post) := by
      rw [e, flatten_append, flatten_cons]
      conv => lhs; rw [← List.take_append_drop (findPos gt k lower.recs) lower.recs]
      simp only [List.append_assoc]
    simp only [get, hr, Nat.add_one_ne_zero, if_false, Nat.add_sub_cancel]
    rw [hf, e, getElem?_mid hl]
    rcases hc with ⟨h2, hp, _⟩ | ⟨av, rest, h2, h3, hp⟩
    · rw [specGet_absent st hg h2]; simp [hp]
    · rw [h2, List.cons_append, specGet_present st av _ hg]
      simp [hp, (getElem?_of_drop h2).1]

@[simp] theorem mapCurs_nodes (f : CPos → CPos) (d : Db K V) : (mapCurs f d).nodes = d.nodes := rfl

theorem flatten_split (pre post : List (Node K V)) (lower : Node K V) (i : Nat) :
    flatten (pre ++ lower :: post) = (flatten pre ++ lower.recs.take i) ++ (lower.recs.drop i ++ flatten post) := by
  rw [flatten_append, flatten_cons]
  conv => lhs; rw [← List.take_append_drop i lower.recs]
  simp only [List.append_assoc]

theorem insertAt_hi {α : Type} (l : List α) (p i : Nat) (x : α) (h : p ≤ i) :
    l.take p ++ ((l.drop p).take (i - p) ++ x :: (l.drop p).drop (i - p)) = l.take i ++ x :: l.drop i := by
  rw [← List.append_assoc, List.drop_drop]
  have : p + (i - p) = i := by omega
  rw [this]
  congr 1
  conv => rhs; rw [← this, List.take_add]

theorem insertAt_lo {α : Type} (l : List α) (p i : Nat) (x : α) (h : i ≤ p) :
    ((l.take p).take i ++ x :: (l.take p).drop i) ++ l.drop p = l.take i ++ x :: l.drop i := by
  rw [List.take_take, Nat.min_eq_left h, List.append_assoc, List.cons_append]
  congr 2
  rw [List.drop_take]
  have := List.take_append_drop (p - i) (l.drop i)
  rw [List.drop_drop] at this
  have e : i + (p - i) = p := by omega
  rw [e] at this
  exact this

theorem insertAt_hi' {α : Type} (l t : List α) (p i : Nat) (x : α) (h : p ≤ i) :
    l.take p ++ ((l.drop p).take (i - p) ++ x :: ((l.drop p).drop (i - p) ++ t)) = l.take i ++ x :: (l.drop i ++ t) := by
  have := congrArg (· ++ t) (insertAt_hi l p i x h)
  simpa only [List.append_assoc, List.cons_append] using this

theorem insertAt_lo' {α : Type} (l t : List α) (p i : Nat) (x : α) (h : i ≤ p) :
    (l.take p).take i ++ x :: ((l.take p).drop i ++ (l.drop p ++ t)) = l.take i ++ x :: (l.drop i ++ t) := by
  have := congrArg (· ++ t) (insertAt_lo l p i x h)
  simpa only [List.append_assoc, List.cons_append] using this

theorem put_core (st : StrictTotal gt) (d : Db K V) (inv : NodeInv gt d.nodes) (k : K) (v : V) (lvl : Nat)
    (res : Db K V × PutOut × Option V) (hres : put gt d k v false lvl = res) :
    flatten res.1.nodes = specPut gt (flatten d.nodes) k v ∧
    NodesOk res.1.nodes ∧ res.2.1 = .ok ∧ res.2.2 = specGet gt (flatten d.nodes) k := by
  obtain ⟨nodes, curs⟩ := d
  simp only at inv ⊢
  cases hr : routeIdx gt k nodes with
  | zero =>
    have hlt := routeIdx_zero st inv hr
    have e1 := specGet_absent st (l1 := []) allGt_nil hlt
    have e2 := specPut_absent st (l1 := []) v allGt_nil hlt
    rw [List.nil_append] at e1 e2
    rw [e1, e2]
    simp only [put, hr, if_true] at hres
    cases nodes with
    | nil => subst hres; simp [NodesOk, cap]
    | cons u rest =>
      have hu := (nodesOk_cons.1 inv.1)
      simp only at hres
      split at hres
      · rename_i hlen
        rw [flatten_cons, allLt_append] at hlt
        have hp : findPi gt k u.recs = ((findPi gt k u.recs).1, 0) := by
          refine Prod.ext rfl ?_
          rw [findPi_snd]; exact findPos_zero_of_head (head_not_gt_of_allLt st hlt.1)
        rw [hp] at hres
        subst hres
        simp only [mapCurs_nodes, flatten_cons, insertAt, List.take_zero, List.drop_zero, List.nil_append,
          List.cons_append, true_and, and_true]
        rw [nodesOk_cons]
        refine ⟨⟨by simp, ?_⟩, hu.2⟩
        simp only [List.length_cons]; omega
      · subst hres
        simp only [mapCurs_nodes, flatten_cons, List.cons_append, List.nil_append, true_and, and_true]
        rw [nodesOk_cons]
        exact ⟨⟨by simp, by simp [cap]⟩, inv.1⟩
  | succ r =>
    obtain ⟨pre, lower, post, e, hl, hg, hc⟩ := lower_split st inv hr
    have hok := inv.1
    subst e
    rw [nodesOk_append, nodesOk_cons] at hok
    rw [flatten_split pre post lower (findPos gt k lower.recs)]
    simp only [put, hr, Nat.add_one_ne_zero, if_false, Nat.add_sub_cancel, getElem?_mid hl, take_mid hl,
      drop_mid hl] at hres
    generalize findPos gt k lower.recs = i at *
    rcases hc with ⟨h2, hp, _⟩ | ⟨av, rest, h2, h3, hp⟩
    · rw [specGet_absent st hg h2, specPut_absent st v hg h2]
      rw [hp] at hres
      simp only [Bool.false_eq_true, if_false] at hres
      split at hres
      · rename_i hfull
        have hlen : lower.recs.length = cap := Nat.le_antisymm hok.2.1.2 hfull
        generalize hb : (decide (i ≥ cap) && upperFree post) = b at hres
        cases b with
        | true =>
          -- add to upper
          cases post with
          | nil => simp [upperFree] at hb
          | cons u rest =>
            simp only [upperFree, Bool.and_eq_true, decide_eq_true_eq] at hb
            simp only [if_true] at hres
            subst hres
            rw [flatten_cons, ← List.append_assoc, allLt_append, allLt_append] at h2
            have hp : (findPi gt k u.recs).2 = 0 := by
              rw [findPi_snd]; exact findPos_zero_of_head (head_not_gt_of_allLt st h2.1.2)
            have hok' := nodesOk_cons.1 hok.2.2
            rw [hp]
            simp only [mapCurs_nodes, flatten_append, flatten_cons, insertAt, List.take_zero, List.drop_zero,
              List.nil_append, List.append_assoc, List.cons_append, true_and, and_true,
              List.take_of_length_le (Nat.le_trans (Nat.le_of_eq hlen) hb.1),
              List.drop_of_length_le (Nat.le_trans (Nat.le_of_eq hlen) hb.1)]
            rw [nodesOk_append, nodesOk_cons, nodesOk_cons]
            refine ⟨hok.1, hok.2.1, ⟨by simp, ?_⟩, hok'.2⟩
            simp only [List.length_cons]; omega
        | false =>
          simp only [Bool.false_eq_true, if_false] at hres
          split at hres
          · -- fresh node after `lower`
            rename_i hi
            subst hres
            simp only [mapCurs_nodes, flatten_append, flatten_cons, List.append_assoc, List.cons_append,
              List.nil_append, true_and, and_true, List.take_of_length_le (Nat.le_of_eq hi.symm),
              List.drop_of_length_le (Nat.le_of_eq hi.symm)]
            rw [nodesOk_append, nodesOk_cons, nodesOk_cons]
            exact ⟨hok.1, hok.2.1, ⟨by simp, by simp [cap]⟩, hok.2.2⟩
          · rename_i hi
            split at hres
            · -- split, record goes to the new node
              rename_i hpv
              subst hres
              simp only [mapCurs_nodes, flatten_append, flatten_cons, insertAt, and_true]
              refine ⟨?_, ?_⟩
              · simp only [List.append_assoc, List.cons_append]
                rw [insertAt_hi' lower.recs _ pivot i (k, v) (Nat.le_of_lt hpv)]
              · rw [nodesOk_append, nodesOk_cons, nodesOk_cons]
                refine ⟨hok.1, ⟨?_, ?_⟩, ⟨by simp, ?_⟩, hok.2.2⟩
                · intro h0
                  have := congrArg List.length h0
                  simp only [List.length_take, List.length_nil, hlen, cap, pivot] at this
                  omega
                · simp only [List.length_take, cap, pivot]; omega
                · simp only [List.length_append, List.length_cons, List.length_take, List.length_drop, hlen]
                  simp only [cap, pivot]; omega
            · -- split, record stays
              rename_i hpv
              subst hres
              simp only [mapCurs_nodes, flatten_append, flatten_cons, insertAt, and_true]
              refine ⟨?_, ?_⟩
              · simp only [List.append_assoc, List.cons_append]
                rw [insertAt_lo' lower.recs _ pivot i (k, v) (Nat.le_of_not_gt hpv)]
              · rw [nodesOk_append, nodesOk_cons, nodesOk_cons]
                refine ⟨hok.1, ⟨by simp, ?_⟩, ⟨?_, ?_⟩, hok.2.2⟩
                · simp only [List.length_append, List.length_cons, List.length_take, List.length_drop, hlen]
                  simp only [cap, pivot]; omega
                · intro h0
                  have := congrArg List.length h0
                  simp only [List.length_drop, List.length_nil, hlen, cap, pivot] at this
                  omega
                · simp only [List.length_drop, hlen, cap, pivot]; omega
      · subst hres
        simp only [mapCurs_nodes, flatten_append, flatten_cons, insertAt, List.append_assoc, List.cons_append,
          true_and, and_true]
        rw [nodesOk_append, nodesOk_cons]
        refine ⟨hok.1, ⟨by simp, ?_⟩, hok.2.2⟩
        simp only [List.length_append, List.length_cons, List.length_take, List.length_drop]
        omega
    · rw [h2, List.cons_append, specGet_present st av _ hg, specPut_present st v av _ hg]
      rw [hp] at hres
      simp only [if_true, Bool.false_eq_true, if_false] at hres
      subst hres
      have hi := getElem?_of_drop h2
      have hlt : i < lower.recs.length := by
        have := congrArg List.length h2
        simp only [List.length_drop, List.length_cons] at this; omega
      simp only [hi.1, Option.map_some, flatten_append, flatten_cons,
        List.set_eq_take_append_cons_drop, hlt, if_true, hi.2, List.append_assoc, List.cons_append, true_and,
        and_true]
      rw [nodesOk_append, nodesOk_cons]
      refine ⟨hok.1, ⟨by simp, ?_⟩, hok.2.2⟩
      have := hok.2.1.2
      have e : (lower.recs.take i ++ (k, v) :: rest).length = lower.recs.length := by
        rw [← hi.2, ← List.set_eq_take_append_cons_drop (l := lower.recs) (i := i) (a := (k, v)) |>.trans (if_pos hlt),
          List.length_set]
      rw [e]; exact this

theorem findPi_found {k : K} {recs : List (K × V)} {idx : Nat} (h : findPi gt k recs = (true, idx)) :
    ∃ x, recs[idx]? = some x := by
  simp only [findPi] at h
  split at h
  · rename_i a av tl e
    have := (getElem?_of_drop e).1
    simp only [Prod.mk.injEq] at h
    rw [← h.2]; exact ⟨_, this⟩
  · simp at h

/-- with `IWKV_NO_OVERWRITE` a present key is reported and nothing changes -/
theorem put_noOverwrite_present (d : Db K V) (k : K) (v : V) (lvl : Nat) {ov : V} (h : get gt d k = some ov) :
    put gt d k v true lvl = (d, .exists_, some ov) := by
  simp only [get] at h
  simp only [put]
  split at h
  · cases h
  · rename_i hr
    simp only [hr, if_false]
    split at h
    · cases h
    · rename_i lower hl
      cases hp : findPi gt k lower.recs with
      | mk found idx =>
        rw [hp] at h
        cases found with
        | false => simp at h
        | true => simp only [if_true] at h ⊢; rw [h]

/-- … and an absent key is stored as by a plain put -/
theorem put_noOverwrite_absent (d : Db K V) (k : K) (v : V) (lvl : Nat) (h : get gt d k = none) :
    put gt d k v true lvl = put gt d k v false lvl := by
  simp only [get] at h
  simp only [put]
  split at h
  · rename_i hr; simp only [hr, if_true]
  · rename_i hr
    simp only [hr, if_false]
    split at h
    · rfl
    · rename_i lower hl
      cases hp : findPi gt k lower.recs with
      | mk found idx =>
        rw [hp] at h
        cases found with
        | false => simp
        | true =>
          obtain ⟨x, hx⟩ := findPi_found hp
          simp [hx] at h

/-- removing the record at slot `idx` of node `li` is `specDel` of its key -/
theorem delAt_core (st : StrictTotal gt) (d : Db K V) (inv : NodeInv gt d.nodes) {li idx : Nat}
    {pre post : List (Node K V)} {lower : Node K V} {t u : List (K × V)} {k : K} {av : V}
    (e : d.nodes = pre ++ lower :: post) (hl : pre.length = li)
    (e2 : lower.recs = t ++ (k, av) :: u) (hi : t.length = idx) :
    flatten (delAt d li idx).nodes = specDel gt (flatten d.nodes) k ∧ NodesOk (delAt d li idx).nodes := by
  obtain ⟨nodes, curs⟩ := d
  simp only at inv e ⊢
  subst e
  have hok := inv.1
  rw [nodesOk_append, nodesOk_cons] at hok
  have hf : flatten (pre ++ lower :: post) = (flatten pre ++ t) ++ (k, av) :: (u ++ flatten post) := by
    rw [flatten_append, flatten_cons, e2]; simp only [List.append_assoc, List.cons_append]
  have hd := inv.2
  rw [hf] at hd
  rw [hf, specDel_present st av _ (desc_mid hd).1]
  simp only [delAt, getElem?_mid hl, take_mid hl, drop_mid hl]
  split
  · rename_i h1
    rw [e2] at h1
    simp only [List.length_append, List.length_cons] at h1
    have ht : t = [] := List.eq_nil_of_length_eq_zero (by omega)
    have hu : u = [] := List.eq_nil_of_length_eq_zero (by omega)
    subst ht hu
    simp only [mapCurs_nodes, flatten_append, List.append_nil, List.nil_append, true_and]
    rw [nodesOk_append]; exact ⟨hok.1, hok.2.2⟩
  · rename_i h1
    have he : lower.recs.eraseIdx idx = t ++ u := by
      rw [List.eraseIdx_eq_take_drop_succ, e2, take_mid hi, drop_mid hi]
    simp only [mapCurs_nodes, flatten_append, flatten_cons, he, List.append_assoc, true_and]
    rw [nodesOk_append, nodesOk_cons]
    have hlen := hok.2.1.2
    rw [e2] at h1 hlen
    simp only [List.length_append, List.length_cons] at h1 hlen
    refine ⟨hok.1, ⟨?_, ?_⟩, hok.2.2⟩
    · intro h0
      have := congrArg List.length h0
      simp only [List.length_append, List.length_nil] at this
      omega
    · simp only [List.length_append]; omega

theorem del_core (st : StrictTotal gt) (d : Db K V) (inv : NodeInv gt d.nodes) (k : K) :
    flatten (del gt d k).1.nodes = specDel gt (flatten d.nodes) k ∧ NodesOk (del gt d k).1.nodes ∧
    (del gt d k).2 = (specGet gt (flatten d.nodes) k).isSome := by
  cases hr : routeIdx gt k d.nodes with
  | zero =>
    have hlt := routeIdx_zero st inv hr
    have e1 := specGet_absent st (l1 := []) allGt_nil hlt
    have e2 := specDel_absent st (l1 := []) allGt_nil hlt
    rw [List.nil_append] at e1 e2
    rw [e1, e2]
    have : del gt d k = (d, false) := by simp only [del, hr, if_true]
    rw [this]
    exact ⟨rfl, inv.1, rfl⟩
  | succ r =>
    obtain ⟨pre, lower, post, e, hl, hg, hc⟩ := lower_split st inv hr
    have hn : d.nodes[r]? = some lower := by rw [e]; exact getElem?_mid hl
    have hf := flatten_split pre post lower (findPos gt k lower.recs)
    rw [← e] at hf
    rcases hc with ⟨h2, hp, _⟩ | ⟨av, rest, h2, h3, hp⟩
    · have : del gt d k = (d, false) := by
        simp only [del, hr, Nat.add_one_ne_zero, if_false, Nat.add_sub_cancel, hn, hp, Bool.not_false, if_true]
      rw [this, hf, specGet_absent st hg h2, specDel_absent st hg h2, ← hf]
      exact ⟨rfl, inv.1, rfl⟩
    · have : del gt d k = (delAt d r (findPos gt k lower.recs), true) := by
        simp only [del, hr, Nat.add_one_ne_zero, if_false, Nat.add_sub_cancel, hn, hp, Bool.not_true,
          Bool.false_eq_true]
      rw [this]
      have e2 : lower.recs = lower.recs.take (findPos gt k lower.recs) ++ (k, av) :: rest := by
        rw [← h2, List.take_append_drop]
      have hi : (lower.recs.take (findPos gt k lower.recs)).length = findPos gt k lower.recs := by
        have := congrArg List.length h2
        simp only [List.length_drop, List.length_cons] at this
        rw [List.length_take]; omega
      have := delAt_core st d inv e hl e2 hi
      refine ⟨this.1, this.2, ?_⟩
      rw [hf, h2, List.cons_append, specGet_present st av _ hg]
      rfl

/-! ### operation histories -/

/-- one call of the record API (the level is the one the skip-list generator draws for this call) -/
inductive Op (K V : Type) where
  | put (k : K) (v : V) (lvl : Nat)
  | putNoOverwrite (k : K) (v : V) (lvl : Nat)
  | del (k : K)
  | get (k : K)

/-- what a call reports -/
inductive Out (V : Type) where
  | put (o : PutOut) (old : Option V)
  | del (found : Bool)
  | get (v : Option V)

def stepNode (gt : K → K → Bool) (d : Db K V) : Op K V → Db K V × Out V
  | .put k v lvl => ((put gt d k v false lvl).1, .put (put gt d k v false lvl).2.1 (put gt d k v false lvl).2.2)
  | .putNoOverwrite k v lvl => ((put gt d k v true lvl).1, .put (put gt d k v true lvl).2.1 (put gt d k v true lvl).2.2)
  | .del k => ((del gt d k).1, .del (del gt d k).2)
  | .get k => (d, .get (get gt d k))

def stepSpec (gt : K → K → Bool) (m : List (K × V)) : Op K V → List (K × V) × Out V
  | .put k v _ => (specPut gt m k v, .put .ok (specGet gt m k))
  | .putNoOverwrite k v _ =>
    match specGet gt m k with
    | some ov => (m, .put .exists_ (some ov))
    | none => (specPut gt m k v, .put .ok none)
  | .del k => (specDel gt m k, .del (specGet gt m k).isSome)
  | .get k => (m, .get (specGet gt m k))

/-- run a history on the node model; returns the final state and every result -/
def runNode (gt : K → K → Bool) : Db K V → List (Op K V) → Db K V × List (Out V)
  | d, [] => (d, [])
  | d, op :: ops => ((runNode gt (stepNode gt d op).1 ops).1, (stepNode gt d op).2 :: (runNode gt (stepNode gt d op).1 ops).2)

/-- run a history on the ordered-map spec -/
def runSpec (gt : K → K → Bool) : List (K × V) → List (Op K V) → List (K × V) × List (Out V)
  | m, [] => (m, [])
  | m, op :: ops => ((runSpec gt (stepSpec gt m op).1 ops).1, (stepSpec gt m op).2 :: (runSpec gt (stepSpec gt m op).1 ops).2)

theorem step_refines (st : StrictTotal gt) (d : Db K V) (inv : NodeInv gt d.nodes) (op : Op K V) :
    (stepNode gt d op).2 = (stepSpec gt (flatten d.nodes) op).2 ∧
    flatten (stepNode gt d op).1.nodes = (stepSpec gt (flatten d.nodes) op).1 ∧
    NodeInv gt (stepNode gt d op).1.nodes := by
  cases op with
  | put k v lvl =>
    have h := put_core st d inv k v lvl _ rfl
    simp only [stepNode, stepSpec]
    refine ⟨by rw [h.2.2.1, h.2.2.2], h.1, h.2.1, ?_⟩
    rw [h.1]; exact desc_specPut st inv.2 k v
  | putNoOverwrite k v lvl =>
    simp only [stepNode, stepSpec]
    rw [← get_refines st d inv k]
    cases hg : get gt d k with
    | some ov =>
      rw [put_noOverwrite_present d k v lvl hg]
      exact ⟨rfl, rfl, inv⟩
    | none =>
      rw [put_noOverwrite_absent d k v lvl hg]
      have h := put_core st d inv k v lvl _ rfl
      rw [← get_refines st d inv k, hg] at h
      refine ⟨by rw [h.2.2.1, h.2.2.2], h.1, h.2.1, ?_⟩
      rw [h.1]; exact desc_specPut st inv.2 k v
  | del k =>
    have h := del_core st d inv k
    simp only [stepNode, stepSpec]
    refine ⟨by rw [h.2.2], h.1, h.2.1, ?_⟩
    rw [h.1]; exact desc_specDel st inv.2 k
  | get k =>
    simp only [stepNode, stepSpec]
    exact ⟨by rw [get_refines st d inv k], trivial, inv⟩

theorem run_refines (st : StrictTotal gt) (ops : List (Op K V)) (d : Db K V) (inv : NodeInv gt d.nodes) :
    (runNode gt d ops).2 = (runSpec gt (flatten d.nodes) ops).2 ∧
    flatten (runNode gt d ops).1.nodes = (runSpec gt (flatten d.nodes) ops).1 ∧
    NodeInv gt (runNode gt d ops).1.nodes := by
  induction ops generalizing d with
  | nil => exact ⟨rfl, rfl, inv⟩
  | cons op ops ih =>
    have hs := step_refines st d inv op
    have := ih (stepNode gt d op).1 hs.2.2
    simp only [runNode, runSpec]
    rw [← hs.2.1, hs.1.symm]
    exact ⟨by rw [this.1], this.2.1, this.2.2⟩

/-! ### cursors: scans -/

/-- iterate a cursor step function with fuel: the record under the cursor after every successful
    step, and whether the iteration ended because the step reported not-found (`true`) rather than
    because the fuel ran out (`false`) -/
def scan (d : Db K V) (step : CPos → CPos × Bool) : Nat → CPos → List (Option (K × V)) × Bool
  | 0, _ => ([], false)
  | n + 1, p =>
    if (step p).2 then (curRec d (step p).1 :: (scan d step n (step p).1).1, (scan d step n (step p).1).2)
    else ([], true)

theorem drop_of_getElem? {α : Type} {l : List α} {n : Nat} {x : α} (h : l[n]? = some x) :
    l.drop n = x :: l.drop (n + 1) := by
  induction l generalizing n with
  | nil => simp at h
  | cons a tl ih =>
    cases n with
    | zero => simp at h; subst h; simp
    | succ n => simp at h; simp; exact ih h

theorem take_succ_of_getElem? {α : Type} {l : List α} {n : Nat} {x : α} (h : l[n]? = some x) :
    l.take (n + 1) = l.take n ++ [x] := by
  rw [List.take_add_one, h]; rfl

theorem nodeLen_eq {d : Db K V} {i : Nat} {nd : Node K V} (h : d.nodes[i]? = some nd) :
    nodeLen d i = nd.recs.length := by
  simp [nodeLen, h]

theorem scan_next_at (d : Db K V) (hok : NodesOk d.nodes) (fuel : Nat) :
    ∀ (i j : Nat) (nd : Node K V), d.nodes[i]? = some nd → j < nd.recs.length →
      (nd.recs.drop (j + 1) ++ flatten (d.nodes.drop (i + 1))).length < fuel →
      scan d (curNext d) fuel (.at i j 0) =
        ((nd.recs.drop (j + 1) ++ flatten (d.nodes.drop (i + 1))).map some, true) := by
  induction fuel with
  | zero => intro i j nd _ _ h; omega
  | succ fuel ih =>
    intro i j nd hn hj hf
    have hs : ¬ ((0 : Int) > 0) := by omega
    simp only [scan, curNext, hs, if_false, nodeLen_eq hn]
    by_cases hlast : j + 1 ≥ nd.recs.length
    · simp only [hlast, if_true]
      have hd : nd.recs.drop (j + 1) = [] := List.drop_of_length_le hlast
      rw [hd, List.nil_append] at hf ⊢
      by_cases hi : i + 1 < d.nodes.length
      · simp only [hi, if_true]
        obtain ⟨nd', hn'⟩ : ∃ nd', d.nodes[i + 1]? = some nd' := ⟨_, List.getElem?_eq_getElem hi⟩
        have hne := (hok nd' (List.mem_of_getElem? hn')).1
        cases hr : nd'.recs with
        | nil => exact absurd hr hne
        | cons x tl =>
          rw [drop_of_getElem? hn', flatten_cons, hr] at hf ⊢
          have hrec : curRec d (.at (i + 1) 0 0) = some x := by simp [curRec, hn', hr]
          rw [hrec, ih (i + 1) 0 nd' hn' (by rw [hr]; simp)]
          · simp [hr]
          · simp only [hr, List.drop_succ_cons, List.drop_zero]
            simp only [List.cons_append, List.length_cons] at hf
            omega
      · simp only [hi, if_false]
        rw [List.drop_of_length_le (Nat.le_of_not_gt hi)]; rfl
    · simp only [hlast, if_false]
      have hj' : j + 1 < nd.recs.length := Nat.lt_of_not_ge hlast
      obtain ⟨x, hx⟩ : ∃ x, nd.recs[j + 1]? = some x := ⟨_, List.getElem?_eq_getElem hj'⟩
      have hrec : curRec d (.at i (j + 1) 0) = some x := by simp [curRec, hn, hx]
      rw [drop_of_getElem? hx] at hf ⊢
      rw [hrec, ih i (j + 1) nd hn hj']
      · simp
      · simp only [List.cons_append, List.length_cons] at hf; omega

/-- NEXT from before-first visits every record of the chain in order, then reports not-found -/
theorem scan_next_head (d : Db K V) (hok : NodesOk d.nodes) (fuel : Nat) (hf : (flatten d.nodes).length < fuel) :
    scan d (curNext d) fuel .head = ((flatten d.nodes).map some, true) := by
  cases fuel with
  | zero => omega
  | succ fuel =>
    cases hns : d.nodes with
    | nil => simp [scan, curNext, hns]
    | cons nd rest =>
      have hn : d.nodes[0]? = some nd := by simp [hns]
      have hne := (hok nd (List.mem_of_getElem? hn)).1
      cases hr : nd.recs with
      | nil => exact absurd hr hne
      | cons x tl =>
        have hrec : curRec d (.at 0 0 0) = some x := by simp [curRec, hn, hr]
        rw [hns, flatten_cons, hr] at hf
        simp only [scan, curNext, hns, List.isEmpty_cons, Bool.false_eq_true, if_false, if_true]
        rw [← hns, hrec, scan_next_at d hok fuel 0 0 nd hn (by rw [hr]; simp)]
        · simp [hns, hr]
        · simp only [hns, hr, List.drop_succ_cons, List.drop_zero]
          simp only [List.cons_append, List.length_cons] at hf
          omega

theorem scan_prev_at (d : Db K V) (hok : NodesOk d.nodes) (fuel : Nat) :
    ∀ (i j : Nat) (nd : Node K V), d.nodes[i]? = some nd → j < nd.recs.length →
      (flatten (d.nodes.take i) ++ nd.recs.take j).length < fuel →
      scan d (curPrev d) fuel (.at i j 0) =
        ((flatten (d.nodes.take i) ++ nd.recs.take j).reverse.map some, true) := by
  induction fuel with
  | zero => intro i j nd _ _ h; omega
  | succ fuel ih =>
    intro i j nd hn hj hf
    have hs : ¬ ((0 : Int) < 0) := by omega
    simp only [scan, curPrev, hs, if_false]
    cases j with
    | zero =>
      simp only [if_true, List.take_zero, List.append_nil] at hf ⊢
      cases i with
      | zero => simp
      | succ i =>
        simp only [Nat.add_one_ne_zero, if_false, Nat.add_sub_cancel, if_true]
        have hi : i < d.nodes.length := by
          have := (List.getElem?_eq_some_iff.1 hn).1; omega
        obtain ⟨nd', hn'⟩ : ∃ nd', d.nodes[i]? = some nd' := ⟨_, List.getElem?_eq_getElem hi⟩
        have hne := (hok nd' (List.mem_of_getElem? hn')).1
        have hpos : 0 < nd'.recs.length := List.length_pos_iff.2 hne
        have hL : nd'.recs.length - 1 < nd'.recs.length := by omega
        obtain ⟨x, hx⟩ : ∃ x, nd'.recs[nd'.recs.length - 1]? = some x := ⟨_, List.getElem?_eq_getElem hL⟩
        have hrec : curRec d (.at i (nd'.recs.length - 1) 0) = some x := by simp [curRec, hn', hx]
        have htk : nd'.recs = nd'.recs.take (nd'.recs.length - 1) ++ [x] := by
          have := take_succ_of_getElem? hx
          rw [Nat.sub_add_cancel hpos, List.take_length] at this
          exact this
        have hfl : flatten (d.nodes.take (i + 1)) =
            (flatten (d.nodes.take i) ++ nd'.recs.take (nd'.recs.length - 1)) ++ [x] := by
          rw [take_succ_of_getElem? hn', flatten_append, flatten_cons, flatten_nil, List.append_nil,
            List.append_assoc, ← htk]
        rw [hfl] at hf ⊢
        rw [nodeLen_eq hn', hrec, ih i (nd'.recs.length - 1) nd' hn' hL]
        · simp
        · simp only [List.length_append, List.length_cons, List.length_nil] at hf ⊢; omega
    | succ j =>
      simp only [Nat.add_one_ne_zero, if_false, Nat.add_sub_cancel, if_true]
      have hj' : j < nd.recs.length := by omega
      obtain ⟨x, hx⟩ : ∃ x, nd.recs[j]? = some x := ⟨_, List.getElem?_eq_getElem hj'⟩
      have hrec : curRec d (.at i j 0) = some x := by simp [curRec, hn, hx]
      rw [take_succ_of_getElem? hx, ← List.append_assoc] at hf ⊢
      rw [hrec, ih i j nd hn hj']
      · simp
      · simp only [List.length_append, List.length_cons, List.length_nil] at hf ⊢; omega

/-- PREV from after-last visits every record of the chain in reverse order, then reports not-found -/
theorem scan_prev_tail (d : Db K V) (hok : NodesOk d.nodes) (fuel : Nat) (hf : (flatten d.nodes).length < fuel) :
    scan d (curPrev d) fuel .tail = ((flatten d.nodes).reverse.map some, true) := by
  cases fuel with
  | zero => omega
  | succ fuel =>
    by_cases hns : d.nodes = []
    · simp [scan, curPrev, hns]
    · have hpos : 0 < d.nodes.length := List.length_pos_iff.2 hns
      have hi : d.nodes.length - 1 < d.nodes.length := by omega
      obtain ⟨nd, hn⟩ : ∃ nd, d.nodes[d.nodes.length - 1]? = some nd := ⟨_, List.getElem?_eq_getElem hi⟩
      have hne := (hok nd (List.mem_of_getElem? hn)).1
      have hpos' : 0 < nd.recs.length := List.length_pos_iff.2 hne
      have hL : nd.recs.length - 1 < nd.recs.length := by omega
      obtain ⟨x, hx⟩ : ∃ x, nd.recs[nd.recs.length - 1]? = some x := ⟨_, List.getElem?_eq_getElem hL⟩
      have hrec : curRec d (.at (d.nodes.length - 1) (nd.recs.length - 1) 0) = some x := by simp [curRec, hn, hx]
      have htk : nd.recs = nd.recs.take (nd.recs.length - 1) ++ [x] := by
        have := take_succ_of_getElem? hx
        rw [Nat.sub_add_cancel hpos', List.take_length] at this
        exact this
      have hfl : flatten d.nodes =
          (flatten (d.nodes.take (d.nodes.length - 1)) ++ nd.recs.take (nd.recs.length - 1)) ++ [x] := by
        have := take_succ_of_getElem? hn
        rw [Nat.sub_add_cancel hpos, List.take_length] at this
        conv => lhs; rw [this]
        rw [flatten_append, flatten_cons, flatten_nil, List.append_nil, List.append_assoc, ← htk]
      have hempty : d.nodes.isEmpty = false := by
        cases hd : d.nodes with
        | nil => exact absurd hd hns
        | cons a b => rfl
      rw [hfl] at hf ⊢
      simp only [scan, curPrev, hempty, Bool.false_eq_true, if_false, if_true]
      rw [nodeLen_eq hn, hrec, scan_prev_at d hok fuel _ _ nd hn hL]
      · simp
      · simp only [List.length_append, List.length_cons, List.length_nil] at hf ⊢; omega

/-! ### cursors: seek -/

/-- what a failed seek leaves: the same slot, `skip_next` cleared -/
def clearSkip : CPos → CPos
  | .at i j _ => .at i j 0
  | q => q

theorem findPos_le_length (k : K) (l : List (K × V)) : findPos gt k l ≤ l.length := by
  induction l with
  | nil => simp [findPos]
  | cons x tl ih =>
    obtain ⟨a, av⟩ := x
    simp only [findPos, List.length_cons]
    split <;> omega

theorem exists_split_of_getElem? {α : Type} {l : List α} {i : Nat} {x : α} (h : l[i]? = some x) :
    ∃ pre post, l = pre ++ x :: post ∧ pre.length = i := by
  refine ⟨l.take i, l.drop (i + 1), split_of_getElem? h, ?_⟩
  have := (List.getElem?_eq_some_iff.1 h).1
  rw [List.length_take]; omega

theorem set_mid {α : Type} {pre post : List α} {x y : α} {r : Nat} (h : pre.length = r) :
    (pre ++ x :: post).set r y = pre ++ y :: post := by
  subst h; simp

/-- seek: either the key routes nowhere / is absent (everything splits into above and below), or the
    seek lands on a record `x` that is not below `k` with only smaller records after it -/
theorem curSeek_core (st : StrictTotal gt) (d : Db K V) (inv : NodeInv gt d.nodes) (k : K) (ge : Bool) (p : CPos) :
    (curSeek gt d k ge p = (clearSkip p, false) ∧
      ((AllLt gt k (flatten d.nodes)) ∨
       (ge = false ∧ ∃ l1 l2, flatten d.nodes = l1 ++ l2 ∧ AllGt gt k l1 ∧ AllLt gt k l2))) ∨
    (∃ i j l1 x l2, curSeek gt d k ge p = (.at i j 0, true) ∧ curRec d (.at i j 0) = some x ∧
      flatten d.nodes = l1 ++ x :: l2 ∧ AllGt gt k l1 ∧ AllLt gt k l2 ∧
      (x.1 = k ∨ (ge = true ∧ gt x.1 k = true))) := by
  cases hr : routeIdx gt k d.nodes with
  | zero =>
    left
    refine ⟨?_, Or.inl (routeIdx_zero st inv hr)⟩
    simp only [curSeek, hr, if_true]
    cases p <;> rfl
  | succ r =>
    obtain ⟨pre, lower, post, e, hl, hg, hc⟩ := lower_split st inv hr
    have hn : d.nodes[r]? = some lower := by rw [e]; exact getElem?_mid hl
    have hf := flatten_split pre post lower (findPos gt k lower.recs)
    rw [← e] at hf
    rcases hc with ⟨h2, hp, h1⟩ | ⟨av, rest, h2, h3, hp⟩
    · cases ge with
      | false =>
        left
        refine ⟨?_, Or.inr ⟨rfl, _, _, hf, hg, h2⟩⟩
        simp only [curSeek, hr, Nat.add_one_ne_zero, if_false, Nat.add_sub_cancel, hn, hp,
          Bool.false_eq_true, Bool.not_false, if_true]
        cases p <;> rfl
      | true =>
        right
        have hle := findPos_le_length (gt := gt) k lower.recs
        generalize findPos gt k lower.recs = i at *
        have hi : i - 1 < lower.recs.length := by omega
        obtain ⟨x, hx⟩ : ∃ x, lower.recs[i - 1]? = some x := ⟨_, List.getElem?_eq_getElem hi⟩
        have htk : lower.recs.take i = lower.recs.take (i - 1) ++ [x] := by
          have := take_succ_of_getElem? hx
          rwa [Nat.sub_add_cancel h1] at this
        refine ⟨r, i - 1, flatten pre ++ lower.recs.take (i - 1), x, lower.recs.drop i ++ flatten post,
          ?_, ?_, ?_, ?_, h2, Or.inr ⟨rfl, ?_⟩⟩
        · have hne : ¬ i = 0 := by omega
          simp only [curSeek, hr, Nat.add_one_ne_zero, if_false, Nat.add_sub_cancel, hn, hp, hne,
            Bool.false_eq_true, Bool.not_true]
        · simp [curRec, hn, hx]
        · rw [hf, htk]; simp only [List.append_assoc, List.cons_append, List.nil_append]
        · rw [htk, ← List.append_assoc, allGt_append] at hg; exact hg.1
        · rw [htk, ← List.append_assoc, allGt_append] at hg
          exact hg.2 x (List.mem_cons_self ..)
    · right
      refine ⟨r, findPos gt k lower.recs, flatten pre ++ lower.recs.take (findPos gt k lower.recs), (k, av),
        rest ++ flatten post, ?_, ?_, ?_, hg, h3, Or.inl rfl⟩
      · simp only [curSeek, hr, Nat.add_one_ne_zero, if_false, Nat.add_sub_cancel, hn, hp, if_true]
      · simp [curRec, hn, (getElem?_of_drop h2).1]
      · rw [hf, h2]; simp only [List.append_assoc, List.cons_append]

/-! ### cursors: writes through a position -/

/-- a record under a cursor, with the chain and the node split around it -/
theorem curRec_split {d : Db K V} {p : CPos} {x : K × V} (h : curRec d p = some x) :
    ∃ i j s pre lower post t u, p = .at i j s ∧ d.nodes = pre ++ lower :: post ∧ pre.length = i ∧
      lower.recs = t ++ x :: u ∧ t.length = j := by
  cases p with
  | head => simp [curRec] at h
  | tail => simp [curRec] at h
  | void => simp [curRec] at h
  | «at» i j s =>
    simp only [curRec] at h
    cases hn : d.nodes[i]? with
    | none => simp [hn] at h
    | some lower =>
      rw [hn] at h
      simp only [Option.bind_some] at h
      obtain ⟨pre, post, e, hl⟩ := exists_split_of_getElem? hn
      obtain ⟨t, u, e2, hl2⟩ := exists_split_of_getElem? h
      exact ⟨i, j, s, pre, lower, post, t, u, rfl, e, hl, e2, hl2⟩

theorem curSet_core (st : StrictTotal gt) (d : Db K V) (inv : NodeInv gt d.nodes) (p : CPos) (v : V)
    {k : K} {ov : V} (h : curRec d p = some (k, ov)) :
    flatten (curSet d p v).nodes = specPut gt (flatten d.nodes) k v ∧ NodesOk (curSet d p v).nodes := by
  obtain ⟨i, j, s, pre, lower, post, t, u, rfl, e, hl, e2, hl2⟩ := curRec_split h
  obtain ⟨nodes, curs⟩ := d
  simp only at inv e h ⊢
  subst e
  have hok := inv.1
  rw [nodesOk_append, nodesOk_cons] at hok
  have hf : flatten (pre ++ lower :: post) = (flatten pre ++ t) ++ (k, ov) :: (u ++ flatten post) := by
    rw [flatten_append, flatten_cons, e2]; simp only [List.append_assoc, List.cons_append]
  have hd := inv.2
  rw [hf] at hd
  rw [hf, specPut_present st v ov _ (desc_mid hd).1]
  have hr : lower.recs[j]? = some (k, ov) := by rw [e2]; exact getElem?_mid hl2
  simp only [curSet, getElem?_mid hl, hr, set_mid hl]
  rw [e2, set_mid hl2]
  simp only [flatten_append, flatten_cons, List.append_assoc, List.cons_append, true_and]
  rw [nodesOk_append, nodesOk_cons]
  refine ⟨hok.1, ⟨by simp, ?_⟩, hok.2.2⟩
  have := hok.2.1.2
  rw [e2] at this
  simpa using this

theorem curDel_core (st : StrictTotal gt) (d : Db K V) (inv : NodeInv gt d.nodes) (p : CPos)
    {k : K} {ov : V} (h : curRec d p = some (k, ov)) :
    flatten (curDel d p).nodes = specDel gt (flatten d.nodes) k ∧ NodesOk (curDel d p).nodes := by
  obtain ⟨i, j, s, pre, lower, post, t, u, rfl, e, hl, e2, hl2⟩ := curRec_split h
  have : curDel d (.at i j s) = delAt d i j := by simp [curDel, h]
  rw [this]
  exact delAt_core st d inv e hl e2 hl2

end

/-! ### a concrete instance (used by the non-vacuity examples of the property files) -/

/-- `>` on naturals is a strict total order in the sense used here -/
theorem natGt_strictTotal : StrictTotal (fun a b : Nat => decide (a > b)) :=
  ⟨by intro a; simp, by intro a b c; simp; omega, by intro a b; simp; omega⟩

/-- a two-node chain with an open cursor -/
def exDb : Db Nat String := ⟨[⟨1, [(9, "i"), (7, "g")]⟩, ⟨0, [(4, "d")]⟩], [(1, .at 0 1 0)]⟩

theorem exDb_inv : NodeInv (fun a b : Nat => decide (a > b)) exDb.nodes := by
  refine ⟨?_, ?_⟩
  · intro n hn
    simp [exDb] at hn
    rcases hn with rfl | rfl <;> simp [cap]
  · simp [Desc, exDb, flatten]

end IwModel.Kv
