import IwModel.Lemmas.BinnRoundtrip
import IwModel.Model.BinnPrint
/-! The binary-form printer on the writer's output prints what the tree printer prints (indent 1). -/
namespace IwModel.BinnPrint
open IwModel.Gen.Binn IwModel.Binn

mutual
  theorem printBinn_view (L : Leaf) (pretty : Bool) (v : JVal) (fuel lvl : Nat) (bs : Bytes) (hw : wf v = true)
      (he : enc v = some bs) (hs : bs.length + 9 < 2 ^ 31) (hd : depth v < fuel) :
      printBinn L pretty fuel lvl (viewOf v) = printTree L pretty 1 lvl v := by
    match v with
    | .null => cases fuel <;> simp [viewOf, printBinn, printTree]
    | .bool _ => cases fuel <;> simp [viewOf, printBinn, printTree]
    | .int i =>
      simp only [wf, decide_eq_true_eq] at hw
      cases fuel <;> simp [viewOf, printBinn, printTree, wrap64_id i hw]
    | .f64 b =>
      simp only [wf, decide_eq_true_eq] at hw
      cases fuel <;> simp [viewOf, printBinn, printTree, Nat.mod_eq_of_lt hw]
    | .str s =>
      simp only [wf] at hw
      cases fuel <;> simp [viewOf, printBinn, printTree, cstr_id s (all_ne_zero s hw)]
    | .arr xs =>
      simp only [wf] at hw
      have hv : viewOf (.arr xs) = .cont bs := by simp [viewOf, he]
      simp only [enc, Option.map_eq_some_iff] at he
      obtain ⟨body, hb, rfl⟩ := he
      have hlen := encList_length xs body hb
      have hcl := container_length BINN_LIST xs.length body
      obtain ⟨h, hi, hty, hcnt⟩ := iterInit_container BINN_LIST xs.length body (Or.inl rfl) (by omega) (by omega)
      match fuel with
      | 0 => simp [depth] at hd
      | f + 1 =>
        simp only [depth] at hd
        rw [hv]
        simp only [printBinn, hi, hty, hcnt, if_true, printTree]
        rw [listItems_encList xs body hb (by omega),
          printBinnList_view L pretty xs f lvl xs.length 0 body hw hb (by omega) (by omega) (by simp)]
        cases xs <;> simp
    | .obj ms =>
      simp only [wf] at hw
      have hv : viewOf (.obj ms) = .cont bs := by simp [viewOf, he]
      simp only [enc, Option.map_eq_some_iff] at he
      obtain ⟨body, hb, rfl⟩ := he
      have hlen := encMembers_length [] ms body hb
      have hcl := container_length BINN_OBJECT ms.length body
      obtain ⟨h, hi, hty, hcnt⟩ := iterInit_container BINN_OBJECT ms.length body (Or.inr rfl) (by omega) (by omega)
      match fuel with
      | 0 => simp [depth] at hd
      | f + 1 =>
        simp only [depth] at hd
        rw [hv]
        have hne : ¬ (BINN_OBJECT = BINN_LIST) := by decide
        simp only [printBinn, hi, hty, hcnt, if_true, if_neg hne, printTree]
        rw [objItems_encMembers [] ms body hb (by omega),
          printBinnObj_view L pretty [] ms f lvl ms.length 0 body hw hb (by omega) (by omega) (by simp)]
        cases ms <;> simp
  theorem printBinnList_view (L : Leaf) (pretty : Bool) (xs : List JVal) (f lvl count i : Nat) (body : Bytes)
      (hw : wfList xs = true) (he : encList xs = some body) (hs : body.length + 9 < 2 ^ 31)
      (hd : depthList xs < f) (hc : count = i + xs.length) :
      printBinnList L pretty f lvl count i (xs.map viewOf) = printTreeArr L pretty 1 lvl xs := by
    match xs with
    | [] => simp [printBinnList, printTreeArr]
    | x :: xs =>
      simp only [wfList, Bool.and_eq_true] at hw
      unfold encList at he
      split at he
      · rename_i a b ha hb
        simp only [Option.some.injEq] at he; subst he
        simp only [List.length_append] at hs
        simp only [depthList] at hd
        simp only [List.map_cons, printBinnList, printTreeArr]
        rw [printBinn_view L pretty x f (lvl + 1) a hw.1 ha (by omega) (by omega),
          printBinnList_view L pretty xs f lvl count (i + 1) b hw.2 hb (by omega) (by omega) (by simp at hc; omega)]
        have hcomma : (i + 1 < count) = ((!xs.isEmpty) = true) := by
          cases xs <;> simp at hc ⊢ <;> omega
        simp only [hcomma, Nat.mul_one]
      · simp at he
  theorem printBinnObj_view (L : Leaf) (pretty : Bool) (seen : List Bytes) (ms : List (Bytes × JVal))
      (f lvl count i : Nat) (body : Bytes)
      (hw : wfMembers seen ms = true) (he : encMembers seen ms = some body) (hs : body.length + 9 < 2 ^ 31)
      (hd : depthMembers ms < f) (hc : count = i + ms.length) :
      printBinnObj L pretty f lvl count i (ms.map fun m => (m.1, viewOf m.2)) = printTreeObj L pretty 1 lvl ms := by
    match ms with
    | [] => simp [printBinnObj, printTreeObj]
    | (k, v) :: ms =>
      simp only [wfMembers, Bool.and_eq_true] at hw
      obtain ⟨⟨⟨⟨_, hk⟩, _⟩, hv⟩, hm⟩ := hw
      unfold encMembers at he
      split at he
      · simp at he
      · rename_i a ha
        split at he
        · simp at he
        · split at he
          · simp at he
          · rename_i b hb
            simp only [Option.some.injEq] at he; subst he
            simp only [List.length_cons, List.length_append] at hs
            simp only [depthMembers] at hd
            simp only [List.map_cons, printBinnObj, printTreeObj]
            rw [printBinn_view L pretty v f (lvl + 1) a hv ha (by omega) (by omega),
              printBinnObj_view L pretty (k :: seen) ms f lvl count (i + 1) b hm hb (by omega) (by omega)
                (by simp at hc; omega)]
            have hcomma : (i + 1 < count) = ((!ms.isEmpty) = true) := by
              cases ms <;> simp at hc ⊢ <;> omega
            simp only [hcomma, Nat.mul_one, cstr_id k (all_ne_zero k hk)]
end

end IwModel.BinnPrint
