import IwModel.Model.SoftF64
/-! Facts about the soft float `Model/SoftF64.lean`: rounding depends only on the rational value, is the identity on
representable values, monotone, and within half a unit of the binade it lands in.  Core tactics only. -/
namespace IwModel.SoftF64

/-! ### `rne` -/

theorem rne_exact (q d : Nat) (hd : 0 < d) : rne (q * d) d = q := by
  unfold rne
  have h1 : q * d / d = q := Nat.mul_div_cancel q hd
  have h2 : q * d % d = 0 := Nat.mul_mod_left q d
  simp only [h1, h2]
  rw [if_neg (by omega)]

theorem rne_scale (n d c : Nat) (hc : 0 < c) : rne (n * c) (d * c) = rne n d := by
  unfold rne
  simp only [Nat.mul_div_mul_right n d hc, Nat.mul_mod_mul_right]
  have e1 : 2 * (n % d * c) = (2 * (n % d)) * c := by rw [Nat.mul_assoc]
  have a1 : (2 * (n % d * c) > d * c) ↔ (2 * (n % d) > d) := by
    rw [e1]; exact ⟨fun h => Nat.lt_of_mul_lt_mul_right h, fun h => Nat.mul_lt_mul_of_pos_right h hc⟩
  have a2 : (2 * (n % d * c) = d * c) ↔ (2 * (n % d) = d) := by
    rw [e1]; exact ⟨fun h => Nat.eq_of_mul_eq_mul_right hc h, fun h => by rw [h]⟩
  simp only [a1, a2]

/-- `rne` is within half a unit -/
theorem rne_near (n d : Nat) (hd : 0 < d) :
    2 * (rne n d * d) ≤ 2 * n + d ∧ 2 * n ≤ 2 * (rne n d * d) + d := by
  have hdm := Nat.div_add_mod n d
  have hlt := Nat.mod_lt n hd
  unfold rne
  generalize n / d = q at *
  generalize n % d = r at *
  have hqd : d * q = q * d := Nat.mul_comm _ _
  generalize hqd' : q * d = qd at *
  by_cases hc : 2 * r > d ∨ 2 * r = d ∧ q % 2 = 1
  · simp only [hc, ↓reduceIte]; rw [Nat.add_mul, hqd']; omega
  · simp only [hc, ↓reduceIte]; rw [hqd']; omega

/-- lower bound: at least `m` once the value is at least `m` -/
theorem le_rne (n d m : Nat) (hd : 0 < d) (h : m * d ≤ n) : m ≤ rne n d := by
  have hq : m ≤ n / d := (Nat.le_div_iff_mul_le hd).mpr h
  unfold rne
  simp only
  split <;> omega

/-- upper bound: at most `m` when the value is at most `m` -/
theorem rne_le (n d m : Nat) (hd : 0 < d) (h : n ≤ m * d) : rne n d ≤ m := by
  unfold rne
  simp only
  by_cases he : n = m * d
  · subst he
    have h1 : m * d / d = m := Nat.mul_div_cancel m hd
    have h2 : m * d % d = 0 := Nat.mul_mod_left m d
    rw [h1, h2, if_neg (by omega)]; exact Nat.le_refl _
  · have hlt : n < m * d := by omega
    have hq : n / d < m := (Nat.div_lt_iff_lt_mul hd).mpr hlt
    split <;> omega

theorem rne_mono (n n' d : Nat) (hd : 0 < d) (h : n ≤ n') : rne n d ≤ rne n' d := by
  -- q = n / d, q' = n' / d; if q < q' then rne n d ≤ q + 1 ≤ q' ≤ rne n' d
  have hq : n / d ≤ n' / d := Nat.div_le_div_right h
  have hdm := Nat.div_add_mod n d
  have hdm' := Nat.div_add_mod n' d
  have hlt := Nat.mod_lt n hd
  have hlt' := Nat.mod_lt n' hd
  unfold rne
  simp only
  by_cases hqq : n / d = n' / d
  · rw [← hqq] at hdm' ⊢
    have hr : n % d ≤ n' % d := by omega
    split <;> split <;> omega
  · split <;> split <;> omega

/-! ### the binade -/

/-- `t` is the binade of `n / d`: either `2^(t+52) ≤ n/d < 2^(t+53)`, or `t = 0` and `n/d < 2^52` (subnormal range) -/
def Binade (n d t : Nat) : Prop := (d * 2 ^ (t + 52) ≤ n ∧ n < d * 2 ^ (t + 53)) ∨ (t = 0 ∧ n < d * 2 ^ 52)

theorem two_pow_pos (k : Nat) : 0 < 2 ^ k := Nat.pow_pos (by decide)

theorem pow_lt_of (a b : Nat) (h : 2 ^ a < 2 ^ b) : a < b := (Nat.pow_lt_pow_iff_right (by decide)).mp h

theorem binade_unique (n d t t' : Nat) (hd : 0 < d) (h : Binade n d t) (h' : Binade n d t') : t = t' := by
  have key : ∀ a b, d * 2 ^ (a + 52) ≤ n → n < d * 2 ^ (b + 53) → a < b + 1 := by
    intro a b h1 h2
    have : d * 2 ^ (a + 52) < d * 2 ^ (b + 53) := Nat.lt_of_le_of_lt h1 h2
    have := pow_lt_of _ _ ((Nat.mul_lt_mul_left hd).mp this)
    omega
  have key0 : ∀ a, d * 2 ^ (a + 52) ≤ n → n < d * 2 ^ 52 → False := by
    intro a h1 h2
    have : d * 2 ^ (a + 52) < d * 2 ^ 52 := Nat.lt_of_le_of_lt h1 h2
    have := pow_lt_of _ _ ((Nat.mul_lt_mul_left hd).mp this)
    omega
  rcases h with ⟨h1, h2⟩ | ⟨rfl, h2⟩ <;> rcases h' with ⟨h1', h2'⟩ | ⟨rfl, h2'⟩
  · have := key t t' h1 h2'; have := key t' t h1' h2; omega
  · exact (key0 t h1 h2').elim
  · exact (key0 t' h1' h2).elim
  · rfl

theorem rexp_binade (n d : Nat) (hd : 0 < d) : Binade n d (rexp n d) := by
  by_cases hn : n = 0
  · subst hn
    have hp : 0 < d * 2 ^ 52 := Nat.mul_pos hd (two_pow_pos _)
    have hl : Nat.log2 0 = 0 := by decide
    have h0 : ¬ d * 2 ^ (0 - d.log2 - 52 + 52) ≤ 0 := by
      have : 0 < d * 2 ^ (0 - d.log2 - 52 + 52) := Nat.mul_pos hd (two_pow_pos _)
      omega
    unfold rexp Binade
    simp only [hl, h0, ↓reduceIte]
    right; exact ⟨by omega, hp⟩
  have ha1 : 2 ^ n.log2 ≤ n := Nat.log2_self_le hn
  have ha2 : n < 2 ^ (n.log2 + 1) := Nat.lt_log2_self
  have hb1 : 2 ^ d.log2 ≤ d := Nat.log2_self_le (by omega)
  have hb2 : d < 2 ^ (d.log2 + 1) := Nat.lt_log2_self
  unfold rexp Binade
  generalize n.log2 = a at *
  generalize d.log2 = b at *
  simp only
  by_cases hsub : n < d * 2 ^ 52
  · -- subnormal range: a ≤ b + 52, so t0 = 0 and the test fails
    have hlt : 2 ^ a < 2 ^ (b + 1 + 52) := by
      rw [Nat.pow_add 2 (b + 1) 52]
      exact Nat.lt_of_le_of_lt ha1 (Nat.lt_of_lt_of_le hsub (Nat.mul_le_mul_right _ (Nat.le_of_lt hb2)))
    have := pow_lt_of _ _ hlt
    have ht0 : a - b - 52 = 0 := by omega
    rw [ht0]
    have : ¬ d * 2 ^ (0 + 52) ≤ n := by simpa using hsub
    rw [if_neg this]
    right; exact ⟨by omega, hsub⟩
  · have hge : d * 2 ^ 52 ≤ n := by omega
    have hlt : 2 ^ (b + 52) < 2 ^ (a + 1) := by
      rw [Nat.pow_add 2 b 52]
      exact Nat.lt_of_le_of_lt (Nat.le_trans (Nat.mul_le_mul_right _ hb1) hge) ha2
    have hab := pow_lt_of _ _ hlt
    obtain ⟨t0, ht0⟩ : ∃ t0, a = b + 52 + t0 := ⟨a - b - 52, by omega⟩
    have e0 : a - b - 52 = t0 := by omega
    rw [e0]
    left
    by_cases hc : d * 2 ^ (t0 + 52) ≤ n
    · rw [if_pos hc]
      refine ⟨hc, ?_⟩
      -- n < 2^(a+1) = 2^b * 2^(t0+53) ≤ d * 2^(t0+53)
      have e1 : 2 ^ (a + 1) = 2 ^ b * 2 ^ (t0 + 53) := by rw [← Nat.pow_add]; congr 1; omega
      rw [e1] at ha2
      exact Nat.lt_of_lt_of_le ha2 (Nat.mul_le_mul_right _ hb1)
    · rw [if_neg hc]
      have ht1 : 1 ≤ t0 := by
        by_cases h0 : t0 = 0
        · subst h0; simp only [Nat.zero_add] at hc; omega
        · omega
      obtain ⟨t1, rfl⟩ : ∃ t1, t0 = t1 + 1 := ⟨t0 - 1, by omega⟩
      have e2 : t1 + 1 - 1 = t1 := by omega
      rw [e2]
      refine ⟨?_, ?_⟩
      · -- d * 2^(t1+52) < 2^(b+1) * 2^(t1+52) = 2^a ≤ n
        have e1 : 2 ^ a = 2 ^ (b + 1) * 2 ^ (t1 + 52) := by rw [← Nat.pow_add]; congr 1; omega
        rw [e1] at ha1
        exact Nat.le_trans (Nat.mul_le_mul_right _ (Nat.le_of_lt hb2)) ha1
      · have e3 : t1 + 53 = t1 + 1 + 52 := by omega
        rw [e3]; omega

theorem rexp_eq (n d t : Nat) (hd : 0 < d) (h : Binade n d t) : rexp n d = t :=
  binade_unique n d _ _ hd (rexp_binade n d hd) h

theorem binade_scale (n d c t : Nat) (hc : 0 < c) (h : Binade n d t) : Binade (n * c) (d * c) t := by
  unfold Binade at *
  rcases h with ⟨h1, h2⟩ | ⟨h0, h2⟩
  · left
    refine ⟨?_, ?_⟩
    · rw [Nat.mul_right_comm]; exact Nat.mul_le_mul_right _ h1
    · rw [Nat.mul_right_comm d c]; exact Nat.mul_lt_mul_of_pos_right h2 hc
  · right
    refine ⟨h0, ?_⟩
    rw [Nat.mul_right_comm d c]; exact Nat.mul_lt_mul_of_pos_right h2 hc

theorem rexp_scale (n d c : Nat) (hd : 0 < d) (hc : 0 < c) : rexp (n * c) (d * c) = rexp n d :=
  rexp_eq _ _ _ (Nat.mul_pos hd hc) (binade_scale n d c _ hc (rexp_binade n d hd))

/-- rounding depends only on the rational value `n / d` -/
theorem roundMag_scale (n d c : Nat) (hd : 0 < d) (hc : 0 < c) : roundMag (n * c) (d * c) = roundMag n d := by
  unfold roundMag
  simp only [rexp_scale n d c hd hc, Nat.mul_right_comm d c, rne_scale n _ c hc]

/-! ### decoding -/

theorem p52 : (2 : Nat) ^ 52 = 4503599627370496 := by decide
theorem p53 : (2 : Nat) ^ 53 = 9007199254740992 := by decide
theorem p63 : (2 : Nat) ^ 63 = 9223372036854775808 := by decide
theorem p51 : (2 : Nat) ^ 51 = 2251799813685248 := by decide

/-- non-negative and finite -/
def Fin (a : Nat) : Prop := a < infBits
/-- non-negative, finite or `+inf` (not a NaN) -/
def Pos (a : Nat) : Prop := a ≤ infBits

theorem Fin.pos {a : Nat} (h : Fin a) : Pos a := Nat.le_of_lt h

theorem expOf_of_lt (a : Nat) (h : a < 2 ^ 63) : expOf a = a / 2 ^ 52 := by
  unfold expOf; rw [p52]; rw [p63] at h; omega

theorem isNeg_of_lt (a : Nat) (h : a < 2 ^ 63) : isNeg a = false := by
  unfold isNeg; rw [p63] at *
  have : a / 9223372036854775808 = 0 := Nat.div_eq_of_lt h
  simp [this]

theorem split_bits (a : Nat) : a = a / 2 ^ 52 * 2 ^ 52 + manOf a := by
  unfold manOf; rw [p52]; omega

theorem Pos.lt63 {a : Nat} (h : Pos a) : a < 2 ^ 63 := by
  unfold Pos infBits at h; rw [p63]; omega

theorem Pos.notNaN {a : Nat} (h : Pos a) : isNaN a = false := by
  have h63 := h.lt63
  unfold isNaN
  rw [expOf_of_lt a h63]
  unfold Pos infBits at h
  unfold manOf
  rw [p52]
  by_cases he : a / 4503599627370496 = 2047
  · have : a % 4503599627370496 = 0 := by omega
    simp [this]
  · simp [he]

theorem Pos.notNeg {a : Nat} (h : Pos a) : isNeg a = false := isNeg_of_lt a h.lt63

theorem Fin.exp_lt {a : Nat} (h : Fin a) : expOf a < 2047 := by
  rw [expOf_of_lt a h.pos.lt63]; unfold Fin infBits at h; rw [p52]; omega

theorem Fin.notInf {a : Nat} (h : Fin a) : isInf a = false := by
  have := h.exp_lt
  unfold isInf
  simp [show expOf a ≠ 2047 by omega]

theorem Pos.fin_or_inf {a : Nat} (h : Pos a) : Fin a ∨ a = infBits := by
  unfold Pos at h; unfold Fin; omega

theorem isInf_infBits : isInf infBits = true := by decide
theorem mag_inf_ne : mag infBits ≠ 0 := by
  unfold mag; exact Nat.ne_of_gt (Nat.mul_pos (by decide : 0 < sig infBits) (two_pow_pos _))

/-- rounding is the identity on representable values -/
theorem roundMag_repr (a c : Nat) (h : Fin a) (hc : 0 < c) : roundMag (mag a * c) c = a := by
  have h1 : roundMag (mag a * c) c = roundMag (mag a) 1 := by
    have := roundMag_scale (mag a) 1 c (by decide) hc
    rwa [Nat.one_mul] at this
  rw [h1]
  have he := expOf_of_lt a h.pos.lt63
  have hlt := h.exp_lt
  have hsp := split_bits a
  have hm : manOf a < 2 ^ 52 := Nat.mod_lt _ (two_pow_pos _)
  unfold mag sig ex
  rw [he] at *
  generalize a / 2 ^ 52 = e at *
  generalize manOf a = m at *
  by_cases h0 : e = 0
  · subst h0
    simp only [↓reduceIte, Nat.zero_sub, Nat.pow_zero, Nat.mul_one]
    have hb : rexp m 1 = 0 := rexp_eq m 1 0 (by decide) (Or.inr ⟨rfl, by omega⟩)
    unfold roundMag
    simp only [hb, Nat.zero_mul, Nat.zero_add, Nat.pow_zero, Nat.mul_one]
    have := rne_exact m 1 (by decide)
    rw [Nat.mul_one] at this
    rw [this]
    unfold Fin at h
    rw [if_neg (by omega)]; omega
  · obtain ⟨t, rfl⟩ : ∃ t, e = t + 1 := ⟨e - 1, by omega⟩
    simp only [show t + 1 ≠ 0 by omega, ↓reduceIte, Nat.add_sub_cancel]
    have hb : rexp ((m + 2 ^ 52) * 2 ^ t) 1 = t := by
      apply rexp_eq _ _ _ (by decide)
      left
      rw [Nat.one_mul, Nat.one_mul]
      refine ⟨?_, ?_⟩
      · rw [Nat.add_comm t 52, Nat.pow_add]; exact Nat.mul_le_mul_right _ (by omega)
      · rw [Nat.add_comm t 53, Nat.pow_add]
        exact Nat.mul_lt_mul_of_pos_right (by rw [p53]; rw [p52] at hm ⊢; omega) (two_pow_pos _)
    unfold roundMag
    simp only [hb, Nat.one_mul]
    rw [rne_exact _ _ (two_pow_pos _)]
    unfold Fin at h
    have : t * 2 ^ 52 + (m + 2 ^ 52) = a := by rw [hsp, Nat.add_mul]; omega
    rw [this, if_neg (by omega)]

/-! ### integers -/

theorem decode_of (e m : Nat) (he : e < 2047) (hm : m < 2 ^ 52) :
    Fin (e * 2 ^ 52 + m) ∧ expOf (e * 2 ^ 52 + m) = e ∧ manOf (e * 2 ^ 52 + m) = m := by
  rw [p52] at *
  refine ⟨by unfold Fin infBits; omega, ?_, ?_⟩
  · unfold expOf; rw [p52]; omega
  · unfold manOf; rw [p52]; omega

/-- small integers are representable: `(double) v` is finite and has the value `v` -/
theorem ofNat_spec (v : Nat) (hv : v < 2 ^ 53) : Fin (ofNat v) ∧ mag (ofNat v) = v * unit := by
  suffices h : ∃ enc, Fin enc ∧ mag enc = v * unit by
    obtain ⟨enc, h1, h2⟩ := h
    have := roundMag_repr enc 1 h1 (by decide)
    rw [Nat.mul_one, h2] at this
    unfold ofNat
    rw [this]; exact ⟨h1, h2⟩
  by_cases h0 : v = 0
  · subst h0
    exact ⟨0, by unfold Fin infBits; decide, by simp [mag, sig, ex, expOf, manOf]⟩
  have ha1 : 2 ^ v.log2 ≤ v := Nat.log2_self_le h0
  have ha2 : v < 2 ^ (v.log2 + 1) := Nat.lt_log2_self
  generalize v.log2 = L at *
  have hL : L < 53 := pow_lt_of _ _ (Nat.lt_of_le_of_lt ha1 hv)
  have e3 : 52 - L + (L + 1022) = 1074 := by omega
  have hs1 : 2 ^ 52 ≤ v * 2 ^ (52 - L) := by
    have : 2 ^ 52 = 2 ^ L * 2 ^ (52 - L) := by rw [← Nat.pow_add]; congr 1; omega
    rw [this]; exact Nat.mul_le_mul_right _ ha1
  have hs2 : v * 2 ^ (52 - L) < 2 ^ 53 := by
    have : 2 ^ 53 = 2 ^ (L + 1) * 2 ^ (52 - L) := by rw [← Nat.pow_add]; congr 1; omega
    rw [this]; exact Nat.mul_lt_mul_of_pos_right ha2 (two_pow_pos _)
  generalize hs : v * 2 ^ (52 - L) = s at *
  have hd := decode_of (L + 1023) (s - 2 ^ 52) (by omega) (by rw [p52, p53] at *; omega)
  refine ⟨(L + 1023) * 2 ^ 52 + (s - 2 ^ 52), hd.1, ?_⟩
  unfold mag sig ex
  rw [hd.2.1, hd.2.2, if_neg (by omega)]
  have e1 : s - 2 ^ 52 + 2 ^ 52 = s := Nat.sub_add_cancel hs1
  have e2 : L + 1023 - 1 = L + 1022 := rfl
  rw [e1, e2, ← hs, Nat.mul_assoc, ← Nat.pow_add, e3]
  rfl

theorem ofNat_fin (v : Nat) (hv : v < 2 ^ 53) : Fin (ofNat v) := (ofNat_spec v hv).1
theorem mag_ofNat (v : Nat) (hv : v < 2 ^ 53) : mag (ofNat v) = v * unit := (ofNat_spec v hv).2

theorem unit_pos : 0 < unit := two_pow_pos _

/-- the product of two small integers is computed as the rounding of the exact product -/
theorem mul_ofNat (a b : Nat) (ha : a < 2 ^ 53) (hb : b < 2 ^ 53) : mul (ofNat a) (ofNat b) = ofNat (a * b) := by
  have fa := ofNat_fin a ha
  have fb := ofNat_fin b hb
  unfold mul
  simp only [fa.pos.notNaN, fb.pos.notNaN, fa.notInf, fb.notInf, fa.pos.notNeg, fb.pos.notNeg, Bool.false_eq_true,
    ↓reduceIte, false_or, bne_self_eq_false, signBit, Nat.zero_add, mag_ofNat a ha, mag_ofNat b hb]
  have : a * unit * (b * unit) = a * b * unit * unit := by
    rw [Nat.mul_assoc, Nat.mul_left_comm unit b unit, ← Nat.mul_assoc, ← Nat.mul_assoc]
  rw [this]
  have := roundMag_scale (a * b * unit) 1 unit (by decide) unit_pos
  rw [Nat.one_mul] at this
  rw [this]; rfl

theorem add_ofNat (a b : Nat) (ha : a < 2 ^ 53) (hb : b < 2 ^ 53) : add (ofNat a) (ofNat b) = ofNat (a + b) := by
  have fa := ofNat_fin a ha
  have fb := ofNat_fin b hb
  unfold add
  simp only [fa.pos.notNaN, fb.pos.notNaN, fa.notInf, fb.notInf, fa.pos.notNeg, fb.pos.notNeg, Bool.false_eq_true,
    ↓reduceIte, signBit, Nat.zero_add, mag_ofNat a ha, mag_ofNat b hb, ← Nat.add_mul]
  rfl

end IwModel.SoftF64
