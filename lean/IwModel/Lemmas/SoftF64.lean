import IwModel.Model.SoftF64
/-! Facts about the soft float `Model/SoftF64.lean`: rounding depends only on the rational value, is the identity on
representable values, monotone, and within half a unit of the binade it lands in.  Core tactics only. -/
namespace IwModel.SoftF64

/-! ### `rne` -/

theorem rne_exact (q d : Nat) (hd : 0 < d) : rne (q * d) d = q := by
  unfold rne
  have h1 : q * d / d = q := Nat.mul_div_cancel q hd
  have h2 : q * d % d = 0 := Nat.mul_mod_left q d
  simp only [h1, h2]
  rw [if_neg (by omega)]

theorem rne_scale (n d c : Nat) (hc : 0 < c) : rne (n * c) (d * c) = rne n d := by
  unfold rne
  simp only [Nat.mul_div_mul_right n d hc, Nat.mul_mod_mul_right]
  have e1 : 2 * (n % d * c) = (2 * (n % d)) * c := by rw [Nat.mul_assoc]
  have a1 : (2 * (n % d * c) > d * c) ↔ (2 * (n % d) > d) := by
    rw [e1]; exact ⟨fun h => Nat.lt_of_mul_lt_mul_right h, fun h => Nat.mul_lt_mul_of_pos_right h hc⟩
  have a2 : (2 * (n % d * c) = d * c) ↔ (2 * (n % d) = d) := by
    rw [e1]; exact ⟨fun h => Nat.eq_of_mul_eq_mul_right hc h, fun h => by rw [h]⟩
  simp only [a1, a2]

/-- `rne` is within half a unit -/
theorem rne_near (n d : Nat) (hd : 0 < d) :
    2 * (rne n d * d) ≤ 2 * n + d ∧ 2 * n ≤ 2 * (rne n d * d) + d := by
  have hdm := Nat.div_add_mod n d
  have hlt := Nat.mod_lt n hd
  unfold rne
  generalize n / d = q at *
  generalize n % d = r at *
  have hqd : d * q = q * d := Nat.mul_comm _ _
  generalize hqd' : q * d = qd at *
  by_cases hc : 2 * r > d ∨ 2 * r = d ∧ q % 2 = 1
  · simp only [hc, ↓reduceIte]; rw [Nat.add_mul, hqd']; omega
  · simp only [hc, ↓reduceIte]; rw [hqd']; omega

/-- lower bound: at least `m` once the value is at least `m` -/
theorem le_rne (n d m : Nat) (hd : 0 < d) (h : m * d ≤ n) : m ≤ rne n d := by
  have hq : m ≤ n / d := (Nat.le_div_iff_mul_le hd).mpr h
  unfold rne
  simp only
  split <;> omega

/-- upper bound: at most `m` when the value is at most `m` -/
theorem rne_le (n d m : Nat) (hd : 0 < d) (h : n ≤ m * d) : rne n d ≤ m := by
  unfold rne
  simp only
  by_cases he : n = m * d
  · subst he
    have h1 : m * d / d = m := Nat.mul_div_cancel m hd
    have h2 : m * d % d = 0 := Nat.mul_mod_left m d
    rw [h1, h2, if_neg (by omega)]; exact Nat.le_refl _
  · have hlt : n < m * d := by omega
    have hq : n / d < m := (Nat.div_lt_iff_lt_mul hd).mpr hlt
    split <;> omega

theorem rne_mono (n n' d : Nat) (hd : 0 < d) (h : n ≤ n') : rne n d ≤ rne n' d := by
  -- q = n / d, q' = n' / d; if q < q' then rne n d ≤ q + 1 ≤ q' ≤ rne n' d
  have hq : n / d ≤ n' / d := Nat.div_le_div_right h
  have hdm := Nat.div_add_mod n d
  have hdm' := Nat.div_add_mod n' d
  have hlt := Nat.mod_lt n hd
  have hlt' := Nat.mod_lt n' hd
  unfold rne
  simp only
  by_cases hqq : n / d = n' / d
  · rw [← hqq] at hdm' ⊢
    have hr : n % d ≤ n' % d := by omega
    split <;> split <;> omega
  · split <;> split <;> omega

/-! ### the binade -/

/-- `t` is the binade of `n / d`: either `2^(t+52) ≤ n/d < 2^(t+53)`, or `t = 0` and `n/d < 2^52` (subnormal range) -/
def Binade (n d t : Nat) : Prop := (d * 2 ^ (t + 52) ≤ n ∧ n < d * 2 ^ (t + 53)) ∨ (t = 0 ∧ n < d * 2 ^ 52)

theorem two_pow_pos (k : Nat) : 0 < 2 ^ k := Nat.pow_pos (by decide)

theorem pow_lt_of (a b : Nat) (h : 2 ^ a < 2 ^ b) : a < b := (Nat.pow_lt_pow_iff_right (by decide)).mp h

theorem binade_unique (n d t t' : Nat) (hd : 0 < d) (h : Binade n d t) (h' : Binade n d t') : t = t' := by
  have key : ∀ a b, d * 2 ^ (a + 52) ≤ n → n < d * 2 ^ (b + 53) → a < b + 1 := by
    intro a b h1 h2
    have : d * 2 ^ (a + 52) < d * 2 ^ (b + 53) := Nat.lt_of_le_of_lt h1 h2
    have := pow_lt_of _ _ ((Nat.mul_lt_mul_left hd).mp this)
    omega
  have key0 : ∀ a, d * 2 ^ (a + 52) ≤ n → n < d * 2 ^ 52 → False := by
    intro a h1 h2
    have : d * 2 ^ (a + 52) < d * 2 ^ 52 := Nat.lt_of_le_of_lt h1 h2
    have := pow_lt_of _ _ ((Nat.mul_lt_mul_left hd).mp this)
    omega
  rcases h with ⟨h1, h2⟩ | ⟨rfl, h2⟩ <;> rcases h' with ⟨h1', h2'⟩ | ⟨rfl, h2'⟩
  · have := key t t' h1 h2'; have := key t' t h1' h2; omega
  · exact (key0 t h1 h2').elim
  · exact (key0 t' h1' h2).elim
  · rfl

theorem rexp_binade (n d : Nat) (hd : 0 < d) : Binade n d (rexp n d) := by
  by_cases hn : n = 0
  · subst hn
    have hp : 0 < d * 2 ^ 52 := Nat.mul_pos hd (two_pow_pos _)
    have hl : Nat.log2 0 = 0 := by decide
    have h0 : ¬ d * 2 ^ (0 - d.log2 - 52 + 52) ≤ 0 := by
      have : 0 < d * 2 ^ (0 - d.log2 - 52 + 52) := Nat.mul_pos hd (two_pow_pos _)
      omega
    unfold rexp Binade
    simp only [hl, h0, ↓reduceIte]
    right; exact ⟨by omega, hp⟩
  have ha1 : 2 ^ n.log2 ≤ n := Nat.log2_self_le hn
  have ha2 : n < 2 ^ (n.log2 + 1) := Nat.lt_log2_self
  have hb1 : 2 ^ d.log2 ≤ d := Nat.log2_self_le (by omega)
  have hb2 : d < 2 ^ (d.log2 + 1) := Nat.lt_log2_self
  unfold rexp Binade
  generalize n.log2 = a at *
  generalize d.log2 = b at *
  simp only
  by_cases hsub : n < d * 2 ^ 52
  · -- subnormal range: a ≤ b + 52, so t0 = 0 and the test fails
    have hlt : 2 ^ a < 2 ^ (b + 1 + 52) := by
      rw [Nat.pow_add 2 (b + 1) 52]
      exact Nat.lt_of_le_of_lt ha1 (Nat.lt_of_lt_of_le hsub (Nat.mul_le_mul_right _ (Nat.le_of_lt hb2)))
    have := pow_lt_of _ _ hlt
    have ht0 : a - b - 52 = 0 := by omega
    rw [ht0]
    have : ¬ d * 2 ^ (0 + 52) ≤ n := by simpa using hsub
    rw [if_neg this]
    right; exact ⟨by omega, hsub⟩
  · have hge : d * 2 ^ 52 ≤ n := by omega
    have hlt : 2 ^ (b + 52) < 2 ^ (a + 1) := by
      rw [Nat.pow_add 2 b 52]
      exact Nat.lt_of_le_of_lt (Nat.le_trans (Nat.mul_le_mul_right _ hb1) hge) ha2
    have hab := pow_lt_of _ _ hlt
    obtain ⟨t0, ht0⟩ : ∃ t0, a = b + 52 + t0 := ⟨a - b - 52, by omega⟩
    have e0 : a - b - 52 = t0 := by omega
    rw [e0]
    left
    by_cases hc : d * 2 ^ (t0 + 52) ≤ n
    · rw [if_pos hc]
      refine ⟨hc, ?_⟩
      -- n < 2^(a+1) = 2^b * 2^(t0+53) ≤ d * 2^(t0+53)
      have e1 : 2 ^ (a + 1) = 2 ^ b * 2 ^ (t0 + 53) := by rw [← Nat.pow_add]; congr 1; omega
      rw [e1] at ha2
      exact Nat.lt_of_lt_of_le ha2 (Nat.mul_le_mul_right _ hb1)
    · rw [if_neg hc]
      have ht1 : 1 ≤ t0 := by
        by_cases h0 : t0 = 0
        · subst h0; simp only [Nat.zero_add] at hc; omega
        · omega
      obtain ⟨t1, rfl⟩ : ∃ t1, t0 = t1 + 1 := ⟨t0 - 1, by omega⟩
      have e2 : t1 + 1 - 1 = t1 := by omega
      rw [e2]
      refine ⟨?_, ?_⟩
      · -- d * 2^(t1+52) < 2^(b+1) * 2^(t1+52) = 2^a ≤ n
        have e1 : 2 ^ a = 2 ^ (b + 1) * 2 ^ (t1 + 52) := by rw [← Nat.pow_add]; congr 1; omega
        rw [e1] at ha1
        exact Nat.le_trans (Nat.mul_le_mul_right _ (Nat.le_of_lt hb2)) ha1
      · have e3 : t1 + 53 = t1 + 1 + 52 := by omega
        rw [e3]; omega

theorem rexp_eq (n d t : Nat) (hd : 0 < d) (h : Binade n d t) : rexp n d = t :=
  binade_unique n d _ _ hd (rexp_binade n d hd) h

theorem binade_scale (n d c t : Nat) (hc : 0 < c) (h : Binade n d t) : Binade (n * c) (d * c) t := by
  unfold Binade at *
  rcases h with ⟨h1, h2⟩ | ⟨h0, h2⟩
  · left
    refine ⟨?_, ?_⟩
    · rw [Nat.mul_right_comm]; exact Nat.mul_le_mul_right _ h1
    · rw [Nat.mul_right_comm d c]; exact Nat.mul_lt_mul_of_pos_right h2 hc
  · right
    refine ⟨h0, ?_⟩
    rw [Nat.mul_right_comm d c]; exact Nat.mul_lt_mul_of_pos_right h2 hc

theorem rexp_scale (n d c : Nat) (hd : 0 < d) (hc : 0 < c) : rexp (n * c) (d * c) = rexp n d :=
  rexp_eq _ _ _ (Nat.mul_pos hd hc) (binade_scale n d c _ hc (rexp_binade n d hd))

/-- rounding depends only on the rational value `n / d` -/
theorem roundMag_scale (n d c : Nat) (hd : 0 < d) (hc : 0 < c) : roundMag (n * c) (d * c) = roundMag n d := by
  unfold roundMag
  simp only [rexp_scale n d c hd hc, Nat.mul_right_comm d c, rne_scale n _ c hc]

/-! ### decoding -/

theorem p52 : (2 : Nat) ^ 52 = 4503599627370496 := by decide
theorem p53 : (2 : Nat) ^ 53 = 9007199254740992 := by decide
theorem p63 : (2 : Nat) ^ 63 = 9223372036854775808 := by decide
theorem p51 : (2 : Nat) ^ 51 = 2251799813685248 := by decide

/-- non-negative and finite -/
def IsFin (a : Nat) : Prop := a < infBits
/-- non-negative, finite or `+inf` (not a NaN) -/
def IsPos (a : Nat) : Prop := a ≤ infBits

theorem IsFin.pos {a : Nat} (h : IsFin a) : IsPos a := Nat.le_of_lt h

theorem expOf_of_lt (a : Nat) (h : a < 2 ^ 63) : expOf a = a / 2 ^ 52 := by
  unfold expOf; rw [p52]; rw [p63] at h; omega

theorem isNeg_of_lt (a : Nat) (h : a < 2 ^ 63) : isNeg a = false := by
  unfold isNeg; rw [p63] at *
  have : a / 9223372036854775808 = 0 := Nat.div_eq_of_lt h
  simp [this]

theorem split_bits (a : Nat) : a = a / 2 ^ 52 * 2 ^ 52 + manOf a := by
  unfold manOf; rw [p52]; omega

theorem IsPos.lt63 {a : Nat} (h : IsPos a) : a < 2 ^ 63 := by
  unfold IsPos infBits at h; rw [p63]; omega

theorem IsPos.notNaN {a : Nat} (h : IsPos a) : isNaN a = false := by
  have h63 := h.lt63
  unfold isNaN
  rw [expOf_of_lt a h63]
  unfold IsPos infBits at h
  unfold manOf
  rw [p52]
  by_cases he : a / 4503599627370496 = 2047
  · have : a % 4503599627370496 = 0 := by omega
    simp [this]
  · simp [he]

theorem IsPos.notNeg {a : Nat} (h : IsPos a) : isNeg a = false := isNeg_of_lt a h.lt63

theorem IsFin.exp_lt {a : Nat} (h : IsFin a) : expOf a < 2047 := by
  rw [expOf_of_lt a h.pos.lt63]; unfold IsFin infBits at h; rw [p52]; omega

theorem IsFin.notInf {a : Nat} (h : IsFin a) : isInf a = false := by
  have := h.exp_lt
  unfold isInf
  simp [show expOf a ≠ 2047 by omega]

theorem IsPos.fin_or_inf {a : Nat} (h : IsPos a) : IsFin a ∨ a = infBits := by
  unfold IsPos at h; unfold IsFin; omega

theorem isInf_infBits : isInf infBits = true := by decide
theorem mag_inf_ne : mag infBits ≠ 0 := by
  unfold mag; exact Nat.ne_of_gt (Nat.mul_pos (by decide : 0 < sig infBits) (two_pow_pos _))

/-- rounding is the identity on representable values -/
theorem roundMag_repr (a c : Nat) (h : IsFin a) (hc : 0 < c) : roundMag (mag a * c) c = a := by
  have h1 : roundMag (mag a * c) c = roundMag (mag a) 1 := by
    have := roundMag_scale (mag a) 1 c (by decide) hc
    rwa [Nat.one_mul] at this
  rw [h1]
  have he := expOf_of_lt a h.pos.lt63
  have hlt := h.exp_lt
  have hsp := split_bits a
  have hm : manOf a < 2 ^ 52 := Nat.mod_lt _ (two_pow_pos _)
  unfold mag sig ex
  rw [he] at *
  generalize a / 2 ^ 52 = e at *
  generalize manOf a = m at *
  by_cases h0 : e = 0
  · subst h0
    simp only [↓reduceIte, Nat.zero_sub, Nat.pow_zero, Nat.mul_one]
    have hb : rexp m 1 = 0 := rexp_eq m 1 0 (by decide) (Or.inr ⟨rfl, by omega⟩)
    unfold roundMag
    simp only [hb, Nat.zero_mul, Nat.zero_add, Nat.pow_zero, Nat.mul_one]
    have := rne_exact m 1 (by decide)
    rw [Nat.mul_one] at this
    rw [this]
    unfold IsFin at h
    rw [if_neg (by omega)]; omega
  · obtain ⟨t, rfl⟩ : ∃ t, e = t + 1 := ⟨e - 1, by omega⟩
    simp only [show t + 1 ≠ 0 by omega, ↓reduceIte, Nat.add_sub_cancel]
    have hb : rexp ((m + 2 ^ 52) * 2 ^ t) 1 = t := by
      apply rexp_eq _ _ _ (by decide)
      left
      rw [Nat.one_mul, Nat.one_mul]
      refine ⟨?_, ?_⟩
      · rw [Nat.add_comm t 52, Nat.pow_add]; exact Nat.mul_le_mul_right _ (by omega)
      · rw [Nat.add_comm t 53, Nat.pow_add]
        exact Nat.mul_lt_mul_of_pos_right (by rw [p53]; rw [p52] at hm ⊢; omega) (two_pow_pos _)
    unfold roundMag
    simp only [hb, Nat.one_mul]
    rw [rne_exact _ _ (two_pow_pos _)]
    unfold IsFin at h
    have : t * 2 ^ 52 + (m + 2 ^ 52) = a := by rw [hsp, Nat.add_mul]; omega
    rw [this, if_neg (by omega)]

/-! ### integers -/

theorem decode_of (e m : Nat) (he : e < 2047) (hm : m < 2 ^ 52) :
    IsFin (e * 2 ^ 52 + m) ∧ expOf (e * 2 ^ 52 + m) = e ∧ manOf (e * 2 ^ 52 + m) = m := by
  rw [p52] at *
  refine ⟨by unfold IsFin infBits; omega, ?_, ?_⟩
  · unfold expOf; rw [p52]; omega
  · unfold manOf; rw [p52]; omega

/-- small integers are representable: `(double) v` is finite and has the value `v` -/
theorem ofNat_spec (v : Nat) (hv : v < 2 ^ 53) : IsFin (ofNat v) ∧ mag (ofNat v) = v * unit := by
  suffices h : ∃ enc, IsFin enc ∧ mag enc = v * unit by
    obtain ⟨enc, h1, h2⟩ := h
    have := roundMag_repr enc 1 h1 (by decide)
    rw [Nat.mul_one, h2] at this
    unfold ofNat
    rw [this]; exact ⟨h1, h2⟩
  by_cases h0 : v = 0
  · subst h0
    exact ⟨0, by unfold IsFin infBits; decide, by simp [mag, sig, ex, expOf, manOf]⟩
  have ha1 : 2 ^ v.log2 ≤ v := Nat.log2_self_le h0
  have ha2 : v < 2 ^ (v.log2 + 1) := Nat.lt_log2_self
  generalize v.log2 = L at *
  have hL : L < 53 := pow_lt_of _ _ (Nat.lt_of_le_of_lt ha1 hv)
  have e3 : 52 - L + (L + 1022) = 1074 := by omega
  have hs1 : 2 ^ 52 ≤ v * 2 ^ (52 - L) := by
    have : 2 ^ 52 = 2 ^ L * 2 ^ (52 - L) := by rw [← Nat.pow_add]; congr 1; omega
    rw [this]; exact Nat.mul_le_mul_right _ ha1
  have hs2 : v * 2 ^ (52 - L) < 2 ^ 53 := by
    have : 2 ^ 53 = 2 ^ (L + 1) * 2 ^ (52 - L) := by rw [← Nat.pow_add]; congr 1; omega
    rw [this]; exact Nat.mul_lt_mul_of_pos_right ha2 (two_pow_pos _)
  generalize hs : v * 2 ^ (52 - L) = s at *
  have hd := decode_of (L + 1023) (s - 2 ^ 52) (by omega) (by rw [p52, p53] at *; omega)
  refine ⟨(L + 1023) * 2 ^ 52 + (s - 2 ^ 52), hd.1, ?_⟩
  unfold mag sig ex
  rw [hd.2.1, hd.2.2, if_neg (by omega)]
  have e1 : s - 2 ^ 52 + 2 ^ 52 = s := Nat.sub_add_cancel hs1
  have e2 : L + 1023 - 1 = L + 1022 := rfl
  rw [e1, e2, ← hs, Nat.mul_assoc, ← Nat.pow_add, e3]
  rfl

theorem ofNat_fin (v : Nat) (hv : v < 2 ^ 53) : IsFin (ofNat v) := (ofNat_spec v hv).1
theorem mag_ofNat (v : Nat) (hv : v < 2 ^ 53) : mag (ofNat v) = v * unit := (ofNat_spec v hv).2

theorem unit_pos : 0 < unit := two_pow_pos _

/-- the product of two small integers is computed as the rounding of the exact product -/
theorem mul_ofNat (a b : Nat) (ha : a < 2 ^ 53) (hb : b < 2 ^ 53) : mul (ofNat a) (ofNat b) = ofNat (a * b) := by
  have fa := ofNat_fin a ha
  have fb := ofNat_fin b hb
  unfold mul
  simp only [fa.pos.notNaN, fb.pos.notNaN, fa.notInf, fb.notInf, fa.pos.notNeg, fb.pos.notNeg, Bool.false_eq_true,
    ↓reduceIte, false_or, bne_self_eq_false, signBit, Nat.zero_add, mag_ofNat a ha, mag_ofNat b hb]
  have : a * unit * (b * unit) = a * b * unit * unit := by
    rw [Nat.mul_assoc, Nat.mul_left_comm unit b unit, ← Nat.mul_assoc, ← Nat.mul_assoc]
  rw [this]
  have := roundMag_scale (a * b * unit) 1 unit (by decide) unit_pos
  rw [Nat.one_mul] at this
  rw [this]; rfl

theorem add_ofNat (a b : Nat) (ha : a < 2 ^ 53) (hb : b < 2 ^ 53) : add (ofNat a) (ofNat b) = ofNat (a + b) := by
  have fa := ofNat_fin a ha
  have fb := ofNat_fin b hb
  unfold add
  simp only [fa.pos.notNaN, fb.pos.notNaN, fa.notInf, fb.notInf, fa.pos.notNeg, fb.pos.notNeg, Bool.false_eq_true,
    ↓reduceIte, signBit, Nat.zero_add, mag_ofNat a ha, mag_ofNat b hb, ← Nat.add_mul]
  rfl

/-! ### monotonicity and error of the rounding -/

theorem roundMag_le_inf (n d : Nat) : roundMag n d ≤ infBits := by
  unfold roundMag
  simp only
  split
  · exact Nat.le_refl _
  · omega

theorem binade_sig_le (n d t : Nat) (hd : 0 < d) (h : Binade n d t) : rne n (d * 2 ^ t) ≤ 2 ^ 53 := by
  apply rne_le _ _ _ (Nat.mul_pos hd (two_pow_pos _))
  rcases h with ⟨-, h2⟩ | ⟨rfl, h2⟩
  · rw [Nat.add_comm t 53, Nat.pow_add, ← Nat.mul_assoc, Nat.mul_comm d] at h2
    rw [← Nat.mul_assoc]; exact Nat.le_of_lt h2
  · simp only [Nat.pow_zero, Nat.mul_one]
    have : d * 2 ^ 52 ≤ 2 ^ 53 * d := by rw [Nat.mul_comm]; exact Nat.mul_le_mul_right _ (by decide)
    omega

theorem binade_sig_ge (n d t : Nat) (hd : 0 < d) (h : Binade n d t) (ht : 0 < t) : 2 ^ 52 ≤ rne n (d * 2 ^ t) := by
  apply le_rne _ _ _ (Nat.mul_pos hd (two_pow_pos _))
  rcases h with ⟨h1, -⟩ | ⟨rfl, -⟩
  · rw [Nat.add_comm t 52, Nat.pow_add, ← Nat.mul_assoc, Nat.mul_comm d] at h1
    rw [← Nat.mul_assoc]; exact h1
  · omega

theorem binade_mono (n n' d t t' : Nat) (hd : 0 < d) (hn : n ≤ n') (h : Binade n d t) (h' : Binade n' d t') : t ≤ t' := by
  rcases h with ⟨h1, -⟩ | ⟨rfl, -⟩
  · rcases h' with ⟨-, h2'⟩ | ⟨rfl, h2'⟩
    · have : d * 2 ^ (t + 52) < d * 2 ^ (t' + 53) := Nat.lt_of_le_of_lt (Nat.le_trans h1 hn) h2'
      have := pow_lt_of _ _ ((Nat.mul_lt_mul_left hd).mp this)
      omega
    · have : d * 2 ^ (t + 52) < d * 2 ^ 52 := Nat.lt_of_le_of_lt (Nat.le_trans h1 hn) h2'
      have := pow_lt_of _ _ ((Nat.mul_lt_mul_left hd).mp this)
      omega
  · omega

theorem clamp_mono (A B : Nat) (h : A ≤ B) :
    (if A ≥ infBits then infBits else A) ≤ (if B ≥ infBits then infBits else B) := by
  unfold infBits
  split <;> split <;> omega

/-- rounding is monotone in the numerator -/
theorem roundMag_mono_num (n n' d : Nat) (hd : 0 < d) (hn : n ≤ n') : roundMag n d ≤ roundMag n' d := by
  have hb := rexp_binade n d hd
  have hb' := rexp_binade n' d hd
  have ht := binade_mono n n' d _ _ hd hn hb hb'
  have hle : rexp n d * 2 ^ 52 + rne n (d * 2 ^ rexp n d) ≤ rexp n' d * 2 ^ 52 + rne n' (d * 2 ^ rexp n' d) := by
    by_cases he : rexp n d = rexp n' d
    · rw [← he]
      exact Nat.add_le_add_left (rne_mono _ _ _ (Nat.mul_pos hd (two_pow_pos _)) hn) _
    · have hlt : rexp n d + 1 ≤ rexp n' d := by omega
      have h1 := binade_sig_le n d _ hd hb
      have h2 := binade_sig_ge n' d _ hd hb' (by omega)
      have h3 : (rexp n d + 1) * 2 ^ 52 ≤ rexp n' d * 2 ^ 52 := Nat.mul_le_mul_right _ hlt
      rw [Nat.add_mul] at h3
      rw [p53] at h1; rw [p52] at *
      omega
  exact clamp_mono _ _ hle

/-- rounding is monotone in the rational value -/
theorem roundMag_mono (n d n' d' : Nat) (hd : 0 < d) (hd' : 0 < d') (h : n * d' ≤ n' * d) :
    roundMag n d ≤ roundMag n' d' := by
  rw [← roundMag_scale n d d' hd hd', ← roundMag_scale n' d' d hd' hd, Nat.mul_comm d' d]
  exact roundMag_mono_num _ _ _ (Nat.mul_pos hd hd') h

/-- **half-unit bound**: in the binade `t = rexp n d` the significand `m` chosen differs from `n / (d * 2^t)` by at most
    one half -/
theorem roundMag_near (n d : Nat) (hd : 0 < d) :
    2 * (rne n (d * 2 ^ rexp n d) * (d * 2 ^ rexp n d)) ≤ 2 * n + d * 2 ^ rexp n d ∧
    2 * n ≤ 2 * (rne n (d * 2 ^ rexp n d) * (d * 2 ^ rexp n d)) + d * 2 ^ rexp n d :=
  rne_near n _ (Nat.mul_pos hd (two_pow_pos _))

/-! ### sign bit -/

theorem neg_decode (x : Nat) (hx : x < 2 ^ 63) :
    expOf (2 ^ 63 + x) = expOf x ∧ manOf (2 ^ 63 + x) = manOf x ∧ isNeg (2 ^ 63 + x) = true := by
  unfold expOf manOf isNeg
  rw [p63] at *; rw [p52]
  refine ⟨by omega, by omega, ?_⟩
  have : (9223372036854775808 + x) / 9223372036854775808 = 1 := by omega
  simp [this]

theorem neg_props (x : Nat) (hx : x < 2 ^ 63) :
    isNaN (2 ^ 63 + x) = isNaN x ∧ isInf (2 ^ 63 + x) = isInf x ∧ mag (2 ^ 63 + x) = mag x ∧ isNeg (2 ^ 63 + x) = true := by
  obtain ⟨h1, h2, h3⟩ := neg_decode x hx
  unfold isNaN isInf mag sig ex
  rw [h1, h2]
  exact ⟨rfl, rfl, rfl, h3⟩

theorem mag_fin_ne_inf_zero (a : Nat) (h : a = infBits) : mag a ≠ 0 := by subst h; exact mag_inf_ne

/-- product of non-negative non-NaN values: non-negative non-NaN, or the default NaN for `inf * 0` -/
theorem mul_pos (a b : Nat) (ha : IsPos a) (hb : IsPos b) (h1 : isInf a = true → mag b ≠ 0) (h2 : isInf b = true → mag a ≠ 0) :
    IsPos (mul a b) := by
  unfold mul
  simp only [ha.notNaN, hb.notNaN, ha.notNeg, hb.notNeg, Bool.false_eq_true, ↓reduceIte, bne_self_eq_false, signBit,
    Nat.zero_add]
  split
  · rename_i hi
    rw [if_neg]
    · exact Nat.le_refl _
    · intro hz
      rcases hi with hi | hi
      · rcases hz with hz | hz
        · have := ha.fin_or_inf
          rcases this with hf | he
          · rw [hf.notInf] at hi; exact absurd hi (by decide)
          · exact mag_fin_ne_inf_zero a he hz
        · exact h1 hi hz
      · rcases hz with hz | hz
        · exact h2 hi hz
        · rcases hb.fin_or_inf with hf | he
          · rw [hf.notInf] at hi; exact absurd hi (by decide)
          · exact mag_fin_ne_inf_zero b he hz
  · exact roundMag_le_inf _ _

theorem add_pos (a b : Nat) (ha : IsPos a) (hb : IsPos b) : IsPos (add a b) := by
  unfold add
  simp only [ha.notNaN, hb.notNaN, ha.notNeg, hb.notNeg, Bool.false_eq_true, ↓reduceIte, signBit, Nat.zero_add, ne_eq,
    not_true_eq_false, and_false]
  split
  · exact ha
  · split
    · exact hb
    · exact roundMag_le_inf _ _

/-- multiplying by `±1.0` only sets the sign -/
theorem mul_unit_sign (d s : Nat) (neg : Bool) (hd : IsPos d) (hs1 : isNaN s = false) (hs2 : isInf s = false)
    (hs3 : isNeg s = neg) (hs4 : mag s = unit) : mul d s = signBit neg + d := by
  unfold mul
  simp only [hd.notNaN, hs1, hs2, hd.notNeg, hs3, Bool.false_eq_true, ↓reduceIte, or_false, hs4]
  have hsn : (false != neg) = neg := by cases neg <;> rfl
  rw [hsn]
  rcases hd.fin_or_inf with hf | he
  · rw [hf.notInf]
    simp only [Bool.false_eq_true, ↓reduceIte]
    rw [roundMag_repr d unit hf unit_pos]
  · subst he
    rw [isInf_infBits]
    simp only [↓reduceIte]
    rw [if_neg]
    intro h
    rcases h with h | h
    · exact mag_inf_ne h
    · exact absurd h (Nat.ne_of_gt unit_pos)

/-- dividing a finite non-negative value by a finite value ≥ 1 does not increase it (so it stays finite) -/
theorem div_le_self (a b : Nat) (ha : IsFin a) (hb : IsFin b) (hb1 : unit ≤ mag b) : div a b ≤ a := by
  have hb0 : mag b ≠ 0 := Nat.ne_of_gt (Nat.lt_of_lt_of_le unit_pos hb1)
  unfold div
  simp only [ha.pos.notNaN, hb.pos.notNaN, ha.notInf, hb.notInf, ha.pos.notNeg, hb.pos.notNeg, Bool.false_eq_true,
    ↓reduceIte, bne_self_eq_false, signBit, Nat.zero_add, hb0]
  have h1 : roundMag (mag a * unit) (mag b) ≤ roundMag (mag a * unit) unit :=
    roundMag_mono _ _ _ _ (by omega) unit_pos (Nat.mul_le_mul_left _ hb1)
  rw [roundMag_repr a unit ha unit_pos] at h1
  exact h1

theorem add_neg_neg (a b : Nat) (ha : IsPos a) (hb : IsPos b) : add (2 ^ 63 + a) (2 ^ 63 + b) = 2 ^ 63 + add a b := by
  obtain ⟨a1, a2, a3, a4⟩ := neg_props a ha.lt63
  obtain ⟨b1, b2, b3, b4⟩ := neg_props b hb.lt63
  unfold add
  simp only [a1, a2, a3, a4, b1, b2, b3, b4, ha.notNaN, hb.notNaN, ha.notNeg, hb.notNeg, Bool.false_eq_true, ↓reduceIte,
    ne_eq, not_true_eq_false, and_false, signBit, Nat.zero_add]
  split
  · rfl
  · split <;> rfl

/-- the sign of the left factor only flips the sign of the product (`inf * 0` stays the default NaN) -/
theorem mul_neg_left (a b : Nat) (ha : IsPos a) (hb : IsPos b) :
    mul (2 ^ 63 + a) b = if mul a b = nanBits then nanBits else 2 ^ 63 + mul a b := by
  obtain ⟨a1, a2, a3, a4⟩ := neg_props a ha.lt63
  have hne : ∀ x, x ≤ infBits → x ≠ nanBits := by
    intro x hx; unfold infBits nanBits at *; omega
  unfold mul
  simp only [a1, a2, a3, a4, ha.notNaN, hb.notNaN, ha.notNeg, hb.notNeg, Bool.false_eq_true, ↓reduceIte, signBit,
    Nat.zero_add, bne_self_eq_false]
  have e : (true != false) = true := rfl
  rw [e]
  simp only [↓reduceIte]
  split
  · split
    · simp
    · rw [if_neg (hne _ (Nat.le_refl _))]
  · rw [if_neg (hne _ (roundMag_le_inf _ _))]

/-! ### order -/

theorem mag_decode (a : Nat) (h : IsFin a) :
    mag a = (if a / 2 ^ 52 = 0 then a % 2 ^ 52 else a % 2 ^ 52 + 2 ^ 52) * 2 ^ (a / 2 ^ 52 - 1) := by
  unfold mag sig ex manOf
  rw [expOf_of_lt a h.pos.lt63]

/-- finite non-negative doubles are ordered like their bit patterns -/
theorem mag_strictMono (a b : Nat) (hb : IsFin b) (h : a < b) : mag a < mag b := by
  have ha : IsFin a := Nat.lt_trans h hb
  rw [mag_decode a ha, mag_decode b hb]
  have hma : a % 2 ^ 52 < 2 ^ 52 := Nat.mod_lt _ (two_pow_pos _)
  have hmb : b % 2 ^ 52 < 2 ^ 52 := Nat.mod_lt _ (two_pow_pos _)
  have hsa := Nat.div_add_mod a (2 ^ 52)
  have hsb := Nat.div_add_mod b (2 ^ 52)
  generalize a / 2 ^ 52 = ea at *
  generalize b / 2 ^ 52 = eb at *
  generalize a % 2 ^ 52 = ma at *
  generalize b % 2 ^ 52 = mb at *
  have hee : ea ≤ eb := by
    apply Nat.le_of_not_lt; intro hlt
    have : 2 ^ 52 * (eb + 1) ≤ 2 ^ 52 * ea := Nat.mul_le_mul_left _ hlt
    rw [Nat.mul_add] at this
    omega
  by_cases he : ea = eb
  · subst he
    have hm : ma < mb := by omega
    apply Nat.mul_lt_mul_of_pos_right _ (two_pow_pos _)
    split <;> omega
  · have hlt : ea < eb := by omega
    by_cases h0 : ea = 0
    · subst h0
      rw [if_pos rfl, if_neg (by omega)]
      simp only [Nat.zero_sub, Nat.pow_zero, Nat.mul_one]
      calc ma < 2 ^ 52 := hma
        _ ≤ mb + 2 ^ 52 := by omega
        _ = (mb + 2 ^ 52) * 1 := (Nat.mul_one _).symm
        _ ≤ (mb + 2 ^ 52) * 2 ^ (eb - 1) := Nat.mul_le_mul_left _ (two_pow_pos _)
    · rw [if_neg h0, if_neg (by omega)]
      obtain ⟨k, hk⟩ : ∃ k, eb - 1 = (ea - 1) + 1 + k := ⟨eb - ea - 1, by omega⟩
      rw [hk]
      calc (ma + 2 ^ 52) * 2 ^ (ea - 1) < (2 ^ 52 * 2) * 2 ^ (ea - 1) :=
            Nat.mul_lt_mul_of_pos_right (by omega) (two_pow_pos _)
        _ = 2 ^ 52 * 2 ^ (ea - 1 + 1) := by
            rw [show 2 ^ (ea - 1 + 1) = 2 ^ (ea - 1) * 2 from Nat.pow_succ 2 (ea - 1), Nat.mul_assoc, Nat.mul_comm 2]
        _ ≤ 2 ^ 52 * 2 ^ (ea - 1 + 1 + k) := Nat.mul_le_mul_left _ (Nat.pow_le_pow_right (by decide) (by omega))
        _ ≤ (mb + 2 ^ 52) * 2 ^ (ea - 1 + 1 + k) := Nat.mul_le_mul_right _ (by omega)

theorem mag_mono (a b : Nat) (hb : IsFin b) (h : a ≤ b) : mag a ≤ mag b := by
  by_cases he : a = b
  · subst he; exact Nat.le_refl _
  · exact Nat.le_of_lt (mag_strictMono a b hb (by omega))

/-- **faithful rounding**: no representable value lies strictly between `n / d` and its rounding -/
theorem roundMag_faithful (n d c : Nat) (hd : 0 < d) (hc : IsFin c) :
    (mag c * d ≤ n → c ≤ roundMag n d) ∧ (n ≤ mag c * d → roundMag n d ≤ c) := by
  have hr := roundMag_repr c d hc hd
  refine ⟨fun h => ?_, fun h => ?_⟩
  · rw [← hr]; exact roundMag_mono_num _ _ _ hd h
  · rw [← hr]; exact roundMag_mono_num _ _ _ hd h

theorem ofNat_mono (v w : Nat) (h : v ≤ w) : ofNat v ≤ ofNat w :=
  roundMag_mono_num _ _ _ (by decide) (Nat.mul_le_mul_right _ h)

/-- multiplication by a fixed finite positive factor is monotone on non-negative values -/
theorem mul_mono_left (a a' b : Nat) (ha : IsPos a) (ha' : IsPos a') (hb : IsFin b) (hb0 : mag b ≠ 0) (h : a ≤ a') :
    mul a b ≤ mul a' b := by
  rcases ha'.fin_or_inf with hf' | he'
  · have hf : IsFin a := Nat.lt_of_le_of_lt h hf'
    unfold mul
    simp only [ha.notNaN, ha'.notNaN, hb.pos.notNaN, hf.notInf, hf'.notInf, hb.notInf, ha.notNeg, ha'.notNeg, hb.pos.notNeg,
      Bool.false_eq_true, ↓reduceIte, or_self, bne_self_eq_false, signBit, Nat.zero_add]
    exact roundMag_mono_num _ _ _ unit_pos (Nat.mul_le_mul_right _ (mag_mono a a' hf' h))
  · have hp : IsPos (mul a b) := mul_pos a b ha hb.pos (fun _ => hb0) (fun h => by rw [hb.notInf] at h; exact absurd h (by decide))
    have : mul a' b = infBits := by
      subst he'
      unfold mul
      simp only [ha'.notNaN, hb.pos.notNaN, isInf_infBits, ha'.notNeg, hb.pos.notNeg, Bool.false_eq_true, ↓reduceIte,
        true_or, bne_self_eq_false, signBit, Nat.zero_add]
      rw [if_neg]
      intro hz; rcases hz with hz | hz
      · exact mag_inf_ne hz
      · exact hb0 hz
    rw [this]; exact hp

/-- adding a fixed finite non-negative value is monotone on non-negative values -/
theorem add_mono_left (a a' c : Nat) (ha : IsPos a) (ha' : IsPos a') (hc : IsFin c) (h : a ≤ a') :
    add a c ≤ add a' c := by
  rcases ha'.fin_or_inf with hf' | he'
  · have hf : IsFin a := Nat.lt_of_le_of_lt h hf'
    unfold add
    simp only [ha.notNaN, ha'.notNaN, hc.pos.notNaN, hf.notInf, hf'.notInf, hc.notInf, ha.notNeg, ha'.notNeg, hc.pos.notNeg,
      Bool.false_eq_true, ↓reduceIte, signBit, Nat.zero_add]
    exact roundMag_mono_num _ _ _ (by decide) (Nat.add_le_add_right (mag_mono a a' hf' h) _)
  · have hp : IsPos (add a c) := add_pos a c ha hc.pos
    have : add a' c = infBits := by
      subst he'
      unfold add
      simp only [ha'.notNaN, hc.pos.notNaN, isInf_infBits, hc.notInf, Bool.false_eq_true, ↓reduceIte, false_and]
    rw [this]; exact hp

end IwModel.SoftF64
