import IwModel.Lemmas.Ini
/-! The body of the parse loop of `iwini_parse_stream` against the reference splitter: whatever the line buffer
holds in front of its terminator, `processLine` stays inside the three buffers and leaves them in a state that
represents `refLine` of that text. -/
namespace IwModel.Ini
open IwModel.CStr

/-- what the proofs need from the generated sizes -/
structure CfgOk (cfg : Cfg) : Prop where
  sec_pos : 1 ≤ cfg.maxSection
  name_pos : 1 ≤ cfg.maxName
  num_le : cfg.readerNum ≤ cfg.maxLine

/-- the buffers of `st` hold the strings of `a` (each followed by its terminator inside the buffer) -/
structure Rep (cfg : Cfg) (st : St) (a : Abs) : Prop where
  line_len : st.line.length = cfg.maxLine
  sec_eq : ∃ P, st.sec = a.sec ++ 0 :: P
  sec_len : st.sec.length = cfg.maxSection
  sec_nz : 0 ∉ a.sec
  prev_eq : ∃ P, st.prev = a.prev ++ 0 :: P
  prev_len : st.prev.length = cfg.maxName
  prev_nz : 0 ∉ a.prev
  lineno : st.lineno = a.lineno
  error : st.error = a.error
  events : st.events = a.events

theorem split_at (rest : Bytes) (k : Nat) (hk : k ≤ rest.length) :
    (rest.take k = rest ∧ rest[k]? = none ∧ k = rest.length) ∨
    (∃ r1 c R, rest = r1 ++ c :: R ∧ r1.length = k ∧ rest.take k = r1 ∧ rest.drop (k + 1) = R ∧ rest[k]? = some c) := by
  by_cases h : k = rest.length
  · left; subst h; simp
  · right
    have hlt : k < rest.length := by omega
    refine ⟨rest.take k, rest[k], rest.drop (k + 1), ?_, by simp; omega, rfl, rfl, by simp [hlt]⟩
    rw [List.getElem_cons_drop, List.take_append_drop]

theorem take_not_mem (w : Bytes) (k : Nat) (h : 0 ∉ w) : 0 ∉ w.take k :=
  fun hm => h (List.mem_of_mem_take hm)

theorem drop_not_mem (w : Bytes) (k : Nat) (h : 0 ∉ w) : 0 ∉ w.drop k :=
  fun hm => h (List.mem_of_mem_drop hm)

theorem emit_spec (cfg : Cfg) (h : Handler) (st : St) (a : Abs) (name value : Bytes) (hr : Rep cfg st a) :
    ∃ st', emit h st name value = some st' ∧ Rep cfg st' (a.emit h name value) := by
  obtain ⟨P, hs⟩ := hr.sec_eq
  have hg : getStr st.sec 0 = some a.sec := by
    have := getStr_app [] a.sec P hr.sec_nz
    simpa [hs] using this
  refine ⟨_, by simp only [emit, hg]; rfl, ?_⟩
  exact { line_len := hr.line_len, sec_eq := hr.sec_eq, sec_len := hr.sec_len, sec_nz := hr.sec_nz,
          prev_eq := hr.prev_eq, prev_len := hr.prev_len, prev_nz := hr.prev_nz, lineno := hr.lineno,
          error := by simp [Abs.emit, hr.error, hr.lineno], events := by simp [Abs.emit, hr.events] }

theorem fail_spec (cfg : Cfg) (st : St) (a : Abs) (hr : Rep cfg st a) :
    Rep cfg { st with error := if st.error == 0 then st.lineno else st.error } a.fail :=
  { line_len := hr.line_len, sec_eq := hr.sec_eq, sec_len := hr.sec_len, sec_nz := hr.sec_nz,
    prev_eq := hr.prev_eq, prev_len := hr.prev_len, prev_nz := hr.prev_nz, lineno := hr.lineno,
    error := by simp [Abs.fail, hr.error, hr.lineno], events := hr.events }

theorem sectionLine_spec (cfg : Cfg) (ok : CfgOk cfg) (st : St) (a : Abs) (X rest P : Bytes) (hr : Rep cfg st a)
    (hl : st.line = X ++ 91 :: rest ++ 0 :: P) (hz : 0 ∉ rest) :
    ∃ st', sectionLine cfg st X.length = some st' ∧ Rep cfg st' (refSection cfg a rest) := by
  have hline : st.line = (X ++ [91]) ++ rest ++ 0 :: P := by rw [hl]; simp
  have hf := findCC_app cfg.sp cfg.inlinePrefixes (X ++ [91]) rest P [93] false hz
  simp only [List.length_append, List.length_singleton] at hf
  have hk := scanCC_le cfg.sp cfg.inlinePrefixes [93] false rest
  unfold sectionLine refSection
  rw [hline, hf]; simp only []
  generalize scanCC cfg.sp cfg.inlinePrefixes [93] false rest = k at hk ⊢
  rcases split_at rest k hk with ⟨_, hnone, hke⟩ | ⟨r1, c, R, rfl, hlen, htake, _, hsome⟩
  · -- no closing bracket before the end of the line
    subst hke
    have hg : (X ++ [91] ++ rest ++ 0 :: P)[X.length + 1 + rest.length]? = some 0 := by
      have := get_at' (X ++ [91]) rest P 0; simpa using this
    rw [hg, hnone]; simp only [show ¬ ((0 : Nat) = 93) by decide, if_false]
    refine ⟨_, rfl, ?_⟩
    have := fail_spec cfg st a hr
    simpa [hline] using this
  · have hz1 : 0 ∉ r1 := fun hm => hz (by simp [hm])
    have hg : (X ++ [91] ++ (r1 ++ c :: R) ++ 0 :: P)[X.length + 1 + k]? = some c := by
      have := get_at' (X ++ [91]) r1 (R ++ 0 :: P) c
      rw [hlen] at this
      simpa using this
    rw [hg, hsome, htake]
    by_cases hc : c = 93
    · subst hc
      simp only [if_true]
      have hw : wr (X ++ [91] ++ (r1 ++ 93 :: R) ++ 0 :: P) (X.length + 1 + k) 0 = some ((X ++ [91]) ++ r1 ++ 0 :: (R ++ 0 :: P)) := by
        have := wr_at' (X ++ [91]) r1 (R ++ 0 :: P) 93 0
        rw [hlen] at this
        simpa using this
      rw [hw]; simp only []
      have hcp := strncpy0_app [] st.sec (X ++ [91]) r1 (R ++ 0 :: P) (X.length + 1) cfg.maxSection
        (by simp) (by simpa using hr.sec_len) (by have := ok.sec_pos; simp; omega) hz1
      simp only [List.nil_append, List.length_nil, Nat.sub_zero] at hcp
      rw [hcp]; simp only []
      obtain ⟨PP, hp⟩ := hr.prev_eq
      obtain ⟨p0, PR, hp0⟩ : ∃ p0 PR, st.prev = p0 :: PR := by
        cases hpp : st.prev with
        | nil => have := hr.prev_len; rw [hpp] at this; have := ok.name_pos; simp at *; omega
        | cons p0 PR => exact ⟨p0, PR, rfl⟩
      have hwp : wr st.prev 0 0 = some (0 :: PR) := by
        have := wr_at [] PR p0 0; simpa [hp0] using this
      rw [hwp]
      refine ⟨_, rfl, ?_⟩
      have htl : (r1.take (cfg.maxSection - 1)).length ≤ cfg.maxSection - 1 := by
        simp; omega
      exact { line_len := by
                have := hr.line_len; rw [hline] at this
                simp at this ⊢; omega
              sec_eq := ⟨_, rfl⟩
              sec_len := by
                have := hr.sec_len; have := ok.sec_pos
                simp only [List.length_append, List.length_cons, List.length_drop]
                omega
              sec_nz := take_not_mem _ _ hz1
              prev_eq := ⟨PR, by simp⟩
              prev_len := by have := hr.prev_len; rw [hp0] at this; simpa using this
              prev_nz := by simp
              lineno := hr.lineno, error := hr.error, events := hr.events }
    · simp only [hc, if_false, Option.some.injEq]
      refine ⟨_, rfl, ?_⟩
      have := fail_spec cfg st a hr
      simpa [hline] using this

theorem replicate_zero_snoc (n : Nat) (Z : Bytes) : List.replicate n 0 ++ 0 :: Z = 0 :: (List.replicate n 0 ++ Z) := by
  rw [show List.replicate n 0 ++ 0 :: Z = (List.replicate n 0 ++ [0]) ++ Z by simp, ← List.replicate_succ', List.replicate_succ]
  simp

/-- `rstrip`, keeping only what the later steps need of the bytes behind the new terminator -/
theorem rstrip_app' (sp : Nat → Bool) (X w P : Bytes) (hw : 0 ∉ w) :
    ∃ Z, rstrip sp (X ++ w ++ 0 :: P) X.length = some (X ++ rtrim sp w ++ 0 :: Z) ∧
      (rtrim sp w).length + Z.length = w.length + P.length := by
  refine ⟨List.replicate (w.length - (rtrim sp w).length) 0 ++ P, ?_, ?_⟩
  · rw [rstrip_app sp X w P hw, rpad]
    simp only [List.append_assoc, replicate_zero_snoc]
  · have := rtrim_length_le sp w; simp; omega

theorem pairTail_spec (cfg : Cfg) (ok : CfgOk cfg) (h : Handler) (st : St) (a : Abs) (X r1 X2 v0 P3 : Bytes) (hr : Rep cfg st a)
    (hz1 : 0 ∉ r1) (hv0 : 0 ∉ v0) (hX2 : X2 = X ++ rpad cfg.sp r1 ++ [0])
    (hlen : (X2 ++ v0 ++ 0 :: P3).length = cfg.maxLine) :
    ∃ st', pairTail cfg h st X.length X2.length (X2 ++ v0 ++ 0 :: P3) = some st' ∧
      Rep cfg st' (({ a with prev := (rtrim cfg.sp r1).take (cfg.maxName - 1) } : Abs).emit h (rtrim cfg.sp r1)
        (rtrim cfg.sp (ltrim cfg.sp v0))) := by
  unfold pairTail
  rw [lskip_app cfg.sp X2 v0 P3 hv0]; simp only []
  -- the line seen from the first byte of the value
  have hsplit : X2 ++ v0 ++ 0 :: P3 = (X2 ++ v0.takeWhile cfg.sp) ++ ltrim cfg.sp v0 ++ 0 :: P3 := by
    simp [ltrim, List.takeWhile_append_dropWhile]
  have hv1 : 0 ∉ ltrim cfg.sp v0 := ltrim_not_mem cfg.sp v0 hv0
  obtain ⟨Z, hrs, hZ⟩ := rstrip_app' cfg.sp (X2 ++ v0.takeWhile cfg.sp) (ltrim cfg.sp v0) P3 hv1
  rw [List.length_append] at hrs
  rw [hsplit, hrs]; simp only []
  -- the same line seen from the first byte of the name
  have hname : X2 ++ v0.takeWhile cfg.sp ++ rtrim cfg.sp (ltrim cfg.sp v0) ++ 0 :: Z =
      X ++ rtrim cfg.sp r1 ++ 0 :: (List.replicate (r1.length - (rtrim cfg.sp r1).length) 0 ++
        (v0.takeWhile cfg.sp ++ rtrim cfg.sp (ltrim cfg.sp v0) ++ 0 :: Z)) := by
    rw [hX2, rpad]; simp only [List.append_assoc, List.cons_append, List.nil_append, replicate_zero_snoc]
  have hcp := strncpy0_app [] st.prev X (rtrim cfg.sp r1) (List.replicate (r1.length - (rtrim cfg.sp r1).length) 0 ++
        (v0.takeWhile cfg.sp ++ rtrim cfg.sp (ltrim cfg.sp v0) ++ 0 :: Z)) X.length cfg.maxName
        (by simp) (by simpa using hr.prev_len) (by have := ok.name_pos; simp; omega) (rtrim_not_mem cfg.sp r1 hz1)
  simp only [List.nil_append, List.length_nil, Nat.sub_zero] at hcp
  have hgn := getStr_app X (rtrim cfg.sp r1) (List.replicate (r1.length - (rtrim cfg.sp r1).length) 0 ++
        (v0.takeWhile cfg.sp ++ rtrim cfg.sp (ltrim cfg.sp v0) ++ 0 :: Z)) (rtrim_not_mem cfg.sp r1 hz1)
  have hgv := getStr_app (X2 ++ v0.takeWhile cfg.sp) (rtrim cfg.sp (ltrim cfg.sp v0)) Z (rtrim_not_mem cfg.sp _ hv1)
  rw [List.length_append] at hgv
  rw [hgv]
  rw [hname, hcp, hgn]; simp only []
  apply emit_spec
  have htl : ((rtrim cfg.sp r1).take (cfg.maxName - 1)).length ≤ cfg.maxName - 1 := by simp; omega
  exact { line_len := by
            rw [← hname, ← hlen]
            have := rtrim_length_le cfg.sp (ltrim cfg.sp v0)
            have h2 : v0.length = (v0.takeWhile cfg.sp).length + (ltrim cfg.sp v0).length := by
              have := congrArg List.length (List.takeWhile_append_dropWhile (p := cfg.sp) (l := v0))
              simp only [List.length_append] at this
              simp only [ltrim]; omega
            simp only [List.length_append, List.length_cons]
            omega
          sec_eq := hr.sec_eq, sec_len := hr.sec_len, sec_nz := hr.sec_nz
          prev_eq := ⟨_, rfl⟩
          prev_len := by
            have := hr.prev_len; have := ok.name_pos
            simp only [List.length_append, List.length_cons, List.length_drop]
            omega
          prev_nz := take_not_mem _ _ (rtrim_not_mem cfg.sp r1 hz1)
          lineno := hr.lineno, error := hr.error, events := hr.events }

theorem pairLine_spec (cfg : Cfg) (ok : CfgOk cfg) (h : Handler) (st : St) (a : Abs) (X t P : Bytes) (hr : Rep cfg st a)
    (hl : st.line = X ++ t ++ 0 :: P) (hz : 0 ∉ t) :
    ∃ st', pairLine cfg h st X.length = some st' ∧ Rep cfg st' (refPair cfg h a t) := by
  have hf := findCC_app cfg.sp cfg.inlinePrefixes X t P [61, 58] false hz
  have hk := scanCC_le cfg.sp cfg.inlinePrefixes [61, 58] false t
  unfold pairLine refPair
  rw [hl, hf]; simp only []
  generalize scanCC cfg.sp cfg.inlinePrefixes [61, 58] false t = k at hk ⊢
  rcases split_at t k hk with ⟨_, hnone, hke⟩ | ⟨r1, c, R, rfl, hlen, htake, hdrop, hsome⟩
  · subst hke
    rw [get_at' X t P 0, hnone]
    simp only [show ¬ ((0 : Nat) = 61 ∨ (0 : Nat) = 58) by decide, if_false]
    simp only [show ¬ ((none : Option Nat) = some 61 ∨ (none : Option Nat) = some 58) by simp, if_false]
    refine ⟨_, rfl, ?_⟩
    have := fail_spec cfg st a hr
    simpa [hl] using this
  · have hz1 : 0 ∉ r1 := fun hm => hz (by simp [hm])
    have hzR : 0 ∉ R := fun hm => hz (by simp [hm])
    have hg : (X ++ (r1 ++ c :: R) ++ 0 :: P)[X.length + k]? = some c := by
      have := get_at' X r1 (R ++ 0 :: P) c
      rw [hlen] at this
      simpa using this
    rw [hg, hsome, htake, hdrop]; simp only []
    by_cases hc : c = 61 ∨ c = 58
    · rw [if_pos hc, if_pos (show some c = some 61 ∨ some c = some 58 by simpa using hc)]
      -- *end = '\0'
      have hw : wr (X ++ (r1 ++ c :: R) ++ 0 :: P) (X.length + k) 0 = some (X ++ r1 ++ 0 :: (R ++ 0 :: P)) := by
        have := wr_at' X r1 (R ++ 0 :: P) c 0
        rw [hlen] at this
        simpa using this
      rw [hw]; simp only []
      -- name = rstrip(start)
      rw [rstrip_app cfg.sp X r1 (R ++ 0 :: P) hz1]; simp only []
      -- end = find_chars_or_comment(value, NULL)
      have hX2 : (X ++ rpad cfg.sp r1 ++ [0]).length = X.length + k + 1 := by
        simp [rpad_length, hlen]; omega
      have hl2 : X ++ rpad cfg.sp r1 ++ 0 :: (R ++ 0 :: P) = (X ++ rpad cfg.sp r1 ++ [0]) ++ R ++ 0 :: P := by simp
      generalize hX2d : X ++ rpad cfg.sp r1 ++ [0] = X2 at hX2 hl2
      have hf2 := findCC_app cfg.sp cfg.inlinePrefixes X2 R P [] false hzR
      have hk2 := scanCC_le cfg.sp cfg.inlinePrefixes [] false R
      rw [hl2, ← hX2, hf2]; simp only []
      generalize scanCC cfg.sp cfg.inlinePrefixes [] false R = k2 at hk2 ⊢
      have hlenL : (X2 ++ R ++ 0 :: P).length = cfg.maxLine := by
        have := hr.line_len; rw [hl] at this
        simp only [List.length_append, List.length_cons] at this ⊢; omega
      rcases split_at R k2 hk2 with ⟨htk, _, hke2⟩ | ⟨v0, c2, R2, rfl, hlen2, htake2, _, _⟩
      · -- no inline comment: *end is the terminator
        subst hke2
        rw [get_at' X2 R P 0]; simp only [ne_eq, not_true_eq_false, if_false]
        rw [htk]
        exact pairTail_spec cfg ok h st a X r1 X2 R P hr hz1 hzR hX2d.symm hlenL
      · have hc2 : c2 ≠ 0 := fun e => hzR (by simp [e])
        have hv0 : 0 ∉ v0 := fun hm => hzR (by simp [hm])
        have hg2 : (X2 ++ (v0 ++ c2 :: R2) ++ 0 :: P)[X2.length + k2]? = some c2 := by
          have := get_at' X2 v0 (R2 ++ 0 :: P) c2
          rw [hlen2] at this
          simpa using this
        have hw2 : wr (X2 ++ (v0 ++ c2 :: R2) ++ 0 :: P) (X2.length + k2) 0 = some (X2 ++ v0 ++ 0 :: (R2 ++ 0 :: P)) := by
          have := wr_at' X2 v0 (R2 ++ 0 :: P) c2 0
          rw [hlen2] at this
          simpa using this
        rw [hg2]; simp only [hc2, ne_eq, not_false_eq_true, if_true, hw2]
        rw [htake2]
        exact pairTail_spec cfg ok h st a X r1 X2 v0 (R2 ++ 0 :: P) hr hz1 hv0 hX2d.symm
          (by rw [← hlenL]; simp only [List.length_append, List.length_cons]; omega)
    · rw [if_neg hc, if_neg (show ¬ (some c = some 61 ∨ some c = some 58) by simpa using hc)]
      refine ⟨_, rfl, ?_⟩
      have := fail_spec cfg st a hr
      simpa [hl] using this

theorem bomSkip_app (bom : Bool) (w P : Bytes) (n : Nat) (hw : 0 ∉ w) :
    bomSkip bom (w ++ 0 :: P) n = some (if bom ∧ n = 1 ∧ [0xEF, 0xBB, 0xBF].isPrefixOf w then 3 else 0) := by
  unfold bomSkip
  by_cases hb : bom = true ∧ n = 1
  · rw [if_pos hb]
    obtain ⟨hb1, hb2⟩ := hb
    match w, hw with
    | [], _ => simp
    | [a], hw =>
      have := (not_mem_cons hw).1
      by_cases ha : a = 0xEF <;> simp [ha, hb1, hb2] <;> omega
    | [a, b], hw =>
      by_cases ha : a = 0xEF <;> by_cases hbb : b = 0xBB <;> simp [ha, hbb, hb1, hb2] <;> omega
    | a :: b :: c :: t, hw =>
      by_cases ha : a = 0xEF <;> by_cases hbb : b = 0xBB <;> by_cases hcc : c = 0xBF <;> simp [ha, hbb, hcc, hb1, hb2] <;> omega
  · rw [if_neg hb]
    have : ¬ (bom = true ∧ n = 1 ∧ [0xEF, 0xBB, 0xBF].isPrefixOf w = true) := fun h => hb ⟨h.1, h.2.1⟩
    rw [if_neg this]

theorem isPrefixOf_split (p w : Bytes) (h : p.isPrefixOf w = true) : w = p ++ w.drop p.length := by
  have := List.isPrefixOf_iff_prefix.mp h
  obtain ⟨t, rfl⟩ := this
  simp

theorem processLine_spec (cfg : Cfg) (ok : CfgOk cfg) (h : Handler) (st : St) (a : Abs) (w P : Bytes) (hr : Rep cfg st a)
    (hl : st.line = w ++ 0 :: P) (hz : 0 ∉ w) :
    ∃ st', processLine cfg h st = some st' ∧ Rep cfg st' (refLine cfg h a w) := by
  unfold processLine refLine
  simp only []
  rw [hl, bomSkip_app cfg.bom w P (st.lineno + 1) hz, ← hr.lineno]
  generalize hoff : (if cfg.bom = true ∧ st.lineno + 1 = 1 ∧ [0xEF, 0xBB, 0xBF].isPrefixOf w = true then 3 else 0) = off
  simp only []
  -- the line as `X ++ w' ++ 0 :: P` with `X` the BOM (or nothing)
  obtain ⟨X, hXl, hw⟩ : ∃ X : Bytes, X.length = off ∧ w = X ++ w.drop off := by
    by_cases hc : cfg.bom = true ∧ st.lineno + 1 = 1 ∧ [0xEF, 0xBB, 0xBF].isPrefixOf w = true
    · rw [if_pos hc] at hoff; subst hoff
      exact ⟨[0xEF, 0xBB, 0xBF], rfl, isPrefixOf_split _ _ hc.2.2⟩
    · rw [if_neg hc] at hoff; subst hoff
      exact ⟨[], rfl, by simp⟩
  generalize hw' : w.drop off = w' at hw
  have hz' : 0 ∉ w' := by rw [← hw']; exact drop_not_mem w off hz
  subst hw
  obtain ⟨Z, hrs, hZ⟩ := rstrip_app' cfg.sp X w' P hz'
  rw [← hXl, hrs]; simp only []
  have hr0 : 0 ∉ rtrim cfg.sp w' := rtrim_not_mem cfg.sp w' hz'
  rw [lskip_app cfg.sp X (rtrim cfg.sp w') Z hr0]; simp only []
  generalize hrr : rtrim cfg.sp w' = r at hr0 hZ
  have hsplit : X ++ r ++ 0 :: Z = (X ++ r.takeWhile cfg.sp) ++ ltrim cfg.sp r ++ 0 :: Z := by
    simp [ltrim, List.takeWhile_append_dropWhile]
  have hlt : r.length = (r.takeWhile cfg.sp).length + (ltrim cfg.sp r).length := by
    have := congrArg List.length (List.takeWhile_append_dropWhile (p := cfg.sp) (l := r))
    simp only [List.length_append] at this
    simp only [ltrim]; omega
  have ht0 : 0 ∉ ltrim cfg.sp r := ltrim_not_mem cfg.sp r hr0
  have hind : (0 < X.length + (r.length - (ltrim cfg.sp r).length)) ↔ 0 < X.length + (r.takeWhile cfg.sp).length := by
    rw [hlt]; simp
  -- the state after rstrip
  have hr1 : Rep cfg (St.mk (X ++ r ++ 0 :: Z) st.sec st.prev (st.lineno + 1) st.error st.events)
      (Abs.mk a.sec a.prev (st.lineno + 1) a.error a.events) :=
    { line_len := by
        have := hr.line_len; rw [hl] at this
        simp only [List.length_append, List.length_cons] at this ⊢; omega
      sec_eq := hr.sec_eq, sec_len := hr.sec_len, sec_nz := hr.sec_nz, prev_eq := hr.prev_eq, prev_len := hr.prev_len,
      prev_nz := hr.prev_nz, lineno := rfl, error := hr.error, events := hr.events }
  rw [hsplit]
  rw [← List.length_append]
  generalize hX' : X ++ r.takeWhile cfg.sp = X' at *
  have hX'l : X'.length = X.length + (r.takeWhile cfg.sp).length := by rw [← hX']; simp
  generalize ht : ltrim cfg.sp r = t at *
  rw [hsplit] at hr1
  match t, ht0 with
  | [], _ =>
    rw [show (X' ++ [] ++ 0 :: Z)[X'.length]? = some 0 by simp]
    simp only [true_or, if_true]
    exact ⟨_, rfl, hr1⟩
  | c :: rest, ht0 =>
    obtain ⟨hc0, hrest⟩ := not_mem_cons ht0
    rw [show (X' ++ c :: rest ++ 0 :: Z)[X'.length]? = some c by simp]
    simp only [hc0, false_or]
    by_cases hcm : cfg.startPrefixes.contains c = true
    · rw [if_pos hcm, if_pos hcm]; exact ⟨_, rfl, hr1⟩
    · rw [if_neg hcm, if_neg hcm]
      -- *prev_name
      obtain ⟨PP, hp⟩ := hr.prev_eq
      have hpn : ∃ pn, st.prev[0]? = some pn ∧ (pn ≠ 0 ↔ a.prev ≠ []) := by
        rw [hp]
        cases hap : a.prev with
        | nil => exact ⟨0, by simp, by simp⟩
        | cons p0 pr =>
          have := hr.prev_nz; rw [hap] at this
          exact ⟨p0, by simp, by simp [(not_mem_cons this).1]⟩
      obtain ⟨pn, hpn1, hpn2⟩ := hpn
      simp only [hpn1]
      have hcond : (cfg.multiline = true ∧ a.prev ≠ [] ∧ 0 < X.length + (r.length - (c :: rest).length)) ↔
          (cfg.multiline = true ∧ pn ≠ 0 ∧ 0 < X'.length) := by
        rw [hind, ← hX'l, hpn2]
      by_cases hm : cfg.multiline = true ∧ pn ≠ 0 ∧ 0 < X'.length
      · rw [if_pos hm, if_pos (hcond.mpr hm)]
        have hg1 : getStr st.prev 0 = some a.prev := by
          have := getStr_app [] a.prev PP hr.prev_nz
          simpa [hp] using this
        have hg2 := getStr_app X' (c :: rest) Z ht0
        rw [hg1, hg2]; simp only []
        exact emit_spec cfg h _ _ a.prev (c :: rest) hr1
      · rw [if_neg hm, if_neg (fun h' => hm (hcond.mp h'))]
        by_cases h91 : c = 91
        · subst h91
          simp only [if_true]
          exact sectionLine_spec cfg ok _ _ X' rest Z hr1 rfl hrest
        · simp only [h91, if_false]
          exact pairLine_spec cfg ok h _ _ X' (c :: rest) Z hr1 rfl ht0
end IwModel.Ini
