import IwModel.Model.JsonSpec
import IwModel.Lemmas.JsonUtf8
/-! The two passes of `_jbl_unescape_json_string` against the plain content function `decode`, and `decode`
on every RFC 8259 spelling. -/
namespace IwModel.Json

theorem emit_passOf (dlen d : Nat) (bs : Bytes) (r : DRes) :
    emit dlen d bs (fun d' => passOf dlen d' r) = passOf dlen d (pre bs r) := by
  cases r with
  | error e => simp [emit, passOf, pre]
  | ok v =>
    obtain ⟨o, rest⟩ := v
    simp only [emit, passOf, pre, stored, List.length_append, List.take_append]
    rw [Nat.add_assoc, Nat.sub_add_eq]

/-- one call of the C function = bookkeeping (`passOf`) around the content function -/
theorem unescPass_eq (q dlen : Nat) (p : Bytes) (d : Nat) :
    unescPass q dlen p d = passOf dlen d (decode q p) := by
  fun_induction decode q p generalizing d
  all_goals (rw [unescPass.eq_def])
  all_goals (try (have ihf := funext ‹∀ (d : Nat), unescPass q dlen _ d = passOf dlen d _›))
  all_goals (first
    | (simp [passOf, *]; done)
    | (simp [*, emit_passOf]; done))

/-- length pass + fill pass of the parser = the content function -/
theorem parseStr_eq (q : Nat) (p : Bytes) (b : Bool) : parseStr q p b = decode q p := by
  unfold parseStr
  rw [unescPass_eq]
  cases h : decode q p with
  | error e => simp [passOf]
  | ok v =>
    obtain ⟨o, rest⟩ := v
    simp only [passOf, Nat.zero_add, Nat.sub_zero]
    split
    · rw [unescPass_eq, h]; simp [passOf]
    · rename_i hn
      simp only [ne_eq, not_or, Decidable.not_not] at hn
      have : o = [] := List.eq_nil_of_length_eq_zero hn.1
      simp [this]

theorem hexv_lt (c v : Nat) (h : hexv c = some v) : v < 16 := by
  unfold hexv at h
  split at h
  · simp at h; omega
  split at h
  · simp at h; omega
  split at h
  · simp at h; omega
  · simp at h

theorem hex4_lt (a b c d v : Nat) (h : hex4 a b c d = some v) : v < 65536 := by
  unfold hex4 at h
  split at h
  · rename_i x y z w h1 h2 h3 h4
    have := hexv_lt _ _ h1; have := hexv_lt _ _ h2; have := hexv_lt _ _ h3; have := hexv_lt _ _ h4
    simp at h; omega
  · simp at h

/-- side condition on the regenerated escape-letter table of the unescaper: it is the RFC 8259 table -/
theorem unescLetter_rfc : unescLetter 98 = some 8 ∧ unescLetter 102 = some 12 ∧ unescLetter 110 = some 10 ∧
    unescLetter 114 = some 13 ∧ unescLetter 116 = some 9 := by decide


theorem decode_cons (q c : Nat) (p : Bytes) : decode q (c :: p) =
    if c = 0 then .error .unquoted
    else if c = q then .ok ([], p)
    else if c = 92 then
      match p with
      | [] => pre [c] (decode q [])
      | e :: r =>
        if e = 92 ∨ e = 47 ∨ e = 34 then pre [e] (decode q r)
        else if e = 117 then
          match r with
          | h1 :: h2 :: h3 :: h4 :: r1 =>
            match hex4 h1 h2 h3 h4 with
            | none => .error .codepoint
            | some cp =>
              if cp / 1024 = 54 then
                match r1 with
                | 92 :: 117 :: g1 :: g2 :: g3 :: g4 :: r2 =>
                  match hex4 g1 g2 g3 g4 with
                  | none => .error .codepoint
                  | some cp2 =>
                    if cp2 / 1024 ≠ 55 then .error .codepoint
                    else if !codepointValid (surrogate cp cp2) then .error .codepoint
                    else pre (encodeChar (surrogate cp cp2)) (decode q r2)
                | _ => .error .codepoint
              else if !codepointValid cp then .error .codepoint
              else pre (encodeChar cp) (decode q r1)
          | _ => .error .codepoint
        else
          match unescLetter e with
          | some b => pre [b] (decode q r)
          | none => pre [c] (decode q (e :: r))
    else pre [c] (decode q p) := by
  rw [decode.eq_def]; rfl

theorem surrogate_valid (cp cp2 : Nat) (h1 : cp / 1024 = 54) (h2 : cp2 / 1024 = 55) :
    codepointValid (surrogate cp cp2) = true := by
  have a : 55296 ≤ cp ∧ cp < 56320 := by omega
  have b : 56320 ≤ cp2 ∧ cp2 < 57344 := by omega
  have : 65536 ≤ surrogate cp cp2 ∧ surrogate cp cp2 < 1114112 := by
    unfold surrogate; omega
  unfold codepointValid
  simp only [Bool.and_eq_true, Bool.or_eq_true, decide_eq_true_eq]
  omega

theorem decode_spell (sp : Spell) (rest : Bytes) (hv : sp.valid = true) :
    decode 34 (sp.text ++ rest) = pre sp.value (decode 34 rest) := by
  cases sp with
  | raw b =>
    simp only [Spell.valid, Bool.and_eq_true, decide_eq_true_eq, ne_eq] at hv
    simp only [Spell.text, Spell.value, List.cons_append, List.nil_append]
    rw [decode_cons]
    rw [if_neg (by omega), if_neg (by omega), if_neg (by omega)]
  | esc l =>
    simp only [Spell.valid] at hv
    simp only [Spell.text, Spell.value, List.cons_append, List.nil_append]
    rw [decode_cons]
    obtain ⟨h1, h2, h3, h4, h5⟩ := unescLetter_rfc
    have hl : l = 34 ∨ l = 92 ∨ l = 47 ∨ l = 98 ∨ l = 102 ∨ l = 110 ∨ l = 114 ∨ l = 116 := by
      simp only [rfcEsc] at hv
      repeat' split at hv
      all_goals (first | omega | simp at hv)
    rcases hl with rfl | rfl | rfl | rfl | rfl | rfl | rfl | rfl <;> simp [rfcEsc, *]
  | u4 h1 h2 h3 h4 =>
    simp only [Spell.valid] at hv
    simp only [Spell.text, Spell.value, List.cons_append, List.nil_append]
    rw [decode_cons]
    cases hx : hex4 h1 h2 h3 h4 with
    | none => simp [hx] at hv
    | some cp =>
      have hlt := hex4_lt _ _ _ _ _ hx
      simp only [hx, Bool.and_eq_true, ne_eq, decide_eq_true_eq] at hv
      have hval : codepointValid cp = true := by
        simp only [codepointValid, Bool.and_eq_true, Bool.or_eq_true, decide_eq_true_eq]; omega
      simp [hx, hv.1, hval]
  | pair h1 h2 h3 h4 g1 g2 g3 g4 =>
    simp only [Spell.valid] at hv
    simp only [Spell.text, Spell.value, List.cons_append, List.nil_append]
    rw [decode_cons]
    cases hx : hex4 h1 h2 h3 h4 with
    | none => simp [hx] at hv
    | some cp =>
      cases hy : hex4 g1 g2 g3 g4 with
      | none => simp [hx, hy] at hv
      | some cp2 =>
        have hlt := hex4_lt _ _ _ _ _ hx
        have hlt2 := hex4_lt _ _ _ _ _ hy
        simp only [hx, hy, Bool.and_eq_true, decide_eq_true_eq] at hv
        have hval := surrogate_valid cp cp2 hv.1 hv.2
        simp [hx, hy, hv.1, hv.2, hval]

/-- every valid spelling of a string body decodes to the bytes it denotes, and stops at the closing quote -/
theorem decode_spells (ss : List Spell) (rest : Bytes) (hv : strValid ss = true) :
    decode 34 (strText ss ++ 34 :: rest) = .ok (strValue ss, rest) := by
  induction ss with
  | nil => simp [strText, strValue, decode_cons]
  | cons sp tl ih =>
    simp only [strValid, List.all_cons, Bool.and_eq_true] at hv
    simp only [strText, strValue, List.flatMap_cons, List.append_assoc]
    rw [decode_spell sp _ hv.1]
    have := ih (by simpa [strValid] using hv.2)
    simp only [strText, strValue] at this
    rw [this]; simp [pre]

end IwModel.Json
