import IwModel.Lemmas.FsmInit
/-! Bitmap growth (`_fsm_resize_fsm_bitmap_lw`) and the full allocation loop (`_fsm_blk_allocate_lw`). -/
namespace IwModel.Fsm

/-- taking blocks out of a free run keeps every allocated block allocated; the blocks taken were free -/
theorem userUsed_taken {s s' : St} {o l a n : Nat} (hI : Inv s) (h : Taken s s' o l a n) (hm : (o, l) ∈ s.tree)
    (ha : o ≤ a) (hb : a + n ≤ o + l) (i : Nat) (hu : UserUsed s i) :
    UserUsed s' i ∧ ¬ (a ≤ i ∧ i < a + n) := by
  have hr := (hI.ix.idx o l).mp hm
  obtain ⟨u1, u2, u3⟩ := hu
  have hnot : ¬ (a ≤ i ∧ i < a + n) := by
    intro c
    have := hr.2.1 i (by omega) (by omega)
    rw [u2] at this; cases this
  refine ⟨⟨by rw [h.bits, size_setRange]; exact u1, ?_, by rw [h.frame.bmOffBlk, h.frame.bmLenBlk]; exact u3⟩, hnot⟩
  rw [h.bits, bit_setRange]
  split
  · rfl
  · exact u2

/-- the blocks taken: free before, allocated after, inside the bitmap's range, outside header and bitmap -/
theorem taken_region {s s' : St} {o l a n : Nat} (hI : Inv s) (h : Taken s s' o l a n) (hm : (o, l) ∈ s.tree)
    (ha : o ≤ a) (hb : a + n ≤ o + l) (i : Nat) (h1 : a ≤ i) (h2 : i < a + n) :
    bit s.bits i = false ∧ UserUsed s' i ∧ hdrBlk s ≤ i := by
  have hr := (hI.ix.idx o l).mp hm
  have hz := hr.2.1 i (by omega) (by omega)
  have hsz := lt_size_of_bit_false hz
  refine ⟨hz, ⟨by rw [h.bits, size_setRange]; exact hsz, ?_, ?_⟩, ?_⟩
  · rw [h.bits, bit_setRange, if_pos ⟨h1, h2, hsz⟩]
  · rw [h.frame.bmOffBlk, h.frame.bmLenBlk]
    intro c
    have := hI.bm i c.1 c.2
    rw [hz] at this; cases this
  · by_cases c : i < hdrBlk s
    · have := hI.hdr.2 i c; rw [hz] at this; cases this
    · omega

/-- `_fsm_resize_fsm_bitmap_lw`: the invariant is preserved and nothing that was allocated to the header or a caller is lost -/
theorem resizeBitmap_spec {s : St} (hI : Inv s) (sz : Nat) :
    Inv (resizeBitmap s sz).1 ∧ ∀ i, UserUsed s i → UserUsed (resizeBitmap s sz).1 i := by
  unfold resizeBitmap
  split
  · exact ⟨hI, fun i h => h⟩
  · rename_i hlt
    simp only
    have hk := bsz_pos s
    have hap := aunit_pos hI.au
    -- the new length is at least one page, hence at least one block
    have hL : 0 < roundup sz s.aunit / bsz s := by
      have h1 := le_roundup sz hap
      have h2 := roundup_mod sz s.aunit
      have h3 : s.aunit ≤ roundup sz s.aunit := by
        have := Nat.div_add_mod (roundup sz s.aunit) s.aunit
        rw [h2] at this
        have hq : 0 < roundup sz s.aunit / s.aunit := by
          by_cases c : roundup sz s.aunit / s.aunit = 0
          · rw [c] at this; omega
          · exact Nat.pos_of_ne_zero c
        calc s.aunit = s.aunit * 1 := (Nat.mul_one _).symm
          _ ≤ s.aunit * (roundup sz s.aunit / s.aunit) := Nat.mul_le_mul_left _ hq
          _ = roundup sz s.aunit := by omega
      have h4 : bsz s ≤ s.aunit := by
        have := hI.au; unfold aunitBlk at this
        by_cases c : bsz s ≤ s.aunit
        · exact c
        · rw [Nat.div_eq_of_lt (by omega)] at this; cases this
      exact Nat.div_pos (by omega) hk
    have hspec := allocAligned_spec hI (maxOff := uint64Max) hL
    generalize hA : allocAligned s (roundup sz s.aunit / bsz s) uint64Max = r at hspec
    obtain ⟨s1, rc, off⟩ := r
    simp only at hspec ⊢
    rcases hspec with ⟨h1, h2⟩ | ⟨h1, o, l, hm, ho, hle, htk, _, _⟩
    · subst h1; subst h2
      simp only
      have hhdr : hdrBlk s1 ≤ roundup (s1.bmlen * bsz s1 * 8) s1.aunit / bsz s1 := by
        have h1 := le_roundup (s1.bmlen * bsz s1 * 8) hap
        have h2 : s1.bmlen * bsz s1 * 8 / bsz s1 = s1.bmlen * 8 := by
          have : s1.bmlen * bsz s1 * 8 = bsz s1 * (s1.bmlen * 8) := by
            rw [Nat.mul_comm s1.bmlen, Nat.mul_assoc]
          rw [this, Nat.mul_div_cancel_left _ hk]
        have h3 := Nat.div_le_div_right (c := bsz s1) h1
        have := hI.hb; have := hI.bm_in; unfold nbits at *; omega
      obtain ⟨a, b⟩ := initLw_spec hI (roundup (s1.bmlen * bsz s1 * 8) s1.aunit) (roundup sz s1.aunit) hhdr
      refine ⟨a, fun i hu => b i hu ?_⟩
      have h1 := le_roundup (s1.bmlen * bsz s1 * 8) hap
      have h2 : s1.bmlen * bsz s1 * 8 / bsz s1 = s1.bmlen * 8 := by
        have : s1.bmlen * bsz s1 * 8 = bsz s1 * (s1.bmlen * 8) := by
          rw [Nat.mul_comm s1.bmlen, Nat.mul_assoc]
        rw [this, Nat.mul_div_cancel_left _ hk]
      have h3 := Nat.div_le_div_right (c := bsz s1) h1
      have := hu.1; have := hI.size; unfold nbits at *; omega
    · subst h1
      simp only
      have hI1 := htk.inv hI
      have hfr := htk.frame
      have hoh : hdrBlk s ≤ o := by
        have hr := (hI.ix.idx o l).mp hm
        have hz := hr.2.1 o (Nat.le_refl _) (by have := hr.1; omega)
        by_cases c : o < hdrBlk s
        · have := hI.hdr.2 o c; rw [hz] at this; cases this
        · omega
      have hdiv : off * bsz s / bsz s1 = off := by rw [hfr.bsz, Nat.mul_div_cancel _ hk]
      have hhdr : hdrBlk s1 ≤ off * bsz s / bsz s1 := by rw [hdiv, hfr.hdrBlk]; omega
      obtain ⟨a, b⟩ := initLw_spec hI1 (off * bsz s) (roundup sz s.aunit) hhdr
      refine ⟨a, fun i hu => ?_⟩
      obtain ⟨c1, c2⟩ := userUsed_taken hI htk hm ho hle i hu
      apply b i c1
      rw [hdiv, hfr.bsz]; exact c2

/-! ### geometry that no operation changes -/

/-- block size, page size, header length and mode are the same -/
structure Geo (s s' : St) : Prop where
  bpow : s'.bpow = s.bpow
  aunit : s'.aunit = s.aunit
  hdrlen : s'.hdrlen = s.hdrlen
  strict : s'.strict = s.strict

theorem Geo.refl (s : St) : Geo s s := ⟨rfl, rfl, rfl, rfl⟩
theorem Geo.trans {a b c : St} (h1 : Geo a b) (h2 : Geo b c) : Geo a c :=
  ⟨h2.bpow.trans h1.bpow, h2.aunit.trans h1.aunit, h2.hdrlen.trans h1.hdrlen, h2.strict.trans h1.strict⟩
theorem Frame.geo {s s' : St} (h : Frame s s') : Geo s s' := ⟨h.bpow, h.aunit, h.hdrlen, h.strict⟩
theorem Moved.geo {s s' : St} {bo bl : Nat} (h : Moved s s' bo bl) : Geo s s' := ⟨h.bpow, h.aunit, h.hdrlen, h.strict⟩
theorem Geo.bsz {s s' : St} (h : Geo s s') : Fsm.bsz s' = Fsm.bsz s := by simp [Fsm.bsz, h.bpow]
theorem Geo.hdrBlk {s s' : St} (h : Geo s s') : Fsm.hdrBlk s' = Fsm.hdrBlk s := by simp [Fsm.hdrBlk, h.hdrlen, h.bsz]
theorem Geo.aunitBlk {s s' : St} (h : Geo s s') : Fsm.aunitBlk s' = Fsm.aunitBlk s := by
  simp [Fsm.aunitBlk, h.aunit, h.bsz]

theorem setBits_frame (s : St) (off len : Nat) (v : Bool) : Frame s (setBits s off len v).1 := by
  unfold setBits; split <;> exact ⟨rfl, rfl, rfl, rfl, rfl, rfl⟩

theorem mergeLeft_frame (s : St) (off len : Nat) : Frame s (mergeLeft s off len).1 := by
  unfold mergeLeft
  repeat' split
  all_goals first | exact delFbk_frame _ _ _ | exact Frame.refl _

theorem mergeRight_frame (s : St) (e klen : Nat) (r : Option Nat) : Frame s (mergeRight s e klen r).1 := by
  unfold mergeRight
  repeat' split
  all_goals first | exact delFbk_frame _ _ _ | exact Frame.refl _

theorem deallocLw_frame (s : St) (off len : Nat) : Frame s (deallocLw s off len).1 := by
  unfold deallocLw
  simp only
  split
  · exact Frame.refl _
  · split
    · exact setBits_frame _ _ _ _
    · exact (setBits_frame _ _ _ _).trans ((mergeLeft_frame _ _ _).trans ((mergeRight_frame _ _ _ _).trans (putFbk_frame _ _ _)))

theorem carve_frame (s : St) (k : Ext) (len : Nat) : Frame s (carve s k len).1 := by
  unfold carve
  simp only
  repeat' split
  all_goals first
    | exact (delFbk_frame _ _ _).trans ((putFbk_frame _ _ _).trans (putFbk_frame _ _ _))
    | exact (delFbk_frame _ _ _).trans (putFbk_frame _ _ _)
    | exact delFbk_frame _ _ _

theorem allocAligned_frame (s : St) (len maxOff : Nat) : Frame s (allocAligned s len maxOff).1 := by
  unfold allocAligned
  split
  · exact Frame.refl _
  · exact (carve_frame _ _ _).trans (setBits_frame _ _ _ _)

theorem initLw_geo (s : St) (bo bl : Nat) : Geo s (initLw s bo bl).1 := by
  unfold initLw
  split
  · exact Geo.refl _
  · split
    · exact Geo.refl _
    · split
      · exact Geo.refl _
      · simp only
        have h1 := (ensureSize_frame s (bo + bl)).geo
        generalize ensureSize s (bo + bl) = s1 at h1
        split
        · exact h1
        · split
          · exact h1.trans ((installBitmap_moved _ _ _).geo.trans (deallocLw_frame _ _ _).geo)
          · exact h1.trans (installBitmap_moved _ _ _).geo

theorem resizeBitmap_geo (s : St) (sz : Nat) : Geo s (resizeBitmap s sz).1 := by
  unfold resizeBitmap
  split
  · exact Geo.refl _
  · simp only
    have h := allocAligned_frame s (roundup sz s.aunit / bsz s) uint64Max
    generalize allocAligned s (roundup sz s.aunit / bsz s) uint64Max = r at h
    obtain ⟨s1, rc, off⟩ := r
    simp only at h ⊢
    split
    · exact h.geo.trans (initLw_geo _ _ _)
    · exact h.geo.trans (initLw_geo _ _ _)
    · exact h.geo

theorem userUsed_ensureSize {s : St} (sz i : Nat) : UserUsed (ensureSize s sz) i ↔ UserUsed s i := by
  have hf := ensureSize_frame s sz
  unfold UserUsed; rw [ensureSize_bits, hf.bmOffBlk, hf.bmLenBlk]

/-- what a successful `_fsm_blk_allocate_lw` guarantees about the returned blocks `[off, off+olen)`, relative to the
    state `s` before the call and the state `s'` after it -/
structure AllocOk (s s' : St) (len : Nat) (f : Flags) (off olen : Nat) : Prop where
  len_ge : len ≤ olen
  exact : f.noOver = true → olen = len
  aligned : f.pageAligned = true → off % aunitBlk s = 0 ∧ olen = len
  solid : f.solid = true → (off + olen) * bsz s ≤ s'.fsize
  fresh : ∀ i, off ≤ i → i < off + olen → ¬ UserUsed s i ∧ UserUsed s' i ∧ hdrBlk s ≤ i

/-- `_fsm_blk_allocate_lw`, including any number of bitmap doublings -/
theorem allocLw_spec (hr : Heur) {len : Nat} (hlen : 0 < len) (hint : Nat) (f : Flags) (fuel : Nat) (s : St)
    (hI : Inv s) :
    Inv (allocLw hr s len hint f fuel).1 ∧ Geo s (allocLw hr s len hint f fuel).1 ∧
    (∀ i, UserUsed s i → UserUsed (allocLw hr s len hint f fuel).1 i) ∧
    ((allocLw hr s len hint f fuel).2.1 = .ok →
      AllocOk s (allocLw hr s len hint f fuel).1 len f (allocLw hr s len hint f fuel).2.2.1
        (allocLw hr s len hint f fuel).2.2.2) := by
  induction fuel generalizing s with
  | zero => exact ⟨hI, Geo.refl _, fun i h => h, fun h => by simp [allocLw] at h⟩
  | succ fuel ih =>
    -- continuation after a bitmap doubling
    have grow : ∀ (o1 o2 : Nat), 
        let r := (if (resizeBitmap s (s.bmlen * 2)).2 ≠ .ok then
            ((resizeBitmap s (s.bmlen * 2)).1, (resizeBitmap s (s.bmlen * 2)).2, o1, o2)
          else allocLw hr (resizeBitmap s (s.bmlen * 2)).1 len hint f fuel)
        Inv r.1 ∧ Geo s r.1 ∧ (∀ i, UserUsed s i → UserUsed r.1 i) ∧
          (r.2.1 = .ok → AllocOk s r.1 len f r.2.2.1 r.2.2.2) := by
      intro o1 o2
      obtain ⟨hI2, hmono⟩ := resizeBitmap_spec hI (s.bmlen * 2)
      have hg := resizeBitmap_geo s (s.bmlen * 2)
      simp only
      split
      · rename_i hne
        exact ⟨hI2, hg, hmono, fun h => absurd h hne⟩
      · obtain ⟨a, b, c, d⟩ := ih _ hI2
        refine ⟨a, hg.trans b, fun i h => c i (hmono i h), fun h => ?_⟩
        have e := d h
        exact ⟨e.len_ge, e.exact, by rw [← hg.aunitBlk]; exact e.aligned, by rw [← hg.bsz]; exact e.solid,
          fun i h1 h2 => ⟨fun hu => (e.fresh i h1 h2).1 (hmono i hu), (e.fresh i h1 h2).2.1,
            by rw [← hg.hdrBlk]; exact (e.fresh i h1 h2).2.2⟩⟩
    unfold allocLw
    by_cases hpa : f.pageAligned = true
    · rw [if_pos hpa]
      have hspec := allocAligned_spec hI (maxOff := uint64Max) hlen
      generalize hA : allocAligned s len uint64Max = r at hspec
      obtain ⟨s1, rc, off⟩ := r
      simp only at hspec ⊢
      rcases hspec with ⟨h1, h2⟩ | ⟨h1, o, l, hm, ho, hle, htk, hal, _⟩
      · subst h1; subst h2
        simp only
        split
        · exact ⟨hI, Geo.refl _, fun i h => h, fun h => by cases h⟩
        · exact grow 0 0
      · subst h1
        simp only
        have hI1 := htk.inv hI
        have hfr := htk.frame
        refine ⟨?_, ?_, ?_, fun _ => ⟨Nat.le_refl _, fun _ => rfl, fun _ => ⟨hal, rfl⟩, ?_, ?_⟩⟩
        · split
          · exact inv_ensureSize hI1 _
          · exact hI1
        · split
          · exact hfr.geo.trans (ensureSize_frame _ _).geo
          · exact hfr.geo
        · intro i hu
          have := (userUsed_taken hI htk hm ho hle i hu).1
          split
          · exact (userUsed_ensureSize _ _).mpr this
          · exact this
        · intro hso
          simp only [hso, if_true]
          have := ensureSize_ge s1 ((off + len) * bsz s1) (by rw [hfr.aunit]; exact aunit_pos hI.au)
          rw [← hfr.bsz]; exact this
        · intro i h1 h2
          obtain ⟨a, b, c⟩ := taken_region hI htk hm ho hle i h1 h2
          refine ⟨fun hu => ?_, ?_, c⟩
          · rw [hu.2.1] at a; cases a
          · split
            · exact (userUsed_ensureSize _ _).mpr b
            · exact b
    · rw [if_neg hpa]
      cases hfm : findMatching s.tree hint len with
      | some k =>
        obtain ⟨o, l⟩ := k
        simp only
        obtain ⟨hm, hle⟩ := findMatching_spec hfm
        obtain ⟨a1, a2, a3, a4, a5, a6, a7⟩ := allocFound_spec hr hI f hlen hm hle
        have hI1 := a6.inv hI
        refine ⟨hI1, a6.frame.geo, fun i hu => (userUsed_taken hI a6 hm (Nat.le_refl _) (by omega) i hu).1,
          fun _ => ⟨a3, a5, fun h => absurd h hpa, ?_, ?_⟩⟩
        · intro hso; rw [a2]; exact a7 hso
        · intro i h1 h2
          rw [a2] at h1 h2
          obtain ⟨a, b, c⟩ := taken_region hI a6 hm (Nat.le_refl _) (by omega) i h1 h2
          exact ⟨fun hu => (by rw [hu.2.1] at a; cases a), b, c⟩
      | none =>
        simp only
        split
        · exact ⟨hI, Geo.refl _, fun i h => h, fun h => by cases h⟩
        · exact grow hint len

end IwModel.Fsm
