import IwModel.Model.Txt
/-! Helper lemmas for the C17 theorems about `_jbl_unescape_json_string` and `_jbl_parse_json_key`
(core Lean only). The invariant of every scan is `Term buf i`: a NUL terminator exists at or after
the read index; a byte that was read and is not NUL moves the invariant one step on. -/
namespace IwModel.Txt

/-- a NUL terminator exists at or after index `i` of the buffer -/
def Term (buf : Bytes) (i : Nat) : Prop := ∃ n, i ≤ n ∧ buf[n]? = some 0

theorem Term.read {buf : Bytes} {i : Nat} (h : Term buf i) : ∃ c, buf[i]? = some c := by
  obtain ⟨n, hin, hn⟩ := h
  have hlt : n < buf.length := by
    rcases List.getElem?_eq_some_iff.mp hn with ⟨hlt, _⟩; exact hlt
  have : i < buf.length := by omega
  exact ⟨buf[i], by simp [this]⟩

theorem Term.ne_none {buf : Bytes} {i : Nat} (h : Term buf i) : buf[i]? ≠ none := by
  obtain ⟨c, hc⟩ := h.read; simp [hc]

theorem Term.next {buf : Bytes} {i c : Nat} (h : Term buf i) (hc : buf[i]? = some c) (h0 : c ≠ 0) : Term buf (i + 1) := by
  obtain ⟨n, hin, hn⟩ := h
  refine ⟨n, ?_, hn⟩
  rcases Nat.lt_or_eq_of_le hin with hlt | heq
  · omega
  · subst heq; rw [hc] at hn; simp at hn; omega

theorem Term.mono {buf : Bytes} {i j : Nat} (h : Term buf i) (hji : j ≤ i) : Term buf j := by
  obtain ⟨n, hin, hn⟩ := h; exact ⟨n, by omega, hn⟩

theorem hexv_ne_zero {c h : Nat} (hh : hexv c = some h) : c ≠ 0 := by
  intro h0; subst h0; simp [hexv] at hh

theorem hexv_lt {c h : Nat} (hh : hexv c = some h) : h < 16 := by
  unfold hexv at hh
  split at hh
  · simp at hh; omega
  · split at hh
    · simp at hh; omega
    · split at hh
      · simp at hh; omega
      · simp at hh

theorem hex4_safe {buf : Bytes} {j : Nat} (h : Term buf (j + 1)) : hex4 buf j ≠ .oob := by
  unfold hex4
  obtain ⟨c1, h1⟩ := h.read
  rw [h1]; dsimp only
  cases hv1 : hexv c1 with
  | none => simp
  | some v1 =>
    have t2 := h.next h1 (hexv_ne_zero hv1)
    obtain ⟨c2, h2⟩ := t2.read
    rw [h2]; dsimp only
    cases hv2 : hexv c2 with
    | none => simp
    | some v2 =>
      have t3 := t2.next h2 (hexv_ne_zero hv2)
      obtain ⟨c3, h3⟩ := t3.read
      rw [h3]; dsimp only
      cases hv3 : hexv c3 with
      | none => simp
      | some v3 =>
        have t4 := t3.next h3 (hexv_ne_zero hv3)
        obtain ⟨c4, h4⟩ := t4.read
        rw [h4]; dsimp only
        cases hv4 : hexv c4 <;> simp

theorem hex4_val {buf : Bytes} {j cp : Nat} (h : Term buf (j + 1)) (hv : hex4 buf j = .val cp) :
    Term buf (j + 5) ∧ cp < 65536 := by
  unfold hex4 at hv
  obtain ⟨c1, h1⟩ := h.read
  rw [h1] at hv; dsimp only at hv
  cases hv1 : hexv c1 with
  | none => simp [hv1] at hv
  | some v1 =>
    have t2 := h.next h1 (hexv_ne_zero hv1)
    obtain ⟨c2, h2⟩ := t2.read
    rw [hv1, h2] at hv; dsimp only at hv
    cases hv2 : hexv c2 with
    | none => simp [hv2] at hv
    | some v2 =>
      have t3 := t2.next h2 (hexv_ne_zero hv2)
      obtain ⟨c3, h3⟩ := t3.read
      rw [hv2, h3] at hv; dsimp only at hv
      cases hv3 : hexv c3 with
      | none => simp [hv3] at hv
      | some v3 =>
        have t4 := t3.next h3 (hexv_ne_zero hv3)
        obtain ⟨c4, h4⟩ := t4.read
        rw [hv3, h4] at hv; dsimp only at hv
        cases hv4 : hexv c4 with
        | none => simp [hv4] at hv
        | some v4 =>
          have t5 := t4.next h4 (hexv_ne_zero hv4)
          rw [hv4] at hv
          have := hexv_lt hv1; have := hexv_lt hv2; have := hexv_lt hv3; have := hexv_lt hv4
          simp only [H4.val.injEq] at hv
          exact ⟨t5, by omega⟩


theorem escMap_zero : escMap 0 = 256 := by decide

theorem escMap_ne_zero_of_lt {e : Nat} (h : escMap e < 256) : e ≠ 0 := by
  intro h0; subst h0; rw [escMap_zero] at h; omega

theorem escMap_ne_zero_of_u {e : Nat} (h : escMap e = 257) : e ≠ 0 := by
  intro h0; subst h0; rw [escMap_zero] at h; omega

/-- what a run of the `\\u` block guarantees about the terminator -/
def UEsc.good (buf : Bytes) (i : Nat) : UEsc → Prop
  | .oob => False
  | .bad => True
  | .one _ => Term buf (i + 6)
  | .pair _ => Term buf (i + 12)

theorem uEscape_good {buf : Bytes} {i : Nat} (h : Term buf (i + 2)) : (uEscape buf i).good buf i := by
  unfold uEscape
  have s1 := hex4_safe (j := i + 1) h
  cases hv : hex4 buf (i + 1) with
  | oob => exact absurd hv s1
  | bad => simp [UEsc.good]
  | val cp =>
    have t6 : Term buf (i + 6) := (hex4_val h hv).1
    dsimp only
    split
    · obtain ⟨b, hb⟩ := t6.read
      rw [hb]; dsimp only
      split
      · simp [UEsc.good]
      · have t7 := t6.next hb (by omega)
        obtain ⟨u, hu⟩ := t7.read
        rw [hu]; dsimp only
        split
        · simp [UEsc.good]
        · have t8 : Term buf (i + 7 + 1) := t7.next hu (by omega)
          have s2 := hex4_safe (j := i + 7) t8
          cases hv2 : hex4 buf (i + 7) with
          | oob => exact absurd hv2 s2
          | bad => simp [UEsc.good]
          | val cp2 =>
            have t12 : Term buf (i + 12) := (hex4_val t8 hv2).1
            dsimp only
            generalize pairCp cp cp2 = x
            split
            · simp [UEsc.good]
            · split
              · simpa [UEsc.good] using t12
              · simp [UEsc.good]
    · split
      · simpa [UEsc.good] using t6
      · simp [UEsc.good]

theorem uEscape_safe {buf : Bytes} {i : Nat} (h : Term buf (i + 2)) : uEscape buf i ≠ .oob := by
  intro he; have := uEscape_good h; rw [he] at this; exact this

theorem uEscape_one {buf : Bytes} {i cp : Nat} (h : Term buf (i + 2)) (hv : uEscape buf i = .one cp) :
    Term buf (i + 6) := by
  have := uEscape_good h; rw [hv] at this; exact this

theorem uEscape_pair {buf : Bytes} {i cp : Nat} (h : Term buf (i + 2)) (hv : uEscape buf i = .pair cp) :
    Term buf (i + 12) := by
  have := uEscape_good h; rw [hv] at this; exact this

theorem unesc_safe (buf : Bytes) (q dlen i d : Nat) (out : Bytes) (h : Term buf i) :
    unesc buf q dlen i d out ≠ .oob := by
  fun_induction unesc buf q dlen i d out
  all_goals first
    | (simp; done)
    | grind [→ Term.next, → Term.ne_none, → uEscape_safe, → uEscape_one, → uEscape_pair, → escMap_ne_zero_of_lt, → escMap_ne_zero_of_u]

/-- after a successful run the terminator is still ahead of (or at) the end position -/
theorem unesc_end_term (buf : Bytes) (q dlen i d : Nat) (out : Bytes) (h : Term buf i) (r : UOk)
    (hr : unesc buf q dlen i d out = .ok r) : Term buf r.endp ∧ i < r.endp := by
  fun_induction unesc buf q dlen i d out
  all_goals first
    | (simp at hr; done)
    | grind [→ Term.next, → Term.ne_none, → uEscape_safe, → uEscape_one, → uEscape_pair, → escMap_ne_zero_of_lt, → escMap_ne_zero_of_u]

/-- what the caller sees of a run besides the bytes stored -/
def shape : R UOk → R (Nat × Nat)
  | .oob => .oob
  | .err e => .err e
  | .ok r => .ok (r.len, r.endp)

@[simp] theorem put_zero (d x : Nat) : put [] d 0 x = [] := by simp [put]

@[simp] theorem putAll_zero (d : Nat) (xs : Bytes) : putAll [] d 0 xs = [] := by
  induction xs generalizing d with
  | nil => rfl
  | cons x xs ih => simp [putAll, ih]

/-- The value returned and the end position do not depend on the output buffer at all: every run has
    the shape of the length pass (`dlen = 0`). -/
theorem unesc_shape (buf : Bytes) (q dlen i d : Nat) (out : Bytes) :
    shape (unesc buf q dlen i d out) = shape (unesc buf q 0 i d []) := by
  fun_induction unesc buf q dlen i d out
  all_goals (rw [unesc.eq_def buf q 0 _ _ []]; grind [shape, put_zero, putAll_zero])

theorem put_length (out : Bytes) (d dlen x : Nat) (h : out.length = min d dlen) :
    (put out d dlen x).length = min (d + 1) dlen := by
  unfold put
  split
  · simp; omega
  · omega

theorem putAll_length (out : Bytes) (d dlen : Nat) (xs : Bytes) (h : out.length = min d dlen) :
    (putAll out d dlen xs).length = min (d + xs.length) dlen := by
  induction xs generalizing out d with
  | nil => simpa [putAll] using h
  | cons x xs ih =>
    simp only [putAll, List.length_cons]
    rw [ih _ _ (put_length out d dlen x h)]
    omega

/-- the bytes stored are exactly the first `min len dlen` output positions -/
theorem unesc_out_length (buf : Bytes) (q dlen i d : Nat) (out : Bytes) (h : out.length = min d dlen) (r : UOk)
    (hr : unesc buf q dlen i d out = .ok r) : r.out.length = min r.len dlen := by
  fun_induction unesc buf q dlen i d out
  all_goals first
    | (simp at hr; done)
    | grind [put_length, putAll_length]


theorem shape_ok {x : R UOk} {a b : Nat} (h : shape x = .ok (a, b)) : ∃ r, x = .ok r ∧ r.len = a ∧ r.endp = b := by
  cases x with
  | oob => simp [shape] at h
  | err e => simp [shape] at h
  | ok r => simp only [shape, R.ok.injEq, Prod.mk.injEq] at h; exact ⟨r, rfl, h.1, h.2⟩

/-- the two passes as the callers run them: never out of range; the fill pass reports the length the
    length pass announced, stores exactly that many bytes, and leaves the terminator ahead. -/
theorem unescTwoPass_spec (buf : Bytes) (q i : Nat) (h : Term buf i) :
    unescTwoPass buf q i ≠ .oob ∧
    ∀ len endp out len2, unescTwoPass buf q i = .ok (len, endp, out, len2) →
      len2 = len ∧ out.length = len ∧ Term buf endp ∧ i < endp := by
  unfold unescTwoPass
  have s1 := unesc_safe buf q 0 i 0 [] h
  cases h1 : unesc buf q 0 i 0 [] with
  | oob => exact absurd h1 s1
  | err e => simp
  | ok r1 =>
    dsimp only
    have s2 := unesc_safe buf q r1.len i 0 [] h
    have hs := unesc_shape buf q r1.len i 0 []
    rw [h1] at hs
    cases h2 : unesc buf q r1.len i 0 [] with
    | oob => exact absurd h2 s2
    | err e => rw [h2] at hs; simp [shape] at hs
    | ok r2 =>
      rw [h2] at hs
      simp only [shape, R.ok.injEq, Prod.mk.injEq] at hs
      have hl := unesc_out_length buf q r1.len i 0 [] (by simp) r2 h2
      have ht := unesc_end_term buf q r1.len i 0 [] h r2 h2
      refine ⟨by simp, ?_⟩
      intro len endp out len2 heq
      simp only [R.ok.injEq, Prod.mk.injEq] at heq
      obtain ⟨e1, e2, e3, e4⟩ := heq
      subst e1 e2 e3 e4
      refine ⟨hs.1, ?_, ht.1, ht.2⟩
      rw [hl, hs.1]; simp

theorem skipWs_term (buf : Bytes) (i : Nat) (h : Term buf i) : ∃ j, skipWs buf i = some j ∧ Term buf j := by
  fun_induction skipWs buf i
  all_goals grind [→ Term.next, → Term.ne_none]

theorem parseKey_safe (buf : Bytes) (i : Nat) (h : Term buf i) : parseKey buf i ≠ .oob := by
  fun_induction parseKey buf i
  all_goals first
    | (simp; done)
    | grind [→ Term.next, → Term.ne_none, unescTwoPass_spec, skipWs_term]

end IwModel.Txt
