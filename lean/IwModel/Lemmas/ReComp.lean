import IwModel.Lemmas.Re
import IwModel.Lemmas.ReVm
/-! Lemmas about the regular-expression compiler model (core Lean only): `compile_char_class` re-reads
exactly what `parse_char_class` accepted, `compile_context` emits exactly `count_instructions(node)`
instructions whose jump targets stay inside the block (or address the instruction that follows it). -/
namespace IwModel.Re
open IwModel.ReVm (Instr)

theorem classAdd_spec (bits : List Nat) (ch : Nat) (hl : bits.length = 32) (hc : ch < 256) :
    ∃ b', classAdd bits ch = some b' ∧ b'.length = 32 := by
  have : ch / 8 < bits.length := by omega
  have h : bits[ch / 8]? = some bits[ch / 8] := by simp [this]
  simp only [classAdd, h]
  exact ⟨_, rfl, by simp [hl]⟩

theorem classAddRange_spec : ∀ (k : Nat) (bits : List Nat) (ch : Nat), bits.length = 32 → ch + k ≤ 256 →
    ∃ b', classAddRange bits ch k = some b' ∧ b'.length = 32 := by
  intro k
  induction k with
  | zero => intro bits ch hl _; exact ⟨bits, rfl, hl⟩
  | succ k ih =>
    intro bits ch hl hc
    obtain ⟨b1, h1, h2⟩ := classAdd_spec bits ch hl (by omega)
    obtain ⟨b2, h3, h4⟩ := ih b1 (ch + 1) h2 (by omega)
    exact ⟨b2, by simp [classAddRange, h1, h3], h4⟩

theorem classAdd_len {bits b' : List Nat} {ch : Nat} (h : classAdd bits ch = some b') : b'.length = bits.length := by
  unfold classAdd at h
  split at h
  · simp at h
  · injection h with h; rw [← h]; simp

theorem classAddRange_len : ∀ (k : Nat) {bits b' : List Nat} {ch : Nat}, classAddRange bits ch k = some b' → b'.length = bits.length := by
  intro k
  induction k with
  | zero => intro bits b' ch h; simp [classAddRange] at h; rw [h]
  | succ k ih =>
    intro bits b' ch h
    unfold classAddRange at h
    split at h
    · simp at h
    · rename_i b1 h1; rw [ih h, classAdd_len h1]

theorem classAdd_ne_none {bits : List Nat} {ch : Nat} (hl : bits.length = 32) (hc : ch < 256) : classAdd bits ch ≠ none := by
  obtain ⟨b, h, _⟩ := classAdd_spec bits ch hl hc; simp [h]

theorem classAddRange_ne_none {bits : List Nat} {ch k : Nat} (hl : bits.length = 32) (hc : ch + k ≤ 256) :
    classAddRange bits ch k ≠ none := by
  obtain ⟨b, h, _⟩ := classAddRange_spec k bits ch hl hc; simp [h]

/-- one unfolding of `clsFill` with a plain `match` -/
theorem clsFill_unfold (pat : Bytes) (frm i : Nat) (bits : List Nat) :
    clsFill pat frm i bits =
      match pat[i]? with
      | none => .oob
      | some ch =>
      if ch = 93 ∧ i ≠ frm then .ok bits
      else if ch = 92 then
        match pat[i + 1]? with
        | none => .oob
        | some c2 =>
          match pat[i + 2]? with
          | none => .oob
          | some d =>
            if d = 45 then
              match pat[i + 3]? with
              | none => .oob
              | some hi =>
                if hi ≠ 93 then
                  match classAddRange bits c2 (hi + 1 - c2) with
                  | none => .oob
                  | some bits => clsFill pat frm (i + 4) bits
                else
                  match classAdd bits c2 with
                  | none => .oob
                  | some bits => clsFill pat frm (i + 2) bits
            else
              match classAdd bits c2 with
              | none => .oob
              | some bits => clsFill pat frm (i + 2) bits
      else
        match pat[i + 1]? with
        | none => .oob
        | some d =>
          if d = 45 then
            match pat[i + 2]? with
            | none => .oob
            | some hi =>
              if hi ≠ 93 then
                match classAddRange bits ch (hi + 1 - ch) with
                | none => .oob
                | some bits => clsFill pat frm (i + 3) bits
              else
                match classAdd bits ch with
                | none => .oob
                | some bits => clsFill pat frm (i + 1) bits
          else
            match classAdd bits ch with
            | none => .oob
            | some bits => clsFill pat frm (i + 1) bits := by
  rw [clsFill]
  split
  · rename_i h; simp only [h]
  · rename_i c h; simp only [h]; rfl

theorem fill_step {pat : Bytes} {frm j : Nat} (o : Option (List Nat)) (hne : o ≠ none) (hlen : ∀ b, o = some b → b.length = 32)
    (ih : ∀ bits : List Nat, bits.length = 32 → ∃ b', clsFill pat frm j bits = .ok b' ∧ b'.length = 32) :
    ∃ b', (match o with | none => R.oob | some bits => clsFill pat frm j bits) = .ok b' ∧ b'.length = 32 := by
  cases o with
  | none => exact absurd rfl hne
  | some b => exact ih b (hlen b rfl)

theorem clsFill_spec {pat : Bytes} (hb : ∀ (j c : Nat), pat[j]? = some c → c < 256) (frm i to : Nat) :
    clsScan pat frm i = .ok to → ∀ bits : List Nat, bits.length = 32 →
      ∃ b', clsFill pat frm i bits = .ok b' ∧ b'.length = 32 := by
  fun_induction clsScan pat frm i
  all_goals
    intro hok bits hl
    first
    | (simp at hok; done)
    | (rw [clsFill_unfold]
       simp [*]
       try (
         have IH := ‹clsScan pat frm _ = R.ok to → _› hok
         first
         | exact fill_step _ (classAdd_ne_none hl (by grind)) (fun b h => by rw [classAdd_len h]; exact hl) IH
         | exact fill_step _ (classAddRange_ne_none hl (by grind)) (fun b h => by rw [classAddRange_len _ h]; exact hl) IH))

/-- `count_instructions` without the `int` bound -/
def Node.countN : Node → Nat
  | .eps => 0
  | .chr _ | .any | .cls _ _ _ | .abegin | .aend => 1
  | .cat l r => l.countN + r.countN
  | .alt l r => 2 + l.countN + r.countN
  | .quant nmin nmax _ q =>
    match nmax with
    | some m =>
      if m ≥ nmin then nmin * q.countN + (m - nmin) * (q.countN + 1)
      else 1 + (if nmin ≠ 0 then nmin * q.countN else q.countN + 1)
    | none => 1 + (if nmin ≠ 0 then nmin * q.countN else q.countN + 1)
  | .cap c => 2 + c.countN

theorem mulc_some {a b k : Nat} (h : mulc a b = some k) : k = a * b := by
  unfold mulc at h; split at h <;> simp at h; omega
theorem addc_some {a b k : Nat} (h : addc a b = some k) : k = a + b := by
  unfold addc at h; split at h <;> simp at h; omega

theorem count_eq : ∀ (node : Node) (k : Nat), node.count = some k → k = node.countN := by
  intro node
  induction node with
  | eps => intro k h; simp [Node.count] at h; simp [Node.countN, h]
  | chr c => intro k h; simp [Node.count] at h; simp [Node.countN, h]
  | any => intro k h; simp [Node.count] at h; simp [Node.countN, h]
  | cls a b c => intro k h; simp [Node.count] at h; simp [Node.countN, h]
  | abegin => intro k h; simp [Node.count] at h; simp [Node.countN, h]
  | aend => intro k h; simp [Node.count] at h; simp [Node.countN, h]
  | cat l r ihl ihr =>
    intro k h
    simp only [Node.count, Option.bind_eq_bind, Option.bind_eq_some_iff] at h
    obtain ⟨a, ha, b, hb, h⟩ := h
    rw [Node.countN, ← ihl a ha, ← ihr b hb]; exact addc_some h
  | alt l r ihl ihr =>
    intro k h
    simp only [Node.count, Option.bind_eq_bind, Option.bind_eq_some_iff] at h
    obtain ⟨a, ha, a2, ha2, b, hb, h⟩ := h
    rw [Node.countN, ← ihl a ha, ← ihr b hb]
    have := addc_some ha2; have := addc_some h; omega
  | cap c ih =>
    intro k h
    simp only [Node.count, Option.bind_eq_bind, Option.bind_eq_some_iff] at h
    obtain ⟨a, ha, h⟩ := h
    rw [Node.countN, ← ih a ha]; exact addc_some h
  | quant nmin nmax g q ih =>
    intro k h
    simp only [Node.count, Option.bind_eq_bind, Option.bind_eq_some_iff] at h
    obtain ⟨num, hnum, h⟩ := h
    have := ih num hnum
    subst this
    have tail : ∀ k, (if nmin ≠ 0 then (mulc nmin q.countN).bind fun x => addc 1 x
        else (addc q.countN 1).bind fun x => addc 1 x) = some k →
        k = 1 + (if nmin ≠ 0 then nmin * q.countN else q.countN + 1) := by
      intro k h
      split at h
      · rename_i hn; rw [if_pos hn]
        simp only [Option.bind_eq_some_iff] at h
        obtain ⟨a, ha, h⟩ := h
        have := mulc_some ha; have := addc_some h; omega
      · rename_i hn; rw [if_neg hn]
        simp only [Option.bind_eq_some_iff] at h
        obtain ⟨a, ha, h⟩ := h
        have := addc_some ha; have := addc_some h; omega
    cases nmax with
    | none => simp only [Node.countN]; exact tail k h
    | some m =>
      simp only [Node.countN]
      dsimp only at h
      split at h
      · rename_i hge; rw [if_pos hge]
        simp only [Option.bind_eq_some_iff] at h
        obtain ⟨a, ha, b, hb, h⟩ := h
        have := mulc_some ha; have := mulc_some hb; have := addc_some h
        omega
      · rename_i hge; rw [if_neg hge]; exact tail k h

/-- an instruction of a block whose jump targets are at most `bound` (the offset behind the block) -/
def InsOk (bound : Nat) : Instr → Prop
  | .mtch => False
  | .chr c => c ≠ 0
  | .cls _ bits => bits.length = 32
  | .split a b => a ≤ bound ∧ b ≤ bound
  | .jump t => t ≤ bound
  | _ => True

def Block (is : List Instr) (bound : Nat) : Prop := ∀ ins ∈ is, InsOk bound ins

theorem InsOk.mono {b b' : Nat} {ins : Instr} (h : InsOk b ins) (hb : b ≤ b') : InsOk b' ins := by
  cases ins <;> simp only [InsOk] at h ⊢ <;> first | exact h | omega | trivial

theorem Block.mono {is : List Instr} {b b' : Nat} (h : Block is b) (hb : b ≤ b') : Block is b' :=
  fun ins hi => (h ins hi).mono hb

theorem Block.nil (b : Nat) : Block [] b := fun _ h => by simp at h

theorem Block.append {a c : List Instr} {b : Nat} (ha : Block a b) (hc : Block c b) : Block (a ++ c) b := by
  intro ins hi; rcases List.mem_append.mp hi with h | h; exact ha ins h; exact hc ins h

theorem Block.cons {ins : Instr} {a : List Instr} {b : Nat} (hi : InsOk b ins) (ha : Block a b) : Block (ins :: a) b := by
  intro x hx; rcases List.mem_cons.mp hx with h | h; exact h ▸ hi; exact ha x h

/-- `f` compiles some node to `L` instructions at every offset -/
def EmitGood (f : Nat → Emit) (L : Nat) : Prop :=
  ∀ p, ∃ is nc', f p = .ok (is, nc') ∧ is.length = L ∧ Block is (p + L)

theorem repCopies_spec {f : Nat → Emit} {L : Nat} (hf : EmitGood f L) : ∀ (k pc last nc : Nat),
    ∃ is last' nc', repCopies f k pc last nc = .ok (is, last', nc') ∧ is.length = k * L ∧ Block is (pc + k * L) ∧
      (k = 0 → last' = last) ∧ (0 < k → last' ≤ pc + k * L) := by
  intro k
  induction k with
  | zero => intro pc last nc; exact ⟨[], last, nc, rfl, by simp, Block.nil _, fun _ => rfl, fun h => by omega⟩
  | succ k ih =>
    intro pc last nc
    obtain ⟨a, nc1, h1, h2, h3⟩ := hf pc
    obtain ⟨b, last', nc2, h4, h5, h6, h7, h8⟩ := ih (pc + a.length) pc nc1
    have hm : (k + 1) * L = L + k * L := by rw [Nat.succ_mul]; omega
    refine ⟨a ++ b, last', nc2, by simp only [repCopies, h1, h4], by simp [h2, h5, hm], ?_, by omega, ?_⟩
    · rw [hm]; rw [h2] at h6
      exact (h3.mono (by omega)).append (h6.mono (by omega))
    · intro _
      rcases Nat.eq_zero_or_pos k with hk | hk
      · rw [h7 hk]; omega
      · have := h8 hk; rw [hm]; omega

theorem repOpts_spec {f : Nat → Emit} {L : Nat} (hf : EmitGood f L) (g : Bool) : ∀ (k pc nc : Nat),
    ∃ is nc', repOpts f g k pc nc = .ok (is, nc') ∧ is.length = k * (L + 1) ∧ Block is (pc + k * (L + 1)) := by
  intro k
  induction k with
  | zero => intro pc nc; exact ⟨[], nc, rfl, by simp, Block.nil _⟩
  | succ k ih =>
    intro pc nc
    obtain ⟨a, nc1, h1, h2, h3⟩ := hf (pc + 1)
    obtain ⟨b, nc2, h4, h5, h6⟩ := ih (pc + 1 + a.length) nc1
    have hm : (k + 1) * (L + 1) = (L + 1) + k * (L + 1) := by rw [Nat.succ_mul]; omega
    refine ⟨(if g = true then Instr.split (pc + 1) (pc + 1 + a.length) else Instr.split (pc + 1 + a.length) (pc + 1)) :: a ++ b,
      nc2, by simp only [repOpts, h1, h4], by simp [h2, h5, hm]; omega, ?_⟩
    rw [hm]; rw [h2] at h6
    refine Block.cons ?_ ((h3.mono (by omega)).append (h6.mono (by omega)))
    cases g <;> simp [InsOk, h2] <;> omega


theorem comp_spec {pat : Bytes} (hb : ∀ (j c : Nat), pat[j]? = some c → c < 256) :
    ∀ (node : Node), NodeOk pat node → ∀ pc nc, ∃ is nc', comp pat node pc nc = .ok (is, nc') ∧
      is.length = node.countN ∧ Block is (pc + node.countN) := by
  intro node
  induction node with
  | eps => intro _ pc nc; exact ⟨[], nc, rfl, rfl, Block.nil _⟩
  | chr c => intro h pc nc; exact ⟨[.chr c], nc, rfl, rfl, Block.cons h (Block.nil _)⟩
  | any => intro _ pc nc; exact ⟨[.any], nc, rfl, rfl, Block.cons trivial (Block.nil _)⟩
  | abegin => intro _ pc nc; exact ⟨[.abegin], nc, rfl, rfl, Block.cons trivial (Block.nil _)⟩
  | aend => intro _ pc nc; exact ⟨[.aend], nc, rfl, rfl, Block.cons trivial (Block.nil _)⟩
  | cls neg frm to =>
    intro h pc nc
    obtain ⟨bits, h1, h2⟩ := clsFill_spec hb frm frm to h (List.replicate 32 0) (by simp)
    exact ⟨[.cls neg bits], nc, by simp only [comp, h1], rfl, Block.cons h2 (Block.nil _)⟩
  | cat l r ihl ihr =>
    intro h pc nc
    obtain ⟨a, nc1, h1, h2, h3⟩ := ihl h.1 pc nc
    obtain ⟨b, nc2, h4, h5, h6⟩ := ihr h.2 (pc + a.length) nc1
    refine ⟨a ++ b, nc2, by simp only [comp, h1, h4], by simp [Node.countN, h2, h5], ?_⟩
    rw [h2] at h6
    simp only [Node.countN]
    exact (h3.mono (by omega)).append (h6.mono (by omega))
  | alt l r ihl ihr =>
    intro h pc nc
    obtain ⟨a, nc1, h1, h2, h3⟩ := ihl h.1 (pc + 1) nc
    obtain ⟨b, nc2, h4, h5, h6⟩ := ihr h.2 (pc + 2 + a.length) nc1
    refine ⟨Instr.split (pc + 1) (pc + 2 + a.length) :: a ++ Instr.jump (pc + 2 + a.length + b.length) :: b, nc2,
      by simp only [comp, h1, h4], by simp [Node.countN, h2, h5]; omega, ?_⟩
    rw [h2] at h6
    simp only [Node.countN]
    refine Block.cons (by simp [InsOk, h2]; omega) ((h3.mono (by omega)).append (Block.cons (by simp [InsOk, h2, h5]; omega) (h6.mono (by omega))))
  | cap c ih =>
    intro h pc nc
    obtain ⟨a, nc1, h1, h2, h3⟩ := ih h (pc + 1) (nc + 1)
    refine ⟨Instr.save (nc * 2) :: a ++ [Instr.save (nc * 2 + 1)], nc1, by simp only [comp, h1], by simp [Node.countN, h2]; omega, ?_⟩
    simp only [Node.countN]
    exact Block.cons trivial ((h3.mono (by omega)).append (Block.cons trivial (Block.nil _)))
  | quant nmin nmax g q ih =>
    intro h pc nc
    have hf : EmitGood (fun p => comp pat q p nc) q.countN := fun p => ih h.1 p nc
    obtain ⟨a, last, nc1, h1, h2, h3, h4, h5⟩ := repCopies_spec hf nmin pc 0 nc
    simp only [comp, h1]
    cases nmax with
    | some m =>
      have hm := h.2 m rfl
      dsimp only
      by_cases hgt : m > nmin
      · rw [if_pos hgt]
        obtain ⟨b, nc2, h6, h7, h8⟩ := repOpts_spec hf g (m - nmin) (pc + a.length) nc1
        rw [h6]; dsimp only
        refine ⟨a ++ b, nc2, rfl, ?_, ?_⟩
        · simp only [Node.countN, List.length_append, h2, h7]; rw [if_pos (by omega)]
        · simp only [Node.countN]; rw [if_pos (by omega)]
          rw [h2] at h8
          exact (h3.mono (by omega)).append (h8.mono (by omega))
      · rw [if_neg hgt]
        have : m = nmin := by omega
        subst this
        refine ⟨a, nc1, rfl, ?_, ?_⟩
        · simp only [Node.countN, h2]; rw [if_pos (by omega)]; simp
        · simp only [Node.countN]; rw [if_pos (by omega)]; simp; exact h3
    | none =>
      dsimp only
      by_cases hz : nmin = 0
      · rw [if_pos hz]
        obtain ⟨b, nc2, h6, h7, h8⟩ := ih h.1 (pc + a.length + 1) nc1
        rw [h6]; dsimp only
        subst hz
        have ha : a.length = 0 := by simpa using h2
        refine ⟨_, nc2, rfl, ?_, ?_⟩
        · simp [Node.countN, ha, h7]; omega
        · simp only [Node.countN, ne_eq, not_true_eq_false, if_false]
          have ha' : a = [] := List.eq_nil_of_length_eq_zero ha
          subst ha'
          simp only [List.nil_append, List.length_nil, Nat.add_zero] at h8 ⊢
          refine Block.cons ?_ ((h8.mono (by omega)).append (Block.cons (by simp [InsOk]) (Block.nil _)))
          cases g <;> simp [InsOk, h7] <;> omega
      · rw [if_neg hz]
        have hl := h5 (by omega)
        refine ⟨_, nc1, rfl, ?_, ?_⟩
        · simp [Node.countN, h2, hz]; omega
        · simp only [Node.countN, ne_eq, hz, not_false_eq_true, if_true]
          refine (h3.mono (by omega)).append (Block.cons ?_ (Block.nil _))
          cases g <;> simp [InsOk, h2] <;> omega

/-- a block closed by `MATCH` is a well-formed VM program -/
theorem wf_of_block (is : List Instr) (h : Block is is.length) : ReVm.Wf (is ++ [.mtch]) := by
  intro pc ins hget
  by_cases hpc : pc < is.length
  · rw [List.getElem?_append_left hpc] at hget
    have hmem : ins ∈ is := List.mem_of_getElem? hget
    have hok := h ins hmem
    cases ins <;> simp only [InsOk] at hok <;> simp only [List.length_append, List.length_singleton] <;>
      first | trivial | omega | exact ⟨hok, by omega⟩ | exact hok.elim
  · have hlen : pc < (is ++ [Instr.mtch]).length := (List.getElem?_eq_some_iff.mp hget).1
    simp only [List.length_append, List.length_singleton] at hlen
    have : pc = is.length := by omega
    subst this
    simp at hget
    subst hget
    trivial

/-- acceptable outcomes of `cregex_compile_node` on a tree the parser built -/
def CompileGood (root : Node) : R (List Instr) → Prop
  | .ok prog => ReVm.Wf prog ∧ 0 < prog.length ∧ prog.getLast? = some .mtch ∧
      (∀ neg bits, Instr.cls neg bits ∈ prog → bits.length = 32) ∧ prog.length = (wrapRoot root).countN + 1
  | .ub => root.count = none ∨ ∃ k, root.count = some k ∧ intMax < k + 6
  | _ => False

theorem nodeOk_wrapRoot {pat : Bytes} {root : Node} (h : NodeOk pat root) : NodeOk pat (wrapRoot root) := by
  unfold wrapRoot
  split
  · exact h
  · exact ⟨⟨trivial, by simp⟩, h⟩

theorem countN_wrapRoot (root : Node) : (wrapRoot root).countN = root.countN + (if root.anchored then 0 else 3) + 2 := by
  unfold wrapRoot
  have : (Node.cap root).anchored = root.anchored := rfl
  rw [this]
  cases root.anchored <;> simp [Node.countN] <;> omega

theorem compile_spec {pat : Bytes} (hb : ∀ (j c : Nat), pat[j]? = some c → c < 256) (root : Node) (h : NodeOk pat root) :
    CompileGood root (compile pat root) := by
  unfold compile
  cases hest : estimate root with
  | none =>
    dsimp only
    simp only [estimate, Option.bind_eq_bind] at hest
    cases hc : root.count with
    | none => exact Or.inl hc
    | some k =>
      right
      refine ⟨k, hc, ?_⟩
      rw [hc] at hest
      simp only [Option.bind_some] at hest
      unfold addc at hest
      by_cases h1 : intMax < k + 6
      · exact h1
      · exfalso
        have e1 : (k + if root.anchored = true then 0 else 3) ≤ intMax := by split <;> omega
        rw [if_pos e1] at hest
        simp only [Option.bind_some] at hest
        have e2 : (k + if root.anchored = true then 0 else 3) + 2 ≤ intMax := by split <;> omega
        rw [if_pos e2] at hest
        simp only [Option.bind_some] at hest
        have e3 : (k + if root.anchored = true then 0 else 3) + 2 + 1 ≤ intMax := by split <;> omega
        rw [if_pos e3] at hest
        simp at hest
  | some est =>
    dsimp only
    obtain ⟨is, nc', h1, h2, h3⟩ := comp_spec hb (wrapRoot root) (nodeOk_wrapRoot h) 0 0
    rw [h1]; dsimp only
    simp only [estimate, Option.bind_eq_bind, Option.bind_eq_some_iff] at hest
    obtain ⟨c, hc, b, hb', a, ha, he⟩ := hest
    have := count_eq root c hc
    have := addc_some hb'; have := addc_some ha; have := addc_some he
    have hcw := countN_wrapRoot root
    rw [if_pos (by omega)]
    refine ⟨wf_of_block is (by simpa [h2] using h3), by simp, by simp, ?_, by simp [h2]⟩
    intro neg bits hm
    rcases List.mem_append.mp hm with hm | hm
    · exact h3 _ hm
    · simp at hm

end IwModel.Re
