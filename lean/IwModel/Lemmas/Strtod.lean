import IwModel.Model.StrtodSpec
import IwModel.Lemmas.SoftF64
import IwModel.Lemmas.JsonNum
/-! `iwstrtodModel` on well-formed input: which bytes it consumes and which arithmetic it performs. -/
namespace IwModel.Json
open IwModel IwModel.SoftF64

theorem isDigitC_eq (c : Nat) : isDigitC c = isDigit c := by
  unfold isDigitC isDigit
  by_cases h1 : 48 ≤ c <;> by_cases h2 : c ≤ 57 <;> simp [h1, h2]

theorem chd_cons (c : Nat) (r : Bytes) : chd (c :: r) = c := rfl
theorem chd_nil : chd [] = 0 := rfl

theorem chd_append_ne (a b : Bytes) (h : a ≠ []) : chd (a ++ b) = chd a := by
  cases a with
  | nil => exact absurd rfl h
  | cons x xs => rfl

/-- a digit run followed by a non-digit is what `takeWhile` finds -/
theorem takeWhile_digits (ds rest : Bytes) (hds : ds.all isDigitC = true) (hr : isDigitC (chd rest) = false) :
    (ds ++ rest).takeWhile isDigitC = ds := by
  apply takeWhile_stop
  · exact fun c hc => List.all_eq_true.mp hds c hc
  · intro c r h; subst h; exact hr

theorem drop_append_len (a b : Bytes) : (a ++ b).drop a.length = b := List.drop_left

theorem getLast_digit (ds : Bytes) (hne : ds ≠ []) (hds : ds.all isDigitC = true) : isDigitC (ds.getLast?.getD 0) = true := by
  have := List.getLast?_eq_some_getLast hne
  rw [this]
  exact List.all_eq_true.mp hds _ (List.getLast_mem hne)

/-! ### the three stages on well-formed text -/

/-- no exponent: the scan ends behind the digits -/
theorem expPart_none (d : Nat) (p : Bytes) (n prev : Nat) (hp : chd p ≠ 69 ∧ chd p ≠ 101) (hprev : isDigitC prev = true) :
    expPart d p n prev = (d, n, false) := by
  unfold expPart
  simp [hp.1, hp.2, hprev]

theorem expTail_digits (d : Nat) (eneg : Bool) (eds rest : Bytes) (n2 n prev : Nat) (hne : eds ≠ [])
    (hds : eds.all isDigitC = true) (hr : isDigitC (chd rest) = false) :
    expTail d eneg (eds ++ rest) n2 n prev =
      scaleExp d (if eneg then -(expVal eds : Int) else (expVal eds : Int)) (n2 + eds.length) := by
  have htw := takeWhile_digits eds rest hds hr
  obtain ⟨c, cs, rfl⟩ : ∃ c cs, eds = c :: cs := by
    cases eds with
    | nil => exact absurd rfl hne
    | cons c cs => exact ⟨c, cs, rfl⟩
  have hc : isDigitC c = true := by simp only [List.all_cons, Bool.and_eq_true] at hds; exact hds.1
  unfold expTail
  rw [if_pos (by rw [List.cons_append, chd_cons]; exact hc)]
  simp only [htw]

/-- exponent with digits -/
theorem expPart_exp (d : Nat) (e : Nat) (sg eds rest : Bytes) (n prev : Nat) (he : e = 69 ∨ e = 101)
    (hsg : sg = [] ∨ sg = [43] ∨ sg = [45]) (hne : eds ≠ []) (hds : eds.all isDigitC = true)
    (hr : isDigitC (chd rest) = false) :
    expPart d (e :: (sg ++ eds ++ rest)) n prev =
      scaleExp d (if sg = [45] then -(expVal eds : Int) else (expVal eds : Int)) (n + 1 + sg.length + eds.length) := by
  have hc : isDigitC (chd (eds ++ rest)) = true := by
    cases eds with
    | nil => exact absurd rfl hne
    | cons c cs => simp only [List.all_cons, Bool.and_eq_true] at hds; exact hds.1
  have hc' : chd (eds ++ rest) ≠ 45 ∧ chd (eds ++ rest) ≠ 43 := by
    have : 48 ≤ chd (eds ++ rest) ∧ chd (eds ++ rest) ≤ 57 := by simpa [isDigitC] using hc
    omega
  unfold expPart
  rw [if_pos (by rw [chd_cons]; exact he)]
  rcases hsg with rfl | rfl | rfl
  · simp only [List.drop_one, List.tail_cons, List.nil_append]
    rw [if_neg hc'.1, if_neg hc'.2, expTail_digits d false eds rest _ _ _ hne hds hr]
    simp
  · simp only [List.drop_one, List.tail_cons, List.cons_append, List.nil_append, chd_cons, ↓reduceIte,
      show ¬ (43 = 45) by decide]
    rw [expTail_digits d false eds rest _ _ _ hne hds hr]
    simp
  · simp only [List.drop_one, List.tail_cons, List.cons_append, List.nil_append, chd_cons, ↓reduceIte]
    rw [expTail_digits d true eds rest _ _ _ hne hds hr]
    simp

/-- fraction with digits `fs` (possibly none) -/
theorem fracPart_frac (neg : Bool) (d0 : Nat) (fs rest : Bytes) (n prev : Nat) (hds : fs.all isDigitC = true)
    (hr : isDigitC (chd rest) = false) :
    fracPart neg d0 (46 :: (fs ++ rest)) n prev =
      expPart (add (mul d0 (signF neg)) (mul (fracLoop fs) (signF neg))) rest (n + 1 + fs.length)
        (if fs.isEmpty then 46 else fs.getLast?.getD 0) := by
  unfold fracPart
  simp only [chd_cons, ↓reduceIte, List.drop_one, List.tail_cons, takeWhile_digits fs rest hds hr]
  rw [show 46 :: (fs ++ rest) = (46 :: fs) ++ rest from rfl, show 1 + fs.length = (46 :: fs).length by simp [Nat.add_comm],
    drop_append_len]

theorem fracPart_nofrac (neg : Bool) (d0 : Nat) (p : Bytes) (n prev : Nat) (hp : chd p ≠ 46) :
    fracPart neg d0 p n prev = expPart (mul d0 (signF neg)) p n prev := by
  unfold fracPart
  simp only [hp, ↓reduceIte]

theorem numPart_digits (neg : Bool) (ds rest : Bytes) (n : Nat) (hne : ds ≠ []) (hds : ds.all isDigitC = true)
    (hr : isDigitC (chd rest) = false) :
    numPart neg (ds ++ rest) n = fracPart neg (intLoop ds) rest (n + ds.length) (ds.getLast?.getD 0) := by
  have hc : isDigitC (chd (ds ++ rest)) = true := by
    cases ds with
    | nil => exact absurd rfl hne
    | cons c cs => simp only [List.all_cons, Bool.and_eq_true] at hds; exact hds.1
  unfold numPart
  rw [if_pos hc]
  simp only [takeWhile_digits ds rest hds hr, drop_append_len]

/-- the top level on `sign ++ text` without leading white space -/
theorem model_sign (neg : Bool) (p : Bytes) (hp : ¬ isSpaceC (chd p) = true ∧ chd p ≠ 45 ∧ chd p ≠ 43) :
    iwstrtodModel (signText neg ++ p) = numPart neg p (signText neg).length := by
  have hws : ∀ q : Bytes, isSpaceC (chd q) = false → q.takeWhile isSpaceC = [] := by
    intro q hq
    cases q with
    | nil => rfl
    | cons c r => simp only [chd_cons] at hq; simp [List.takeWhile, hq]
  cases neg
  · simp only [signText, Bool.false_eq_true, ↓reduceIte, List.nil_append, List.length_nil]
    unfold iwstrtodModel
    simp only [hws p (by simpa using hp.1), List.length_nil, List.drop_zero]
    rw [if_neg hp.2.1, if_neg hp.2.2]
  · simp only [signText, ↓reduceIte, List.cons_append, List.nil_append, List.length_cons, List.length_nil]
    unfold iwstrtodModel
    simp only [hws (45 :: p) (by rw [chd_cons]; decide), List.length_nil, List.drop_zero, chd_cons, ↓reduceIte, List.drop_one,
      List.tail_cons]

theorem scaleExp_n (d : Nat) (e : Int) (n : Nat) :
    scaleExp d e n = ((scaleExp d e 0).1, n, (scaleExp d e 0).2.2) := by
  unfold scaleExp
  split
  · rfl
  · split <;> rfl

theorem delim_chd (rest : Bytes) (h : delim rest = true) :
    isDigitC (chd rest) = false ∧ chd rest ≠ 46 ∧ chd rest ≠ 69 ∧ chd rest ≠ 101 := by
  cases rest with
  | nil => decide
  | cons c r =>
    simp only [delim, isWsByte, Bool.or_eq_true, decide_eq_true_eq] at h
    rw [chd_cons]
    refine ⟨?_, by omega, by omega, by omega⟩
    unfold isDigitC
    simp only [decide_eq_false_iff_not]
    omega

theorem all_isDigitC (ds : Bytes) (h : ds.all isDigit = true) : ds.all isDigitC = true := by
  rw [List.all_eq_true] at *
  intro c hc; rw [isDigitC_eq]; exact h c hc

theorem digits_isDigitC (n : Nat) : (Conv.digits n).all isDigitC = true := by
  rw [List.all_eq_true]
  intro c hc
  have := digits_all n c hc
  simp [isDigitC, this]

theorem digits_ne (n : Nat) : Conv.digits n ≠ [] := by
  obtain ⟨c, r, h, -⟩ := digits_head n
  rw [h]; exact List.cons_ne_nil _ _

/-- **What `iwstrtod` does with a number token.** On a valid token followed by a delimiter the model consumes exactly
    the token; bits and range flag are those computed from the token's parts. -/
theorem strtod_token (t : NumTok) (rest : Bytes) (hv : t.valid = true) (hd : delim rest = true) :
    iwstrtodModel (t.text ++ rest) = (t.sdRes.1, t.text.length, t.sdRes.2) := by
  obtain ⟨hr1, hr2, hr3, hr4⟩ := delim_chd rest hd
  have hdg := digits_isDigitC t.ip
  have hdn := digits_ne t.ip
  obtain ⟨c0, r0, hc0, hc1, hc2, -⟩ := digits_head t.ip
  unfold NumTok.valid at hv
  simp only [Bool.and_eq_true] at hv
  obtain ⟨⟨hvf, hve⟩, -⟩ := hv
  -- the text after the integer digits
  have htext : t.text ++ rest = signText t.neg ++ (Conv.digits t.ip ++ (t.tail ++ rest)) := by
    simp [NumTok.text, List.append_assoc]
  have hhead : ¬ isSpaceC (chd (Conv.digits t.ip ++ (t.tail ++ rest))) = true ∧
      chd (Conv.digits t.ip ++ (t.tail ++ rest)) ≠ 45 ∧ chd (Conv.digits t.ip ++ (t.tail ++ rest)) ≠ 43 := by
    rw [hc0, List.cons_append, chd_cons]
    simp only [isSpaceC, decide_eq_true_eq]
    omega
  have hlast := getLast_digit _ hdn hdg
  rw [htext, model_sign t.neg _ hhead]
  unfold NumTok.sdRes NumTok.expInt NumTok.mant
  cases hf : t.frac with
  | none =>
    cases he : t.exp with
    | none =>
      have htl : t.tail = [] := by simp [NumTok.tail, hf, he]
      rw [htl, List.nil_append, numPart_digits t.neg _ rest _ hdn hdg hr1, fracPart_nofrac _ _ _ _ _ hr2,
        expPart_none _ _ _ _ ⟨hr3, hr4⟩ hlast]
      simp [NumTok.text, htl]
    | some x =>
      obtain ⟨e, sg, eds⟩ := x
      simp only [he, Bool.and_eq_true, Bool.or_eq_true, decide_eq_true_eq, Bool.not_eq_true', List.isEmpty_eq_false_iff] at hve
      obtain ⟨⟨⟨hee, hsg⟩, hen⟩, hed⟩ := hve
      have htl : t.tail = e :: (sg ++ eds) := by simp [NumTok.tail, hf, he]
      have hx : isDigitC (chd (t.tail ++ rest)) = false ∧ chd (t.tail ++ rest) ≠ 46 := by
        rw [htl, List.cons_append, chd_cons]
        rcases hee with rfl | rfl <;> exact ⟨by decide, by decide⟩
      rw [numPart_digits t.neg _ _ _ hdn hdg hx.1, fracPart_nofrac _ _ _ _ _ hx.2, htl,
        show e :: (sg ++ eds) ++ rest = e :: (sg ++ eds ++ rest) by simp,
        expPart_exp _ e sg eds rest _ _ (by omega) (by rcases hsg with (h | h) | h <;> simp [h]) hen
          (all_isDigitC _ hed) hr1, scaleExp_n]
      simp [NumTok.text, htl]
      try omega
  | some fs =>
    simp only [hf, Bool.and_eq_true, Bool.not_eq_true', List.isEmpty_eq_false_iff] at hvf
    obtain ⟨hfn, hfd⟩ := hvf
    have hfd' := all_isDigitC _ hfd
    have hfl := getLast_digit _ hfn hfd'
    have hfe : fs.isEmpty = false := by simpa using hfn
    cases he : t.exp with
    | none =>
      have htl : t.tail = 46 :: fs := by simp [NumTok.tail, hf, he]
      have hx : isDigitC (chd (t.tail ++ rest)) = false := by rw [htl]; rfl
      rw [numPart_digits t.neg _ _ _ hdn hdg hx, htl, show 46 :: fs ++ rest = 46 :: (fs ++ rest) from rfl,
        fracPart_frac _ _ fs rest _ _ hfd' hr1, expPart_none _ _ _ _ ⟨hr3, hr4⟩ (by rw [hfe]; exact hfl)]
      simp [NumTok.text, htl]
      try omega
    | some x =>
      obtain ⟨e, sg, eds⟩ := x
      simp only [he, Bool.and_eq_true, Bool.or_eq_true, decide_eq_true_eq, Bool.not_eq_true', List.isEmpty_eq_false_iff] at hve
      obtain ⟨⟨⟨hee, hsg⟩, hen⟩, hed⟩ := hve
      have htl : t.tail = 46 :: (fs ++ e :: (sg ++ eds)) := by simp [NumTok.tail, hf, he]
      have hx : isDigitC (chd (t.tail ++ rest)) = false := by rw [htl]; rfl
      have hy : isDigitC (chd (e :: (sg ++ eds ++ rest))) = false := by
        rw [chd_cons]; rcases hee with rfl | rfl <;> decide
      rw [numPart_digits t.neg _ _ _ hdn hdg hx, htl,
        show 46 :: (fs ++ e :: (sg ++ eds)) ++ rest = 46 :: (fs ++ e :: (sg ++ eds ++ rest)) by simp,
        fracPart_frac _ _ fs _ _ _ hfd' hy,
        expPart_exp _ e sg eds rest _ _ (by omega) (by rcases hsg with (h | h) | h <;> simp [h]) hen
          (all_isDigitC _ hed) hr1, scaleExp_n]
      simp [NumTok.text, htl]
      try omega

set_option maxRecDepth 8000 in
open IwModel.Gen.Pow10 in
/-- side condition on the regenerated table: `pow(10, e)` is finite and non-zero for `-323 ≤ e ≤ 308` -/
theorem pow10_range : pow10Lo = 323 ∧ pow10Hi = 308 ∧ pow10Tab.length = 632 := ⟨rfl, rfl, by rfl⟩

theorem pow10_inrange (e : Int) (h1 : -323 ≤ e) (h2 : e ≤ 308) : (pow10 e).2 = false := by
  unfold pow10
  rw [pow10_range.1, pow10_range.2.1, if_neg (by omega), if_neg (by omega)]

theorem scaleExp_noerr (d : Nat) (e : Int) (n : Nat) (h1 : -307 ≤ e) (h2 : e ≤ 308) : (scaleExp d e n).2.2 = false := by
  unfold scaleExp
  have : (e == -308) = false := by simp; omega
  rw [this, Bool.and_false]
  simp only [Bool.false_eq_true, ↓reduceIte]
  split
  · rfl
  · exact pow10_inrange e (by omega) h2

theorem sdRes_noerr (t : NumTok) (h : t.expInRange = true) : t.sdRes.2 = false := by
  unfold NumTok.sdRes NumTok.expInt
  unfold NumTok.expInRange at h
  cases he : t.exp with
  | none => rfl
  | some x =>
    obtain ⟨e, sg, eds⟩ := x
    simp only [he] at h ⊢
    by_cases hs : sg = [45]
    · simp only [hs, ↓reduceIte, decide_eq_true_eq] at h ⊢
      exact scaleExp_noerr _ _ _ (by omega) (by omega)
    · simp only [hs, ↓reduceIte, decide_eq_true_eq] at h ⊢
      exact scaleExp_noerr _ _ _ (by omega) (by omega)

/-- **(a) The model of `iwstrtod` meets the contract the parser theorems assume**, for every valid number token whose
    exponent is in range: it consumes exactly the token, reports no range error, and the double depends on the token
    only. -/
theorem strtod_sdSpecOn : SdSpecOn NumTok.expInRange iwstrtodModel strtodD := by
  intro t rest hv hk hd
  have h0 := strtod_token t [] hv rfl
  rw [List.append_nil] at h0
  rw [strtod_token t rest hv hd, sdRes_noerr t hk]
  unfold strtodD
  rw [h0]

/-! ### exactness on integers below 2^53 -/

open IwModel.Gen.Pow10 in
theorem litTen_eq : litTen = ofNat 10 := by decide +kernel
theorem signF_false : signF false = ofNat 1 := by decide +kernel
theorem signF_true : signF true = 2 ^ 63 + ofNat 1 := by decide +kernel

theorem ofNat_zero : ofNat 0 = 0 := by decide +kernel

/-- decimal accumulation -/
def decStep (a c : Nat) : Nat := a * 10 + (c - 48)

theorem foldl_decStep_ge (cs : Bytes) (v : Nat) : v ≤ cs.foldl decStep v := by
  induction cs generalizing v with
  | nil => exact Nat.le_refl _
  | cons c cs ih =>
    simp only [List.foldl_cons]
    exact Nat.le_trans (by unfold decStep; omega) (ih _)

theorem intStep_ofNat (v c : Nat) (h : v * 10 + (c - 48) < 2 ^ 53) (hc : isDigitC c = true) :
    intStep (ofNat v) c = ofNat (decStep v c) := by
  have hc' : 48 ≤ c ∧ c ≤ 57 := by simpa [isDigitC] using hc
  rw [p53] at h
  unfold intStep decStep
  rw [litTen_eq, mul_ofNat v 10 (by rw [p53]; omega) (by decide), add_ofNat _ _ (by rw [p53]; omega) (by rw [p53]; omega)]

theorem intFold_exact (cs : Bytes) (v : Nat) (hds : cs.all isDigitC = true) (hfin : cs.foldl decStep v < 2 ^ 53) :
    cs.foldl intStep (ofNat v) = ofNat (cs.foldl decStep v) := by
  induction cs generalizing v with
  | nil => rw [List.foldl_nil, List.foldl_nil]
  | cons c cs ih =>
    simp only [List.all_cons, Bool.and_eq_true] at hds
    rw [List.foldl_cons] at hfin
    rw [List.foldl_cons, List.foldl_cons]
    have h1 : decStep v c < 2 ^ 53 := Nat.lt_of_le_of_lt (foldl_decStep_ge cs _) hfin
    rw [intStep_ofNat v c h1 hds.1]
    exact ih _ hds.2 hfin

theorem digitsVal_decStep (ds : Bytes) (hds : ds.all isDigitC = true) (v : Nat) :
    ds.foldl (fun a c => a * 10 + (digitVal 10 c).getD 0) v = ds.foldl decStep v := by
  induction ds generalizing v with
  | nil => rfl
  | cons c cs ih =>
    simp only [List.all_cons, Bool.and_eq_true] at hds
    have hc' : 48 ≤ c ∧ c ≤ 57 := by simpa [isDigitC] using hds.1
    simp only [List.foldl_cons, digitVal10 c hc'.1 hc'.2, Option.getD_some]
    exact ih hds.2 _

/-- the digit loop is exact as long as the decimal value stays below 2^53 -/
theorem intLoop_exact (ds : Bytes) (hds : ds.all isDigitC = true) (hv : digitsVal 10 ds < 2 ^ 53) :
    intLoop ds = ofNat (digitsVal 10 ds) := by
  unfold digitsVal at *
  rw [digitsVal_decStep ds hds] at *
  cases ds with
  | nil => rw [List.foldl_nil, ofNat_zero]; rfl
  | cons c cs =>
    simp only [List.all_cons, Bool.and_eq_true] at hds
    rw [List.foldl_cons] at hv ⊢
    have e : decStep 0 c = c - 48 := by unfold decStep; omega
    rw [e] at hv ⊢
    unfold intLoop
    exact intFold_exact cs _ hds.2 hv

end IwModel.Json
