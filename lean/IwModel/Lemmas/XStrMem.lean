import IwModel.Model.XStrMem
import IwModel.Lemmas.Arr
/-!
Every statement-level `iwxstr` function (`Model/XStrMem.lean`) stays inside its allocation and computes the
abstract `XStr` function on `(data, asize, term)`.
-/
set_option linter.unusedSimpArgs false
namespace IwModel.XStr
open Arr

macro "ix_cases" : tactic =>
  `(tactic| (repeat' split) <;> first | rfl | omega | (exfalso; omega) | (congr 1; omega) | (simp; done) | (simp; omega))

theorem grow_ge' (a n : Nat) : n ≤ grow a n ∧ a ≤ grow a n := by
  unfold grow; split <;> (try split) <;> omega

theorem length_ensure (junk : Nat) (mem : Bytes) (ns : Nat) : (ensure junk mem ns).length = grow mem.length ns := by
  unfold ensure
  split
  · rw [length_realloc]
  · unfold grow; rw [if_neg (by omega)]

theorem getElem?_ensure (junk : Nat) (mem : Bytes) (ns j : Nat) (hj : j < mem.length) :
    (ensure junk mem ns)[j]? = mem[j]? := by
  unfold ensure
  split
  · rw [getElem?_realloc]
    have := (grow_ge' mem.length ns).2
    rw [if_pos (by omega), if_pos hj]
  · rfl

theorem copyIn_some (mem : Bytes) (dst : Nat) (src : Bytes) (n : Nat) (h1 : n ≤ src.length) (h2 : dst + n ≤ mem.length) :
    ∃ m, copyIn mem dst src n = some m ∧ m.length = mem.length ∧
      ∀ j, m[j]? = if dst ≤ j ∧ j < dst + n then src[j - dst]? else mem[j]? := by
  unfold copyIn
  by_cases hn : n = 0
  · subst hn; exact ⟨mem, by simp, rfl, fun j => by simp; intro a b; omega⟩
  · rw [if_neg hn, if_pos ⟨h1, h2⟩]
    refine ⟨_, rfl, by simp; omega, ?_⟩
    intro j
    rw [List.append_assoc, List.getElem?_append]
    simp only [List.length_take, List.getElem?_take, List.getElem?_append, List.getElem?_drop]
    by_cases c1 : j < dst
    · have : j < min dst mem.length := by omega
      simp [this, c1]; intro h; omega
    · have : ¬ j < min dst mem.length := by omega
      simp only [this, if_false]
      have hm : min dst mem.length = dst := by omega
      rw [hm]
      by_cases c2 : j < dst + n
      · have : j - dst < min n src.length := by omega
        have d1 : j - dst < n := by omega
        have d2 : dst ≤ j := by omega
        simp [this, c2, d1, d2]
      · have : ¬ j - dst < min n src.length := by omega
        simp only [this, if_false]
        have hm2 : min n src.length = n := by omega
        rw [hm2]
        have : ¬ (dst ≤ j ∧ j < dst + n) := by omega
        simp only [this, if_false]
        congr 1; omega

theorem term_set (m : Bytes) (i : Nat) (h : i < m.length) : decide ((m.set i 0)[i]? = some 0) = true := by
  simp [List.getElem?_set, h]

namespace XMem

/-- the data and its terminator cell are inside the allocation -/
def Inv (x : XMem) : Prop := x.size < x.mem.length

theorem data_length (x : XMem) (inv : x.Inv) : x.data.length = x.size := by
  unfold data; simp; unfold XMem.Inv at inv; omega

theorem data_get (x : XMem) (j : Nat) : x.data[j]? = if j < x.size then x.mem[j]? else none := by
  unfold data; rw [List.getElem?_take]

end XMem
open XMem

/-- `iwxstr_cat`: in bounds; data gains the `n` bytes read from `buf`; NUL stored; growth rule -/
theorem mcat_spec (junk : Nat) (x : XMem) (inv : x.Inv) (buf : Bytes) (n : Nat) (hn : n ≤ buf.length) :
    ∃ x', mcat junk x buf n = some x' ∧ x'.Inv ∧ x'.data = x.data ++ buf.take n ∧
      x'.asize = grow x.asize (x.size + n + 1) ∧ x'.term = true := by
  unfold XMem.Inv at inv
  have hl := length_ensure junk x.mem (x.size + n + 1)
  have hg := grow_ge' x.mem.length (x.size + n + 1)
  obtain ⟨m, e1, l1, g1⟩ := copyIn_some (ensure junk x.mem (x.size + n + 1)) x.size buf n hn (by omega)
  unfold mcat
  simp only [e1, Option.bind_some]
  rw [poke_some _ _ _ (by omega)]
  refine ⟨_, rfl, ?_, ?_, ?_, ?_⟩
  · show x.size + n < (m.set (x.size + n) 0).length
    simp; omega
  · apply List.ext_getElem?
    intro j
    rw [data_get, List.getElem?_append, data_length x inv, data_get]
    simp only [List.getElem?_set, g1, List.getElem?_take]
    by_cases c1 : j < x.size
    · have := getElem?_ensure junk x.mem (x.size + n + 1) j (by omega)
      rw [if_pos (by omega), if_neg (by omega), if_neg (by omega), this, if_pos c1, if_pos c1]
    · rw [if_neg c1]
      by_cases c2 : j < x.size + n
      · rw [if_pos c2, if_neg (by omega), if_pos (by omega), if_pos (by omega)]
      · rw [if_neg c2, if_neg (by omega)]
  · show (m.set (x.size + n) 0).length = _
    simp [l1, hl, XMem.asize]
  · exact term_set m _ (by omega)

/-- `iwxstr_unshift` -/
theorem munshift_spec (junk : Nat) (x : XMem) (inv : x.Inv) (buf : Bytes) (n : Nat) (hn : n ≤ buf.length) :
    ∃ x', munshift junk x buf n = some x' ∧ x'.Inv ∧ x'.data = buf.take n ++ x.data ∧
      x'.asize = grow x.asize (x.size + n + 1) ∧ x'.term = true := by
  unfold XMem.Inv at inv
  have hl := length_ensure junk x.mem (x.size + n + 1)
  have hg := grow_ge' x.mem.length (x.size + n + 1)
  have hmove : ∃ m0, (if x.size ≠ 0 then blit (ensure junk x.mem (x.size + n + 1)) n 0 x.size
        else some (ensure junk x.mem (x.size + n + 1))) = some m0 ∧ m0.length = (ensure junk x.mem (x.size + n + 1)).length ∧
      ∀ j, n ≤ j → j < n + x.size → m0[j]? = x.mem[j - n]? := by
    by_cases h0 : x.size ≠ 0
    · obtain ⟨m0, e0, l0, g0⟩ := blit_some (ensure junk x.mem (x.size + n + 1)) n 0 x.size (by omega) (by omega)
      refine ⟨m0, by rw [if_pos h0, e0], l0, ?_⟩
      intro j a b
      rw [g0, if_pos ⟨a, b⟩, Nat.zero_add, getElem?_ensure junk x.mem _ _ (by omega)]
    · exact ⟨_, by rw [if_neg h0], rfl, fun j a b => by omega⟩
  obtain ⟨m0, e0, l0, g0⟩ := hmove
  obtain ⟨m, e1, l1, g1⟩ := copyIn_some m0 0 buf n hn (by omega)
  unfold munshift
  simp only [e0, e1, Option.bind_some]
  rw [poke_some _ _ _ (by omega)]
  refine ⟨_, rfl, ?_, ?_, ?_, ?_⟩
  · show x.size + n < (m.set (x.size + n) 0).length
    simp; omega
  · apply List.ext_getElem?
    intro j
    rw [data_get, List.getElem?_append, data_get]
    simp only [List.getElem?_set, g1, List.getElem?_take, List.length_take]
    have hm : min n buf.length = n := by omega
    rw [hm]
    by_cases c1 : j < n
    · rw [if_pos (by omega), if_neg (by omega), if_pos (by omega), if_pos c1, if_pos c1, Nat.sub_zero]
    · rw [if_neg c1]
      by_cases c2 : j < x.size + n
      · rw [if_pos c2, if_neg (by omega), if_neg (by omega), g0 j (by omega) (by omega), if_pos (by omega)]
      · rw [if_neg c2, if_neg (by omega)]
  · show (m.set (x.size + n) 0).length = _
    simp [l1, l0, hl, XMem.asize]
  · exact term_set m _ (by omega)

/-- `iwxstr_shift`: the count is clamped to the size; the move is skipped when nothing remains -/
theorem mshift_spec (x : XMem) (inv : x.Inv) (n0 : Nat) :
    ∃ x', mshift x n0 = some x' ∧ x'.Inv ∧ x'.data = x.data.drop n0 ∧ x'.asize = x.asize ∧
      x'.term = (if n0 = 0 then x.term else true) := by
  unfold XMem.Inv at inv
  unfold mshift
  by_cases h0 : n0 = 0
  · subst h0; exact ⟨x, by simp, inv, by simp, rfl, by simp⟩
  · rw [if_neg h0]
    generalize hn : (if n0 > x.size then x.size else n0) = n
    have hle : n ≤ x.size := by rw [← hn]; split <;> omega
    have hmove : ∃ m0, (if x.size > n then blit x.mem 0 n (x.size - n) else some x.mem) = some m0 ∧
        m0.length = x.mem.length ∧ ∀ j, j < x.size - n → m0[j]? = x.mem[n + j]? := by
      by_cases hc : x.size > n
      · obtain ⟨m0, e0, l0, g0⟩ := blit_some x.mem 0 n (x.size - n) (by omega) (by omega)
        refine ⟨m0, by rw [if_pos hc, e0], l0, ?_⟩
        intro j hj
        rw [g0, if_pos (by omega)]; simp
      · exact ⟨_, by rw [if_neg hc], rfl, fun j hj => by omega⟩
    obtain ⟨m0, e0, l0, g0⟩ := hmove
    simp only [e0, Option.bind_some]
    rw [poke_some _ _ _ (by omega)]
    refine ⟨_, rfl, ?_, ?_, ?_, ?_⟩
    · show x.size - n < (m0.set (x.size - n) 0).length
      simp; omega
    · apply List.ext_getElem?
      intro j
      rw [data_get, List.getElem?_drop, data_get]
      simp only [List.getElem?_set]
      by_cases c1 : j < x.size - n
      · have hnn : n = n0 := by
          by_cases hh : n0 > x.size
          · rw [if_pos hh] at hn; omega
          · rw [if_neg hh] at hn; omega
        rw [if_pos c1, if_neg (by omega), g0 j c1, hnn, if_pos (by omega)]
      · rw [if_neg c1, if_neg]
        rw [← hn] at c1; split at c1 <;> omega
    · show (m0.set (x.size - n) 0).length = _
      simp [l0, XMem.asize]
    · rw [if_neg h0]; exact term_set m0 _ (by omega)

/-- `iwxstr_pop` -/
theorem mpop_spec (x : XMem) (inv : x.Inv) (n0 : Nat) :
    ∃ x', mpop x n0 = some x' ∧ x'.Inv ∧ x'.data = x.data.take (x.data.length - n0) ∧ x'.asize = x.asize ∧
      x'.term = (if n0 = 0 then x.term else true) := by
  have hdl := data_length x inv
  unfold XMem.Inv at inv
  unfold mpop
  by_cases h0 : n0 = 0
  · subst h0; exact ⟨x, by simp, inv, by simp, rfl, by simp⟩
  · rw [if_neg h0]
    generalize hn : (if n0 > x.size then x.size else n0) = n
    have hle : n ≤ x.size := by rw [← hn]; split <;> omega
    have hsub : x.size - n = x.size - n0 := by rw [← hn]; split <;> omega
    dsimp only
    rw [poke_some _ _ _ (by omega)]
    refine ⟨_, rfl, ?_, ?_, ?_, ?_⟩
    · show x.size - n < (x.mem.set (x.size - n) 0).length
      simp; omega
    · apply List.ext_getElem?
      intro j
      rw [data_get, List.getElem?_take, data_get, hdl]
      simp only [List.getElem?_set, hsub]
      by_cases c1 : j < x.size - n0
      · rw [if_pos c1, if_neg (by omega), if_pos c1, if_pos (by omega)]
      · rw [if_neg c1, if_neg c1]
    · show (x.mem.set (x.size - n) 0).length = _
      simp [XMem.asize]
    · rw [if_neg h0]; exact term_set x.mem _ (by omega)

/-- `iwxstr_insert`: the `size - pos + 1` bytes moved include the byte after the data, so the terminator (or
whatever `iwxstr_set_size` left there) travels along -/
theorem minsert_spec (junk : Nat) (x : XMem) (inv : x.Inv) (pos : Nat) (buf : Bytes) (n : Nat) (hn : n ≤ buf.length) :
    ∃ x' ok, minsert junk x pos buf n = some (x', ok) ∧ x'.Inv ∧ (ok = false ↔ pos > x.size) ∧
      x'.data = (if pos ≤ x.size then x.data.take pos ++ buf.take n ++ x.data.drop pos else x.data) ∧
      x'.asize = (if pos ≤ x.size ∧ n ≠ 0 then grow x.asize (x.size + n + 1) else x.asize) ∧ x'.term = x.term := by
  have hdl := data_length x inv
  unfold minsert
  by_cases hp : pos > x.size
  · rw [if_pos hp]
    exact ⟨x, false, rfl, inv, by simp [hp], by rw [if_neg (by omega)], by rw [if_neg (by omega)], rfl⟩
  · rw [if_neg hp]
    by_cases h0 : n = 0
    · rw [if_pos h0]
      refine ⟨x, true, rfl, inv, by simp; omega, ?_, by rw [if_neg (by omega)], rfl⟩
      rw [if_pos (by omega), h0]; simp
    · rw [if_neg h0]
      unfold XMem.Inv at inv
      have hl := length_ensure junk x.mem (x.size + n + 1)
      have hg := grow_ge' x.mem.length (x.size + n + 1)
      obtain ⟨m0, e0, l0, g0⟩ := blit_some (ensure junk x.mem (x.size + n + 1)) (pos + n) pos (x.size - pos + 1)
        (by omega) (by omega)
      obtain ⟨m, e1, l1, g1⟩ := copyIn_some m0 pos buf n hn (by omega)
      simp only [e0, e1, Option.bind_some, Option.map_some]
      refine ⟨_, true, rfl, ?_, by simp; omega, ?_, ?_, ?_⟩
      · show x.size + n < m.length
        omega
      · rw [if_pos (by omega)]
        apply List.ext_getElem?
        intro j
        rw [data_get, List.append_assoc, List.getElem?_append, List.getElem?_append]
        simp only [List.getElem?_take, List.getElem?_drop, List.length_take, hdl, data_get, g1, g0]
        have hm1 : min pos x.size = pos := by omega
        have hm2 : min n buf.length = n := by omega
        rw [hm1, hm2]
        by_cases c1 : j < pos
        · rw [if_pos (by omega), if_neg (by omega), if_neg (by omega), if_pos c1, if_pos c1, if_pos (by omega),
            getElem?_ensure junk x.mem _ _ (by omega)]
        · rw [if_neg c1]
          by_cases c2 : j < pos + n
          · rw [if_pos (by omega), if_pos (by omega), if_pos (by omega), if_pos (by omega)]
          · by_cases c3 : j < x.size + n
            · rw [if_pos c3, if_neg (by omega), if_pos (by omega), if_neg (by omega), if_pos (by omega),
                getElem?_ensure junk x.mem _ _ (by omega)]
              congr 1; omega
            · rw [if_neg c3, if_neg (by omega), if_neg (by omega)]
      · show m.length = _
        rw [if_pos ⟨by omega, h0⟩, l1, l0, hl]; rfl
      · show decide (m[x.size + n]? = some 0) = decide (x.mem[x.size]? = some 0)
        rw [g1, if_neg (by omega), g0, if_pos (by omega), getElem?_ensure junk x.mem _ _ (by omega)]
        have : pos + (x.size + n - (pos + n)) = x.size := by omega
        rw [this]

/-- `iwxstr_clear` -/
theorem mclear_spec (x : XMem) (inv : x.Inv) :
    ∃ x', mclear x = some x' ∧ x'.Inv ∧ x'.data = [] ∧ x'.asize = x.asize ∧ x'.term = true := by
  unfold XMem.Inv at inv
  unfold mclear
  rw [poke_some _ _ _ (by omega)]
  refine ⟨_, rfl, ?_, ?_, ?_, ?_⟩
  · show 0 < (x.mem.set 0 0).length
    simp; omega
  · simp [XMem.data]
  · simp [XMem.asize]
  · exact term_set x.mem _ (by omega)

/-- `iwxstr_wrap`: room for the terminator is made when the caller's buffer is exactly full -/
theorem mwrap_spec (junk : Nat) (b : Bytes) (asize : Nat) :
    ∃ x, mwrap junk b asize = some x ∧ x.Inv ∧ x.data = b ∧
      x.asize = (if b.length ≥ asize then b.length + 1 else asize) ∧ x.term = true := by
  unfold mwrap
  dsimp only
  generalize hbuf : b ++ List.replicate (asize - b.length) junk = buf
  have hbl : buf.length = b.length + (asize - b.length) := by rw [← hbuf]; simp
  have hbg : ∀ j, j < b.length → buf[j]? = b[j]? := by
    intro j hj; rw [← hbuf, List.getElem?_append_left hj]
  generalize hmem : (if b.length ≥ asize then realloc junk buf (b.length + 1) else buf) = mem
  have hml : mem.length = (if b.length ≥ asize then b.length + 1 else asize) := by
    rw [← hmem]; split
    · rw [length_realloc]
    · rw [hbl]; omega
  have hmg : ∀ j, j < b.length → mem[j]? = b[j]? := by
    intro j hj
    rw [← hmem]; split
    · rw [getElem?_realloc, if_pos (by omega), if_pos (by omega)]; exact hbg j hj
    · exact hbg j hj
  have hlt : b.length < mem.length := by rw [hml]; split <;> omega
  rw [poke_some _ _ _ hlt]
  refine ⟨_, rfl, ?_, ?_, ?_, term_set mem _ hlt⟩
  · show b.length < (mem.set b.length 0).length
    simp; exact hlt
  · apply List.ext_getElem?
    intro j
    rw [data_get]
    simp only [List.getElem?_set]
    by_cases c : j < b.length
    · rw [if_pos c, if_neg (by omega), hmg j c]
    · rw [if_neg c]; simp; omega
  · show (mem.set b.length 0).length = _
    simp [hml]

/-- `iwxstr_clone` (fixed code): same data, same allocation size, terminated -/
theorem mclone_spec (junk : Nat) (x : XMem) (inv : x.Inv) :
    ∃ c, mclone junk x = some c ∧ c.Inv ∧ c.data = x.data ∧ c.asize = x.asize ∧ c.term = true := by
  unfold XMem.Inv at inv
  unfold mclone
  have hcopy : ∃ m, (if x.size ≠ 0 then mclone.copyIn' (List.replicate x.mem.length junk) x.mem x.size
      else some (List.replicate x.mem.length junk)) = some m ∧ m.length = x.mem.length ∧
      ∀ j, j < x.size → m[j]? = x.mem[j]? := by
    by_cases h0 : x.size ≠ 0
    · rw [if_pos h0]
      unfold mclone.copyIn'
      rw [if_pos ⟨by omega, by simp; omega⟩]
      refine ⟨_, rfl, by simp; omega, ?_⟩
      intro j hj
      rw [List.getElem?_append_left (by simp; omega), List.getElem?_take, if_pos hj]
    · rw [if_neg h0]
      exact ⟨_, rfl, by simp, fun j hj => by omega⟩
  obtain ⟨m, e, l, g⟩ := hcopy
  simp only [e, Option.bind_some]
  rw [poke_some _ _ _ (by omega)]
  refine ⟨_, rfl, ?_, ?_, ?_, term_set m _ (by omega)⟩
  · show x.size < (m.set x.size 0).length
    simp; omega
  · apply List.ext_getElem?
    intro j
    rw [data_get, data_get]
    simp only [List.getElem?_set]
    by_cases c : j < x.size
    · rw [if_pos c, if_pos c, if_neg (by omega), g j c]
    · rw [if_neg c, if_neg c]
  · show (m.set x.size 0).length = _
    simp [l, XMem.asize]

/-! ### the print functions -/

theorem vsnprintf_spec (junk cap : Nat) (out : Bytes) (hc : 0 < cap) :
    (vsnprintf junk cap out).2 = out.length ∧ (vsnprintf junk cap out).1.length = cap ∧
    (vsnprintf junk cap out).1.take (min out.length (cap - 1)) = out.take (cap - 1) := by
  unfold vsnprintf
  rw [if_neg (by omega)]
  refine ⟨rfl, by simp; omega, ?_⟩
  simp only
  rw [List.append_assoc, List.take_left' (by simp)]
  by_cases h : out.length ≤ cap - 1
  · rw [Nat.min_eq_left h, List.take_of_length_le h, List.take_of_length_le (Nat.le_refl _)]
  · rw [Nat.min_eq_right (by omega)]

/-- **the buffer switch of `iwxstr_printf_va` / `iwxstr_insert_vaprintf` is exact**: whatever the formatted
length (in particular 1023 = last fit of the stack buffer, 1024 = first heap buffer, 1025), the `len` bytes the
function passes on are readable in the buffer it chose and are the complete formatted output -/
theorem printfSource_spec (junk : Nat) (out : Bytes) :
    (printfSource junk out).2 = out.length ∧ out.length ≤ (printfSource junk out).1.length ∧
    (printfSource junk out).1.take out.length = out ∧
    ((printfSource junk out).1.length = PRINTF_BUF ↔ out.length < PRINTF_BUF) := by
  unfold printfSource
  obtain ⟨a1, a2, a3⟩ := vsnprintf_spec junk PRINTF_BUF out (by decide)
  obtain ⟨b1, b2, b3⟩ := vsnprintf_spec junk (out.length + 1) out (by omega)
  simp only [a1]
  by_cases h : out.length ≥ PRINTF_BUF
  · rw [if_pos h]
    simp only [b1]
    refine ⟨trivial, by omega, ?_, by rw [b2]; omega⟩
    have : min out.length (out.length + 1 - 1) = out.length := by omega
    rw [this] at b3
    rw [b3]; exact List.take_of_length_le (by omega)
  · rw [if_neg h]
    have hp : PRINTF_BUF = 1024 := rfl
    refine ⟨a1, by rw [a2]; omega, ?_, by rw [a2]; omega⟩
    have : min out.length (PRINTF_BUF - 1) = out.length := by omega
    rw [this] at a3
    rw [a3]; exact List.take_of_length_le (by omega)

theorem printfBytes_eq (out : Bytes) : printfBytes out = some out := by
  obtain ⟨h1, h2, h3, _⟩ := printfSource_spec 0xAA out
  unfold printfBytes
  simp only [h1]
  rw [if_pos h2, h3]

end IwModel.XStr
