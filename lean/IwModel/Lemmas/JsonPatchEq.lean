import IwModel.Lemmas.JsonPatchRfc
import Mathlib.Data.List.Perm.Subperm
/-! `_jbl_compare_nodes` (sort the members of both objects by key, compare pairwise) decides JSON equality of RFC 6902
4.6 (objects as sets of members) on documents whose objects have distinct member names. -/
namespace IwModel.Patch
open IwModel

/-- the order `_jbl_cmp_node_keys` sorts by -/
def KLe (a b : Bytes) : Prop := keyLe a b = true

theorem kle_iff (a b : Bytes) : KLe a b ↔ a.length < b.length ∨ (a.length = b.length ∧ a ≤ b) := by
  simp [KLe, keyLe]

theorem kle_total (a b : Bytes) : KLe a b ∨ KLe b a := by
  rw [kle_iff, kle_iff]
  rcases Nat.lt_trichotomy a.length b.length with h | h | h
  · exact Or.inl (Or.inl h)
  · rcases List.le_total a b with h' | h'
    · exact Or.inl (Or.inr ⟨h, h'⟩)
    · exact Or.inr (Or.inr ⟨h.symm, h'⟩)
  · exact Or.inr (Or.inl h)

theorem kle_trans (a b c : Bytes) (h1 : KLe a b) (h2 : KLe b c) : KLe a c := by
  rw [kle_iff] at *
  rcases h1 with h1 | ⟨e1, l1⟩ <;> rcases h2 with h2 | ⟨e2, l2⟩
  · exact Or.inl (by omega)
  · exact Or.inl (by omega)
  · exact Or.inl (by omega)
  · exact Or.inr ⟨by omega, List.le_trans l1 l2⟩

theorem kle_antisymm (a b : Bytes) (h1 : KLe a b) (h2 : KLe b a) : a = b := by
  rw [kle_iff] at *
  rcases h1 with h1 | ⟨e1, l1⟩ <;> rcases h2 with h2 | ⟨e2, l2⟩
  · omega
  · omega
  · omega
  · exact List.le_antisymm l1 l2

theorem perm_insKey (p : Bytes × Node) (l : List (Bytes × Node)) : (insKey p l).Perm (p :: l) := by
  induction l with
  | nil => simp [insKey]
  | cons q r ih =>
    simp only [insKey]
    split
    · exact List.Perm.refl _
    · exact (List.Perm.cons q ih).trans (List.Perm.swap p q r)

theorem perm_sortKeys (l : List (Bytes × Node)) : (sortKeys l).Perm l := by
  induction l with
  | nil => simp [sortKeys]
  | cons p r ih => exact (perm_insKey p _).trans (List.Perm.cons p ih)

def KSorted (l : List (Bytes × Node)) : Prop := l.Pairwise fun x y => KLe x.1 y.1

theorem sorted_insKey (p : Bytes × Node) (l : List (Bytes × Node)) (h : KSorted l) : KSorted (insKey p l) := by
  induction l with
  | nil => simp [insKey, KSorted]
  | cons q r ih =>
    simp only [KSorted, List.pairwise_cons] at h
    simp only [insKey]
    split
    · rename_i hle
      simp only [KSorted, List.pairwise_cons]
      refine ⟨?_, h⟩
      intro y hy
      rcases List.mem_cons.mp hy with rfl | hy
      · exact hle
      · exact kle_trans _ _ _ hle (h.1 y hy)
    · rename_i hle
      have hqp : KLe q.1 p.1 := by
        rcases kle_total p.1 q.1 with h' | h'
        · exact absurd h' hle
        · exact h'
      simp only [KSorted, List.pairwise_cons]
      refine ⟨?_, ih h.2⟩
      intro y hy
      have := (perm_insKey p r).mem_iff.mp hy
      rcases List.mem_cons.mp this with rfl | hy'
      · exact hqp
      · exact h.1 y hy'

theorem sorted_sortKeys (l : List (Bytes × Node)) : KSorted (sortKeys l) := by
  induction l with
  | nil => simp [sortKeys, KSorted]
  | cons p r ih => exact sorted_insKey p _ ih

end IwModel.Patch

namespace IwModel.Patch
open IwModel

def keysND (ms : List (Bytes × Node)) : Prop := (ms.map (·.1)).Nodup

theorem lookup_of_mem (ns : List (Bytes × Node)) (q : Bytes × Node) (hn : keysND ns) (hq : q ∈ ns) :
    ns.lookup q.1 = some q.2 := by
  induction ns with
  | nil => cases hq
  | cons a r ih =>
    have hnd : a.1 ∉ r.map (·.1) ∧ keysND r := by simpa [keysND] using hn
    rcases List.mem_cons.mp hq with rfl | hq'
    · obtain ⟨k, v⟩ := q; simp [List.lookup]
    · have hne : (q.1 == a.1) = false := by
        rw [beq_eq_false_iff_ne]
        intro e
        exact hnd.1 (by rw [← e]; exact List.mem_map_of_mem hq')
      obtain ⟨ka, va⟩ := a
      simp only [List.lookup, hne]
      exact ih hnd.2 hq'

theorem mem_of_lookup (ns : List (Bytes × Node)) (k : Bytes) (w : Node) (h : ns.lookup k = some w) : (k, w) ∈ ns := by
  induction ns with
  | nil => simp [List.lookup] at h
  | cons a r ih =>
    obtain ⟨ka, va⟩ := a
    simp only [List.lookup] at h
    by_cases hk : k == ka
    · simp only [hk, Option.some.injEq] at h
      have : k = ka := by simpa using hk
      subst this; subst h; simp
    · simp only [hk] at h
      exact List.mem_cons_of_mem _ (ih h)

theorem all_zip_iff {α β} (A : List α) (B : List β) (f : α × β → Bool) (hl : A.length = B.length) :
    (A.zip B).all f = true ↔ ∀ i (h1 : i < A.length) (h2 : i < B.length), f (A[i], B[i]) = true := by
  induction A generalizing B with
  | nil => simp
  | cons a r ih =>
    cases B with
    | nil => simp at hl
    | cons b s =>
      simp only [List.zip_cons_cons, List.all_cons, Bool.and_eq_true, List.length_cons]
      rw [ih s (by simpa using hl)]
      constructor
      · rintro ⟨h0, hr⟩ i h1 h2
        cases i with
        | zero => simpa using h0
        | succ j => simpa using hr j (by omega) (by omega)
      · intro h
        refine ⟨by simpa using h 0 (by omega) (by omega), fun i h1 h2 => ?_⟩
        have := h (i + 1) (by omega) (by omega)
        simp only [List.getElem_cons_succ] at this
        exact this

/-- the combinatorial core: for objects with distinct member names and equally many members, "sort both by key and
    compare pairwise" holds iff every member of the first has an equal-valued member of the same name in the second -/
theorem sorted_zip_iff (ms ns : List (Bytes × Node)) (E : Node → Node → Bool) (hm : keysND ms) (hn : keysND ns)
    (hl : ms.length = ns.length) :
    ((sortKeys ms).zip (sortKeys ns)).all (fun pq => pq.1.1 == pq.2.1 && E pq.1.2 pq.2.2) = true ↔
      ∀ p ∈ ms, ∃ w, ns.lookup p.1 = some w ∧ E p.2 w = true := by
  have hA := perm_sortKeys ms
  have hB := perm_sortKeys ns
  have hlen : (sortKeys ms).length = (sortKeys ns).length := by rw [hA.length_eq, hB.length_eq, hl]
  rw [all_zip_iff _ _ _ hlen]
  constructor
  · intro h p hp
    obtain ⟨i, hi, e⟩ := List.getElem_of_mem (hA.mem_iff.mpr hp)
    have hi2 : i < (sortKeys ns).length := by omega
    have := h i hi hi2
    simp only [Bool.and_eq_true, beq_iff_eq] at this
    rw [e] at this
    have hq : (sortKeys ns)[i] ∈ ns := hB.mem_iff.mp (List.getElem_mem hi2)
    refine ⟨((sortKeys ns)[i]).2, ?_, this.2⟩
    rw [this.1]; exact lookup_of_mem ns _ hn hq
  · intro h
    -- the key lists of both objects are permutations of one another
    have hsub : ms.map (·.1) ⊆ ns.map (·.1) := by
      intro k hk
      obtain ⟨p, hp, rfl⟩ := List.mem_map.mp hk
      obtain ⟨w, hw, _⟩ := h p hp
      exact List.mem_map_of_mem (f := (·.1)) (mem_of_lookup ns p.1 w hw)
    have hperm : (ms.map (·.1)).Perm (ns.map (·.1)) :=
      (List.subperm_of_subset hm hsub).perm_of_length_le (by simp [hl])
    have hkeys : (sortKeys ms).map (·.1) = (sortKeys ns).map (·.1) := by
      apply List.Perm.eq_of_pairwise (le := KLe)
      · intro a b _ _ h1 h2; exact kle_antisymm a b h1 h2
      · exact List.pairwise_map.mpr (sorted_sortKeys ms)
      · exact List.pairwise_map.mpr (sorted_sortKeys ns)
      · exact ((hA.map _).trans hperm).trans (hB.map _).symm
    intro i h1 h2
    have hk : ((sortKeys ms)[i]).1 = ((sortKeys ns)[i]).1 := by
      have := congrArg (fun l => l[i]?) hkeys
      simpa [h1, h2] using this
    have hp : (sortKeys ms)[i] ∈ ms := hA.mem_iff.mp (List.getElem_mem h1)
    have hq : (sortKeys ns)[i] ∈ ns := hB.mem_iff.mp (List.getElem_mem h2)
    obtain ⟨w, hw, he⟩ := h _ hp
    have := lookup_of_mem ns _ hn hq
    rw [← hk, hw] at this
    simp only [Bool.and_eq_true, beq_iff_eq]
    exact ⟨hk, by rw [← Option.some.inj this]; exact he⟩

end IwModel.Patch

namespace IwModel.Patch
open IwModel

/-- a document as the parsers and the binary form produce it: objects have distinct member names, and there is no
    `JBV_NONE` node anywhere -/
inductive UK : Node → Prop
  | null : UK .null
  | bool b : UK (.bool b)
  | int i : UK (.int i)
  | f64 b : UK (.f64 b)
  | str s : UK (.str s)
  | arr xs : (∀ p ∈ xs, UK p.2) → UK (.arr xs)
  | obj ms : keysND ms → (∀ p ∈ ms, UK p.2) → UK (.obj ms)

theorem uk_arr_iff (xs : List (Int × Node)) : UK (.arr xs) ↔ ∀ p ∈ xs, UK p.2 :=
  ⟨fun h => by cases h with | arr _ h1 => exact h1, fun h => UK.arr xs h⟩

theorem uk_obj_iff (ms : List (Bytes × Node)) : UK (.obj ms) ↔ keysND ms ∧ ∀ p ∈ ms, UK p.2 :=
  ⟨fun h => by cases h with | obj _ h1 h2 => exact ⟨h1, h2⟩, fun h => UK.obj ms h.1 h.2⟩

theorem not_uk_none : ¬ UK .none := fun h => by cases h

theorem lookup_eraseMs_map (ns : List (Bytes × Node)) (k : Bytes) :
    (eraseMs ns).lookup k = (ns.lookup k).map erase := by
  induction ns with
  | nil => rfl
  | cons a r ih =>
    obtain ⟨ka, va⟩ := a
    simp only [eraseMs, List.map_cons, List.lookup]
    by_cases hk : k == ka
    · simp [hk]
    · simp only [hk]; exact ih

theorem all_zip_map {α β} (xs ys : List α) (g : α → β) (f : β × β → Bool) :
    ((xs.map g).zip (ys.map g)).all f = (xs.zip ys).all (fun pq => f (g pq.1, g pq.2)) := by
  induction xs generalizing ys with
  | nil => simp
  | cons a r ih =>
    cases ys with
    | nil => simp
    | cons b s => simp [ih s]

theorem all_congr_mem {α} (l : List α) (f g : α → Bool) (h : ∀ x ∈ l, f x = g x) : l.all f = l.all g := by
  induction l with
  | nil => rfl
  | cons a r ih =>
    simp only [List.all_cons]
    rw [h a (by simp), ih (fun x hx => h x (by simp [hx]))]

/-- `_jbl_compare_nodes == 0` is JSON equality of the denoted values, at every fuel -/
theorem nodeEqF_eq (fuel : Nat) : ∀ a b : Node, UK a → UK b →
    nodeEqF fuel a b = Rfc.jsonEqF fuel (erase a) (erase b) := by
  induction fuel with
  | zero => intro a b _ _; rfl
  | succ n ih =>
    intro a b ha hb
    cases a <;> cases b <;> first
      | exact absurd ha not_uk_none
      | exact absurd hb not_uk_none
      | (simp [nodeEqF, Rfc.jsonEqF, erase]; done)
      | skip
    · -- arrays
      rename_i xs ys
      simp only [nodeEqF, erase_arr, Rfc.jsonEqF, eraseXs, List.length_map]
      congr 1
      rw [all_zip_map xs ys (fun p => erase p.2)]
      apply all_congr_mem
      intro pq hpq
      have h1 := (uk_arr_iff xs).mp ha pq.1 (List.of_mem_zip hpq).1
      have h2 := (uk_arr_iff ys).mp hb pq.2 (List.of_mem_zip hpq).2
      exact ih pq.1.2 pq.2.2 h1 h2
    · -- objects
      rename_i ms ns
      obtain ⟨hm, hmc⟩ := (uk_obj_iff ms).mp ha
      obtain ⟨hn, hnc⟩ := (uk_obj_iff ns).mp hb
      simp only [nodeEqF, erase_obj, Rfc.jsonEqF]
      have hlen : (eraseMs ms).length = ms.length := by simp [eraseMs]
      have hlen2 : (eraseMs ns).length = ns.length := by simp [eraseMs]
      rw [hlen, hlen2]
      by_cases hl : ms.length = ns.length
      · have hlb : (ms.length == ns.length) = true := by simpa using hl
        simp only [hlb, Bool.true_and]
        rw [Bool.eq_iff_iff, sorted_zip_iff ms ns (nodeEqF n) hm hn hl]
        simp only [eraseMs, List.all_map, List.all_eq_true, Function.comp_def]
        constructor
        · intro h p hp
          obtain ⟨w, hw, he⟩ := h p hp
          have := lookup_eraseMs_map ns p.1
          simp only [eraseMs] at this
          rw [this, hw]
          simp only [Option.map_some]
          rw [← ih p.2 w (hmc p hp) (hnc _ (mem_of_lookup ns p.1 w hw))]
          exact he
        · intro h p hp
          have h1 := h p hp
          have := lookup_eraseMs_map ns p.1
          simp only [eraseMs] at this
          rw [this] at h1
          cases hw : ns.lookup p.1 with
          | none => simp [hw] at h1
          | some w =>
            simp only [hw, Option.map_some] at h1
            exact ⟨w, rfl, by rw [ih p.2 w (hmc p hp) (hnc _ (mem_of_lookup ns p.1 w hw))]; exact h1⟩
      · have hlb : (ms.length == ns.length) = false := by simpa using hl
        simp [hlb]

end IwModel.Patch

namespace IwModel.Patch
open IwModel

/-- JSON values whose objects have distinct member names (what the binary form can hold, C14) -/
inductive UKJ : JVal → Prop
  | null : UKJ .null
  | bool b : UKJ (.bool b)
  | int i : UKJ (.int i)
  | f64 b : UKJ (.f64 b)
  | str s : UKJ (.str s)
  | arr xs : (∀ x ∈ xs, UKJ x) → UKJ (.arr xs)
  | obj ms : (ms.map (·.1)).Nodup → (∀ p ∈ ms, UKJ p.2) → UKJ (.obj ms)

theorem uk_ofJ (v : JVal) (h : UKJ v) : UK (ofJ v) := by
  induction v using JVal.induct with
  | null => rw [ofJ]; exact UK.null
  | bool b => rw [ofJ]; exact UK.bool b
  | int i => rw [ofJ]; exact UK.int i
  | f64 b => rw [ofJ]; exact UK.f64 b
  | str s => rw [ofJ]; exact UK.str s
  | arr xs ih =>
    rw [ofJ]
    cases h with
    | arr _ hx =>
      refine UK.arr _ ?_
      intro p hp
      have := mem_number _ p hp
      obtain ⟨x, hx', e⟩ := List.mem_map.mp this
      rw [← e]; exact ih x hx' (hx x hx')
  | obj ms ih =>
    rw [ofJ]
    cases h with
    | obj _ hk hc =>
      refine UK.obj _ ?_ ?_
      · simpa [keysND, List.map_map, Function.comp_def] using hk
      · intro p hp
        obtain ⟨q, hq, e⟩ := List.mem_map.mp hp
        rw [← e]; exact ih q hq (hc q hq)

theorem uk_child (n : Node) (i : Nat) (c : Node) (h : UK n) (hc : child? n i = some c) : UK c := by
  cases n with
  | arr xs =>
    simp only [child?, Option.map_eq_some_iff] at hc
    obtain ⟨p, hp, rfl⟩ := hc
    exact (uk_arr_iff xs).mp h p (List.mem_of_getElem? hp)
  | obj ms =>
    simp only [child?, Option.map_eq_some_iff] at hc
    obtain ⟨p, hp, rfl⟩ := hc
    exact ((uk_obj_iff ms).mp h).2 p (List.mem_of_getElem? hp)
  | _ => simp [child?] at hc

theorem uk_getP (n : Node) (ps : List Nat) (c : Node) (h : UK n) (hc : getP n ps = some c) : UK c := by
  induction ps generalizing n with
  | nil => simp [getP] at hc; exact hc ▸ h
  | cons i r ih =>
    simp only [getP] at hc
    split at hc
    · rename_i c' hc'
      exact ih c' (uk_child n i c' h hc') hc
    · simp at hc

theorem keys_modify (ms : List (Bytes × Node)) (i : Nat) (g : Node → Node) :
    (ms.modify i fun p => (p.1, g p.2)).map (·.1) = ms.map (·.1) := by
  induction ms generalizing i with
  | nil => simp
  | cons a r ih =>
    cases i with
    | zero => simp
    | succ j => simp [ih j]

theorem uk_modP (n : Node) (ps : List Nat) (g : Node → Node) (hg : ∀ m, UK m → UK (g m)) (h : UK n) :
    UK (modP n ps g) := by
  induction ps generalizing n with
  | nil => exact hg n h
  | cons i r ih =>
    cases n with
    | arr xs =>
      rw [modP]
      refine UK.arr _ ?_
      intro p hp
      rcases mem_modify xs i _ p hp with hp | ⟨x, hx, e⟩
      · exact (uk_arr_iff xs).mp h p hp
      · rw [e]; exact ih x.2 ((uk_arr_iff xs).mp h x hx)
    | obj ms =>
      rw [modP]
      obtain ⟨hk, hc⟩ := (uk_obj_iff ms).mp h
      refine UK.obj _ ?_ ?_
      · simp only [keysND]; rw [keys_modify ms i (fun m => modP m r g)]; exact hk
      · intro p hp
        rcases mem_modify ms i _ p hp with hp | ⟨x, hx, e⟩
        · exact hc p hp
        · rw [e]; exact ih x.2 (hc x hx)
    | none => simpa [modP] using h
    | null => simpa [modP] using h
    | bool b => simpa [modP] using h
    | int b => simpa [modP] using h
    | f64 b => simpa [modP] using h
    | str b => simpa [modP] using h

theorem uk_setP (n : Node) (ps : List Nat) (v : Node) (h : UK n) (hv : UK v) : UK (setP n ps v) :=
  uk_modP n ps _ (fun _ _ => hv) h

theorem uk_setChild (n : Node) (i : Nat) (v : Node) (h : UK n) (hv : UK v) : UK (setChild n i v) := by
  have : setChild n i v = modP n [i] (fun _ => v) := by
    cases n <;> simp [setChild, modP]
  rw [this]; exact uk_modP n [i] _ (fun _ _ => hv) h

theorem uk_removeChild (n : Node) (i : Nat) (h : UK n) : UK (removeChild n i) := by
  cases n with
  | arr xs =>
    rw [removeChild]
    refine UK.arr _ ?_
    intro p hp
    rcases List.mem_append.mp hp with hp | hp
    · exact (uk_arr_iff xs).mp h p (List.mem_of_mem_take hp)
    · obtain ⟨q, hq, e⟩ := List.mem_map.mp hp
      rw [← e]; exact (uk_arr_iff xs).mp h q (List.mem_of_mem_drop hq)
  | obj ms =>
    rw [removeChild]
    obtain ⟨hk, hc⟩ := (uk_obj_iff ms).mp h
    refine UK.obj _ ?_ (fun p hp => hc p (List.mem_of_mem_eraseIdx hp))
    simp only [keysND]
    exact List.Nodup.sublist (List.Sublist.map _ (List.eraseIdx_sublist ms i)) hk
  | none => exact h
  | null => exact h
  | bool b => exact h
  | int b => exact h
  | f64 b => exact h
  | str b => exact h

theorem uk_addItem_arr (xs : List (Int × Node)) (k : Bytes) (v : Node) (h : UK (.arr xs)) (hv : UK v) :
    UK (addItem (.arr xs) k v) := by
  rw [addItem]
  refine UK.arr _ ?_
  intro p hp
  rcases List.mem_append.mp hp with hp | hp
  · exact (uk_arr_iff xs).mp h p hp
  · simp at hp; subst hp; exact hv

theorem findIdx_none_notMem (ms : List (Bytes × Node)) (k : Bytes) (h : ms.findIdx? (fun q => q.1 == k) = none) :
    k ∉ ms.map (·.1) := by
  intro hk
  obtain ⟨q, hq, e⟩ := List.mem_map.mp hk
  rw [List.findIdx?_eq_none_iff] at h
  have := h q hq
  simp [e] at this

theorem uk_append_new (ms : List (Bytes × Node)) (k : Bytes) (v : Node) (h : UK (.obj ms)) (hv : UK v)
    (hn : ms.findIdx? (fun q => q.1 == k) = none) : UK (.obj (ms ++ [(k, v)])) := by
  obtain ⟨hk, hc⟩ := (uk_obj_iff ms).mp h
  refine UK.obj _ ?_ ?_
  · simp only [keysND, List.map_append, List.map_cons, List.map_nil]
    rw [List.nodup_append]
    refine ⟨hk, by simp, ?_⟩
    intro a ha b hb
    simp at hb; subst hb
    intro e; subst e
    exact findIdx_none_notMem ms a hn ha
  · intro p hp
    rcases List.mem_append.mp hp with hp | hp
    · exact hc p hp
    · simp at hp; subst hp; exact hv

theorem uk_increment (t v : Node) (h : UK t) : UK (increment t v).1 := by
  unfold increment
  cases v <;> cases t <;> first | exact h | exact UK.int _ | exact UK.f64 _ | (dsimp only; split <;> first | exact h | exact UK.int _)

theorem uk_insertPlain (parent : Node) (last : Bytes) (op : OpK) (v : Node) (h : UK parent) (hv : UK v) :
    UK (insertPlain parent last op v).1 := by
  cases parent with
  | arr xs =>
    have h2 := (uk_arr_iff xs).mp h
    simp only [insertPlain]
    split
    · split
      · rename_i i hi
        split
        · rename_i c hc
          exact uk_setChild _ i _ h (uk_increment c v (uk_child _ i c h hc))
        · exact h
      · exact h
    · split
      · exact uk_addItem_arr xs last v h hv
      · split
        · exact h
        · split
          · exact h
          · split
            · refine UK.arr _ ?_
              intro p hp
              rcases List.mem_append.mp hp with hp | hp
              · exact h2 p (List.mem_of_mem_take hp)
              · rcases List.mem_cons.mp hp with rfl | hp
                · exact hv
                · obtain ⟨q, hq, e⟩ := List.mem_map.mp hp
                  rw [← e]; exact h2 q (List.mem_of_mem_drop hq)
            · exact uk_addItem_arr xs last v h hv
  | obj ms =>
    simp only [insertPlain]
    split
    · rename_i i hi
      split
      · split
        · rename_i c hc
          exact uk_setChild _ i _ h (uk_increment c v (uk_child _ i c h hc))
        · exact h
      · exact uk_setChild _ i _ h hv
    · rename_i hnone
      split
      · exact h
      · exact uk_append_new ms last v h hv (by simpa [childIdx] using hnone)
  | none => exact h
  | null => exact h
  | bool b => exact h
  | int b => exact h
  | f64 b => exact h
  | str b => exact h

theorem uk_detach (t : Node) (path : Ptr) (t' v : Node) (ps : List Nat) (h : UK t)
    (hd : detach t path = some (t', v, ps)) : UK t' ∧ UK v := by
  simp only [detach] at hd
  split at hd
  · simp at hd
  · split at hd
    · simp at hd
    · rename_i pp hpp
      split at hd
      · simp at hd
      · rename_i parent hparent
        split at hd
        · simp at hd
        · rename_i i hi
          split at hd
          · simp at hd
          · rename_i c hc
            simp only [Option.some.injEq, Prod.mk.injEq] at hd
            obtain ⟨rfl, rfl, rfl⟩ := hd
            have hp := uk_getP t pp parent h hparent
            exact ⟨uk_modP t pp _ (fun m hm => uk_removeChild m i hm) h, uk_child parent i c hp hc⟩

/-- `place` for the operations that never create intermediate objects -/
theorem uk_place (t : Node) (op : OpK) (path : Ptr) (v : Node) (h : UK t) (hv : UK v)
    (hop : (op == OpK.addCreate) = false) : UK (place t op path v).1 := by
  simp only [place]
  split
  · exact h
  · split
    · rename_i pp hpp
      split
      · rename_i parent hparent
        exact uk_setP _ _ _ h (uk_insertPlain parent _ op v (uk_getP t pp parent h hparent) hv)
      · exact h
    · simp only [hop, Bool.false_eq_true, ↓reduceIte]
      exact h

theorem uk_find (t : Node) (p : Ptr) (v : Node) (h : UK t) (hf : find t p = some v) : UK v := by
  simp only [find, Option.bind_eq_some_iff] at hf
  obtain ⟨ps, _, hg⟩ := hf
  exact uk_getP t ps v h hg

end IwModel.Patch

namespace IwModel.Patch
open IwModel

theorem foldl_max_congr (l : List Nat) (l' : List Nat) (h : l = l') : l.foldl max 0 = l'.foldl max 0 := by rw [h]

theorem depth_eq (a : Node) : depth a = Rfc.jdepth (erase a) := by
  induction a using Node.induct with
  | none => simp [depth, erase, Rfc.jdepth]
  | null => simp [depth, erase, Rfc.jdepth]
  | bool b => simp [depth, erase, Rfc.jdepth]
  | int i => simp [depth, erase, Rfc.jdepth]
  | f64 b => simp [depth, erase, Rfc.jdepth]
  | str s => simp [depth, erase, Rfc.jdepth]
  | arr xs ih =>
    rw [depth, erase_arr, Rfc.jdepth]
    congr 1
    apply foldl_max_congr
    simp only [eraseXs, List.map_attach_eq_pmap, List.pmap_eq_map, List.map_map, Function.comp_def]
    exact List.map_congr_left (fun p hp => ih p hp)
  | obj ms ih =>
    rw [depth, erase_obj, Rfc.jdepth]
    congr 1
    apply foldl_max_congr
    simp only [eraseMs, List.map_attach_eq_pmap, List.pmap_eq_map, List.map_map, Function.comp_def]
    exact List.map_congr_left (fun p hp => ih p hp)

/-- **`test` equality.** On documents with distinct member names, `_jbl_compare_nodes(a, b) == 0` iff the values are
    equal in the sense of RFC 6902 4.6 (member order irrelevant). -/
theorem nodeEq_eq (a b : Node) (ha : UK a) (hb : UK b) : nodeEq a b = Rfc.jsonEq (erase a) (erase b) := by
  unfold nodeEq Rfc.jsonEq
  rw [depth_eq, nodeEqF_eq _ a b ha hb]

theorem applyOp_test (t : Node) (p : Ptr) (v : JVal) (d' : JVal) (h : WF t) (hu : UK t) (hv : UKJ v)
    (hok : OpOk (.test p v)) (hs : Rfc.step (erase t) (.test p v) = some d') :
    applyOp t (toPOp (.test p v)) = (t, .ok) ∧ erase t = d' := by
  simp only [Rfc.step] at hs
  split at hs
  · cases hs
  · rename_i w hw
    split at hs
    · rename_i heq
      simp only [Option.some.injEq] at hs
      refine ⟨?_, hs⟩
      obtain ⟨n, hn1, hn2⟩ := find_of_getAt t p w h hok.idxPath hw
      have hun : UK n := uk_find t p n hu hn1
      have he : nodeEq n (ofJ v) = true := by
        rw [nodeEq_eq n (ofJ v) hun (uk_ofJ v hv), hn2, erase_ofJ]; exact heq
      by_cases hp : p = []
      · subst hp
        simp only [find, locate, getP, Option.bind_some, Option.some.injEq] at hn1
        subst hn1
        simp [applyOp, toPOp, OpK.beq_eq, he]
      · have hr := oproot_false p hp hok.noSlash
        simp only [applyOp, toPOp, hr]
        simp [OpK.beq_eq, hn1, he]
    · cases hs

end IwModel.Patch

namespace IwModel.Patch
open IwModel

/-- the value carried by an operation has distinct member names -/
def opValueUK : Rfc.Op → Prop
  | .add _ v => UKJ v
  | .replace _ v => UKJ v
  | .test _ v => UKJ v
  | _ => True

def isRootRemove : Rfc.Op → Bool
  | .remove p => p == [] || p == [[]]
  | _ => false

theorem uk_applyOp_rfc (t : Node) (o : Rfc.Op) (h : UK t) (hv : opValueUK o) (hnr : isRootRemove o = false) :
    UK (applyOp t (toPOp o)).1 := by
  cases o with
  | add p v =>
    simp only [applyOp, toPOp, OpK.beq_eq]
    simp
    split
    · exact uk_ofJ v hv
    · exact uk_place t .add p _ h (uk_ofJ v hv) (by decide)
  | remove p =>
    have hr : (p == [] || p == [[]]) = false := hnr
    simp only [applyOp, toPOp, hr, OpK.beq_eq]
    simp
    split
    · exact h
    · rename_i t' w ps hd; exact (uk_detach t p t' w ps h hd).1
  | replace p v =>
    simp only [applyOp, toPOp, OpK.beq_eq]
    simp
    split
    · exact uk_ofJ v hv
    · split
      · exact h
      · rename_i t' w ps hd
        exact uk_place t' .replace p _ (uk_detach t p t' w ps h hd).1 (uk_ofJ v hv) (by decide)
  | move f p =>
    simp only [applyOp, toPOp, OpK.beq_eq]
    simp
    split
    · exact h
    · split
      · split
        · exact h
        · rename_i n hn; exact uk_find t f n h hn
      · split
        · exact h
        · rename_i t' w ps hd
          obtain ⟨h1, h2⟩ := uk_detach t f t' w ps h hd
          exact uk_place t' .move p w h1 h2 (by decide)
  | copy f p =>
    simp only [applyOp, toPOp, OpK.beq_eq]
    simp
    split
    · split
      · exact h
      · rename_i n hn; exact uk_find t f n h hn
    · split
      · exact h
      · rename_i n hn; exact uk_place t .copy p n h (uk_find t f n h hn) (by decide)
  | test p v =>
    simp only [applyOp, toPOp, OpK.beq_eq]
    simp
    split
    · split <;> exact h
    · exact h

/-- all six operations of RFC 6902: success ⇒ same result in the model -/
theorem applyOp_of_step_full (t : Node) (o : Rfc.Op) (d' : JVal) (h : WF t) (hu : UK t) (hok : OpOk o)
    (hv : opValueUK o) (hs : Rfc.step (erase t) o = some d') :
    ∃ t', applyOp t (toPOp o) = (t', .ok) ∧ erase t' = d' := by
  cases o with
  | add p v => exact applyOp_add t p v d' h hok hs
  | remove p => exact applyOp_remove t p d' h hok hs
  | replace p v => exact applyOp_replace t p v d' h hok hs
  | move f p => exact applyOp_move t f p d' h hok hs
  | copy f p => exact applyOp_copy t f p d' h hok hs
  | test p v => exact ⟨t, applyOp_test t p v d' h hu hv hok hs⟩

theorem step_not_rootRemove (doc : JVal) (o : Rfc.Op) (d' : JVal) (hok : OpOk o) (hs : Rfc.step doc o = some d') :
    isRootRemove o = false := by
  cases o with
  | remove p =>
    simp only [isRootRemove]
    have h2 : p ≠ [[]] := hok.noSlash
    have h1 : p ≠ [] := by intro e; subst e; simp [Rfc.step, Rfc.removeAt] at hs
    simp [h1, h2]
  | _ => rfl

theorem runOps_of_run_full (t : Node) (ops : List Rfc.Op) (d' : JVal) (h : WF t) (hu : UK t)
    (hok : ∀ o ∈ ops, OpOk o ∧ opValueUK o) (hr : Rfc.run (erase t) ops = some d') :
    ∃ t', runOps t (ops.map toPOp) = (t', .ok) ∧ erase t' = d' ∧ WF t' ∧ UK t' := by
  induction ops generalizing t with
  | nil =>
    simp only [Rfc.run, Option.some.injEq] at hr
    exact ⟨t, rfl, hr, h, hu⟩
  | cons o r ih =>
    simp only [Rfc.run, Option.bind_eq_some_iff] at hr
    obtain ⟨d1, hs, hr'⟩ := hr
    obtain ⟨hoo, hov⟩ := hok o (by simp)
    obtain ⟨t1, a1, a2⟩ := applyOp_of_step_full t o d1 h hu hoo hov hs
    have hw : WF t1 := by
      have := wf_applyOp t (toPOp o) h (toPOp_WFv o)
      rw [a1] at this; exact this
    have hu1 : UK t1 := by
      have := uk_applyOp_rfc t o hu hov (step_not_rootRemove _ o d1 hoo hs)
      rw [a1] at this; exact this
    obtain ⟨t', b1, b2, b3, b4⟩ := ih t1 hw hu1 (fun o' ho' => hok o' (by simp [ho'])) (by rw [a2]; exact hr')
    refine ⟨t', ?_, b2, b3, b4⟩
    simp only [List.map_cons, runOps, a1, b1]

end IwModel.Patch
