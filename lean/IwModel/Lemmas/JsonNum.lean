import IwModel.Model.JsonSpec
import IwModel.Model.JsonParse
/-! Number leaves of the parser model: decimal digits, `strtoll` on an integer part, the number branch on
integer literals and on tokens with fraction/exponent. -/
namespace IwModel.Json
open IwModel

theorem digits_lt10 (n : Nat) (h : n < 10) : Conv.digits n = [48 + n] := by
  rw [Conv.digits]; simp [h]

theorem digits_ge10 (n : Nat) (h : ¬ n < 10) : Conv.digits n = Conv.digits (n / 10) ++ [48 + n % 10] := by
  rw [Conv.digits]; simp [h]

theorem digits_all (n : Nat) : ∀ c ∈ Conv.digits n, 48 ≤ c ∧ c ≤ 57 := by
  induction n using Nat.strongRecOn with
  | _ n ih =>
    by_cases h : n < 10
    · rw [digits_lt10 n h]; simp; omega
    · rw [digits_ge10 n h]
      intro c hc
      simp only [List.mem_append, List.mem_singleton] at hc
      rcases hc with hc | hc
      · exact ih (n / 10) (by omega) c hc
      · omega

/-- no leading zero: the first digit is `0` only for the number 0, whose text is `0` -/
theorem digits_head (n : Nat) : ∃ c r, Conv.digits n = c :: r ∧ 48 ≤ c ∧ c ≤ 57 ∧ (c = 48 → n = 0 ∧ r = []) := by
  induction n using Nat.strongRecOn with
  | _ n ih =>
    by_cases h : n < 10
    · rw [digits_lt10 n h]; exact ⟨48 + n, [], rfl, by omega, by omega, fun hc => ⟨by omega, rfl⟩⟩
    · rw [digits_ge10 n h]
      obtain ⟨c, r, hd, h1, h2, h3⟩ := ih (n / 10) (by omega)
      refine ⟨c, r ++ [48 + n % 10], by simp [hd], h1, h2, ?_⟩
      intro hc
      have := (h3 hc).1
      omega

theorem digitsVal_append (base : Nat) (a : Bytes) (c : Nat) :
    digitsVal base (a ++ [c]) = digitsVal base a * base + (digitVal base c).getD 0 := by
  simp [digitsVal, List.foldl_append]

theorem digitVal10 (c : Nat) (h1 : 48 ≤ c) (h2 : c ≤ 57) : digitVal 10 c = some (c - 48) := by
  unfold digitVal
  rw [if_pos ⟨h1, h2⟩, if_pos (by omega)]

theorem digitsVal_digits (n : Nat) : digitsVal 10 (Conv.digits n) = n := by
  induction n using Nat.strongRecOn with
  | _ n ih =>
    by_cases h : n < 10
    · rw [digits_lt10 n h]
      simp [digitsVal, digitVal10 (48 + n) (by omega) (by omega)]
    · rw [digits_ge10 n h, digitsVal_append, ih (n / 10) (by omega), digitVal10 _ (by omega) (by omega)]
      simp; omega


/-- what may follow the digits of an integer part for `strtoll` to stop there (and not switch base) -/
def numEnd : Bytes → Bool
  | [] => true
  | c :: _ => !(isDigit c) && c ≠ 120 && c ≠ 88

theorem takeWhile_stop (p : Nat → Bool) (a rest : Bytes) (ha : ∀ c ∈ a, p c = true)
    (hr : ∀ c r, rest = c :: r → p c = false) : (a ++ rest).takeWhile p = a := by
  induction a with
  | nil =>
    cases rest with
    | nil => rfl
    | cons c r => simp [List.takeWhile, hr c r rfl]
  | cons x xs ih =>
    simp only [List.cons_append, List.takeWhile, ha x (by simp)]
    rw [ih (fun c hc => ha c (by simp [hc]))]

theorem numEnd_not_digit (base : Nat) (hb : base ≤ 10) (rest : Bytes) (h : numEnd rest = true) :
    ∀ c r, rest = c :: r → (digitVal base c).isSome = false := by
  intro c r hc
  subst hc
  simp only [numEnd, isDigit, Bool.and_eq_true, Bool.not_eq_true', Bool.and_eq_false_iff, decide_eq_false_iff_not,
    bne_iff_ne, ne_eq, decide_eq_true_eq] at h
  unfold digitVal
  repeat' split
  all_goals (first | rfl | omega | (simp; omega))

theorem splitSign_digits (neg : Bool) (c : Nat) (r : Bytes) (h1 : 48 ≤ c) :
    splitSign (signText neg ++ c :: r) = (neg, c :: r, (signText neg).length) := by
  cases neg
  · simp only [signText, Bool.false_eq_true, ↓reduceIte, List.nil_append, List.length_nil]
    unfold splitSign
    split
    · rename_i h; simp at h; omega
    · rename_i h; simp at h; omega
    · rfl
  · simp [signText, splitSign]

theorem detectBase_pos (c : Nat) (r : Bytes) (h : c ≠ 48) : detectBase (c :: r) = (10, c :: r, 0) := by
  unfold detectBase
  split
  · rename_i h'; simp at h'; omega
  · rename_i h'; simp at h'; omega
  · rfl

theorem detectBase_zero (rest : Bytes) (hr : numEnd rest = true) : detectBase (48 :: rest) = (8, 48 :: rest, 0) := by
  cases rest with
  | nil => rfl
  | cons x xs =>
    have hxx : ¬ (x = 120 ∨ x = 88) := by
      simp [numEnd] at hr; omega
    simp [detectBase, hxx]

theorem clamp_len (neg : Bool) (n len : Nat) : clamp neg n len =
      (if neg then (if n > 2 ^ 63 then (-(2 ^ 63 : Int), len, true) else (-(n : Int), len, false))
       else (if n ≥ 2 ^ 63 then ((2 ^ 63 - 1 : Int), len, true) else ((n : Int), len, false))) := rfl

theorem strtoll_digits (neg : Bool) (n : Nat) (rest : Bytes) (hr : numEnd rest = true) :
    strtoll (signText neg ++ Conv.digits n ++ rest) =
      clamp neg n ((signText neg).length + (Conv.digits n).length) := by
  obtain ⟨c, r, hd, hc1, hc2, hc0⟩ := digits_head n
  have hall := digits_all n
  have hval := digitsVal_digits n
  have hsplit : splitSign (signText neg ++ Conv.digits n ++ rest) = (neg, Conv.digits n ++ rest, (signText neg).length) := by
    rw [List.append_assoc, hd, List.cons_append, splitSign_digits neg c (r ++ rest) hc1]
  unfold strtoll
  simp only [hsplit]
  unfold strtollFrom
  by_cases hz : c = 48
  · obtain ⟨rfl, rfl⟩ := hc0 hz
    subst hz
    have hne := numEnd_not_digit 8 (by omega) rest hr
    have hb : detectBase (Conv.digits 0 ++ rest) = (8, Conv.digits 0 ++ rest, 0) := by
      rw [hd]; exact detectBase_zero rest hr
    simp only [hb]
    have htw : (Conv.digits 0 ++ rest).takeWhile (fun c => (digitVal 8 c).isSome) = Conv.digits 0 :=
      takeWhile_stop _ _ _ (by rw [hd]; intro c hc; simp at hc; subst hc; rfl) hne
    rw [htw]
    simp [hd, digitsVal, digitVal]
  · have hne := numEnd_not_digit 10 (by omega) rest hr
    have hb : detectBase (Conv.digits n ++ rest) = (10, Conv.digits n ++ rest, 0) := by
      rw [hd]; exact detectBase_pos c (r ++ rest) hz
    simp only [hb]
    have htw : (Conv.digits n ++ rest).takeWhile (fun c => (digitVal 10 c).isSome) = Conv.digits n :=
      takeWhile_stop _ _ _ (by intro c hc; have := hall c hc; rw [digitVal10 c this.1 this.2]; rfl) hne
    rw [htw, hval]
    simp [hd]


/-- assumed behaviour of the opaque `iwstrtod`: on a valid number token followed by a delimiter it consumes exactly
    the token, reports no range error and yields the double `D token` (runtime gap: checked by the tie only) -/
def SdSpec (sd : SD) (D : Bytes → Nat) : Prop :=
  ∀ (t : NumTok) (rest : Bytes), t.valid = true → delim rest = true →
    sd (t.text ++ rest) = (D t.text, t.text.length, false)

/-- the same for the tokens satisfying `ok` only (the model of `iwstrtod` meets this for tokens whose exponent `pow` can
    represent, see `Lemmas/Strtod.lean`) -/
def SdSpecOn (ok : NumTok → Bool) (sd : SD) (D : Bytes → Nat) : Prop :=
  ∀ (t : NumTok) (rest : Bytes), t.valid = true → ok t = true → delim rest = true →
    sd (t.text ++ rest) = (D t.text, t.text.length, false)

theorem SdSpec.on {sd : SD} {D : Bytes → Nat} (h : SdSpec sd D) : SdSpecOn (fun _ => true) sd D :=
  fun t rest hv _ hd => h t rest hv hd

theorem delim_numEnd (rest : Bytes) (h : delim rest = true) : numEnd rest = true := by
  cases rest with
  | nil => rfl
  | cons c r =>
    simp only [delim, isWsByte, Bool.or_eq_true, decide_eq_true_eq] at h
    simp only [numEnd, isDigit, Bool.and_eq_true, Bool.not_eq_true', Bool.and_eq_false_iff, decide_eq_false_iff_not,
      bne_iff_ne, ne_eq, decide_eq_true_eq]
    omega

theorem hd_delim (rest : Bytes) (h : delim rest = true) :
    ¬ (hd rest = 46 ∨ hd rest = 101 ∨ hd rest = 69 ∨ hd rest = 45 ∨ hd rest = 43) := by
  cases rest with
  | nil => simp [hd]
  | cons c r =>
    simp only [delim, isWsByte, Bool.or_eq_true, decide_eq_true_eq] at h
    simp only [hd, List.headD_cons]
    omega

theorem parseNumber_int (sd : SD) (neg : Bool) (n : Nat) (rest : Bytes)
    (hv : (Cst.int neg n).valid = true) (hdl : delim rest = true) :
    parseNumber sd (signText neg ++ Conv.digits n ++ rest) = .ok (.int (if neg then -(n : Int) else (n : Int)), rest) := by
  have hs := strtoll_digits neg n rest (delim_numEnd rest hdl)
  obtain ⟨c, r, hdg, hc1, hc2, hc0⟩ := digits_head n
  have hlen : 1 ≤ (Conv.digits n).length := by rw [hdg]; simp
  have hdrop : (signText neg ++ Conv.digits n ++ rest).drop ((signText neg).length + (Conv.digits n).length) = rest := by
    rw [← List.length_append, List.drop_left]
  have hnd := hd_delim rest hdl
  unfold parseNumber
  rw [hs]
  simp only [Cst.valid] at hv
  cases neg
  · simp only [Bool.false_eq_true, ↓reduceIte, decide_eq_true_eq] at hv
    simp only [clamp, Bool.false_eq_true, ↓reduceIte, show ¬ n ≥ 2 ^ 63 by omega, hdrop]
    simp [hnd, hdg]
  · simp only [↓reduceIte, decide_eq_true_eq] at hv
    simp only [clamp, ↓reduceIte, show ¬ n > 2 ^ 63 by omega, hdrop]
    simp [hnd, hdg]


theorem clamp_snd (neg : Bool) (mag n : Nat) : (clamp neg mag n).2.1 = n := by
  unfold clamp; repeat' split
  all_goals rfl

theorem NumTok.tail_head (t : NumTok) (hv : t.valid = true) (hfe : (t.frac.isSome || t.exp.isSome) = true) :
    ∃ c r, t.tail = c :: r ∧ (c = 46 ∨ c = 101 ∨ c = 69) := by
  unfold NumTok.valid at hv
  unfold NumTok.tail
  cases hf : t.frac with
  | some ds => exact ⟨46, _, rfl, Or.inl rfl⟩
  | none =>
    cases he : t.exp with
    | none => simp [hf, he] at hfe
    | some x =>
      obtain ⟨e, s, ds⟩ := x
      simp only [hf, he, Bool.and_eq_true, Bool.or_eq_true, decide_eq_true_eq] at hv
      refine ⟨e, s ++ ds, by simp, ?_⟩
      have := hv.1.2.1.1.1
      omega

/-- an integer literal beyond int64 is read through the double branch -/
theorem parseNumber_big (sd : SD) (D : Bytes → Nat) (ok : NumTok → Bool) (hsd : SdSpecOn ok sd D) (t : NumTok) (rest : Bytes)
    (hv : t.valid = true) (hk : ok t = true) (hfe : (t.frac.isSome || t.exp.isSome) = false) (hdl : delim rest = true) :
    parseNumber sd (t.text ++ rest) = .ok (.f64 (D t.text), rest) := by
  have hf : t.frac = none := by cases h : t.frac <;> simp [h] at hfe ⊢
  have he : t.exp = none := by cases h : t.exp <;> simp [h] at hfe ⊢
  have hbig : t.big = true := by
    unfold NumTok.valid at hv
    simp only [hf, he, Option.isSome_none, Bool.false_or, Bool.and_eq_true] at hv
    exact hv.2
  have htail : t.tail = [] := by simp [NumTok.tail, hf, he]
  have htext : t.text = signText t.neg ++ Conv.digits t.ip := by simp [NumTok.text, htail]
  have hs := strtoll_digits t.neg t.ip rest (delim_numEnd rest hdl)
  obtain ⟨c0, r0, hdg, -, -, -⟩ := digits_head t.ip
  have hsd' := hsd t rest hv hk hdl
  have hlen : t.text.length ≠ 0 := by simp [htext, hdg]
  have hdrop : (t.text ++ rest).drop t.text.length = rest := List.drop_left
  have hcl : clamp t.neg t.ip ((signText t.neg).length + (Conv.digits t.ip).length) =
      ((if t.neg then -(2 ^ 63 : Int) else (2 ^ 63 - 1 : Int)), (signText t.neg).length + (Conv.digits t.ip).length, true) := by
    unfold NumTok.big at hbig
    unfold clamp
    cases hn : t.neg <;> simp [hn] at hbig ⊢ <;> omega
  have hnz : (signText t.neg).length + (Conv.digits t.ip).length ≠ 0 := by rw [hdg]; simp
  unfold parseNumber
  rw [hsd']
  rw [htext] at *
  have hdne : Conv.digits t.ip ≠ [] := by rw [hdg]; simp
  rw [hs, hcl]
  simp [hnz, hlen, hdrop, hdne]

theorem parseNumber_fracexp (sd : SD) (D : Bytes → Nat) (ok : NumTok → Bool) (hsd : SdSpecOn ok sd D) (t : NumTok) (rest : Bytes)
    (hv : t.valid = true) (hk : ok t = true) (hfe : (t.frac.isSome || t.exp.isSome) = true) (hdl : delim rest = true) :
    parseNumber sd (t.text ++ rest) = .ok (.f64 (D t.text), rest) := by
  obtain ⟨c, r, htl, hc⟩ := t.tail_head hv hfe
  have hne : numEnd (t.tail ++ rest) = true := by
    rw [htl]
    simp only [List.cons_append, numEnd, isDigit, Bool.and_eq_true, Bool.not_eq_true', Bool.and_eq_false_iff,
      decide_eq_false_iff_not, bne_iff_ne, ne_eq, decide_eq_true_eq]
    omega
  have hp : t.text ++ rest = signText t.neg ++ Conv.digits t.ip ++ (t.tail ++ rest) := by
    simp [NumTok.text, List.append_assoc]
  have hs := strtoll_digits t.neg t.ip (t.tail ++ rest) hne
  obtain ⟨c0, r0, hdg, -, -, -⟩ := digits_head t.ip
  have hsd' := hsd t rest hv hk hdl
  have hlen : t.text.length ≠ 0 := by simp [NumTok.text, hdg]
  have hdrop0 : (t.text ++ rest).drop ((signText t.neg).length + (Conv.digits t.ip).length) = t.tail ++ rest := by
    rw [hp, ← List.length_append, List.drop_left]
  have hdrop : (t.text ++ rest).drop t.text.length = rest := List.drop_left
  unfold parseNumber
  rw [hsd']
  rw [hp] at *
  rw [hs]
  rcases hcl : clamp t.neg t.ip ((signText t.neg).length + (Conv.digits t.ip).length) with ⟨v, n', er⟩
  have hn' : n' = (signText t.neg).length + (Conv.digits t.ip).length := by
    have := clamp_snd t.neg t.ip ((signText t.neg).length + (Conv.digits t.ip).length)
    rw [hcl] at this; exact this
  subst hn'
  have hnz : (signText t.neg).length + (Conv.digits t.ip).length ≠ 0 := by rw [hdg]; simp
  simp only [hdrop0, htl, List.cons_append, hd, List.headD_cons]
  have hdne : Conv.digits t.ip ≠ [] := by rw [hdg]; simp
  have hc' : (c = 46 ∨ c = 101 ∨ c = 69 ∨ c = 45 ∨ c = 43) := by omega
  have hfin : List.drop (List.length t.text) (signText t.neg ++ (Conv.digits t.ip ++ c :: (r ++ rest))) = rest := by
    rw [show signText t.neg ++ (Conv.digits t.ip ++ c :: (r ++ rest)) = t.text ++ rest from by simp [NumTok.text, htl]]
    exact List.drop_left
  cases er <;> simp [hnz, hc', hlen, hdne, hsd', hfin]

theorem parseNumber_dbl (sd : SD) (D : Bytes → Nat) (ok : NumTok → Bool) (hsd : SdSpecOn ok sd D) (t : NumTok) (rest : Bytes)
    (hv : t.valid = true) (hk : ok t = true) (hdl : delim rest = true) :
    parseNumber sd (t.text ++ rest) = .ok (.f64 (D t.text), rest) := by
  cases hfe : (t.frac.isSome || t.exp.isSome)
  · exact parseNumber_big sd D ok hsd t rest hv hk hfe hdl
  · exact parseNumber_fracexp sd D ok hsd t rest hv hk hfe hdl

end IwModel.Json
