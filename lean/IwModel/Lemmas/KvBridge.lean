import IwModel.Lemmas.Kv
import IwModel.Lemmas.Cmp
import IwModel.Props.C19
/-! Bridge between C19 (the comparators of the code are strict total orders on the keys the store
can hold) and C01/C02 (the node layer refines the ordered map for every strict total order).

* `StrictTotalOn P gt`: `gt` is a strict total order on the keys satisfying `P`; its restriction
  to the subtype `{k // P k}` is `StrictTotal` (`StrictTotalOn.lift`).
* transport: every operation of `Model/Kv.lean` commutes with renaming keys along `f : K' → K` when
  the comparator of `K'` is the pull-back of the one of `K` (`put_mapK`, `del_mapK`, `get_mapK`,
  `runNode_mapK`, `runSpec_mapK`, `curSeek_mapK` …) — the operations only ever *compare* keys.
  With `f = Subtype.val` this moves the refinement theorems from the subtype to histories over the
  whole key type all of whose keys satisfy `P` (`run_refines_on`).
* `KvApi.Valid flags k`: the effective keys `_to_effective_key` can produce for a database with
  flags `flags`; `gtE_strictTotalOn`: the comparator the store uses is a strict total order on them,
  in every key mode. -/
namespace IwModel.Kv

/-- `gt` is a strict total order on the keys satisfying `P` -/
structure StrictTotalOn {K : Type} (P : K → Prop) (gt : K → K → Bool) : Prop where
  irrefl : ∀ a, P a → gt a a = false
  trans : ∀ a b c, P a → P b → P c → gt a b = true → gt b c = true → gt a c = true
  tri : ∀ a b, P a → P b → gt a b = false → gt b a = false → a = b

section Transport
variable {K K' V : Type}

/-- the comparator of `K` seen from `K'` through `f` -/
abbrev pull (f : K' → K) (gt : K → K → Bool) : K' → K' → Bool := fun a b => gt (f a) (f b)

theorem pull_apply (f : K' → K) (gt : K → K → Bool) (a b : K') : gt (f a) (f b) = pull f gt a b := rfl

/-- the restriction of a strict total order on `P` to the subtype is a strict total order -/
theorem StrictTotalOn.lift {P : K → Prop} {gt : K → K → Bool} (st : StrictTotalOn P gt) :
    StrictTotal (pull (Subtype.val : {k // P k} → K) gt) :=
  ⟨fun a => st.irrefl a.1 a.2, fun a b c => st.trans a.1 b.1 c.1 a.2 b.2 c.2,
   fun a b h1 h2 => Subtype.ext (st.tri a.1 b.1 a.2 b.2 h1 h2)⟩

theorem StrictTotal.on {gt : K → K → Bool} (st : StrictTotal gt) (P : K → Prop) : StrictTotalOn P gt :=
  ⟨fun a _ => st.irrefl a, fun a b c _ _ _ => st.trans a b c, fun a b _ _ => st.tri a b⟩

def mapRecs (f : K' → K) (l : List (K' × V)) : List (K × V) := l.map fun x => (f x.1, x.2)

def Node.mapK (f : K' → K) (n : Node K' V) : Node K V := ⟨n.lvl, mapRecs f n.recs⟩

def Db.mapK (f : K' → K) (d : Db K' V) : Db K V := ⟨d.nodes.map (Node.mapK f), d.curs⟩

def Op.mapK (f : K' → K) : Op K' V → Op K V
  | .put k v l => .put (f k) v l
  | .putNoOverwrite k v l => .putNoOverwrite (f k) v l
  | .del k => .del (f k)
  | .get k => .get (f k)

/-- the key a call is about -/
def Op.key : Op K V → K
  | .put k _ _ => k
  | .putNoOverwrite k _ _ => k
  | .del k => k
  | .get k => k

variable (f : K' → K) (gt : K → K → Bool)

@[simp] theorem mapRecs_nil : mapRecs f ([] : List (K' × V)) = [] := rfl
@[simp] theorem mapRecs_cons (x : K' × V) (l : List (K' × V)) :
    mapRecs f (x :: l) = (f x.1, x.2) :: mapRecs f l := rfl
@[simp] theorem mapRecs_length (l : List (K' × V)) : (mapRecs f l).length = l.length := by simp [mapRecs]
@[simp] theorem mapRecs_append (l1 l2 : List (K' × V)) :
    mapRecs f (l1 ++ l2) = mapRecs f l1 ++ mapRecs f l2 := by simp [mapRecs]
theorem mapRecs_take (l : List (K' × V)) (i : Nat) : (mapRecs f l).take i = mapRecs f (l.take i) := by
  simp [mapRecs, List.map_take]
theorem mapRecs_drop (l : List (K' × V)) (i : Nat) : (mapRecs f l).drop i = mapRecs f (l.drop i) := by
  simp [mapRecs, List.map_drop]
theorem mapRecs_set (l : List (K' × V)) (i : Nat) (k : K') (v : V) :
    (mapRecs f l).set i (f k, v) = mapRecs f (l.set i (k, v)) := by
  simp [mapRecs, List.map_set]
theorem mapRecs_eraseIdx (l : List (K' × V)) (i : Nat) :
    (mapRecs f l).eraseIdx i = mapRecs f (l.eraseIdx i) := by
  induction l generalizing i with
  | nil => rfl
  | cons x tl ih =>
    cases i with
    | zero => rfl
    | succ j => simp only [mapRecs_cons, List.eraseIdx_cons_succ, ih]
theorem mapRecs_getElem? (l : List (K' × V)) (i : Nat) :
    (mapRecs f l)[i]? = (l[i]?).map fun x => (f x.1, x.2) := by simp [mapRecs]
theorem mapRecs_eq_nil (l : List (K' × V)) : mapRecs f l = [] ↔ l = [] := by simp [mapRecs]

theorem insertAt_mapRecs (l : List (K' × V)) (i : Nat) (k : K') (v : V) :
    insertAt (mapRecs f l) i (f k, v) = mapRecs f (insertAt l i (k, v)) := by
  simp [insertAt, mapRecs_take, mapRecs_drop]

theorem flatten_mapK (ns : List (Node K' V)) :
    flatten (ns.map (Node.mapK f)) = mapRecs f (flatten ns) := by
  induction ns with
  | nil => rfl
  | cons n tl ih =>
    simp only [flatten, List.map_cons, List.flatMap_cons] at ih ⊢
    rw [ih, mapRecs_append]; rfl

/-! ### spec layer -/

theorem findPos_mapRecs (k : K') (l : List (K' × V)) :
    findPos gt (f k) (mapRecs f l) = findPos (pull f gt) k l := by
  induction l with
  | nil => rfl
  | cons x tl ih =>
    obtain ⟨a, v⟩ := x
    simp only [mapRecs_cons, findPos, ih]

theorem specGet_mapRecs (k : K') (m : List (K' × V)) :
    specGet gt (mapRecs f m) (f k) = specGet (pull f gt) m k := by
  simp only [specGet, findPos_mapRecs, mapRecs_drop]
  cases m.drop (findPos (pull f gt) k m) with
  | nil => rfl
  | cons x tl => obtain ⟨a, v⟩ := x; rfl

theorem specPut_mapRecs (k : K') (v : V) (m : List (K' × V)) :
    specPut gt (mapRecs f m) (f k) v = mapRecs f (specPut (pull f gt) m k v) := by
  simp only [specPut, findPos_mapRecs, mapRecs_drop, mapRecs_take]
  cases m.drop (findPos (pull f gt) k m) with
  | nil => simp
  | cons x tl =>
    obtain ⟨a, av⟩ := x
    simp only [mapRecs_cons]
    by_cases h : gt (f k) (f a) = true <;> simp [h]

theorem specDel_mapRecs (k : K') (m : List (K' × V)) :
    specDel gt (mapRecs f m) (f k) = mapRecs f (specDel (pull f gt) m k) := by
  simp only [specDel, findPos_mapRecs, mapRecs_drop, mapRecs_take]
  cases m.drop (findPos (pull f gt) k m) with
  | nil => simp
  | cons x tl =>
    obtain ⟨a, av⟩ := x
    simp only [mapRecs_cons]
    by_cases h : gt (f k) (f a) = true <;> simp [h]

theorem stepSpec_mapK (m : List (K' × V)) (op : Op K' V) :
    stepSpec gt (mapRecs f m) (op.mapK f) =
      (mapRecs f (stepSpec (pull f gt) m op).1, (stepSpec (pull f gt) m op).2) := by
  cases op with
  | put k v l => simp only [Op.mapK, stepSpec, specPut_mapRecs, specGet_mapRecs]
  | putNoOverwrite k v l =>
    simp only [Op.mapK, stepSpec, specGet_mapRecs]
    cases specGet (pull f gt) m k with
    | none => simp only [specPut_mapRecs]
    | some ov => rfl
  | del k => simp only [Op.mapK, stepSpec, specDel_mapRecs, specGet_mapRecs]
  | get k => simp only [Op.mapK, stepSpec, specGet_mapRecs]

theorem runSpec_mapK (ops : List (Op K' V)) (m : List (K' × V)) :
    runSpec gt (mapRecs f m) (ops.map (Op.mapK f)) =
      (mapRecs f (runSpec (pull f gt) m ops).1, (runSpec (pull f gt) m ops).2) := by
  induction ops generalizing m with
  | nil => rfl
  | cons op ops ih =>
    simp only [List.map_cons, runSpec, stepSpec_mapK, ih]

/-! ### node layer -/

@[simp] theorem Node.mapK_lvl (n : Node K' V) : (Node.mapK f n).lvl = n.lvl := rfl
@[simp] theorem Node.mapK_recs (n : Node K' V) : (Node.mapK f n).recs = mapRecs f n.recs := rfl
@[simp] theorem Db.mapK_nodes (d : Db K' V) : (Db.mapK f d).nodes = d.nodes.map (Node.mapK f) := rfl
@[simp] theorem Db.mapK_curs (d : Db K' V) : (Db.mapK f d).curs = d.curs := rfl

theorem mapCurs_mapK (g : CPos → CPos) (d : Db K' V) : mapCurs g (Db.mapK f d) = Db.mapK f (mapCurs g d) := rfl

theorem routeIdx_mapK (k : K') (ns : List (Node K' V)) :
    routeIdx gt (f k) (ns.map (Node.mapK f)) = routeIdx (pull f gt) k ns := by
  induction ns with
  | nil => rfl
  | cons n tl ih =>
    obtain ⟨lvl, recs⟩ := n
    cases recs with
    | nil => simp only [List.map_cons, Node.mapK, mapRecs_nil, routeIdx, ih]
    | cons x r => obtain ⟨a, v⟩ := x; simp only [List.map_cons, Node.mapK, mapRecs_cons, routeIdx, ih]

theorem findPi_mapRecs (k : K') (recs : List (K' × V)) :
    findPi gt (f k) (mapRecs f recs) = findPi (pull f gt) k recs := by
  simp only [findPi, findPos_mapRecs, mapRecs_drop]
  cases recs.drop (findPos (pull f gt) k recs) with
  | nil => rfl
  | cons x tl => obtain ⟨a, v⟩ := x; rfl

theorem clampLvl_mapK (ns : List (Node K' V)) (l : Nat) :
    clampLvl (ns.map (Node.mapK f)) l = clampLvl ns l := by
  induction l with
  | zero => rfl
  | succ l ih =>
    have : (ns.map (Node.mapK f)).any (fun n => decide (n.lvl = l)) = ns.any (fun n => decide (n.lvl = l)) := by
      rw [List.any_map]; rfl
    simp only [clampLvl, ih, this]

theorem upperFree_mapK (post : List (Node K' V)) : upperFree (post.map (Node.mapK f)) = upperFree post := by
  cases post with
  | nil => rfl
  | cons u tl => simp [upperFree]

theorem put_mapK (d : Db K' V) (k : K') (v : V) (nw : Bool) (lvl : Nat) :
    put gt (Db.mapK f d) (f k) v nw lvl =
      (Db.mapK f (put (pull f gt) d k v nw lvl).1, (put (pull f gt) d k v nw lvl).2) := by
  obtain ⟨nodes, curs⟩ := d
  simp only [put, Db.mapK_nodes, routeIdx_mapK, clampLvl_mapK]
  by_cases hr : routeIdx (pull f gt) k nodes = 0
  · simp only [hr, if_true]
    cases nodes with
    | nil => rfl
    | cons u rest =>
      simp only [List.map_cons, Node.mapK_recs, mapRecs_length, findPi_mapRecs]
      by_cases h1 : u.recs.length < cap
      · simp only [h1, if_true, insertAt_mapRecs]; rfl
      · simp only [h1, if_false]; rfl
  · simp only [hr, if_false, List.getElem?_map]
    cases hl : nodes[routeIdx (pull f gt) k nodes - 1]? with
    | none => rfl
    | some lower =>
      simp only [Option.map_some, Node.mapK_recs, mapRecs_length, findPi_mapRecs]
      generalize routeIdx (pull f gt) k nodes - 1 = li
      simp only [← List.map_take, ← List.map_drop, upperFree_mapK, mapRecs_getElem?, Option.map_map]
      by_cases h1 : (findPi (pull f gt) k lower.recs).fst = true
      · simp only [h1, if_true]
        cases nw with
        | true => simp only [if_true]; rfl
        | false =>
          simp only [Bool.false_eq_true, if_false, mapRecs_set]
          simp [Db.mapK, Node.mapK, Function.comp_def]
      · simp only [h1]
        by_cases h2 : lower.recs.length ≥ cap
        · simp only [h2, if_true]
          by_cases h3 : (decide ((findPi (pull f gt) k lower.recs).snd ≥ cap) && upperFree (List.drop (li + 1) nodes)) = true
          · simp only [h3, if_true]
            cases List.drop (li + 1) nodes with
            | nil => rfl
            | cons u rest =>
              simp only [List.map_cons, Node.mapK_recs, Node.mapK_lvl, findPi_mapRecs, insertAt_mapRecs]
              simp [Db.mapK, Node.mapK, mapCurs]
          · simp only [h3]
            by_cases h4 : (findPi (pull f gt) k lower.recs).snd = lower.recs.length
            · simp only [h4, if_true]
              simp [Db.mapK, Node.mapK, mapCurs]
            · simp only [h4, if_false]
              by_cases h5 : (findPi (pull f gt) k lower.recs).snd > pivot
              · simp only [h5, if_true, mapRecs_take, mapRecs_drop, insertAt_mapRecs]
                simp [Db.mapK, Node.mapK, mapCurs]
              · simp only [h5, if_false, mapRecs_take, mapRecs_drop, insertAt_mapRecs]
                simp [Db.mapK, Node.mapK, mapCurs]
        · simp only [h2, if_false, insertAt_mapRecs]
          simp [Db.mapK, Node.mapK, mapCurs]

theorem delAt_mapK (d : Db K' V) (li idx : Nat) : delAt (Db.mapK f d) li idx = Db.mapK f (delAt d li idx) := by
  obtain ⟨nodes, curs⟩ := d
  simp only [delAt, Db.mapK_nodes, List.getElem?_map, List.length_map]
  cases hl : nodes[li]? with
  | none => rfl
  | some lower =>
    simp only [Option.map_some, Node.mapK_recs, mapRecs_length, ← List.map_take, ← List.map_drop]
    by_cases h1 : lower.recs.length = 1
    · simp only [h1, if_true]
      cases nodes[li - 1]? <;> simp [Db.mapK, mapCurs]
    · simp only [h1, if_false, mapRecs_eraseIdx, mapRecs_length]
      simp [Db.mapK, Node.mapK, mapCurs]

theorem del_mapK (d : Db K' V) (k : K') :
    del gt (Db.mapK f d) (f k) = (Db.mapK f (del (pull f gt) d k).1, (del (pull f gt) d k).2) := by
  simp only [del, Db.mapK_nodes, routeIdx_mapK, List.getElem?_map]
  by_cases hr : routeIdx (pull f gt) k d.nodes = 0
  · simp only [hr, if_true]
  · simp only [hr, if_false]
    cases hl : d.nodes[routeIdx (pull f gt) k d.nodes - 1]? with
    | none => rfl
    | some lower =>
      simp only [Option.map_some, Node.mapK_recs, findPi_mapRecs]
      cases (findPi (pull f gt) k lower.recs).fst with
      | false => rfl
      | true => simp only [Bool.not_true, Bool.false_eq_true, if_false, delAt_mapK]

theorem get_mapK (d : Db K' V) (k : K') : get gt (Db.mapK f d) (f k) = get (pull f gt) d k := by
  simp only [get, Db.mapK_nodes, routeIdx_mapK, List.getElem?_map]
  by_cases hr : routeIdx (pull f gt) k d.nodes = 0
  · simp only [hr, if_true]
  · simp only [hr, if_false]
    cases hl : d.nodes[routeIdx (pull f gt) k d.nodes - 1]? with
    | none => rfl
    | some lower =>
      simp only [Option.map_some, Node.mapK_recs, findPi_mapRecs, mapRecs_getElem?, Option.map_map]
      rfl

theorem stepNode_mapK (d : Db K' V) (op : Op K' V) :
    stepNode gt (Db.mapK f d) (op.mapK f) =
      (Db.mapK f (stepNode (pull f gt) d op).1, (stepNode (pull f gt) d op).2) := by
  cases op with
  | put k v l => simp only [Op.mapK, stepNode, put_mapK]
  | putNoOverwrite k v l => simp only [Op.mapK, stepNode, put_mapK]
  | del k => simp only [Op.mapK, stepNode, del_mapK]
  | get k => simp only [Op.mapK, stepNode, get_mapK]

theorem runNode_mapK (ops : List (Op K' V)) (d : Db K' V) :
    runNode gt (Db.mapK f d) (ops.map (Op.mapK f)) =
      (Db.mapK f (runNode (pull f gt) d ops).1, (runNode (pull f gt) d ops).2) := by
  induction ops generalizing d with
  | nil => rfl
  | cons op ops ih => simp only [List.map_cons, runNode, stepNode_mapK, ih]

/-! ### cursors -/

theorem curRec_mapK (d : Db K' V) (p : CPos) :
    curRec (Db.mapK f d) p = (curRec d p).map fun x => (f x.1, x.2) := by
  cases p with
  | head => rfl
  | tail => rfl
  | void => rfl
  | «at» i j s =>
    simp only [curRec, Db.mapK_nodes, List.getElem?_map]
    cases d.nodes[i]? with
    | none => rfl
    | some n => simp only [Option.map_some, Option.bind_some, Node.mapK_recs, mapRecs_getElem?]

theorem curSeek_mapK (d : Db K' V) (k : K') (ge : Bool) (p : CPos) :
    curSeek gt (Db.mapK f d) (f k) ge p = curSeek (pull f gt) d k ge p := by
  simp only [curSeek, Db.mapK_nodes, routeIdx_mapK, List.getElem?_map]
  by_cases hr : routeIdx (pull f gt) k d.nodes = 0
  · simp only [hr, if_true]
  · simp only [hr, if_false]
    cases hl : d.nodes[routeIdx (pull f gt) k d.nodes - 1]? with
    | none => rfl
    | some lower => simp only [Option.map_some, Node.mapK_recs, findPi_mapRecs]

theorem curSet_mapK (d : Db K' V) (p : CPos) (v : V) : curSet (Db.mapK f d) p v = Db.mapK f (curSet d p v) := by
  cases p with
  | head => rfl
  | tail => rfl
  | void => rfl
  | «at» i j s =>
    obtain ⟨nodes, curs⟩ := d
    simp only [curSet, Db.mapK_nodes, List.getElem?_map]
    cases hn : nodes[i]? with
    | none => rfl
    | some n =>
      simp only [Option.map_some, Node.mapK_recs, mapRecs_getElem?]
      cases hr : n.recs[j]? with
      | none => rfl
      | some x =>
        obtain ⟨a, av⟩ := x
        simp only [Option.map_some, mapRecs_set]
        simp [Db.mapK, Node.mapK, List.map_set]

theorem curDel_mapK (d : Db K' V) (p : CPos) : curDel (Db.mapK f d) p = Db.mapK f (curDel d p) := by
  cases p with
  | head => rfl
  | tail => rfl
  | void => rfl
  | «at» i j s =>
    simp only [curDel, curRec_mapK, Option.isSome_map, delAt_mapK]
    split <;> rfl

theorem filter_mapRecs (q : K × V → Bool) (l : List (K' × V)) :
    (mapRecs f l).filter q = mapRecs f (l.filter fun x => q (f x.1, x.2)) := by
  simp only [mapRecs, List.filter_map]; rfl

theorem any_mapRecs (q : K × V → Bool) (l : List (K' × V)) :
    (mapRecs f l).any q = l.any fun x => q (f x.1, x.2) := by
  simp only [mapRecs, List.any_map]; rfl

theorem getLast?_mapRecs (l : List (K' × V)) :
    (mapRecs f l).getLast? = l.getLast?.map fun x => (f x.1, x.2) := by
  simp only [mapRecs, List.getLast?_map]

/-! ### invariants -/

theorem desc_mapRecs (l : List (K' × V)) : Desc gt (mapRecs f l) ↔ Desc (pull f gt) l := by
  simp only [Desc, mapRecs, List.pairwise_map]

theorem nodesOk_mapK (ns : List (Node K' V)) : NodesOk (ns.map (Node.mapK f)) ↔ NodesOk ns := by
  simp only [NodesOk, List.mem_map, forall_exists_index, and_imp, forall_apply_eq_imp_iff₂, Node.mapK_recs,
    mapRecs_length, ne_eq, mapRecs_eq_nil]

theorem nodeInv_mapK (ns : List (Node K' V)) : NodeInv gt (ns.map (Node.mapK f)) ↔ NodeInv (pull f gt) ns := by
  simp only [NodeInv, nodesOk_mapK, flatten_mapK, desc_mapRecs]

end Transport
/-! ### restriction to the keys satisfying a predicate -/
section On
variable {K V : Type} {P : K → Prop} {gt : K → K → Bool}

/-- every key of every record satisfies `P` -/
def KeysOn (P : K → Prop) (l : List (K × V)) : Prop := ∀ x ∈ l, P x.1

/-- every call of the history is about a key satisfying `P` -/
def OpsOn (P : K → Prop) (ops : List (Op K V)) : Prop := ∀ op ∈ ops, P op.key

theorem keysOn_mapRecs_val (l : List ({k // P k} × V)) : KeysOn P (mapRecs Subtype.val l) := by
  intro x hx
  simp only [mapRecs, List.mem_map] at hx
  obtain ⟨y, _, rfl⟩ := hx
  exact y.1.2

theorem exists_lift_recs (l : List (K × V)) (h : KeysOn P l) :
    ∃ l' : List ({k // P k} × V), l = mapRecs Subtype.val l' := by
  induction l with
  | nil => exact ⟨[], rfl⟩
  | cons x tl ih =>
    obtain ⟨tl', rfl⟩ := ih (fun y hy => h y (List.mem_cons_of_mem _ hy))
    exact ⟨(⟨x.1, h x (List.mem_cons_self ..)⟩, x.2) :: tl', rfl⟩

theorem exists_lift_nodes (ns : List (Node K V)) (h : KeysOn P (flatten ns)) :
    ∃ ns' : List (Node {k // P k} V), ns = ns'.map (Node.mapK Subtype.val) := by
  induction ns with
  | nil => exact ⟨[], rfl⟩
  | cons n tl ih =>
    have h1 : KeysOn P n.recs := fun y hy => h y (by simp only [flatten, List.flatMap_cons, List.mem_append]; exact Or.inl hy)
    have h2 : KeysOn P (flatten tl) := fun y hy => h y (by
      simp only [flatten, List.flatMap_cons, List.mem_append] at hy ⊢; exact Or.inr hy)
    obtain ⟨tl', rfl⟩ := ih h2
    obtain ⟨r', hr⟩ := exists_lift_recs n.recs h1
    refine ⟨⟨n.lvl, r'⟩ :: tl', ?_⟩
    obtain ⟨lvl, recs⟩ := n
    simp only at hr
    subst hr
    rfl

theorem exists_lift_db (d : Db K V) (h : KeysOn P (flatten d.nodes)) :
    ∃ d' : Db {k // P k} V, d = Db.mapK Subtype.val d' := by
  obtain ⟨ns', hn⟩ := exists_lift_nodes d.nodes h
  obtain ⟨nodes, curs⟩ := d
  simp only at hn
  subst hn
  exact ⟨⟨ns', curs⟩, rfl⟩

theorem exists_lift_ops (ops : List (Op K V)) (h : OpsOn P ops) :
    ∃ ops' : List (Op {k // P k} V), ops = ops'.map (Op.mapK Subtype.val) := by
  induction ops with
  | nil => exact ⟨[], rfl⟩
  | cons op tl ih =>
    obtain ⟨tl', rfl⟩ := ih (fun y hy => h y (List.mem_cons_of_mem _ hy))
    have hk := h op (List.mem_cons_self ..)
    cases op with
    | put k v l => exact ⟨.put ⟨k, hk⟩ v l :: tl', rfl⟩
    | putNoOverwrite k v l => exact ⟨.putNoOverwrite ⟨k, hk⟩ v l :: tl', rfl⟩
    | del k => exact ⟨.del ⟨k, hk⟩ :: tl', rfl⟩
    | get k => exact ⟨.get ⟨k, hk⟩ :: tl', rfl⟩

/-- `run_refines` for a comparator that is a strict total order only on the keys satisfying `P`:
    every history over such keys, from every valid state holding such keys, is answered by the node
    model as by the ordered map, ends with the map's contents, a valid chain, and keys in `P`. -/
theorem run_refines_on (st : StrictTotalOn P gt) (ops : List (Op K V)) (hops : OpsOn P ops)
    (d : Db K V) (inv : NodeInv gt d.nodes) (hd : KeysOn P (flatten d.nodes)) :
    (runNode gt d ops).2 = (runSpec gt (flatten d.nodes) ops).2 ∧
    flatten (runNode gt d ops).1.nodes = (runSpec gt (flatten d.nodes) ops).1 ∧
    NodeInv gt (runNode gt d ops).1.nodes ∧ KeysOn P (flatten (runNode gt d ops).1.nodes) := by
  obtain ⟨d', rfl⟩ := exists_lift_db d hd
  obtain ⟨ops', rfl⟩ := exists_lift_ops ops hops
  have h := run_refines st.lift ops' d' ((nodeInv_mapK _ gt d'.nodes).1 inv)
  simp only [runNode_mapK, Db.mapK_nodes, flatten_mapK, runSpec_mapK]
  refine ⟨h.1, by rw [h.2.1], (nodeInv_mapK _ gt _).2 h.2.2, keysOn_mapRecs_val _⟩

theorem keysOn_nil : KeysOn P ([] : List (K × V)) := by intro x hx; cases hx

/-- the map laws of the spec layer (C01 §1) for a comparator that is a strict total order on `P`:
    on a descending list of `P`-keys, put/del of a `P`-key keep the list descending and within `P`,
    a stored key is found, a removed key is gone, and no other `P`-key is affected -/
theorem spec_laws_on (st : StrictTotalOn P gt) {m : List (K × V)} (hd : Desc gt m) (hm : KeysOn P m)
    (k : K) (hk : P k) (v : V) :
    (Desc gt (specPut gt m k v) ∧ KeysOn P (specPut gt m k v) ∧ specGet gt (specPut gt m k v) k = some v ∧
      ∀ k', P k' → k' ≠ k → specGet gt (specPut gt m k v) k' = specGet gt m k') ∧
    (Desc gt (specDel gt m k) ∧ KeysOn P (specDel gt m k) ∧ specGet gt (specDel gt m k) k = none ∧
      ∀ k', P k' → k' ≠ k → specGet gt (specDel gt m k) k' = specGet gt m k') := by
  obtain ⟨m', rfl⟩ := exists_lift_recs m hm
  have hd' := (desc_mapRecs _ gt m').1 hd
  have e : k = Subtype.val (⟨k, hk⟩ : {k // P k}) := rfl
  have hne : ∀ k' (hk' : P k'), k' ≠ k → (⟨k', hk'⟩ : {k // P k}) ≠ ⟨k, hk⟩ :=
    fun k' hk' h c => h (congrArg Subtype.val c)
  refine ⟨⟨?_, ?_, ?_, fun k' hk' h => ?_⟩, ⟨?_, ?_, ?_, fun k' hk' h => ?_⟩⟩
  · rw [e, specPut_mapRecs, desc_mapRecs]; exact desc_specPut st.lift hd' _ v
  · rw [e, specPut_mapRecs]; exact keysOn_mapRecs_val _
  · rw [e, specPut_mapRecs, specGet_mapRecs]; exact specGet_specPut_self st.lift hd' _ v
  · have e' : k' = Subtype.val (⟨k', hk'⟩ : {k // P k}) := rfl
    rw [e, specPut_mapRecs, e', specGet_mapRecs, specGet_mapRecs]
    exact specGet_specPut_other st.lift hd' _ v (hne k' hk' h)
  · rw [e, specDel_mapRecs, desc_mapRecs]; exact desc_specDel st.lift hd' _
  · rw [e, specDel_mapRecs]; exact keysOn_mapRecs_val _
  · rw [e, specDel_mapRecs, specGet_mapRecs]; exact specGet_specDel_self st.lift hd' _
  · have e' : k' = Subtype.val (⟨k', hk'⟩ : {k // P k}) := rfl
    rw [e, specDel_mapRecs, e', specGet_mapRecs, specGet_mapRecs]
    exact specGet_specDel_other st.lift hd' _ (hne k' hk' h)

end On

end IwModel.Kv

/-! ### the comparator of the store on the keys of each mode -/
namespace IwModel.KvApi
open IwModel Kv

/-- a sign-valued three-way comparison that is antisymmetric, zero only on identical keys and
    transitive on `P` yields a strict total order on `P` (`gt a b` iff the comparison of stored `b`
    with lookup `a` is positive) -/
theorem strictTotalOn_of_cmp {K : Type} (P : K → Prop) (cmp : K → K → Int) (gt : K → K → Bool)
    (hgt : ∀ a b, gt a b = decide (cmp b a > 0))
    (anti : ∀ a b, P a → P b → sgn (cmp a b) = - sgn (cmp b a))
    (eq0 : ∀ a b, P a → P b → cmp a b = 0 → a = b)
    (trans : ∀ a b c, P a → P b → P c → cmp a b > 0 → cmp b c > 0 → cmp a c > 0) :
    StrictTotalOn P gt := by
  refine ⟨fun a ha => ?_, fun a b c ha hb hc h1 h2 => ?_, fun a b ha hb h1 h2 => ?_⟩
  · have h := Cmp.sgn_flip (anti a a ha ha)
    rw [hgt, decide_eq_false_iff_not]
    omega
  · rw [hgt, decide_eq_true_eq] at h1 h2 ⊢
    exact trans c b a hc hb ha h2 h1
  · rw [hgt, decide_eq_false_iff_not] at h1 h2
    have h := Cmp.sgn_flip (anti a b ha hb)
    refine eq0 a b ha hb ?_
    omega

/-- `_cmp_keys` of a database with flags `flags`: stored effective key `a` against lookup key `b` -/
def cmpE (flags : Nat) (a b : EKey) : Int :=
  Cmp.cmpKeys (modeOf flags) (isCompound flags) (Cmp.stored (isCompound flags) a.1 a.2) b.1 b.2

theorem gtE_eq (flags : Nat) (a b : EKey) : gtE flags a b = decide (cmpE flags b a > 0) := rfl

/-- The effective keys a database with flags `flags` can hold (what `_to_effective_key` produces from
    a non-empty key, `toEffective_valid`): the compound part is 0 unless the database has compound
    keys; in integer mode the body is the vnum encoding of a number below 2^63; in real-number mode
    with compound keys the text is non-empty. No bound on the compound part, on key length or on the
    byte values is needed. -/
def Valid (flags : Nat) (k : EKey) : Prop :=
  (isCompound flags = false → k.2 = 0) ∧
  (modeOf flags = .vnum → ∃ n, n < 2 ^ 63 ∧ k.1 = Vnum.enc n) ∧
  (modeOf flags = .real → isCompound flags = true → k.1 ≠ [])

/-- every effective key `iwkv_put/get/del` computes from a non-empty caller key is valid -/
theorem toEffective_valid (flags : Nat) (key : Bytes) (comp : Nat) (ek : EKey) (hne : key ≠ [])
    (h : toEffective flags key comp = .ok ek) : Valid flags ek := by
  simp only [toEffective] at h
  by_cases hm : modeOf flags = .vnum
  · simp only [hm, if_true] at h
    have hc : ∀ n, ek = (Vnum.enc n, if isCompound flags then comp else 0) → n < 2 ^ 63 → Valid flags ek := by
      intro n e hn
      subst e
      exact ⟨fun hc => by simp [hc], fun _ => ⟨n, hn, rfl⟩, fun hr => by rw [hm] at hr; cases hr⟩
    split at h
    · split at h
      · cases h; exact hc _ rfl (by assumption)
      · cases h
    · split at h
      · split at h
        · cases h; exact hc _ rfl (by have : leVal key < 2 ^ 31 := by assumption
                                      omega)
        · cases h
      · cases h
  · simp only [hm, if_false] at h
    cases h
    exact ⟨fun hc => by simp [hc], fun hv => absurd hv hm, fun _ _ => hne⟩

theorem cmpE_plain (flags : Nat) (hm : modeOf flags = .plain) (a b : EKey) :
    cmpE flags a b = Cmp.cmpK (isCompound flags) a b := by simp only [cmpE, Cmp.cmpK, hm]

theorem cmpE_real (flags : Nat) (hm : modeOf flags = .real) (a b : EKey) :
    cmpE flags a b = Cmp.cmpR (isCompound flags) a b := by simp only [cmpE, Cmp.cmpR, hm]

theorem cmpE_vnum (flags : Nat) (hm : modeOf flags = .vnum) (n m c1 c2 : Nat) :
    cmpE flags (Vnum.enc n, c1) (Vnum.enc m, c2) = Cmp.cmpV (isCompound flags) (n, c1) (m, c2) := by
  simp only [cmpE, Cmp.cmpV, hm]

/-- the three order facts of C19, mode by mode, on the valid keys of a database -/
theorem cmpE_total (flags : Nat) (x y z : EKey) (hx : Valid flags x) (hy : Valid flags y) (hz : Valid flags z) :
    sgn (cmpE flags x y) = - sgn (cmpE flags y x) ∧ (cmpE flags x y = 0 → x = y) ∧
    (cmpE flags x y > 0 → cmpE flags y z > 0 → cmpE flags x z > 0) := by
  cases hm : modeOf flags with
  | plain =>
    simp only [cmpE_plain flags hm]
    refine ⟨C19.plain_antisymm _ x y, fun h => ?_, C19.plain_trans _ x y z⟩
    cases hc : isCompound flags with
    | false =>
      rw [hc] at h
      exact Prod.ext ((C19.plain_eq_iff x y).1 h) (by rw [hx.1 hc, hy.1 hc])
    | true => rw [hc] at h; exact (C19.plain_compound_eq_iff x y).1 h
  | vnum =>
    obtain ⟨n, hn, en⟩ := hx.2.1 hm
    obtain ⟨m, hm', em⟩ := hy.2.1 hm
    obtain ⟨l, hl, el⟩ := hz.2.1 hm
    obtain ⟨x1, x2⟩ := x
    obtain ⟨y1, y2⟩ := y
    obtain ⟨z1, z2⟩ := z
    simp only at en em el
    subst en em el
    simp only [cmpE_vnum flags hm]
    have t := C19.vnum_total (isCompound flags) (n, x2) (m, y2) (l, z2) hn hm' hl
    refine ⟨t.1, fun h => ?_, t.2.2⟩
    have e := t.2.1.1 h
    simp only at e
    obtain ⟨e1, e2⟩ := e
    subst e1
    cases hc : isCompound flags with
    | false =>
      have h1 := hx.1 hc; have h2 := hy.1 hc
      simp only at h1 h2
      rw [h1, h2]
    | true => rw [e2 hc]
  | real =>
    simp only [cmpE_real flags hm]
    cases hc : isCompound flags with
    | true =>
      have t := C19.real_keys_total_both true x y z (hx.2.2 hm hc) (hy.2.2 hm hc)
      refine ⟨t.1, fun h => ?_, t.2.2⟩
      have e := t.2.1.1 h
      exact Prod.ext e.1 (e.2 rfl)
    | false =>
      simp only [Cmp.cmpR_false]
      have txy := (C19.real_keys_total x.1 y.1 z.1 0).2
      have f1 := Cmp.sgn_flip (C19.real_keys_total y.1 x.1 z.1 0).2.1
      have f2 := Cmp.sgn_flip (C19.real_keys_total z.1 y.1 z.1 0).2.1
      have f3 := Cmp.sgn_flip (C19.real_keys_total z.1 x.1 z.1 0).2.1
      refine ⟨(C19.real_keys_total y.1 x.1 z.1 0).2.1, fun h => ?_, fun h1 h2 => ?_⟩
      · have e := ((C19.real_keys_total y.1 x.1 z.1 0).2.2.1).1 h
        exact Prod.ext e.symm (by rw [hx.1 hc, hy.1 hc])
      · have := txy.2.2 (by omega) (by omega)
        omega

/-- **the bridge**: in every key mode — byte strings, integers, real-number text, each with or
    without compound keys — the comparator the store uses (`gtE flags`, i.e. `_cmp_keys` on the stored
    form of one key and the lookup form of the other) is a strict total order on the effective keys
    the database can hold. This is the hypothesis of the refinement theorems of C01/C02. -/
theorem gtE_strictTotalOn (flags : Nat) : StrictTotalOn (Valid flags) (gtE flags) :=
  strictTotalOn_of_cmp (Valid flags) (cmpE flags) (gtE flags) (gtE_eq flags)
    (fun a b ha hb => (cmpE_total flags a b b ha hb hb).1)
    (fun a b ha hb => (cmpE_total flags a b b ha hb hb).2.1)
    (fun a b c ha hb hc => (cmpE_total flags a b c ha hb hc).2.2)


/-! ### the key sets of the individual modes -/

/-- byte-string keys without compound part -/
def PlainKey (k : EKey) : Prop := k.2 = 0

/-- integer keys: the body is the vnum encoding of a number of `[0, 2^63)`; the compound part is
    free in compound mode (any natural number) and 0 otherwise -/
def VnumKey (compound : Bool) (k : EKey) : Prop :=
  (∃ n, n < 2 ^ 63 ∧ k.1 = Vnum.enc n) ∧ (compound = false → k.2 = 0)

/-- real-number keys: any text (non-empty in compound mode); compound part as for `VnumKey` -/
def RealKey (compound : Bool) (k : EKey) : Prop :=
  (compound = true → k.1 ≠ []) ∧ (compound = false → k.2 = 0)

def vnumFlags (compound : Bool) : Nat := Gen.IWDB_VNUM64_KEYS + if compound then Gen.IWDB_COMPOUND_KEYS else 0
def realFlags (compound : Bool) : Nat := Gen.IWDB_REALNUM_KEYS + if compound then Gen.IWDB_COMPOUND_KEYS else 0

theorem valid_plain (k : EKey) (h : PlainKey k) : Valid 0 k := by
  have hm : modeOf 0 = .plain := by decide
  refine ⟨fun _ => h, fun h => ?_, fun h => ?_⟩ <;> (rw [hm] at h; cases h)

/-- with compound keys every pair (byte string, natural number) is a valid key -/
theorem valid_compound (k : EKey) : Valid Gen.IWDB_COMPOUND_KEYS k := by
  have hm : modeOf Gen.IWDB_COMPOUND_KEYS = .plain := by decide
  have hc : isCompound Gen.IWDB_COMPOUND_KEYS = true := by decide
  refine ⟨fun h => ?_, fun h => ?_, fun h => ?_⟩
  · rw [hc] at h; cases h
  · rw [hm] at h; cases h
  · rw [hm] at h; cases h

theorem valid_vnum (compound : Bool) (k : EKey) (h : VnumKey compound k) : Valid (vnumFlags compound) k := by
  have hm : modeOf (vnumFlags compound) = .vnum := by cases compound <;> decide
  have hc : isCompound (vnumFlags compound) = compound := by cases compound <;> decide
  refine ⟨fun e => h.2 (by rw [← hc, e]), fun _ => h.1, fun h => ?_⟩
  rw [hm] at h; cases h

theorem valid_real (compound : Bool) (k : EKey) (h : RealKey compound k) : Valid (realFlags compound) k := by
  have hm : modeOf (realFlags compound) = .real := by cases compound <;> decide
  have hc : isCompound (realFlags compound) = compound := by cases compound <;> decide
  refine ⟨fun e => h.2 (by rw [← hc, e]), fun h => ?_, fun _ e => h.1 (by rw [← hc, e])⟩
  rw [hm] at h; cases h

theorem opsOn_mono {K V : Type} {P Q : K → Prop} (h : ∀ k, P k → Q k) {ops : List (Op K V)} (ho : OpsOn P ops) :
    OpsOn Q ops := fun op hop => h _ (ho op hop)

end IwModel.KvApi
