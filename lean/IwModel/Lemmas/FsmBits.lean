import IwModel.Model.Fsm
/-! Pointwise facts about the bitmap operations of the allocator model. -/
namespace IwModel.Fsm

theorem bit_eq (b : Bits) (i : Nat) : bit b i = (b[i]?).getD true := by
  simp [bit, Array.getD_eq_getD_getElem?]

theorem bit_of_size_le (b : Bits) (i : Nat) (h : b.size ≤ i) : bit b i = true := by
  simp [bit_eq, Array.getElem?_eq_none h]

theorem lt_size_of_bit_false {b : Bits} {i : Nat} (h : bit b i = false) : i < b.size := by
  by_cases hi : i < b.size
  · exact hi
  · rw [bit_of_size_le b i (by omega)] at h; cases h

theorem bit_setIfInBounds (b : Bits) (k : Nat) (v : Bool) (i : Nat) :
    bit (b.setIfInBounds k v) i = if i = k ∧ k < b.size then v else bit b i := by
  simp only [bit_eq, Array.getElem?_setIfInBounds]
  by_cases h : k = i
  · subst h
    by_cases hk : k < b.size
    · simp [hk]
    · simp [hk]
  · have : ¬ i = k := fun e => h e.symm
    simp [h, this]

theorem size_setRange (b : Bits) (off n : Nat) (v : Bool) : (setRange b off n v).size = b.size := by
  induction n generalizing b with
  | zero => rfl
  | succ n ih => simp [setRange, ih]

theorem bit_setRange (b : Bits) (off n : Nat) (v : Bool) (i : Nat) :
    bit (setRange b off n v) i = if off ≤ i ∧ i < off + n ∧ i < b.size then v else bit b i := by
  induction n generalizing b with
  | zero =>
    have : ¬ (off ≤ i ∧ i < off + 0 ∧ i < b.size) := by omega
    rw [if_neg this]; rfl
  | succ n ih =>
    simp only [setRange, ih, bit_setIfInBounds, Array.size_setIfInBounds]
    by_cases h1 : off ≤ i ∧ i < off + n ∧ i < b.size
    · have : off ≤ i ∧ i < off + (n + 1) ∧ i < b.size := by omega
      simp [h1, this]
    · by_cases h2 : i = off + n ∧ off + n < b.size
      · have : off ≤ i ∧ i < off + (n + 1) ∧ i < b.size := by omega
        simp [h1, h2, this]
      · have : ¬ (off ≤ i ∧ i < off + (n + 1) ∧ i < b.size) := by omega
        simp [h1, h2, this]

theorem allEq_iff (b : Bits) (off n : Nat) (v : Bool) :
    allEq b off n v = true ↔ ∀ i, off ≤ i → i < off + n → bit b i = v := by
  induction n with
  | zero => simp [allEq]; intro i h1 h2; omega
  | succ n ih =>
    simp only [allEq]
    by_cases h : bit b (off + n) = v
    · simp only [h, if_true, ih]
      constructor
      · intro hh i h1 h2
        by_cases e : i = off + n
        · subst e; exact h
        · exact hh i h1 (by omega)
      · intro hh i h1 h2; exact hh i h1 (by omega)
    · simp only [h, if_false]
      constructor
      · intro hh; cases hh
      · intro hh; exact absurd (hh (off + n) (by omega) (by omega)) h

/-- specification of the backward scan -/
theorem prevSet_some {b : Bits} {lo hi p : Nat} (h : prevSet b lo hi = some p) :
    lo ≤ p ∧ p < hi ∧ bit b p = true ∧ ∀ j, p < j → j < hi → bit b j = false := by
  induction hi with
  | zero => simp [prevSet] at h
  | succ i ih =>
    simp only [prevSet] at h
    by_cases h1 : i < lo
    · simp [h1] at h
    · by_cases h2 : bit b i = true
      · simp only [h1, h2, if_false, if_true, Option.some.injEq] at h
        subst h
        exact ⟨by omega, by omega, h2, fun j a c => by omega⟩
      · simp only [h1, h2, if_false] at h
        obtain ⟨a, c, d, e⟩ := ih h
        refine ⟨a, by omega, d, fun j hj1 hj2 => ?_⟩
        by_cases ej : j = i
        · subst ej; simpa using h2
        · exact e j hj1 (by omega)

theorem prevSet_none {b : Bits} {lo hi : Nat} (h : prevSet b lo hi = none) :
    ∀ j, lo ≤ j → j < hi → bit b j = false := by
  induction hi with
  | zero => intro j _ h2; omega
  | succ i ih =>
    simp only [prevSet] at h
    by_cases h1 : i < lo
    · intro j a c; omega
    · by_cases h2 : bit b i = true
      · simp [h1, h2] at h
      · simp only [h1, h2, if_false] at h
        intro j a c
        by_cases ej : j = i
        · subst ej; simpa using h2
        · exact ih h j a (by omega)

theorem nextSetAux_some {b : Bits} {lim f i p : Nat} (h : nextSetAux b lim f i = some p) :
    i ≤ p ∧ p < lim ∧ bit b p = true ∧ ∀ j, i ≤ j → j < p → bit b j = false := by
  induction f generalizing i with
  | zero => simp [nextSetAux] at h
  | succ f ih =>
    simp only [nextSetAux] at h
    by_cases h1 : lim ≤ i
    · simp [h1] at h
    · by_cases h2 : bit b i = true
      · simp only [h1, h2, if_false, if_true, Option.some.injEq] at h
        subst h
        exact ⟨Nat.le_refl _, by omega, h2, fun j a c => by omega⟩
      · simp only [h1, h2, if_false] at h
        obtain ⟨a, c, d, e⟩ := ih h
        refine ⟨by omega, c, d, fun j hj1 hj2 => ?_⟩
        by_cases ej : j = i
        · subst ej; simpa using h2
        · exact e j (by omega) hj2

theorem nextSetAux_none {b : Bits} {lim f i : Nat} (hf : lim - i ≤ f) (h : nextSetAux b lim f i = none) :
    ∀ j, i ≤ j → j < lim → bit b j = false := by
  induction f generalizing i with
  | zero => intro j a c; omega
  | succ f ih =>
    simp only [nextSetAux] at h
    by_cases h1 : lim ≤ i
    · intro j a c; omega
    · by_cases h2 : bit b i = true
      · simp [h1, h2] at h
      · simp only [h1, h2, if_false] at h
        intro j a c
        by_cases ej : j = i
        · subst ej; simpa using h2
        · exact ih (by omega) h j (by omega) c

theorem nextSet_some {b : Bits} {i lim p : Nat} (h : nextSet b i lim = some p) :
    i ≤ p ∧ p < lim ∧ bit b p = true ∧ ∀ j, i ≤ j → j < p → bit b j = false :=
  nextSetAux_some h

theorem nextSet_none {b : Bits} {i lim : Nat} (h : nextSet b i lim = none) :
    ∀ j, i ≤ j → j < lim → bit b j = false :=
  nextSetAux_none (Nat.le_refl _) h

end IwModel.Fsm
