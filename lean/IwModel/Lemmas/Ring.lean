import IwModel.Model.Ring
/-! The ring buffer after a history of puts. -/
set_option linter.unusedSimpArgs false
namespace IwModel.Ring
variable {α : Type}

/-- state reached by the puts `xs` on a ring of `L ≥ 1` cells -/
def Inv (L : Nat) (r : Ring α) (xs : List α) : Prop :=
  r.buf.length = L ∧
  ((r.pos = -(xs.length : Int) ∧ xs.length ≤ L ∧ r.buf.take xs.length = xs) ∨
   (∃ p : Nat, r.pos = (p : Int) ∧ 1 ≤ p ∧ p ≤ L ∧ L ≤ xs.length ∧
      (r.buf.take p).reverse ++ (r.buf.drop p).reverse = xs.reverse.take L))

theorem take_succ_set (buf : List α) (p : Nat) (x : α) (hp : p < buf.length) :
    (buf.set p x).take (p + 1) = buf.take p ++ [x] ∧ (buf.set p x).drop (p + 1) = buf.drop (p + 1) := by
  constructor
  · rw [List.take_add_one]
    simp [List.take_set_of_le, hp]
  · simp [List.drop_set_of_lt]

theorem inv_put (L : Nat) (hL : 1 ≤ L) (r : Ring α) (xs : List α) (x : α) (inv : Inv L r xs) :
    Inv L (put r x) (xs ++ [x]) := by
  obtain ⟨hlen, h⟩ := inv
  rcases h with ⟨hpos, hn, htake⟩ | ⟨p, hpos, hp1, hpL, hLn, hrev⟩
  · -- not yet wrapped
    unfold put Ring.len
    by_cases h0 : xs.length = 0
    · have hx : xs = [] := List.eq_nil_of_length_eq_zero h0
      subst hx
      simp only [List.length_nil] at hpos
      simp only [hpos]
      refine ⟨by simp [hlen], Or.inl ⟨by simp, by simp; omega, ?_⟩⟩
      have e := take_succ_set r.buf 0 x (by omega)
      simpa using e.1
    · have hne : r.pos ≠ 0 := by omega
      have hup : r.pos.natAbs = xs.length := by omega
      simp only [hne, ne_eq, not_false_eq_true, if_true, hup, hlen]
      by_cases hw : xs.length = L
      · -- the put that wraps
        simp only [hw, if_true]
        refine ⟨by simp [hlen], Or.inr ⟨1, rfl, by omega, hL, by simp; omega, ?_⟩⟩
        have hbuf : r.buf = xs := by rw [← htake, hw, ← hlen, List.take_length]
        have e := take_succ_set r.buf 0 x (by omega)
        simp only [Nat.zero_add, List.take_zero, List.nil_append] at e
        rw [e.1, e.2, hbuf]
        simp only [List.reverse_append, List.reverse_cons, List.reverse_nil, List.nil_append, List.singleton_append]
        rw [← List.reverse_reverse (List.drop 1 xs)]
        simp only [List.reverse_reverse]
        cases L with
        | zero => omega
        | succ L' =>
          rw [List.take_succ_cons]
          congr 1
          rw [List.drop_one, ← List.dropLast_reverse, List.dropLast_eq_take]
          simp [hw]
      · simp only [hw, if_false]
        have hlt : xs.length < r.buf.length := by omega
        have e := take_succ_set r.buf xs.length x hlt
        have hneg : ¬ r.pos > 0 := by omega
        simp only [hneg, if_false]
        refine ⟨by simp [hlen], Or.inl ⟨by simp; omega, by simp; omega, ?_⟩⟩
        simp only [List.length_append, List.length_singleton]
        rw [e.1, htake]
  · -- wrapped
    unfold put Ring.len
    have hne : r.pos ≠ 0 := by omega
    have hup : r.pos.natAbs = p := by omega
    simp only [hne, ne_eq, not_false_eq_true, if_true, hup, hlen]
    have hT : (xs.reverse.take L).length = L := by simp; omega
    have tgt : (xs ++ [x]).reverse.take L = x :: (xs.reverse.take L).dropLast := by
      simp only [List.reverse_append, List.reverse_cons, List.reverse_nil, List.nil_append, List.singleton_append]
      cases L with
      | zero => omega
      | succ L' =>
        rw [List.take_succ_cons, List.dropLast_eq_take]
        congr 1
        rw [List.take_take]; simp
        congr 1; omega
    by_cases hw : p = L
    · simp only [hw, if_true]
      refine ⟨by simp [hlen], Or.inr ⟨1, rfl, by omega, hL, by simp; omega, ?_⟩⟩
      have e := take_succ_set r.buf 0 x (by omega)
      simp only [Nat.zero_add, List.take_zero, List.nil_append] at e
      rw [e.1, e.2, tgt]
      subst hw
      have hb : r.buf.reverse = xs.reverse.take r.buf.length := by
        have := hrev
        rw [← hlen] at this
        simpa using this
      simp only [List.reverse_cons, List.reverse_nil, List.nil_append, List.singleton_append]
      congr 1
      rw [← hlen, ← hb, List.drop_one, ← List.dropLast_reverse]
    · simp only [hw, if_false]
      have hlt : p < r.buf.length := by omega
      have e := take_succ_set r.buf p x hlt
      have hposp : r.pos > 0 := by omega
      simp only [hposp, if_true]
      refine ⟨by simp [hlen], Or.inr ⟨p + 1, by show r.pos + 1 = ((p + 1 : Nat) : Int); omega, by omega, by omega, by simp; omega, ?_⟩⟩
      rw [e.1, e.2, tgt, ← hrev]
      simp only [List.reverse_append, List.reverse_cons, List.reverse_nil, List.nil_append, List.singleton_append, List.cons_append]
      congr 1
      have hd : r.buf.drop p = r.buf[p] :: r.buf.drop (p + 1) := by
        rw [List.getElem_cons_drop]
      rw [hd]
      simp only [List.reverse_cons]
      rw [← List.append_assoc, List.dropLast_concat]

theorem inv_create (junk : α) (L : Nat) : Inv L (create junk L) [] :=
  ⟨by simp [create], Or.inl ⟨rfl, by simp, by simp⟩⟩

theorem inv_fold (L : Nat) (hL : 1 ≤ L) : ∀ (ys : List α) (r : Ring α) (xs : List α), Inv L r xs →
    Inv L (ys.foldl put r) (xs ++ ys) := by
  intro ys
  induction ys with
  | nil => intro r xs inv; simpa using inv
  | cons y t ih =>
    intro r xs inv
    have := ih (put r y) (xs ++ [y]) (inv_put L hL r xs y inv)
    simpa using this

theorem iterAll_of_inv (L : Nat) (r : Ring α) (xs : List α) (inv : Inv L r xs) :
    iterAll r = xs.reverse.take L ∧ numCached r = min xs.length L := by
  obtain ⟨hlen, h⟩ := inv
  rcases h with ⟨hpos, hn, htake⟩ | ⟨p, hpos, hp1, hpL, hLn, hrev⟩
  · unfold iterAll numCached
    by_cases h0 : xs.length = 0
    · have hx : xs = [] := List.eq_nil_of_length_eq_zero h0
      subst hx
      simp only [List.length_nil] at hpos
      simp [hpos]
    · have hneg : r.pos < 0 := by omega
      have hup : r.pos.natAbs = xs.length := by omega
      have hle : r.pos ≤ 0 := by omega
      simp only [hneg, if_true, hup, htake, hle]
      exact ⟨by rw [List.take_of_length_le (by simp; omega)], by omega⟩
  · unfold iterAll numCached Ring.len
    have h1 : ¬ r.pos < 0 := by omega
    have h2 : ¬ r.pos = 0 := by omega
    have h3 : ¬ r.pos ≤ 0 := by omega
    have hup : r.pos.natAbs = p := by omega
    simp only [h1, h2, h3, if_false, hup, hrev, hlen]
    exact ⟨trivial, by omega⟩

end IwModel.Ring
