import IwModel.Lemmas.ReComp
/-! Size limits under which the regular-expression front end performs no `int` overflow (the open findings
C17-RE-COUNT-PARSE / C17-RE-COUNT-COMPILE are patterns outside them), and the end-to-end statements about
`iwre_create` + `iwre_match` (core Lean only). -/
namespace IwModel.Re
open IwModel.ReVm (Instr)

/-- number of consecutive decimal digits of `pat` from offset `i` -/
def digitRun (pat : Bytes) (i : Nat) : Nat :=
  match h : pat[i]? with
  | none => 0
  | some c => if 48 ≤ c ∧ c ≤ 57 then digitRun pat (i + 1) + 1 else 0
termination_by pat.length - i
decreasing_by
  have := (List.getElem?_eq_some_iff.mp h).1
  omega

theorem digitRun_le (pat : Bytes) (i : Nat) : digitRun pat i ≤ pat.length - i := by
  fun_induction digitRun pat i
  · omega
  · rename_i i c h _ ih
    have := (List.getElem?_eq_some_iff.mp h).1
    omega
  · omega

theorem digits_no_ub (pat : Bytes) (i acc : Nat) : ∀ j, acc < 10 ^ j → j + digitRun pat i ≤ 9 → digits pat i acc ≠ .ub := by
  fun_induction digits pat i acc
  · intro j _ _; simp
  · rename_i i acc c hc hd hgt
    intro j hacc hrun
    exfalso
    rw [digitRun] at hrun
    split at hrun
    · rename_i h'; rw [hc] at h'; simp at h'
    · rename_i c' h'; rw [hc] at h'; injection h' with h'; subst h'
      rw [if_pos hd] at hrun
      have h1 : 10 ^ (j + 1) ≤ 10 ^ 9 := Nat.pow_le_pow_right (by omega) (by omega)
      have h2 : 10 ^ (j + 1) = 10 ^ j * 10 := Nat.pow_succ 10 j
      simp only [intMax] at hgt
      omega
  · rename_i i acc c hc hd hgt ih
    intro j hacc hrun
    rw [digitRun] at hrun
    split at hrun
    · rename_i h'; rw [hc] at h'; simp at h'
    · rename_i c' h'; rw [hc] at h'; injection h' with h'; subst h'
      rw [if_pos hd] at hrun
      have h2 : 10 ^ (j + 1) = 10 ^ j * 10 := Nat.pow_succ 10 j
      exact ih (j + 1) (by omega) (by omega)
  · intro j _ _; simp

theorem intervalEnd_ne_ub (pat : Bytes) (a : Nat) (b : Option Nat) (i : Nat) : intervalEnd pat a b i ≠ .ub := by
  unfold intervalEnd; split
  · simp
  · split <;> simp

theorem interval_no_ub (pat : Bytes) (hr : ∀ i, digitRun pat i ≤ 9) (frm : Nat) : interval pat frm ≠ .ub := by
  unfold interval
  have d1 := digits_no_ub pat frm 0 0 (by simp) (by have := hr frm; omega)
  split
  · simp
  · simp
  · exact absurd ‹_› d1
  · simp
  · split
    · split
      · split
        · simp
        · split
          · apply intervalEnd_ne_ub
          · have d2 := fun k => digits_no_ub pat k 0 0 (by simp) (by have := hr k; omega)
            split
            · simp
            · simp
            · exact absurd ‹_› (d2 _)
            · simp
            · split
              · split
                · simp
                · apply intervalEnd_ne_ub
              · simp
      · split
        · apply intervalEnd_ne_ub
        · simp
    · simp

theorem clsScan_ne_ub (pat : Bytes) (frm i : Nat) : clsScan pat frm i ≠ .ub := by
  fun_induction clsScan pat frm i <;> simp_all

theorem quantStep_ne_ub (pat : Bytes) (sp a : Nat) (b : Option Nat) : quantStep pat sp a b ≠ .ub := by
  unfold quantStep; split
  · simp
  · split <;> simp

theorem lexStep_no_ub (pat : Bytes) (hr : ∀ i, digitRun pat i ≤ 9) (sp : Nat) (e : Bool) : lexStep pat sp e ≠ .ub := by
  have hi := interval_no_ub pat hr (sp + 1)
  have hc := fun frm => clsScan_ne_ub pat frm frm
  have hq := quantStep_ne_ub pat sp
  rw [lexStep.eq_1]
  cases h0 : pat[sp]? with
  | none => simp
  | some ch =>
    dsimp only
    by_cases h1 : ch = 0
    · rw [if_pos h1]; simp
    rw [if_neg h1]
    by_cases h2 : ch = 92
    · rw [if_pos h2]; split
      · simp
      · split <;> simp
    rw [if_neg h2]
    by_cases h3 : ch = 46
    · rw [if_pos h3]; simp
    rw [if_neg h3]
    by_cases h4 : ch = 91
    · rw [if_pos h4]; split
      · simp
      · split
        · simp
        · simp
        · simp
        · exact absurd ‹_› (hc _)
        · simp
    rw [if_neg h4]
    by_cases h5 : ch = 124
    · rw [if_pos h5]; simp
    rw [if_neg h5]
    by_cases h6 : ch = 63
    · rw [if_pos h6]; split
      · simp
      · apply hq
    rw [if_neg h6]
    by_cases h7 : ch = 42
    · rw [if_pos h7]; split
      · simp
      · apply hq
    rw [if_neg h7]
    by_cases h8 : ch = 43
    · rw [if_pos h8]; split
      · simp
      · apply hq
    rw [if_neg h8]
    by_cases h9 : ch = 123
    · rw [if_pos h9]; split
      · simp
      · split
        · simp
        · simp
        · simp
        · simp
        · exact absurd ‹_› hi
        · simp
    rw [if_neg h9]
    by_cases h10 : ch = 94
    · rw [if_pos h10]; simp
    rw [if_neg h10]
    by_cases h11 : ch = 36
    · rw [if_pos h11]; simp
    rw [if_neg h11]
    by_cases h12 : ch = 40
    · rw [if_pos h12]; simp
    rw [if_neg h12]
    by_cases h13 : ch = 41
    · rw [if_pos h13]; simp
    rw [if_neg h13]
    simp

theorem pctx_no_ub (pat : Bytes) (cap : Nat) (hr : ∀ i, digitRun pat i ≤ 9) :
    ∀ (fuel depth sp used : Nat) (stk : List Node), pctx pat cap fuel depth sp used stk ≠ .ub := by
  intro fuel
  induction fuel with
  | zero => intro depth sp used stk; simp [pctx]
  | succ fuel ih =>
    intro depth sp used stk
    have hl := lexStep_no_ub pat hr sp stk.isEmpty
    rw [pctx]
    cases hls : lexStep pat sp stk.isEmpty with
    | oob => simp
    | ub => exact absurd hls hl
    | fail => simp
    | atom nd sp' =>
      dsimp only
      split
      · simp
      · apply ih
    | quant a b g sp' =>
      dsimp only
      split
      · simp
      · split
        · simp
        · apply ih
    | close sp' =>
      dsimp only
      split
      · split <;> simp
      · simp
    | eos sp' =>
      dsimp only
      split
      · split <;> simp
      · simp
    | opn sp' =>
      dsimp only
      split
      · split
        · simp
        · apply ih
      · intro he
        exact ih _ _ _ _ he
    | bar sp' =>
      dsimp only
      split
      · simp
      · split
        · split <;> simp
        · intro he
          exact ih _ _ _ _ he

theorem parse_no_ub (s : Bytes) (hs : ∀ b ∈ s, b ≠ 0) (hlen : 2 * s.length ≤ intMax)
    (hr : ∀ i, digitRun (s ++ [0]) i ≤ 9) : parse (s ++ [0]) ≠ .ub := by
  rw [parse, strlen_cstring s hs]; dsimp only
  rw [if_neg (by omega)]
  have := pctx_no_ub (s ++ [0]) (2 * s.length) hr ((s ++ [0]).length + 1) 0 0 0 []
  split <;> simp_all

/-- a bound of every intermediate value of `count_instructions(node)` that is monotone in the tree -/
def Node.weight : Node → Nat
  | .eps => 0
  | .chr _ | .any | .cls _ _ _ | .abegin | .aend => 1
  | .cat l r => l.weight + r.weight
  | .alt l r => 2 + l.weight + r.weight
  | .quant nmin nmax _ q => (max nmin (nmax.getD 0)) * (q.weight + 1) + q.weight + 2
  | .cap c => 2 + c.weight

theorem mulc_ok {a b : Nat} (h : a * b ≤ intMax) : mulc a b = some (a * b) := by simp [mulc, h]
theorem addc_ok {a b : Nat} (h : a + b ≤ intMax) : addc a b = some (a + b) := by simp [addc, h]

theorem count_of_weight : ∀ (node : Node), node.weight ≤ intMax → ∃ k, node.count = some k ∧ k ≤ node.weight := by
  intro node
  induction node with
  | eps => intro _; exact ⟨0, rfl, by simp⟩
  | chr c => intro _; exact ⟨1, rfl, by simp [Node.weight]⟩
  | any => intro _; exact ⟨1, rfl, by simp [Node.weight]⟩
  | cls a b c => intro _; exact ⟨1, rfl, by simp [Node.weight]⟩
  | abegin => intro _; exact ⟨1, rfl, by simp [Node.weight]⟩
  | aend => intro _; exact ⟨1, rfl, by simp [Node.weight]⟩
  | cat l r ihl ihr =>
    intro h
    simp only [Node.weight] at h ⊢
    obtain ⟨a, ha, ha'⟩ := ihl (by omega)
    obtain ⟨b, hb, hb'⟩ := ihr (by omega)
    exact ⟨a + b, by simp [Node.count, ha, hb, addc_ok (show a + b ≤ intMax by omega)], by omega⟩
  | alt l r ihl ihr =>
    intro h
    simp only [Node.weight] at h ⊢
    obtain ⟨a, ha, ha'⟩ := ihl (by omega)
    obtain ⟨b, hb, hb'⟩ := ihr (by omega)
    exact ⟨2 + a + b, by simp [Node.count, ha, hb, addc_ok (show 2 + a ≤ intMax by omega), addc_ok (show 2 + a + b ≤ intMax by omega)], by omega⟩
  | cap c ih =>
    intro h
    simp only [Node.weight] at h ⊢
    obtain ⟨a, ha, ha'⟩ := ih (by omega)
    exact ⟨2 + a, by simp [Node.count, ha, addc_ok (show 2 + a ≤ intMax by omega)], by omega⟩
  | quant nmin nmax g q ih =>
    intro h
    simp only [Node.weight] at h ⊢
    obtain ⟨num, hnum, hnum'⟩ := ih (by omega)
    have hmono : ∀ x, x ≤ max nmin (nmax.getD 0) → x * (num + 1) ≤ max nmin (nmax.getD 0) * (q.weight + 1) :=
      fun x hx => Nat.mul_le_mul hx (by omega)
    have h1 : nmin * num ≤ nmin * (num + 1) := Nat.mul_le_mul_left _ (by omega)
    have h2 := hmono nmin (Nat.le_max_left _ _)
    have tail : ∃ k, (do addc 1 (← if nmin ≠ 0 then mulc nmin num else addc num 1)) = some k ∧
        k ≤ max nmin (nmax.getD 0) * (q.weight + 1) + q.weight + 2 := by
      by_cases hz : nmin ≠ 0
      · rw [if_pos hz]
        exact ⟨1 + nmin * num, by simp [mulc_ok (show nmin * num ≤ intMax by omega), addc_ok (show 1 + nmin * num ≤ intMax by omega)], by omega⟩
      · rw [if_neg hz]
        exact ⟨1 + (num + 1), by simp [addc_ok (show num + 1 ≤ intMax by omega), addc_ok (show 1 + (num + 1) ≤ intMax by omega)], by omega⟩
    cases nmax with
    | none => simpa [Node.count, hnum] using tail
    | some m =>
      by_cases hge : m ≥ nmin
      · have h3 := hmono m (by simp only [Option.getD_some]; exact Nat.le_max_right _ _)
        have h4 : nmin * (num + 1) + (m - nmin) * (num + 1) = m * (num + 1) := by
          rw [← Nat.add_mul]; congr 1; omega
        refine ⟨nmin * num + (m - nmin) * (num + 1), ?_, by simp only [Option.getD_some] at h3 ⊢; omega⟩
        simp only [Option.getD_some] at h3 h
        simp [Node.count, hnum, hge, mulc_ok (show nmin * num ≤ intMax by omega),
          mulc_ok (show (m - nmin) * (num + 1) ≤ intMax by omega),
          addc_ok (show nmin * num + (m - nmin) * (num + 1) ≤ intMax by omega)]
      · simpa [Node.count, hnum, hge] using tail

theorem compile_no_ub {pat : Bytes} (hb : ∀ (j c : Nat), pat[j]? = some c → c < 256) (root : Node) (h : NodeOk pat root)
    (hw : root.weight + 6 ≤ intMax) : compile pat root ≠ .ub := by
  intro hc
  have := compile_spec hb root h
  rw [hc] at this
  obtain ⟨k, hk, hk'⟩ := count_of_weight root (by omega)
  rcases this with h1 | ⟨k2, h2, h3⟩
  · rw [hk] at h1; simp at h1
  · rw [hk] at h2; injection h2 with h2; omega

theorem bytes_lt_append (s : Bytes) (hb : ∀ b ∈ s, b < 256) : ∀ (j c : Nat), (s ++ [0])[j]? = some c → c < 256 := by
  intro j c h
  have := List.mem_of_getElem? h
  rcases List.mem_append.mp this with h | h
  · exact hb c h
  · simp at h; omega

/-- acceptable outcomes of `iwre_create` -/
def CreateGood (pat : Bytes) : R (List Instr) → Prop
  | .ok prog => ReVm.Wf prog ∧ 0 < prog.length ∧ prog.getLast? = some .mtch ∧
      (∀ neg bits, Instr.cls neg bits ∈ prog → bits.length = 32) ∧
      ∃ root, parse pat = .ok root ∧ prog.length = (wrapRoot root).countN + 1
  | .ub | .fail => True
  | _ => False

theorem create_spec (s : Bytes) (hs : ∀ b ∈ s, b ≠ 0) (hb : ∀ b ∈ s, b < 256) (hne : s ≠ []) :
    CreateGood (s ++ [0]) (create (s ++ [0])) := by
  unfold create
  obtain ⟨a, t, rfl⟩ := List.exists_cons_of_ne_nil hne
  have ha : a ≠ 0 := hs a (by simp)
  simp only [List.cons_append, List.getElem?_cons_zero]
  rw [if_neg ha]
  have hp := parse_spec (a :: t) hs hne
  simp only [List.cons_append] at hp
  cases hr : parse (a :: (t ++ [0])) with
  | oob => rw [hr] at hp; exact hp.elim
  | fuel => rw [hr] at hp; exact hp.elim
  | ub => trivial
  | fail => trivial
  | ok root =>
    rw [hr] at hp
    dsimp only
    have hc := compile_spec (pat := a :: (t ++ [0])) (by simpa using bytes_lt_append (a :: t) hb) root hp
    cases hcr : compile (a :: (t ++ [0])) root with
    | oob => rw [hcr] at hc; exact hc.elim
    | fuel => rw [hcr] at hc; exact hc.elim
    | fail => trivial
    | ub => trivial
    | ok prog =>
      rw [hcr] at hc
      exact ⟨hc.1, hc.2.1, hc.2.2.1, hc.2.2.2.1, root, hr, hc.2.2.2.2⟩

theorem search_spec (s : Bytes) (hs : ∀ b ∈ s, b ≠ 0) (hb : ∀ b ∈ s, b < 256) (hne : s ≠ []) (text : Bytes) (nm : Nat) :
    (∃ r, search (s ++ [0]) text nm = .ok r) ∨ search (s ++ [0]) text nm = .fail ∨ search (s ++ [0]) text nm = .ub := by
  unfold search
  have hc := create_spec s hs hb hne
  cases hcr : create (s ++ [0]) with
  | oob => rw [hcr] at hc; exact hc.elim
  | fuel => rw [hcr] at hc; exact hc.elim
  | fail => right; left; rfl
  | ub => right; right; rfl
  | ok prog =>
    rw [hcr] at hc
    dsimp only
    split
    · right; right; rfl
    · obtain ⟨r, hr⟩ := ReVm.run_ok prog hc.1 hc.2.1 text nm
      rw [hr]; exact Or.inl ⟨r, rfl⟩

theorem search_within_limits (s : Bytes) (hs : ∀ b ∈ s, b ≠ 0) (hb : ∀ b ∈ s, b < 256) (hne : s ≠ []) (text : Bytes) (nm : Nat)
    (hlen : 2 * s.length ≤ intMax) (hr : ∀ i, digitRun (s ++ [0]) i ≤ 9)
    (hw : ∀ root, parse (s ++ [0]) = .ok root → 2 * (root.weight + 6) ≤ intMax) :
    search (s ++ [0]) text nm ≠ .ub := by
  have hpu := parse_no_ub s hs hlen hr
  have hp := parse_spec s hs hne
  have hc := create_spec s hs hb hne
  obtain ⟨a, t, rfl⟩ := List.exists_cons_of_ne_nil hne
  have ha : a ≠ 0 := hs a (by simp)
  unfold search
  unfold create at hc ⊢
  simp only [List.cons_append, List.getElem?_cons_zero] at hc hpu hp hw ⊢
  rw [if_neg ha] at hc ⊢
  cases hpr : parse (a :: (t ++ [0])) with
  | oob => simp
  | fuel => simp
  | ub => exact absurd hpr hpu
  | fail => simp
  | ok root =>
    rw [hpr] at hc hp
    dsimp only at hc ⊢
    have hw' := hw root hpr
    have hcu := compile_no_ub (pat := a :: (t ++ [0])) (by simpa using bytes_lt_append (a :: t) hb) root hp (by omega)
    cases hcr : compile (a :: (t ++ [0])) root with
    | oob => simp
    | fuel => simp
    | fail => simp
    | ub => exact absurd hcr hcu
    | ok prog =>
      rw [hcr] at hc
      dsimp only
      obtain ⟨root', hr', hlen'⟩ := hc.2.2.2.2
      rw [hpr] at hr'; injection hr' with hr'; subst hr'
      obtain ⟨k, hk, hk'⟩ := count_of_weight root (by omega)
      have := count_eq root k hk
      have := countN_wrapRoot root
      have : (if root.anchored then 0 else 3) ≤ 3 := by split <;> omega
      rw [if_neg (by omega)]
      split <;> simp

/-- recursion depth of `count_instructions` / `node_is_anchored` / `compile_context` on a tree -/
def Node.height : Node → Nat
  | .cat l r | .alt l r => max l.height r.height + 1
  | .quant _ _ _ q => q.height + 1
  | .cap c => c.height + 1
  | _ => 1

theorem Node.height_le_size : ∀ n : Node, n.height ≤ n.size := by
  intro n
  induction n with
  | cat l r ihl ihr => simp only [Node.height, Node.size]; omega
  | alt l r ihl ihr => simp only [Node.height, Node.size]; omega
  | quant a b g q ih => simp only [Node.height, Node.size]; omega
  | cap c ih => simp only [Node.height, Node.size]; omega
  | _ => simp [Node.height, Node.size]

theorem Node.size_pos : ∀ n : Node, 1 ≤ n.size := by
  intro n; cases n <;> simp [Node.size] <;> omega

def sizes (stk : List Node) : Nat := (stk.map Node.size).sum

theorem push_some {cap used u : Nat} (h : push cap used = some u) : u = used + 1 := by
  unfold push at h; split at h <;> simp at h; omega

theorem concatFold_size (cap : Nat) : ∀ (rest : List Node) (used : Nat) (acc : Node) (u : Nat) (node : Node),
    concatFold cap used acc rest = some (u, node) → u + acc.size + sizes rest = used + node.size := by
  intro rest
  induction rest with
  | nil => intro used acc u node h; simp [concatFold] at h; simp [sizes, h.1, h.2]
  | cons l rest ih =>
    intro used acc u node h
    simp only [concatFold] at h
    split at h
    · simp at h
    · rename_i u1 h1
      have := push_some h1
      have := ih _ _ _ _ h
      simp only [sizes, List.map_cons, List.sum_cons, Node.size] at this ⊢
      omega

theorem concat_size (cap used : Nat) (stk : List Node) (u : Nat) (node : Node) (h : concat cap used stk = some (u, node)) :
    u + sizes stk = used + node.size := by
  cases stk with
  | nil =>
    simp only [concat, Option.map_eq_some_iff] at h
    obtain ⟨a, ha, h⟩ := h
    have := push_some ha
    injection h with h1 h2
    subst h2
    simp [sizes, Node.size]; omega
  | cons top rest =>
    have := concatFold_size cap rest used top u node h
    simp only [sizes, List.map_cons, List.sum_cons] at this ⊢
    omega

theorem isEps_size {n : Node} (h : n.isEps = true) : n.size = 1 := by
  cases n <;> simp [Node.isEps] at h; rfl

theorem merge_size (cap used : Nat) (left right : Node) (u : Nat) (node : Node) (h : merge cap used left right = some (u, node))
    (hu : left.size + right.size ≤ used) : u + left.size + right.size = used + node.size := by
  have := left.size_pos; have := right.size_pos
  unfold merge at h
  cases hl : left.isEps <;> cases hr : right.isEps <;> simp only [hl, hr, Bool.and_true, Bool.and_false, Bool.false_eq_true, if_false, if_true] at h
  · simp only [Option.map_eq_some_iff] at h
    obtain ⟨a, ha, h⟩ := h
    have := push_some ha
    injection h with h1 h2; subst h2; simp only [Node.size]; omega
  · simp only [Option.map_eq_some_iff] at h
    obtain ⟨a, ha, h⟩ := h
    have := push_some ha
    have := isEps_size hr
    injection h with h1 h2; subst h2; simp only [Node.size]; omega
  · simp only [Option.map_eq_some_iff] at h
    obtain ⟨a, ha, h⟩ := h
    have := push_some ha
    have := isEps_size hl
    injection h with h1 h2; subst h2; simp only [Node.size]; omega
  · have := isEps_size hl; have := isEps_size hr
    injection h with h; injection h with h1 h2; subst h2; omega

theorem quantStep_not_atom (pat : Bytes) (sp a : Nat) (b : Option Nat) (nd : Node) (sp' : Nat) : quantStep pat sp a b ≠ .atom nd sp' := by
  unfold quantStep; split
  · simp
  · split <;> simp

/-- the nodes `parse_context` pushes directly are leaves -/
theorem lexStep_atom_leaf {pat : Bytes} {sp : Nat} {e : Bool} {nd : Node} {sp' : Nat} (h : lexStep pat sp e = .atom nd sp') : nd.size = 1 := by
  have hq := quantStep_not_atom pat sp
  rw [lexStep.eq_1] at h
  cases h0 : pat[sp]? with
  | none => rw [h0] at h; simp at h
  | some ch =>
    rw [h0] at h
    dsimp only at h
    have leaf : ∀ {x : Node} {y : Nat}, x.size = 1 → Step.atom x y = Step.atom nd sp' → nd.size = 1 := by
      intro x y hx hxy; injection hxy with h1 h2; rw [← h1]; exact hx
    by_cases h1 : ch = 0
    · rw [if_pos h1] at h; simp at h
    rw [if_neg h1] at h
    by_cases h2 : ch = 92
    · rw [if_pos h2] at h; split at h
      · simp at h
      · split at h
        · simp at h
        · exact leaf rfl h
    rw [if_neg h2] at h
    by_cases h3 : ch = 46
    · rw [if_pos h3] at h; exact leaf rfl h
    rw [if_neg h3] at h
    by_cases h4 : ch = 91
    · rw [if_pos h4] at h; split at h
      · simp at h
      · split at h
        · exact leaf rfl h
        all_goals simp at h
    rw [if_neg h4] at h
    by_cases h5 : ch = 124
    · rw [if_pos h5] at h; simp at h
    rw [if_neg h5] at h
    by_cases h6 : ch = 63
    · rw [if_pos h6] at h; split at h
      · exact leaf rfl h
      · exact absurd h (hq _ _ _ _)
    rw [if_neg h6] at h
    by_cases h7 : ch = 42
    · rw [if_pos h7] at h; split at h
      · exact leaf rfl h
      · exact absurd h (hq _ _ _ _)
    rw [if_neg h7] at h
    by_cases h8 : ch = 43
    · rw [if_pos h8] at h; split at h
      · exact leaf rfl h
      · exact absurd h (hq _ _ _ _)
    rw [if_neg h8] at h
    by_cases h9 : ch = 123
    · rw [if_pos h9] at h; split at h
      · exact leaf rfl h
      · split at h
        · exact leaf rfl h
        all_goals simp at h
    rw [if_neg h9] at h
    by_cases h10 : ch = 94
    · rw [if_pos h10] at h; exact leaf rfl h
    rw [if_neg h10] at h
    by_cases h11 : ch = 36
    · rw [if_pos h11] at h; exact leaf rfl h
    rw [if_neg h11] at h
    by_cases h12 : ch = 40
    · rw [if_pos h12] at h; simp at h
    rw [if_neg h12] at h
    by_cases h13 : ch = 41
    · rw [if_pos h13] at h; simp at h
    rw [if_neg h13] at h
    exact leaf rfl h

theorem pctx_size (pat : Bytes) (cap : Nat) : ∀ (fuel depth sp used : Nat) (stk : List Node) (outer sp' used' : Nat) (node : Node),
    used = outer + sizes stk → pctx pat cap fuel depth sp used stk = .ok (sp', used', node) → used' = outer + node.size := by
  intro fuel
  induction fuel with
  | zero => intro depth sp used stk outer sp' used' node _ h; simp [pctx] at h
  | succ fuel ih =>
    intro depth sp used stk outer sp' used' node hu h
    rw [pctx] at h
    cases hls : lexStep pat sp stk.isEmpty with
    | oob => rw [hls] at h; simp at h
    | ub => rw [hls] at h; simp at h
    | fail => rw [hls] at h; simp at h
    | atom nd sp1 =>
      rw [hls] at h; dsimp only at h
      split at h
      · simp at h
      · rename_i u hp
        have := push_some hp
        have hleaf := lexStep_atom_leaf hls
        exact ih _ _ _ _ outer _ _ _ (by simp only [sizes, List.map_cons, List.sum_cons] at hu ⊢; omega) h
    | quant a b g sp1 =>
      rw [hls] at h; dsimp only at h
      split at h
      · simp at h
      · rename_i q rest
        split at h
        · simp at h
        · rename_i u hp
          have := push_some hp
          exact ih _ _ _ _ outer _ _ _ (by simp only [sizes, List.map_cons, List.sum_cons, Node.size] at hu ⊢; omega) h
    | close sp1 =>
      rw [hls] at h; dsimp only at h
      split at h
      · split at h
        · simp at h
        · rename_i u nd hc
          have := concat_size _ _ _ _ _ hc
          injection h with h; injection h with h1 h; injection h with h2 h3
          subst h2; subst h3; omega
      · simp at h
    | eos sp1 =>
      rw [hls] at h; dsimp only at h
      split at h
      · split at h
        · simp at h
        · rename_i u nd hc
          have := concat_size _ _ _ _ _ hc
          injection h with h; injection h with h1 h; injection h with h2 h3
          subst h2; subst h3; omega
      · simp at h
    | opn sp1 =>
      rw [hls] at h; dsimp only at h
      split at h
      · rename_i sp2 used2 nd hn
        have h1 := ih _ _ _ [] used _ _ _ (by simp [sizes]) hn
        split at h
        · simp at h
        · rename_i u hp
          have := push_some hp
          exact ih _ _ _ _ outer _ _ _ (by simp only [sizes, List.map_cons, List.sum_cons, Node.size] at hu ⊢; omega) h
      · rename_i e hne
        exact absurd h (by intro he; exact hne _ _ _ he)
    | bar sp1 =>
      rw [hls] at h; dsimp only at h
      split at h
      · simp at h
      · rename_i u left hc
        have hcs := concat_size _ _ _ _ _ hc
        split at h
        · rename_i sp2 used2 right hn
          have h1 := ih _ _ _ [] u _ _ _ (by simp [sizes]) hn
          split at h
          · simp at h
          · rename_i u3 nd hm
            have := merge_size _ _ _ _ _ _ hm (by omega)
            injection h with h; injection h with h1' h; injection h with h2 h3
            subst h2; subst h3; omega
        · rename_i e hne
          exact absurd h (by intro he; exact hne _ _ _ he)

/-- the accepted tree occupies at most the `2 * strlen` cells of the node buffer; its height (= recursion
    depth of `count_instructions`, `node_is_anchored`, `compile_context`) is bounded by the same number -/
theorem parse_size (s : Bytes) (hs : ∀ b ∈ s, b ≠ 0) (hne : s ≠ []) (root : Node) (h : parse (s ++ [0]) = .ok root) :
    root.size ≤ 2 * s.length ∧ root.height ≤ 2 * s.length := by
  have hp := patOk_append s hs
  have hn : 1 ≤ s.length := by cases s with | nil => exact absurd rfl hne | cons a t => simp
  rw [parse, strlen_cstring s hs] at h; dsimp only at h
  split at h
  · simp at h
  · have hg := pctx_spec hp hn ((s ++ [0]).length + 1) 0 0 0 [] 0 (by omega) (by simp) (by simp) (by omega) (by simp) (by simp)
    cases hr : pctx (s ++ [0]) (2 * s.length) ((s ++ [0]).length + 1) 0 0 0 [] with
    | ok v =>
      obtain ⟨a, b, node⟩ := v
      rw [hr] at h hg
      dsimp only at h
      injection h with h; subst h
      have hsz := pctx_size _ _ _ _ _ _ _ 0 _ _ _ (by simp [sizes]) hr
      have := hg.2.2.2.2.1
      have := node.height_le_size
      omega
    | _ => rw [hr] at h; simp at h

theorem digits_step {pat : Bytes} {i acc c : Nat} (h : pat[i]? = some c) (hd : 48 ≤ c ∧ c ≤ 57)
    (hf : ¬ acc * 10 + (c - 48) > intMax) : digits pat i acc = digits pat (i + 1) (acc * 10 + (c - 48)) := by
  rw [digits]; split
  · rename_i h'; rw [h] at h'; simp at h'
  · rename_i c' h'; rw [h] at h'; injection h' with h'; subst h'; rw [if_pos hd, if_neg hf]

theorem digits_ub_step {pat : Bytes} {i acc c : Nat} (h : pat[i]? = some c) (hd : 48 ≤ c ∧ c ≤ 57)
    (hf : acc * 10 + (c - 48) > intMax) : digits pat i acc = .ub := by
  rw [digits]; split
  · rename_i h'; rw [h] at h'; simp at h'
  · rename_i c' h'; rw [h] at h'; injection h' with h'; subst h'; rw [if_pos hd, if_pos hf]

/-- the witness of C17-RE-COUNT-PARSE, `a{99999999999}`: the model reaches the `int` overflow of `parse_interval` -/
theorem parse_count_overflow : parse [97, 123, 57, 57, 57, 57, 57, 57, 57, 57, 57, 57, 57, 125, 0] = .ub := by
  have hd : digits [97, 123, 57, 57, 57, 57, 57, 57, 57, 57, 57, 57, 57, 125, 0] 2 0 = .ub := by
    rw [digits_step (c := 57) rfl (by omega) (by simp [intMax]), digits_step (c := 57) rfl (by omega) (by simp [intMax]),
      digits_step (c := 57) rfl (by omega) (by simp [intMax]), digits_step (c := 57) rfl (by omega) (by simp [intMax]),
      digits_step (c := 57) rfl (by omega) (by simp [intMax]), digits_step (c := 57) rfl (by omega) (by simp [intMax]),
      digits_step (c := 57) rfl (by omega) (by simp [intMax]), digits_step (c := 57) rfl (by omega) (by simp [intMax]),
      digits_step (c := 57) rfl (by omega) (by simp [intMax])]
    exact digits_ub_step (c := 57) rfl (by omega) (by simp [intMax])
  have hi : interval [97, 123, 57, 57, 57, 57, 57, 57, 57, 57, 57, 57, 57, 125, 0] 2 = .ub := by
    rw [interval, hd]
  have hl : lexStep [97, 123, 57, 57, 57, 57, 57, 57, 57, 57, 57, 57, 57, 125, 0] 1 false = .ub := by
    rw [lexStep.eq_1]; simp [hi]
  have hl0 : lexStep [97, 123, 57, 57, 57, 57, 57, 57, 57, 57, 57, 57, 57, 125, 0] 0 true = .atom (.chr 97) 1 := by
    rw [lexStep.eq_1]; simp
  simp [parse, strlen, pctx, push, intMax, hl0, hl]

/-- the witness of C17-RE-COUNT-COMPILE, the tree of `((a{60000}){60000})`: `count_instructions` leaves `int` -/
theorem compile_count_overflow (pat : Bytes) :
    compile pat (.cap (.quant 60000 (some 60000) true (.cap (.quant 60000 (some 60000) true (.chr 97))))) = .ub := by
  simp [compile, estimate, Node.count, mulc, addc, intMax]

end IwModel.Re
