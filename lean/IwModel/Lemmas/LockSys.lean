import IwModel.Model.LockSys
/-! Invariant preservation and progress for the lock transition system. -/
namespace IwModel.LockSys

variable {L : Type} [DecidableEq L]

omit [DecidableEq L] in
@[simp] theorem Sys.set_n (s : Sys L) (i : Nat) (t : Thread L) : (s.set i t).n = s.n := rfl
omit [DecidableEq L] in
@[simp] theorem Sys.set_self (s : Sys L) (i : Nat) (t : Thread L) : (s.set i t).thr i = t := by
  simp [Sys.set]
omit [DecidableEq L] in
theorem Sys.set_other (s : Sys L) (i j : Nat) (t : Thread L) (h : j ≠ i) : (s.set i t).thr j = s.thr j := by
  simp [Sys.set, h]

theorem inv_init {rank : L → Nat} {s : Sys L} (h : Init rank s) : Inv rank s := by
  intro i hi
  obtain ⟨hh, hs, hu, ho, huo⟩ := h i hi
  refine ⟨by rw [hu]; exact huo, fun _ => by rw [hh]; exact ho, fun hc => by rw [hs] at hc; cases hc⟩

/-- a step of thread `i` keeps the invariant of every thread -/
theorem inv_step {rank : L → Nat} {pref : L → Bool} {s s' : Sys L} {i : Nat}
    (hinv : Inv rank s) (hst : Step pref s i s') : Inv rank s' := by
  -- every case replaces thread i only
  have other : ∀ (t : Thread L) j, j < s.n → j ≠ i → TInv rank ((s.set i t).thr j) := by
    intro t j hj hji
    rw [Sys.set_other _ _ _ _ hji]; exact hinv j hj
  cases hst with
  | acqEx l rest hi hp hs hfree =>
    intro j hj
    by_cases hji : j = i
    · subst hji
      rw [Sys.set_self]
      obtain ⟨hu, ho, _⟩ := hinv j hi
      have ho' := ho hs
      rw [hp] at hu ho'
      exact ⟨hu, fun _ => ho'.2, fun hc => by simp [hs] at hc⟩
    · exact other _ j hj hji
  | acqSh l rest hi hp hs hno hpw =>
    intro j hj
    by_cases hji : j = i
    · subst hji
      rw [Sys.set_self]
      obtain ⟨hu, ho, _⟩ := hinv j hi
      have ho' := ho hs
      rw [hp] at hu ho'
      exact ⟨hu, fun _ => ho'.2, fun hc => by simp [hs] at hc⟩
    · exact other _ j hj hji
  | rel l rest hi hp hs =>
    intro j hj
    by_cases hji : j = i
    · subst hji
      rw [Sys.set_self]
      obtain ⟨hu, ho, _⟩ := hinv j hi
      have ho' := ho hs
      rw [hp] at hu ho'
      exact ⟨hu, fun _ => ho', fun hc => by simp [hs] at hc⟩
    · exact other _ j hj hji
  | waitPass l rest hi hp hs hz =>
    intro j hj
    by_cases hji : j = i
    · subst hji
      rw [Sys.set_self]
      obtain ⟨hu, ho, _⟩ := hinv j hi
      have ho' := ho hs
      rw [hp] at hu ho'
      exact ⟨hu.2, fun _ => ho'.2, fun hc => by simp [hs] at hc⟩
    · exact other _ j hj hji
  | waitSleep l rest hi hp hs hz =>
    intro j hj
    by_cases hji : j = i
    · subst hji
      rw [Sys.set_self]
      obtain ⟨hu, ho, _⟩ := hinv j hi
      have ho' := ho hs
      rw [hp] at hu ho'
      refine ⟨by simpa [hp] using hu, fun hc => by simp at hc, fun _ => ⟨?_, l, rest, hp, ?_⟩⟩
      · simp [ho'.1, dropLock]
      · have := ho'.2; rw [ho'.1] at this; exact this
    · exact other _ j hj hji
  | wake l rest hi hp hs hz hfree =>
    intro j hj
    by_cases hji : j = i
    · subst hji
      rw [Sys.set_self]
      obtain ⟨hu, _, hsl⟩ := hinv j hi
      obtain ⟨hh, l', rest', hp', ho'⟩ := hsl hs
      rw [hp] at hp'
      injection hp' with h1 h2
      injection h1 with h1
      subst h1; subst h2
      rw [hp] at hu
      refine ⟨hu.2, fun _ => by simpa [hh] using ho', fun hc => by simp at hc⟩
    · exact other _ j hj hji
  | inc rest hi hp hs =>
    intro j hj
    by_cases hji : j = i
    · subst hji
      rw [Sys.set_self]
      obtain ⟨hu, ho, _⟩ := hinv j hi
      have ho' := ho hs
      rw [hp] at hu ho'
      exact ⟨hu, fun _ => ho', fun hc => by simp [hs] at hc⟩
    · exact other _ j hj hji
  | dec rest hi hp hs =>
    intro j hj
    by_cases hji : j = i
    · subst hji
      rw [Sys.set_self]
      obtain ⟨hu, ho, _⟩ := hinv j hi
      have ho' := ho hs
      rw [hp] at hu ho'
      exact ⟨hu.2, fun _ => ho', fun hc => by simp [hs] at hc⟩
    · exact other _ j hj hji

theorem inv_reach {rank : L → Nat} {pref : L → Bool} {s t : Sys L}
    (hinv : Inv rank s) (hr : Reach pref s t) : Inv rank t := by
  induction hr with
  | refl => exact hinv
  | step i _ hst ih => exact inv_step ih hst

theorem reach_n {pref : L → Bool} {s t : Sys L} (hr : Reach pref s t) : t.n = s.n := by
  induction hr with
  | refl => rfl
  | step i _ hst ih => cases hst <;> simpa using ih

/-- A thread that holds a lock is not finished and not asleep. -/
theorem holder_awake {rank : L → Nat} {t : Thread L} (ht : TInv rank t) {p : L × Bool} (hp : p ∈ t.held) :
    t.sleeping = false ∧ t.prog ≠ [] := by
  obtain ⟨_, ho, hsl⟩ := ht
  cases hs : t.sleeping with
  | true => have := (hsl hs).1; rw [this] at hp; cases hp
  | false =>
    refine ⟨rfl, fun hnil => ?_⟩
    have := ho hs
    rw [hnil] at this
    simp [OrderedFrom] at this
    rw [this] at hp; cases hp

/-- Progress: in a state that satisfies the invariant, if some thread is not finished then some thread can
    move.  `B` bounds the ranks. -/
theorem progress {rank : L → Nat} {pref : L → Bool} {B : Nat} (hB : ∀ l, rank l < B) {s : Sys L}
    (hinv : Inv rank s) (hunf : ∃ i, i < s.n ∧ (s.thr i).prog ≠ []) : CanStep pref s := by
  apply Classical.byContradiction
  intro hstuck
  have nostep : ∀ i s', ¬ Step pref s i s' := fun i s' h => hstuck ⟨i, s', h⟩
  -- an awake thread whose next action is not an acquire can always move
  have awake_acq : ∀ j, j < s.n → (s.thr j).sleeping = false → (s.thr j).prog ≠ [] →
      ∃ l ex rest, (s.thr j).prog = .acq l ex :: rest := by
    intro j hj hs hne
    cases hp : (s.thr j).prog with
    | nil => exact absurd hp hne
    | cons a rest =>
      cases a with
      | acq l ex => exact ⟨l, ex, rest, rfl⟩
      | rel l => exact absurd (Step.rel l rest hj hp hs) (nostep _ _)
      | wait l =>
        by_cases hz : countZero s
        · exact absurd (Step.waitPass l rest hj hp hs hz) (nostep _ _)
        · exact absurd (Step.waitSleep l rest hj hp hs hz) (nostep _ _)
      | inc => exact absurd (Step.inc rest hj hp hs) (nostep _ _)
      | dec => exact absurd (Step.dec rest hj hp hs) (nostep _ _)
  -- nobody can be waiting for a lock: induction on the distance of its rank from the bound
  have noacq : ∀ k, ∀ j l ex rest, j < s.n → (s.thr j).sleeping = false → (s.thr j).prog = .acq l ex :: rest →
      B - rank l ≤ k → False := by
    intro k
    induction k with
    | zero =>
      intro j l ex rest _ _ _ hk
      have := hB l; omega
    | succ k ih =>
      intro j l ex rest hj hs hp hk
      -- whoever holds `l` wants something of higher rank: impossible by induction
      have holderFalse : ∀ j2, j2 < s.n → ∀ p ∈ (s.thr j2).held, p.1 = l → False := by
        intro j2 hj2 p hpm hpl
        obtain ⟨hs2, hne2⟩ := holder_awake (hinv j2 hj2) hpm
        obtain ⟨l2, ex2, rest2, hp2⟩ := awake_acq j2 hj2 hs2 hne2
        have ho2 := (hinv j2 hj2).2.1 hs2
        rw [hp2] at ho2
        have hlt := ho2.1 p hpm
        rw [hpl] at hlt
        have := hB l2
        exact ih j2 l2 ex2 rest2 hj2 hs2 hp2 (by omega)
      have hfree : free s l := by
        intro j2 hj2 p hpm hpl
        exact holderFalse j2 hj2 p hpm hpl
      cases ex with
      | true => exact nostep _ _ (Step.acqEx l rest hj hp hs hfree)
      | false =>
        have hno : noEx s l := fun j2 hj2 hm => holderFalse j2 hj2 (l, true) hm rfl
        by_cases hw : pref l = true ∧ exWaiting s j l
        · obtain ⟨_, j3, hj3, _, hs3, rest3, hp3⟩ := hw
          exact nostep _ _ (Step.acqEx l rest3 hj3 hp3 hs3 hfree)
        · exact nostep _ _ (Step.acqSh l rest hj hp hs hno (fun hpr hex => hw ⟨hpr, hex⟩))
  -- hence every unfinished thread is asleep
  have allsleep : ∀ j, j < s.n → (s.thr j).prog ≠ [] → (s.thr j).sleeping = true := by
    intro j hj hne
    cases hs : (s.thr j).sleeping with
    | true => rfl
    | false =>
      obtain ⟨l, ex, rest, hp⟩ := awake_acq j hj hs hne
      exact (noacq (B - rank l) j l ex rest hj hs hp (Nat.le_refl _)).elim
  obtain ⟨i, hi, hne⟩ := hunf
  have hsl := allsleep i hi hne
  obtain ⟨_, l, rest, hp, _⟩ := (hinv i hi).2.2 hsl
  -- the sleeper could wake: the count is zero and the mutex is free
  have hz : countZero s := by
    intro j hj
    apply Classical.byContradiction
    intro hu
    have huo := (hinv j hj).1
    by_cases hnil : (s.thr j).prog = []
    · rw [hnil] at huo; exact hu huo
    · have hsj := allsleep j hj hnil
      obtain ⟨_, l', rest', hp', _⟩ := (hinv j hj).2.2 hsj
      rw [hp'] at huo
      exact hu huo.1
  have hfree : free s l := by
    intro j hj p hpm _
    obtain ⟨hs2, hne2⟩ := holder_awake (hinv j hj) hpm
    have := allsleep j hj hne2
    rw [hs2] at this; cases this
  exact nostep _ _ (Step.wake l rest hi hp hsl hz hfree)

/-! ## Mutual exclusion -/

omit [DecidableEq L] in
/-- replacing thread `i` by one that holds a subset of what it held keeps mutual exclusion -/
theorem excl_shrink {s : Sys L} {i : Nat} {t : Thread L} (hex : Exclusive s)
    (hsub : ∀ p ∈ t.held, p ∈ (s.thr i).held) : Exclusive (s.set i t) := by
  intro a b l ha hb hab hm p hp
  simp only [Sys.set_n] at ha hb
  by_cases hai : a = i
  · subst hai
    rw [Sys.set_self] at hm
    rw [Sys.set_other _ _ _ _ (Ne.symm hab)] at hp
    exact hex a b l ha hb hab (hsub _ hm) p hp
  · rw [Sys.set_other _ _ _ _ hai] at hm
    by_cases hbi : b = i
    · subst hbi
      rw [Sys.set_self] at hp
      exact hex a b l ha hb hab hm p (hsub _ hp)
    · rw [Sys.set_other _ _ _ _ hbi] at hp
      exact hex a b l ha hb hab hm p hp

omit [DecidableEq L] in
/-- thread `i` additionally takes `(l, ex)`: fine when nobody holds `l` exclusively and, for `ex`, nobody at all -/
theorem excl_push {s : Sys L} {i : Nat} {t : Thread L} {l : L} {ex : Bool} (hex : Exclusive s) (hi : i < s.n)
    (hheld : t.held = (l, ex) :: (s.thr i).held) (hno : noEx s l) (hfree : ex = true → free s l) :
    Exclusive (s.set i t) := by
  intro a b l' ha hb hab hm p hp
  simp only [Sys.set_n] at ha hb
  by_cases hai : a = i
  · subst hai
    rw [Sys.set_self, hheld] at hm
    rw [Sys.set_other _ _ _ _ (Ne.symm hab)] at hp
    cases hm with
    | head => exact hfree rfl b hb p hp
    | tail _ hm' => exact hex a b l' ha hb hab hm' p hp
  · rw [Sys.set_other _ _ _ _ hai] at hm
    by_cases hbi : b = i
    · subst hbi
      rw [Sys.set_self, hheld] at hp
      cases hp with
      | head =>
        intro hl
        simp only at hl
        subst hl
        exact hno a ha hm
      | tail _ hp' => exact hex a b l' ha hb hab hm p hp'
    · rw [Sys.set_other _ _ _ _ hbi] at hp
      exact hex a b l' ha hb hab hm p hp

omit [DecidableEq L] in
theorem free_noEx {s : Sys L} {l : L} (h : free s l) : noEx s l :=
  fun j hj hm => h j hj (l, true) hm rfl

theorem dropLock_sub (h : List (L × Bool)) (l : L) : ∀ p ∈ dropLock h l, p ∈ h := by
  intro p hp
  exact (List.mem_filter.mp hp).1

theorem excl_step {pref : L → Bool} {s s' : Sys L} {i : Nat} (hex : Exclusive s) (hst : Step pref s i s') :
    Exclusive s' := by
  cases hst with
  | acqEx l rest hi hp hs hfree => exact excl_push hex hi rfl (free_noEx hfree) (fun _ => hfree)
  | acqSh l rest hi hp hs hno hpw => exact excl_push hex hi rfl hno (fun h => by cases h)
  | rel l rest hi hp hs => exact excl_shrink hex (dropLock_sub _ _)
  | waitPass l rest hi hp hs hz => exact excl_shrink hex (fun p hp => hp)
  | waitSleep l rest hi hp hs hz => exact excl_shrink hex (dropLock_sub _ _)
  | wake l rest hi hp hs hz hfree => exact excl_push hex hi rfl (free_noEx hfree) (fun _ => hfree)
  | inc rest hi hp hs => exact excl_shrink hex (fun p hp => hp)
  | dec rest hi hp hs => exact excl_shrink hex (fun p hp => hp)

omit [DecidableEq L] in
theorem excl_init {s : Sys L} (h : ∀ i, i < s.n → (s.thr i).held = []) : Exclusive s := by
  intro a b l ha _ _ hm
  rw [h a ha] at hm; cases hm

theorem excl_reach {pref : L → Bool} {s t : Sys L} (hex : Exclusive s) (hr : Reach pref s t) : Exclusive t := by
  induction hr with
  | refl => exact hex
  | step i _ hst ih => exact excl_step ih hst

end IwModel.LockSys
