import IwModel.Model.Conv
/-! Helper lemmas about `iwitoa` / `iwatoi` / hex codecs. -/
namespace IwModel.Conv

/-! ### decimal digits -/

def isDig (c : Nat) : Prop := 48 ≤ c ∧ c ≤ 57

theorem digits_all (n : Nat) : ∀ c ∈ digits n, isDig c := by
  induction n using Nat.strongRecOn with
  | _ n ih =>
    rw [digits]; split
    · intro c hc; simp at hc; unfold isDig; omega
    · intro c hc
      simp only [List.mem_append, List.mem_singleton] at hc
      rcases hc with hc | rfl
      · exact ih (n / 10) (by omega) c hc
      · unfold isDig; omega

theorem digits_ne_nil (n : Nat) : digits n ≠ [] := by
  rw [digits]; split <;> simp

theorem digits_length_pos (n : Nat) : 0 < (digits n).length :=
  List.length_pos_iff.mpr (digits_ne_nil n)

theorem atoiDigits_append (l r : Bytes) (acc : Nat) (h : ∀ c ∈ l, isDig c) :
    atoiDigits (l ++ r) acc = atoiDigits r (atoiDigits l acc) := by
  induction l generalizing acc with
  | nil => simp [atoiDigits]
  | cons c cs ih =>
    have hc : 48 ≤ c ∧ c ≤ 57 := h c (by simp)
    simp only [List.cons_append, atoiDigits, hc, and_self, if_true]
    exact ih _ (fun x hx => h x (by simp [hx]))

theorem atoiDigits_digits (n : Nat) : atoiDigits (digits n) 0 = n := by
  induction n using Nat.strongRecOn with
  | _ n ih =>
    rw [digits]; split
    · simp [atoiDigits]; omega
    · rw [atoiDigits_append _ _ _ (digits_all _), ih (n / 10) (by omega)]
      have h1 : 48 ≤ 48 + n % 10 ∧ 48 + n % 10 ≤ 57 := by omega
      simp only [atoiDigits, h1, and_self, if_true]
      omega

theorem digits_head (n : Nat) : ∃ d ds, digits n = d :: ds ∧ isDig d := by
  have h := digits_all n
  cases hd : digits n with
  | nil => exact absurd hd (digits_ne_nil n)
  | cons d ds => exact ⟨d, ds, rfl, h d (by simp [hd])⟩

theorem isInf_digits (d : Nat) (ds : Bytes) (h : isDig d) : isInf (d :: ds) = false := by
  unfold isDig at h
  simp only [isInf, beq_eq_false_iff_ne, ne_eq, List.cons.injEq, not_and]
  intro h1; omega

theorem atoi_digits (n : Nat) : atoi (digits n) = n := by
  obtain ⟨d, ds, hd, hdig⟩ := digits_head n
  have hv := atoiDigits_digits n
  rw [hd] at hv
  have hdig' := hdig
  unfold isDig at hdig'
  unfold atoi
  rw [hd]
  have h0 : List.dropWhile (fun c => decide (0 < c ∧ c ≤ 32)) (d :: ds) = d :: ds := by
    rw [List.dropWhile_cons]; simp; omega
  simp only [h0]
  split
  · rename_i r heq; simp at heq; omega
  · rename_i r heq; simp at heq; omega
  · rename_i r _ _
    rw [isInf_digits d ds hdig]; simp [hv]

theorem atoi_neg_digits (n : Nat) : atoi (45 :: digits n) = -(n : Int) := by
  obtain ⟨d, ds, hd, hdig⟩ := digits_head n
  have hv := atoiDigits_digits n
  rw [hd] at hv
  unfold atoi
  have h0 : List.dropWhile (fun c => decide (0 < c ∧ c ≤ 32)) (45 :: digits n) = 45 :: digits n := by
    rw [List.dropWhile_cons]; simp
  simp only [h0]
  rw [hd, isInf_digits d ds hdig]; simp [hv]

/-! ### guarded buffer: nothing outside `buf[0 .. max)` changes -/

/-- the guard cells on both sides of the caller's buffer still hold the fill pattern -/
def Guard (max : Nat) (m : Mem) : Prop :=
  m.length = max + 2 * pad ∧ ∀ i, (i < pad ∨ pad + max ≤ i) → i < max + 2 * pad → m.getD i 0 = fill

theorem guard_init (max : Nat) : Guard max (Mem.init max) := by
  refine ⟨by simp [Mem.init], ?_⟩
  intro i _ hi
  simp [Mem.init, List.getD_eq_getElem?_getD, hi]

theorem guard_set {max : Nat} {m : Mem} (h : Guard max m) (i x : Nat)
    (h1 : pad ≤ i) (h2 : i < pad + max) : Guard max (m.set i x) := by
  refine ⟨by simp [h.1], ?_⟩
  intro j hj hj2
  have := h.2 j hj hj2
  have hne : i ≠ j := by omega
  simpa [List.getD_eq_getElem?_getD, List.getElem?_set_ne hne] using this

theorem guard_foldl {max : Nat} (f : Nat → Nat) (g : Mem → Nat → Nat) (n : Nat) (m : Mem)
    (hf : ∀ i < n, pad ≤ f i ∧ f i < pad + max) (h : Guard max m) :
    Guard max ((List.range n).foldl (fun m i => m.set (f i) (g m i)) m) := by
  induction n with
  | zero => simpa using h
  | succ n ih =>
    rw [List.range_succ, List.foldl_append]
    simp only [List.foldl_cons, List.foldl_nil]
    exact guard_set (ih (fun i hi => hf i (by omega))) _ _ (hf n (by omega)).1 (hf n (by omega)).2

theorem guard_shiftLeft {max : Nat} {m : Mem} (h : Guard max m) (dst n : Nat)
    (h1 : pad ≤ dst) (h2 : dst + n ≤ pad + max) : Guard max (shiftLeft m dst n) :=
  guard_foldl (fun i => dst + i) (fun m i => m.getD (dst + i + 1) 0) n m (fun i hi => by omega) h

theorem guard_revLoop {max : Nat} (m : Mem) (ptr p : Nat) (h : Guard max m)
    (h1 : pad ≤ ptr) (h2 : p ≤ pad + max) : Guard max (revLoop m ptr p) := by
  fun_induction revLoop m ptr p with
  | case1 m ptr p hp p' c m1 m2 ih =>
    apply ih
    · exact guard_set (guard_set h _ _ (by omega) (by omega)) _ _ (by omega) (by omega)
    · omega
    · omega
  | case2 m ptr p hp => exact h

theorem guard_digitLoop {max ptr : Nat} (v : Nat) (m : Mem) (ret p : Nat) (h : Guard max m)
    (h1 : pad ≤ ptr) (h2 : ptr ≤ p) (h3 : p ≤ pad + ret) (h4 : p + 1 ≤ pad + max) :
    Guard max (digitLoop max ptr v m ret p).1 ∧ ptr ≤ (digitLoop max ptr v m ret p).2.2 ∧
      (digitLoop max ptr v m ret p).2.2 + 1 ≤ pad + max := by
  induction v using Nat.strongRecOn generalizing m ret p with
  | _ v ih =>
    rw [digitLoop]
    split
    · exact ⟨h, h2, h4⟩
    · rename_i hv
      simp only
      split
      · exact ih (v / 10) (by omega) m (ret + 1) p h h2 (by omega) h4
      · rename_i hc
        by_cases hr : ret + 1 ≥ max
        · simp only [hr, if_true]
          have hp : p ≠ ptr := fun e => hc ⟨hr, e⟩
          have e : p - 1 + 1 = p := by omega
          rw [e]
          refine ih (v / 10) (by omega) _ (ret + 1) p ?_ h2 (by omega) h4
          exact guard_set (guard_shiftLeft h ptr (p - ptr) h1 (by omega)) _ _ (by omega) (by omega)
        · simp only [hr, if_false]
          refine ih (v / 10) (by omega) _ (ret + 1) (p + 1) ?_ (by omega) (by omega) (by omega)
          exact guard_set h _ _ (by omega) (by omega)

theorem oobWrites_of_guard {max : Nat} {m : Mem} (h : Guard max m) : oobWrites m max = [] := by
  unfold oobWrites
  rw [List.filter_eq_nil_iff]
  intro i hi
  simp only [List.mem_range] at hi
  have := h.2 i
  rw [h.1] at hi
  simp only [decide_eq_true_eq, not_and, Decidable.not_not, ne_eq, ge_iff_le]
  intro hc
  exact this hc hi

theorem guard_itoa (v : Int) (max : Nat) : Guard max (itoa v max).2 := by
  have g0 := guard_init max
  unfold itoa
  simp only
  split
  · exact g0
  · rename_i hmax
    split
    · split
      · exact guard_set g0 _ _ (by omega) (by omega)
      · exact guard_set (guard_set g0 _ _ (by omega) (by omega)) _ _ (by omega) (by omega)
    · split
      · split
        · exact g0
        · refine guard_set ?_ _ _ (by omega) (by omega)
          exact guard_foldl (fun i => pad + i) (fun _ i => minStr.getD i 0) _ _ (fun i hi => by omega) g0
      · split
        · exact guard_set g0 _ _ (by omega) (by omega)
        · rename_i hv0 _ hneg
          by_cases hn : v < 0
          · have hm : 2 ≤ max := by
              by_cases h1 : 1 ≥ max
              · exact absurd ⟨hn, h1⟩ hneg
              · omega
            simp only [hn, if_true]
            have g1 : Guard max ((Mem.init max).set pad 45) := guard_set g0 _ _ (by omega) (by omega)
            have := guard_digitLoop (max := max) (ptr := pad + 1) v.natAbs _ 1 (pad + 1) g1
              (by omega) (by omega) (by omega) (by omega)
            revert this
            generalize digitLoop max (pad + 1) v.natAbs _ 1 (pad + 1) = r
            obtain ⟨m', ret', p'⟩ := r
            intro this
            simp only at this ⊢
            refine guard_set (guard_revLoop _ _ _ this.1 (by omega) (by omega)) _ _ (by omega) (by omega)
          · simp only [hn, if_false]
            have := guard_digitLoop (max := max) (ptr := pad) v.natAbs _ 0 pad g0
              (by omega) (by omega) (by omega) (by omega)
            revert this
            generalize digitLoop max pad v.natAbs _ 0 pad = r
            obtain ⟨m', ret', p'⟩ := r
            intro this
            simp only at this ⊢
            refine guard_set (guard_revLoop _ _ _ this.1 (by omega) (by omega)) _ _ (by omega) (by omega)

/-! ### mechanism = spec when the buffer is large enough -/

/-- digits least significant first; `[]` for 0 (the digit loop does not run) -/
def rdigits (v : Nat) : Bytes := if h : v = 0 then [] else (48 + v % 10) :: rdigits (v / 10)
termination_by v
decreasing_by omega

theorem digits_eq_rdigits (v : Nat) (h : 0 < v) : digits v = (rdigits v).reverse := by
  induction v using Nat.strongRecOn with
  | _ v ih =>
    rw [digits, rdigits]
    split
    · rename_i h10
      have h0 : v / 10 = 0 := by omega
      have hm : v % 10 = v := by omega
      rw [dif_neg (by omega), h0, rdigits]; simp [hm]
    · rw [dif_neg (by omega), ih (v / 10) (by omega) (by omega)]; simp

theorem getD_at (a r : List Nat) (x : Nat) : (a ++ x :: r).getD a.length 0 = x := by
  simp [List.getD_eq_getElem?_getD]

theorem set_at (a r : List Nat) (x y : Nat) : (a ++ x :: r).set a.length y = a ++ y :: r := by
  simp

/-- without overflow the digit loop writes the digits, least significant first, at `p` -/
theorem digitLoop_noovf (max ptr : Nat) (v : Nat) (a mid b : List Nat) (ret : Nat)
    (hlen : mid.length = (rdigits v).length) (hmax : ret + mid.length < max) :
    digitLoop max ptr v (a ++ mid ++ b) ret a.length
      = (a ++ rdigits v ++ b, ret + mid.length, a.length + mid.length) := by
  induction v using Nat.strongRecOn generalizing a mid ret with
  | _ v ih =>
    rw [digitLoop, rdigits]
    split
    · rename_i h0
      rw [rdigits, dif_pos h0] at hlen
      have : mid = [] := List.length_eq_zero_iff.mp hlen
      subst this; simp
    · rename_i h0
      rw [rdigits, dif_neg h0] at hlen
      cases mid with
      | nil => simp at hlen
      | cons x t =>
        simp only [List.length_cons] at hlen hmax
        have hr : ¬ (ret + 1 ≥ max) := by omega
        simp only [hr, false_and, if_false]
        have e1 : a ++ x :: t ++ b = a ++ x :: (t ++ b) := by simp
        rw [e1, set_at]
        have e2 : a ++ (48 + v % 10) :: (t ++ b) = (a ++ [48 + v % 10]) ++ t ++ b := by simp
        have e3 : a.length + 1 = (a ++ [48 + v % 10]).length := by simp
        rw [e2, e3, ih (v / 10) (by omega) _ t (ret + 1) (by omega) (by omega)]
        simp only [List.length_append, List.length_cons, List.length_nil, List.append_assoc,
          List.cons_append, List.nil_append, Prod.mk.injEq, true_and]
        omega

/-- the reversal loop reverses the window `[ptr, p)` -/
theorem revLoop_spec (a mid b : List Nat) :
    revLoop (a ++ mid ++ b) a.length (a.length + mid.length) = a ++ mid.reverse ++ b := by
  suffices H : ∀ (n : Nat) (a mid b : List Nat), mid.length = n →
      revLoop (a ++ mid ++ b) a.length (a.length + mid.length) = a ++ mid.reverse ++ b from
    H _ a mid b rfl
  intro n
  induction n using Nat.strongRecOn with
  | _ n ih =>
    intro a mid b hn
    rw [revLoop]
    cases mid with
    | nil => simp
    | cons x t =>
      simp only [List.length_cons] at hn
      rw [dif_pos (by simp)]
      simp only
      rcases List.eq_nil_or_concat t with rfl | ⟨t', y, rfl⟩
      · have e1 : a ++ [x] ++ b = a ++ x :: b := by simp
        have e0 : a.length + [x].length - 1 = a.length := by simp
        rw [e1, e0, getD_at, set_at, set_at, revLoop, dif_neg (by omega)]
        simp
      · have e0 : a.length + (x :: (t' ++ [y])).length - 1 = (a ++ x :: t').length := by simp
        have e1 : a ++ x :: (t' ++ [y]) ++ b = (a ++ x :: t') ++ y :: b := by simp
        have e2 : (a ++ x :: t') ++ y :: b = a ++ x :: (t' ++ y :: b) := by simp
        simp only [List.concat_eq_append, List.length_append, List.length_cons, List.length_nil] at hn
        simp only [List.concat_eq_append]
        rw [e0, e1, getD_at, set_at]
        rw [e2, getD_at]
        have e3 : (a ++ x :: t') ++ x :: b = a ++ x :: (t' ++ x :: b) := by simp
        rw [e3, set_at]
        have e4 : a ++ y :: (t' ++ x :: b) = (a ++ [y]) ++ t' ++ ([x] ++ b) := by simp
        have e5 : a.length + 1 = (a ++ [y]).length := by simp
        have e6 : (a ++ x :: t').length = (a ++ [y]).length + t'.length := by simp; omega
        rw [e4, e5, e6, ih t'.length (by omega) _ t' _ rfl]
        simp

theorem rdigits_length (n : Nat) (h : 0 < n) : (rdigits n).length = (digits n).length := by
  rw [digits_eq_rdigits n h]; simp

theorem digits_ne_zero (n : Nat) : ∀ c ∈ digits n, c ≠ 0 := by
  intro c hc; have := digits_all n c hc; unfold isDig at this; omega

theorem cstr_spec (a s rest : List Nat) (ha : a.length = pad) (hs : ∀ c ∈ s, c ≠ 0) :
    cstr (a ++ s ++ 0 :: rest) = s := by
  unfold cstr
  rw [List.append_assoc, List.drop_left' ha, List.takeWhile_append_of_pos (by simpa using hs)]
  simp

/-- digit loop, reversal and terminating NUL on a window of fresh cells: the digits of `n` -/
theorem itoa_run (max n : Nat) (a : List Nat) (ret r : Nat) (hn : 0 < n)
    (hmax : ret + (digits n).length < max) :
    let m := a ++ List.replicate ((digits n).length + 1 + r) fill
    let d := digitLoop max a.length n m ret a.length
    d.2.1 = ret + (digits n).length ∧
    (revLoop d.1 a.length d.2.2).set d.2.2 0 = a ++ digits n ++ 0 :: List.replicate r fill := by
  intro m d
  have hm : m = a ++ List.replicate (digits n).length fill ++ List.replicate (1 + r) fill := by
    simp only [m, List.append_assoc, List.replicate_append_replicate]; congr 2; omega
  have hd : d = (a ++ rdigits n ++ List.replicate (1 + r) fill, ret + (digits n).length,
      a.length + (digits n).length) := by
    simp only [d, hm]
    have := digitLoop_noovf max a.length n a (List.replicate (digits n).length fill)
      (List.replicate (1 + r) fill) ret (by simp [rdigits_length n hn]) (by simpa using hmax)
    simpa using this
  rw [hd]
  refine ⟨rfl, ?_⟩
  simp only
  have := revLoop_spec a (rdigits n) (List.replicate (1 + r) fill)
  rw [rdigits_length n hn, ← digits_eq_rdigits n hn] at this
  rw [this]
  have e : a.length + (digits n).length = (a ++ digits n).length := by simp
  have e2 : List.replicate (1 + r) fill = fill :: List.replicate r fill := by
    rw [Nat.add_comm, List.replicate_succ]
  rw [e, e2, set_at]

theorem set_at' (a r : List Nat) (x y i : Nat) (h : a.length = i) :
    (a ++ x :: r).set i y = a ++ y :: r := by subst h; exact set_at a r x y

theorem minStr_eq : minStr = [45,57,50,50,51,51,55,50,48,51,54,56,53,52,55,55,53,56,48,56] := by decide

theorem digits_min : digits (2 ^ 63) = [57,50,50,51,51,55,50,48,51,54,56,53,52,55,55,53,56,48,56] := by
  simp [digits]

/-- the `snprintf` path for `INT64_MIN` when all 20 characters fit -/
theorem write_minStr (t : List Nat) :
    (List.range 20).foldl (fun m i => m.set (pad + i) (minStr.getD i 0)) (List.replicate 29 fill ++ t)
      = List.replicate pad fill ++ minStr ++ (fill :: t) := by
  rw [minStr_eq]
  simp [List.range_succ, List.replicate_succ, pad, fill]

theorem itoa_spec_min (max : Nat) (hlen : 20 < max) :
    cstr (itoa (-(2 ^ 63 : Int)) max).2 = minStr ∧ (itoa (-(2 ^ 63 : Int)) max).1 = 20 := by
  unfold itoa
  have h1 : ¬ max < 1 := by omega
  have h2 : ¬ max = 0 := by omega
  have h3 : min (max - 1) 20 = 20 := by omega
  have e : Mem.init max = List.replicate 29 fill ++ List.replicate (max + 2 * pad - 29) fill := by
    simp only [Mem.init, List.replicate_append_replicate]; congr 1; simp only [pad]; omega
  simp only [h1, h2, h3, if_false, if_true, show ¬ (-(2 ^ 63 : Int) = 0) by decide, e, write_minStr]
  refine ⟨?_, trivial⟩
  have e2 : List.replicate pad fill ++ minStr ++ fill :: List.replicate (max + 2 * pad - 29) fill
      = (List.replicate pad fill ++ minStr) ++ fill :: List.replicate (max + 2 * pad - 29) fill := by simp
  rw [e2, set_at' _ _ _ _ _ (by simp [minStr_eq])]
  exact cstr_spec _ _ _ (by simp) (by rw [minStr_eq]; decide)

theorem itoa_spec (v : Int) (max : Nat) (lo : -2 ^ 63 ≤ v) (hlen : (itoaSpec v).length < max) :
    cstr (itoa v max).2 = itoaSpec v ∧ (itoa v max).1 = (itoaSpec v).length := by
  by_cases hmin0 : v = -(2 ^ 63 : Int)
  · subst hmin0
    have e : itoaSpec (-(2 ^ 63 : Int)) = minStr := by
      have : (-(2 ^ 63 : Int)).natAbs = 2 ^ 63 := by decide
      simp only [itoaSpec, show (-(2 ^ 63 : Int)) < 0 by decide, if_true, this, digits_min, minStr_eq]
    rw [e] at hlen ⊢
    have hl : minStr.length = 20 := by rw [minStr_eq]; rfl
    rw [hl] at hlen ⊢
    exact itoa_spec_min max hlen
  have lo : -2 ^ 63 < v := by omega
  have hA : (List.replicate pad fill).length = pad := by simp
  unfold itoaSpec at *
  unfold itoa
  have hmax1 : ¬ max < 1 := by omega
  simp only [hmax1, if_false]
  by_cases h0 : v = 0
  · subst h0
    have hd : digits (0 : Int).natAbs = [48] := by rw [digits]; simp
    simp only [hd, Int.lt_irrefl, if_false, List.length_cons, List.length_nil] at hlen ⊢
    have : ¬ (1 ≥ max) := by omega
    simp only [this, if_true, if_false]
    have e : Mem.init max = List.replicate pad fill ++ fill :: fill :: List.replicate (max + pad - 2) fill := by
      simp only [Mem.init, ← List.replicate_succ, List.replicate_append_replicate]; congr 1; omega
    rw [e, set_at' _ _ _ _ _ hA]
    have e2 : List.replicate pad fill ++ 48 :: fill :: List.replicate (max + pad - 2) fill
        = (List.replicate pad fill ++ [48]) ++ fill :: List.replicate (max + pad - 2) fill := by simp
    rw [e2, set_at' _ _ _ _ _ (by simp)]
    exact ⟨cstr_spec _ [48] _ hA (by simp), trivial⟩
  · have hmin : v ≠ -(2 ^ 63 : Int) := by omega
    simp only [h0, hmin, if_false]
    have hn : 0 < v.natAbs := by omega
    by_cases hneg : v < 0
    · simp only [hneg, if_true, List.length_cons] at hlen ⊢
      have hm : ¬ (True ∧ 1 ≥ max) := by omega
      simp only [hm, if_false]
      let a := List.replicate pad fill ++ [45]
      have ha : a.length = pad + 1 := by simp [a]
      have e : (Mem.init max).set pad 45
          = a ++ List.replicate ((digits v.natAbs).length + 1 + (max + pad - (digits v.natAbs).length - 2)) fill := by
        have : Mem.init max = List.replicate pad fill ++ fill ::
            List.replicate ((digits v.natAbs).length + 1 + (max + pad - (digits v.natAbs).length - 2)) fill := by
          simp only [Mem.init, ← List.replicate_succ, List.replicate_append_replicate]; congr 1; omega
        rw [this, set_at' _ _ _ _ _ hA]; simp [a]
      have H := itoa_run max v.natAbs a 1 (max + pad - (digits v.natAbs).length - 2) hn (by omega)
      rw [e, ← ha]
      revert H
      simp only
      generalize digitLoop max a.length v.natAbs _ 1 a.length = d
      obtain ⟨m', ret', p'⟩ := d
      intro H
      simp only at H ⊢
      rw [H.2, H.1]
      refine ⟨?_, by omega⟩
      have e3 : a ++ digits v.natAbs ++ 0 :: List.replicate (max + pad - (digits v.natAbs).length - 2) fill
          = List.replicate pad fill ++ (45 :: digits v.natAbs) ++ 0 :: List.replicate (max + pad - (digits v.natAbs).length - 2) fill := by
        simp [a]
      rw [e3]
      exact cstr_spec _ _ _ hA (by
        intro c hc
        simp only [List.mem_cons] at hc
        rcases hc with rfl | hc
        · decide
        · exact digits_ne_zero _ c hc)
    · simp only [hneg, if_false] at hlen ⊢
      simp only [false_and, if_false]
      let a := List.replicate pad fill
      have e : Mem.init max
          = a ++ List.replicate ((digits v.natAbs).length + 1 + (max + pad - (digits v.natAbs).length - 1)) fill := by
        simp only [a, Mem.init, List.replicate_append_replicate]; congr 1; omega
      have H := itoa_run max v.natAbs a 0 (max + pad - (digits v.natAbs).length - 1) hn (by omega)
      rw [e]
      generalize max + pad - (digits v.natAbs).length - 1 = r at H ⊢
      rw [show pad = a.length from hA.symm]
      revert H
      simp only
      generalize digitLoop max a.length v.natAbs _ 0 a.length = d
      obtain ⟨m', ret', p'⟩ := d
      intro H
      simp only at H ⊢
      rw [H.2, H.1]
      exact ⟨cstr_spec _ _ _ hA (digits_ne_zero _), by omega⟩

/-! ### hex -/

def hexchar (h : Nat) : Nat := if h < 10 then 48 + h else 87 + h

/-- the regenerated table `ascii2hex` inverts the lower-case hex digit characters -/
theorem tbl_hexchar : ∀ h < 16, tbl (hexchar h) = h := by decide

set_option maxRecDepth 100000 in
theorem byte_recombine : ∀ b < 256,
    (tbl (hexchar (b / 16 % 16)) * 16) % 256 ||| tbl (hexchar (b % 16)) = b := by decide

theorem bin2hex_cons (b : Nat) (t : Bytes) :
    bin2hex (b :: t) = hexchar (b / 16 % 16) :: hexchar (b % 16) :: bin2hex t := by
  simp [bin2hex, hexchar]

theorem bin2hex_length (bs : Bytes) : (bin2hex bs).length = 2 * bs.length := by
  induction bs with
  | nil => rfl
  | cons b t ih => rw [bin2hex_cons]; simp [ih]; omega

theorem hex2binAux_bin2hex (bs : Bytes) (fuel : Nat) (hwf : ∀ b ∈ bs, b < 256)
    (hlen : bs.length ≤ fuel) : hex2binAux (bin2hex bs) fuel = bs := by
  induction bs generalizing fuel with
  | nil => cases fuel <;> simp [bin2hex, hex2binAux]
  | cons b t ih =>
    cases fuel with
    | zero => simp at hlen
    | succ f =>
      rw [bin2hex_cons, hex2binAux, byte_recombine b (hwf b (by simp)),
        ih f (fun x hx => hwf x (by simp [hx])) (by simpa using hlen)]

theorem hex2bin_bin2hex (bs : Bytes) (max : Nat) (hwf : ∀ b ∈ bs, b < 256) (hlen : bs.length ≤ max) :
    hex2bin (bin2hex bs) max = bs := by
  unfold hex2bin
  have : ¬ ((bin2hex bs).length % 2 = 1) := by rw [bin2hex_length]; omega
  simp only [this, if_false]
  exact hex2binAux_bin2hex bs max hwf hlen

theorem digits_length_le (k n : Nat) (h : n < 10 ^ (k + 1)) : (digits n).length ≤ k + 1 := by
  induction k generalizing n with
  | zero => rw [digits]; simp at h; simp [h]
  | succ k ih =>
    rw [digits]; split
    · simp
    · have : n / 10 < 10 ^ (k + 1) := by
        rw [Nat.div_lt_iff_lt_mul (by decide)]
        calc n < 10 ^ (k + 1 + 1) := h
          _ = 10 ^ (k + 1) * 10 := by rw [Nat.pow_succ]
      have := ih (n / 10) this
      simp; omega

theorem itoaSpec_length_lt (v : Int) (lo : -2 ^ 63 ≤ v) (hi : v < 2 ^ 63) : (itoaSpec v).length < 21 := by
  have h19 : v.natAbs < 10 ^ (18 + 1) := by
    have : (2 : Nat) ^ 63 < 10 ^ (18 + 1) := by decide
    omega
  have := digits_length_le 18 v.natAbs h19
  unfold itoaSpec
  split <;> simp <;> omega

end IwModel.Conv
