import IwModel.Model.Conv
/-! Helper lemmas about `iwitoa` / `iwatoi` / hex codecs. -/
namespace IwModel.Conv

/-! ### decimal digits -/

def isDig (c : Nat) : Prop := 48 ≤ c ∧ c ≤ 57

theorem digits_all (n : Nat) : ∀ c ∈ digits n, isDig c := by
  induction n using Nat.strongRecOn with
  | _ n ih =>
    rw [digits]; split
    · intro c hc; simp at hc; unfold isDig; omega
    · intro c hc
      simp only [List.mem_append, List.mem_singleton] at hc
      rcases hc with hc | rfl
      · exact ih (n / 10) (by omega) c hc
      · unfold isDig; omega

theorem digits_ne_nil (n : Nat) : digits n ≠ [] := by
  rw [digits]; split <;> simp

theorem digits_length_pos (n : Nat) : 0 < (digits n).length :=
  List.length_pos_iff.mpr (digits_ne_nil n)

theorem atoiDigits_append (l r : Bytes) (acc : Nat) (h : ∀ c ∈ l, isDig c) :
    atoiDigits (l ++ r) acc = atoiDigits r (atoiDigits l acc) := by
  induction l generalizing acc with
  | nil => simp [atoiDigits]
  | cons c cs ih =>
    have hc : 48 ≤ c ∧ c ≤ 57 := h c (by simp)
    simp only [List.cons_append, atoiDigits, hc, and_self, if_true]
    exact ih _ (fun x hx => h x (by simp [hx]))

theorem atoiDigits_digits (n : Nat) : atoiDigits (digits n) 0 = n := by
  induction n using Nat.strongRecOn with
  | _ n ih =>
    rw [digits]; split
    · simp [atoiDigits]; omega
    · rw [atoiDigits_append _ _ _ (digits_all _), ih (n / 10) (by omega)]
      have h1 : 48 ≤ 48 + n % 10 ∧ 48 + n % 10 ≤ 57 := by omega
      simp only [atoiDigits, h1, and_self, if_true]
      omega

theorem digits_head (n : Nat) : ∃ d ds, digits n = d :: ds ∧ isDig d := by
  have h := digits_all n
  cases hd : digits n with
  | nil => exact absurd hd (digits_ne_nil n)
  | cons d ds => exact ⟨d, ds, rfl, h d (by simp [hd])⟩

theorem isInf_digits (d : Nat) (ds : Bytes) (h : isDig d) : isInf (d :: ds) = false := by
  unfold isDig at h
  simp only [isInf, beq_eq_false_iff_ne, ne_eq, List.cons.injEq, not_and]
  intro h1; omega

theorem atoi_digits (n : Nat) : atoi (digits n) = n := by
  obtain ⟨d, ds, hd, hdig⟩ := digits_head n
  have hv := atoiDigits_digits n
  rw [hd] at hv
  have hdig' := hdig
  unfold isDig at hdig'
  unfold atoi
  rw [hd]
  have h0 : List.dropWhile (fun c => decide (0 < c ∧ c ≤ 32)) (d :: ds) = d :: ds := by
    rw [List.dropWhile_cons]; simp; omega
  simp only [h0]
  split
  · rename_i r heq; simp at heq; omega
  · rename_i r heq; simp at heq; omega
  · rename_i r _ _
    rw [isInf_digits d ds hdig]; simp [hv]

theorem atoi_neg_digits (n : Nat) : atoi (45 :: digits n) = -(n : Int) := by
  obtain ⟨d, ds, hd, hdig⟩ := digits_head n
  have hv := atoiDigits_digits n
  rw [hd] at hv
  unfold atoi
  have h0 : List.dropWhile (fun c => decide (0 < c ∧ c ≤ 32)) (45 :: digits n) = 45 :: digits n := by
    rw [List.dropWhile_cons]; simp
  simp only [h0]
  rw [hd, isInf_digits d ds hdig]; simp [hv]

/-! ### guarded buffer: nothing outside `buf[0 .. max)` changes -/

/-- the guard cells on both sides of the caller's buffer still hold the fill pattern -/
def Guard (max : Nat) (m : Mem) : Prop :=
  m.length = max + 2 * pad ∧ ∀ i, (i < pad ∨ pad + max ≤ i) → i < max + 2 * pad → m.getD i 0 = fill

theorem guard_init (max : Nat) : Guard max (Mem.init max) := by
  refine ⟨by simp [Mem.init], ?_⟩
  intro i _ hi
  simp [Mem.init, List.getD_eq_getElem?_getD, hi]

theorem guard_set {max : Nat} {m : Mem} (h : Guard max m) (i x : Nat)
    (h1 : pad ≤ i) (h2 : i < pad + max) : Guard max (m.set i x) := by
  refine ⟨by simp [h.1], ?_⟩
  intro j hj hj2
  have := h.2 j hj hj2
  have hne : i ≠ j := by omega
  simpa [List.getD_eq_getElem?_getD, List.getElem?_set_ne hne] using this

theorem guard_foldl {max : Nat} (f : Nat → Nat) (g : Mem → Nat → Nat) (n : Nat) (m : Mem)
    (hf : ∀ i < n, pad ≤ f i ∧ f i < pad + max) (h : Guard max m) :
    Guard max ((List.range n).foldl (fun m i => m.set (f i) (g m i)) m) := by
  induction n with
  | zero => simpa using h
  | succ n ih =>
    rw [List.range_succ, List.foldl_append]
    simp only [List.foldl_cons, List.foldl_nil]
    exact guard_set (ih (fun i hi => hf i (by omega))) _ _ (hf n (by omega)).1 (hf n (by omega)).2

theorem guard_shiftLeft {max : Nat} {m : Mem} (h : Guard max m) (dst n : Nat)
    (h1 : pad ≤ dst) (h2 : dst + n ≤ pad + max) : Guard max (shiftLeft m dst n) :=
  guard_foldl (fun i => dst + i) (fun m i => m.getD (dst + i + 1) 0) n m (fun i hi => by omega) h

theorem guard_revLoop {max : Nat} (m : Mem) (ptr p : Nat) (h : Guard max m)
    (h1 : pad ≤ ptr) (h2 : p ≤ pad + max) : Guard max (revLoop m ptr p) := by
  fun_induction revLoop m ptr p with
  | case1 m ptr p hp p' c m1 m2 ih =>
    apply ih
    · exact guard_set (guard_set h _ _ (by omega) (by omega)) _ _ (by omega) (by omega)
    · omega
    · omega
  | case2 m ptr p hp => exact h

theorem guard_digitLoop {max ptr : Nat} (v : Nat) (m : Mem) (ret p : Nat) (h : Guard max m)
    (h1 : pad ≤ ptr) (h2 : ptr ≤ p) (h3 : p ≤ pad + ret) (h4 : p + 1 ≤ pad + max) :
    Guard max (digitLoop max ptr v m ret p).1 ∧ ptr ≤ (digitLoop max ptr v m ret p).2.2 ∧
      (digitLoop max ptr v m ret p).2.2 + 1 ≤ pad + max := by
  induction v using Nat.strongRecOn generalizing m ret p with
  | _ v ih =>
    rw [digitLoop]
    split
    · exact ⟨h, h2, h4⟩
    · rename_i hv
      simp only
      split
      · exact ih (v / 10) (by omega) m (ret + 1) p h h2 (by omega) h4
      · rename_i hc
        by_cases hr : ret + 1 ≥ max
        · simp only [hr, if_true]
          have hp : p ≠ ptr := fun e => hc ⟨hr, e⟩
          have e : p - 1 + 1 = p := by omega
          rw [e]
          refine ih (v / 10) (by omega) _ (ret + 1) p ?_ h2 (by omega) h4
          exact guard_set (guard_shiftLeft h ptr (p - ptr) h1 (by omega)) _ _ (by omega) (by omega)
        · simp only [hr, if_false]
          refine ih (v / 10) (by omega) _ (ret + 1) (p + 1) ?_ (by omega) (by omega) (by omega)
          exact guard_set h _ _ (by omega) (by omega)

theorem oobWrites_of_guard {max : Nat} {m : Mem} (h : Guard max m) : oobWrites m max = [] := by
  unfold oobWrites
  rw [List.filter_eq_nil_iff]
  intro i hi
  simp only [List.mem_range] at hi
  have := h.2 i
  rw [h.1] at hi
  simp only [decide_eq_true_eq, not_and, Decidable.not_not, ne_eq, ge_iff_le]
  intro hc
  exact this hc hi

theorem guard_itoa (v : Int) (max : Nat) : Guard max (itoa v max).2 := by
  have g0 := guard_init max
  unfold itoa
  simp only
  split
  · exact g0
  · rename_i hmax
    split
    · split
      · exact guard_set g0 _ _ (by omega) (by omega)
      · exact guard_set (guard_set g0 _ _ (by omega) (by omega)) _ _ (by omega) (by omega)
    · split
      · split
        · exact g0
        · refine guard_set ?_ _ _ (by omega) (by omega)
          exact guard_foldl (fun i => pad + i) (fun _ i => minStr.getD i 0) _ _ (fun i hi => by omega) g0
      · split
        · exact guard_set g0 _ _ (by omega) (by omega)
        · rename_i hv0 _ hneg
          by_cases hn : v < 0
          · have hm : 2 ≤ max := by
              by_cases h1 : 1 ≥ max
              · exact absurd ⟨hn, h1⟩ hneg
              · omega
            simp only [hn, if_true]
            have g1 : Guard max ((Mem.init max).set pad 45) := guard_set g0 _ _ (by omega) (by omega)
            have := guard_digitLoop (max := max) (ptr := pad + 1) v.natAbs _ 1 (pad + 1) g1
              (by omega) (by omega) (by omega) (by omega)
            revert this
            generalize digitLoop max (pad + 1) v.natAbs _ 1 (pad + 1) = r
            obtain ⟨m', ret', p'⟩ := r
            intro this
            simp only at this ⊢
            refine guard_set (guard_revLoop _ _ _ this.1 (by omega) (by omega)) _ _ (by omega) (by omega)
          · simp only [hn, if_false]
            have := guard_digitLoop (max := max) (ptr := pad) v.natAbs _ 0 pad g0
              (by omega) (by omega) (by omega) (by omega)
            revert this
            generalize digitLoop max pad v.natAbs _ 0 pad = r
            obtain ⟨m', ret', p'⟩ := r
            intro this
            simp only at this ⊢
            refine guard_set (guard_revLoop _ _ _ this.1 (by omega) (by omega)) _ _ (by omega) (by omega)

end IwModel.Conv
