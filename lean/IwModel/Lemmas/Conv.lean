import IwModel.Model.Conv
/-! Helper lemmas about `iwitoa` / `iwatoi` / hex codecs. -/
namespace IwModel.Conv

/-! ### decimal digits -/

def isDig (c : Nat) : Prop := 48 ≤ c ∧ c ≤ 57

theorem digits_all (n : Nat) : ∀ c ∈ digits n, isDig c := by
  induction n using Nat.strongRecOn with
  | _ n ih =>
    rw [digits]; split
    · intro c hc; simp at hc; unfold isDig; omega
    · intro c hc
      simp only [List.mem_append, List.mem_singleton] at hc
      rcases hc with hc | rfl
      · exact ih (n / 10) (by omega) c hc
      · unfold isDig; omega

theorem digits_ne_nil (n : Nat) : digits n ≠ [] := by
  rw [digits]; split <;> simp

theorem digits_length_pos (n : Nat) : 0 < (digits n).length :=
  List.length_pos_iff.mpr (digits_ne_nil n)

theorem atoiDigits_append (l r : Bytes) (acc : Nat) (h : ∀ c ∈ l, isDig c) :
    atoiDigits (l ++ r) acc = atoiDigits r (atoiDigits l acc) := by
  induction l generalizing acc with
  | nil => simp [atoiDigits]
  | cons c cs ih =>
    have hc : 48 ≤ c ∧ c ≤ 57 := h c (by simp)
    simp only [List.cons_append, atoiDigits, hc, and_self, if_true]
    exact ih _ (fun x hx => h x (by simp [hx]))

theorem atoiDigits_digits (n : Nat) : atoiDigits (digits n) 0 = n := by
  induction n using Nat.strongRecOn with
  | _ n ih =>
    rw [digits]; split
    · simp [atoiDigits]; omega
    · rw [atoiDigits_append _ _ _ (digits_all _), ih (n / 10) (by omega)]
      have h1 : 48 ≤ 48 + n % 10 ∧ 48 + n % 10 ≤ 57 := by omega
      simp only [atoiDigits, h1, and_self, if_true]
      omega

theorem digits_head (n : Nat) : ∃ d ds, digits n = d :: ds ∧ isDig d := by
  have h := digits_all n
  cases hd : digits n with
  | nil => exact absurd hd (digits_ne_nil n)
  | cons d ds => exact ⟨d, ds, rfl, h d (by simp [hd])⟩

theorem isInf_digits (d : Nat) (ds : Bytes) (h : isDig d) : isInf (d :: ds) = false := by
  unfold isDig at h
  simp only [isInf, beq_eq_false_iff_ne, ne_eq, List.cons.injEq, not_and]
  intro h1; omega

theorem atoi_digits (n : Nat) : atoi (digits n) = n := by
  obtain ⟨d, ds, hd, hdig⟩ := digits_head n
  have hv := atoiDigits_digits n
  rw [hd] at hv
  have hdig' := hdig
  unfold isDig at hdig'
  unfold atoi
  rw [hd]
  have h0 : List.dropWhile (fun c => decide (0 < c ∧ c ≤ 32)) (d :: ds) = d :: ds := by
    rw [List.dropWhile_cons]; simp; omega
  simp only [h0]
  split
  · rename_i r heq; simp at heq; omega
  · rename_i r heq; simp at heq; omega
  · rename_i r _ _
    rw [isInf_digits d ds hdig]; simp [hv]

theorem atoi_neg_digits (n : Nat) : atoi (45 :: digits n) = -(n : Int) := by
  obtain ⟨d, ds, hd, hdig⟩ := digits_head n
  have hv := atoiDigits_digits n
  rw [hd] at hv
  unfold atoi
  have h0 : List.dropWhile (fun c => decide (0 < c ∧ c ≤ 32)) (45 :: digits n) = 45 :: digits n := by
    rw [List.dropWhile_cons]; simp
  simp only [h0]
  rw [hd, isInf_digits d ds hdig]; simp [hv]

end IwModel.Conv
