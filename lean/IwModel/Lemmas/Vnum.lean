import IwModel.Model.Vnum
/-! Helper lemmas about the vnum codec. -/
namespace IwModel.Vnum

theorem decAux_enc (n : Nat) (rest : Bytes) (base acc i : Nat) :
    decAux (enc n ++ rest) base acc i = some (acc + base * n, i + (enc n).length) := by
  induction n using Nat.strongRecOn generalizing base acc i with
  | _ n ih =>
    rw [enc]
    split
    · rename_i h
      simp [decAux, h]
    · rename_i h
      have h1 : ¬ (255 - n % 128 < 128) := by omega
      have h2 : 255 - (255 - n % 128) = n % 128 := by omega
      simp only [List.cons_append, decAux, h1, if_false, h2, List.length_cons]
      rw [ih (n / 128) (by omega)]
      congr 1
      have : n = 128 * (n / 128) + n % 128 := (Nat.div_add_mod n 128).symm
      have e : base * 128 * (n / 128) = base * (128 * (n / 128)) := by rw [Nat.mul_assoc]
      refine Prod.ext ?_ ?_
      · simp only; rw [e, Nat.add_assoc, ← Nat.mul_add, Nat.add_comm (n % 128)]; rw [← this]
      · simp only; omega

theorem enc_wf (n : Nat) : ∀ b ∈ enc n, b < 256 := by
  induction n using Nat.strongRecOn with
  | _ n ih =>
    rw [enc]; split
    · intro b hb; simp at hb; omega
    · intro b hb
      simp only [List.mem_cons] at hb
      rcases hb with rfl | hb
      · omega
      · exact ih (n / 128) (by omega) b hb

theorem enc_length_pos (n : Nat) : 0 < (enc n).length := by
  rw [enc]; split <;> simp

/-- the encoding of `n` has exactly `k+1` bytes iff `128^k ≤ n < 128^(k+1)` (upper half) -/
theorem enc_length_le (k n : Nat) (h : n < 128 ^ (k + 1)) : (enc n).length ≤ k + 1 := by
  induction k generalizing n with
  | zero => rw [enc]; simp at h; simp [h]
  | succ k ih =>
    rw [enc]; split
    · simp
    · have : n / 128 < 128 ^ (k + 1) := by
        rw [Nat.div_lt_iff_lt_mul (by decide)]
        calc n < 128 ^ (k + 1 + 1) := h
          _ = 128 ^ (k + 1) * 128 := by rw [Nat.pow_succ]
      have := ih (n / 128) this
      simp; omega

theorem enc_length_ge (k n : Nat) (h : 128 ^ k ≤ n) : k + 1 ≤ (enc n).length := by
  induction k generalizing n with
  | zero => have := enc_length_pos n; omega
  | succ k ih =>
    rw [enc]; split
    · rename_i h1
      have : 128 ≤ 128 ^ (k + 1) := by
        calc 128 = 128 ^ 1 := by simp
          _ ≤ 128 ^ (k + 1) := Nat.pow_le_pow_right (by decide) (by omega)
      omega
    · have : 128 ^ k ≤ n / 128 := by
        rw [Nat.le_div_iff_mul_le (by decide)]
        calc 128 ^ k * 128 = 128 ^ (k + 1) := by rw [Nat.pow_succ]
          _ ≤ n := h
      have := ih (n / 128) this
      simp; omega

end IwModel.Vnum
