import IwModel.Model.Cmp
import IwModel.Lemmas.Vnum
/-! Helper lemmas about the key comparators. -/
namespace IwModel.Cmp

/-! ### `tieBreak` = lexicographic byte order with the length as tie-break (`memcmp` + length) -/

@[simp] theorem tieBreak_nil_nil : tieBreak [] [] = 0 := by simp [tieBreak, cmp2]
@[simp] theorem tieBreak_nil_cons (b : Nat) (bs : Bytes) :
    tieBreak [] (b :: bs) = -((bs.length : Int) + 1) := by simp [tieBreak, cmp2]
@[simp] theorem tieBreak_cons_nil (a : Nat) (as : Bytes) :
    tieBreak (a :: as) [] = (as.length : Int) + 1 := by simp [tieBreak, cmp2]
theorem tieBreak_cons_cons (a b : Nat) (as bs : Bytes) :
    tieBreak (a :: as) (b :: bs) = if a = b then tieBreak as bs else (a : Int) - (b : Int) := by
  by_cases h : a = b
  · simp only [tieBreak, cmp2, h, if_true, List.length_cons]
    split <;> simp <;> omega
  · have : (a : Int) - (b : Int) ≠ 0 := by omega
    simp [tieBreak, cmp2, h, this]

theorem tieBreak_self (a : Bytes) : tieBreak a a = 0 := by
  induction a with
  | nil => simp
  | cons x xs ih => simp [tieBreak_cons_cons, ih]

theorem tieBreak_eq_zero {a b : Bytes} (h : tieBreak a b = 0) : a = b := by
  induction a generalizing b with
  | nil => cases b with
    | nil => rfl
    | cons y ys => simp at h; omega
  | cons x xs ih => cases b with
    | nil => simp at h; omega
    | cons y ys =>
      rw [tieBreak_cons_cons] at h
      split at h
      · rename_i e; rw [e, ih h]
      · omega

theorem tieBreak_neg (a b : Bytes) :
    (tieBreak a b < 0 ↔ tieBreak b a > 0) ∧ (tieBreak a b = 0 ↔ tieBreak b a = 0) := by
  induction a generalizing b with
  | nil => cases b with
    | nil => simp
    | cons y ys => simp <;> omega
  | cons x xs ih => cases b with
    | nil => simp <;> omega
    | cons y ys =>
      rw [tieBreak_cons_cons, tieBreak_cons_cons]
      by_cases e : x = y
      · subst e; simpa using ih ys
      · have e' : ¬ y = x := fun h => e h.symm
        simp only [e, e', if_false]; omega

theorem tieBreak_antisymm (a b : Bytes) : sgn (tieBreak a b) = - sgn (tieBreak b a) := by
  have := tieBreak_neg a b
  unfold sgn
  repeat' split
  all_goals omega

theorem tieBreak_trans {a b d : Bytes} (h1 : tieBreak a b > 0) (h2 : tieBreak b d > 0) :
    tieBreak a d > 0 := by
  induction a generalizing b d with
  | nil => cases b with
    | nil => simp at h1
    | cons y ys => simp at h1; omega
  | cons x xs ih => cases b with
    | nil => cases d with
      | nil => simp at h2
      | cons z zs => simp at h2; omega
    | cons y ys => cases d with
      | nil => simp <;> omega
      | cons z zs =>
        rw [tieBreak_cons_cons] at h1 h2 ⊢
        by_cases e1 : x = y
        · by_cases e2 : y = z
          · subst e1; subst e2
            simp only [if_true] at h1 h2 ⊢
            exact ih h1 h2
          · have : ¬ x = z := by omega
            simp only [e1, e2, if_false] at h1 h2 ⊢; omega
        · by_cases e2 : y = z
          · have : ¬ x = z := by omega
            simp only [e2, this, if_false] at h1 h2 ⊢; omega
          · simp only [e1, e2, if_false] at h1 h2
            have : ¬ x = z := by omega
            simp only [this, if_false]; omega

/-! ### `cmp3`: reversed numeric order -/

theorem cmp3_nat (a b : Nat) :
    cmp3 (a : Int) (b : Int) = if b > a then 1 else if b < a then -1 else 0 := by
  unfold cmp3; repeat' split
  all_goals omega

/-! ### plain mode as a lexicographic product -/

theorem cmpKeys_plain_nc (v1 k : Bytes) (c2 : Nat) : cmpKeys .plain false v1 k c2 = tieBreak k v1 := by
  simp [cmpKeys, cmpPrefix, tieBreak]

theorem dec_stored (k : Bytes) (c : Nat) :
    Vnum.dec (Vnum.enc c ++ k) = some (c, (Vnum.enc c).length) := by
  simp [Vnum.dec, Vnum.decAux_enc]

theorem cmpKeys_plain_c (k1 : Bytes) (c1 : Nat) (k : Bytes) (c2 : Nat) :
    cmpKeys .plain true (stored true k1 c1) k c2
      = if tieBreak k k1 = 0 then cmp3 (c1 : Int) (c2 : Int) else tieBreak k k1 := by
  have hl : ((Vnum.enc c1 ++ k1).length : Int) - ((Vnum.enc c1).length : Int) = (k1.length : Int) := by
    simp; omega
  simp only [cmpKeys, cmpPrefix, stored, if_true, dec_stored, hl, List.drop_left, and_true]
  unfold tieBreak
  cases k1 with
  | nil =>
    have : cmp2 k [] = 0 := by cases k <;> simp [cmp2]
    simp only [this, if_true]
    cases k with
    | nil => simp
    | cons z zs => simp; omega
  | cons y ys =>
    have : ¬ (((y :: ys).length : Int) < 1) := by simp; omega
    simp only [this, if_false]
    by_cases hc : cmp2 k (y :: ys) = 0
    · simp only [hc, if_true]
      split <;> split <;> first | rfl | omega
    · simp [hc]

/-- comparison of two effective keys `(body, compound part)`: `a` as stored in a node, `b` as lookup
    key, through `_cmp_keys` in plain (byte string) mode. `> 0` iff `b` sorts after `a`. -/
def cmpK (compound : Bool) (a b : Bytes × Nat) : Int :=
  cmpKeys .plain compound (stored compound a.1 a.2) b.1 b.2

theorem cmpK_false (a b : Bytes × Nat) : cmpK false a b = tieBreak b.1 a.1 := by
  simp [cmpK, stored, cmpKeys_plain_nc]

theorem cmpK_true (a b : Bytes × Nat) :
    cmpK true a b = if tieBreak b.1 a.1 = 0 then cmp3 (a.2 : Int) (b.2 : Int) else tieBreak b.1 a.1 := by
  simp only [cmpK]; exact cmpKeys_plain_c a.1 a.2 b.1 b.2

theorem cmpK_antisymm (c : Bool) (a b : Bytes × Nat) : sgn (cmpK c a b) = - sgn (cmpK c b a) := by
  cases c with
  | false => rw [cmpK_false, cmpK_false]; exact tieBreak_antisymm _ _
  | true =>
    rw [cmpK_true, cmpK_true, cmp3_nat, cmp3_nat]
    have := tieBreak_neg b.1 a.1
    have := tieBreak_neg a.1 b.1
    unfold sgn
    repeat' split
    all_goals omega

theorem cmpK_true_eq_zero (a b : Bytes × Nat) : cmpK true a b = 0 ↔ a = b := by
  rw [cmpK_true, cmp3_nat]
  constructor
  · intro h
    by_cases ht : tieBreak b.1 a.1 = 0
    · simp only [ht, if_true] at h
      have h1 := tieBreak_eq_zero ht
      have h2 : a.2 = b.2 := by
        repeat' split at h
        all_goals omega
      exact Prod.ext h1.symm h2
    · simp only [ht, if_false] at h
  · rintro rfl
    simp [tieBreak_self]

theorem cmpK_trans (c : Bool) (a b d : Bytes × Nat) (h1 : cmpK c a b > 0) (h2 : cmpK c b d > 0) :
    cmpK c a d > 0 := by
  cases c with
  | false => rw [cmpK_false] at *; exact tieBreak_trans h2 h1
  | true =>
    rw [cmpK_true, cmp3_nat] at *
    by_cases t1 : tieBreak b.1 a.1 = 0
    · have e := tieBreak_eq_zero t1
      rw [← e]
      by_cases t2 : tieBreak d.1 b.1 = 0
      · simp only [t1, t2, if_true] at h1 h2 ⊢
        repeat' split at h1
        all_goals repeat' split at h2
        all_goals repeat' split
        all_goals omega
      · simp only [t2, if_false] at h2 ⊢; exact h2
    · simp only [t1, if_false] at h1
      by_cases t2 : tieBreak d.1 b.1 = 0
      · have e := tieBreak_eq_zero t2
        rw [e, if_neg t1]; exact h1
      · simp only [t2, if_false] at h2
        have := tieBreak_trans h2 h1
        rw [if_neg (by omega)]; exact this

/-! ### vnum (integer key) mode -/

theorem enc_length_mono {a b : Nat} (h : a ≤ b) : (Vnum.enc a).length ≤ (Vnum.enc b).length := by
  induction a using Nat.strongRecOn generalizing b with
  | _ a ih =>
    rw [Vnum.enc]
    split
    · have := Vnum.enc_length_pos b; simp; omega
    · rename_i ha
      have eb : Vnum.enc b = (255 - b % 128) :: Vnum.enc (b / 128) := by rw [Vnum.enc, dif_neg (by omega)]
      rw [eb]
      simp only [List.length_cons]
      have := ih (a / 128) (by omega) (b := b / 128) (Nat.div_le_div_right h)
      omega

theorem enc_length_le10 {a : Nat} (h : a < 2 ^ 63) : (Vnum.enc a).length ≤ Gen.IW_VNUMBUFSZ := by
  have := Vnum.enc_length_le 9 a (by
    have : (2 : Nat) ^ 63 ≤ 128 ^ (9 + 1) := by decide
    omega)
  simpa [Gen.IW_VNUMBUFSZ] using this

theorem decBody_enc (a : Nat) : decBody (Vnum.enc a) = a := by
  have := dec_stored [] a
  rw [List.append_nil] at this
  simp [decBody, this]

theorem cmpVnumBody_enc {a b : Nat} (ha : a < 2 ^ 63) (hb : b < 2 ^ 63) :
    cmpVnumBody (Vnum.enc a) (Vnum.enc b)
      = if (Vnum.enc b).length = (Vnum.enc a).length then some (cmp3 (a : Int) (b : Int)) else none := by
  have la := enc_length_le10 ha
  have lb := enc_length_le10 hb
  unfold cmpVnumBody
  by_cases hl : (Vnum.enc b).length = (Vnum.enc a).length
  · rw [if_neg (by omega), if_pos hl, decBody_enc, decBody_enc]
  · rw [if_pos (Or.inl hl), if_neg hl]

/-- sign of the length short-cut: a longer encoding means a larger number -/
theorem enc_length_sign {a b : Nat} (hl : ¬ (Vnum.enc b).length = (Vnum.enc a).length) :
    sgn (((Vnum.enc b).length : Int) - ((Vnum.enc a).length : Int)) = (if b > a then 1 else -1) ∧ a ≠ b := by
  have m1 : a ≤ b → (Vnum.enc a).length ≤ (Vnum.enc b).length := enc_length_mono
  have m2 : b ≤ a → (Vnum.enc b).length ≤ (Vnum.enc a).length := enc_length_mono
  refine ⟨?_, fun e => hl (by rw [e])⟩
  unfold sgn
  repeat' split
  all_goals omega

theorem sgn_cmp3 (a b : Nat) : sgn (cmp3 (a : Int) (b : Int)) = if b > a then 1 else if b < a then -1 else 0 := by
  rw [cmp3_nat]; unfold sgn
  repeat' split
  all_goals omega

theorem cmpKeys_vnum_nc {a b : Nat} (c2 : Nat) (ha : a < 2 ^ 63) (hb : b < 2 ^ 63) :
    sgn (cmpKeys .vnum false (Vnum.enc a) (Vnum.enc b) c2) = if b > a then 1 else if b < a then -1 else 0 := by
  simp only [cmpKeys, cmpPrefix, reduceCtorEq, and_false, if_false, Bool.false_eq_true,
    cmpVnumBody_enc ha hb]
  by_cases hl : (Vnum.enc b).length = (Vnum.enc a).length
  · simp only [hl, if_true]; exact sgn_cmp3 a b
  · simp only [hl, if_false]
    have := enc_length_sign hl
    rw [this.1]
    repeat' split
    all_goals omega

theorem cmpKeys_vnum_c {a b : Nat} (c1 c2 : Nat) (ha : a < 2 ^ 63) (hb : b < 2 ^ 63) :
    sgn (cmpKeys .vnum true (stored true (Vnum.enc a) c1) (Vnum.enc b) c2)
      = if b > a then 1 else if b < a then -1 else if c2 > c1 then 1 else if c2 < c1 then -1 else 0 := by
  have hl : ((Vnum.enc c1 ++ Vnum.enc a).length : Int) - ((Vnum.enc c1).length : Int)
      = ((Vnum.enc a).length : Int) := by simp; omega
  have hp : ¬ (((Vnum.enc a).length : Int) < 1) := by have := Vnum.enc_length_pos a; omega
  simp only [cmpKeys, cmpPrefix, stored, if_true, dec_stored, hl, List.drop_left, hp, if_false,
    reduceCtorEq, and_false, cmpVnumBody_enc ha hb]
  by_cases hl : (Vnum.enc b).length = (Vnum.enc a).length
  · simp only [hl, if_true]
    by_cases hr : cmp3 (a : Int) (b : Int) = 0
    · have : ¬ b > a ∧ ¬ b < a := by
        rw [cmp3_nat] at hr
        repeat' split at hr
        all_goals omega
      simp only [hr, if_true, this.1, this.2, if_false]
      exact sgn_cmp3 c1 c2
    · simp only [hr, if_false]
      rw [sgn_cmp3]
      rw [cmp3_nat] at hr
      repeat' split
      all_goals omega
  · simp only [hl, if_false]
    have := enc_length_sign hl
    rw [this.1]
    repeat' split
    all_goals omega

/-- comparison of two effective integer keys `(number, compound part)` through `_cmp_keys` in
    vnum mode; the number is stored in its vnum encoding (`_to_effective_key`). -/
def cmpV (compound : Bool) (x y : Nat × Nat) : Int :=
  cmpKeys .vnum compound (stored compound (Vnum.enc x.1) x.2) (Vnum.enc y.1) y.2

theorem sgn_pos {i : Int} : sgn i = 1 ↔ i > 0 := by
  unfold sgn; repeat' split
  all_goals omega

theorem sgn_zero {i : Int} : sgn i = 0 ↔ i = 0 := by
  unfold sgn; repeat' split
  all_goals omega

/-! ### real-number keys: `iwafcmp` with the fraction value abstracted -/

/-- what the comparator needs of the fraction order: a strict weak order (every strict linear
    order is one; `lt` on the long doubles the C code accumulates is one, whatever the rounding). -/
structure StrictWeak {α : Type} (lt : α → α → Bool) : Prop where
  irrefl : ∀ x, lt x x = false
  trans : ∀ x y z, lt x y = true → lt y z = true → lt x z = true
  negtrans : ∀ x y z, lt x z = true → lt x y = true ∨ lt y z = true

/-- a strict linear order (irreflexive, transitive, trichotomous) is a strict weak order -/
theorem StrictWeak.of_linear {α : Type} (lt : α → α → Bool) (irrefl : ∀ x, lt x x = false)
    (trans : ∀ x y z, lt x y = true → lt y z = true → lt x z = true)
    (tri : ∀ x y, lt x y = true ∨ x = y ∨ lt y x = true) : StrictWeak lt := by
  refine ⟨irrefl, trans, ?_⟩
  intro x y z hxz
  rcases tri x y with h | h | h
  · exact Or.inl h
  · subst h; exact Or.inr hxz
  · exact Or.inr (trans _ _ _ h hxz)

/-- signed integer part seen by `iwafcmp` -/
def afI (a : Bytes) : Int := (intPart a).1 * ((intPart a).2.1 : Int)

/-- fraction value seen by `iwafcmp` -/
def afF {α : Type} (zero : α) (frac : Int → List Nat → α) (a : Bytes) : α :=
  if hasFrac (intPart a).2.2 then frac (intPart a).1 (fracDigits (intPart a).2.2) else zero

/-- `iwafcmp` is the lexicographic product of: integer part, fraction value, bytes -/
theorem afcmpWith_eq {α : Type} (lt : α → α → Bool) (zero : α) (frac : Int → List Nat → α)
    (hirr : ∀ x, lt x x = false) (a b : Bytes) :
    afcmpWith lt zero frac a b =
      if afI a < afI b then -1 else if afI a > afI b then 1
      else if lt (afF zero frac a) (afF zero frac b) = true then -1
      else if lt (afF zero frac b) (afF zero frac a) = true then 1 else tieBreak a b := by
  unfold afcmpWith afI afF
  generalize intPart a = x
  generalize intPart b = y
  obtain ⟨sa, na, ra⟩ := x
  obtain ⟨sb, nb, rb⟩ := y
  simp only
  cases hasFrac ra <;> cases hasFrac rb <;> simp [hirr]

theorem afcmpWith_neg_iff {α : Type} (lt : α → α → Bool) (zero : α) (frac : Int → List Nat → α)
    (hirr : ∀ x, lt x x = false) (a b : Bytes) :
    afcmpWith lt zero frac a b < 0 ↔
      afI a < afI b ∨ (afI a = afI b ∧ (lt (afF zero frac a) (afF zero frac b) = true ∨
        (lt (afF zero frac a) (afF zero frac b) = false ∧ lt (afF zero frac b) (afF zero frac a) = false
          ∧ tieBreak a b < 0))) := by
  rw [afcmpWith_eq lt zero frac hirr]
  cases h1 : lt (afF zero frac a) (afF zero frac b) <;> cases h2 : lt (afF zero frac b) (afF zero frac a)
  all_goals simp
  all_goals repeat' split
  all_goals omega

theorem afcmpWith_antisymm {α : Type} (lt : α → α → Bool) (zero : α) (frac : Int → List Nat → α)
    (h : StrictWeak lt) (a b : Bytes) :
    sgn (afcmpWith lt zero frac a b) = - sgn (afcmpWith lt zero frac b a) := by
  rw [afcmpWith_eq lt zero frac h.irrefl, afcmpWith_eq lt zero frac h.irrefl]
  have hasym : lt (afF zero frac a) (afF zero frac b) = true → lt (afF zero frac b) (afF zero frac a) = true → False := by
    intro h1 h2
    have := h.trans _ _ _ h1 h2
    rw [h.irrefl] at this; cases this
  have ht := tieBreak_antisymm a b
  cases h1 : lt (afF zero frac a) (afF zero frac b) <;> cases h2 : lt (afF zero frac b) (afF zero frac a)
  · simp only [Bool.false_eq_true, if_false]
    by_cases c1 : afI a < afI b
    · have : ¬ afI b < afI a := by omega
      have : afI b > afI a := by omega
      simp [*, sgn]
    · by_cases c2 : afI a > afI b
      · have : afI b < afI a := by omega
        simp [*, sgn]
      · have : ¬ afI b < afI a := by omega
        have : ¬ afI b > afI a := by omega
        simp only [if_false, *]
  · simp only [Bool.false_eq_true, if_false, if_true]
    unfold sgn
    repeat' split
    all_goals omega
  · simp only [Bool.false_eq_true, if_false, if_true]
    unfold sgn
    repeat' split
    all_goals omega
  · exact absurd h2 (fun h2 => hasym h1 h2)

theorem afcmpWith_eq_zero {α : Type} (lt : α → α → Bool) (zero : α) (frac : Int → List Nat → α)
    (h : StrictWeak lt) (a b : Bytes) : afcmpWith lt zero frac a b = 0 ↔ a = b := by
  rw [afcmpWith_eq lt zero frac h.irrefl]
  constructor
  · intro h0
    repeat' split at h0
    all_goals first | omega | exact tieBreak_eq_zero h0
  · rintro rfl
    simp [h.irrefl, tieBreak_self]

theorem afcmpWith_trans {α : Type} (lt : α → α → Bool) (zero : α) (frac : Int → List Nat → α)
    (h : StrictWeak lt) (a b c : Bytes)
    (h1 : afcmpWith lt zero frac a b < 0) (h2 : afcmpWith lt zero frac b c < 0) :
    afcmpWith lt zero frac a c < 0 := by
  rw [afcmpWith_neg_iff lt zero frac h.irrefl] at *
  rcases h1 with h1 | ⟨e1, h1⟩
  · rcases h2 with h2 | ⟨e2, h2⟩
    · exact Or.inl (by omega)
    · exact Or.inl (by omega)
  · rcases h2 with h2 | ⟨e2, h2⟩
    · exact Or.inl (by omega)
    · refine Or.inr ⟨by omega, ?_⟩
      generalize afF zero frac a = fa at *
      generalize afF zero frac b = fb at *
      generalize afF zero frac c = fc at *
      rcases h1 with h1 | ⟨n1, n1', t1⟩
      · rcases h2 with h2 | ⟨n2, n2', t2⟩
        · exact Or.inl (h.trans _ _ _ h1 h2)
        · rcases h.negtrans fa fc fb h1 with h3 | h3
          · exact Or.inl h3
          · rw [n2'] at h3; cases h3
      · rcases h2 with h2 | ⟨n2, n2', t2⟩
        · rcases h.negtrans fb fa fc h2 with h3 | h3
          · rw [n1'] at h3; cases h3
          · exact Or.inl h3
        · refine Or.inr ⟨?_, ?_, ?_⟩
          · cases h3 : lt fa fc
            · rfl
            · rcases h.negtrans fa fb fc h3 with h4 | h4
              · rw [n1] at h4; cases h4
              · rw [n2] at h4; cases h4
          · cases h3 : lt fc fa
            · rfl
            · rcases h.negtrans fc fb fa h3 with h4 | h4
              · rw [n2'] at h4; cases h4
              · rw [n1'] at h4; cases h4
          · have a1 := (tieBreak_neg a b).1.mp t1
            have a2 := (tieBreak_neg b c).1.mp t2
            have a3 := tieBreak_trans a2 a1
            exact (tieBreak_neg a c).1.mpr a3

/-! ### comparison through the cached key prefix (`_lx_sblk_cmp_key`) -/

theorem cmp2_take_of_le (k v : Bytes) (n : Nat) (h : k.length ≤ n) : cmp2 k (v.take n) = cmp2 k v := by
  induction k generalizing v n with
  | nil => simp [cmp2]
  | cons x xs ih =>
    cases v with
    | nil => simp
    | cons y ys =>
      cases n with
      | zero => simp at h
      | succ n =>
        simp only [List.take_succ_cons, cmp2]
        rw [ih ys n (by simpa using h)]

theorem cmp2_take_ne (k v : Bytes) (n : Nat) (h : cmp2 k (v.take n) ≠ 0) : cmp2 k v = cmp2 k (v.take n) := by
  induction k generalizing v n with
  | nil => simp [cmp2]
  | cons x xs ih =>
    cases v with
    | nil => simp
    | cons y ys =>
      cases n with
      | zero => simp [cmp2] at h
      | succ n =>
        simp only [List.take_succ_cons, cmp2] at h ⊢
        split
        · rename_i e; simp only [e, if_true] at h; exact ih ys n h
        · rfl

/-- a lookup key shorter than the cached prefix: decided within the prefix, or both negative -/
theorem tieBreak_take_short (k v : Bytes) (n : Nat) (h1 : k.length < n) (h2 : n ≤ v.length) :
    (tieBreak k (v.take n) = tieBreak k v ∧ tieBreak k v ≠ 0) ∨ (tieBreak k (v.take n) < 0 ∧ tieBreak k v < 0) := by
  have e := cmp2_take_of_le k v n (by omega)
  have hl : (v.take n).length = n := by simp; omega
  unfold tieBreak
  simp only [e, hl]
  by_cases hc : cmp2 k v = 0
  · simp only [hc, if_true]; right; omega
  · simp only [hc, if_false]; left; exact ⟨trivial, hc⟩

theorem sgn_neg {i : Int} (h : i < 0) : sgn i = -1 := by unfold sgn; simp [h]

/-- `_lx_sblk_cmp_key`, plain layout: same sign as the full-key comparison — for every cache length -/
theorem lxCmp_plain_nc (full k : Bytes) (c2 : Nat) :
    sgn (lxCmp .plain false full k c2) = sgn (cmpKeys .plain false full k c2) := by
  unfold lxCmp
  simp only [Bool.false_eq_true, if_false, Nat.add_zero, ne_eq, not_true_eq_false, or_false, decide_eq_true_eq]
  by_cases hf : full.length ≤ Gen.PREFIX_KEY_LEN_V2
  · simp only [hf, true_or, if_true, List.take_of_length_le hf]
  · have hl : (full.take Gen.PREFIX_KEY_LEN_V2).length = Gen.PREFIX_KEY_LEN_V2 := by simp; omega
    simp only [hf, false_or, hl]
    by_cases hk : k.length < Gen.PREFIX_KEY_LEN_V2
    · simp only [hk, if_true, cmpKeys_plain_nc]
      rcases tieBreak_take_short k full _ hk (by omega) with ⟨h1, _⟩ | ⟨h1, h2⟩
      · rw [h1]
      · rw [sgn_neg h1, sgn_neg h2]
    · simp only [hk, if_false]
      have hp : cmpPrefix .plain false (full.take Gen.PREFIX_KEY_LEN_V2) k c2
          = cmp2 k (full.take Gen.PREFIX_KEY_LEN_V2) := by simp [cmpPrefix]
      rw [hp]
      by_cases hr : cmp2 k (full.take Gen.PREFIX_KEY_LEN_V2) = 0
      · simp only [hr, if_true]
      · simp only [hr, if_false]
        rw [cmpKeys_plain_nc, tieBreak, cmp2_take_ne k full _ hr]
        simp only [hr, if_false]

theorem cmpPrefix_plain_c (b1 : Bytes) (c1 : Nat) (k : Bytes) (c2 : Nat) (h : 1 ≤ b1.length) :
    cmpPrefix .plain true (stored true b1 c1) k c2 = cmp2 k b1 := by
  have hl : ((Vnum.enc c1 ++ b1).length : Int) - ((Vnum.enc c1).length : Int) = (b1.length : Int) := by
    simp; omega
  have : ¬ ((b1.length : Int) < 1) := by omega
  simp only [cmpPrefix, stored, if_true, dec_stored, hl, List.drop_left, this, if_false]

theorem take_stored (body : Bytes) (c1 n : Nat) (h : (Vnum.enc c1).length ≤ n) :
    (stored true body c1).take n = stored true (body.take (n - (Vnum.enc c1).length)) c1 := by
  simp only [stored, if_true, List.take_append, List.take_of_length_le h]

theorem lkStep_stored (b1 : Bytes) (c1 : Nat) : lkStep (stored true b1 c1) = (Vnum.enc c1).length := by
  simp [lkStep, stored, dec_stored]

/-- `_lx_sblk_cmp_key`, compound layout (fixed code: `ksize` counts the STORED compound vnum):
    same sign as the full-key comparison for every stored key, lookup key and compound parts;
    `hL`: the compound vnum (≤ 10 bytes) fits the cache. -/
theorem lxCmp_plain_c (body : Bytes) (c1 : Nat) (k : Bytes) (c2 : Nat)
    (hL : (Vnum.enc c1).length < Gen.PREFIX_KEY_LEN_V2) :
    sgn (lxCmp .plain true (stored true body c1) k c2)
      = sgn (cmpKeys .plain true (stored true body c1) k c2) := by
  unfold lxCmp
  simp only [if_true, ne_eq, not_true_eq_false, or_false, decide_eq_true_eq]
  rw [take_stored body c1 _ (by omega), lkStep_stored]
  generalize hP : Gen.PREFIX_KEY_LEN_V2 = P at *
  generalize hLL : (Vnum.enc c1).length = L at *
  have hfl : (stored true body c1).length = L + body.length := by simp [stored, hLL]
  by_cases hf : (stored true body c1).length ≤ P
  · have : body.take (P - L) = body := List.take_of_length_le (by omega)
    simp only [hf, true_or, if_true, this]
  · have hb : (body.take (P - L)).length = P - L := by simp; omega
    have hl : (stored true (body.take (P - L)) c1).length = P := by simp [stored, hLL, hb]; omega
    simp only [hf, false_or, hl]
    by_cases hk : k.length + L < P
    · simp only [hk, if_true, cmpKeys_plain_c]
      rcases tieBreak_take_short k body (P - L) (by omega) (by omega) with ⟨h1, h2⟩ | ⟨h1, h2⟩
      · rw [h1]
      · rw [if_neg (by omega), if_neg (by omega), sgn_neg h1, sgn_neg h2]
    · simp only [hk, if_false]
      rw [cmpPrefix_plain_c _ c1 k c2 (by omega)]
      by_cases hr : cmp2 k (body.take (P - L)) = 0
      · simp only [hr, if_true]
      · simp only [hr, if_false]
        rw [cmpKeys_plain_c, tieBreak, cmp2_take_ne k body _ hr]
        simp only [hr, if_false]

/-! ### real-number keys through `_cmp_keys`, both layouts -/

theorem sgn_flip {i j : Int} (h : sgn i = - sgn j) : (i < 0 ↔ j > 0) ∧ (i = 0 ↔ j = 0) ∧ (i > 0 ↔ j < 0) := by
  unfold sgn at h
  repeat' split at h
  all_goals omega

theorem strictWeak_int : StrictWeak (fun (x y : Int) => decide (x < y)) :=
  StrictWeak.of_linear _ (by simp) (by simp only [decide_eq_true_eq]; omega)
    (by simp only [decide_eq_true_eq]; omega)

theorem afcmp_antisymm (a b : Bytes) : sgn (afcmp a b) = - sgn (afcmp b a) :=
  afcmpWith_antisymm _ _ _ strictWeak_int a b

theorem afcmp_eq_zero (a b : Bytes) : afcmp a b = 0 ↔ a = b := afcmpWith_eq_zero _ _ _ strictWeak_int a b

theorem afcmp_trans (a b c : Bytes) (h1 : afcmp a b < 0) (h2 : afcmp b c < 0) : afcmp a c < 0 :=
  afcmpWith_trans _ _ _ strictWeak_int a b c h1 h2

/-- comparison of two effective real-number keys `(text, compound part)` through `_cmp_keys` -/
def cmpR (compound : Bool) (a b : Bytes × Nat) : Int :=
  cmpKeys .real compound (stored compound a.1 a.2) b.1 b.2

theorem cmpR_false (a b : Bytes × Nat) : cmpR false a b = afcmp b.1 a.1 := by
  simp [cmpR, stored, cmpKeys, cmpPrefix]

theorem cmpR_true (a b : Bytes × Nat) (ha : a.1 ≠ []) :
    cmpR true a b = if afcmp b.1 a.1 = 0 then cmp3 (a.2 : Int) (b.2 : Int) else afcmp b.1 a.1 := by
  have hl : ((Vnum.enc a.2 ++ a.1).length : Int) - ((Vnum.enc a.2).length : Int) = (a.1.length : Int) := by
    simp; omega
  have hp : ¬ ((a.1.length : Int) < 1) := by
    have := List.length_pos_iff.mpr ha; omega
  simp only [cmpR, cmpKeys, cmpPrefix, stored, if_true, dec_stored, hl, List.drop_left, hp, if_false,
    reduceCtorEq, and_false]

theorem cmpR_total (c : Bool) (x y z : Bytes × Nat) (hx : x.1 ≠ []) (hy : y.1 ≠ []) :
    sgn (cmpR c x y) = - sgn (cmpR c y x) ∧
    (cmpR c x y = 0 ↔ x.1 = y.1 ∧ (c = true → x.2 = y.2)) ∧
    (cmpR c x y > 0 → cmpR c y z > 0 → cmpR c x z > 0) := by
  have a1 := sgn_flip (afcmp_antisymm y.1 x.1)
  have a2 := sgn_flip (afcmp_antisymm z.1 y.1)
  have a3 := sgn_flip (afcmp_antisymm z.1 x.1)
  have tr := afcmp_trans x.1 y.1 z.1
  cases c with
  | false =>
    rw [cmpR_false, cmpR_false, cmpR_false, cmpR_false]
    refine ⟨afcmp_antisymm _ _, ?_, ?_⟩
    · rw [afcmp_eq_zero]; simp; exact eq_comm
    · intro h1 h2; exact a3.2.2.mpr (tr (a1.2.2.mp h1) (a2.2.2.mp h2))
  | true =>
    rw [cmpR_true x y hx, cmpR_true y x hy, cmpR_true y z hy, cmpR_true x z hx, cmp3_nat, cmp3_nat,
      cmp3_nat, cmp3_nat]
    refine ⟨?_, ?_, ?_⟩
    · by_cases h0 : afcmp y.1 x.1 = 0
      · have h0' := a1.2.1.mp h0
        simp only [h0, h0', if_true]
        unfold sgn; repeat' split
        all_goals omega
      · have h0' : ¬ afcmp x.1 y.1 = 0 := fun h => h0 (a1.2.1.mpr h)
        simp only [h0, h0', if_false]
        exact afcmp_antisymm _ _
    · simp only [true_implies]
      constructor
      · intro h
        by_cases h0 : afcmp y.1 x.1 = 0
        · simp only [h0, if_true] at h
          refine ⟨((afcmp_eq_zero _ _).mp h0).symm, ?_⟩
          repeat' split at h
          all_goals omega
        · simp only [h0, if_false] at h
      · rintro ⟨e1, e2⟩
        have : afcmp y.1 x.1 = 0 := (afcmp_eq_zero _ _).mpr e1.symm
        simp [this, e2]
    · intro h1 h2
      by_cases t1 : afcmp y.1 x.1 = 0
      · have e := (afcmp_eq_zero _ _).mp t1
        rw [← e]
        by_cases t2 : afcmp z.1 y.1 = 0
        · simp only [t1, t2, if_true] at h1 h2 ⊢
          repeat' split at h1
          all_goals repeat' split at h2
          all_goals repeat' split
          all_goals omega
        · simp only [t2, if_false] at h2 ⊢; exact h2
      · simp only [t1, if_false] at h1
        by_cases t2 : afcmp z.1 y.1 = 0
        · have e := (afcmp_eq_zero _ _).mp t2
          rw [e, if_neg t1]; exact h1
        · simp only [t2, if_false] at h2
          have := a3.2.2.mpr (tr (a1.2.2.mp h1) (a2.2.2.mp h2))
          rw [if_neg (by omega)]; exact this

end IwModel.Cmp
