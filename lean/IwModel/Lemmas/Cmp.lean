import IwModel.Model.Cmp
import IwModel.Lemmas.Vnum
/-! Helper lemmas about the key comparators. -/
namespace IwModel.Cmp

end IwModel.Cmp
