import IwModel.Model.FsmScan
import IwModel.Lemmas.FsmBits
/-! The word-wise bit scans of `iwfsmfile.c` and the `iwbits.h` leaves they use are correct for every offset, limit and
word content: `ffs_spec`, `rev64_spec`, `findNext_spec`, `findPrev_spec`. Core Lean only. -/
namespace IwModel.FsmScan

def stepN (k : Nat) (st : Nat × Nat) : Nat × Nat :=
  if st.2 % 2 ^ k = 0 then (st.1 + k, st.2 / 2 ^ k) else st

def ffsN (n : Nat) : Nat :=
  let st := stepN 2 (stepN 4 (stepN 8 (stepN 16 (stepN 32 (0, n)))))
  if st.2 % 2 = 0 then st.1 + 1 else st.1

theorem and_lit_zero (x : Word) (k m : Nat) (hm : m = 2 ^ k - 1) (hk : m < 2 ^ 64) :
    (x &&& BitVec.ofNat 64 m = 0) ↔ x.toNat % 2 ^ k = 0 := by
  rw [BitVec.toNat_eq, BitVec.toNat_and, BitVec.toNat_ofNat, Nat.mod_eq_of_lt hk, hm,
    Nat.and_two_pow_sub_one_eq_mod]
  simp

theorem toNat_shr (x : Word) (k : Nat) : (x >>> k).toNat = x.toNat / 2 ^ k := by
  rw [BitVec.toNat_ushiftRight, Nat.shiftRight_eq_div_pow]

theorem ffsStep_toNat (k m : Nat) (hm : m = 2 ^ k - 1) (hk : m < 2 ^ 64) (st : Nat × Word) :
    ((ffsStep k (BitVec.ofNat 64 m) st).1, (ffsStep k (BitVec.ofNat 64 m) st).2.toNat) = stepN k (st.1, st.2.toNat) := by
  unfold ffsStep stepN
  by_cases h : st.2.toNat % 2 ^ k = 0
  · rw [if_pos ((and_lit_zero _ k m hm hk).mpr h), if_pos h]; simp [Nat.shiftRight_eq_div_pow]
  · rw [if_neg (fun c => h ((and_lit_zero _ k m hm hk).mp c)), if_neg h]

theorem ffs_eq (x : Word) : ffs x = ffsN x.toNat := by
  unfold ffs ffsN
  have e1 := ffsStep_toNat 32 0xffffffff (by decide) (by decide) (0, x)
  generalize ffsStep 32 0xffffffff#64 (0, x) = s1 at e1
  have e2 := ffsStep_toNat 16 0xffff (by decide) (by decide) s1
  generalize ffsStep 16 0xffff#64 s1 = s2 at e2
  have e3 := ffsStep_toNat 8 0xff (by decide) (by decide) s2
  generalize ffsStep 8 0xff#64 s2 = s3 at e3
  have e4 := ffsStep_toNat 4 0xf (by decide) (by decide) s3
  generalize ffsStep 4 0xf#64 s3 = s4 at e4
  have e5 := ffsStep_toNat 2 0x3 (by decide) (by decide) s4
  generalize ffsStep 2 0x3#64 s4 = s5 at e5
  simp only at e1 e2 e3 e4 e5
  rw [← e1, ← e2, ← e3, ← e4, ← e5]
  simp only
  have := and_lit_zero s5.2 1 1 (by decide) (by decide)
  by_cases h : s5.2.toNat % 2 = 0
  · rw [if_pos (this.mpr (by simpa using h)), if_pos h]
  · rw [if_neg (fun c => h (by simpa using this.mp c)), if_neg h]

set_option maxRecDepth 4000 in
theorem ffsN_spec (n : Nat) (h0 : 0 < n) (h64 : n < 2 ^ 64) :
    ffsN n < 64 ∧ n % 2 ^ ffsN n = 0 ∧ n / 2 ^ ffsN n % 2 = 1 := by
  unfold ffsN stepN
  simp only [Nat.reducePow]
  split <;> split <;> split <;> split <;> split <;> split <;>
    simp only [Nat.reducePow, Nat.reduceAdd, Nat.zero_add] <;> omega

/-- the lowest set bit -/
theorem ffs_spec (x : Word) (hx : x ≠ 0) :
    ffs x < 64 ∧ x.getLsbD (ffs x) = true ∧ ∀ j, j < ffs x → x.getLsbD j = false := by
  have h0 : 0 < x.toNat := by
    by_cases c : x.toNat = 0
    · exact absurd (BitVec.toNat_eq.mpr (by simpa using c)) hx
    · omega
  obtain ⟨a, b, c⟩ := ffsN_spec x.toNat h0 x.isLt
  rw [ffs_eq]
  refine ⟨a, ?_, fun j hj => ?_⟩
  · rw [BitVec.getLsbD, Nat.testBit_eq_decide_div_mod_eq]; simpa using c
  · rw [BitVec.getLsbD]
    have := Nat.testBit_mod_two_pow x.toNat (ffsN x.toNat) j
    rw [b] at this
    simpa [hj] using this.symm

def wbit (w : List Word) (i : Nat) : Bool := (word w (i / 64)).getLsbD (i % 64)

theorem eq_zero_iff (v : Word) : v = 0 ↔ ∀ j, j < 64 → v.getLsbD j = false := by
  constructor
  · intro h j _; subst h; simp
  · intro h; apply BitVec.eq_of_getLsbD_eq; intro i hi; rw [h i hi]; simp

theorem getLsbD_lt (v : Word) (j : Nat) (h : v.getLsbD j = true) : j < 64 := by
  by_cases c : j < 64
  · exact c
  · rw [BitVec.getLsbD_of_ge _ _ (by omega)] at h; cases h

/-- what a result of a forward scan over `[lo, hi)` means -/
def NextSpec (w : List Word) (lo hi : Nat) : Option Nat → Prop
  | some q => lo ≤ q ∧ q < hi ∧ wbit w q = true ∧ ∀ j, lo ≤ j → j < q → wbit w j = false
  | none => ∀ j, lo ≤ j → j < hi → wbit w j = false

theorem wbit_word (w : List Word) (p t : Nat) (ht : t < 64) : wbit w (64 * p + t) = (word w p).getLsbD t := by
  unfold wbit
  have h1 : (64 * p + t) / 64 = p := by omega
  have h2 : (64 * p + t) % 64 = t := by omega
  rw [h1, h2]

theorem nextLoop_spec (w : List Word) (fuel p off size : Nat) (hoff : off = 64 * p) (hf : size / 64 < fuel) :
    NextSpec w off (off + size) (nextLoop w fuel p off size) := by
  induction fuel generalizing p off size with
  | zero => omega
  | succ fuel ih =>
    unfold nextLoop
    by_cases h64 : size ≥ 64
    · rw [if_pos h64]
      simp only
      by_cases hz : word w p ≠ 0
      · rw [if_pos hz]
        obtain ⟨a, b, c⟩ := ffs_spec _ hz
        refine ⟨by omega, by omega, ?_, fun j h1 h2 => ?_⟩
        · rw [hoff, wbit_word w p _ a]; exact b
        · have : j = 64 * p + (j - 64 * p) := by omega
          rw [this, wbit_word w p _ (by omega)]; exact c _ (by omega)
      · rw [if_neg hz]
        have hz' : word w p = 0 := by simpa using hz
        have hrec := ih (p + 1) (off + 64) (size - 64) (by omega) (by omega)
        have hlow : ∀ j, off ≤ j → j < off + 64 → wbit w j = false := by
          intro j h1 h2
          have : j = 64 * p + (j - 64 * p) := by omega
          rw [this, wbit_word w p _ (by omega), hz']; simp
        cases hr : nextLoop w fuel (p + 1) (off + 64) (size - 64) with
        | none =>
          rw [hr] at hrec
          intro j h1 h2
          by_cases c : j < off + 64
          · exact hlow j h1 c
          · exact hrec j (by omega) (by omega)
        | some q =>
          rw [hr] at hrec
          obtain ⟨a, b, c, d⟩ := hrec
          refine ⟨by omega, by omega, c, fun j h1 h2 => ?_⟩
          by_cases c2 : j < off + 64
          · exact hlow j h1 c2
          · exact d j (by omega) h2
    · rw [if_neg h64]
      by_cases h0 : size = 0
      · rw [if_pos h0]; intro j h1 h2; omega
      · rw [if_neg h0]
        simp only
        have hm : ∀ t, (word w p &&& (BitVec.allOnes 64 >>> (64 - size))).getLsbD t =
            ((word w p).getLsbD t && decide (t < size)) := by
          intro t
          rw [BitVec.getLsbD_and, BitVec.getLsbD_ushiftRight, BitVec.getLsbD_allOnes]
          by_cases c : t < size
          · have : 64 - size + t < 64 := by omega
            simp [c, this]
          · have : ¬ (64 - size + t < 64) := by omega
            simp [c, this]
        by_cases hz : word w p &&& (BitVec.allOnes 64 >>> (64 - size)) ≠ 0
        · rw [if_pos hz]
          obtain ⟨a, b, c⟩ := ffs_spec _ hz
          rw [hm] at b
          simp only [Bool.and_eq_true, decide_eq_true_eq] at b
          refine ⟨by omega, by omega, ?_, fun j h1 h2 => ?_⟩
          · rw [hoff, wbit_word w p _ a]; exact b.1
          · have e : j = 64 * p + (j - 64 * p) := by omega
            rw [e, wbit_word w p _ (by omega)]
            have := c (j - 64 * p) (by omega)
            rw [hm] at this
            have hlt : j - 64 * p < size := by omega
            simpa [hlt] using this
        · rw [if_neg hz]
          have hz' := (eq_zero_iff _).mp (Decidable.of_not_not hz)
          intro j h1 h2
          have e : j = 64 * p + (j - 64 * p) := by omega
          rw [e, wbit_word w p _ (by omega)]
          have := hz' (j - 64 * p) (by omega)
          rw [hm] at this
          have hlt : j - 64 * p < size := by omega
          simpa [hlt] using this

/-- `_fsm_find_next_set_bit` finds the first set bit of `[off, max)`, whatever the alignment of `off` and `max`
    against the 64-bit words -/
theorem findNext_spec (w : List Word) (off max : Nat) : NextSpec w off max (findNext w off max) := by
  unfold findNext
  by_cases h0 : off ≥ max
  · rw [if_pos h0]; intro j h1 h2; omega
  · rw [if_neg h0]
    simp only
    have hp : off - off % 64 = 64 * (off / 64) := by omega
    by_cases hb : off % 64 ≠ 0
    · rw [if_pos hb]
      have hm : ∀ t, (word w (off / 64) &&& (BitVec.allOnes 64 <<< (off % 64))).getLsbD t =
          ((word w (off / 64)).getLsbD t && decide (off % 64 ≤ t)) := by
        intro t
        rw [BitVec.getLsbD_and, BitVec.getLsbD_shiftLeft, BitVec.getLsbD_allOnes]
        by_cases c : off % 64 ≤ t
        · by_cases c2 : t < 64
          · have : ¬ (t < off % 64) := by omega
            have : t - off % 64 < 64 := by omega
            simp [*]
          · have : (word w (off / 64)).getLsbD t = false := BitVec.getLsbD_of_ge _ _ (by omega)
            simp [this]
        · have : t < off % 64 := by omega
          simp [c, this]
      by_cases hz : word w (off / 64) &&& (BitVec.allOnes 64 <<< (off % 64)) ≠ 0
      · rw [if_pos hz]
        obtain ⟨a, b, c⟩ := ffs_spec _ hz
        rw [hm] at b
        simp only [Bool.and_eq_true, decide_eq_true_eq] at b
        by_cases ht : ffs (word w (off / 64) &&& (BitVec.allOnes 64 <<< (off % 64))) ≥ max - (off - off % 64)
        · rw [if_pos ht]
          intro j h1 h2
          have e : j = 64 * (off / 64) + (j - 64 * (off / 64)) := by omega
          rw [e, wbit_word w _ _ (by omega)]
          have := c (j - 64 * (off / 64)) (by omega)
          rw [hm] at this
          have hge : off % 64 ≤ j - 64 * (off / 64) := by omega
          simpa [hge] using this
        · rw [if_neg ht]
          refine ⟨by omega, by omega, ?_, fun j h1 h2 => ?_⟩
          · rw [hp, wbit_word w _ _ a]; exact b.1
          · have e : j = 64 * (off / 64) + (j - 64 * (off / 64)) := by omega
            rw [e, wbit_word w _ _ (by omega)]
            have := c (j - 64 * (off / 64)) (by omega)
            rw [hm] at this
            have hge : off % 64 ≤ j - 64 * (off / 64) := by omega
            simpa [hge] using this
      · rw [if_neg hz]
        have hz' := (eq_zero_iff _).mp (Decidable.of_not_not hz)
        have hlow : ∀ j, off ≤ j → j < 64 * (off / 64) + 64 → wbit w j = false := by
          intro j h1 h2
          have e : j = 64 * (off / 64) + (j - 64 * (off / 64)) := by omega
          rw [e, wbit_word w _ _ (by omega)]
          have := hz' (j - 64 * (off / 64)) (by omega)
          rw [hm] at this
          have hge : off % 64 ≤ j - 64 * (off / 64) := by omega
          simpa [hge] using this
        by_cases hs : max - (off - off % 64) ≤ 64
        · rw [if_pos hs]
          intro j h1 h2; exact hlow j h1 (by omega)
        · rw [if_neg hs]
          have hrec := nextLoop_spec w ((max - (off - off % 64)) / 64 + 1) (off / 64 + 1) (off - off % 64 + 64)
            (max - (off - off % 64) - 64) (by omega) (by omega)
          have hend : off - off % 64 + 64 + (max - (off - off % 64) - 64) = max := by omega
          rw [hend] at hrec
          cases hr : nextLoop w ((max - (off - off % 64)) / 64 + 1) (off / 64 + 1) (off - off % 64 + 64)
              (max - (off - off % 64) - 64) with
          | none =>
            rw [hr] at hrec
            intro j h1 h2
            by_cases c : j < 64 * (off / 64) + 64
            · exact hlow j h1 c
            · exact hrec j (by omega) h2
          | some q =>
            rw [hr] at hrec
            obtain ⟨a, b, c, d⟩ := hrec
            refine ⟨by omega, b, c, fun j h1 h2 => ?_⟩
            by_cases c2 : j < 64 * (off / 64) + 64
            · exact hlow j h1 c2
            · exact d j (by omega) h2
    · rw [if_neg hb]
      have hb' : off % 64 = 0 := by omega
      have hrec := nextLoop_spec w ((max - (off - off % 64)) / 64 + 1) (off / 64) (off - off % 64)
        (max - (off - off % 64)) (by omega) (by omega)
      have e1 : off - off % 64 = off := by omega
      rw [e1] at hrec ⊢
      have e2 : off + (max - off) = max := by omega
      rw [e2] at hrec
      exact hrec

/-- the "delta swap" step of the bit reversal: exchanges bit `j` with bit `j + d` wherever the mask has bit `j` -/
def deltaSwap (m : Word) (d : Nat) (x : Word) : Word :=
  let t := (x ^^^ (x >>> d)) &&& m
  (t ||| (t <<< d)) ^^^ x

def swapIdx (m : Word) (d : Nat) (j : Nat) : Nat :=
  if m.getLsbD j then j + d else if d ≤ j ∧ m.getLsbD (j - d) then j - d else j

theorem deltaSwap_bit (m : Word) (d : Nat) (x : Word) (j : Nat) (hj : j < 64)
    (hdis : ¬ (m.getLsbD j = true ∧ d ≤ j ∧ m.getLsbD (j - d) = true)) :
    (deltaSwap m d x).getLsbD j = x.getLsbD (swapIdx m d j) := by
  unfold deltaSwap swapIdx
  simp only [BitVec.getLsbD_xor, BitVec.getLsbD_or, BitVec.getLsbD_and, BitVec.getLsbD_shiftLeft,
    BitVec.getLsbD_ushiftRight, hj, decide_true, Bool.true_and]
  by_cases h1 : m.getLsbD j = true
  · have h2 : ¬ (d ≤ j ∧ m.getLsbD (j - d) = true) := fun c => hdis ⟨h1, c⟩
    rw [if_pos h1]
    by_cases c : d ≤ j
    · have h3 : m.getLsbD (j - d) = false := by
        cases hm : m.getLsbD (j - d) with
        | false => rfl
        | true => exact absurd ⟨c, hm⟩ h2
      have : ¬ (j < d) := by omega
      simp only [h1, h3, this, decide_false, Bool.not_false, Bool.and_true, Bool.and_false, Bool.or_false, Bool.true_and]
      rw [Nat.add_comm d j]
      cases x.getLsbD j <;> cases x.getLsbD (j + d) <;> rfl
    · have : j < d := by omega
      simp only [h1, this, decide_true, Bool.not_true, Bool.false_and, Bool.and_true, Bool.or_false]
      rw [Nat.add_comm d j]
      cases x.getLsbD j <;> cases x.getLsbD (j + d) <;> rfl
  · have h1' : m.getLsbD j = false := by simpa using h1
    rw [if_neg h1]
    by_cases c : d ≤ j ∧ m.getLsbD (j - d) = true
    · rw [if_pos c]
      have : ¬ (j < d) := by omega
      have e : d + (j - d) = j := by omega
      simp only [h1', c.2, this, decide_false, Bool.not_false, Bool.and_false, Bool.and_true, Bool.false_or, Bool.true_and, e]
      cases x.getLsbD j <;> cases x.getLsbD (j - d) <;> rfl
    · rw [if_neg c]
      by_cases c2 : j < d
      · simp [h1', c2]
      · have h3 : m.getLsbD (j - d) = false := by
          cases hm : m.getLsbD (j - d) with
          | false => rfl
          | true => exact absurd ⟨by omega, hm⟩ c
        simp [h1', h3, c2]


def swap32 (x : Word) : Word := (x <<< 32) ||| (x >>> 32)
def rot15 (x : Word) : Word := ((x &&& 0x0001ffff0001ffff#64) <<< 15) ||| ((x &&& 0xfffe0000fffe0000#64) >>> 17)

theorem rev64_eq (x : Word) : rev64 x =
    deltaSwap 0x2248884222488842#64 2 (deltaSwap 0x0e0384210e038421#64 4 (deltaSwap 0x003f801f003f801f#64 10 (rot15 (swap32 x)))) := rfl

def s1 (j : Nat) : Nat := if j < 32 then j + 32 else j - 32
def s2 (j : Nat) : Nat := if 15 ≤ j ∧ (0x0001ffff0001ffff#64).getLsbD (j - 15) then j - 15 else j + 17

theorem swap32_bit (x : Word) (j : Nat) (hj : j < 64) : (swap32 x).getLsbD j = x.getLsbD (s1 j) := by
  unfold swap32 s1
  simp only [BitVec.getLsbD_or, BitVec.getLsbD_shiftLeft, BitVec.getLsbD_ushiftRight, hj, decide_true, Bool.true_and]
  by_cases c : j < 32
  · simp [c, Nat.add_comm]
  · have : x.getLsbD (32 + j) = false := BitVec.getLsbD_of_ge _ _ (by omega)
    simp [c, this]

theorem rot15_bit (x : Word) (j : Nat) (hj : j < 64)
    (hx : (15 ≤ j ∧ (0x0001ffff0001ffff#64).getLsbD (j - 15) = true) ↔ (0xfffe0000fffe0000#64).getLsbD (17 + j) = false) :
    (rot15 x).getLsbD j = x.getLsbD (s2 j) := by
  unfold rot15 s2
  simp only [BitVec.getLsbD_or, BitVec.getLsbD_shiftLeft, BitVec.getLsbD_ushiftRight, BitVec.getLsbD_and, hj,
    decide_true, Bool.true_and]
  by_cases c : 15 ≤ j ∧ (0x0001ffff0001ffff#64).getLsbD (j - 15) = true
  · rw [if_pos c]
    have hb := hx.mp c
    have : ¬ (j < 15) := by omega
    simp [c.2, hb, this]
  · rw [if_neg c]
    have hb : (0xfffe0000fffe0000#64).getLsbD (17 + j) = true := by
      cases h : (0xfffe0000fffe0000#64).getLsbD (17 + j) with
      | true => rfl
      | false => exact absurd (hx.mpr h) c
    have hb' : (0xfffe0000fffe0000#64).getLsbD (j + 17) = true := by rw [Nat.add_comm]; exact hb
    by_cases c2 : j < 15
    · simp [c2, hb', Nat.add_comm]
    · have : (0x0001ffff0001ffff#64).getLsbD (j - 15) = false := by
        cases h : (0x0001ffff0001ffff#64).getLsbD (j - 15) with
        | false => rfl
        | true => exact absurd ⟨by omega, h⟩ c
      simp [c2, hb', this, Nat.add_comm]

def Dis (m : Word) (d j : Nat) : Prop := ¬ (m.getLsbD j = true ∧ d ≤ j ∧ m.getLsbD (j - d) = true)
instance (m : Word) (d j : Nat) : Decidable (Dis m d j) := by unfold Dis; exact inferInstance

/-- all side conditions and the final index, for every bit position -/
theorem rev_table : ∀ j : Fin 64,
    let a := swapIdx 0x2248884222488842#64 2 j.val
    let b := swapIdx 0x0e0384210e038421#64 4 a
    let c := swapIdx 0x003f801f003f801f#64 10 b
    let d := s2 c
    a < 64 ∧ b < 64 ∧ c < 64 ∧ d < 64 ∧ Dis 0x2248884222488842#64 2 j.val ∧ Dis 0x0e0384210e038421#64 4 a ∧
    Dis 0x003f801f003f801f#64 10 b ∧
    ((15 ≤ c ∧ (0x0001ffff0001ffff#64).getLsbD (c - 15) = true) ↔ (0xfffe0000fffe0000#64).getLsbD (17 + c) = false) ∧
    s1 d = 63 - j.val := by
  decide

/-- `iwbits_reverse_64` reverses the 64 bits -/
theorem rev64_spec (x : Word) (j : Nat) (hj : j < 64) : (rev64 x).getLsbD j = x.getLsbD (63 - j) := by
  obtain ⟨a, b, c, d, e, f, g, h, i⟩ := rev_table ⟨j, hj⟩
  simp only at a b c d e f g h i
  rw [rev64_eq, deltaSwap_bit _ _ _ j hj e, deltaSwap_bit _ _ _ _ a f, deltaSwap_bit _ _ _ _ b g,
    rot15_bit _ _ c h, swap32_bit _ _ d, i]


theorem mask_bit (size j : Nat) (hs : size < 64) : ((1#64 <<< size) - 1#64).getLsbD j = decide (j < size) := by
  have h1 : 2 ^ size < 2 ^ 64 := Nat.pow_lt_pow_right (by omega) hs
  have h0 : 0 < 2 ^ size := Nat.pow_pos (by omega)
  have e : (1#64 <<< size) - 1#64 = BitVec.ofNat 64 (2 ^ size - 1) := by
    rw [BitVec.toNat_eq]
    simp only [BitVec.toNat_sub, BitVec.toNat_shiftLeft, BitVec.toNat_ofNat, Nat.shiftLeft_eq]
    have e1 : (1 : Nat) % 2 ^ 64 = 1 := by decide
    rw [e1, Nat.one_mul, Nat.mod_eq_of_lt h1]
    generalize 2 ^ size = a at *
    omega
  rw [e, BitVec.getLsbD_ofNat, Nat.testBit_two_pow_sub_one]
  by_cases c : j < size
  · have : j < 64 := by omega
    simp [c, this]
  · simp [c]

/-- what a result of a backward scan over `[lo, hi)` means -/
def PrevSpec (w : List Word) (lo hi : Nat) : Option Nat → Prop
  | some q => lo ≤ q ∧ q < hi ∧ wbit w q = true ∧ ∀ j, q < j → j < hi → wbit w j = false
  | none => ∀ j, lo ≤ j → j < hi → wbit w j = false

/-- the highest set bit below position `n ≤ 64` of a word, through reversal, shift/mask and lowest-set-bit:
    `tmp` holds at bit `t` the bit `n - 1 - t` of `v` for `t < n`, nothing above -/
theorem high_bit {v tmp : Word} {n : Nat} (hn : n ≤ 64)
    (htmp : ∀ t, tmp.getLsbD t = (decide (t < n) && v.getLsbD (n - 1 - t))) :
    (tmp = 0 → ∀ r, r < n → v.getLsbD r = false) ∧
    (tmp ≠ 0 → ffs tmp < n ∧ v.getLsbD (n - 1 - ffs tmp) = true ∧ ∀ r, n - 1 - ffs tmp < r → r < n → v.getLsbD r = false) := by
  constructor
  · intro h r hr
    have := (eq_zero_iff _).mp h (n - 1 - r) (by omega)
    rw [htmp] at this
    have e : n - 1 - (n - 1 - r) = r := by omega
    have hlt : n - 1 - r < n := by omega
    simpa [e, hlt] using this
  · intro h
    obtain ⟨a, b, c⟩ := ffs_spec _ h
    rw [htmp] at b
    simp only [Bool.and_eq_true, decide_eq_true_eq] at b
    refine ⟨b.1, b.2, fun r h1 h2 => ?_⟩
    have := c (n - 1 - r) (by omega)
    rw [htmp] at this
    have e : n - 1 - (n - 1 - r) = r := by omega
    have hlt : n - 1 - r < n := by omega
    simpa [e, hlt] using this

theorem prevLoop_spec (w : List Word) (fuel p off size : Nat) (hoff : off = 64 * p) (hs : size ≤ off)
    (hf : size / 64 < fuel) : PrevSpec w (off - size) off (prevLoop w fuel p off size) := by
  induction fuel generalizing p off size with
  | zero => omega
  | succ fuel ih =>
    unfold prevLoop
    by_cases h64 : size ≥ 64
    · rw [if_pos h64]
      simp only
      have hp : 1 ≤ p := by omega
      have hq : 64 * p = 64 * (p - 1) + 64 := by omega
      have hfull : ∀ t, (rev64 (word w (p - 1))).getLsbD t = (decide (t < 64) && (word w (p - 1)).getLsbD (64 - 1 - t)) := by
        intro t
        by_cases c : t < 64
        · rw [rev64_spec _ _ c]; simp [c]
        · rw [BitVec.getLsbD_of_ge _ _ (by omega)]; simp [c]
      obtain ⟨hz, hnz⟩ := high_bit (Nat.le_refl 64) hfull
      by_cases hv : word w (p - 1) ≠ 0
      · rw [if_pos hv]
        have hrv : rev64 (word w (p - 1)) ≠ 0 := by
          intro c
          apply hv
          apply (eq_zero_iff _).mpr
          intro j hj; exact hz c j hj
        obtain ⟨a, b, c⟩ := hnz hrv
        generalize ffs (rev64 (word w (p - 1))) = t at a b c
        have ht : off > t := by omega
        rw [if_pos ht]
        have e : off - t - 1 = 64 * (p - 1) + (64 - 1 - t) := by omega
        refine ⟨by omega, by omega, ?_, fun j h1 h2 => ?_⟩
        · rw [e, wbit_word w _ _ (by omega)]; exact b
        · have ej : j = 64 * (p - 1) + (j - 64 * (p - 1)) := by omega
          rw [ej, wbit_word w _ _ (by omega)]; exact c _ (by omega) (by omega)
      · rw [if_neg hv]
        have hv' : word w (p - 1) = 0 := Decidable.of_not_not hv
        have hhigh : ∀ j, off - 64 ≤ j → j < off → wbit w j = false := by
          intro j h1 h2
          have ej : j = 64 * (p - 1) + (j - 64 * (p - 1)) := by omega
          rw [ej, wbit_word w _ _ (by omega), hv']; simp
        have hrec := ih (p - 1) (off - 64) (size - 64) (by omega) (by omega) (by omega)
        have e2 : off - 64 - (size - 64) = off - size := by omega
        rw [e2] at hrec
        cases hr : prevLoop w fuel (p - 1) (off - 64) (size - 64) with
        | none =>
          rw [hr] at hrec
          intro j h1 h2
          by_cases c : off - 64 ≤ j
          · exact hhigh j c h2
          · exact hrec j h1 (by omega)
        | some q =>
          rw [hr] at hrec
          obtain ⟨a, b, c, d⟩ := hrec
          refine ⟨a, by omega, c, fun j h1 h2 => ?_⟩
          by_cases c2 : off - 64 ≤ j
          · exact hhigh j c2 h2
          · exact d j h1 (by omega)
    · rw [if_neg h64]
      by_cases h0 : size = 0
      · rw [if_pos h0]; intro j h1 h2; omega
      · rw [if_neg h0]
        simp only
        have hp : 1 ≤ p := by omega
        -- bit t of tmp is bit 63 - t of the word, for t < size
        have hm : ∀ t, (rev64 (word w (p - 1)) &&& ((1#64 <<< size) - 1#64)).getLsbD t =
            (decide (t < size) && (word w (p - 1)).getLsbD (63 - t)) := by
          intro t
          rw [BitVec.getLsbD_and, mask_bit _ _ (by omega)]
          by_cases c : t < size
          · rw [rev64_spec _ _ (by omega)]; simp [c]
          · simp [c]
        by_cases hz : rev64 (word w (p - 1)) &&& ((1#64 <<< size) - 1#64) ≠ 0
        · rw [if_pos hz]
          obtain ⟨a, b, c⟩ := ffs_spec _ hz
          rw [hm] at b
          simp only [Bool.and_eq_true, decide_eq_true_eq] at b
          generalize ffs (rev64 (word w (p - 1)) &&& ((1#64 <<< size) - 1#64)) = t at a b c
          have ht : off > t := by omega
          rw [if_pos ht]
          have e : off - t - 1 = 64 * (p - 1) + (63 - t) := by omega
          refine ⟨by omega, by omega, ?_, fun j h1 h2 => ?_⟩
          · rw [e, wbit_word w _ _ (by omega)]; exact b.2
          · have ej : j = 64 * (p - 1) + (j - 64 * (p - 1)) := by omega
            rw [ej, wbit_word w _ _ (by omega)]
            have := c (63 - (j - 64 * (p - 1))) (by omega)
            rw [hm] at this
            have e3 : 63 - (63 - (j - 64 * (p - 1))) = j - 64 * (p - 1) := by omega
            have hlt : 63 - (j - 64 * (p - 1)) < size := by omega
            simpa [e3, hlt] using this
        · rw [if_neg hz]
          have hz' := (eq_zero_iff _).mp (Decidable.of_not_not hz)
          intro j h1 h2
          have ej : j = 64 * (p - 1) + (j - 64 * (p - 1)) := by omega
          rw [ej, wbit_word w _ _ (by omega)]
          have := hz' (63 - (j - 64 * (p - 1))) (by omega)
          rw [hm] at this
          have e3 : 63 - (63 - (j - 64 * (p - 1))) = j - 64 * (p - 1) := by omega
          have hlt : 63 - (j - 64 * (p - 1)) < size := by omega
          simpa [e3, hlt] using this

/-- `_fsm_find_prev_set_bit` finds the last set bit of `[min, off)`, whatever the alignment of `off` against the
    64-bit words -/
theorem findPrev_spec (w : List Word) (off min : Nat) : PrevSpec w min off (findPrev w off min) := by
  unfold findPrev
  by_cases h0 : min ≥ off
  · rw [if_pos h0]; intro j h1 h2; omega
  · rw [if_neg h0]
    simp only
    by_cases hb : off % 64 ≠ 0
    · rw [if_pos hb]
      have hm : ∀ t, (rev64 (word w (off / 64)) >>> (64 - off % 64)).getLsbD t =
          (decide (t < off % 64) && (word w (off / 64)).getLsbD (off % 64 - 1 - t)) := by
        intro t
        rw [BitVec.getLsbD_ushiftRight]
        by_cases c : t < off % 64
        · rw [rev64_spec _ _ (by omega)]
          have e : 63 - (64 - off % 64 + t) = off % 64 - 1 - t := by omega
          simp [c, e]
        · rw [BitVec.getLsbD_of_ge _ _ (by omega)]; simp [c]
      obtain ⟨hz, hnz⟩ := high_bit (n := off % 64) (by omega) hm
      by_cases hv : rev64 (word w (off / 64)) >>> (64 - off % 64) ≠ 0
      · rw [if_pos hv]
        obtain ⟨a, b, c⟩ := hnz hv
        generalize ffs (rev64 (word w (off / 64)) >>> (64 - off % 64)) = t at a b c
        by_cases ht : t ≥ off - min
        · rw [if_pos ht]
          intro j h1 h2
          have ej : j = 64 * (off / 64) + (j - 64 * (off / 64)) := by omega
          rw [ej, wbit_word w _ _ (by omega)]
          exact c _ (by omega) (by omega)
        · rw [if_neg ht]
          have ht2 : off > t := by omega
          rw [if_pos ht2]
          have e : off - t - 1 = 64 * (off / 64) + (off % 64 - 1 - t) := by omega
          refine ⟨by omega, by omega, ?_, fun j h1 h2 => ?_⟩
          · rw [e, wbit_word w _ _ (by omega)]; exact b
          · have ej : j = 64 * (off / 64) + (j - 64 * (off / 64)) := by omega
            rw [ej, wbit_word w _ _ (by omega)]
            exact c _ (by omega) (by omega)
      · rw [if_neg hv]
        have hhigh : ∀ j, off - off % 64 ≤ j → j < off → wbit w j = false := by
          intro j h1 h2
          have ej : j = 64 * (off / 64) + (j - 64 * (off / 64)) := by omega
          rw [ej, wbit_word w _ _ (by omega)]
          exact hz (Decidable.of_not_not hv) _ (by omega)
        have hrec := prevLoop_spec w ((off - min) / 64 + 1) (off / 64) (off - off % 64) (off - min - off % 64)
          (by omega) (by omega) (by omega)
        cases hr : prevLoop w ((off - min) / 64 + 1) (off / 64) (off - off % 64) (off - min - off % 64) with
        | none =>
          rw [hr] at hrec
          intro j h1 h2
          by_cases c : off - off % 64 ≤ j
          · exact hhigh j c h2
          · exact hrec j (by omega) (by omega)
        | some q =>
          rw [hr] at hrec
          obtain ⟨a, b, c, d⟩ := hrec
          by_cases hcase : off % 64 ≤ off - min
          · refine ⟨by omega, by omega, c, fun j h1 h2 => ?_⟩
            by_cases c2 : off - off % 64 ≤ j
            · exact hhigh j c2 h2
            · exact d j h1 (by omega)
          · -- the range does not reach below the word that holds `off`: the loop ran on an empty range
            exfalso; omega
    · rw [if_neg hb]
      have hrec := prevLoop_spec w ((off - min) / 64 + 1) (off / 64) off (off - min) (by omega) (by omega) (by omega)
      have e : off - (off - min) = min := by omega
      rw [e] at hrec
      exact hrec

/-! ### the word-wise scans equal the naive scans of the allocator model -/

/-- **bitscan_next_spec.** On a bitmap `b` whose bits below `max` are the bits of the words `w`, the word-wise
    `_fsm_find_next_set_bit` returns exactly what the naive scan `nextSet` of the model returns -/
theorem bitscan_next_spec (w : List Word) (b : Fsm.Bits) (off max : Nat)
    (h : ∀ i, i < max → Fsm.bit b i = wbit w i) : findNext w off max = Fsm.nextSet b off max := by
  have hs := findNext_spec w off max
  cases hn : Fsm.nextSet b off max with
  | none =>
    have hz := Fsm.nextSet_none hn
    cases hf : findNext w off max with
    | none => rfl
    | some q =>
      rw [hf] at hs
      obtain ⟨a, c, d, _⟩ := hs
      have := hz q a c
      rw [h q c, d] at this; cases this
  | some p =>
    obtain ⟨a, c, d, e⟩ := Fsm.nextSet_some hn
    cases hf : findNext w off max with
    | none =>
      rw [hf] at hs
      have := hs p a c
      rw [← h p c, d] at this; cases this
    | some q =>
      rw [hf] at hs
      obtain ⟨a', c', d', e'⟩ := hs
      rcases Nat.lt_trichotomy q p with x | x | x
      · have := e q a' x; rw [h q c', d'] at this; cases this
      · rw [x]
      · have := e' p a x; rw [← h p c, d] at this; cases this

/-- **bitscan_prev_spec.** Likewise for `_fsm_find_prev_set_bit` and `prevSet` -/
theorem bitscan_prev_spec (w : List Word) (b : Fsm.Bits) (off min : Nat)
    (h : ∀ i, i < off → Fsm.bit b i = wbit w i) : findPrev w off min = Fsm.prevSet b min off := by
  have hs := findPrev_spec w off min
  cases hn : Fsm.prevSet b min off with
  | none =>
    have hz := Fsm.prevSet_none hn
    cases hf : findPrev w off min with
    | none => rfl
    | some q =>
      rw [hf] at hs
      obtain ⟨a, c, d, _⟩ := hs
      have := hz q a c
      rw [h q c, d] at this; cases this
  | some p =>
    obtain ⟨a, c, d, e⟩ := Fsm.prevSet_some hn
    cases hf : findPrev w off min with
    | none =>
      rw [hf] at hs
      have := hs p a c
      rw [← h p c, d] at this; cases this
    | some q =>
      rw [hf] at hs
      obtain ⟨a', c', d', e'⟩ := hs
      rcases Nat.lt_trichotomy q p with x | x | x
      · have := e' p x c; rw [← h p c, d] at this; cases this
      · rw [x]
      · have := e q x c'; rw [h q c', d'] at this; cases this

end IwModel.FsmScan
