import IwModel.Model.Ring
/-!
The ring buffer under **every** history of `put / back / clear` (not only puts): a plain two-list reference.

`a` = the cells before the cursor, newest first; `b` = the cells from the cursor to the end of the buffer
(only meaningful once the ring has wrapped), newest first.  The iterator yields `a ++ b`.
`iwrb_back` only moves the cursor: on a ring that has not wrapped this is a pop; on a wrapped ring the newest
element is *not* discarded but becomes the oldest one (`b ++ [y]`), and stepping back from cursor 1 makes the
ring report "empty" although every cell still holds a value.
-/
set_option linter.unusedSimpArgs false
namespace IwModel.Ring
variable {α : Type}

/-- plain reference state of a ring of `L` cells -/
structure RRef (α : Type) where
  a : List α := []
  b : List α := []
  wrapped : Bool := false

namespace RRef

/-- `iwrb_put` on the reference -/
def put (L : Nat) (s : RRef α) (x : α) : RRef α :=
  if s.wrapped = true ∧ s.b ≠ [] then { a := x :: s.a, b := s.b.dropLast, wrapped := true }
  else if s.wrapped = false ∧ s.a.length < L then { s with a := x :: s.a }
  else { a := [x], b := s.a.dropLast, wrapped := true }

/-- `iwrb_back` on the reference -/
def back (s : RRef α) : RRef α :=
  match s.wrapped, s.a with
  | false, _ => { s with a := s.a.tail }
  | true, [] => s
  | true, [_] => {}
  | true, y :: a' => { a := a', b := s.b ++ [y], wrapped := true }

def clear (_s : RRef α) : RRef α := {}

/-- what `iwrb_iter_prev` yields, newest first -/
def iter (s : RRef α) : List α := s.a ++ s.b
/-- `iwrb_peek` -/
def peek (s : RRef α) : Option α := s.a.head?
/-- `iwrb_num_cached` -/
def num (L : Nat) (s : RRef α) : Nat := if s.wrapped then L else s.a.length

end RRef

/-- the ring `r` (of `L` cells) represents the reference state `s` -/
def Rep (L : Nat) (r : Ring α) (s : RRef α) : Prop :=
  r.buf.length = L ∧
  ∃ rest, r.buf = s.a.reverse ++ rest ∧
    (if s.wrapped then rest = s.b.reverse ∧ r.pos = (s.a.length : Int) ∧ 1 ≤ s.a.length
     else s.b = [] ∧ r.pos = -(s.a.length : Int))

theorem rep_create (junk : α) (L : Nat) : Rep L (create junk L) {} :=
  ⟨by simp [create], List.replicate L junk, by simp [create], by simp [create]⟩

theorem set_append_cons (l t : List α) (j x : α) : (l ++ j :: t).set l.length x = l ++ x :: t := by
  induction l with
  | nil => rfl
  | cons h l ih => simp [List.set, ih]

theorem rep_obs {L : Nat} {r : Ring α} {s : RRef α} (h : Rep L r s) :
    iterAll r = s.iter ∧ peek r = s.peek ∧ numCached r = s.num L := by
  obtain ⟨hlen, rest, hbuf, hc⟩ := h
  have htake : r.buf.take s.a.length = s.a.reverse := by
    rw [hbuf]; exact List.take_left' (by simp)
  have hdrop : r.buf.drop s.a.length = rest := by
    rw [hbuf]; exact List.drop_left' (by simp)
  cases hw : s.wrapped with
  | true =>
    simp only [hw, if_true] at hc
    obtain ⟨hrest, hpos, h1⟩ := hc
    have hn : r.pos.natAbs = s.a.length := by omega
    have h1' : ¬ r.pos < 0 := by omega
    have h2 : ¬ r.pos = 0 := by omega
    have h3 : ¬ r.pos ≤ 0 := by omega
    refine ⟨?_, ?_, ?_⟩
    · unfold iterAll RRef.iter
      simp only [h1', h2, if_false, hn, htake, hdrop, hrest, List.reverse_reverse]
    · unfold peek RRef.peek
      simp only [h2, if_false, hn]
      cases ha : s.a with
      | nil => simp [ha] at h1
      | cons y a' =>
        rw [hbuf, ha]; simp
    · unfold numCached RRef.num Ring.len
      simp only [h3, if_false, hw, if_true, hlen]
  | false =>
    simp only [hw, Bool.false_eq_true, if_false] at hc
    obtain ⟨hb, hpos⟩ := hc
    have hn : r.pos.natAbs = s.a.length := by omega
    refine ⟨?_, ?_, ?_⟩
    · unfold iterAll RRef.iter
      by_cases h0 : s.a.length = 0
      · have : s.a = [] := List.eq_nil_of_length_eq_zero h0
        have hp : r.pos = 0 := by omega
        simp [hp, this, hb]
      · have hneg : r.pos < 0 := by omega
        simp only [hneg, if_true, hn, htake, hb, List.reverse_reverse, List.append_nil]
    · unfold peek RRef.peek
      cases ha : s.a with
      | nil =>
        have hp : r.pos = 0 := by rw [hpos, ha]; rfl
        simp [hp]
      | cons y a' =>
        have h2 : ¬ r.pos = 0 := by rw [hpos, ha]; simp; omega
        simp only [h2, if_false, hn]
        rw [hbuf, ha]; simp
    · unfold numCached RRef.num
      have hle : r.pos ≤ 0 := by omega
      simp only [hle, if_true, hn, hw, Bool.false_eq_true, if_false]

theorem reverse_eq_cons_dropLast (a : List α) (o : α) (t : List α) (h : a.reverse = o :: t) :
    a.dropLast.reverse = t := by
  have : a = (o :: t).reverse := by rw [← h, List.reverse_reverse]
  subst this
  simp

theorem rep_put {L : Nat} (hL : 1 ≤ L) {r : Ring α} {s : RRef α} (h : Rep L r s) (x : α) :
    Rep L (put r x) (s.put L x) := by
  obtain ⟨hlen, rest, hbuf, hc⟩ := h
  have hblen : s.a.length + rest.length = L := by rw [← hlen, hbuf]; simp
  cases hw : s.wrapped with
  | true =>
    simp only [hw, if_true] at hc
    obtain ⟨hrest, hpos, h1⟩ := hc
    have hn : r.pos.natAbs = s.a.length := by omega
    have hne : r.pos ≠ 0 := by omega
    have hgt : r.pos > 0 := by omega
    by_cases hbn : s.b = []
    · -- cursor at the end of the buffer: the store goes to cell 0
      have hrn : rest = [] := by rw [hrest, hbn]; rfl
      have haL : s.a.length = L := by rw [hrn] at hblen; simpa using hblen
      have e : s.put L x = { a := [x], b := s.a.dropLast, wrapped := true } := by
        unfold RRef.put; simp [hw, hbn]
      rw [e]
      unfold put Ring.len
      simp only [hne, ne_eq, not_false_eq_true, if_true, hn, hlen, haL]
      refine ⟨by simp [hlen], ?_⟩
      cases hr : s.a.reverse with
      | nil => have : s.a = [] := by simpa using hr
               rw [this] at h1; simp at h1
      | cons o t =>
        refine ⟨t, ?_, ?_⟩
        · rw [hbuf, hrn, hr]; simp
        · simp [reverse_eq_cons_dropLast s.a o t hr]
    · have e : s.put L x = { a := x :: s.a, b := s.b.dropLast, wrapped := true } := by
        unfold RRef.put; simp [hw, hbn]
      rw [e]
      cases hr : s.b.reverse with
      | nil => have : s.b = [] := by simpa using hr
               exact absurd this hbn
      | cons o t =>
        have hrest' : rest = o :: t := by rw [hrest, hr]
        have hlt : s.a.length ≠ L := by rw [hrest'] at hblen; simp at hblen; omega
        unfold put Ring.len
        simp only [hne, ne_eq, not_false_eq_true, if_true, hn, hlen, hlt, if_false, hgt]
        refine ⟨by simp [hlen], t, ?_, ?_⟩
        · have := set_append_cons s.a.reverse t o x
          simp only [List.length_reverse] at this
          rw [hbuf, hrest', this]; simp
        · simp only [if_true, List.length_cons]
          exact ⟨(reverse_eq_cons_dropLast s.b o t hr).symm, by omega, by omega⟩
  | false =>
    simp only [hw, Bool.false_eq_true, if_false] at hc
    obtain ⟨hb, hpos⟩ := hc
    have hn : r.pos.natAbs = s.a.length := by omega
    by_cases hlt : s.a.length < L
    · have e : s.put L x = { s with a := x :: s.a } := by
        unfold RRef.put; simp [hw, hlt]
      rw [e]
      cases hr : rest with
      | nil => rw [hr] at hblen; simp at hblen; omega
      | cons j t =>
        have hset := set_append_cons s.a.reverse t j x
        simp only [List.length_reverse] at hset
        by_cases h0 : s.a.length = 0
        · have ha : s.a = [] := List.eq_nil_of_length_eq_zero h0
          have hp : r.pos = 0 := by omega
          unfold put
          simp only [hp, ne_eq, not_true_eq_false, if_false]
          refine ⟨by simp [hlen], t, ?_, ?_⟩
          · rw [hbuf, hr, ha]; simp
          · simp [hw, hb, ha]
        · have hne : r.pos ≠ 0 := by omega
          have hng : ¬ r.pos > 0 := by omega
          have hneL : s.a.length ≠ L := by omega
          unfold put Ring.len
          simp only [hne, ne_eq, not_false_eq_true, if_true, hn, hlen, hneL, if_false, hng]
          refine ⟨by simp [hlen], t, ?_, ?_⟩
          · rw [hbuf, hr, hset]; simp
          · simp only [hw, Bool.false_eq_true, if_false, List.length_cons]
            exact ⟨hb, by omega⟩
    · -- the put that wraps
      have haL : s.a.length = L := by omega
      have hrn : rest = [] := by
        have : rest.length = 0 := by omega
        exact List.eq_nil_of_length_eq_zero this
      have e : s.put L x = { a := [x], b := s.a.dropLast, wrapped := true } := by
        unfold RRef.put; simp [hw, hlt]
      rw [e]
      have hne : r.pos ≠ 0 := by omega
      unfold put Ring.len
      simp only [hne, ne_eq, not_false_eq_true, if_true, hn, hlen, haL]
      refine ⟨by simp [hlen], ?_⟩
      cases hr : s.a.reverse with
      | nil => have : s.a = [] := by simpa using hr
               rw [this] at haL; simp at haL; omega
      | cons o t =>
        refine ⟨t, ?_, ?_⟩
        · rw [hbuf, hrn, hr]; simp
        · simp [reverse_eq_cons_dropLast s.a o t hr]

theorem back_buf (r : Ring α) : (back r).buf = r.buf := by
  unfold back; split
  · rfl
  · split <;> rfl

theorem rep_back {L : Nat} {r : Ring α} {s : RRef α} (h : Rep L r s) : Rep L (back r) s.back := by
  obtain ⟨hlen, rest, hbuf, hc⟩ := h
  have hlen' : (back r).buf.length = L := by rw [back_buf]; exact hlen
  cases hw : s.wrapped with
  | true =>
    simp only [hw, if_true] at hc
    obtain ⟨hrest, hpos, h1⟩ := hc
    have hgt : r.pos > 0 := by omega
    cases ha : s.a with
    | nil => rw [ha] at h1; simp at h1
    | cons y a' =>
      cases ha' : a' with
      | nil =>
        have e : s.back = {} := by unfold RRef.back; rw [hw, ha, ha']
        rw [e]
        have hp : r.pos = 1 := by rw [hpos, ha, ha']; rfl
        refine ⟨hlen', r.buf, by simp [back, hgt], ?_⟩
        simp [back, hgt, hp]
      | cons z a'' =>
        have e : s.back = { a := a', b := s.b ++ [y], wrapped := true } := by
          unfold RRef.back; rw [hw, ha, ha']
        rw [e]
        refine ⟨hlen', (s.b ++ [y]).reverse, ?_, ?_⟩
        · simp only [back, hgt, if_true]
          rw [hbuf, ha, hrest]; simp
        · simp only [back, hgt, if_true]
          rw [hpos, ha, ha']
          simp
  | false =>
    simp only [hw, Bool.false_eq_true, if_false] at hc
    obtain ⟨hb, hpos⟩ := hc
    have e : s.back = { s with a := s.a.tail } := by unfold RRef.back; rw [hw]
    rw [e]
    cases ha : s.a with
    | nil =>
      have hp : r.pos = 0 := by rw [hpos, ha]; rfl
      refine ⟨hlen', rest, ?_, ?_⟩
      · rw [back_buf, hbuf, ha]; simp
      · simp [back, hp, hw, hb]
    | cons y a' =>
      have hlt : r.pos < 0 := by rw [hpos, ha]; simp
      have hng : ¬ r.pos > 0 := by omega
      refine ⟨hlen', y :: rest, ?_, ?_⟩
      · rw [back_buf, hbuf, ha]; simp
      · simp only [back, hng, if_false, hlt, if_true, hw, Bool.false_eq_true, List.tail_cons]
        refine ⟨hb, ?_⟩
        rw [hpos, ha]; simp; omega

theorem rep_clear {L : Nat} {r : Ring α} {s : RRef α} (h : Rep L r s) : Rep L (clear r) s.clear :=
  ⟨h.1, r.buf, by simp [clear, RRef.clear], by simp [clear, RRef.clear]⟩

/-! ### the iterator loop yields the closed form `iterAll` -/

theorem take_succ_reverse (buf : List α) (k : Nat) (x : α) (h : buf[k]? = some x) :
    (buf.take (k + 1)).reverse = x :: (buf.take k).reverse := by
  rw [List.take_add_one, h]; simp

/-- not wrapped: the walk from iterator position `k` yields cells `k-1 … 0` -/
theorem iterGo_unwrapped (r : Ring α) (hneg : r.pos < 0) :
    ∀ (k f : Nat) (ipos : Int), ipos ≠ 0 → k ≤ r.buf.length → k ≤ f →
      iterGo r f { pos := k, ipos := ipos } = (r.buf.take k).reverse := by
  intro k
  induction k with
  | zero =>
    intro f ipos hi _ _
    cases f with
    | zero => simp [iterGo]
    | succ f => simp [iterGo, iterPrev, hi, hneg]
  | succ k ih =>
    intro f ipos hi hk hf
    cases f with
    | zero => omega
    | succ f =>
      have hx : r.buf[k]? = some r.buf[k] := List.getElem?_eq_getElem (by omega)
      have hi' : (if ipos < 0 then -ipos else ipos) ≠ 0 := by split <;> omega
      have := ih f (if ipos < 0 then -ipos else ipos) hi' (by omega) (by omega)
      simp only [iterGo, iterPrev, hi, hneg, if_false, if_true, Nat.add_one_ne_zero, Nat.add_sub_cancel, hx]
      rw [this, take_succ_reverse r.buf k _ hx]

/-- wrapped, second leg: from position `p + d` down to the cursor `p` -/
theorem iterGo_wrapped2 (r : Ring α) (p : Nat) (hp : 1 ≤ p) (hpos : ¬ r.pos < 0) :
    ∀ (d f : Nat), p + d ≤ r.buf.length → d ≤ f →
      iterGo r f { pos := p + d, ipos := (p : Int) } = ((r.buf.drop p).take d).reverse := by
  intro d
  induction d with
  | zero =>
    intro f _ _
    cases f with
    | zero => simp [iterGo]
    | succ f =>
      have h0 : ¬ ((p : Int) = 0) := by omega
      have h1 : ¬ ((p : Int) < 0) := by omega
      have h2 : ¬ (p = 0) := by omega
      simp [iterGo, iterPrev, h0, h1, h2, hpos]
  | succ d ih =>
    intro f hk hf
    cases f with
    | zero => omega
    | succ f =>
      have h0 : ¬ ((p : Int) = 0) := by omega
      have h1 : ¬ ((p : Int) < 0) := by omega
      have h2 : ¬ (p + (d + 1) = 0) := by omega
      have h3 : ¬ ((p : Int) = ((p + (d + 1) : Nat) : Int)) := by omega
      have hx : r.buf[p + d]? = some r.buf[p + d] := List.getElem?_eq_getElem (by omega)
      have hx' : (r.buf.drop p)[d]? = some r.buf[p + d] := by rw [List.getElem?_drop]; exact hx
      have e : p + (d + 1) - 1 = p + d := by omega
      simp only [iterGo, iterPrev, h0, h1, h2, h3, hpos, if_false, e, hx]
      rw [ih f (by omega) (by omega), take_succ_reverse (r.buf.drop p) d _ hx']

/-- position 0 and position `len` are the same iterator state on a wrapped ring -/
theorem iterGo_zero_eq_len (r : Ring α) (hL : 1 ≤ r.buf.length) (hpos : ¬ r.pos < 0) (f : Nat) (ipos : Int) :
    iterGo r f { pos := 0, ipos := ipos } = iterGo r f { pos := r.buf.length, ipos := ipos } := by
  cases f with
  | zero => rfl
  | succ f =>
    have h : ¬ (r.buf.length = 0) := by omega
    by_cases hi : ipos = 0
    · simp [iterGo, iterPrev, hi]
    · simp only [iterGo, iterPrev, Ring.len, h, hi, hpos, if_false, if_true]

/-- wrapped, first leg: from position `k ≤ p` down to cell 0, then the second leg -/
theorem iterGo_wrapped1 (r : Ring α) (p : Nat) (hp : 1 ≤ p) (hpL : p ≤ r.buf.length) (hpos : ¬ r.pos < 0) :
    ∀ (k f : Nat), k < p → k + (r.buf.length - p) ≤ f →
      iterGo r f { pos := k, ipos := (p : Int) } = (r.buf.take k).reverse ++ (r.buf.drop p).reverse := by
  intro k
  induction k with
  | zero =>
    intro f _ hf
    rw [iterGo_zero_eq_len r (by omega) hpos]
    have := iterGo_wrapped2 r p hp hpos (r.buf.length - p) f (by omega) (by omega)
    have e : p + (r.buf.length - p) = r.buf.length := by omega
    rw [e] at this
    rw [this, List.take_of_length_le (by simp)]; simp
  | succ k ih =>
    intro f hk hf
    cases f with
    | zero => omega
    | succ f =>
      have h0 : ¬ ((p : Int) = 0) := by omega
      have h1 : ¬ ((p : Int) < 0) := by omega
      have h3 : ¬ ((p : Int) = ((k + 1 : Nat) : Int)) := by omega
      have hx : r.buf[k]? = some r.buf[k] := List.getElem?_eq_getElem (by omega)
      simp only [iterGo, iterPrev, h0, h1, h3, hpos, if_false, Nat.add_one_ne_zero, Nat.add_sub_cancel, hx]
      rw [ih f (by omega) (by omega), take_succ_reverse r.buf k _ hx]; simp

/-- **the iterator loop of `iwrb.c` yields exactly `iterAll`** whenever the cursor is inside the buffer -/
theorem iterList_eq_iterAll (r : Ring α) (hL : 1 ≤ r.buf.length) (hb : r.pos.natAbs ≤ r.buf.length) :
    iterList r = iterAll r := by
  unfold iterList iterAll iterInit Ring.len
  by_cases hneg : r.pos < 0
  · have hng : ¬ r.pos > 0 := by omega
    simp only [hneg, hng, if_true, if_false]
    exact iterGo_unwrapped r hneg _ _ _ (by omega) hb (by omega)
  · by_cases h0 : r.pos = 0
    · simp [h0, iterGo, iterPrev]
    · have hgt : r.pos > 0 := by omega
      simp only [hneg, h0, hgt, if_true, if_false]
      have hp : r.pos = (r.pos.natAbs : Int) := by omega
      generalize r.pos.natAbs = p at hb hp
      have h1 : ¬ (-r.pos = 0) := by omega
      have h2 : -r.pos < 0 := by omega
      have h3 : ¬ (p = 0) := by omega
      have hx : r.buf[p - 1]? = some r.buf[p - 1] := List.getElem?_eq_getElem (by omega)
      simp only [iterGo, iterPrev, h1, h2, hneg, h3, if_false, if_true, hx]
      have e : - -r.pos = (p : Int) := by omega
      rw [e, iterGo_wrapped1 r p (by omega) hb hneg (p - 1) _ (by omega) (by omega)]
      have := take_succ_reverse r.buf (p - 1) _ hx
      have e2 : p - 1 + 1 = p := by omega
      rw [e2] at this
      rw [this]; simp

theorem rep_bounds {L : Nat} {r : Ring α} {s : RRef α} (h : Rep L r s) : r.pos.natAbs ≤ r.buf.length := by
  obtain ⟨hlen, rest, hbuf, hc⟩ := h
  have : s.a.length ≤ r.buf.length := by rw [hbuf]; simp
  cases hw : s.wrapped with
  | true => simp only [hw, if_true] at hc; omega
  | false => simp only [hw, Bool.false_eq_true, if_false] at hc; omega

end IwModel.Ring
